(* Proofs/ProgramProofs.v — WHOLE-PROGRAM composition (work package H): the adapter lemmas between
   the component models and the composition theorem

     program_correct : 0 < bs -> domain files -> gate_passed bs files -> complete cap o files sched ->
                       program_m cap bs rps sched o files = POk (program_spec o files)

   with its corollaries (block-size independence of the whole output — C12; schedule independence
   of the whole output — C06; summary totals = measures of that output — C19; stripping the
   decoration of the whole output leaves the undecorated output — C13).  The components are NOT
   re-proved: every step below is an existing component theorem plus an adapter lemma.

     adapter                                              component theorem it feeds / uses
     ---------------------------------------------------  ------------------------------------------------
     gsearch_refines (bmatch/endgame/.../stream _ref)     the search loop over the block reader = Model/Search.v
     linear_from_mono, stream_mono                        fuel of Search.linear / Search.stream is monotone
     pick_find, pick_at, pick_idem                        LinesSpec.pick_group = Search.find_in on the layout
     find_sysline_struct, from_find_line_ok,              every Line of a found Sysline is a find_line result:
       chain_parts_nonempty                               non-empty parts (the printer's precondition)
     find_sysline_no_message                              C02 loop_a_bwd, finish_sysline: Done (no fault) in a file with no dated line
     reader_find_rel            (A1)                      C02 find_sysline_correct  =>  the `find` oracle of C03
     worker_stream                                        C03 text_out_correct, linear_total
     pmsg_sim, decorate_ext, sem_sim   (A3, message)      C13 variants_agree
     run_render, render_sim, run_stdout_sim               C13 step_stdout / step_lasts
     run_totals_sim                                       C19 total_bytes_payload, message_counters, first_last_printed
     lookup_tags, printed_events  (A2 / A3, tags)         C01 merge_is_stable_sort, stable_sort_perm
     spec_sources_sorted                                  hypothesis of C01 merge_is_stable_sort
     program_correct                                      C06 reachable_run, final_output_unique
   Source kinds other than year-bearing text (second stage):
     records_worker_correct, records_spec_sorted          C08 records_sent_K2_correct, table_as_bytes_is_render, stable_sort_sorted
     index_recs_tv, tv_leb_inst                           time value of the i-th entry = decode of its slice; order of time values = order of instants
     evtx_worker_correct, evtx_spec_sorted                C10 evtx_out_correct, spec_events_sorted
     journal_worker_correct                               C09 journal_out_correct_l
     nl_split_lines, kmsg_*_sim                           the printer's wf_msg for event / journal / record messages
     yearless_instants, yearless_true_instants            C11 walk_length, assign_true_years
   Third stage:
     journal_emit_spec, journal_spec_sorted               C09 render model (Model/JournalRender.v): next_entry_no_panic_l, src_formats_ok
     walk_until_prefix, early_stop_spec_eq                C11 theorem 7 (early stop of the year walk), finding F17 excluded by hypothesis
     ProgramCaches.{plain,streamed}_driver_struct         work package A's driver inductions with "the i-th emitted object represents the
                                                          i-th selected message at its offset" (find_step, stream_call, drop_try_ok,
                                                          c_find_between_fw, c_drop_data_try_fw, gate_SFW, c_gate_ok_plain)
     ssl_ok_parts, repr_msgs, win_scan_at_window          a represented Sysline has non-empty parts; its is_sysline_last flag (last_test);
                                                          forward scan = window on a chronological file
     cached_worker_stream, cached_text_worker_correct     the worker over the cached reader machine sends the windowed spec messages
     ssearch_refines (s_bmatch/s_endgame/... _ref)        the search loop with the reader STATE threaded through (Program.SSearch) = Model/Search.v,
                                                          invariant J: every call of a search started at fileoffset is at or after fileoffset
     cached_find_rel, dangling_step, cview_tosl  (A1)     work package A: c_find_sysline_ok, find_step, drop_try_ok, c_gate_ok_plain  =>  the `find`
                                                          oracle of C03 on a state whose dropped ranges lie before the search's fileoffset
     cached_win_stream, cached_win_worker_correct         C03 text_out_correct through ssearch_refines: a seekable file WITH a window
     program_correct (cached), program_pure_correct       finish_correct: coordinator + print site + summary, shared by both *)
From Coq Require Import List NArith ZArith Bool Arith Lia Sorted Permutation.
Import ListNotations.
From S4.Base Require Import Bytes Chunk.
From S4.Spec Require Import LinesSpec WindowSpec.
From S4.Spec Require RecordsSpec JournalSpec.
From S4.Model Require Lines Syslines Search Merge Coord Strftime Print Summary Gate GateSpec.
From S4.Model Require Calendar Year Records RecordRender LayoutDetect Evtx Journal.
From S4.Gen Require FixedStructTables.
From S4.Model Require Import Program.
From S4.Proofs Require LinesProofs SyslinesProofs SearchProofs MergeProofs CoordProofs PrintSem PrintVariants PrintStrip SummaryProofs.
From S4.Proofs Require StableSort RecordsProofs RecordRenderProofs FixedStructTablesOk EvtxProofs JournalWindow YearProofs JournalRenderBasic JournalRenderCfg.
From S4.Model Require JournalRender.
From S4.Gen Require JournalTables.
From S4.Model Require Caches.
From S4.Proofs Require CachesProofs CachesSysProofs CachesRunProofs CachesFwdRunProofs ProgramCaches.


(* ######################################################################## part 1 *)
Section Refine.
  Variable M : Type.
  Variable view : M -> Search.sl.
  Variable gfind : N -> gfres M.
  Variable P : M -> Prop.
  Variable gs : list Search.sl.
  Variable filesz : N.

  Definition frel (r : gfres M) (s : Search.fres) : Prop :=
    match r, s with
    | GFound fo m, Search.FFound x => view m = x /\ fo = Search.s_next x /\ P m
    | GDone, Search.FDone => True
    | _, _ => False
    end.
  Hypothesis Hfind : forall fo, frel (gfind fo) (Search.find gs fo).

  Definition vs (r : gsres M) : Search.sres :=
    match r with
    | GSFound fo m => Search.SFound fo (view m)
    | GSDone => Search.SDone
    | GSDoneErr c => Search.SDoneErr c
    | GSPanic c => Search.SPanic c
    | GSOutOfFuel => Search.SOutOfFuel
    | GSFault c => Search.SPanic (1000 + c)
    end.
  Definition okr (r : gsres M) : Prop :=
    match r with GSFound _ m => P m | GSFault _ => False | _ => True end.
  Definition vst (st : gbst M) : Search.bst :=
    Search.mkB (g_try_fo st) (g_try_fo_last st) (g_fo_a st) (g_fo_b st) (option_map view (g_last_found st)).
  Definition okst (st : gbst M) : Prop :=
    match g_last_found st with Some m => P m | None => True end.

  Definition orel (a : gbout M) (b : Search.bout) : Prop :=
    match a, b with
    | GContinue st', Search.Continue x => vst st' = x /\ okst st'
    | GReturn r, Search.Return x => vs r = x /\ okr r
    | _, _ => False
    end.

  Lemma endgame_ref a done st : okst st ->
    orel (g_endgame view gfind filesz a done st) (Search.endgame gs filesz a done (vst st)).
  Proof.
    intro OK. destruct st as [tf tl fa fb lf]. unfold g_endgame, Search.endgame, vst, okst in *.
    cbn [g_try_fo g_try_fo_last g_fo_a g_fo_b g_last_found Search.try_fo Search.try_fo_last
         Search.fo_a Search.fo_b Search.last_found] in *.
    destruct (done && (tf =? tl)%N); [cbn; auto|].
    destruct (negb (tf =? tl)%N); [cbn; auto|].
    destruct lf as [m|]; cbn [option_map]; [|cbn; auto].
    unfold g_is_last, Search.is_last.
    destruct ((Search.s_end (view m) =? filesz - 1)%N && (Search.s_beg (view m) <? tf)%N); [cbn; auto|].
    destruct (Search.s_beg (view m) <? tf)%N; [|cbn; auto].
    pose proof (Hfind (Search.s_next (view m))) as H. unfold frel in H.
    destruct (gfind (Search.s_next (view m))) as [fo mn| |c];
      destruct (Search.find gs (Search.s_next (view m))) as [x|]; try contradiction; [|cbn; auto].
    destruct H as (H1 & H2 & H3). subst x.
    destruct (Search.dt_after_or_before (Search.s_t (view m)) a);
      destruct (Search.dt_after_or_before (Search.s_t (view mn)) a); cbn; auto.
  Qed.

  Definition mrel (a : (bool * gbst M) + gsres M) (b : (bool * Search.bst) + Search.sres) : Prop :=
    match a, b with
    | inl (d, st'), inl (d', x) => d = d' /\ vst st' = x /\ okst st'
    | inr r, inr x => vs r = x /\ okr r
    | _, _ => False
    end.

  Lemma bmatch_ref a fo0 st : okst st ->
    mrel (g_bmatch view gfind a fo0 st) (Search.bmatch gs a fo0 (vst st)).
  Proof.
    intro OK. destruct st as [tf tl fa fb lf]. unfold g_bmatch, Search.bmatch, vst, okst in *.
    cbn [g_try_fo g_try_fo_last g_fo_a g_fo_b g_last_found Search.try_fo Search.try_fo_last
         Search.fo_a Search.fo_b Search.last_found] in *.
    pose proof (Hfind tf) as H. unfold frel in H.
    destruct (gfind tf) as [fo m| |c]; destruct (Search.find gs tf) as [x|]; try contradiction.
    - destruct H as (H1 & H2 & H3). subst x fo.
      destruct (Search.dt_after_or_before (Search.s_t (view m)) a).
      + cbn. auto.
      + destruct (tf =? fo0)%N; [cbn; auto|].
        destruct (fa <=? N.min (Search.s_beg (view m)) tf)%N; cbn; auto.
      + destruct (tf <=? Search.s_end (view m))%N; cbn; auto.
    - destruct (fa <=? fb)%N; cbn; auto.
  Qed.

  Lemma bstep_ref a fo0 st : okst st ->
    orel (g_bstep view gfind filesz a fo0 st) (Search.bstep gs filesz a fo0 (vst st)).
  Proof.
    intro OK. unfold g_bstep, Search.bstep.
    pose proof (bmatch_ref a fo0 st OK) as H. unfold mrel in H.
    destruct (g_bmatch view gfind a fo0 st) as [[d st']|r];
      destruct (Search.bmatch gs a fo0 (vst st)) as [[d' x]|x]; try contradiction.
    - destruct H as (-> & <- & OK'). apply endgame_ref. exact OK'.
    - exact H.
  Qed.

  Lemma bloop_ref a fo0 fuel : forall st, okst st ->
    vs (g_bloop view gfind filesz a fo0 fuel st) = Search.bloop gs filesz a fo0 fuel (vst st) /\
    okr (g_bloop view gfind filesz a fo0 fuel st).
  Proof.
    induction fuel as [|fuel IH]; intros st OK; [cbn; auto|].
    cbn [g_bloop Search.bloop].
    pose proof (bstep_ref a fo0 st OK) as H. unfold orel in H.
    destruct (g_bstep view gfind filesz a fo0 st) as [st'|r];
      destruct (Search.bstep gs filesz a fo0 (vst st)) as [x|x]; try contradiction.
    - destruct H as (<- & OK'). apply IH. exact OK'.
    - exact H.
  Qed.

  Lemma bsearch_ref a fo0 fuel :
    vs (g_bsearch view gfind filesz a fo0 fuel) = Search.bsearch gs filesz a fo0 fuel /\
    okr (g_bsearch view gfind filesz a fo0 fuel).
  Proof. unfold g_bsearch, Search.bsearch. apply (bloop_ref a fo0 fuel (g_bstart filesz fo0)). exact I. Qed.

  Lemma linear_from_ref a fuel : forall fo,
    vs (g_linear_from view gfind a fuel fo) = Search.linear_from gs a fuel fo /\
    okr (g_linear_from view gfind a fuel fo).
  Proof.
    induction fuel as [|fuel IH]; intro fo; [cbn; auto|].
    cbn [g_linear_from Search.linear_from].
    pose proof (Hfind fo) as H. unfold frel in H.
    destruct (gfind fo) as [fo' m| |c]; destruct (Search.find gs fo) as [x|]; try contradiction; [|cbn; auto].
    destruct H as (H1 & H2 & H3). subst x fo'.
    destruct (Search.dt_after_or_before (Search.s_t (view m)) a); cbn [vs okr Search.found]; auto.
  Qed.
End Refine.


(* ######################################################################## part 2 *)
(* fuel monotonicity of the fuelled loops of Model/Search.v *)
Lemma linear_from_mono gs a n : forall fo m,
  Search.linear_from gs a n fo <> Search.SOutOfFuel -> (n <= m)%nat ->
  Search.linear_from gs a m fo = Search.linear_from gs a n fo.
Proof.
  induction n as [|n IH]; intros fo m H L; [cbn in H; congruence|].
  destruct m as [|m]; [lia|]. cbn [Search.linear_from] in *.
  destruct (Search.find gs fo) as [s|]; [|reflexivity].
  destruct (Search.dt_after_or_before (Search.s_t s) a); try reflexivity.
  apply IH; [exact H|lia].
Qed.

Lemma stream_mono gs filesz streamed a b n : forall fo m,
  snd (Search.stream gs filesz n streamed a b fo) <> Search.NoFuel -> (n <= m)%nat ->
  Search.stream gs filesz m streamed a b fo = Search.stream gs filesz n streamed a b fo.
Proof.
  induction n as [|n IH]; intros fo m H L; [cbn in H; congruence|].
  destruct m as [|m]; [lia|]. cbn [Search.stream] in *.
  destruct (Search.find_between gs filesz streamed a b fo) as [fo' s| | | |]; try reflexivity.
  destruct (Search.is_last filesz s); [reflexivity|].
  destruct (Search.stream gs filesz n streamed a b fo') as [out st] eqn:E.
  rewrite (IH fo' m); [rewrite E; reflexivity| rewrite E; exact H | lia].
Qed.

Section Refine2.
  Variable M : Type.
  Variable view : M -> Search.sl.
  Variable gfind : N -> gfres M.
  Variable P : M -> Prop.
  Variable gs : list Search.sl.
  Variable filesz : N.
  Hypothesis Hfind : forall fo, frel M view P (gfind fo) (Search.find gs fo).
  Hypothesis Hlin : forall a fo, Search.linear gs a fo (Search.lfuel gs) <> Search.SOutOfFuel.
  Hypothesis Hlen : (Search.lfuel gs <= g_lfuel filesz)%nat.

  Notation vs := (vs M view).
  Notation okr := (okr M P).

  Lemma find_at_ref streamed a fo :
    vs (g_find_at view gfind filesz streamed a fo) = Search.find_at gs filesz streamed a fo /\
    okr (g_find_at view gfind filesz streamed a fo).
  Proof.
    unfold g_find_at, Search.find_at. destruct streamed.
    - unfold g_linear.
      destruct (linear_from_ref M view gfind P gs Hfind a (g_lfuel filesz) fo) as [E O].
      split; [|exact O]. rewrite E. apply linear_from_mono; [apply Hlin|exact Hlen].
    - apply bsearch_ref. exact Hfind.
  Qed.

  Lemma find_between_ref streamed a b fo :
    vs (g_find_between view gfind filesz streamed a b fo) = Search.find_between gs filesz streamed a b fo /\
    okr (g_find_between view gfind filesz streamed a b fo).
  Proof.
    unfold g_find_between, Search.find_between.
    destruct (find_at_ref streamed a fo) as [E O]. rewrite <- E.
    destruct (g_find_at view gfind filesz streamed a fo) as [fo' m| | | | |]; cbn [vs]; auto.
    destruct (Search.dt_pass_filters (Search.s_t (view m)) a b); cbn; auto.
  Qed.

  Definition vstat (st : gstatus) : Search.status :=
    match st with
    | GOk => Search.Ok | GErr c => Search.Err c | GPanicked c => Search.Panicked c
    | GNoFuel => Search.NoFuel | GFaulted c => Search.Panicked (1000 + c)
    end.

  Lemma stream_ref streamed a b fuel : forall fo,
    let r := g_stream view gfind filesz fuel streamed a b fo in
    (map (fun mb => view (fst mb)) (fst r), vstat (snd r)) = Search.stream gs filesz fuel streamed a b fo /\
    Forall (fun mb => P (fst mb) /\ snd mb = g_is_last view filesz (fst mb)) (fst r) /\
    (forall c, snd r <> GFaulted c).
  Proof.
    induction fuel as [|fuel IH]; intro fo; cbn zeta; [cbn; repeat split; auto; discriminate|].
    cbn [g_stream Search.stream].
    destruct (find_between_ref streamed a b fo) as [E O]. rewrite <- E.
    destruct (g_find_between view gfind filesz streamed a b fo) as [fo' m| | | | |]; cbn [vs okr] in *;
      try contradiction; try (cbn; repeat split; auto; discriminate).
    unfold g_is_last in *. unfold Search.is_last.
    destruct (Search.s_end (view m) =? filesz - 1)%N eqn:L.
    - cbn. repeat split; auto; try discriminate.
    - specialize (IH fo'). cbn zeta in IH.
      destruct (g_stream view gfind filesz fuel streamed a b fo') as [out st].
      destruct IH as (IH1 & IH2 & IH3). cbn [fst snd] in *. rewrite <- IH1. cbn [map fst snd].
      repeat split; auto.
  Qed.

  Lemma gsearch_refines streamed a b out :
    Search.text_out gs filesz streamed a b = (out, Search.Ok) ->
    exists ms, g_text_out view gfind filesz streamed a b = (ms, GOk) /\
               map (fun mb => view (fst mb)) ms = out /\
               Forall (fun mb => P (fst mb) /\ snd mb = g_is_last view filesz (fst mb)) ms.
  Proof.
    intro T. unfold g_text_out. unfold Search.text_out in T.
    pose proof (stream_ref streamed a b (g_lfuel filesz) 0%N) as H. cbn zeta in H.
    destruct (g_stream view gfind filesz (g_lfuel filesz) streamed a b 0) as [ms st]. cbn [fst snd] in H.
    destruct H as (H1 & H2 & H3).
    rewrite (stream_mono gs filesz streamed a b (S (length gs)) 0%N (g_lfuel filesz)) in H1.
    - rewrite T in H1. inversion H1 as [[E1 E2]].
      exists ms. split; [|split; [reflexivity|exact H2]]. f_equal.
      destruct st; cbn in E2; try discriminate; reflexivity.
    - rewrite T. discriminate.
    - exact Hlen.
  Qed.
End Refine2.


(* ######################################################################## part 2b *)
(* the search loop with the reader STATE threaded through (Program.SSearch) against Model/Search.v: every call of
   a search started at `fileoffset` is at or after `fileoffset` (invariant J), so a reader state that answers every
   call at or after lo as the layout says (Inv s lo) is enough; drop_data_try of a message that begins before lo
   keeps it *)
From S4.Proofs Require SearchProofs.
Local Open Scope N_scope.
Section SRefine.
  Variables (St M : Type) (view : M -> Search.sl) (sfind : St -> N -> St * gfres M) (sdrop : St -> M -> St).
  Variable P : M -> Prop.
  Variable gs : list Search.sl.
  Variable filesz : N.
  (* the reader state answers every call at or after lo as the layout says *)
  Variable Inv : St -> N -> Prop.
  Hypothesis Inv_mono : forall s lo lo', Inv s lo -> lo <= lo' -> Inv s lo'.
  Hypothesis Hfind : forall s lo fo, Inv s lo -> lo <= fo ->
    Inv (fst (sfind s fo)) lo /\ frel M view P (snd (sfind s fo)) (Search.find gs fo).
  Hypothesis Hdrop : forall s lo p, Inv s lo -> P p -> Search.s_beg (view p) <= lo -> Inv (sdrop s p) lo.
  Hypothesis Hbound : forall fo x, Search.find gs fo = Search.FFound x -> Search.s_next x <= filesz.

  Notation vs := (vs M view).
  Notation vst := (vst M view).

  Lemma find_next fo x : Search.find gs fo = Search.FFound x -> fo < Search.s_next x.
  Proof. intro E. destruct (SearchProofs.find_in_split gs fo x E) as (p & r & _ & _ & L). exact L. Qed.

  Definition okm (fo0 : N) (m : M) : Prop := P m /\ fo0 <= Search.s_next (view m) /\ Search.s_next (view m) <= filesz.
  Definition J (fo0 : N) (st : gbst M) : Prop :=
    fo0 <= g_try_fo st /\ fo0 <= g_fo_a st /\ fo0 <= g_fo_b st /\
    match g_last_found st with Some m => okm fo0 m | None => True end.
  Definition okr' (fo0 : N) (r : gsres M) : Prop :=
    match r with
    | GSFound fo m => okm fo0 m /\ fo = Search.s_next (view m)
    | GSFault _ => False
    | _ => True
    end.
  Definition orel' (fo0 : N) (a : gbout M) (b : Search.bout) : Prop :=
    match a, b with
    | GContinue st', Search.Continue x => vst st' = x /\ J fo0 st'
    | GReturn r, Search.Return x => vs r = x /\ okr' fo0 r
    | _, _ => False
    end.

  (* one call of the stateful find at or after the search's fileoffset *)
  Lemma sfind_at s fo0 fo : Inv s fo0 -> fo0 <= fo ->
    Inv (fst (sfind s fo)) fo0 /\
    match snd (sfind s fo), Search.find gs fo with
    | GFound n m, Search.FFound x => view m = x /\ n = Search.s_next x /\ okm fo0 m
    | GDone, Search.FDone => True
    | _, _ => False
    end.
  Proof.
    intros I L. destruct (Hfind s fo0 fo I L) as [I' H]. split; [exact I'|].
    unfold frel in H. destruct (snd (sfind s fo)) as [n m| |c]; destruct (Search.find gs fo) as [x|] eqn:F; try contradiction; [|exact Logic.I].
    destruct H as (H1 & H2 & H3). split; [exact H1|]. split; [exact H2|]. subst x.
    pose proof (find_next _ _ F). pose proof (Hbound _ _ F). unfold okm. repeat split; try assumption; lia.
  Qed.

  Lemma s_endgame_ref a fo0 done st s : Inv s fo0 -> J fo0 st ->
    Inv (fst (s_endgame view sfind filesz a done st s)) fo0 /\
    orel' fo0 (snd (s_endgame view sfind filesz a done st s)) (Search.endgame gs filesz a done (vst st)).
  Proof.
    intros I JJ. destruct st as [tf tl fa fb lf]. unfold s_endgame, Search.endgame, ProgramProofs.vst, J in *.
    cbn [g_try_fo g_try_fo_last g_fo_a g_fo_b g_last_found Search.try_fo Search.try_fo_last
         Search.fo_a Search.fo_b Search.last_found] in *.
    destruct (done && (tf =? tl)%N); [cbn; auto|].
    destruct (negb (tf =? tl)%N); [cbn; auto|].
    destruct lf as [m|]; cbn [option_map]; [|cbn; auto].
    destruct JJ as (J1 & J2 & J3 & OKM).
    unfold g_is_last, Search.is_last.
    destruct ((Search.s_end (view m) =? filesz - 1)%N && (Search.s_beg (view m) <? tf)%N); [cbn; auto|].
    destruct (Search.s_beg (view m) <? tf)%N; [|cbn; split; [exact I|]; split; [reflexivity|]; split; [exact OKM|reflexivity]].
    destruct (sfind_at s fo0 (Search.s_next (view m)) I ltac:(destruct OKM as (_ & X & _); exact X)) as [I' H].
    destruct (sfind s (Search.s_next (view m))) as [s' r]. cbn [fst snd] in *.
    destruct r as [fo mn| |c]; destruct (Search.find gs (Search.s_next (view m))) as [x|]; try contradiction; [|cbn; auto].
    destruct H as (H1 & H2 & H3). subst x. cbn [fst snd]. split; [exact I'|].
    destruct (Search.dt_after_or_before (Search.s_t (view m)) a);
      destruct (Search.dt_after_or_before (Search.s_t (view mn)) a); cbn; auto.
  Qed.
  Definition mrel' (fo0 : N) (a : (bool * gbst M) + gsres M) (b : (bool * Search.bst) + Search.sres) : Prop :=
    match a, b with
    | inl (d, st'), inl (d', x) => d = d' /\ vst st' = x /\ J fo0 st'
    | inr r, inr x => vs r = x /\ okr' fo0 r
    | _, _ => False
    end.

  Lemma s_bmatch_ref a fo0 st s : Inv s fo0 -> J fo0 st ->
    Inv (fst (s_bmatch view sfind a fo0 s st)) fo0 /\
    mrel' fo0 (snd (s_bmatch view sfind a fo0 s st)) (Search.bmatch gs a fo0 (vst st)).
  Proof.
    intros I JJ. destruct st as [tf tl fa fb lf]. unfold s_bmatch, Search.bmatch, ProgramProofs.vst, J in *.
    cbn [g_try_fo g_try_fo_last g_fo_a g_fo_b g_last_found Search.try_fo Search.try_fo_last
         Search.fo_a Search.fo_b Search.last_found] in *.
    destruct JJ as (J1 & J2 & J3 & OKL).
    destruct (sfind_at s fo0 tf I J1) as [I' H].
    destruct (sfind s tf) as [s' r]. cbn [fst snd] in *.
    destruct r as [fo m| |c]; destruct (Search.find gs tf) as [x|] eqn:F; try contradiction; cbn [fst snd]; (split; [exact I'|]).
    - destruct H as (H1 & H2 & OKM). subst x fo.
      pose proof (find_next _ _ F) as NX.
      destruct (Search.dt_after_or_before (Search.s_t (view m)) a).
      + cbn. auto.
      + destruct (tf =? fo0)%N; [cbn; auto|].
        destruct (N.leb_spec fa (N.min (Search.s_beg (view m)) tf)); cbn -[N.min N.div N.add N.sub N.le]; [|auto].
        split; [reflexivity|]. split; [reflexivity|].
        split; [eapply N.le_trans; [exact J2|apply N.le_add_r]|]. split; [exact J2|]. split; [eapply N.le_trans; [exact J2|exact H]|exact OKM].
      + destruct (N.leb_spec tf (Search.s_end (view m))); cbn -[N.min N.div N.add N.sub N.le]; [|auto].
        split; [reflexivity|]. split; [reflexivity|].
        assert (A : fo0 <= N.min (Search.s_end (view m)) fb) by lia.
        split; [eapply N.le_trans; [exact A|apply N.le_add_r]|]. split; [exact A|]. split; [exact J3|exact OKM].
    - destruct (N.leb_spec fa fb); cbn -[N.min N.div N.add N.sub N.le]; [|auto].
      split; [reflexivity|]. split; [reflexivity|].
      split; [eapply N.le_trans; [exact J2|apply N.le_add_r]|]. split; [exact J2|]. split; [exact J3|exact OKL].
  Qed.

  Lemma s_bstep_ref a fo0 st s : Inv s fo0 -> J fo0 st ->
    Inv (fst (s_bstep view sfind filesz a fo0 s st)) fo0 /\
    orel' fo0 (snd (s_bstep view sfind filesz a fo0 s st)) (Search.bstep gs filesz a fo0 (vst st)).
  Proof.
    intros I JJ. unfold s_bstep, Search.bstep.
    destruct (s_bmatch_ref a fo0 st s I JJ) as [I' H]. unfold mrel' in H.
    destruct (s_bmatch view sfind a fo0 s st) as [s' [[d st']|r]]; cbn [fst snd] in *;
      destruct (Search.bmatch gs a fo0 (vst st)) as [[d' x]|x]; try contradiction.
    - destruct H as (-> & <- & JJ'). apply s_endgame_ref; assumption.
    - cbn [fst snd]. split; [exact I'|exact H].
  Qed.

  Lemma s_bloop_ref a fo0 fuel : forall s st, Inv s fo0 -> J fo0 st ->
    Inv (fst (s_bloop view sfind filesz a fo0 fuel s st)) fo0 /\
    vs (snd (s_bloop view sfind filesz a fo0 fuel s st)) = Search.bloop gs filesz a fo0 fuel (vst st) /\
    okr' fo0 (snd (s_bloop view sfind filesz a fo0 fuel s st)).
  Proof.
    induction fuel as [|fuel IH]; intros s st I JJ; [cbn; auto|].
    cbn [s_bloop Search.bloop].
    destruct (s_bstep_ref a fo0 st s I JJ) as [I' H]. unfold orel' in H.
    destruct (s_bstep view sfind filesz a fo0 s st) as [s' [st'|r]]; cbn [fst snd] in *;
      destruct (Search.bstep gs filesz a fo0 (vst st)) as [x|x]; try contradiction.
    - destruct H as (<- & JJ'). apply IH; assumption.
    - cbn [fst snd]. split; [exact I'|exact H].
  Qed.

  Lemma s_find_between_ref a b fo0 s : Inv s fo0 -> fo0 <= filesz ->
    Inv (fst (s_find_between view sfind filesz a b fo0 s)) fo0 /\
    vs (snd (s_find_between view sfind filesz a b fo0 s)) = Search.find_between gs filesz false a b fo0 /\
    okr' fo0 (snd (s_find_between view sfind filesz a b fo0 s)).
  Proof.
    intros I L. unfold s_find_between, Search.find_between, Search.find_at, s_bsearch, Search.bsearch.
    assert (J0 : J fo0 (g_bstart filesz fo0)) by (unfold J, g_bstart; cbn; repeat split; lia).
    destruct (s_bloop_ref a fo0 (Search.bfuel filesz) s (g_bstart filesz fo0) I J0) as (I' & E & O).
    change (vst (g_bstart filesz fo0)) with (Search.bstart filesz fo0) in E.
    rewrite <- E.
    destruct (s_bloop view sfind filesz a fo0 (Search.bfuel filesz) s (g_bstart filesz fo0)) as [s' r]. cbn [fst snd] in *.
    destruct r as [fo' m| | | | |]; cbn [fst snd ProgramProofs.vs]; try (split; [exact I'|split; [reflexivity|exact O]]).
    destruct (Search.dt_pass_filters (Search.s_t (view m)) a b); cbn; auto.
  Qed.

  Lemma s_stream_ref a b plan fuel : forall i s fo prev,
    Inv s fo -> fo <= filesz ->
    match prev with Some p => P p /\ Search.s_beg (view p) <= fo | None => True end ->
    let r := snd (s_stream view sfind sdrop filesz fuel a b plan i s fo prev) in
    (map (fun mb => view (fst mb)) (fst r), vstat (snd r)) = Search.stream gs filesz fuel false a b fo /\
    Forall (fun mb => P (fst mb) /\ snd mb = g_is_last view filesz (fst mb)) (fst r) /\
    (forall c, snd r <> GFaulted c).
  Proof.
    induction fuel as [|fuel IH]; intros i s fo prev I L PV; cbn zeta; [cbn; repeat split; auto; discriminate|].
    cbn [s_stream Search.stream].
    destruct (s_find_between_ref a b fo s I L) as (I1 & E & O). rewrite <- E.
    destruct (s_find_between view sfind filesz a b fo s) as [s1 r1]. cbn [fst snd] in *.
    destruct r1 as [fo' m| | | | |]; cbn [ProgramProofs.vs okr'] in *;
      try contradiction; try (cbn; repeat split; auto; discriminate).
    destruct O as ((PM & LO & HI) & EF). subst fo'.
    unfold g_is_last in *. unfold Search.is_last.
    destruct (Search.s_end (view m) =? filesz - 1)%N eqn:LST.
    - cbn. repeat split; auto; try discriminate.
    - assert (I1' : Inv s1 (Search.s_next (view m))) by (eapply Inv_mono; [exact I1|exact LO]).
      set (s2i := match prev with
                  | Some p => (if Caches.plan_at plan i then sdrop s1 p else s1, S i)
                  | None => (s1, i)
                  end).
      assert (I2 : Inv (fst s2i) (Search.s_next (view m))).
      { subst s2i. destruct prev as [p|]; cbn [fst]; [|exact I1'].
        destruct (Caches.plan_at plan i); [|exact I1']. destruct PV as [PP PB]. apply Hdrop; [exact I1'|exact PP|lia]. }
      destruct s2i as [s2 i2]. cbn [fst] in I2.
      assert (PV' : P m /\ Search.s_beg (view m) <= Search.s_next (view m)) by (split; [exact PM|unfold Search.s_next; lia]).
      specialize (IH i2 s2 (Search.s_next (view m)) (Some m) I2 HI PV'). cbn zeta in IH.
      destruct (s_stream view sfind sdrop filesz fuel a b plan i2 s2 (Search.s_next (view m)) (Some m)) as [s3 [out st]].
      cbn [fst snd] in *. destruct IH as (IH1 & IH2 & IH3). rewrite <- IH1. cbn [map fst snd].
      repeat split; auto.
  Qed.

  Hypothesis Hlen : (Search.lfuel gs <= g_lfuel filesz)%nat.

  Lemma ssearch_refines a b plan s0 out : Inv s0 0 ->
    Search.text_out gs filesz false a b = (out, Search.Ok) ->
    exists ms, snd (s_stream view sfind sdrop filesz (g_lfuel filesz) a b plan 0 s0 0 None) = (ms, GOk) /\
               map (fun mb => view (fst mb)) ms = out /\
               Forall (fun mb => P (fst mb) /\ snd mb = g_is_last view filesz (fst mb)) ms.
  Proof.
    intros I0 T. unfold Search.text_out in T.
    pose proof (s_stream_ref a b plan (g_lfuel filesz) 0%nat s0 0 None I0 (N.le_0_l _) Logic.I) as H. cbn zeta in H.
    destruct (snd (s_stream view sfind sdrop filesz (g_lfuel filesz) a b plan 0 s0 0 None)) as [ms st]. cbn [fst snd] in H.
    destruct H as (H1 & H2 & H3).
    rewrite (stream_mono gs filesz false a b (S (length gs)) 0%N (g_lfuel filesz)) in H1.
    - rewrite T in H1. inversion H1 as [[E1 E2]].
      exists ms. split; [|split; [reflexivity|exact H2]]. f_equal.
      destruct st; cbn in E2; try discriminate; reflexivity.
    - rewrite T. discriminate.
    - exact Hlen.
  Qed.
End SRefine.

Local Close Scope N_scope.


(* ######################################################################## part 3 *)
Local Open Scope N_scope.
(* ---------------------------------------------------------------- spec groups as a Search layout *)
Definition glen (g : group) : N := lenN (group_bytes g).
Definition lay_of (gs : list group) : Search.layout := map (fun g => (glen g, fst g)) gs.
Definition tosl (x : N * group) : Search.sl := Search.mkSl (fst x) (glen (snd x)) (fst (snd x)).

Lemma place_tosl gs : forall b, Search.place b (lay_of gs) = map tosl (with_offsets b gs).
Proof.
  induction gs as [|g gs IH]; intro b; [reflexivity|].
  cbn [lay_of map Search.place with_offsets]. fold (lay_of gs). rewrite IH. reflexivity.
Qed.

(* picking a spec group by offset IS the find oracle of Model/Search.v *)
Lemma pick_find fo : forall SA,
  match pick_group fo SA with
  | Some (e, b, g) => Search.find_in (map tosl SA) fo = Search.FFound (tosl (b, g)) /\ e = b + glen g
  | None => Search.find_in (map tosl SA) fo = Search.FDone
  end.
Proof.
  induction SA as [|[b g] SA IH]; [reflexivity|].
  cbn [pick_group map Search.find_in].
  replace (Search.s_next (tosl (b, g))) with (b + glen g) by reflexivity.
  fold (glen g). destruct (fo <? b + glen g); [split; reflexivity|exact IH].
Qed.

Lemma offsets_ge gs : forall o x, In x (with_offsets o gs) -> o <= fst x.
Proof.
  induction gs as [|g gs IH]; intros o x H; [destruct H|].
  cbn [with_offsets] in H. destruct H as [<-|H]; [cbn; lia|].
  apply IH in H. lia.
Qed.

Lemma pick_in fo : forall SA e b g, pick_group fo SA = Some (e, b, g) -> In (b, g) SA /\ e = b + glen g /\ fo < e.
Proof.
  induction SA as [|[b0 g0] SA IH]; intros e b g H; [discriminate|].
  cbn [pick_group] in H. fold (glen g0) in H.
  destruct (N.ltb_spec fo (b0 + glen g0)).
  - inversion H; subst. repeat split; auto. left; reflexivity.
  - destruct (IH _ _ _ H) as (A & B & C). repeat split; auto. right; exact A.
Qed.

Lemma pick_at gs : Forall (fun g => 1 <= glen g) gs -> forall o x, In x (with_offsets o gs) ->
  pick_group (fst x) (with_offsets o gs) = Some (fst x + glen (snd x), fst x, snd x).
Proof.
  induction 1 as [|g gs L _ IH]; intros o x H; [destruct H|].
  cbn [with_offsets] in *. fold (glen g) in *. cbn [pick_group]. fold (glen g).
  destruct H as [<-|H].
  - cbn [fst snd]. destruct (N.ltb_spec o (o + glen g)); [reflexivity|lia].
  - pose proof (offsets_ge _ _ _ H). destruct (N.ltb_spec (fst x) (o + glen g)); [lia|]. apply IH. exact H.
Qed.

Lemma pick_idem gs o fo e b g : Forall (fun g => 1 <= glen g) gs ->
  pick_group fo (with_offsets o gs) = Some (e, b, g) -> pick_group b (with_offsets o gs) = Some (e, b, g).
Proof.
  intros L H. destruct (pick_in _ _ _ _ _ H) as (A & -> & _).
  exact (pick_at gs L o (b, g) A).
Qed.

(* ---------------------------------------------------------------- structure of what the reader returns *)
Section Struct.
  Variable dated : list N -> option Z.

  Definition from_find_line (bs : N) (f : file) (ln : Lines.line) : Prop :=
    exists fo fo2, Lines.find_line_m bs f fo = Lines.Found (fo2, ln).

  Lemma loop_a_struct bs f : forall fuel fo1 z mx dt ln e,
    Syslines.loop_a dated fuel bs f fo1 z mx = Lines.Found (dt, ln, e) -> from_find_line bs f ln.
  Proof.
    induction fuel as [|fuel IH]; intros fo1 z mx dt ln e H; [discriminate|].
    cbn [Syslines.loop_a] in H.
    destruct (Lines.find_line_m bs f fo1) as [[fo2 l]| | |] eqn:E; try discriminate.
    destruct (dated (Lines.bytes_of bs f l)).
    - destruct (Lines.line_fo_end bs l); [|discriminate]. inversion H; subst. exists fo1, fo2. exact E.
    - destruct (Lines.line_fo_begin bs l); [|discriminate].
      destruct z; [eapply IH; exact H|].
      destruct (1 <? n); eapply IH; exact H.
  Qed.

  Lemma loop_b_struct bs f : forall fuel fo1 acc n lns,
    Syslines.loop_b dated fuel bs f fo1 acc = Lines.Found (n, lns) ->
    Forall (from_find_line bs f) acc -> acc <> [] ->
    Forall (from_find_line bs f) lns /\ lns <> [].
  Proof.
    induction fuel as [|fuel IH]; intros fo1 acc n lns H A NE; [discriminate|].
    cbn [Syslines.loop_b] in H.
    destruct (Lines.find_line_m bs f fo1) as [[fo2 l]| | |] eqn:E; try discriminate.
    - destruct (dated (Lines.bytes_of bs f l)).
      + inversion H; subst. auto.
      + eapply IH; [exact H| |].
        * apply Forall_app. split; [exact A|]. constructor; [|constructor]. exists fo1, fo2. exact E.
        * intro C. apply app_eq_nil in C as [_ C]. discriminate.
    - inversion H; subst. auto.
  Qed.

  Lemma find_sysline_struct bs f fo n sl :
    Syslines.find_sysline_m dated bs f fo = Lines.Found (n, sl) ->
    Forall (from_find_line bs f) (snd sl) /\ snd sl <> [].
  Proof.
    unfold Syslines.find_sysline_m, Syslines.find_sysline_fuel. intro H.
    destruct (Syslines.loop_a dated (2 * length f + 3) bs f fo false 0) as [[[dt ln] fo1]| | |] eqn:A; try discriminate.
    destruct (Syslines.loop_b dated (2 * length f + 3) bs f fo1 [ln]) as [[fob lns]| | |] eqn:B; try discriminate.
    inversion H; subst. cbn [snd].
    eapply loop_b_struct; [exact B| |discriminate].
    constructor; [|constructor]. eapply loop_a_struct. exact A.
  Qed.

  Lemma find_sysline_past_end bs (f : file) fo : lenN f <= fo -> Syslines.find_sysline_m dated bs f fo = Lines.Done.
  Proof.
    intro L. unfold Syslines.find_sysline_m, Syslines.find_sysline_fuel.
    replace (2 * length f + 3)%nat with (S (2 * length f + 2)) by lia. cbn [Syslines.loop_a].
    rewrite LinesProofs.find_line_done by exact L. reflexivity.
  Qed.

  Lemma dated_line_group ls d t : In d ls -> dated d = Some t -> snd (groups dated ls) <> [].
  Proof.
    induction ls as [|x r IH]; intros I D; [destruct I|].
    rewrite SyslinesProofs.groups_cons. destruct (dated x) eqn:DX; cbn [snd]; [discriminate|].
    destruct I as [<-|I]; [congruence|]. apply IH; assumption.
  Qed.

  (* a file without any dated line: find_sysline is Done at EVERY offset (not Panic, not OutOfFuel).
     C02's find_sysline_correct is an equation between observations in which Done, Panic and
     OutOfFuel all read None, so it does not say this; the proof follows its skeleton, with its
     own lemmas (loop_a_bwd, finish_sysline). *)
  Lemma find_sysline_no_message bs (f : file) fo : 0 < bs -> syslines dated f = [] ->
    Syslines.find_sysline_m dated bs f fo = Lines.Done.
  Proof.
    intros H NOG. unfold syslines in NOG.
    pose proof (SyslinesProofs.lines_wf f) as W. pose proof (SyslinesProofs.lines_concat f) as CF.
    destruct (N.lt_ge_cases fo (lenN f)) as [L|L]; [|apply find_sysline_past_end; exact L].
    rewrite <- CF in L. destruct (SyslinesProofs.locate (lines f) fo W L) as (before & l & after & E & L1 & L2).
    unfold Syslines.find_sysline_m, Syslines.find_sysline_fuel.
    set (fuel := (2 * length f + 3)%nat).
    assert (LEN : (length (lines f) <= length f)%nat).
    { pose proof (SyslinesProofs.wf_lines_len _ W) as WL. rewrite CF in WL. exact WL. }
    pose proof (SyslinesProofs.loop_a_bwd dated bs H before l [] after fuel fo 0) as LA. cbn [app] in LA.
    rewrite <- E in LA. specialize (LA W ltac:(intros u [])).
    assert (FU : (length before + length after + 3 < fuel)%nat).
    { subst fuel. rewrite E in LEN. rewrite app_length in LEN. cbn [length] in LEN. lia. }
    specialize (LA FU). cbv zeta in LA. rewrite CF in LA.
    specialize (LA L1 L2).
    assert (ME : N.max 0 (lenN (concat before) + lenN l) = lenN (concat (before ++ [l]))).
    { rewrite SyslinesProofs.concat_app_len. cbn [concat]. rewrite app_nil_r. lia. }
    specialize (LA ME).
    destruct (SyslinesProofs.last_dated_total dated (before ++ [l])) as (ld & LD). specialize (LA ld LD).
    set (E1 := lenN (concat (before ++ [l]))) in *.
    assert (SPLIT : lines f = (before ++ [l]) ++ after) by (rewrite E, <- app_assoc; reflexivity).
    destruct ld as [[[p t] d]|].
    - exfalso. destruct (SyslinesProofs.last_dated_shape dated _ _ _ _ LD) as (q & EQ & DD & UQ).
      apply (dated_line_group (lines f) d t); [|exact DD|exact NOG].
      rewrite SPLIT, EQ. apply in_or_app. left. apply in_or_app. right. left. reflexivity.
    - pose proof (SyslinesProofs.last_dated_none dated _ LD) as UN.
      pose proof (SyslinesProofs.finish_sysline dated bs H after (before ++ [l]) fuel
                    (Syslines.loop_a dated fuel bs f fo false 0)) as FS.
      rewrite <- SPLIT in FS. specialize (FS W).
      assert (FU2 : (length after < fuel)%nat) by lia.
      specialize (FS FU2). cbv zeta in FS. rewrite CF in FS. fold E1 in FS.
      specialize (FS LA). unfold SyslinesProofs.find_sysline_spec in FS.
      assert (GR : groups dated (lines f) =
                   ((before ++ [l]) ++ fst (groups dated after), snd (groups dated after))).
      { rewrite SPLIT. apply SyslinesProofs.groups_undated_app. exact UN. }
      rewrite GR in NOG. cbn [snd] in NOG. rewrite NOG in FS. exact FS.
  Qed.
End Struct.

Lemma line_end_lt (f : file) fo : fo < lenN f -> fo <= line_end f fo /\ line_end f fo < lenN f.
Proof.
  intro L. unfold line_end. destruct (find_nl (skipnN fo f)) as [d|] eqn:F.
  - apply find_nl_Some in F as [A _]. rewrite nthN_skipnN in A. apply nthN_Some_lt in A. lia.
  - lia.
Qed.

Lemma line_beg_le (f : file) fo : line_beg f fo <= fo.
Proof.
  unfold line_beg. destruct (rfind_nl (firstnN fo f)) as [i|] eqn:RF; [|lia].
  apply rfind_nl_Some in RF as [A _]. apply nthN_Some_lt in A. rewrite lenN_firstnN in A. lia.
Qed.

(* the parts of a chain inside the file are non-empty slices (the printer's precondition) *)
Lemma chain_parts_nonempty bs (f : file) ps : forall lo hi, LinesProofs.chain bs ps lo hi -> hi <= lenN f ->
  Forall (fun p => Lines.part_bytes bs f p <> []) ps.
Proof.
  induction ps as [|p ps IH]; intros lo hi C L; [constructor|].
  destruct C as (A1 & A2 & A3 & A4). constructor; [|eapply IH; eauto].
  unfold Lines.part_bytes. rewrite slice_block by exact A3.
  pose proof (LinesProofs.chain_le _ _ _ _ A4) as LE.
  intro E. assert (Z : lenN (slice f (Lines.part_bo p * bs + Lines.part_beg p) (Lines.part_bo p * bs + Lines.part_end p)) = 0)
    by (rewrite E; reflexivity).
  rewrite lenN_slice in Z by lia. lia.
Qed.

Definition line_parts_ok (bs : N) (f : file) (ln : Lines.line) : Prop :=
  ln <> [] /\ Forall (fun p => Lines.part_bytes bs f p <> []) ln /\ exists b, Lines.line_fo_begin bs ln = Some b.

Lemma from_find_line_ok bs (f : file) ln : 0 < bs -> from_find_line bs f ln -> line_parts_ok bs f ln.
Proof.
  intros H (fo & fo2 & E).
  destruct (N.lt_ge_cases fo (lenN f)) as [L|L].
  2:{ rewrite LinesProofs.find_line_done in E by exact L. discriminate. }
  destruct (LinesProofs.find_line_correct bs f fo H L) as (ps & R & C & _ & B & _).
  rewrite R in E. inversion E; subst ln.
  destruct (line_end_lt f fo L) as [L1 L2]. pose proof (line_beg_le f fo) as L3.
  repeat split.
  - eapply LinesProofs.chain_nonempty; [exact C|lia].
  - eapply chain_parts_nonempty; [exact C|lia].
  - eauto.
Qed.


(* ######################################################################## part 4 *)
Local Open Scope N_scope.
Lemma filter_map_comm {A B} (p : B -> bool) (h : A -> B) (l : list A) :
  filter p (map h l) = map h (filter (fun x => p (h x)) l).
Proof. induction l as [|x l IH]; [reflexivity|]. cbn. destruct (p (h x)); cbn; rewrite IH; reflexivity. Qed.

Lemma total_lay gs : Search.total (lay_of gs) = SyslinesProofs.total gs.
Proof.
  unfold SyslinesProofs.total. induction gs as [|g gs IH]; [reflexivity|].
  cbn [lay_of map Search.total concat]. fold (lay_of gs). rewrite IH, lenN_app. reflexivity.
Qed.

Lemma total_cons g gs : SyslinesProofs.total (g :: gs) = glen g + SyslinesProofs.total gs.
Proof. unfold SyslinesProofs.total. cbn [map concat]. rewrite lenN_app. reflexivity. Qed.

Lemma length_le_total gs : Forall (fun g => 1 <= glen g) gs -> N.of_nat (length gs) <= SyslinesProofs.total gs.
Proof.
  induction 1 as [|g gs L _ IH]; [cbn; lia|]. rewrite total_cons. cbn [length]. lia.
Qed.

Lemma pick_some_lt gs : gs <> [] -> forall o fo, fo < o + SyslinesProofs.total gs ->
  pick_group fo (with_offsets o gs) <> None.
Proof.
  induction gs as [|g r IH]; intros NE o fo L; [congruence|].
  cbn [with_offsets pick_group]. fold (glen g). rewrite total_cons in L.
  destruct (N.ltb_spec fo (o + glen g)); [discriminate|].
  destruct r as [|g' r'].
  - unfold SyslinesProofs.total in L. cbn in L. lia.
  - apply IH; [discriminate|lia].
Qed.

Lemma nondecreasing_map {A B} (t : B -> Z) (h : A -> B) (l : list A) :
  nondecreasing t (map h l) = nondecreasing (fun x => t (h x)) l.
Proof.
  induction l as [|x l IH]; [reflexivity|]. destruct l as [|y l]; [reflexivity|].
  cbn [map nondecreasing] in *. rewrite IH. reflexivity.
Qed.

Lemma nondecreasing_offsets gs : forall o,
  nondecreasing (fun x : N * group => fst (snd x)) (with_offsets o gs) = nondecreasing fst gs.
Proof.
  induction gs as [|g gs IH]; intro o; [reflexivity|]. destruct gs as [|g' gs]; [reflexivity|].
  cbn [with_offsets nondecreasing snd fst] in *. rewrite IH. reflexivity.
Qed.

(* is-last flags: the group whose end is the end of the file is the last one *)
Lemma flags_mark_last gs : Forall (fun g => 1 <= glen g) gs -> forall o F, o + SyslinesProofs.total gs = F ->
  map (fun x : N * group => (snd x, fst x + glen (snd x) =? F)) (with_offsets o gs) = mark_last gs.
Proof.
  induction 1 as [|g r L R IH]; intros o F E; [reflexivity|].
  rewrite total_cons in E. cbn [with_offsets map mark_last fst snd]. fold (glen g).
  destruct r as [|g' r'].
  - unfold SyslinesProofs.total in E. cbn in E. cbn [with_offsets map].
    destruct (N.eqb_spec (o + glen g) F); [reflexivity|lia].
  - pose proof (Forall_inv R) as L'. cbn beta in L'. rewrite total_cons in E.
    destruct (N.eqb_spec (o + glen g) F); [lia|].
    f_equal. apply IH. rewrite total_cons. lia.
Qed.

Lemma offsets_le gs : forall o x, In x (with_offsets o gs) -> fst x + glen (snd x) <= o + SyslinesProofs.total gs.
Proof.
  induction gs as [|g gs IH]; intros o x H; [destruct H|].
  cbn [with_offsets] in H. rewrite total_cons. fold (glen g) in H. destruct H as [<-|H]; [cbn; lia|].
  apply IH in H. lia.
Qed.

Lemma with_offsets_length gs : forall o, length (with_offsets o gs) = length gs.
Proof. induction gs as [|g r IH]; intro o; [reflexivity|]. cbn [with_offsets length]. f_equal. apply IH. Qed.

Section Reader.
  Variable dated : list N -> option Z.

  Definition Pm (bs : N) (f : file) (m : rmsg) : Prop :=
    pick_group (Search.s_beg (r_sl m)) (syslines_at dated f) =
      Some (Search.s_next (r_sl m), Search.s_beg (r_sl m), SyslinesProofs.obs_sysline bs f (r_sys m)) /\
    Forall (line_parts_ok bs f) (snd (r_sys m)) /\ snd (r_sys m) <> [].

  Definition gs_of (f : file) : list Search.sl :=
    Search.groups (first_dated_offset dated f) (lay_of (syslines dated f)).

  Lemma gs_of_tosl f : gs_of f = map tosl (syslines_at dated f).
  Proof. unfold gs_of, Search.groups, syslines_at. apply place_tosl. Qed.

  Lemma file_size f : first_dated_offset dated f + SyslinesProofs.total (syslines dated f) = lenN f.
  Proof.
    unfold first_dated_offset, leading, syslines.
    rewrite SyslinesProofs.groups_total, SyslinesProofs.lines_concat. reflexivity.
  Qed.

  Lemma fsize_gs f : Search.fsize (first_dated_offset dated f) (lay_of (syslines dated f)) = lenN f.
  Proof. unfold Search.fsize. rewrite total_lay. apply file_size. Qed.

  (* ADAPTER A1: the block-wise reader, observed through (begin, length, instant), IS the find
     oracle that Model/Search.v defines from the layout of the file's spec groups *)
  Lemma reader_find_rel bs (f : file) fo : 0 < bs ->
    Forall (fun g => 1 <= glen g) (syslines dated f) ->
    frel rmsg r_sl (Pm bs f) (reader_find dated bs f fo) (Search.find (gs_of f) fo).
  Proof.
    intros H L. unfold reader_find, Search.find. rewrite gs_of_tosl.
    assert (NOFAULT : forall r, Syslines.find_sysline_m dated bs f fo = r -> r <> Lines.Done ->
                      pick_group fo (syslines_at dated f) = None -> False).
    { intros r E ND C. destruct (N.lt_ge_cases fo (lenN f)) as [LT|GE].
      - destruct (syslines dated f) as [|g0 gs0] eqn:NE.
        + rewrite (find_sysline_no_message dated bs f fo H NE) in E. congruence.
        + revert C. unfold syslines_at. rewrite NE. apply pick_some_lt; [discriminate|].
          rewrite <- NE, file_size. exact LT.
      - rewrite (find_sysline_past_end dated bs f fo GE) in E. congruence. }
    pose proof (SyslinesProofs.find_sysline_correct dated bs f fo H) as C. unfold spec_find_sysline in C.
    pose proof (pick_find fo (syslines_at dated f)) as PF.
    destruct (Syslines.find_sysline_m dated bs f fo) as [[n sl]| | |] eqn:E.
    - destruct (find_sysline_struct dated bs f fo n sl E) as [FL NEL].
      assert (OK : Forall (line_parts_ok bs f) (snd sl)).
      { eapply Forall_impl; [|exact FL]. intros ln. apply from_find_line_ok. exact H. }
      assert (B : exists b, Syslines.sysline_fo_begin bs sl = Some b).
      { unfold Syslines.sysline_fo_begin. destruct (snd sl) as [|ln lns]; [congruence|].
        inversion OK as [|? ? (_ & _ & B) _]. exact B. }
      destruct B as [b B]. cbn [SyslinesProofs.obs_find_sysline] in C. rewrite B in *.
      rewrite <- C in PF. destruct PF as [PF1 PF2].
      rewrite PF1. unfold frel. cbn [r_sl r_sys].
      split; [reflexivity|]. split; [exact PF2|].
      unfold Pm. cbn [r_sl r_sys Search.s_beg]. split; [|split; assumption].
      symmetry in C. apply (pick_idem _ _ _ _ _ _ L) in C.
      replace (Search.s_next _) with n by (rewrite PF2; reflexivity). exact C.
    - cbn in C. rewrite <- C in PF. rewrite PF. exact I.
    - exfalso. cbn in C. eapply NOFAULT; [reflexivity|discriminate|symmetry; exact C].
    - exfalso. cbn in C. eapply NOFAULT; [reflexivity|discriminate|symmetry; exact C].
  Qed.

  (* the messages a worker sends for one file: exactly the windowed spec groups with their
     is-last flags, each Sysline assembled from non-empty parts *)
  Lemma worker_stream bs (f : file) streamed a b : 0 < bs ->
    file_chronological dated f -> file_msgs_2bytes dated f ->
    exists ms, g_text_out r_sl (reader_find dated bs f) (lenN f) streamed a b = (ms, GOk) /\
      map (fun mb : rmsg * bool => (SyslinesProofs.obs_sysline bs f (r_sys (fst mb)), snd mb)) ms
        = spec_file_msgs dated a b f /\
      Forall (fun mb : rmsg * bool => Forall (line_parts_ok bs f) (snd (r_sys (fst mb))) /\ snd (r_sys (fst mb)) <> []) ms.
  Proof.
    intros H CH L2.
    assert (L1 : Forall (fun g => 1 <= glen g) (syslines dated f)).
    { eapply Forall_impl; [|exact L2]. intros g G. cbn beta in G. unfold glen. lia. }
    set (lead := first_dated_offset dated f). set (GS := syslines dated f) in *.
    set (SA := syslines_at dated f).
    assert (T : Search.text_out (gs_of f) (lenN f) streamed a b = (window Search.s_t a b (gs_of f), Search.Ok)).
    { pose proof (SearchProofs.text_out_correct lead (lay_of GS) streamed a b) as T.
      unfold Search.l_text_out in T. unfold lead, GS in T. rewrite fsize_gs in T. apply T.
      - fold (gs_of f). rewrite gs_of_tosl, nondecreasing_map.
        unfold syslines_at. cbn [tosl Search.s_t]. rewrite nondecreasing_offsets. exact CH.
      - unfold lay_of. apply Forall_map. exact L2. }
    assert (HF : forall fo, frel rmsg r_sl (Pm bs f) (reader_find dated bs f fo) (Search.find (gs_of f) fo)).
    { intro fo. apply reader_find_rel; assumption. }
    assert (HL : forall a0 fo0, Search.linear (gs_of f) a0 fo0 (Search.lfuel (gs_of f)) <> Search.SOutOfFuel).
    { intros a0 fo0. pose proof (SearchProofs.linear_total lead (lay_of GS) a0 fo0) as LT.
      unfold Search.l_linear in LT. apply (LT ltac:(unfold lay_of; apply Forall_map; exact L1) 0). }
    assert (HN : (Search.lfuel (gs_of f) <= g_lfuel (lenN f))%nat).
    { unfold Search.lfuel, g_lfuel. rewrite gs_of_tosl, map_length. unfold syslines_at.
      rewrite with_offsets_length.
      pose proof (length_le_total _ L1) as Q1. pose proof (file_size f) as Q2. fold GS in Q2.
      fold GS. lia. }
    destruct (gsearch_refines rmsg r_sl (reader_find dated bs f) (Pm bs f) (gs_of f) (lenN f) HF HL HN streamed a b _ T)
      as (ms & E1 & E2 & E3).
    - exists ms. split; [exact E1|].
      rewrite gs_of_tosl in E2. unfold window in E2. rewrite filter_map_comm in E2. fold SA in E2.
      set (X := filter (fun x => in_window a b (Search.s_t (tosl x))) SA) in *.
      assert (XS : forall x, In x X -> In x SA) by (intros x HX; apply filter_In in HX; tauto).
      split.
      + unfold spec_file_msgs. fold GS.
        rewrite <- (flags_mark_last GS L1 lead (lenN f) (file_size f)).
        fold (with_offsets lead GS). change (with_offsets lead GS) with SA.
        rewrite filter_map_comm.
        assert (HELP : forall X ms, (forall x, In x X -> In x SA) ->
                  map (fun mb : rmsg * bool => r_sl (fst mb)) ms = map tosl X ->
                  Forall (fun mb : rmsg * bool => Pm bs f (fst mb) /\ snd mb = g_is_last r_sl (lenN f) (fst mb)) ms ->
                  map (fun mb : rmsg * bool => (SyslinesProofs.obs_sysline bs f (r_sys (fst mb)), snd mb)) ms =
                  map (fun x : N * group => (snd x, fst x + glen (snd x) =? lenN f)) X).
        { clear X XS E1 E2 E3 ms T. induction X as [|x X IH]; intros [|mb ms] XS E2 E3; try discriminate; [reflexivity|].
          cbn [map] in *. inversion E2 as [[V E2']]. inversion E3 as [|? ? [P1 FL] E3']; subst. destruct P1 as [P1 _].
          f_equal; [|apply IH; auto; intros y HY; apply XS; right; exact HY].
          assert (IN : In x SA) by (apply XS; left; reflexivity).
          pose proof (pick_at GS L1 lead x IN) as PA. change (with_offsets lead GS) with SA in PA.
          unfold Pm in P1. change (syslines_at dated f) with SA in P1.
          assert (BE : Search.s_beg (r_sl (fst mb)) = fst x) by (rewrite V; reflexivity).
          rewrite BE in P1. rewrite PA in P1. inversion P1 as [[N1 N2]].
          f_equal. rewrite FL. unfold g_is_last, Search.s_end. rewrite V. cbn [tosl Search.s_beg Search.s_len].
          pose proof (offsets_ge _ _ _ IN). assert (1 <= glen (snd x)).
          { rewrite Forall_forall in L1. destruct x as [bx gx]. cbn. apply L1.
            clear -IN. unfold SA, syslines_at in IN. revert IN. generalize (first_dated_offset dated f).
            fold GS. induction GS as [|g r IH]; intros o IN; [destruct IN|]. cbn in IN. destruct IN as [E|IN].
            - inversion E. left. reflexivity.
            - right. eapply IH. exact IN. }
          pose proof (file_size f). pose proof (offsets_le _ _ _ IN).
          destruct (N.eqb_spec (fst x + glen (snd x) - 1) (lenN f - 1)); destruct (N.eqb_spec (fst x + glen (snd x)) (lenN f)); try reflexivity; lia. }
        exact (HELP X ms XS E2 E3).
      + eapply Forall_impl; [|exact E3]. intros mb [[_ Q] _]. exact Q.
  Qed.
End Reader.


(* ######################################################################## part 4b *)
(* ================================================================ A1 over the CACHED reader machine *)

Lemma filter_all {A} (p : A -> bool) l : (forall x, In x l -> p x = true) -> filter p l = l.
Proof.
  induction l as [|x l IH]; intro HA; [reflexivity|]. cbn. rewrite (HA x (or_introl eq_refl)).
  f_equal. apply IH. intros y HY. apply HA. right. exact HY.
Qed.

Section CachedReader.
  Variable dated : list N -> option Z.

  (* a stored line that represents a line of the file is a chain of non-empty slices *)
  Lemma consec_parts bs (f : file) lns : forall b e1, CachesSysProofs.consec bs f lns b e1 ->
    Forall (line_parts_ok bs f) (map Caches.sl_parts lns).
  Proof.
    induction lns as [|s lns IH]; intros b e1 C; [constructor|].
    destruct C as (e & S & C). cbn [map]. constructor; [|eapply IH; exact C].
    destruct (CachesProofs.line_ok_facts bs f _ _ _ S) as (B & _ & _ & NE).
    destruct S as [SP CH]. destruct SP as (A1 & A2 & _).
    split; [exact NE|]. split; [|eauto].
    eapply chain_parts_nonempty; [exact CH|lia].
  Qed.

  Lemma ssl_ok_parts bs (f : file) s b g : CachesSysProofs.ssl_ok bs f s b g ->
    Forall (line_parts_ok bs f) (snd (Caches.ss_sysline s)) /\ snd (Caches.ss_sysline s) <> [].
  Proof.
    intros (_ & _ & C & NE). unfold Caches.ss_sysline. cbn [snd]. split.
    - eapply consec_parts. exact C.
    - destruct (Caches.ss_lines s); [congruence|discriminate].
  Qed.

  (* what the worker sends for the emitted objects: the represented messages, each flagged iff it ends the file *)
  Lemma repr_msgs bs (f : file) : 0 < bs -> forall sls bgs, ProgramCaches.repr_at bs f sls bgs ->
    Forall (fun bg : N * group => In bg (syslines_at dated f)) bgs ->
    map (fun s => (SyslinesProofs.obs_sysline bs f (Caches.ss_sysline s),
                   Syslines.is_sysline_last bs f (Caches.ss_sysline s))) sls
      = map (fun x : N * group => (snd x, fst x + glen (snd x) =? lenN f)) bgs /\
    Forall (fun s => Forall (line_parts_ok bs f) (snd (Caches.ss_sysline s)) /\ snd (Caches.ss_sysline s) <> []) sls.
  Proof.
    intros H sls bgs R. induction R as [|s [b g] sls bgs OK _ IH]; intro IN; [split; constructor|].
    inversion IN as [|? ? I1 I2]; subst. destruct (IH I2) as [E1 E2]. cbn [fst snd] in *. split.
    - cbn [map fst snd]. rewrite E1. f_equal.
      destruct (CachesSysProofs.is_group_pos dated f _ _ I1) as (P & LE & _).
      rewrite (CachesRunProofs.last_test bs f H _ _ _ OK P LE).
      pose proof (CachesRunProofs.sobs_ok bs f _ _ _ OK) as SO. unfold CachesRunProofs.sobs in SO. rewrite SO. reflexivity.
    - constructor; [|exact E2]. eapply ssl_ok_parts. exact OK.
  Qed.

  Lemma win_scan_at_in fa fb l : forall x, In x (ProgramCaches.win_scan_at fa fb l) -> In x l.
  Proof.
    induction l as [|y l IH]; intros x; cbn; [tauto|].
    destruct (Caches.dt_before fa (fst (snd y))); [intro HI; right; apply IH; exact HI|].
    destruct (Caches.dt_after fb (fst (snd y))); [intros []|].
    intros [E|HI]; [left; exact E|right; apply IH; exact HI].
  Qed.

  (* on a chronological list the forward scan selects exactly the window *)
  Lemma win_scan_at_window fa fb (l : list (N * group)) :
    nondecreasing (fun x : N * group => fst (snd x)) l = true ->
    ProgramCaches.win_scan_at fa fb l = filter (fun x : N * group => in_window fa fb (fst (snd x))) l.
  Proof.
    induction l as [|x r IH]; intro ND; [reflexivity|].
    assert (ND' : nondecreasing (fun x : N * group => fst (snd x)) r = true).
    { cbn in ND. destruct r as [|y r']; [reflexivity|]. apply andb_true_iff in ND as [_ X]. exact X. }
    specialize (IH ND'). cbn [ProgramCaches.win_scan_at filter]. unfold in_window at 1.
    assert (B1 : Caches.dt_before fa (fst (snd x)) = negb (geq_lo fa (fst (snd x)))).
    { destruct fa as [a|]; cbn; [|reflexivity]. destruct (Z.ltb_spec (fst (snd x)) a); destruct (Z.leb_spec a (fst (snd x))); try lia; reflexivity. }
    assert (B2 : Caches.dt_after fb (fst (snd x)) = negb (leq_hi fb (fst (snd x)))).
    { destruct fb as [b|]; cbn; [|reflexivity]. destruct (Z.ltb_spec b (fst (snd x))); destruct (Z.leb_spec (fst (snd x)) b); try lia; reflexivity. }
    rewrite B1, B2. destruct (geq_lo fa (fst (snd x))); cbn [negb andb]; [|exact IH].
    destruct (leq_hi fb (fst (snd x))) eqn:LH; cbn [negb]; [rewrite IH; reflexivity|].
    destruct fb as [b|]; [|discriminate]. cbn in LH. apply Z.leb_gt in LH. symmetry.
    clear IH B1 B2 ND'. revert x ND LH. induction r as [|y r IHr]; intros x ND LH; [reflexivity|].
    cbn in ND. apply andb_true_iff in ND as [X ND2]. apply Z.leb_le in X. cbn [filter].
    unfold in_window at 1, leq_hi. destruct (Z.leb_spec (fst (snd y)) b); [lia|]. rewrite andb_false_r.
    apply (IHr y).
    - exact ND2.
    - lia.
  Qed.

  (* the messages the cached worker sends for one file: exactly the windowed spec groups with their
     is-last flags, each Sysline assembled from non-empty parts *)
  Lemma cached_worker_stream bs rp (f : file) streamed a b : 0 < bs ->
    file_chronological dated f -> file_msgs_2bytes dated f -> first_byte_ok dated f ->
    cached_case a b streamed = true ->
    exists sls, snd (cached_driver dated bs rp a b streamed f) = Lines.Found sls /\
      map (fun s => (SyslinesProofs.obs_sysline bs f (Caches.ss_sysline s),
                     Syslines.is_sysline_last bs f (Caches.ss_sysline s))) sls = spec_file_msgs dated a b f /\
      Forall (fun s => Forall (line_parts_ok bs f) (snd (Caches.ss_sysline s)) /\ snd (Caches.ss_sysline s) <> []) sls.
  Proof.
    intros H CH L2 FB CC.
    assert (L1 : Forall (fun g => 1 <= glen g) (syslines dated f)).
    { eapply Forall_impl; [|exact L2]. intros g G. cbn beta in G. unfold glen. lia. }
    assert (ML : map (fun x : N * group => (snd x, fst x + glen (snd x) =? lenN f)) (syslines_at dated f)
                 = mark_last (syslines dated f)).
    { unfold syslines_at. apply flags_mark_last; [exact L1|]. apply file_size. }
    assert (NDA : nondecreasing (fun x : N * group => fst (snd x)) (syslines_at dated f) = true).
    { unfold syslines_at. rewrite nondecreasing_offsets. exact CH. }
    assert (SPEC : forall bgs, bgs = filter (fun x : N * group => in_window a b (fst (snd x))) (syslines_at dated f) ->
              map (fun x : N * group => (snd x, fst x + glen (snd x) =? lenN f)) bgs = spec_file_msgs dated a b f).
    { intros bgs ->. unfold spec_file_msgs. rewrite <- ML, filter_map_comm. reflexivity. }
    unfold cached_driver. destruct streamed.
    - destruct (ProgramCaches.streamed_driver_struct dated (rp_ck rp) bs f (rp_k1 rp) (rp_k2 rp) a b (rp_plan rp) H FB) as (sls & E & R).
      exists sls. split; [exact E|].
      rewrite (win_scan_at_window a b _ NDA) in R.
      destruct (repr_msgs bs f H _ _ R) as [M P].
      { apply Forall_forall. intros x HX. apply filter_In in HX. tauto. }
      split; [|exact P]. rewrite M. apply SPEC. reflexivity.
    - cbn in CC. destruct a; [discriminate|]. destruct b; [discriminate|].
      destruct (ProgramCaches.plain_driver_struct dated bs f (rp_k1 rp) (rp_k2 rp) (rp_plan rp) H FB) as (sls & E & R).
      exists sls. split; [exact E|].
      destruct (repr_msgs bs f H _ _ R) as [M P].
      { apply Forall_forall. intros x HX. exact HX. }
      split; [|exact P]. rewrite M. apply SPEC.
      symmetry. apply filter_all. intros x _. reflexivity.
  Qed.

  (* ---------------------------------------------------------------- a seekable file WITH a window:
     the binary search threaded through the cached machine (Program.SSearch, ssearch_refines) *)

  (* the state is sound (work package A's rinv) and every range whose Sysline was dropped ends at or before lo *)
  Definition cinv bs (f : file) (st : Caches.sr_state) (lo : N) : Prop :=
    @CachesRunProofs.rinv dated bs f (CachesProofs.lr_inv bs f) st /\ CachesRunProofs.dangling_behind st lo.
  (* a stored Sysline that represents a message of the file *)
  Definition cP bs (f : file) (s : Caches.ssl) : Prop :=
    exists b g, CachesSysProofs.is_group dated f b g /\ CachesSysProofs.ssl_ok bs f s b g.

  Lemma cview_tosl bs (f : file) s b g : 0 < bs -> CachesSysProofs.ssl_ok bs f s b g ->
    CachesSysProofs.is_group dated f b g -> cview bs f s = tosl (b, g).
  Proof.
    intros H OK G. destruct (CachesSysProofs.is_group_pos dated f _ _ G) as (P & _).
    destruct (CachesSysProofs.ssl_ok_facts bs f H _ _ _ OK P) as (BG & _ & _).
    unfold cview, tosl. rewrite BG. cbn [fst snd]. f_equal.
    - pose proof (CachesRunProofs.sobs_ok bs f _ _ _ OK) as SO. unfold CachesRunProofs.sobs, SyslinesProofs.obs_sysline in SO.
      unfold Syslines.sysline_bytes, glen, group_bytes. rewrite <- SO. reflexivity.
    - destruct OK as (D & _). exact D.
  Qed.

  (* a find_sysline call leaves the dropped ranges where they are *)
  Lemma dangling_step bs (f : file) st st' r x : CachesSysProofs.sys_step dated bs f st st' r ->
    CachesRunProofs.dangling_behind st x -> CachesRunProofs.dangling_behind st' x.
  Proof.
    intros ST D. destruct ST as [[E1 E2]|(n & s & b & g & _ & G & OK & _ & E1 & E2)].
    - intros a' b' v. rewrite E1, E2. apply D.
    - intros a' b' v. rewrite E1, E2. rewrite CachesProofs.alookup_ainsert. unfold Caches.range_insert.
      destruct (CachesSysProofs.is_group_pos dated f _ _ G) as (P & _). destruct (N.ltb_spec b (b + CachesSysProofs.glen g)); [|lia].
      intros [IN|IN] LK.
      + inversion IN; subst. rewrite N.eqb_refl in LK. discriminate.
      + destruct (N.eqb_spec v b); [discriminate|].
        destruct (CachesSysProofs.In_range_cut _ _ _ _ IN) as (s0 & e0 & v0 & IN0 & [[E _]|[E _]]); inversion E; subst;
          specialize (D _ _ _ IN0 LK); lia.
  Qed.

  (* ADAPTER A1 over the cached machine: a find_sysline call at or after lo, on a sound state whose dropped ranges lie
     before lo, IS the find oracle of Model/Search.v (work package A: c_find_sysline_ok, find_step) *)
  Lemma cached_find_rel bs (f : file) st lo fo : 0 < bs -> cinv bs f st lo -> lo <= fo ->
    cinv bs f (fst (cached_find dated bs f st fo)) lo /\
    frel Caches.ssl (cview bs f) (cP bs f) (snd (cached_find dated bs f st fo)) (Search.find (gs_of dated f) fo).
  Proof.
    intros H [RI DG] L. unfold cached_find.
    destruct (Caches.c_find_sysline dated bs f st fo) as [[st' r] p] eqn:CF.
    destruct (CachesRunProofs.find_step dated bs f H _ _ _ _ _ RI CF) as (RI' & R & NP).
    destruct (CachesSysProofs.c_find_sysline_ok dated bs f H _ _ _ _ _ (proj1 RI) CF) as (_ & _ & ST & _).
    pose proof (dangling_step bs f _ _ _ lo ST DG) as DG'.
    assert (DGfo : CachesRunProofs.dangling_behind st fo) by (eapply CachesRunProofs.dangling_mono; [exact DG|exact L]).
    destruct (NP DGfo) as [NPanic _].
    unfold Search.find. rewrite gs_of_tosl.
    pose proof (pick_find fo (syslines_at dated f)) as PF.
    destruct r as [[n s]| | |]; cbn in R.
    - destruct R as (b & g & G & OK & SP). unfold spec_find_sysline in SP. rewrite SP in PF. destruct PF as [PF1 PF2].
      destruct (CachesSysProofs.is_group_pos dated f _ _ G) as (P & _).
      destruct (CachesSysProofs.ssl_ok_facts bs f H _ _ _ OK P) as (BG & _ & _). rewrite BG.
      cbn [fst snd]. split; [split; assumption|]. unfold frel. rewrite PF1.
      split; [apply cview_tosl; assumption|]. split; [rewrite PF2; reflexivity|]. exists b, g. split; assumption.
    - unfold spec_find_sysline in R. rewrite R in PF. cbn [fst snd]. split; [split; assumption|]. unfold frel. rewrite PF. exact I.
    - contradiction.
    - congruence.
  Qed.

  Lemma cached_win_stream bs rp (f : file) a b : 0 < bs ->
    file_chronological dated f -> file_msgs_2bytes dated f -> first_byte_ok dated f ->
    exists ms, snd (cached_win_driver dated bs rp a b f) = (ms, GOk) /\
      map (fun mb : Caches.ssl * bool => (SyslinesProofs.obs_sysline bs f (Caches.ss_sysline (fst mb)), snd mb)) ms
        = spec_file_msgs dated a b f /\
      Forall (fun mb : Caches.ssl * bool => Forall (line_parts_ok bs f) (snd (Caches.ss_sysline (fst mb))) /\
                                            snd (Caches.ss_sysline (fst mb)) <> []) ms.
  Proof.
    intros H CH L2 FB.
    assert (L1 : Forall (fun g => 1 <= glen g) (syslines dated f)).
    { eapply Forall_impl; [|exact L2]. intros g G. cbn beta in G. unfold glen. lia. }
    set (lead := first_dated_offset dated f). set (GS := syslines dated f) in *.
    set (SA := syslines_at dated f).
    assert (T : Search.text_out (gs_of dated f) (lenN f) false a b = (window Search.s_t a b (gs_of dated f), Search.Ok)).
    { pose proof (SearchProofs.text_out_correct lead (lay_of GS) false a b) as T.
      unfold Search.l_text_out in T. unfold lead, GS in T. rewrite fsize_gs in T. apply T.
      - fold (gs_of dated f). rewrite gs_of_tosl, nondecreasing_map.
        unfold syslines_at. cbn [tosl Search.s_t]. rewrite nondecreasing_offsets. exact CH.
      - unfold lay_of. apply Forall_map. exact L2. }
    assert (HN : (Search.lfuel (gs_of dated f) <= g_lfuel (lenN f))%nat).
    { unfold Search.lfuel, g_lfuel. rewrite gs_of_tosl, map_length. unfold syslines_at.
      rewrite with_offsets_length.
      pose proof (length_le_total _ L1) as Q1. pose proof (file_size dated f) as Q2. fold GS in Q2.
      fold GS. lia. }
    destruct (CachesGateProofs.c_gate_ok_plain dated bs f H FB (rp_k1 rp) (rp_k2 rp)) as (RI0 & ND0 & _).
    destruct (ssearch_refines Caches.sr_state Caches.ssl (cview bs f) (cached_find dated bs f) (Caches.c_drop_data_try bs)
                (cP bs f) (gs_of dated f) (lenN f) (cinv bs f)) with (a := a) (b := b) (plan := rp_plan rp)
                (s0 := Caches.c_gate dated (rp_k1 rp) (rp_k2 rp) bs f Caches.sr_init) (out := window Search.s_t a b (gs_of dated f))
      as (ms & E1 & E2 & E3).
    - intros s lo lo' [RI DG] LE. split; [exact RI|]. eapply CachesRunProofs.dangling_mono; eassumption.
    - intros s lo fo IV LE. apply cached_find_rel; assumption.
    - intros s lo p [RI DG] (pb & pg & PG & POK) LE.
      rewrite (cview_tosl bs f p pb pg H POK PG) in LE. cbn [tosl Search.s_beg fst] in LE.
      destruct (CachesRunProofs.drop_try_ok dated bs f H (CachesRunProofs.lr_inv_drop bs f) s lo p pb pg RI POK PG LE) as (RI' & DG').
      split; [exact RI'|exact (DG' DG)].
    - intros fo x F. unfold Search.find in F. rewrite gs_of_tosl in F.
      destruct (SearchProofs.find_in_split _ _ _ F) as (pre & post & EQ & _).
      assert (IN : In x (map tosl (syslines_at dated f))) by (rewrite EQ; apply in_or_app; right; left; reflexivity).
      apply in_map_iff in IN as ([bx gx] & <- & IN). pose proof (offsets_le _ _ _ IN) as LE.
      pose proof (file_size dated f) as FS. unfold Search.s_next. cbn [tosl Search.s_beg Search.s_len fst snd] in *.
      unfold syslines_at in IN. clear -LE FS. lia.
    - exact HN.
    - split; [exact RI0|exact ND0].
    - exact T.
    - exists ms. unfold cached_win_driver. split; [exact E1|].
      rewrite gs_of_tosl in E2. unfold window in E2. rewrite filter_map_comm in E2. fold SA in E2.
      set (X := filter (fun x => in_window a b (Search.s_t (tosl x))) SA) in *.
      assert (XS : forall x, In x X -> In x SA) by (intros x HX; apply filter_In in HX; tauto).
      assert (HELP : forall X ms, (forall x, In x X -> In x SA) ->
                map (fun mb : Caches.ssl * bool => cview bs f (fst mb)) ms = map tosl X ->
                Forall (fun mb : Caches.ssl * bool => cP bs f (fst mb) /\ snd mb = g_is_last (cview bs f) (lenN f) (fst mb)) ms ->
                map (fun mb : Caches.ssl * bool => (SyslinesProofs.obs_sysline bs f (Caches.ss_sysline (fst mb)), snd mb)) ms =
                map (fun x : N * group => (snd x, fst x + glen (snd x) =? lenN f)) X /\
                Forall (fun mb : Caches.ssl * bool => Forall (line_parts_ok bs f) (snd (Caches.ss_sysline (fst mb))) /\
                                                      snd (Caches.ss_sysline (fst mb)) <> []) ms).
      { clear X XS E1 E2 E3 ms T. induction X as [|x X IH]; intros [|mb ms] XS E2 E3; try discriminate; [split; constructor|].
        cbn [map] in *. pose proof (f_equal (hd (tosl x)) E2) as V. pose proof (f_equal (@tl _) E2) as E2'. cbn [hd tl] in V, E2'.
        clear E2. inversion E3 as [|? ? [(pb & pg & PG & POK) FL] E3']; subst.
        destruct (IH ms (fun y HY => XS y (or_intror HY)) E2' E3') as [IH1 IH2].
        assert (IN : In x SA) by (apply XS; left; reflexivity).
        rewrite (cview_tosl bs f _ pb pg H POK PG) in V.
        assert (EB : pb = fst x) by (inversion V; reflexivity). subst pb.
        assert (EG : pg = snd x).
        { apply (CachesSysProofs.is_group_unique dated f (fst x)); [exact PG|]. destruct x; exact IN. }
        subst pg. split.
        - f_equal; [|exact IH1]. f_equal.
          + pose proof (CachesRunProofs.sobs_ok bs f _ _ _ POK) as SO. exact SO.
          + rewrite FL. unfold g_is_last, Search.s_end. rewrite (cview_tosl bs f _ _ _ H POK PG).
            cbn [tosl Search.s_beg Search.s_len fst snd].
            destruct (CachesSysProofs.is_group_pos dated f _ _ PG) as (P1 & P2 & _).
            change (CachesSysProofs.glen (snd x)) with (glen (snd x)) in *.
            destruct (N.eqb_spec (fst x + glen (snd x) - 1) (lenN f - 1)); destruct (N.eqb_spec (fst x + glen (snd x)) (lenN f)); try reflexivity; lia.
        - constructor; [|exact IH2]. eapply ssl_ok_parts. exact POK. }
      destruct (HELP X ms XS E2 E3) as [M1 M2]. split; [|exact M2].
      rewrite M1. unfold spec_file_msgs. fold GS.
      rewrite <- (flags_mark_last GS L1 lead (lenN f) (file_size dated f)).
      fold (with_offsets lead GS). change (with_offsets lead GS) with SA.
      rewrite filter_map_comm. reflexivity.
  Qed.
End CachedReader.


(* two sufficient conditions for the oracle hypothesis of block-zero analysis *)
Lemma slice_heads (f : file) b e : b < lenN f -> b <= e ->
  exists c r, In c f /\ slice f b (b + 1) = [c] /\ slice f b (e + 1) = c :: r.
Proof.
  intros L LE. unfold slice. pose proof (lenN_skipnN f b) as LS. pose proof (firstnN_skipnN_app f b) as AP.
  destruct (skipnN b f) as [|c r] eqn:SK; [cbn in LS; lia|].
  assert (IN : In c f) by (rewrite <- AP; apply in_or_app; right; left; reflexivity).
  replace (b + 1 - b) with 1 by lia. unfold firstnN.
  destruct (N.to_nat (e + 1 - b)) as [|k] eqn:K; [lia|].
  exists c, (firstn k r). split; [exact IN|]. split; reflexivity.
Qed.

Lemma first_byte_ok_head dated (f : file) :
  (forall c r r', dated (c :: r) = dated (c :: r')) -> first_byte_ok dated f.
Proof.
  intros HD b z L _ D. destruct (line_end_lt f b L) as [LE _].
  destruct (slice_heads f b (line_end f b) L LE) as (c & r & _ & E1 & E2).
  rewrite E2. rewrite E1 in D. rewrite <- D. apply HD.
Qed.

Lemma first_byte_ok_undated dated (f : file) :
  (forall c, In c f -> dated [c] = None) -> first_byte_ok dated f.
Proof.
  intros HN b z L _ D. destruct (line_end_lt f b L) as [LE _].
  destruct (slice_heads f b (line_end f b) L LE) as (c & r & IN & E1 & E2).
  rewrite E1, (HN c IN) in D. discriminate.
Qed.


(* ######################################################################## part 5 *)
(* ================================================================ A3: reader message ~ spec message *)

Definition msg_sim (m1 m2 : Print.msg) : Prop :=
  Print.m_kind m1 = Print.m_kind m2 /\
  Print.m_t m1 = Print.m_t m2 /\ Print.flat_lines m1 = Print.flat_lines m2 /\
  Print.m_beg m1 = Print.m_beg m2 /\ Print.m_end m1 = Print.m_end m2 /\
  PrintVariants.wf_full m1 /\ PrintVariants.wf_full m2 /\ (Print.m_beg m1 <= Print.m_end m1)%nat.

Definition ev_sim (e1 e2 : Summary.event) : Prop :=
  Summary.e_src e1 = Summary.e_src e2 /\ Summary.e_is_last e1 = Summary.e_is_last e2 /\
  msg_sim (Summary.e_msg e1) (Summary.e_msg e2).

Lemma concat_nonempty {A} (l : list (list A)) : l <> [] -> Forall (fun s => s <> []) l -> concat l <> [].
Proof.
  intros NE F. destruct l as [|x l]; [congruence|]. inversion F; subst. cbn.
  destruct x; [congruence|discriminate].
Qed.

Section Sim.
  Variable dtspan : list N -> nat * nat.
  Hypothesis Hspan : span_ok dtspan.

  (* the Print.msg built from the reader's line parts and the one built from the spec group have
     the same lines, instant and highlight span, and both satisfy the printer's preconditions *)
  Lemma pmsg_sim bs (f : file) (sl : Syslines.sysline) :
    Forall (line_parts_ok bs f) (snd sl) -> snd sl <> [] ->
    msg_sim (pmsg_of dtspan bs f sl) (spec_msg dtspan (SyslinesProofs.obs_sysline bs f sl)).
  Proof.
    intros OK NE.
    assert (FL1 : Print.flat_lines (pmsg_of dtspan bs f sl) = map (Lines.bytes_of bs f) (snd sl)).
    { unfold Print.flat_lines, pmsg_of. cbn [Print.m_lines]. rewrite map_map. reflexivity. }
    assert (FL2 : Print.flat_lines (spec_msg dtspan (SyslinesProofs.obs_sysline bs f sl)) = map (Lines.bytes_of bs f) (snd sl)).
    { unfold Print.flat_lines, spec_msg, SyslinesProofs.obs_sysline. cbn [Print.m_lines snd]. rewrite map_map.
      rewrite <- (map_id (map (Lines.bytes_of bs f) (snd sl))) at 2.
      apply map_ext. intro l. cbn. apply app_nil_r. }
    assert (HD : Lines.bytes_of bs f (hd [] (snd sl)) = hd [] (map (Lines.bytes_of bs f) (snd sl))).
    { destruct (snd sl); [congruence|reflexivity]. }
    assert (W1 : PrintVariants.wf_full (pmsg_of dtspan bs f sl)).
    { unfold PrintVariants.wf_full, Print.wf_msg, PrintVariants.wf_sys, pmsg_of.
      cbn [Print.m_kind Print.m_lines Print.m_beg Print.m_end]. split; [exact I|]. split; [|apply Hspan].
      apply Forall_map. eapply Forall_impl; [|exact OK]. intros ln (_ & P & _).
      unfold PrintVariants.wf_line. apply Forall_map. exact P. }
    assert (W2 : PrintVariants.wf_full (spec_msg dtspan (SyslinesProofs.obs_sysline bs f sl))).
    { unfold PrintVariants.wf_full, Print.wf_msg, PrintVariants.wf_sys, spec_msg, SyslinesProofs.obs_sysline.
      cbn [Print.m_kind Print.m_lines Print.m_beg Print.m_end fst snd]. split; [exact I|]. split; [|apply Hspan].
      rewrite map_map. apply Forall_map. eapply Forall_impl; [|exact OK]. intros ln (N1 & P & _).
      unfold PrintVariants.wf_line. constructor; [|constructor].
      unfold Lines.bytes_of. apply concat_nonempty.
      + destruct ln; [congruence|discriminate].
      + apply Forall_map. exact P. }
    unfold msg_sim. split; [reflexivity|]. split; [reflexivity|].
    split; [exact (eq_trans FL1 (eq_sym FL2))|].
    split; [unfold pmsg_of, spec_msg, SyslinesProofs.obs_sysline; cbn [Print.m_beg fst snd]; rewrite HD; reflexivity|].
    split; [unfold pmsg_of, spec_msg, SyslinesProofs.obs_sysline; cbn [Print.m_end fst snd]; rewrite HD; reflexivity|].
    split; [exact W1|]. split; [exact W2|]. apply Hspan.
  Qed.
End Sim.

(* the canonical decoration depends on a text message only through its lines, instant and span *)
Lemma decorate_ext o m1 m2 : msg_sim m1 m2 -> Print.decorate o m1 = Print.decorate o m2.
Proof.
  intros (K & T & FL & B & E & _).
  unfold Print.decorate, Print.decorate_plain, Print.decorate_colour, Print.prefix, Print.has_prefix,
    Print.hl_flat, Print.date_field, Print.fx_colored, Print.data_colored, Print.line_colored, Print.m_data.
  rewrite K, T, FL, B, E. reflexivity.
Qed.

Lemma sem_sim o m1 m2 l : msg_sim m1 m2 ->
  Print.sem (Print.print_msg o m1) l = Print.sem (Print.decorate o m2) l.
Proof.
  intro S. rewrite <- (decorate_ext o m1 m2 S).
  apply PrintVariants.variants_agree_peq. apply S.
Qed.

Lemma m_data_sim m1 m2 : msg_sim m1 m2 -> Print.m_data m1 = Print.m_data m2.
Proof. intros (_ & _ & FL & _). unfold Print.m_data. rewrite FL. reflexivity. Qed.

Lemma trailer_sim c e1 e2 : ev_sim e1 e2 -> Summary.trailer c e1 = Summary.trailer c e2.
Proof.
  intros (_ & L & S). unfold Summary.trailer, Summary.supplied_nl, Summary.ends_with_newline.
  rewrite (m_data_sim _ _ S), L. destruct S as (K & _). rewrite K. reflexivity.
Qed.

(* ================================================================ the print site: run = render *)

Lemma run_render c popt evs : forall st,
  Forall (fun e => PrintVariants.wf_full (Summary.e_msg e)) evs ->
  Summary.k_stdout (Summary.run_from c popt st evs) =
  Summary.k_stdout st ++ render c popt (Summary.k_lasts st) evs.
Proof.
  induction evs as [|e evs IH]; intros st W; [cbn; rewrite app_nil_r; reflexivity|].
  inversion W as [|? ? W1 W2]; subst.
  rewrite SummaryProofs.run_from_cons, IH by exact W2.
  rewrite SummaryProofs.step_stdout, SummaryProofs.step_lasts. unfold SummaryProofs.ev_prog.
  cbn [render]. unfold PrintSem.sem_out, PrintSem.sem_last.
  rewrite (PrintVariants.variants_agree_peq (popt (Summary.e_src e)) (Summary.e_msg e) W1 (Summary.k_lasts st (Summary.e_src e))).
  destruct (Print.sem (Print.decorate (popt (Summary.e_src e)) (Summary.e_msg e)) (Summary.k_lasts st (Summary.e_src e))) as [o l'].
  cbn [fst snd]. rewrite <- !app_assoc. reflexivity.
Qed.

Lemma render_sim c popt evs1 evs2 : Forall2 ev_sim evs1 evs2 ->
  forall lasts, render c popt lasts evs1 = render c popt lasts evs2.
Proof.
  induction 1 as [|e1 e2 r1 r2 S _ IH]; intro lasts; [reflexivity|].
  cbn [render]. destruct S as (SRC & L & MS).
  rewrite (trailer_sim c e1 e2 (conj SRC (conj L MS))), SRC, (decorate_ext _ _ _ MS).
  destruct (Print.sem _ _) as [o l']. rewrite IH. reflexivity.
Qed.

Lemma sim_srcs evs1 evs2 : Forall2 ev_sim evs1 evs2 -> map Summary.e_src evs1 = map Summary.e_src evs2.
Proof. induction 1 as [|e1 e2 r1 r2 (S & _) _ IH]; [reflexivity|]. cbn. rewrite S, IH. reflexivity. Qed.

Lemma sim_instants evs1 evs2 : Forall2 ev_sim evs1 evs2 -> map ev_t evs1 = map ev_t evs2.
Proof.
  induction 1 as [|e1 e2 r1 r2 (_ & _ & S) _ IH]; [reflexivity|]. cbn. rewrite IH. f_equal.
  unfold ev_t. apply S.
Qed.

Lemma sim_wf evs1 evs2 : Forall2 ev_sim evs1 evs2 ->
  Forall (fun e => PrintVariants.wf_full (Summary.e_msg e)) evs1.
Proof. induction 1 as [|e1 e2 r1 r2 (_ & _ & S) _ IH]; constructor; [apply S|exact IH]. Qed.

Lemma sim_ev_ok evs1 evs2 : Forall2 ev_sim evs1 evs2 -> Forall SummaryProofs.ev_ok evs1.
Proof.
  induction 1 as [|e1 e2 r1 r2 (_ & _ & S) _ IH]; constructor; [|exact IH].
  unfold SummaryProofs.ev_ok. split; apply S.
Qed.

Lemma popt_of_sim c srcs evs1 evs2 : Forall2 ev_sim evs1 evs2 ->
  Summary.popt_of c srcs evs1 = Summary.popt_of c srcs evs2.
Proof. intro S. unfold Summary.popt_of. rewrite (sim_srcs _ _ S). reflexivity. Qed.

(* stdout of the print site on the code-level events = the canonical rendering of the spec events *)
Lemma run_stdout_sim c srcs evs1 evs2 : Forall2 ev_sim evs1 evs2 ->
  Summary.k_stdout (Summary.run c srcs evs1) =
  render c (Summary.popt_of c srcs evs2) (fun _ => None) evs2.
Proof.
  intro S. unfold Summary.run. rewrite run_render by (eapply sim_wf; exact S).
  cbn [Summary.cstate0 Summary.k_stdout Summary.k_lasts app].
  rewrite (popt_of_sim c srcs _ _ S). apply render_sim. exact S.
Qed.

(* ================================================================ totals *)

Lemma fold_min_spec r : forall x, (forall y, In y (x :: r) -> (fold_left Z.min r x <= y)%Z) /\ In (fold_left Z.min r x) (x :: r).
Proof.
  induction r as [|a r IH]; intro x; cbn [fold_left].
  - split; [intros y [<-|[]]; lia|left; reflexivity].
  - destruct (IH (Z.min x a)) as [H1 H2]. split.
    + intros y [<-|[<-|Hy]].
      * specialize (H1 (Z.min x a) (or_introl eq_refl)). lia.
      * specialize (H1 (Z.min x a) (or_introl eq_refl)). lia.
      * apply H1. right. exact Hy.
    + destruct H2 as [H2|H2].
      * rewrite <- H2. destruct (Z.min_spec x a) as [[_ ->]|[_ ->]]; [left|right; left]; reflexivity.
      * right. right. exact H2.
Qed.

Lemma fold_max_spec r : forall x, (forall y, In y (x :: r) -> (y <= fold_left Z.max r x)%Z) /\ In (fold_left Z.max r x) (x :: r).
Proof.
  induction r as [|a r IH]; intro x; cbn [fold_left].
  - split; [intros y [<-|[]]; lia|left; reflexivity].
  - destruct (IH (Z.max x a)) as [H1 H2]. split.
    + intros y [<-|[<-|Hy]].
      * specialize (H1 (Z.max x a) (or_introl eq_refl)). lia.
      * specialize (H1 (Z.max x a) (or_introl eq_refl)). lia.
      * apply H1. right. exact Hy.
    + destruct H2 as [H2|H2].
      * rewrite <- H2. destruct (Z.max_spec x a) as [[_ ->]|[_ ->]]; [right; left|left]; reflexivity.
      * right. right. exact H2.
Qed.

Lemma is_min_zmin o ts : SummaryProofs.is_min o ts -> o = zmin_list ts.
Proof.
  destruct ts as [|x r]; [intro H; exact H|]. intros (t & -> & I & M). cbn [zmin_list]. f_equal.
  destruct (fold_min_spec r x) as [H1 H2]. specialize (H1 t I). specialize (M _ H2). lia.
Qed.

Lemma is_max_zmax o ts : SummaryProofs.is_max o ts -> o = zmax_list ts.
Proof.
  destruct ts as [|x r]; [intro H; exact H|]. intros (t & -> & I & M). cbn [zmax_list]. f_equal.
  destruct (fold_max_spec r x) as [H1 H2]. specialize (H1 t I). specialize (M _ H2). lia.
Qed.

Lemma is_kind_eqb k e : SummaryProofs.is_kind k e = kind_eqb (Print.m_kind (Summary.e_msg e)) k.
Proof. unfold SummaryProofs.is_kind. destruct (Print.m_kind (Summary.e_msg e)), k; reflexivity. Qed.

Lemma count_kind_of k evs : SummaryProofs.count_kind k evs = count_of k evs.
Proof.
  unfold SummaryProofs.count_kind, count_of.
  assert (E : filter (SummaryProofs.is_kind k) evs = filter (fun e => kind_eqb (Print.m_kind (Summary.e_msg e)) k) evs).
  { induction evs as [|e r IH]; [reflexivity|]. cbn [filter]. rewrite is_kind_eqb, IH. reflexivity. }
  rewrite E. reflexivity.
Qed.

Lemma count_of_sim k evs1 evs2 : Forall2 ev_sim evs1 evs2 -> count_of k evs1 = count_of k evs2.
Proof.
  unfold count_of. intro S. f_equal.
  induction S as [|e1 e2 r1 r2 (_ & _ & K & _) _ IH]; [reflexivity|].
  cbn [filter]. rewrite K. destruct (kind_eqb _ k); cbn [length]; rewrite IH; reflexivity.
Qed.

Lemma text_lines_sim evs1 evs2 : Forall2 ev_sim evs1 evs2 ->
  SummaryProofs.text_lines evs1 =
  N.of_nat (length (concat (map (fun e => Print.m_lines (Summary.e_msg e))
                                (filter (fun e => kind_eqb (Print.m_kind (Summary.e_msg e)) Print.KSys) evs2)))).
Proof.
  induction 1 as [|e1 e2 r1 r2 (_ & _ & S) _ IH]; [reflexivity|].
  destruct S as (K & _ & FL & _).
  assert (LEN : length (Print.m_lines (Summary.e_msg e1)) = length (Print.m_lines (Summary.e_msg e2))).
  { unfold Print.flat_lines in FL. apply (f_equal (@length _)) in FL. rewrite !map_length in FL. exact FL. }
  cbn [SummaryProofs.text_lines fold_right filter]. fold (SummaryProofs.text_lines r1). rewrite IH, K.
  destruct (Print.m_kind (Summary.e_msg e2)); cbn [kind_eqb map concat]; rewrite ?app_length, ?LEN; lia.
Qed.

Lemma run_no_summary c popt evs : Summary.c_summary c = false -> forall st,
  Summary.k_total (Summary.run_from c popt st evs) = Summary.k_total st.
Proof.
  intro Hs. induction evs as [|e evs IH]; intro st; [reflexivity|].
  rewrite SummaryProofs.run_from_cons, IH. unfold Summary.step. cbn [Summary.k_total]. rewrite Hs. reflexivity.
Qed.

Lemma run_totals_sim c srcs evs1 evs2 : Forall2 ev_sim evs1 evs2 ->
  Summary.k_total (Summary.run c srcs evs1) =
  spec_totals c evs2 (Summary.k_stdout (Summary.run c srcs evs1)).
Proof.
  intro S. unfold spec_totals. destruct (Summary.c_summary c) eqn:Hs.
  2:{ unfold Summary.run. rewrite run_no_summary by exact Hs. reflexivity. }
  pose proof (SummaryProofs.total_bytes_payload c srcs evs1 Hs) as B.
  pose proof (SummaryProofs.message_counters c srcs evs1 Hs) as C. cbv zeta in C.
  destruct C as (C1 & C2 & C3 & C4 & C5).
  rewrite !count_kind_of in C1, C2, C3, C4. rewrite (text_lines_sim _ _ S) in C5.
  rewrite (count_of_sim Print.KSys _ _ S) in C1. rewrite (count_of_sim Print.KFixed _ _ S) in C2.
  rewrite (count_of_sim Print.KEvtx _ _ S) in C3. rewrite (count_of_sim Print.KJournal _ _ S) in C4.
  destruct (SummaryProofs.first_last_printed c srcs evs1 Hs) as [F L].
  apply is_min_zmin in F. apply is_max_zmax in L.
  unfold SummaryProofs.instants in F, L. change (fun e => Print.m_t (Summary.e_msg e)) with ev_t in F, L.
  rewrite (sim_instants _ _ S) in F, L.
  destruct (Summary.k_total (Summary.run c srcs evs1)) as [ub ul us uf ue uj u1 u2].
  cbn [Summary.u_bytes Summary.u_lines Summary.u_sys Summary.u_fixed Summary.u_evtx Summary.u_journal
       Summary.u_first Summary.u_last] in *.
  congruence.
Qed.


(* ######################################################################## part 6 *)
(* ================================================================ A2/A3: tags <-> events, sorting *)

Section SortAdapters.
  Context {A : Type}.
  Variable key : A -> Z.

  Lemma map_insert (f : Merge.msg -> A) x l :
    key (f x) = Merge.m_inst x -> (forall y, In y l -> key (f y) = Merge.m_inst y) ->
    map f (Merge.insert_stable x l) = insert_by key (f x) (map f l).
  Proof.
    intros Hx. induction l as [|y l IH]; intro Hl; [reflexivity|].
    cbn [Merge.insert_stable map insert_by]. rewrite Hx, (Hl y (or_introl eq_refl)).
    destruct (Merge.m_inst x <=? Merge.m_inst y)%Z; [reflexivity|].
    cbn [map]. rewrite IH; [reflexivity|]. intros z Hz. apply Hl. right. exact Hz.
  Qed.

  Lemma map_stable_sort (f : Merge.msg -> A) l :
    (forall y, In y l -> key (f y) = Merge.m_inst y) ->
    map f (Merge.stable_sort l) = stable_sort_by key (map f l).
  Proof.
    induction l as [|x l IH]; intro H; [reflexivity|].
    cbn [Merge.stable_sort stable_sort_by fold_right map].
    fold (Merge.stable_sort l). fold (stable_sort_by key (map f l)).
    rewrite map_insert.
    - rewrite IH; [reflexivity|]. intros y Hy. apply H. right. exact Hy.
    - apply H. left. reflexivity.
    - intros y Hy. apply H. right.
      eapply Permutation_in; [apply MergeProofs.stable_sort_perm|exact Hy].
  Qed.

  Variable R : A -> A -> Prop.
  Hypothesis Rkey : forall x y, R x y -> key x = key y.

  Lemma insert_by_F2 x y l1 l2 : R x y -> Forall2 R l1 l2 -> Forall2 R (insert_by key x l1) (insert_by key y l2).
  Proof.
    intros Hxy. induction 1 as [|a b r1 r2 Hab Hr IH]; [repeat constructor; exact Hxy|].
    cbn [insert_by]. rewrite (Rkey _ _ Hxy), (Rkey _ _ Hab).
    destruct (key y <=? key b)%Z.
    - constructor; [exact Hxy|]. constructor; assumption.
    - constructor; [exact Hab|exact IH].
  Qed.

  Lemma stable_sort_by_F2 l1 l2 : Forall2 R l1 l2 -> Forall2 R (stable_sort_by key l1) (stable_sort_by key l2).
  Proof.
    induction 1 as [|a b r1 r2 Hab _ IH]; [constructor|].
    cbn [stable_sort_by fold_right]. apply insert_by_F2; assumption.
  Qed.
End SortAdapters.

Lemma Forall2_impl' {A B} (R R' : A -> B -> Prop) l1 l2 :
  (forall x y, R x y -> R' x y) -> Forall2 R l1 l2 -> Forall2 R' l1 l2.
Proof. intros H. induction 1; constructor; auto. Qed.

Lemma Forall2_concat {A B} (R : A -> B -> Prop) l1 l2 :
  Forall2 (Forall2 R) l1 l2 -> Forall2 R (concat l1) (concat l2).
Proof. induction 1; cbn; [constructor|]. apply Forall2_app; assumption. Qed.

(* looking a tag up gives back the event it was made from *)
Lemma lookup_tag_from i (l : list Summary.event) : forall lp l', l = lp ++ l' ->
  Forall2 (fun m e => nth (Merge.m_pos m) l dummy_event = e /\ Merge.m_src m = i /\ Merge.m_inst m = ev_t e)
          (Merge.tag_from i (length lp) (map ev_t l')) l'.
Proof.
  intros lp l'. revert lp. induction l' as [|e l' IH]; intros lp E; [constructor|].
  cbn [map Merge.tag_from]. constructor.
  - cbn [Merge.m_pos Merge.m_src Merge.m_inst]. repeat split. subst l.
    rewrite app_nth2 by lia. rewrite Nat.sub_diag. reflexivity.
  - specialize (IH (lp ++ [e])). rewrite app_length in IH. cbn [length] in IH.
    replace (length lp + 1)%nat with (S (length lp)) in IH by lia. apply IH.
    rewrite <- app_assoc. exact E.
Qed.

Lemma lookup_tags (EC : list (list Summary.event)) : forall pre X, EC = pre ++ X ->
  Forall2 (fun m e => ev_of EC m = e /\ Merge.m_inst m = ev_t e)
          (concat (Merge.tag_srcs_from (length pre) (map (map ev_t) X))) (concat X).
Proof.
  intros pre X. revert pre. induction X as [|l X IH]; intros pre E; [constructor|].
  cbn [map Merge.tag_srcs_from concat]. apply Forall2_app.
  - pose proof (lookup_tag_from (length pre) l [] l eq_refl) as H. cbn [length] in H.
    eapply Forall2_impl'; [|exact H]. intros m e (H1 & H2 & H3). split; [|exact H3].
    unfold ev_of. rewrite H2. subst EC. rewrite app_nth2 by lia. rewrite Nat.sub_diag. exact H1.
  - specialize (IH (pre ++ [l])). rewrite app_length in IH. cbn [length] in IH.
    replace (length pre + 1)%nat with (S (length pre)) in IH by lia. apply IH.
    rewrite <- app_assoc. exact E.
Qed.

Lemma Forall2_map_eq {A B C} (R : A -> B -> Prop) (f : A -> C) (g : B -> C) l1 l2 :
  Forall2 R l1 l2 -> (forall x y, R x y -> f x = g y) -> map f l1 = map g l2.
Proof. induction 1 as [|x y r1 r2 H _ IH]; intro E; [reflexivity|]. cbn. rewrite (E _ _ H), IH; auto. Qed.

(* the printed tags, looked up, are the stable sort of the events themselves *)
Lemma printed_events EC :
  map (ev_of EC) (Merge.stable_sort (concat (tags_of EC))) = stable_sort_by ev_t (concat EC).
Proof.
  pose proof (lookup_tags EC [] EC eq_refl) as H. cbn [length] in H.
  fold (Merge.tag_srcs (map (map ev_t) EC)) in H. fold (tags_of EC) in H.
  rewrite (map_stable_sort ev_t).
  - f_equal. rewrite <- (map_id (concat EC)). eapply Forall2_map_eq; [exact H|]. intros m e [E _]. exact E.
  - intros m Hm. clear -H Hm. induction H as [|m0 e r1 r2 [E1 E2] _ IH]; [destruct Hm|].
    destruct Hm as [<-|Hm]; [rewrite E1; symmetry; exact E2|apply IH; exact Hm].
Qed.

(* ================================================================ sortedness of the sources *)

Lemma sorted_tag_from i ts : forall p, StronglySorted Z.le ts -> Merge.sorted_inst (Merge.tag_from i p ts).
Proof.
  induction ts as [|t r IH]; intros p S; [constructor|].
  inversion S as [|? ? S' F]; subst. cbn [Merge.tag_from]. constructor; [apply IH; exact S'|].
  clear -F. generalize (S p) as q. induction r as [|u r IH]; intro q; [constructor|].
  inversion F; subst. cbn [Merge.tag_from]. constructor; [exact H1|apply IH; exact H2].
Qed.

Lemma sorted_tags_from X : forall i, Forall (fun l => StronglySorted Z.le l) X ->
  Forall Merge.sorted_inst (Merge.tag_srcs_from i X).
Proof.
  induction X as [|l X IH]; intros i F; [constructor|]. inversion F; subst.
  cbn [Merge.tag_srcs_from]. constructor; [apply sorted_tag_from; assumption|apply IH; assumption].
Qed.

Lemma nondecreasing_sorted {M} (t : M -> Z) l : nondecreasing t l = true -> StronglySorted Z.le (map t l).
Proof.
  induction l as [|x l IH]; intro H; [constructor|].
  destruct l as [|y l]; [repeat constructor|].
  cbn [nondecreasing] in H. apply andb_true_iff in H as [H1 H2]. apply Z.leb_le in H1.
  specialize (IH H2). cbn [map] in *. constructor; [exact IH|].
  inversion IH as [|? ? S F]; subst. constructor; [exact H1|].
  eapply Forall_impl; [|exact F]. intros z Hz. cbn beta in Hz. lia.
Qed.

Lemma sorted_map_filter {A} (h : A -> Z) (p : A -> bool) l :
  StronglySorted Z.le (map h l) -> StronglySorted Z.le (map h (filter p l)).
Proof.
  induction l as [|x l IH]; intro S; [constructor|]. cbn [map] in S. inversion S as [|? ? S' F]; subst.
  cbn [filter]. destruct (p x); [|apply IH; exact S'].
  cbn [map]. constructor; [apply IH; exact S'|].
  rewrite Forall_forall in *. intros z Hz. apply in_map_iff in Hz as (y & <- & Hy).
  apply filter_In in Hy as [Hy _]. apply F. apply in_map. exact Hy.
Qed.

Lemma mark_last_fst {A} (l : list A) : map fst (mark_last l) = l.
Proof.
  induction l as [|x l IH]; [reflexivity|]. destruct l as [|y l]; [reflexivity|].
  cbn [mark_last map fst] in *. rewrite IH. reflexivity.
Qed.



(* ######################################################################## part 7: the other source kinds *)

(* ---------------------------------------------------------------- newline-terminated texts *)
Lemma nl_split_lines (t : bytes) : t = [] \/ (exists p, t = p ++ [10%N]) ->
  forall cur, Print.nl_split cur t = match lines t with [] => [] | h :: r => (rev cur ++ h) :: r end.
Proof.
  induction t as [|b r IH]; intros T cur; [reflexivity|].
  assert (TR : r = [] \/ exists p, r = p ++ [10%N]).
  { destruct T as [T|[p T]]; [discriminate|]. destruct p as [|x p]; cbn in T; inversion T; subst; [left; reflexivity|].
    right. exists p. reflexivity. }
  cbn [Print.nl_split lines]. unfold NL. destruct (b =? 10)%N eqn:B.
  - rewrite (IH TR []). cbn [rev app]. destruct (lines r); reflexivity.
  - rewrite (IH TR (b :: cur)). cbn [rev].
    destruct (lines r) as [|h q] eqn:LR.
    + exfalso. apply SyslinesProofs.lines_nil in LR. subst r.
      destruct T as [T|[p T]]; [discriminate|]. destruct p as [|x p]; cbn in T; inversion T; subst.
      * rewrite N.eqb_refl in B. discriminate.
      * destruct p; discriminate.
    + rewrite <- app_assoc. reflexivity.
Qed.


(* decidable form of nl_terminated *)
Definition nl_terminated_b (t : bytes) : bool :=
  match rev t with [] => true | b :: _ => (b =? 10)%N end.
Lemma nl_terminated_b_ok t : nl_terminated_b t = true -> nl_terminated t.
Proof.
  unfold nl_terminated_b, nl_terminated. intro H. destruct (rev t) as [|b r] eqn:E.
  - left. apply (f_equal (@rev N)) in E. rewrite rev_involutive in E. exact E.
  - right. apply N.eqb_eq in H. subst b. exists (rev r).
    apply (f_equal (@rev N)) in E. rewrite rev_involutive in E. exact E.
Qed.

Section KindMsgs.
  Variable dtspan : list N -> nat * nat.
  Hypothesis Hspan : span_ok dtspan.

  Lemma kmsg_flat k t ls : Print.flat_lines (kmsg dtspan k t ls) = ls.
  Proof.
    unfold Print.flat_lines, kmsg. cbn [Print.m_lines]. rewrite map_map.
    rewrite <- (map_id ls) at 2. apply map_ext. intro l. cbn. apply app_nil_r.
  Qed.

  Lemma kmsg_fixed_sim t text : msg_sim (kmsg dtspan Print.KFixed t [text]) (kmsg dtspan Print.KFixed t [text]).
  Proof.
    assert (W : PrintVariants.wf_full (kmsg dtspan Print.KFixed t [text])).
    { unfold PrintVariants.wf_full, Print.wf_msg. cbn. split; [eexists; reflexivity|exact I]. }
    unfold msg_sim. do 5 (split; [reflexivity|]). split; [exact W|]. split; [exact W|]. apply Hspan.
  Qed.

  Lemma kmsg_lines_sim k t text : k = Print.KEvtx \/ k = Print.KJournal -> nl_terminated text ->
    msg_sim (kmsg dtspan k t (lines text)) (kmsg dtspan k t (lines text)).
  Proof.
    intros K T.
    assert (W : PrintVariants.wf_full (kmsg dtspan k t (lines text))).
    { unfold PrintVariants.wf_full, Print.wf_msg.
      assert (E : Print.nl_split [] (Print.m_data (kmsg dtspan k t (lines text))) = Print.flat_lines (kmsg dtspan k t (lines text))).
      { unfold Print.m_data. rewrite kmsg_flat, SyslinesProofs.lines_concat.
        rewrite (nl_split_lines text T []). cbn [rev app]. destruct (lines text); reflexivity. }
      destruct K as [-> | ->]; cbn [kmsg Print.m_kind]; split; [exact E|exact I|exact E|exact I]. }
    unfold msg_sim. do 5 (split; [reflexivity|]). split; [exact W|]. split; [exact W|]. apply Hspan.
  Qed.
End KindMsgs.

Lemma Forall2_refl_map {A B} (R : B -> B -> Prop) (f : A -> B) l : Forall (fun x => R (f x) (f x)) l -> Forall2 R (map f l) (map f l).
Proof. induction 1; constructor; auto. Qed.

Lemma mk_events_sim i l : Forall (fun mb : Print.msg * bool => msg_sim (fst mb) (fst mb)) l ->
  Forall2 ev_sim (mk_events i l) (mk_events i l).
Proof.
  intro H. unfold mk_events. apply Forall2_refl_map. eapply Forall_impl; [|exact H].
  intros mb S. unfold ev_sim. cbn. auto.
Qed.

Lemma sorted_map_key {A} (R : A -> A -> Prop) (key : A -> Z) l :
  StronglySorted R l -> (forall x y, In x l -> In y l -> R x y -> (key x <= key y)%Z) ->
  StronglySorted Z.le (map key l).
Proof.
  induction 1 as [|x l S IH F]; intro K; [constructor|]. cbn [map]. constructor.
  - apply IH. intros a b Ha Hb. apply K; right; assumption.
  - rewrite Forall_forall in *. intros z Hz. apply in_map_iff in Hz as (y & <- & Hy).
    apply K; [left; reflexivity|right; exact Hy|apply F; exact Hy].
Qed.

Lemma ev_t_mk_events i l : map ev_t (mk_events i l) = map (fun mb : Print.msg * bool => Print.m_t (fst mb)) l.
Proof. unfold mk_events. rewrite map_map. reflexivity. Qed.


(* ---------------------------------------------------------------- accounting records *)
Lemma p_detect_is_detect hint file : p_detect hint file = FixedStructTablesOk.detect LayoutDetect.no_mem hint file.
Proof. reflexivity. Qed.

Lemma find_layout_in n L : find_layout n = Some L -> In L FixedStructTables.fixedstruct_layouts /\ Records.l_name L = n.
Proof.
  unfold find_layout. intro H. apply find_some in H as [H1 H2]. split; [exact H1|].
  symmetry. apply beqb_eq. exact H2.
Qed.

Lemma assoc_in {A} k (t : list (bytes * A)) v : assoc k t = Some v -> In (k, v) t.
Proof.
  induction t as [|[k' v'] r IH]; [discriminate|]. cbn [assoc].
  destruct (beqb k k') eqn:E; intro H.
  - inversion H; subst. apply beqb_eq in E. subst. left. reflexivity.
  - right. apply IH. exact H.
Qed.

(* the i-th entry of the file is the slice at its offset, and its decoded time value is the one the
   ordering core works on *)
Lemma index_recs_tv L (file : bytes) : forall fuel fo r,
  In r (RecordsSpec.index_recs (Records.l_size L) fo
          (map (Records.decode_tv L) (Records.chunks fuel (N.to_nat (Records.l_size L)) (skipn (N.to_nat fo) file)))) ->
  RecordsSpec.r_tv r = Records.decode_tv L (Records.slice (RecordsSpec.r_fo r) (Records.l_size L) file).
Proof.
  induction fuel as [|fuel IH]; intros fo r H; [destruct H|].
  cbn [Records.chunks] in H. destruct (skipn (N.to_nat fo) file) as [|x rest] eqn:SK; [destruct H|].
  destruct (Nat.ltb (length (x :: rest)) (N.to_nat (Records.l_size L))); [destruct H|].
  cbn [map RecordsSpec.index_recs] in H. destruct H as [<-|H].
  - cbn [RecordsSpec.r_tv RecordsSpec.r_fo]. unfold Records.slice. rewrite SK. reflexivity.
  - apply (IH (fo + Records.l_size L)%N). rewrite <- SK in H.
    change (skipn (N.to_nat (Records.l_size L)) (skipn (N.to_nat fo) file))
      with (skipnN (Records.l_size L) (skipnN fo file)) in H.
    rewrite skipnN_skipnN in H. exact H.
Qed.

Lemma file_recs_tv L (file : bytes) r :
  In r (RecordsSpec.index_recs (Records.l_size L) 0 (Records.file_tvs L file)) ->
  RecordsSpec.r_tv r = Records.decode_tv L (Records.slice (RecordsSpec.r_fo r) (Records.l_size L) file).
Proof. unfold Records.file_tvs. intro H. eapply (index_recs_tv L file (length file) 0%N). exact H. Qed.

Lemma tv_leb_inst a b : RecordsSpec.tv_leb a b = true ->
  (0 <= snd a < 1000000)%Z -> (0 <= snd b < 1000000)%Z -> (tv_inst a <= tv_inst b)%Z.
Proof.
  unfold RecordsSpec.tv_leb, RecordsSpec.cmp_leb, RecordsSpec.tv_cmp, tv_inst. intros H A B.
  destruct (Z.compare_spec (fst a) (fst b)) as [E|LT|GT]; [|lia|discriminate].
  destruct (Z.compare_spec (snd a) (snd b)); try discriminate; lia.
Qed.

Lemma bytes_ok_slice fo sz (file : bytes) : Forall (fun b => (b < 256)%N) file ->
  RecordRenderProofs.bytes_ok (Records.slice fo sz file).
Proof. intro H. unfold Records.slice, RecordRenderProofs.bytes_ok. apply RecordRenderProofs.Forall_firstn, RecordRenderProofs.Forall_skipn. exact H. Qed.

Section RecordsKind.
  Variable O : oracles.
  Hypothesis Hspan : span_ok (o_dtspan O).

  Lemma records_render_ok L n items (file : bytes) :
    In (n, items) FixedStructTables.fixedstruct_render -> (forall b4, (length (o_f32 O b4) <= 64)%nat) ->
    Forall (fun b => (b < 256)%N) file ->
    forall X : list RecordsSpec.rec,
    records_render O L items file (map RecordsSpec.r_fo X) =
    (map (fun r => (rec_msg O L (RecordRender.render (o_f32 O) items FixedStructTables.as_bytes_tail
                                   (Records.slice (RecordsSpec.r_fo r) (Records.l_size L) file)) file (RecordsSpec.r_fo r),
                    rec_flag (Records.l_size L) file (RecordsSpec.r_fo r))) X, GOk).
  Proof.
    intros IN F32 OKB. induction X as [|r X IH]; [reflexivity|].
    cbn [map records_render].
    rewrite (FixedStructTablesOk.table_as_bytes_is_render (o_f32 O) n items _ IN F32 (bytes_ok_slice _ _ _ OKB)).
    rewrite IH. reflexivity.
  Qed.

  (* the records worker sends exactly the specified messages *)
  Lemma records_worker_correct o hint lname (file : bytes) pf :
    pf_kind pf = KRecords hint lname -> pf_data pf = file -> src_ok O o pf ->
    records_worker O (op_after o) (op_before o) hint file = (records_spec O (op_after o) (op_before o) lname file, GOk).
  Proof.
    intros K D S. unfold src_ok in S. rewrite K, D in S. cbv zeta in S.
    destruct S as ((s & DET) & (L & items & FL & AS & _) & OKB & F32).
    unfold records_worker, records_spec. rewrite DET, FL, AS.
    destruct (find_layout_in _ _ FL) as [INL _].
    pose proof (FixedStructTablesOk.wf_size_pos _ (FixedStructTablesOk.layouts_wf L INL)) as POS.
    rewrite RecordsProofs.records_sent_K2_correct by exact POS.
    apply (records_render_ok L lname items file (assoc_in _ _ _ AS) F32 OKB).
  Qed.

  Lemma records_spec_sim o hint lname pf :
    pf_kind pf = KRecords hint lname -> src_ok O o pf ->
    Forall (fun mb : Print.msg * bool => msg_sim (fst mb) (fst mb)) (records_spec O (op_after o) (op_before o) lname (pf_data pf)).
  Proof.
    intros K _. unfold records_spec.
    destruct (find_layout lname); [|constructor]. destruct (assoc lname FixedStructTables.fixedstruct_render); [|constructor].
    apply Forall_map. apply Forall_forall. intros r _. cbn [fst]. unfold rec_msg. apply kmsg_fixed_sim. exact Hspan.
  Qed.

  Lemma records_spec_sorted o hint lname pf i :
    pf_kind pf = KRecords hint lname -> src_ok O o pf ->
    StronglySorted Z.le (map ev_t (mk_events i (records_spec O (op_after o) (op_before o) lname (pf_data pf)))).
  Proof.
    intros K S. unfold src_ok in S. rewrite K in S. cbv zeta in S.
    destruct S as (_ & (L & items & FL & AS & VAL) & _ & _).
    rewrite ev_t_mk_events. unfold records_spec. rewrite FL, AS. rewrite map_map. cbn [fst].
    set (kept := records_kept (op_after o) (op_before o) L (pf_data pf)) in *.
    apply (sorted_map_key (fun a b => RecordsSpec.rec_tle a b = true)).
    - apply (StableSort.stable_sort_sorted RecordsSpec.rec RecordsSpec.rec_tle RecordsProofs.rec_tle_total RecordsProofs.rec_tle_trans).
    - intros x y Hx Hy LE.
      apply (proj1 (StableSort.stable_sort_in RecordsSpec.rec RecordsSpec.rec_tle _ _)) in Hx.
      apply (proj1 (StableSort.stable_sort_in RecordsSpec.rec RecordsSpec.rec_tle _ _)) in Hy.
      rewrite Forall_forall in VAL. pose proof (VAL x Hx) as Vx. pose proof (VAL y Hy) as Vy.
      assert (TX : forall z, In z kept -> RecordsSpec.r_tv z = Records.decode_tv L (Records.slice (RecordsSpec.r_fo z) (Records.l_size L) (pf_data pf))).
      { intros z Hz. apply file_recs_tv. unfold kept, records_kept in Hz. apply filter_In in Hz as [Hz _]. apply filter_In in Hz as [Hz _]. exact Hz. }
      unfold rec_msg, kmsg. cbn [Print.m_t]. rewrite <- (TX x Hx), <- (TX y Hy).
      apply tv_leb_inst; assumption.
  Qed.
End RecordsKind.

(* ---------------------------------------------------------------- event logs *)
Lemma index_evs_nth (rs : list (option Z)) : forall i e, In e (RecordsSpec.index_evs i rs) ->
  (i <= RecordsSpec.e_idx e)%N /\ nth (N.to_nat (RecordsSpec.e_idx e - i)) rs None = Some (RecordsSpec.e_ts e).
Proof.
  induction rs as [|[t|] r IH]; intros i e H; [destruct H| |].
  - cbn [RecordsSpec.index_evs] in H. destruct H as [<-|H].
    + cbn. split; [lia|]. replace (i - i)%N with 0%N by lia. reflexivity.
    + destruct (IH _ _ H) as [L E]. split; [lia|].
      replace (N.to_nat (RecordsSpec.e_idx e - i)) with (S (N.to_nat (RecordsSpec.e_idx e - (i + 1)))) by lia. exact E.
  - cbn [RecordsSpec.index_evs] in H. destruct (IH _ _ H) as [L E]. split; [lia|].
    replace (N.to_nat (RecordsSpec.e_idx e - i)) with (S (N.to_nat (RecordsSpec.e_idx e - (i + 1)))) by lia. exact E.
Qed.

Section EvtxKind.
  Variable O : oracles.
  Hypothesis Hspan : span_ok (o_dtspan O).

  Lemma evtx_worker_correct a b recs : evtx_worker O a b recs = (evtx_spec O a b recs, GOk).
  Proof. unfold evtx_worker, evtx_spec. rewrite EvtxProofs.evtx_out_correct, map_map. reflexivity. Qed.

  Lemma evtx_lookup recs e : In e (RecordsSpec.index_evs 0 (evtx_times recs)) ->
    exists text, nth (N.to_nat (RecordsSpec.e_idx e)) recs None = Some (RecordsSpec.e_ts e, text).
  Proof.
    intro H. destruct (index_evs_nth _ _ _ H) as [_ E]. rewrite N.sub_0_r in E.
    unfold evtx_times in E.
    assert (G : nth (N.to_nat (RecordsSpec.e_idx e)) (map (option_map fst) recs) None
                = option_map fst (nth (N.to_nat (RecordsSpec.e_idx e)) recs None)) by (apply (map_nth (option_map fst) recs None)).
    rewrite G in E. destruct (nth (N.to_nat (RecordsSpec.e_idx e)) recs None) as [[t text]|]; [|discriminate].
    cbn in E. inversion E; subst. exists text. reflexivity.
  Qed.

  Lemma spec_events_in a b evs e : In e (RecordsSpec.spec_events a b evs) -> In e evs.
  Proof.
    unfold RecordsSpec.spec_events. intro H.
    apply (proj1 (StableSort.stable_sort_in RecordsSpec.ev RecordsSpec.ev_tle _ _)) in H. apply filter_In in H. tauto.
  Qed.

  Lemma evtx_spec_sim a b recs :
    Forall (fun r : option (Z * bytes) => match r with Some (_, t) => nl_terminated t | None => True end) recs ->
    Forall (fun mb : Print.msg * bool => msg_sim (fst mb) (fst mb)) (evtx_spec O a b recs).
  Proof.
    intro T. unfold evtx_spec. apply Forall_map. apply Forall_forall. intros e He.
    apply spec_events_in in He. destruct (evtx_lookup recs e He) as [text E].
    unfold evtx_msg. rewrite E. cbn [fst]. apply kmsg_lines_sim; [exact Hspan|left; reflexivity|].
    rewrite Forall_forall in T. assert (IN : In (Some (RecordsSpec.e_ts e, text)) recs).
    { rewrite <- E. apply nth_In. destruct (Nat.lt_ge_cases (N.to_nat (RecordsSpec.e_idx e)) (length recs)) as [L|G]; [exact L|].
      rewrite nth_overflow in E by exact G. discriminate. }
    exact (T _ IN).
  Qed.

  Lemma evtx_spec_sorted a b recs i : StronglySorted Z.le (map ev_t (mk_events i (evtx_spec O a b recs))).
  Proof.
    rewrite ev_t_mk_events. unfold evtx_spec. rewrite map_map.
    apply (sorted_map_key (fun x y => (RecordsSpec.e_ts x <= RecordsSpec.e_ts y)%Z)).
    - apply EvtxProofs.spec_events_sorted.
    - intros x y Hx Hy LE. apply spec_events_in in Hx, Hy.
      destruct (evtx_lookup recs x Hx) as [tx Ex]. destruct (evtx_lookup recs y Hy) as [ty Ey].
      unfold evtx_msg. rewrite Ex, Ey. cbn. exact LE.
  Qed.
End EvtxKind.

(* ---------------------------------------------------------------- journals *)
Lemma sorted_app_Z (l1 l2 : list Z) : StronglySorted Z.le l1 -> StronglySorted Z.le l2 ->
  (forall x y, In x l1 -> In y l2 -> (x <= y)%Z) -> StronglySorted Z.le (l1 ++ l2).
Proof.
  induction 1 as [|x l1 S IH F]; intros S2 H; [exact S2|]. cbn [app]. constructor.
  - apply IH; [exact S2|]. intros a b Ha Hb. apply H; [right; exact Ha|exact Hb].
  - apply Forall_app. split; [exact F|]. apply Forall_forall. intros y Hy. apply H; [left; reflexivity|exact Hy].
Qed.

(* 0 or 1 (or more) outputs per element, each carrying the element's key: sortedness is kept *)
Lemma sorted_flat_map {A B} (key : A -> Z) (kb : B -> Z) (g : A -> list B) l :
  StronglySorted Z.le (map key l) -> (forall x y, In y (g x) -> kb y = key x) ->
  StronglySorted Z.le (map kb (flat_map g l)).
Proof.
  intros S K. induction l as [|x l IH]; [constructor|]. cbn [map] in S. inversion S as [|? ? S' F]; subst.
  cbn [flat_map]. rewrite map_app. apply sorted_app_Z.
  - assert (E : forall ys, (forall y, In y ys -> kb y = key x) -> StronglySorted Z.le (map kb ys)).
    { induction ys as [|y ys IHy]; intro Hy; [constructor|]. cbn [map]. constructor.
      - apply IHy. intros z Hz. apply Hy. right. exact Hz.
      - apply Forall_forall. intros z Hz. apply in_map_iff in Hz as (w & <- & Hw).
        rewrite (Hy y (or_introl eq_refl)), (Hy w (or_intror Hw)). lia. }
    apply E. intros y Hy. apply K. exact Hy.
  - apply IH. exact S'.
  - intros a b Ha Hb. apply in_map_iff in Ha as (y & <- & Hy). rewrite (K _ _ Hy).
    apply in_map_iff in Hb as (z & <- & Hz). apply in_flat_map in Hz as (x' & Hx' & Hz).
    rewrite (K _ _ Hz). rewrite Forall_forall in F. apply F. apply in_map. exact Hx'.
Qed.

Lemma nondecreasing_strongly (l : list Z) : Journal.nondecreasing l -> StronglySorted Z.le l.
Proof.
  induction l as [|x r IH]; intro H; [constructor|]. destruct H as [H1 H2]. specialize (IH H2).
  constructor; [exact IH|]. destruct r as [|y r]; [constructor|].
  inversion IH as [|? ? S F]; subst. constructor; [exact H1|].
  eapply Forall_impl; [|exact F]. intros z Hz. cbn beta in Hz. lia.
Qed.

Section JournalKind.
  Variable O : oracles.
  Hypothesis Hspan : span_ok (o_dtspan O).

  (* the receive time is what every rendering of the current source shows (DT_USES_SOURCE_OVERRIDE) *)
  Lemma jentry_inst_time e : jentry_inst e = (Journal.e_time e * 1000)%Z.
  Proof. reflexivity. Qed.

  Lemma journal_emit_spec o es :
    journal_emit O o es =
    (flat_map (fun e => match JournalRender.next_entry JournalTables.src_cfg (op_jenv o) (op_jout o) e with
                        | JournalRender.NFound t => [journal_msg O e t]
                        | _ => []
                        end) es, GOk).
  Proof.
    induction es as [|e r IH]; [reflexivity|]. cbn [journal_emit flat_map].
    pose proof (JournalRenderBasic.next_entry_no_panic_l JournalTables.src_cfg (op_jenv o) (op_jout o) e JournalRenderCfg.src_formats_ok) as NP.
    destruct (JournalRender.next_entry JournalTables.src_cfg (op_jenv o) (op_jout o) e) as [t| |]; [| |congruence].
    - rewrite IH. reflexivity.
    - rewrite IH. reflexivity.
  Qed.

  Lemma journal_worker_correct o j pf : pf_kind pf = KJournalFile j -> src_ok O o pf ->
    journal_worker O o j = (journal_spec O o j, GOk).
  Proof.
    intros K S. unfold src_ok in S. rewrite K in S. destruct S as (J1 & ND & VR & BA & BB & _).
    unfold journal_worker, journal_spec.
    rewrite (JournalWindow.journal_out_correct_l _ _ J1 j _ _ ND VR BA BB). apply journal_emit_spec.
  Qed.

  Lemma journal_spec_sim o j pf : pf_kind pf = KJournalFile j -> src_ok O o pf ->
    Forall (fun mb : Print.msg * bool => msg_sim (fst mb) (fst mb)) (journal_spec O o j).
  Proof.
    intros K S. unfold src_ok in S. rewrite K in S. destruct S as (_ & _ & _ & _ & _ & T).
    unfold journal_spec. apply Forall_forall. intros mb Hmb. apply in_flat_map in Hmb as (e & He & Hmb).
    unfold JournalSpec.window in He. apply filter_In in He as [He _].
    rewrite Forall_forall in T. specialize (T e He).
    destruct (JournalRender.next_entry JournalTables.src_cfg (op_jenv o) (op_jout o) e) as [t| |]; [|destruct Hmb|destruct Hmb].
    destruct Hmb as [<-|[]]. unfold journal_msg. cbn [fst]. apply kmsg_lines_sim; [exact Hspan|right; reflexivity|exact T].
  Qed.

  Lemma journal_spec_sorted o j pf i : pf_kind pf = KJournalFile j -> src_ok O o pf ->
    StronglySorted Z.le (map ev_t (mk_events i (journal_spec O o j))).
  Proof.
    intros K S. unfold src_ok in S. rewrite K in S. destruct S as (_ & ND & _).
    rewrite ev_t_mk_events. unfold journal_spec.
    apply (sorted_flat_map (fun e => (Journal.e_time e * 1000)%Z)).
    - unfold JournalSpec.window.
      apply (sorted_map_filter (fun e => (Journal.e_time e * 1000)%Z)).
      apply nondecreasing_strongly in ND. unfold Journal.times in ND.
      clear -ND. induction j as [|e r IH]; [constructor|]. cbn [map] in *. inversion ND as [|? ? S F]; subst.
      constructor; [apply IH; exact S|]. rewrite Forall_forall in *. intros z Hz. apply in_map_iff in Hz as (y & <- & Hy).
      assert (Journal.e_time e <= Journal.e_time y)%Z by (apply F; apply in_map; exact Hy). lia.
    - intros e mb Hmb.
      destruct (JournalRender.next_entry JournalTables.src_cfg (op_jenv o) (op_jout o) e) as [t| |]; [|destruct Hmb|destruct Hmb].
      destruct Hmb as [<-|[]]. reflexivity.
  Qed.
End JournalKind.


(* ######################################################################## part 7b: year-less text logs (C11) *)
(* "the datetime window and the cross-file merge use the inferred dates": the spec groups of a
   year-less file under the derived oracle [yl_dated] are the groups found with "a year-less
   pattern matches the line", and their instants are, message by message, the ones
   Year.assign_years (process_missing_year, C11) infers — provided equal head lines do not occur
   twice (the oracle is a function of the line's bytes). *)

(* the instant of a group is what the oracle says of its head line; grouping depends only on WHICH
   lines are dated *)
Lemma groups_heads d ls : Forall (fun g : group => d (hd [] (snd g)) = Some (fst g)) (snd (groups d ls)).
Proof.
  induction ls as [|l r IH]; [constructor|]. rewrite SyslinesProofs.groups_cons.
  destruct (d l) eqn:D; cbn [snd]; [|exact IH]. constructor; [exact D|exact IH].
Qed.

Lemma groups_same_lines d1 d2 ls : (forall l, In l ls -> (d1 l = None <-> d2 l = None)) ->
  fst (groups d1 ls) = fst (groups d2 ls) /\ map snd (snd (groups d1 ls)) = map snd (snd (groups d2 ls)).
Proof.
  induction ls as [|l r IH]; intro H; [split; reflexivity|].
  destruct IH as [I1 I2]; [intros x Hx; apply H; right; exact Hx|].
  rewrite !SyslinesProofs.groups_cons. pose proof (H l (or_introl eq_refl)) as HL.
  destruct (d1 l) eqn:D1; destruct (d2 l) eqn:D2; cbn [fst snd map].
  - rewrite I1, I2. split; reflexivity.
  - exfalso. destruct HL as [_ HL]. specialize (HL eq_refl). discriminate.
  - exfalso. destruct HL as [HL _]. specialize (HL eq_refl). discriminate.
  - rewrite I1, I2. split; reflexivity.
Qed.

Lemma assoc_combine_nth (ks : list bytes) : NoDup ks -> forall (vs : list Z) k (d : bytes),
  (k < length ks)%nat -> length vs = length ks ->
  assoc (nth k ks d) (combine ks vs) = Some (nth k vs 0%Z).
Proof.
  induction 1 as [|x ks NI ND IH]; intros vs k d L E; [cbn in L; lia|].
  destruct vs as [|v vs]; [discriminate|]. cbn [combine assoc]. destruct k as [|k].
  - cbn [nth]. rewrite beqb_refl. reflexivity.
  - cbn [nth]. destruct (beqb (nth k ks d) x) eqn:B.
    + exfalso. apply beqb_eq in B. apply NI. rewrite <- B. apply nth_In. cbn in L. lia.
    + apply IH; cbn in L, E; lia.
Qed.

Section Yearless.
  Variable O : oracles.

  Lemma heads_dated (f : file) : Forall (fun h => o_ydate O h <> None) (yl_heads O f).
  Proof.
    unfold yl_heads. apply Forall_map. pose proof (groups_heads (ydated0 O) (lines f)) as H.
    unfold syslines. eapply Forall_impl; [|exact H]. intros g E. unfold ydated0 in E.
    destruct (o_ydate O (hd [] (snd g))); [discriminate|discriminate].
  Qed.

  Lemma yl_msgs_length (f : file) : length (yl_msgs O f) = length (yl_heads O f).
  Proof.
    unfold yl_msgs. pose proof (heads_dated f) as H. induction H as [|h r Hh _ IH]; [reflexivity|].
    cbn [flat_map]. destruct (o_ydate O h); [|congruence]. cbn. rewrite IH. reflexivity.
  Qed.

  (* a table built from the head lines and ANY list of as many instants: the groups are those of
     "a year-less pattern matches the line" and their instants are the listed ones, in order *)
  Lemma table_instants (f : file) (vs : list Z) :
    length vs = length (yl_heads O f) -> NoDup (yl_heads O f) ->
    map snd (syslines (yl_dated O (combine (yl_heads O f) vs)) f) = map snd (syslines (ydated0 O) f) /\
    map fst (syslines (yl_dated O (combine (yl_heads O f) vs)) f) = vs.
  Proof.
    intros LEN ND. set (tab := combine (yl_heads O f) vs).
    (* every line a year-less pattern matches is a head, hence in the table *)
    assert (INH : forall l, In l (lines f) -> o_ydate O l <> None -> In l (yl_heads O f)).
    { intros l. unfold yl_heads, syslines. generalize (lines f) as ls. induction ls as [|x r IH]; intros I D; [destruct I|].
      rewrite SyslinesProofs.groups_cons. unfold ydated0 at 1.
      destruct I as [<-|I].
      - destruct (o_ydate O x); [|congruence]. cbn. left. reflexivity.
      - destruct (o_ydate O x); cbn [option_map snd map]; [right|]; apply IH; assumption. }
    assert (TAB : forall k, (k < length (yl_heads O f))%nat ->
                  yl_dated O tab (nth k (yl_heads O f) []) = Some (nth k vs 0%Z)).
    { intros k L. unfold yl_dated. pose proof (heads_dated f) as HD. rewrite Forall_forall in HD.
      destruct (o_ydate O (nth k (yl_heads O f) [])) eqn:D; [|exfalso; eapply HD; [apply nth_In; exact L|exact D]].
      apply assoc_combine_nth; assumption. }
    assert (SAME : forall l, In l (lines f) -> (yl_dated O tab l = None <-> ydated0 O l = None)).
    { intros l I. unfold ydated0. split.
      - intro E. destruct (o_ydate O l) eqn:D; [|reflexivity]. exfalso.
        assert (IH : In l (yl_heads O f)) by (apply INH; [exact I|congruence]).
        destruct (In_nth _ _ [] IH) as (k & L & EK). rewrite <- EK in E. rewrite (TAB k L) in E. discriminate.
      - unfold yl_dated. destruct (o_ydate O l); [discriminate|reflexivity]. }
    destruct (groups_same_lines (yl_dated O tab) (ydated0 O) (lines f) SAME) as [_ G2].
    split; [exact G2|].
    (* instants: group k's head is head k *)
    pose proof (groups_heads (yl_dated O tab) (lines f)) as GH. fold (syslines (yl_dated O tab) f) in GH.
    assert (HE : map (fun g : group => hd [] (snd g)) (syslines (yl_dated O tab) f) = yl_heads O f).
    { assert (MM : forall l : list group, map (fun g : group => hd ([] : list N) (snd g)) l
                                          = map (@hd (list N) []) (map (@snd Z (list (list N))) l))
        by (intro l; rewrite map_map; reflexivity).
      unfold yl_heads. rewrite !MM. unfold syslines. rewrite G2. reflexivity. }
    apply (nth_ext _ _ 0%Z 0%Z).
    - rewrite map_length, LEN, <- HE, map_length. reflexivity.
    - intros k L. rewrite map_length in L.
      assert (LK : (k < length (yl_heads O f))%nat) by (rewrite <- HE, map_length; exact L).
      rewrite Forall_forall in GH.
      pose proof (GH (nth k (syslines (yl_dated O tab) f) (0%Z, [])) (nth_In _ _ L)) as E.
      assert (HK : hd [] (snd (nth k (syslines (yl_dated O tab) f) (0%Z, []))) = nth k (yl_heads O f) []).
      { rewrite <- HE. symmetry.
        exact (map_nth (fun g : group => hd ([] : list N) (snd g)) (syslines (yl_dated O tab) f) (0%Z, []) k). }
      rewrite HK, (TAB k LK) in E. inversion E as [E1].
      rewrite E1. exact (map_nth (@fst Z (list (list N))) (syslines (yl_dated O tab) f) (0%Z, []) k).
  Qed.


  Lemma assign_years_length fuel off Y ms ys : Year.assign_years fuel off Y ms = Some ys -> length ys = length ms.
  Proof.
    unfold Year.assign_years. destruct (Year.walk fuel off Y None (rev ms)) as [l|] eqn:W; [|discriminate].
    cbn. intro H. inversion H; subst. rewrite rev_length, (YearProofs.walk_length _ _ _ _ _ _ W), rev_length. reflexivity.
  Qed.

  Theorem yearless_instants off mtime (f : file) ys :
    Year.assign_years 2 off (Year.year_of_seconds off mtime) (yl_msgs O f) = Some ys ->
    NoDup (yl_heads O f) ->
    yl_table O off mtime f = Some (combine (yl_heads O f) (map snd ys)) /\
    map snd (syslines (yl_dated O (combine (yl_heads O f) (map snd ys))) f) = map snd (syslines (ydated0 O) f) /\
    map fst (syslines (yl_dated O (combine (yl_heads O f) (map snd ys))) f) = map snd ys.
  Proof.
    intros AY ND. split; [unfold yl_table; rewrite AY; reflexivity|].
    apply table_instants; [|exact ND].
    rewrite map_length, (assign_years_length _ _ _ _ _ AY). apply yl_msgs_length.
  Qed.

  (* with C11's theorem 5: when the true (year, message) sequence of the file satisfies C11's gap
     hypothesis and the modification time lies in the last message's year, the instants the
     window and the merge use are the TRUE instants *)
  Corollary yearless_true_instants off mtime (f : file) (tm : list (Z * Year.ymsg)) :
    YearProofs.seq_ok off tm -> map snd tm = yl_msgs O f ->
    Year.year_of_seconds off mtime = fst (last tm (0%Z, Year.mkMsg 0 0 0)) ->
    NoDup (yl_heads O f) ->
    exists tab, yl_table O off mtime f = Some tab /\
      map fst (syslines (yl_dated O tab) f) = map (YearProofs.instant_of off) tm.
  Proof.
    intros SQ MS YR ND.
    pose proof (YearProofs.assign_true_years_lemma off tm SQ) as AY. rewrite <- YR, MS in AY.
    destruct (yearless_instants off mtime f _ AY ND) as (T & _ & I).
    eexists. split; [exact T|]. rewrite I, map_map. reflexivity.
  Qed.
End Yearless.


(* ######################################################################## part 7c: the early stop of the year walk *)
(* process_missing_year stops at the first message (from the end) that lies before --dt-after
   (C11 theorem 7: the walked messages get the years of the full walk); the messages above keep the
   filler year.  When the window does not reach back to the filler dates (finding F17 excluded)
   the specification under the stopped walk and under the full walk select the same messages. *)
Lemma walk_until_prefix a fuel off : forall rms year prev l,
  Year.walk fuel off year prev rms = Some l ->
  exists k, walk_until a fuel off year prev rms = Some (firstn k l) /\ (k <= length l)%nat /\
            ((k < length l)%nat -> exists av yt, a = Some av /\ (0 < k)%nat /\ nth_error l (k - 1) = Some yt /\ (snd yt < av)%Z).
Proof.
  induction rms as [|m r IH]; intros year prev l W; cbn [Year.walk] in W.
  - inversion W; subst. exists 0%nat. cbn. split; [reflexivity|]. split; [lia|]. intro H; inversion H.
  - cbn [walk_until]. destruct (Year.redate fuel off year prev m) as [y t| |]; try discriminate.
    destruct (Year.walk fuel off y (Some t) r) as [l'|] eqn:W'; [|discriminate]. cbn in W. inversion W; subst l. clear W.
    destruct (IH _ _ _ W') as (k' & E & LE & ST).
    assert (GO : exists k, option_map (cons (y, t)) (walk_until a fuel off y (Some t) r) = Some (firstn k ((y, t) :: l')) /\
                 (k <= length ((y, t) :: l'))%nat /\
                 ((k < length ((y, t) :: l'))%nat -> exists av yt, a = Some av /\ (0 < k)%nat /\ nth_error ((y, t) :: l') (k - 1) = Some yt /\ (snd yt < av)%Z)).
    { exists (S k'). rewrite E. cbn [option_map firstn length]. split; [reflexivity|]. split; [lia|].
      intro L. destruct (ST ltac:(lia)) as (av & yt & A & P & N & LT). exists av, yt. split; [exact A|]. split; [lia|]. split; [|exact LT].
      replace (S k' - 1)%nat with (S (k' - 1)) by lia. exact N. }
    destruct a as [av|]; [|exact GO].
    destruct (Z.ltb_spec t av); [|exact GO].
    exists 1%nat. cbn [firstn length]. split; [reflexivity|]. split; [lia|].
    intros _. exists av, (y, t). repeat split; [lia|exact H].
Qed.

Lemma combine_fst_snd {A B} (l : list (A * B)) : l = combine (map fst l) (map snd l).
Proof. induction l as [|[a b] l IH]; [reflexivity|]. cbn. f_equal. exact IH. Qed.

Lemma mark_last_app {A} (X Y : list A) : Y <> [] ->
  mark_last (X ++ Y) = map (fun x => (x, false)) X ++ mark_last Y.
Proof.
  intro NE. induction X as [|x X IH]; [reflexivity|]. cbn [app mark_last map].
  destruct (X ++ Y) as [|z r] eqn:E; [destruct X; [cbn in E; congruence|discriminate]|].
  rewrite <- IH. reflexivity.
Qed.

Lemma combine_app {A B} (a1 a2 : list A) (b1 b2 : list B) : length a1 = length b1 ->
  combine (a1 ++ a2) (b1 ++ b2) = combine a1 b1 ++ combine a2 b2.
Proof.
  revert b1. induction a1 as [|x a1 IH]; intros [|y b1] L; try discriminate; [reflexivity|].
  cbn. f_equal. apply IH. cbn in L. lia.
Qed.

Lemma sorted_firstn_le (l : list Z) m d : StronglySorted Z.le l -> (m < length l)%nat ->
  Forall (fun x => (x <= nth m l d)%Z) (firstn m l).
Proof.
  revert m. induction l as [|x l IH]; intros m S L; [cbn in L; lia|].
  destruct m as [|m]; [constructor|]. inversion S as [|? ? S' F]; subst. cbn [firstn nth]. constructor.
  - rewrite Forall_forall in F. apply F. apply nth_In. cbn in L. lia.
  - apply IH; [exact S'|cbn in L; lia].
Qed.

Section EarlyStop.
  Variable O : oracles.

  Lemma early_stop_spec_eq (o : options) off mtime (f : file) tab tes :
    yl_table O off mtime f = Some tab -> file_ok (yl_dated O tab) f ->
    yl_table_es O (op_after o) off mtime f = Some tes ->
    NoDup (yl_heads O f) ->
    (forall av, op_after o = Some av ->
       forall w, walk_until (op_after o) 2 off (Year.year_of_seconds off mtime) None (rev (yl_msgs O f)) = Some w ->
       Forall (fun m => (filler_inst off m < av)%Z) (firstn (length (yl_msgs O f) - length w) (yl_msgs O f))) ->
    text_spec (yl_dated O tes) (o_dtspan O) (op_after o) (op_before o) f =
    text_spec (yl_dated O tab) (o_dtspan O) (op_after o) (op_before o) f.
  Proof.
    intros TB (CH & _) TE ND F17.
    unfold yl_table in TB. destruct (Year.assign_years 2 off (Year.year_of_seconds off mtime) (yl_msgs O f)) as [ys|] eqn:AY; [|discriminate].
    inversion TB; subst tab. clear TB.
    set (ms := yl_msgs O f) in *. set (Y := Year.year_of_seconds off mtime) in *. set (a := op_after o) in *.
    pose proof (assign_years_length _ _ _ _ _ AY) as LYS. fold ms in LYS.
    unfold Year.assign_years in AY. destruct (Year.walk 2 off Y None (rev ms)) as [l|] eqn:W; [|discriminate].
    cbn in AY. inversion AY; subst ys. clear AY. rewrite rev_length in LYS.
    destruct (walk_until_prefix a 2 off _ _ _ _ W) as (k & WU & KL & ST).
    unfold yl_table_es, es_instants in TE. fold ms Y a in TE. rewrite WU in TE. inversion TE; subst tes. clear TE.
    rewrite firstn_length, (Nat.min_l _ _ KL) in *.
    set (n := length ms) in *. rewrite LYS in KL, ST.
    set (FI := map snd (rev l)).
    assert (LFI : length FI = n) by (unfold FI; rewrite map_length, rev_length; exact LYS).
    assert (RV : map snd (rev (firstn k l)) = skipn (n - k) FI).
    { unfold FI. rewrite skipn_map. f_equal. rewrite skipn_rev. rewrite LYS.
      replace (n - (n - k))%nat with k by lia. reflexivity. }
    rewrite RV.
    assert (LH : length (yl_heads O f) = n) by (unfold n, ms; symmetry; apply yl_msgs_length).
    (* the two group lists *)
    destruct (table_instants O f FI ltac:(lia) ND) as [S2 F2].
    assert (LTS : length (map (filler_inst off) (firstn (n - k) ms) ++ skipn (n - k) FI) = length (yl_heads O f)).
    { rewrite app_length, map_length, firstn_length, skipn_length. unfold n in *. lia. }
    destruct (table_instants O f _ LTS ND) as [S1 F1].
    set (G1 := syslines (yl_dated O (combine (yl_heads O f) (map (filler_inst off) (firstn (n - k) ms) ++ skipn (n - k) FI))) f) in *.
    set (G2 := syslines (yl_dated O (combine (yl_heads O f) FI)) f) in *.
    unfold text_spec, spec_file_msgs. fold G1 G2. f_equal.
    destruct (Nat.eq_dec k n) as [->|NK].
    - (* the walk reached the first message: the same table *)
      replace (n - n)%nat with 0%nat in * by lia. cbn [firstn map app skipn] in *.
      rewrite (combine_fst_snd G1), (combine_fst_snd G2), F1, F2, S1, S2. reflexivity.
    - destruct (ST ltac:(lia)) as (av & yt & A & KP & NT & LT).
      set (LS := map snd G2) in *.
      assert (LLS : length LS = n).
      { unfold LS. rewrite map_length, <- (map_length fst G2), F2. exact LFI. }
      set (m := (n - k)%nat) in *.
      assert (SPL : forall (X1 X2 : list Z), length X1 = m ->
                combine (X1 ++ X2) LS = combine X1 (firstn m LS) ++ combine X2 (skipn m LS)).
      { intros X1 X2 L1. rewrite <- (firstn_skipn m LS) at 1. apply combine_app. rewrite firstn_length. lia. }
      assert (E1 : G1 = combine (map (filler_inst off) (firstn m ms)) (firstn m LS) ++ combine (skipn m FI) (skipn m LS)).
      { rewrite (combine_fst_snd G1), F1, S1, <- S2. apply SPL. rewrite map_length, firstn_length. unfold n, m in *. lia. }
      assert (E2 : G2 = combine (firstn m FI) (firstn m LS) ++ combine (skipn m FI) (skipn m LS)).
      { rewrite (combine_fst_snd G2) at 1. rewrite F2. rewrite <- (firstn_skipn m FI) at 1. apply SPL. rewrite firstn_length. lia. }
      assert (NEY : combine (skipn m FI) (skipn m LS) <> []).
      { intro E. apply (f_equal (@length _)) in E. rewrite combine_length, !skipn_length in E. cbn in E. unfold m in E. lia. }
      rewrite E1, E2, !(mark_last_app _ _ NEY), !filter_app. f_equal.
      (* every message the walk did not reach is before the bound, under the filler date and under the inferred one *)
      assert (OUT : forall (X : list group), Forall (fun g => (fst g < av)%Z) X ->
                    filter (fun gl : group * bool => in_window a (op_before o) (fst (fst gl))) (map (fun x => (x, false)) X) = []).
      { intros X HX. induction HX as [|g X Hg _ IH]; [reflexivity|]. cbn [map filter fst]. rewrite IH.
        unfold in_window, geq_lo. rewrite A. destruct (Z.leb_spec av (fst g)); [lia|reflexivity]. }
      rewrite !OUT; [reflexivity| |].
      + (* inferred instants: the file is chronological and the stop message lies before the bound *)
        assert (SFI : StronglySorted Z.le FI).
        { rewrite <- F2. apply nondecreasing_sorted. exact CH. }
        assert (NTH : nth m FI 0%Z = snd yt).
        { unfold FI. change 0%Z with (@snd Z Z (0%Z, 0%Z)). rewrite map_nth. f_equal.
          rewrite rev_nth by (rewrite LYS; unfold m; lia). rewrite LYS.
          replace (n - S m)%nat with (k - 1)%nat by (unfold m; lia).
          apply nth_error_nth. exact NT. }
        pose proof (sorted_firstn_le FI m 0%Z SFI ltac:(rewrite LFI; unfold m; lia)) as LEQ. rewrite NTH in LEQ.
        apply Forall_forall. intros [t ls] Hg. apply in_combine_l in Hg. rewrite Forall_forall in LEQ. specialize (LEQ _ Hg). cbn [fst]. lia.
      + specialize (F17 av A _ WU).
        assert (LW : length (firstn k l) = k) by (rewrite firstn_length; lia). rewrite LW in F17. fold n m in F17.
        apply Forall_forall. intros [t ls] Hg. apply in_combine_l in Hg. apply in_map_iff in Hg as (x & <- & Hx).
        rewrite Forall_forall in F17. cbn [fst]. apply F17. exact Hx.
  Qed.
End EarlyStop.

(* ######################################################################## part 8: text kinds, dispatch, the theorem *)

Lemma groups_in dated ls :
  (forall l, In l (fst (groups dated ls)) -> In l ls) /\
  (forall g l, In g (snd (groups dated ls)) -> In l (snd g) -> In l ls).
Proof.
  induction ls as [|x ls [IH1 IH2]]; [cbn; split; [tauto|intros g l []]|].
  rewrite SyslinesProofs.groups_cons. destruct (dated x) as [t|]; cbn [fst snd]; split.
  - intros l [].
  - intros g l [<-|Hg] Hl.
    + cbn [snd] in Hl. destruct Hl as [<-|Hl]; [left; reflexivity|right; apply IH1; exact Hl].
    + right. eapply IH2; eauto.
  - intros l [<-|Hl]; [left; reflexivity|right; apply IH1; exact Hl].
  - intros g l Hg Hl. right. eapply IH2; eauto.
Qed.

Lemma group_lines_nonempty dated (f : file) g l : In g (syslines dated f) -> In l (snd g) -> l <> [].
Proof.
  intros Hg Hl. destruct (groups_in dated (lines f)) as [_ H]. specialize (H g l Hg Hl).
  pose proof (SyslinesProofs.wf_lines_pos _ (SyslinesProofs.lines_wf f) l H) as P.
  intro E. subst l. cbn in P. lia.
Qed.

Lemma mark_last_in {A} (l : list A) x b : In (x, b) (mark_last l) -> In x l.
Proof. intro H. rewrite <- (mark_last_fst l). apply (in_map fst) in H. exact H. Qed.

Section TextKind.
  Variable dated : list N -> option Z.
  Variable dtspan : list N -> nat * nat.
  Hypothesis Hspan : span_ok dtspan.

  (* one text worker: the messages it sends are the spec messages of its file, up to line parts *)
  Lemma text_worker_correct bs a b streamed (f : file) i : (0 < bs)%N -> file_ok dated f ->
    Gate.gate dated bs f = Gate.FileOk ->
    exists out, text_worker dated dtspan bs a b streamed f = (out, GOk) /\
                Forall2 ev_sim (mk_events i out) (mk_events i (text_spec dated dtspan a b f)).
  Proof.
    intros H (CH & L2) G. unfold text_worker. rewrite G.
    destruct (worker_stream dated bs f streamed a b H CH L2) as (ms & E1 & E2 & E3).
    rewrite E1. eexists. split; [reflexivity|].
    unfold text_spec. rewrite <- E2. clear E1 E2.
    induction ms as [|mb ms IH]; [constructor|].
    inversion E3 as [|? ? [OK NEL] E3']; subst. cbn [map mk_events]. constructor; [|apply IH; exact E3'].
    unfold ev_sim. cbn [Summary.e_src Summary.e_is_last Summary.e_msg fst snd].
    split; [reflexivity|]. split; [reflexivity|]. apply pmsg_sim; assumption.
  Qed.

  (* the same worker over the cached reader machine (Model/Caches.v): the same messages *)
  Lemma cached_text_worker_correct bs rp a b streamed (f : file) i : (0 < bs)%N -> file_ok dated f ->
    first_byte_ok dated f -> cached_case a b streamed = true ->
    Gate.gate dated bs f = Gate.FileOk ->
    exists out, cached_text_worker dated dtspan bs rp a b streamed f = (out, GOk) /\
                Forall2 ev_sim (mk_events i out) (mk_events i (text_spec dated dtspan a b f)).
  Proof.
    intros H (CH & L2) FB CC G. unfold cached_text_worker. rewrite G.
    destruct (cached_worker_stream dated bs rp f streamed a b H CH L2 FB CC) as (sls & E1 & E2 & E3).
    rewrite E1. eexists. split; [reflexivity|].
    unfold text_spec. rewrite <- E2. clear E1 E2.
    induction sls as [|s sls IH]; [constructor|].
    inversion E3 as [|? ? [OK NEL] E3']; subst. cbn [map mk_events]. constructor; [|apply IH; exact E3'].
    unfold ev_sim, cmsg_of. cbn [Summary.e_src Summary.e_is_last Summary.e_msg fst snd].
    split; [reflexivity|]. split; [reflexivity|]. apply pmsg_sim; assumption.
  Qed.

  (* a seekable file with a window: the binary search threaded through the cached machine, with the drops *)
  Lemma cached_win_worker_correct bs rp a b (f : file) i : (0 < bs)%N -> file_ok dated f ->
    first_byte_ok dated f -> Gate.gate dated bs f = Gate.FileOk ->
    exists out, cached_win_worker dated dtspan bs rp a b f = (out, GOk) /\
                Forall2 ev_sim (mk_events i out) (mk_events i (text_spec dated dtspan a b f)).
  Proof.
    intros H (CH & L2) FB G. unfold cached_win_worker. rewrite G.
    destruct (cached_win_stream dated bs rp f a b H CH L2 FB) as (ms & E1 & E2 & E3).
    rewrite E1. eexists. split; [reflexivity|].
    unfold text_spec. rewrite <- E2. clear E1 E2.
    induction ms as [|mb ms IH]; [constructor|].
    inversion E3 as [|? ? [OK NEL] E3']; subst. cbn [map mk_events]. constructor; [|apply IH; exact E3'].
    unfold ev_sim. cbn [Summary.e_src Summary.e_is_last Summary.e_msg fst snd].
    split; [reflexivity|]. split; [reflexivity|]. apply pmsg_sim; assumption.
  Qed.

  Lemma text_worker_c_correct bs rp a b streamed (f : file) i : (0 < bs)%N -> file_ok dated f ->
    first_byte_ok dated f -> Gate.gate dated bs f = Gate.FileOk ->
    exists out, text_worker_c dated dtspan bs rp a b streamed f = (out, GOk) /\
                Forall2 ev_sim (mk_events i out) (mk_events i (text_spec dated dtspan a b f)).
  Proof.
    intros H OK FB G. unfold text_worker_c. destruct (cached_case a b streamed) eqn:CC.
    - apply cached_text_worker_correct; assumption.
    - apply cached_win_worker_correct; assumption.
  Qed.

  (* stages 2 + 3 alone (KTextRows: stage 1 is the per-row analysis) *)
  Lemma text_run_correct bs a b streamed (f : file) i : (0 < bs)%N -> file_ok dated f ->
    exists out, text_run dated dtspan bs a b streamed f = (out, GOk) /\
                Forall2 ev_sim (mk_events i out) (mk_events i (text_spec dated dtspan a b f)).
  Proof.
    intros H (CH & L2). unfold text_run.
    destruct (worker_stream dated bs f streamed a b H CH L2) as (ms & E1 & E2 & E3).
    rewrite E1. eexists. split; [reflexivity|].
    unfold text_spec. rewrite <- E2. clear E1 E2.
    induction ms as [|mb ms IH]; [constructor|].
    inversion E3 as [|? ? [OK NEL] E3']; subst. cbn [map mk_events]. constructor; [|apply IH; exact E3'].
    unfold ev_sim. cbn [Summary.e_src Summary.e_is_last Summary.e_msg fst snd].
    split; [reflexivity|]. split; [reflexivity|]. apply pmsg_sim; assumption.
  Qed.

  Lemma text_run_c_correct bs rp a b streamed (f : file) i : (0 < bs)%N -> file_ok dated f ->
    first_byte_ok dated f ->
    exists out, text_run_c dated dtspan bs rp a b streamed f = (out, GOk) /\
                Forall2 ev_sim (mk_events i out) (mk_events i (text_spec dated dtspan a b f)).
  Proof.
    intros H (CH & L2) FB. unfold text_run_c. destruct (cached_case a b streamed) eqn:CC.
    - destruct (cached_worker_stream dated bs rp f streamed a b H CH L2 FB CC) as (sls & E1 & E2 & E3).
      rewrite E1. eexists. split; [reflexivity|].
      unfold text_spec. rewrite <- E2. clear E1 E2.
      induction sls as [|s sls IH]; [constructor|].
      inversion E3 as [|? ? [OK NEL] E3']; subst. cbn [map mk_events]. constructor; [|apply IH; exact E3'].
      unfold ev_sim, cmsg_of. cbn [Summary.e_src Summary.e_is_last Summary.e_msg fst snd].
      split; [reflexivity|]. split; [reflexivity|]. apply pmsg_sim; assumption.
    - destruct (cached_win_stream dated bs rp f a b H CH L2 FB) as (ms & E1 & E2 & E3).
      rewrite E1. eexists. split; [reflexivity|].
      unfold text_spec. rewrite <- E2. clear E1 E2.
      induction ms as [|mb ms IH]; [constructor|].
      inversion E3 as [|? ? [OK NEL] E3']; subst. cbn [map mk_events]. constructor; [|apply IH; exact E3'].
      unfold ev_sim. cbn [Summary.e_src Summary.e_is_last Summary.e_msg fst snd].
      split; [reflexivity|]. split; [reflexivity|]. apply pmsg_sim; assumption.
  Qed.

  (* the two reader machines send the same messages (up to line parts: the blocks a line spans are the same,
     so in fact the same parts; only the simulation is needed) *)
  Lemma text_spec_sorted a b (f : file) i : file_ok dated f ->
    StronglySorted Z.le (map ev_t (mk_events i (text_spec dated dtspan a b f))).
  Proof.
    intros (CH & _). rewrite ev_t_mk_events. unfold text_spec, spec_file_msgs. rewrite map_map.
    cbn [fst Print.m_t spec_msg].
    apply (sorted_map_filter (fun gl : group * bool => fst (fst gl))).
    change (map (fun gl : group * bool => fst (fst gl)) (mark_last (syslines dated f)))
      with (map (fun gl : group * bool => @fst Z (list (list N)) (@fst group bool gl)) (mark_last (syslines dated f))).
    rewrite <- (map_map (@fst group bool) (@fst Z (list (list N)))), mark_last_fst. apply nondecreasing_sorted. exact CH.
  Qed.

  Lemma spec_msg_sim (f : file) g : In g (syslines dated f) -> msg_sim (spec_msg dtspan g) (spec_msg dtspan g).
  Proof.
    intro Hg.
    assert (W : PrintVariants.wf_full (spec_msg dtspan g)).
    { unfold PrintVariants.wf_full, Print.wf_msg, PrintVariants.wf_sys, spec_msg. cbn [Print.m_kind Print.m_lines Print.m_beg Print.m_end].
      split; [exact I|]. split; [|apply Hspan]. apply Forall_map.
      apply Forall_forall. intros l Hl. unfold PrintVariants.wf_line. constructor; [|constructor].
      eapply group_lines_nonempty; eauto. }
    unfold msg_sim. do 5 (split; [reflexivity|]). split; [exact W|]. split; [exact W|]. apply Hspan.
  Qed.

  Lemma text_spec_sim a b (f : file) :
    Forall (fun mb : Print.msg * bool => msg_sim (fst mb) (fst mb)) (text_spec dated dtspan a b f).
  Proof.
    unfold text_spec, spec_file_msgs. apply Forall_map. apply Forall_forall. intros [g fl] Hg.
    apply filter_In in Hg as [Hg _]. apply mark_last_in in Hg. cbn [fst]. eapply spec_msg_sim. exact Hg.
  Qed.
End TextKind.

Section Main.
  Variable O : oracles.

  (* ---- one worker of any kind *)
  Lemma worker_pure_correct bs o i pf : (0 < bs)%N -> span_ok (o_dtspan O) -> src_ok O o pf ->
    gate_passed O bs o [pf] ->
    exists out, worker_pure O bs o pf = (out, GOk) /\
                Forall2 ev_sim (mk_events i out) (spec_file_events O o i pf).
  Proof.
    intros H SP S G. inversion G as [|? ? G1 _]; subst. clear G.
    unfold worker_pure, spec_file_events, spec_out. unfold src_ok in S. cbv zeta.
    destruct (pf_kind pf) as [|off mt|hint lname|recs|j|dbr rows] eqn:K.
    - destruct S as [S _]. apply text_worker_correct; assumption.
    - destruct S as ((tab & TB & OKF) & (tes & TE & OKE) & ND & F17). rewrite TE, TB.
      rewrite <- (early_stop_spec_eq O o off mt (pf_data pf) tab tes TB OKF TE ND F17).
      apply text_worker_correct; [exact SP|exact H|exact OKE|]. exact (G1 _ TE).
    - assert (S' : src_ok O o pf) by (unfold src_ok; rewrite K; exact S).
      rewrite (records_worker_correct O o hint lname (pf_data pf) pf K eq_refl S').
      eexists. split; [reflexivity|]. apply mk_events_sim. eapply records_spec_sim; eassumption.
    - rewrite evtx_worker_correct. eexists. split; [reflexivity|]. apply mk_events_sim. apply evtx_spec_sim; assumption.
    - assert (S' : src_ok O o pf) by (unfold src_ok; rewrite K; exact S).
      rewrite (journal_worker_correct O o j pf K S').
      eexists. split; [reflexivity|]. apply mk_events_sim. eapply journal_spec_sim; eassumption.
    - destruct S as (r & SA & OKF & _). rewrite G1, SA. apply text_run_correct; assumption.
  Qed.

  (* the worker as the code runs it: text files over the cached reader machine *)
  Lemma worker_correct bs rp o i pf : (0 < bs)%N -> span_ok (o_dtspan O) -> src_ok O o pf ->
    gate_passed O bs o [pf] ->
    exists out, worker_out O bs rp o pf = (out, GOk) /\
                Forall2 ev_sim (mk_events i out) (spec_file_events O o i pf).
  Proof.
    intros H SP S G. unfold worker_out.
    destruct (pf_kind pf) as [|off mt|hint lname|recs|j|dbr rows] eqn:K;
      try (apply worker_pure_correct; assumption).
    - inversion G as [|? ? G1 _]; subst. rewrite K in G1.
      unfold spec_file_events, spec_out. unfold src_ok in S. rewrite K in *. cbv zeta.
      destruct S as [S FB]. apply text_worker_c_correct; assumption.
    - inversion G as [|? ? G1 _]; subst. rewrite K in G1.
      unfold spec_file_events, spec_out. unfold src_ok in S. rewrite K in *. cbv zeta.
      destruct S as (r & SA & OKF & FB). rewrite G1, SA. apply text_run_c_correct; assumption.
  Qed.

  Lemma spec_source_sorted o i pf : src_ok O o pf ->
    StronglySorted Z.le (map ev_t (spec_file_events O o i pf)).
  Proof.
    intro S. unfold spec_file_events, spec_out. cbv zeta.
    destruct (pf_kind pf) as [|off mt|hint lname|recs|j|dbr rows] eqn:K.
    - unfold src_ok in S. rewrite K in S. apply text_spec_sorted. exact (proj1 S).
    - unfold src_ok in S. rewrite K in S. destruct S as ((tab & TB & OK) & _). rewrite TB. apply text_spec_sorted. exact OK.
    - eapply records_spec_sorted; eassumption.
    - apply evtx_spec_sorted.
    - eapply journal_spec_sorted; eassumption.
    - unfold src_ok in S. rewrite K in S. destruct S as (r & SA & OKF & _). rewrite SA. apply text_spec_sorted. exact OKF.
  Qed.

  Lemma spec_source_sim o pf : span_ok (o_dtspan O) -> src_ok O o pf ->
    Forall (fun mb : Print.msg * bool => msg_sim (fst mb) (fst mb)) (spec_out O o pf).
  Proof.
    intros SP S. unfold spec_out. cbv zeta.
    destruct (pf_kind pf) as [|off mt|hint lname|recs|j|dbr rows] eqn:K.
    - apply text_spec_sim. exact SP.
    - destruct (yl_table O off mt (pf_data pf)); [apply text_spec_sim; exact SP|constructor].
    - eapply records_spec_sim; eassumption.
    - unfold src_ok in S. rewrite K in S. apply evtx_spec_sim; assumption.
    - eapply journal_spec_sim; eassumption.
    - destruct (GateSpec.spec_accept dbr rows (pf_data pf)); [apply text_spec_sim; exact SP|constructor].
  Qed.

  Lemma workers_of_correct bs o (W : nat -> pfile -> list (Print.msg * bool) * gstatus) files :
    (forall i pf, src_ok O o pf -> gate_passed O bs o [pf] ->
       exists out, W i pf = (out, GOk) /\ Forall2 ev_sim (mk_events i out) (spec_file_events O o i pf)) ->
    Forall (src_ok O o) files -> gate_passed O bs o files ->
    forall i, exists EC, workers_of W i files = inl EC /\
                         Forall2 (Forall2 ev_sim) EC (spec_sources_from O o i files).
  Proof.
    intros HW. induction files as [|pf files IH]; intros F G i.
    - exists []. split; [reflexivity|constructor].
    - inversion F as [|? ? F1 F2]; subst. inversion G as [|? ? G1 G2]; subst.
      destruct (HW i pf F1 (Forall_cons _ G1 (Forall_nil _))) as (out & W1 & SM).
      destruct (IH F2 G2 (S i)) as (EC & WS & SS).
      cbn [workers_of spec_sources_from]. rewrite W1, WS.
      exists (mk_events i out :: EC). split; [reflexivity|]. constructor; assumption.
  Qed.

  Lemma workers_pure_correct bs o files : (0 < bs)%N -> span_ok (o_dtspan O) ->
    Forall (src_ok O o) files -> gate_passed O bs o files ->
    forall i, exists EC, workers_pure O bs o i files = inl EC /\
                         Forall2 (Forall2 ev_sim) EC (spec_sources_from O o i files).
  Proof.
    intros H SP. apply workers_of_correct. intros i pf S G. apply worker_pure_correct; assumption.
  Qed.

  Lemma workers_correct bs rps o files : (0 < bs)%N -> span_ok (o_dtspan O) ->
    Forall (src_ok O o) files -> gate_passed O bs o files ->
    forall i, exists EC, workers O bs rps o i files = inl EC /\
                         Forall2 (Forall2 ev_sim) EC (spec_sources_from O o i files).
  Proof.
    intros H SP. apply workers_of_correct. intros i pf S G. apply worker_correct; assumption.
  Qed.

  Lemma sim_tags EC EVS : Forall2 (Forall2 ev_sim) EC EVS -> tags_of EC = tags_of EVS.
  Proof.
    intro S. unfold tags_of. f_equal.
    eapply Forall2_map_eq; [exact S|]. intros l1 l2 S'. apply sim_instants. exact S'.
  Qed.

  (* every spec source is chronological inside the window *)
  Lemma spec_sources_sorted o files : Forall (src_ok O o) files ->
    forall i, Forall (fun l => StronglySorted Z.le l) (map (map ev_t) (spec_sources_from O o i files)).
  Proof.
    induction files as [|pf files IH]; intros F i; [constructor|].
    inversion F as [|? ? F1 F2]; subst. cbn [spec_sources_from map]. constructor; [|apply IH; exact F2].
    apply spec_source_sorted. exact F1.
  Qed.

  (* coordinator + print site + summary on worker outputs that simulate the spec sources *)
  Lemma finish_correct cap sched o files EC :
    Forall (src_ok O o) files ->
    Forall2 (Forall2 ev_sim) EC (spec_sources O o files) ->
    complete O cap o files sched ->
    finish cap sched o files (inl EC) = POk (program_spec O o files).
  Proof.
    intros F S (s' & RUN & FIN).
    unfold finish. rewrite (sim_tags _ _ S), RUN, FIN.
    set (EVS := spec_sources O o files) in *.
    assert (R : Coord.reachable cap (tags_of EVS) s').
    { eapply CoordProofs.reachable_run; [constructor|exact RUN]. }
    destruct (CoordProofs.final_output_unique cap (tags_of EVS) s' R FIN) as [PR _].
    rewrite PR, MergeProofs.merge_is_stable_sort.
    2:{ unfold tags_of, Merge.tag_srcs. apply sorted_tags_from. apply spec_sources_sorted. exact F. }
    rewrite <- (sim_tags _ _ S), printed_events.
    assert (SS : Forall2 ev_sim (stable_sort_by ev_t (concat EC)) (stable_sort_by ev_t (concat EVS))).
    { apply (stable_sort_by_F2 ev_t ev_sim).
      - intros x y (_ & _ & M). unfold ev_t. apply M.
      - apply Forall2_concat. exact S. }
    unfold program_spec. fold EVS. unfold spec_events. fold EVS.
    rewrite (run_totals_sim _ _ _ _ SS), (run_stdout_sim _ _ _ _ SS). reflexivity.
  Qed.

  (* THE COMPOSITION THEOREM, text readers with their caches (for every reader parameter: number of
     in-block calls of block-zero analysis, drop plan) *)
  Theorem program_correct cap bs rps sched o files :
    (0 < bs)%N -> domain O o files -> gate_passed O bs o files ->
    complete O cap o files sched ->
    program_m O cap bs rps sched o files = POk (program_spec O o files).
  Proof.
    intros H (SP & F) G C.
    destruct (workers_correct bs rps o files H SP F G 0%nat) as (EC & W & S).
    unfold program_m. rewrite W. apply finish_correct; assumption.
  Qed.

  (* ... and with every text file over the pure block-wise reader *)
  Theorem program_pure_correct cap bs sched o files :
    (0 < bs)%N -> domain O o files -> gate_passed O bs o files ->
    complete O cap o files sched ->
    program_pure O cap bs sched o files = POk (program_spec O o files).
  Proof.
    intros H (SP & F) G C.
    destruct (workers_pure_correct bs o files H SP F G 0%nat) as (EC & W & S).
    unfold program_pure. rewrite W. apply finish_correct; assumption.
  Qed.

  (* the caches are not observable: the two models agree *)
  Corollary program_caches_unobservable cap bs rps sched o files :
    (0 < bs)%N -> domain O o files -> gate_passed O bs o files ->
    complete O cap o files sched ->
    program_m O cap bs rps sched o files = program_pure O cap bs sched o files.
  Proof. intros. rewrite program_correct, program_pure_correct by assumption. reflexivity. Qed.
End Main.


(* ######################################################################## part 9: the spec is printable; corollaries *)

Lemma Forall_insert_by {A} (key : A -> Z) (P : A -> Prop) x l : P x -> Forall P l -> Forall P (insert_by key x l).
Proof.
  intros Hx. induction 1 as [|y l Hy Hl IH]; [repeat constructor; exact Hx|].
  cbn [insert_by]. destruct (key x <=? key y)%Z; repeat constructor; auto.
Qed.

Lemma Forall_stable_sort_by {A} (key : A -> Z) (P : A -> Prop) l : Forall P l -> Forall P (stable_sort_by key l).
Proof. induction 1; [constructor|]. cbn [stable_sort_by fold_right]. apply Forall_insert_by; assumption. Qed.

Lemma Forall_diag {A} (R : A -> A -> Prop) l : Forall (fun x => R x x) l -> Forall2 R l l.
Proof. induction 1; constructor; auto. Qed.

Section Spec.
  Variable O : oracles.

  Lemma spec_sources_sim o files : span_ok (o_dtspan O) -> Forall (src_ok O o) files -> forall i,
    Forall (fun e => ev_sim e e) (concat (spec_sources_from O o i files)).
  Proof.
    intros SP. induction 1 as [|pf files S _ IH]; intro i; [constructor|].
    cbn [spec_sources_from concat]. apply Forall_app. split; [|apply IH].
    unfold spec_file_events, mk_events. apply Forall_map.
    eapply Forall_impl; [|exact (spec_source_sim O o pf SP S)].
    intros mb M. unfold ev_sim. cbn. auto.
  Qed.

  Lemma spec_events_sim o files : domain O o files ->
    Forall2 ev_sim (spec_events O o files) (spec_events O o files).
  Proof. intros (SP & F). apply Forall_diag. unfold spec_events. apply Forall_stable_sort_by. apply spec_sources_sim; assumption. Qed.

  (* the specification IS the print-site model (Model/Summary.v) run on the spec events: every
     theorem of C13 and C19 about Summary.run applies to program_spec *)
  Theorem spec_is_run o files : domain O o files ->
    let R := Summary.run (op_cli o) (sources_of files) (spec_events O o files) in
    program_spec O o files = (Summary.k_stdout R, Summary.k_total R).
  Proof.
    intro D. cbv zeta. unfold program_spec.
    pose proof (spec_events_sim o files D) as S.
    rewrite (run_totals_sim _ _ _ _ S), (run_stdout_sim _ _ _ _ S). reflexivity.
  Qed.

  (* ---------------------------------------------------------------- C19 at program level *)
  Theorem program_total_bytes o files : domain O o files -> Summary.c_summary (op_cli o) = true ->
    let r := program_spec O o files in
    Summary.u_bytes (snd r) = Print.blen (Print.payload (fst r)) /\
    (Summary.c_colour (op_cli o) = false -> forall g, Summary.u_bytes (snd r) = Print.blen (Print.concr g (fst r))).
  Proof.
    intros D Hs. cbv zeta. rewrite spec_is_run by exact D. cbn [fst snd]. split.
    - apply SummaryProofs.total_bytes_payload. exact Hs.
    - intros Hc g. apply SummaryProofs.total_bytes_stdout_nocolour; assumption.
  Qed.

  (* per-kind message counters; `lines` counts the lines of TEXT messages only *)
  Theorem program_counters o files : Summary.c_summary (op_cli o) = true ->
    let evs := spec_events O o files in
    let t := snd (program_spec O o files) in
    Summary.u_sys t = count_of Print.KSys evs /\ Summary.u_fixed t = count_of Print.KFixed evs /\
    Summary.u_evtx t = count_of Print.KEvtx evs /\ Summary.u_journal t = count_of Print.KJournal evs /\
    Summary.u_lines t = N.of_nat (length (concat (map (fun e => Print.m_lines (Summary.e_msg e))
                                   (filter (fun e => kind_eqb (Print.m_kind (Summary.e_msg e)) Print.KSys) evs)))) /\
    SummaryProofs.is_min (Summary.u_first t) (map ev_t evs) /\
    SummaryProofs.is_max (Summary.u_last t) (map ev_t evs).
  Proof.
    intro Hs. cbv zeta. unfold program_spec, spec_totals. cbn [snd]. rewrite Hs.
    cbn [Summary.u_sys Summary.u_lines Summary.u_fixed Summary.u_evtx Summary.u_journal Summary.u_first Summary.u_last].
    do 5 (split; [reflexivity|]). split.
    - destruct (SummaryProofs.first_last_printed (op_cli o) (sources_of files) (spec_events O o files) Hs) as [F _].
      pose proof (is_min_zmin _ _ F) as E. unfold SummaryProofs.instants in *.
      change (fun e => Print.m_t (Summary.e_msg e)) with ev_t in *. rewrite <- E. exact F.
    - destruct (SummaryProofs.first_last_printed (op_cli o) (sources_of files) (spec_events O o files) Hs) as [_ L].
      pose proof (is_max_zmax _ _ L) as E. unfold SummaryProofs.instants in *.
      change (fun e => Print.m_t (Summary.e_msg e)) with ev_t in *. rewrite <- E. exact L.
  Qed.

  (* the spec events and the domain depend on the options only through the window *)
  Lemma spec_events_window o1 o2 files : op_after o1 = op_after o2 -> op_before o1 = op_before o2 ->
    op_jout o1 = op_jout o2 -> op_jenv o1 = op_jenv o2 ->
    spec_events O o1 files = spec_events O o2 files.
  Proof.
    intros A B J E. unfold spec_events, spec_sources. f_equal. f_equal. generalize 0%nat.
    induction files as [|pf files IH]; intro i; [reflexivity|].
    cbn [spec_sources_from]. rewrite IH. unfold spec_file_events, spec_out, journal_spec. rewrite A, B, J, E. reflexivity.
  Qed.

  Lemma domain_undecorated o files : domain O o files -> domain O (undecorated_opts o) files.
  Proof. intro D. exact D. Qed.

  (* ---------------------------------------------------------------- C13 at program level *)
  Lemma undecorated_payload c srcs evs : Forall SummaryProofs.ev_ok evs ->
    Print.payload (Summary.k_stdout (Summary.run (undecorated c) srcs evs)) = Summary.plain_run evs.
  Proof.
    intro OK. unfold Summary.run. rewrite SummaryProofs.payload_run_from by exact OK.
    cbn [Summary.cstate0 Summary.k_stdout Print.payload flat_map app].
    unfold Summary.plain_run. apply flat_map_ext. intro e.
    unfold PrintStrip.dec_bytes, Print.prefix, Summary.popt_of, Summary.printer_opts, undecorated.
    cbn [Print.o_file Print.o_date Summary.c_prepend_file Summary.date_fmt Summary.c_fmt Summary.c_sep Print.nilb negb app].
    unfold Print.plain, Print.m_data. rewrite map_id. reflexivity.
  Qed.

  Theorem program_strip o files : domain O o files ->
    let c := op_cli o in
    let evs := spec_events O o files in
    Print.strip_msgs (Summary.shape_of c (Summary.popt_of c (sources_of files) evs) evs)
                     (Print.payload (fst (program_spec O o files)))
    = Some (Print.payload (fst (program_spec O (undecorated_opts o) files))).
  Proof.
    intro D. cbv zeta. rewrite (spec_is_run o files D), (spec_is_run _ files (domain_undecorated o files D)). cbn [fst].
    assert (OK : Forall SummaryProofs.ev_ok (spec_events O o files)).
    { eapply sim_ev_ok. apply spec_events_sim. exact D. }
    rewrite (spec_events_window (undecorated_opts o) o files eq_refl eq_refl eq_refl eq_refl).
    change (op_cli (undecorated_opts o)) with (undecorated (op_cli o)).
    rewrite undecorated_payload by exact OK.
    apply SummaryProofs.strip_run. exact OK.
  Qed.

  (* with colour on, deleting the SGR sequences first leaves that payload *)
  Theorem program_strip_sgr o files g : PrintStrip.sgr_ok g ->
    PrintStrip.no_esc (Print.payload (fst (program_spec O o files))) ->
    Print.strip_sgr (Print.concr g (fst (program_spec O o files))) =
    Print.payload (fst (program_spec O o files)).
  Proof. intros G NE. apply PrintStrip.strip_sgr_concr; assumption. Qed.
End Spec.

(* ================================================================ corollaries of program_correct *)
Section Corollaries.
  Variable O : oracles.

  (* C12 at program level: the WHOLE output (stdout and totals) is the same at every block size
     at which stage 1 accepts the text files, whatever the readers cached and dropped (record files, event logs and journals are not read
     through the block reader's line model: no block size applies to them here) *)
  Theorem program_bs_independent cap bs1 bs2 rps1 rps2 sched o files :
    (0 < bs1)%N -> (0 < bs2)%N -> domain O o files ->
    gate_passed O bs1 o files -> gate_passed O bs2 o files ->
    complete O cap o files sched ->
    program_m O cap bs1 rps1 sched o files = program_m O cap bs2 rps2 sched o files.
  Proof. intros. rewrite !program_correct by assumption. reflexivity. Qed.

  (* C06 at program level: every complete schedule gives the same stdout and totals *)
  Theorem program_schedule_independent cap bs rps sched1 sched2 o files :
    (0 < bs)%N -> domain O o files -> gate_passed O bs o files ->
    complete O cap o files sched1 -> complete O cap o files sched2 ->
    program_m O cap bs rps sched1 o files = program_m O cap bs rps sched2 o files.
  Proof. intros. rewrite !program_correct by assumption. reflexivity. Qed.

  (* complete schedules exist for every input, and every maximal execution is one *)
  Theorem complete_schedule_exists cap o files : (1 <= cap)%nat ->
    exists sched, complete O cap o files sched.
  Proof.
    intro H. destruct (CoordProofs.complete_run_exists cap (tags_of (spec_sources O o files)) H)
      as (es & s' & R & F & _).
    exists es, s'. auto.
  Qed.

  Theorem maximal_schedule_complete cap o files sched s' : (1 <= cap)%nat ->
    Coord.run cap (Coord.init (tags_of (spec_sources O o files))) sched = Some s' ->
    (forall e, Coord.step cap s' e = None) ->
    complete O cap o files sched.
  Proof.
    intros H R M. destruct (CoordProofs.schedule_independence cap _ sched s' H R M) as (F & _).
    exists s'. auto.
  Qed.

  (* hence: under EVERY maximal execution of the coordinator (any interleaving of the workers'
     sends and the coordinator's receives and prints, no fairness assumption) the whole program
     prints the specification *)
  Theorem program_correct_maximal cap bs rps sched s' o files :
    (1 <= cap)%nat -> (0 < bs)%N -> domain O o files -> gate_passed O bs o files ->
    Coord.run cap (Coord.init (tags_of (spec_sources O o files))) sched = Some s' ->
    (forall e, Coord.step cap s' e = None) ->
    program_m O cap bs rps sched o files = POk (program_spec O o files).
  Proof.
    intros Hc H D G R M. apply program_correct; try assumption.
    eapply maximal_schedule_complete; eassumption.
  Qed.

  (* the code-level output under ANY block size and ANY complete schedule satisfies the C19 and
     C13 identities *)
  Theorem program_m_totals cap bs rps sched o files out tot :
    (0 < bs)%N -> domain O o files -> gate_passed O bs o files ->
    complete O cap o files sched ->
    program_m O cap bs rps sched o files = POk (out, tot) ->
    Summary.c_summary (op_cli o) = true ->
    let evs := spec_events O o files in
    Summary.u_bytes tot = Print.blen (Print.payload out) /\
    (Summary.c_colour (op_cli o) = false -> forall g, Summary.u_bytes tot = Print.blen (Print.concr g out)) /\
    Summary.u_sys tot = count_of Print.KSys evs /\ Summary.u_fixed tot = count_of Print.KFixed evs /\
    Summary.u_evtx tot = count_of Print.KEvtx evs /\ Summary.u_journal tot = count_of Print.KJournal evs.
  Proof.
    intros H D G C E Hs. rewrite program_correct in E by assumption.
    assert (E' : program_spec O o files = (out, tot)) by congruence. clear E.
    destruct (program_total_bytes O o files D Hs) as [B1 B2]. rewrite E' in B1, B2. cbn [fst snd] in B1, B2.
    destruct (program_counters O o files Hs) as (C1 & C2 & C3 & C4 & _). rewrite E' in C1, C2, C3, C4. cbn [snd] in C1, C2, C3, C4.
    cbv zeta. repeat split; assumption.
  Qed.

  Theorem program_m_strip cap bs rps rps0 sched sched0 o files out tot out0 tot0 :
    (0 < bs)%N -> domain O o files -> gate_passed O bs o files ->
    complete O cap o files sched ->
    complete O cap (undecorated_opts o) files sched0 ->
    program_m O cap bs rps sched o files = POk (out, tot) ->
    program_m O cap bs rps0 sched0 (undecorated_opts o) files = POk (out0, tot0) ->
    let c := op_cli o in
    let evs := spec_events O o files in
    Print.strip_msgs (Summary.shape_of c (Summary.popt_of c (sources_of files) evs) evs) (Print.payload out)
    = Some (Print.payload out0).
  Proof.
    intros H D G C C0 E E0. rewrite program_correct in E by assumption.
    rewrite (program_correct O cap bs rps0 sched0 (undecorated_opts o) files H (domain_undecorated O o files D) G C0) in E0.
    assert (E' : program_spec O o files = (out, tot)) by congruence.
    assert (E0' : program_spec O (undecorated_opts o) files = (out0, tot0)) by congruence.
    clear E E0.
    pose proof (program_strip O o files D) as S. cbv zeta in *. rewrite E', E0' in S. exact S.
  Qed.
End Corollaries.

(* colour never: stdout is plain bytes — for every line its prefix, then the line; separator; newline *)
Lemma render_plain c popt evs : (forall i, Print.o_colour (popt i) = false) ->
  Forall SummaryProofs.ev_ok evs ->
  forall lasts, render c popt lasts evs = Print.obs (render_bytes c popt evs).
Proof.
  intros Hc. induction 1 as [|e evs (W & BE) _ IH]; intro lasts; [reflexivity|].
  cbn [render]. unfold render_bytes. cbn [flat_map]. fold (render_bytes c popt evs).
  unfold Print.decorate. rewrite Hc.
  rewrite (PrintSem.sem_no_C _ _ (PrintStrip.decorate_plain_no_C _ _)).
  pose proof (PrintStrip.wbytes_decorate (popt (Summary.e_src e)) (Summary.e_msg e) (proj1 W) BE) as H.
  unfold Print.decorate in H. rewrite Hc in H. rewrite H. unfold PrintStrip.dec_bytes.
  rewrite IH, !PrintSem.obs_app, <- !app_assoc. reflexivity.
Qed.

Theorem spec_stdout_plain O o files : domain O o files -> Summary.c_colour (op_cli o) = false ->
  let c := op_cli o in
  let evs := spec_events O o files in
  fst (program_spec O o files) =
  Print.obs (render_bytes c (Summary.popt_of c (sources_of files) evs) evs).
Proof.
  intros D Hc. cbv zeta. unfold program_spec. cbn [fst]. apply render_plain.
  - intro i. exact Hc.
  - eapply sim_ev_ok. apply spec_events_sim. exact D.
Qed.


