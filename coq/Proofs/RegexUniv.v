(* Proofs/RegexUniv.v — C04, regex stage: universal statements about the rows of the REGENERATED table.
   For every row whose plan checks ([row_covered], a decidable predicate on the regenerated AST evaluated
   by vm_compute below): for EVERY list of item texts fitting the plan and every continuation of the
   line, the regex search on the row's slice matches at offset 0, the named groups capture exactly the
   item texts the plan pins them to, and therefore bytes_to_regex_to_datetime ([dated_model]) is
   normalise+parse of those texts — which C04_normalise_denotes turns into the denoted instant. *)
From Coq Require Import Lia String.
From S4.Base Require Import Bytes.
From S4.Model Require Import Calendar Normalise Regex RegexPlan RegexDt.
From S4.Gen Require Import DatetimeTables RegexTables.
From S4.Spec Require Import CalendarSpec TzRef NormaliseSpec.
From S4.Proofs Require Import RegexProofs RegexSim NormaliseTablesOk NormaliseDenotes.
Close Scope string_scope.
Open Scope list_scope.
Open Scope N_scope.

(* ------------------------------------------------------------------ looking a group up in the final captures *)
Lemma cap_lookup_app g l1 l2 :
  cap_lookup g (l1 ++ l2) = match cap_lookup g l1 with Some x => Some x | None => cap_lookup g l2 end.
Proof.
  induction l1 as [|[g' sp] l1 IH]; simpl; auto. destruct (g' =? g); auto.
Qed.
Lemma cap_lookup_shift g d l :
  cap_lookup g (shift_caps d l) =
  match cap_lookup g l with Some (x, y) => Some (x + d, y + d) | None => None end.
Proof.
  induction l as [|[g' [x y]] l IH]; simpl; auto. destruct (g' =? g); auto.
Qed.

Lemma pick_in sg t rest a : pick sg t rest = Some a -> In a sg /\ in_shape (a_shape a) t = true.
Proof.
  intros H. apply find_fits in H as [H1 H2]. split; auto.
  unfold alt_fits in H2. apply andb_true_iff in H2. apply H2.
Qed.
Lemma in_shape_len sh : forall t, in_shape sh t = true -> length t = length sh.
Proof.
  induction sh; intros [|b t]; simpl; try discriminate; auto.
  intros H. apply andb_true_iff in H as [_ H]. f_equal. auto.
Qed.

Lemma absent_none g : forall p texts rest pos,
  forallb (absent g) p = true -> cap_lookup g (final_caps p texts rest pos) = None.
Proof.
  induction p as [|sg p IH]; intros texts rest pos H; simpl; auto.
  destruct texts as [|t ts]; auto.
  destruct (pick sg t (concat ts ++ rest)) as [a|] eqn:E; auto.
  simpl in H. apply andb_true_iff in H as [H1 H2].
  rewrite cap_lookup_app, (IH _ _ _ H2), cap_lookup_shift.
  apply pick_in in E as [Hin _]. unfold absent in H1. rewrite forallb_forall in H1.
  specialize (H1 _ Hin). destruct (cap_lookup g (a_caps a)); [discriminate|reflexivity].
Qed.

Definition clen (l : list bytes) : N := N.of_nat (length (concat l)).

Lemma plan_group g : forall p j texts rest pos,
  group_seg p g = Some j -> texts_ok p texts rest = true ->
  cap_lookup g (final_caps p texts rest pos) =
    Some (pos + clen (firstn j texts), pos + clen (firstn (S j) texts)) /\ (j < length texts)%nat.
Proof.
  induction p as [|sg p IH]; intros j texts rest pos Hg Ht; simpl in Hg; [discriminate|].
  destruct texts as [|t ts]; simpl in Ht; [discriminate|].
  destruct (pick sg t (concat ts ++ rest)) as [a|] eqn:E; [|discriminate].
  simpl. rewrite E, cap_lookup_app.
  destruct (group_seg p g) as [j'|] eqn:Eg.
  - inversion Hg; subst j. destruct (IH j' ts rest (pos + N.of_nat (length t)) eq_refl Ht) as [H1 H2].
    rewrite H1. split; [|simpl; lia]. unfold clen. simpl. rewrite !app_length. f_equal; f_equal; lia.
  - destruct (owns g sg && forallb (absent g) p) eqn:Eo; [|discriminate]. inversion Hg; subst j.
    apply andb_true_iff in Eo as [Ho Ha].
    rewrite (absent_none g p ts rest _ Ha), cap_lookup_shift.
    apply pick_in in E as [Hin Hs]. unfold owns in Ho. rewrite forallb_forall in Ho. specialize (Ho _ Hin).
    destruct (cap_lookup g (a_caps a)) as [[x y]|]; [|discriminate].
    apply andb_true_iff in Ho as [Hx Hy]. apply N.eqb_eq in Hx. apply N.eqb_eq in Hy. subst x y.
    rewrite <- (in_shape_len _ _ Hs). split; [|simpl; lia].
    unfold clen. simpl. rewrite app_nil_r. f_equal. f_equal; lia.
Qed.

(* ------------------------------------------------------------------ substrings of a concatenation *)
Lemma skipn_app_len {X} (a b : list X) : skipn (length a) (a ++ b) = b.
Proof. induction a; simpl; auto. Qed.
Lemma firstn_app_len {X} (a b : list X) : firstn (length a) (a ++ b) = a.
Proof. induction a; simpl; auto. f_equal; auto. Qed.

Lemma concat_firstn_S j : forall texts : list (list N), (j < length texts)%nat ->
  concat (firstn (S j) texts) = concat (firstn j texts) ++ nth j texts [].
Proof.
  induction j; intros [|t ts] H; simpl in *; try lia.
  - rewrite app_nil_r. reflexivity.
  - rewrite (IHj ts) by lia. rewrite app_assoc. reflexivity.
Qed.
Lemma concat_split j : forall texts : list (list N), (j < length texts)%nat ->
  concat texts = concat (firstn j texts) ++ nth j texts [] ++ concat (skipn (S j) texts).
Proof.
  induction j; intros [|t ts] H; simpl in *; try lia; auto.
  rewrite (IHj ts) at 1 by lia. rewrite app_assoc. reflexivity.
Qed.

Lemma sub_nth j texts rest pos0 :
  (j < length texts)%nat -> pos0 = 0 ->
  sub (concat texts ++ rest) (pos0 + clen (firstn j texts), pos0 + clen (firstn (S j) texts)) = nth j texts [].
Proof.
  intros H ->. unfold sub, clen. cbn [fst snd].
  rewrite (concat_firstn_S j texts H), app_length.
  rewrite (concat_split j texts H) at 1.
  replace (N.to_nat (0 + N.of_nat (length (concat (firstn j texts)) + length (nth j texts [])) -
                     (0 + N.of_nat (length (concat (firstn j texts))))))
    with (length (nth j texts [])) by lia.
  replace (N.to_nat (0 + N.of_nat (length (concat (firstn j texts))))) with (length (concat (firstn j texts))) by lia.
  rewrite <- !app_assoc. rewrite skipn_app_len. apply firstn_app_len.
Qed.

(* ------------------------------------------------------------------ spans_of reads the captures list *)
Lemma spans_upto_nth caps : forall n g0 k, (k < n)%nat ->
  nth k (spans_upto n g0 caps) None = cap_lookup (g0 + N.of_nat k) caps.
Proof.
  induction n; intros g0 k H; [lia|]. simpl. destruct k; simpl.
  - rewrite N.add_0_r. reflexivity.
  - rewrite IHn by lia. f_equal. lia.
Qed.
Lemma spans_of_nth ncap mt g : 1 <= g -> g <= ncap ->
  nth (N.to_nat g) (spans_of ncap mt) None = cap_lookup g (c_caps (snd mt)).
Proof.
  intros H1 H2. unfold spans_of.
  replace (N.to_nat g) with (S (N.to_nat (g - 1))) by lia. simpl.
  rewrite spans_upto_nth by lia. f_equal. lia.
Qed.
Lemma shift_span_0 l : map (shift_span 0) l = l.
Proof.
  induction l as [|[[a b]|] l IH]; simpl; auto; rewrite IH; auto. rewrite !N.add_0_r. reflexivity.
Qed.

(* ------------------------------------------------------------------ table obligations (vm_compute on the regenerated tables) *)
Definition names_in_range (row : rx_row) : bool :=
  forallb (fun fg => (1 <=? snd fg) && (snd fg <=? rx_ncap row)) (rx_names row) &&
  (1 <=? rx_first row) && (rx_first row <=? rx_ncap row) && (1 <=? rx_last row) && (rx_last row <=? rx_ncap row).
Definition names_in_range_b : bool := forallb names_in_range rx_table.
Lemma names_in_range_ok : names_in_range_b = true. Proof. vm_compute. reflexivity. Qed.

(* the translator's restriction re-checked on the table: no `*`/`+`/`{n,}` of a nullable body *)
Fixpoint nullable (r : re) : bool :=
  match r with
  | REps | RBol | REol => true
  | RDot | RChar _ _ | RClass _ _ => false
  | RBytes l => match l with [] => true | _ => false end
  | RSeq a b => nullable a && nullable b
  | RAlt a b => nullable a || nullable b
  | RRep mn _ _ a => match mn with O => true | _ => nullable a end
  | RGroup _ a => nullable a
  end.
Fixpoint no_nullable_star (r : re) : bool :=
  match r with
  | RSeq a b | RAlt a b => no_nullable_star a && no_nullable_star b
  | RRep _ mx _ a => no_nullable_star a && match mx with None => negb (nullable a) | Some _ => true end
  | RGroup _ a => no_nullable_star a
  | _ => true
  end.
Definition no_nullable_star_b : bool := forallb (fun r => no_nullable_star (rx_re r)) rx_table.
Lemma no_nullable_star_ok : no_nullable_star_b = true. Proof. vm_compute. reflexivity. Qed.

(* the two tables describe the same rows *)
Definition tables_aligned_b : bool :=
  list_eqb (map rx_index rx_table) (map r_index dt_table) &&
  list_eqb (map rx_start rx_table) (map r_start dt_table) &&
  list_eqb (map rx_end rx_table) (map r_end dt_table).
Lemma tables_aligned_ok : tables_aligned_b = true. Proof. vm_compute. reflexivity. Qed.

(* WHICH rows are covered: all but the five whose pattern contains `.+` before the timestamp
   (rows 65-69: `<level>[:]?.+[[:blank:]]<weekday> ...`; the greedy `.+` has no bounded rendering) *)
Definition uncovered_rows : list N := [65; 66; 67; 68; 69].
(* (stated without an intermediate definition: the kernel would otherwise evaluate the table lazily when
   it converts the definition with its unfolding) *)
Lemma coverage_ok :
  forallb (fun r => row_covered r || existsb (N.eqb (rx_index r)) uncovered_rows) rx_table = true. Proof. vm_cast_no_check (eq_refl true). Qed.

Lemma forallb_or_in {X} (f : X -> bool) (idx : X -> N) (ex : list N) (l : list X) :
  forallb (fun r => f r || existsb (N.eqb (idx r)) ex) l = true ->
  forall r, In r l -> ~ In (idx r) ex -> f r = true.
Proof.
  intros H r Hin Hn. rewrite forallb_forall in H.
  specialize (H _ Hin). apply orb_true_iff in H as [H|H]; [exact H|].
  exfalso. apply Hn. apply existsb_exists in H as (x & Hx & E). apply N.eqb_eq in E. rewrite E. exact Hx.
Qed.
Lemma covered_rows_all row : In row rx_table -> ~ In (rx_index row) uncovered_rows -> row_covered row = true.
Proof. exact (forallb_or_in row_covered rx_index uncovered_rows rx_table coverage_ok row). Qed.

(* ------------------------------------------------------------------ the universal theorems *)
Section Covered.
  Variable row : rx_row.
  Variable p : plan.
  Hypothesis Hcov : plan_covers row p = true.
  Hypothesis Hrange : names_in_range row = true.

  Variables (texts : list bytes) (rest tail : bytes) (line : bytes).
  (* the regex sees the slice  concat texts ++ rest  of the line *)
  Hypothesis Hslice : slice_of row line = Some (concat texts ++ rest).
  Hypothesis Hline : line = (concat texts ++ rest) ++ tail.
  Hypothesis Hfit : texts_ok p texts rest = true.

  Let fin : cst := mkC (clen texts) rest (final_caps p texts rest 0).

  Lemma cov_parts : chain_ok OAbs (rx_re row) p = true /\ fields_located row p = true /\ rx_start row = 0.
  Proof.
    unfold plan_covers, plan_covers_at in Hcov. repeat (apply andb_true_iff in Hcov as [Hcov ?]).
    repeat split; auto. apply N.eqb_eq; auto.
  Qed.

  Theorem covered_row_spans :
    row_spans row line = Match (Some (spans_of (rx_ncap row) (0, fin))).
  Proof.
    destruct cov_parts as (Hc & _ & H0).
    unfold row_spans. rewrite Hslice, (plan_search _ _ _ _ Hc Hfit), H0, shift_span_0. reflexivity.
  Qed.

  Lemma field_text_plan f : In f [0; 1; 2; 3; 4; 5; 6; 7; 8] ->
    field_text row line (spans_of (rx_ncap row) (0, fin)) f = oo (plan_field row p texts f).
  Proof.
    intros Hf. destruct cov_parts as (_ & Hl & _).
    unfold fields_located in Hl. rewrite forallb_forall in Hl. specialize (Hl _ Hf).
    unfold field_text, field_span, plan_field.
    destruct (assocN f (rx_names row)) as [g|] eqn:Eg; [|reflexivity].
    assert (Hg : 1 <= g /\ g <= rx_ncap row).
    { unfold names_in_range in Hrange. repeat (apply andb_true_iff in Hrange as [Hrange ?]).
      rewrite forallb_forall in Hrange.
      assert (Hin : In (f, g) (rx_names row)).
      { clear - Eg. induction (rx_names row) as [|[k v] l IH]; simpl in *; [discriminate|].
        destruct (k =? f) eqn:E; [apply N.eqb_eq in E; inversion Eg; subst; auto|auto]. }
      specialize (Hrange _ Hin). simpl in Hrange. apply andb_true_iff in Hrange as [A B].
      apply N.leb_le in A. apply N.leb_le in B. auto. }
    rewrite (spans_of_nth _ _ _ (proj1 Hg) (proj2 Hg)). simpl.
    destruct (group_seg p g) as [j|] eqn:Ej.
    - destruct (plan_group g p j texts rest 0 Ej Hfit) as [Hlk Hj]. rewrite Hlk. cbn [option_map oo].
      rewrite Hline, <- app_assoc. f_equal. apply sub_nth; auto.
    - rewrite Hl. unfold group_never in Hl. rewrite (absent_none g p texts rest 0 Hl). reflexivity.
  Qed.

  Theorem covered_row_caps : caps_of row line (spans_of (rx_ncap row) (0, fin)) = plan_caps row p texts.
  Proof.
    unfold caps_of, plan_caps.
    rewrite !field_text_plan by (simpl; tauto). reflexivity.
  Qed.

  (* bytes_to_regex_to_datetime on the line = normalise + parse of the item texts *)
  Theorem covered_row_dated mt tzt d yo off :
    option_map (fun x => fst (fst x)) (dated_model mt tzt row d line yo off) =
    model_instant mt tzt d (plan_caps row p texts) yo off.
  Proof.
    unfold dated_model. rewrite covered_row_spans, covered_row_caps.
    destruct (model_instant mt tzt d (plan_caps row p texts) yo off); reflexivity.
  Qed.
End Covered.

(* THE UNIVERSAL THEOREM for the covered rows of the regenerated tables: if the item texts denote an
   instant, the model of bytes_to_regex_to_datetime applied to the LINE returns exactly that instant *)
Theorem covered_dated_denotes row dr texts rest tail yo off t :
  In row rx_table -> In dr dt_table -> rx_index row = r_index dr ->
  ~ In (rx_index row) uncovered_rows ->
  f_epoch (r_dtfs dr) = E_none -> fallback_ok off = true ->
  let line := (concat texts ++ rest) ++ tail in
  slice_of row line = Some (concat texts ++ rest) ->
  texts_ok (row_plan row) texts rest = true ->
  denoted_instant (r_dtfs dr) (plan_caps row (row_plan row) texts) yo off = Some t ->
  option_map (fun x => fst (fst x)) (dated_model month_table tz_table row (r_dtfs dr) line yo off) = Some t.
Proof.
  intros Hin Hdr _ Hun He Hf line Hs Ht Hd.
  pose proof (covered_rows_all _ Hin Hun) as Hc. unfold row_covered in Hc.
  assert (Hr : names_in_range row = true).
  { pose proof names_in_range_ok as H. unfold names_in_range_b in H. rewrite forallb_forall in H. auto. }
  rewrite (covered_row_dated row (row_plan row) Hc Hr texts rest tail line Hs eq_refl Ht).
  apply normalise_denotes_rows; auto.
Qed.

Theorem covered_captures row texts rest tail :
  In row rx_table -> ~ In (rx_index row) uncovered_rows ->
  let line := (concat texts ++ rest) ++ tail in
  slice_of row line = Some (concat texts ++ rest) ->
  texts_ok (row_plan row) texts rest = true ->
  row_spans row line =
    Match (Some (spans_of (rx_ncap row)
                          (0, mkC (N.of_nat (length (concat texts))) rest (final_caps (row_plan row) texts rest 0)))) /\
  caps_of row line (spans_of (rx_ncap row)
                             (0, mkC (N.of_nat (length (concat texts))) rest (final_caps (row_plan row) texts rest 0)))
    = plan_caps row (row_plan row) texts.
Proof.
  intros Hin Hun line Hs Ht.
  pose proof (covered_rows_all _ Hin Hun) as Hc. unfold row_covered in Hc.
  assert (Hr : names_in_range row = true).
  { pose proof names_in_range_ok as H. unfold names_in_range_b in H. rewrite forallb_forall in H. auto. }
  split.
  - exact (covered_row_spans row (row_plan row) Hc texts rest line Hs Ht).
  - exact (covered_row_caps row (row_plan row) Hc Hr texts rest tail line eq_refl Ht).
Qed.

(* ------------------------------------------------------------------ the documented examples of every row
   (what the repository's own test test_DATETIME_PARSE_DATAS_test_cases asserts, here of the MODEL pipeline:
   slice -> regex -> named groups -> normalise -> parse): dt_beg/dt_end as documented and the instant of
   the documented fields (year-less notations with the dummy year 1972, O_L = the fallback zone, here UTC) *)
Definition nth_rx' (i : N) : option rx_row := find (fun r => rx_index r =? i) rx_table.
Definition nth_dt' (i : N) : option dt_row := find (fun r => r_index r =? i) dt_table.
Definition ex_expected (ex : rx_example) : Z :=
  let '(mo, d, h, mi, s, ns) := ex_rest ex in
  instant_of_fields (match ex_year ex with Some y => y | None => 1972%Z end) mo d h mi s ns
                    (match ex_off ex with Some o => o | None => 0%Z end).
Definition example_ok (ex : rx_example) : bool :=
  match nth_rx' (ex_row ex), nth_dt' (ex_row ex) with
  | Some row, Some dr =>
      let yo := if has_year (r_dtfs dr) then None else Some 1972%Z in
      match dated_model month_table tz_table row (r_dtfs dr) (unhexs (ex_text ex)) yo 0 with
      | Some (t, b, e) => (b =? ex_beg ex) && (e =? ex_end ex) && (t =? ex_expected ex)%Z
      | None => false
      end
  | _, _ => false
  end.
Lemma examples_ok : forallb example_ok rx_examples = true.
Proof. vm_compute. reflexivity. Qed.
Lemma examples_ok_all ex : In ex rx_examples -> example_ok ex = true.
Proof. intros H. pose proof examples_ok as E. rewrite forallb_forall in E. auto. Qed.
(* every row documents at least one example *)
Lemma examples_every_row : forallb (fun r => existsb (fun ex => ex_row ex =? rx_index r) rx_examples) rx_table = true.
Proof. vm_compute. reflexivity. Qed.

(* ------------------------------------------------------------------ the same with text IN FRONT of the timestamp
   (unanchored rows): a prefix every offset of which is dead ([pre_ok], decided by the symbolic engine on
   windows of one or two bytes) is skipped by the leftmost search, which then lands on the timestamp; the
   plan is the one generated for a match attempt at an offset >= 1 (o = ONz), or the usual one when the
   prefix is empty (o = OAbs) *)
Lemma sub_nth_pre (pre : bytes) j (texts : list (list N)) rest :
  (j < length texts)%nat ->
  sub (pre ++ concat texts ++ rest)
      (N.of_nat (length pre) + clen (firstn j texts), N.of_nat (length pre) + clen (firstn (S j) texts))
  = nth j texts [].
Proof.
  intros H. unfold sub, clen. cbn [fst snd].
  rewrite (concat_firstn_S j texts H), app_length.
  rewrite (concat_split j texts H) at 1.
  replace (N.to_nat (N.of_nat (length pre) + N.of_nat (length (concat (firstn j texts)) + length (nth j texts [])) -
                     (N.of_nat (length pre) + N.of_nat (length (concat (firstn j texts))))))
    with (length (nth j texts [])) by lia.
  replace (N.to_nat (N.of_nat (length pre) + N.of_nat (length (concat (firstn j texts)))))
    with (length pre + length (concat (firstn j texts)))%nat by lia.
  rewrite <- skipn_skipn_add, skipn_app_len.
  rewrite <- !app_assoc. rewrite skipn_app_len. apply firstn_app_len.
Qed.

Section CoveredAt.
  Variable row : rx_row.
  Variable p : plan.
  Variable o : org.
  Hypothesis Hcov : plan_covers_at o row p = true.
  Hypothesis Hrange : names_in_range row = true.

  Variables (pre : bytes) (texts : list bytes) (rest tail : bytes) (line : bytes).
  Hypothesis Horg : match o with OAbs => pre = [] | ONz => pre <> [] | OUnk => False end.
  Hypothesis Hpre : pre_ok (rx_re row) OAbs pre (hd_opt (concat texts ++ rest)) = true.
  Hypothesis Hslice : slice_of row line = Some (pre ++ concat texts ++ rest).
  Hypothesis Hline : line = (pre ++ concat texts ++ rest) ++ tail.
  Hypothesis Hfit : texts_ok p texts rest = true.

  Let k : N := N.of_nat (length pre).
  Let fin : cst := mkC (k + clen texts) rest (final_caps p texts rest k).

  Lemma cov_parts_at : chain_ok o (rx_re row) p = true /\ fields_located row p = true /\ rx_start row = 0.
  Proof.
    unfold plan_covers_at in Hcov. repeat (apply andb_true_iff in Hcov as [Hcov ?]).
    repeat split; auto. apply N.eqb_eq; auto.
  Qed.

  Theorem covered_at_spans :
    row_spans row line = Match (Some (spans_of (rx_ncap row) (k, fin))).
  Proof.
    destruct cov_parts_at as (Hc & _ & H0).
    unfold row_spans. rewrite Hslice. unfold search, fuel_for.
    assert (HF0 : (length (pre ++ concat texts ++ rest) < S (length (pre ++ concat texts ++ rest)))%nat) by lia.
    rewrite (pre_ok_search (rx_re row) pre OAbs 0 (concat texts ++ rest) (S (length (pre ++ concat texts ++ rest))) Hpre eq_refl HF0).
    assert (Hi : inv (pre ++ concat texts ++ rest) (mkC (0 + N.of_nat (length pre)) (concat texts ++ rest) [])).
    { apply inv_start.
      - rewrite app_length. lia.
      - replace (N.to_nat (0 + N.of_nat (length pre))) with (length pre) by lia.
        rewrite skipn_app_len. reflexivity. }
    assert (Ho : org_ok (0 + N.of_nat (length pre)) o).
    { unfold org_ok. destruct o; auto.
      - rewrite Horg. reflexivity.
      - destruct pre; [contradiction|]. simpl. lia. }
    assert (HF : (length (concat texts ++ rest) < S (length (pre ++ concat texts ++ rest)))%nat) by (rewrite (app_length pre); lia).
    rewrite (search_from_hit _ _ _ _ _ (plan_match_at o (rx_re row) p (pre ++ concat texts ++ rest) texts rest (0 + N.of_nat (length pre)) (S (length (pre ++ concat texts ++ rest))) Hc Hfit Hi Ho HF)).
    rewrite H0, shift_span_0. unfold fin, clen, k. rewrite !N.add_0_l. reflexivity.
  Qed.

  Lemma field_text_plan_at f : In f [0; 1; 2; 3; 4; 5; 6; 7; 8] ->
    field_text row line (spans_of (rx_ncap row) (k, fin)) f = oo (plan_field row p texts f).
  Proof.
    intros Hf. destruct cov_parts_at as (_ & Hl & _).
    unfold fields_located in Hl. rewrite forallb_forall in Hl. specialize (Hl _ Hf).
    unfold field_text, field_span, plan_field.
    destruct (assocN f (rx_names row)) as [g|] eqn:Eg; [|reflexivity].
    assert (Hg : 1 <= g /\ g <= rx_ncap row).
    { unfold names_in_range in Hrange. repeat (apply andb_true_iff in Hrange as [Hrange ?]).
      rewrite forallb_forall in Hrange.
      assert (Hin : In (f, g) (rx_names row)).
      { clear - Eg. induction (rx_names row) as [|[k0 v] l IH]; simpl in *; [discriminate|].
        destruct (k0 =? f) eqn:E; [apply N.eqb_eq in E; inversion Eg; subst; auto|auto]. }
      specialize (Hrange _ Hin). simpl in Hrange. apply andb_true_iff in Hrange as [A B].
      apply N.leb_le in A. apply N.leb_le in B. auto. }
    rewrite (spans_of_nth _ _ _ (proj1 Hg) (proj2 Hg)). simpl.
    destruct (group_seg p g) as [j|] eqn:Ej.
    - destruct (plan_group g p j texts rest k Ej Hfit) as [Hlk Hj]. rewrite Hlk. cbn [option_map oo].
      rewrite Hline, <- app_assoc. f_equal. unfold k.
      rewrite <- (app_assoc (concat texts) rest tail). apply sub_nth_pre; auto.
    - rewrite Hl. unfold group_never in Hl. rewrite (absent_none g p texts rest k Hl). reflexivity.
  Qed.

  Theorem covered_at_caps : caps_of row line (spans_of (rx_ncap row) (k, fin)) = plan_caps row p texts.
  Proof.
    unfold caps_of, plan_caps.
    rewrite !field_text_plan_at by (simpl; tauto). reflexivity.
  Qed.

  Theorem covered_at_dated mt tzt d yo off :
    option_map (fun x => fst (fst x)) (dated_model mt tzt row d line yo off) =
    model_instant mt tzt d (plan_caps row p texts) yo off.
  Proof.
    unfold dated_model. rewrite covered_at_spans, covered_at_caps.
    destruct (model_instant mt tzt d (plan_caps row p texts) yo off); reflexivity.
  Qed.
End CoveredAt.
