(* Proofs/RetainSearchProofs.v — property C17, the windowed clause (Model/RetainSearch.v).
   1. every find of the search phase stores at most 1 message, 2 ml lines and 2 ml (span + 1)
      blocks, and the search makes at most 2 bfuel finds (bfuel = 2 + bit length of the file size);
   2. in the stream phase the windowed reader, under the repaired policy, stores nothing that the
      plain streaming model of Model/Retain.v (started at the first message of the window) does not
      store, except what the search left behind (simulation, lock-step);
   3. hence marks <= bound of Proofs/RetainProofs.v + c (log2 |f| + c'). *)
From Coq Require Import List NArith ZArith Bool Sorted Lia.
Import ListNotations.
From S4.Model Require Import Retain Search RetainSearch.
From S4.Proofs Require Import RetainProofs RetainLayout.
Open Scope N_scope.

(* ------------------------------------------------------------------ lists *)
Lemma NoDup_map_inv' {A B} (f : A -> B) l : NoDup (map f l) -> NoDup l.
Proof.
  induction l as [|x l IH]; cbn [map]; intros H; constructor; inversion H; subst; auto.
  intro Hin. apply H2. apply in_map. exact Hin.
Qed.

Lemma NoDup_map_filter {A B} (f : A -> B) (g : A -> bool) l : NoDup (map f l) -> NoDup (map f (filter g l)).
Proof.
  induction l as [|x l IH]; cbn [map filter]; intros H; [constructor|].
  inversion H; subst. destruct (g x); auto. cbn [map]. constructor; auto.
  intro Hin. apply H2. apply in_map_iff in Hin as (y & E & Hy). apply filter_In in Hy as [Hy _].
  rewrite <- E. apply in_map. exact Hy.
Qed.

Lemma NoDup_snoc {A} (l : list A) x : NoDup l -> ~ In x l -> NoDup (l ++ [x]).
Proof.
  induction l as [|y l IH]; intros H Hn; cbn [app].
  - constructor; [intros []|constructor].
  - inversion H; subst. constructor.
    + intro Hin. apply in_app_or in Hin as [Hin|[<-|[]]]; auto. apply Hn. left. reflexivity.
    + apply IH; auto. intro Hx. apply Hn. right. exact Hx.
Qed.

Lemma memN_false x l : memN x l = false <-> ~ In x l.
Proof.
  rewrite <- memN_In. destruct (memN x l); split; intros; try discriminate; auto. exfalso. auto.
Qed.

Lemma incl_app_l {A} (a b c : list A) : incl a b -> incl a (b ++ c).
Proof. intros H x Hx. apply in_or_app. left. auto. Qed.

Lemma lenN_incl_app {A} (l a b : list A) : NoDup l -> incl l (a ++ b) -> lenN l <= lenN a + lenN b.
Proof. intros H1 H2. rewrite <- lenN_app. apply NoDup_incl_lenN; auto. Qed.

(* ------------------------------------------------------------------ sane stores *)
Record sane (s : st) : Prop := {
  sn_b : NoDup (blocks s);
  sn_l : NoDup (map lkey (lines s));
  sn_s : NoDup (map mkey (syslines s));
  sn_hb : lenN (blocks s) <= hb s;
  sn_hl : lenN (lines s) <= hl s;
  sn_hs : lenN (syslines s) <= hs s
}.

(* the fields no read touches *)
Definition same_rest (s s' : st) : Prop :=
  same_index s s' /\ nread s' = nread s.

Lemma same_rest_refl s : same_rest s s.
Proof. split; [apply same_index_refl|reflexivity]. Qed.

Lemma same_rest_trans a b c : same_rest a b -> same_rest b c -> same_rest a c.
Proof. intros [A1 A2] [B1 B2]. split; [eapply same_index_trans; eauto|congruence]. Qed.

(* ------------------------------------------------------------------ reading blocks once *)
Lemma w_read_block_spec s b :
  let s' := w_read_block s b in
  same_but_blocks s s' /\ nread s' = nread s /\ incl (blocks s) (blocks s') /\
  (forall x, In x (blocks s') -> In x (blocks s) \/ x = b) /\
  (NoDup (blocks s) -> NoDup (blocks s')) /\
  hb s <= hb s' /\ hb s' <= N.max (hb s) (lenN (blocks s')) /\
  lenN (blocks s') <= lenN (blocks s) + 1 /\ lenN (blocks s) <= lenN (blocks s') /\
  (lenN (blocks s) <= hb s -> lenN (blocks s') <= hb s').
Proof.
  cbv zeta. unfold w_read_block. destruct (memN b (blocks s)) eqn:E.
  - splits; auto using same_but_blocks_refl, incl_refl; lia.
  - apply memN_false in E. unfold set_blocks, same_but_blocks. cbn.
    rewrite lenN_app. change (lenN [b]) with 1.
    splits; auto; try lia.
    + apply incl_appl, incl_refl.
    + intros x Hx. apply in_app_or in Hx as [Hx|[<-|[]]]; auto.
    + intros Hn. apply NoDup_snoc; auto.
Qed.

Lemma w_read_range_spec cnt : forall b s,
  let s' := w_read_range cnt b s in
  same_but_blocks s s' /\ nread s' = nread s /\ incl (blocks s) (blocks s') /\
  (forall x, In x (blocks s') -> In x (blocks s) \/ (b <= x /\ x < b + N.of_nat cnt)) /\
  (NoDup (blocks s) -> NoDup (blocks s')) /\
  hb s <= hb s' /\ hb s' <= N.max (hb s) (lenN (blocks s')) /\
  lenN (blocks s') <= lenN (blocks s) + N.of_nat cnt /\ lenN (blocks s) <= lenN (blocks s') /\
  (lenN (blocks s) <= hb s -> lenN (blocks s') <= hb s').
Proof.
  induction cnt as [|cnt IH]; intros b s; cbv zeta; cbn [w_read_range].
  - splits; auto using same_but_blocks_refl, incl_refl; try lia.
  - pose proof (w_read_block_spec s b) as (F & N1 & I1 & M1 & D1 & H1 & H2 & L1 & L2 & S1). cbv zeta in *.
    specialize (IH (b + 1) (w_read_block s b)). cbv zeta in IH.
    destruct IH as (F' & N1' & I1' & M1' & D1' & H1' & H2' & L1' & L2' & S1').
    splits.
    + eapply same_but_blocks_trans; eauto.
    + congruence.
    + eapply incl_tran; eauto.
    + intros x Hx. apply M1' in Hx as [Hx|Hx]; [apply M1 in Hx as [Hx|Hx]|]; auto; right; lia.
    + auto.
    + lia.
    + lia.
    + lia.
    + lia.
    + auto.
Qed.

(* ------------------------------------------------------------------ storing a line once *)
Definition ins_line (lo : N) (s : st) (l : lspan) : st :=
  if has_line s l then s else add_line (w_read_range (N.to_nat (llb l + 1 - lo)) lo s) l.

Lemma has_line_false s l : has_line s l = false -> ~ In (lkey l) (map lkey (lines s)).
Proof. unfold has_line. apply memN_false. Qed.

Lemma has_line_true s l : has_line s l = true -> In (lkey l) (map lkey (lines s)).
Proof. unfold has_line. apply memN_In. Qed.

Lemma ins_line_spec lo s l : sane s ->
  let s' := ins_line lo s l in
  sane s' /\ same_rest s s' /\
  incl (lines s) (lines s') /\ incl (lines s') (lines s ++ [l]) /\
  incl (blocks s) (blocks s') /\
  (forall x, In x (blocks s') -> In x (blocks s) \/ (lo <= x /\ x <= llb l)) /\
  hl s <= hl s' /\ hl s' <= hl s + 1 /\ hb s <= hb s' /\ hb s' <= hb s + (llb l + 1 - lo) /\
  hl s' <= N.max (hl s) (lenN (lines s')) /\ hb s' <= N.max (hb s) (lenN (blocks s')).
Proof.
  intros [Sb Sl Ss Shb Shl Shs]. cbv zeta. unfold ins_line. destruct (has_line s l) eqn:E.
  - splits; auto using same_rest_refl, incl_refl; try lia.
    + constructor; auto.
    + apply incl_appl, incl_refl.
  - apply has_line_false in E.
    pose proof (w_read_range_spec (N.to_nat (llb l + 1 - lo)) lo s) as (F & N1 & I1 & M1 & D1 & H1 & H2 & L1 & L2 & S1).
    cbv zeta in *. set (s1 := w_read_range (N.to_nat (llb l + 1 - lo)) lo s) in *.
    destruct F as (Fl & F1 & F2 & F3 & F4 & F5 & F6 & F7 & F8 & F9 & F10 & F11).
    unfold add_line. cbn [blocks lines syslines hb hl hs]. rewrite Fl, lenN_app. change (lenN [l]) with 1.
    splits; cbn [blocks lines syslines pending held hb hl hs nread todo stage2 wprev dok derr front]; try lia.
    + constructor; cbn [blocks lines syslines hb hl hs]; auto.
      * rewrite map_app. cbn [map]. apply NoDup_snoc; auto.
      * rewrite F1. exact Ss.
      * rewrite lenN_app. change (lenN [l]) with 1. lia.
      * rewrite F1, F5. exact Shs.
    + unfold same_rest, same_index. cbn. splits; auto.
    + apply incl_appl, incl_refl.
    + apply incl_refl.
    + exact I1.
    + intros x Hx. apply M1 in Hx as [Hx|Hx]; auto. right. lia.
Qed.

(* ------------------------------------------------------------------ growth of the marks *)
(* the stores after the step contain the stores before; the marks grow by at most (a, b) *)
Record step_ok (a b : N) (s s' : st) : Prop := {
  so_sane : sane s';
  so_rest : same_rest s s';
  so_lines : incl (lines s) (lines s');
  so_blocks : incl (blocks s) (blocks s');
  so_hl : hl s <= hl s' /\ hl s' <= hl s + a;
  so_hb : hb s <= hb s' /\ hb s' <= hb s + b
}.

Lemma step_ok_refl s : sane s -> step_ok 0 0 s s.
Proof. intros H. constructor; auto using same_rest_refl, incl_refl; lia. Qed.

Lemma step_ok_trans a1 b1 a2 b2 s1 s2 s3 :
  step_ok a1 b1 s1 s2 -> step_ok a2 b2 s2 s3 -> step_ok (a1 + a2) (b1 + b2) s1 s3.
Proof.
  intros [A1 A2 A3 A4 A5 A6] [B1 B2 B3 B4 B5 B6]. constructor; auto.
  - eapply same_rest_trans; eauto.
  - eapply incl_tran; eauto.
  - eapply incl_tran; eauto.
  - lia.
  - lia.
Qed.

Lemma step_ok_weaken a b a' b' s s' : a <= a' -> b <= b' -> step_ok a b s s' -> step_ok a' b' s s'.
Proof. intros Ha Hb [A1 A2 A3 A4 A5 A6]. constructor; auto; lia. Qed.

Section Search.
Variables (bs span ml : N) (ms : list msg).
Hypothesis Hwf : wf bs span ml ms.

Definition line_in (l : lspan) : Prop := In l (file_lines ms).

Lemma line_lo_ge s fo l : lfb l - 1 <= line_lo bs s fo l /\ line_lo bs s fo l <= lfb l.
Proof.
  unfold line_lo.
  destruct ((fo =? 0) || ((fo =? lbeg l) && (0 <? lkey l) && memN (lkey l - 1) (map lkey (lines s)))); [lia|].
  destruct (lbeg l mod bs =? 0); lia.
Qed.

Lemma w_find_line_ok S fo l : sane (wb S) -> line_in l ->
  step_ok 1 (span + 1) (wb S) (wb (w_find_line bs S fo l)).
Proof.
  intros Hs Hl. unfold w_find_line. cbn [wb].
  change (if has_line (wb S) l then wb S else
          add_line (w_read_range (N.to_nat (llb l + 1 - line_lo bs (wb S) fo l)) (line_lo bs (wb S) fo l) (wb S)) l)
    with (ins_line (line_lo bs (wb S) fo l) (wb S) l).
  pose proof (ins_line_spec (line_lo bs (wb S) fo l) (wb S) l Hs)
    as (A & B & C & D & E & F & G1 & G2 & G3 & G4 & _). cbv zeta in *.
  pose proof (file_line_span _ _ _ _ Hwf l Hl) as (L1 & L2).
  pose proof (line_lo_ge (wb S) fo l) as (Lo1 & Lo2).
  constructor; auto; lia.
Qed.

Lemma w_find_lines_ok (key : lspan -> N) ls : forall S, sane (wb S) -> Forall line_in ls ->
  step_ok (lenN ls) (lenN ls * (span + 1)) (wb S)
          (wb (fold_left (fun T x => w_find_line bs T (key x) x) ls S)).
Proof.
  induction ls as [|x ls IH]; intros S Hs Hl; cbn [fold_left].
  - rewrite lenN_nil. apply step_ok_refl. exact Hs.
  - apply Forall_cons_iff in Hl as [Hx Hl].
    pose proof (w_find_line_ok S (key x) x Hs Hx) as H1.
    specialize (IH (w_find_line bs S (key x) x) (so_sane _ _ _ _ H1) Hl).
    pose proof (step_ok_trans _ _ _ _ _ _ _ H1 IH) as H2.
    rewrite lenN_cons. eapply step_ok_weaken; [| |exact H2]; lia.
Qed.

(* split_lines only returns lines of the message *)
Lemma split_lines_in fo : forall r rpre x,
  let '(rp, l, _) := split_lines fo rpre x r in
  (forall y, In y rp -> In y rpre \/ In y (x :: r)) /\ In l (x :: r) /\
  lenN rp + 1 <= lenN rpre + lenN (x :: r).
Proof.
  induction r as [|y r IH]; intros rpre x; cbn [split_lines].
  - splits; auto. left; reflexivity. rewrite lenN_cons, lenN_nil. lia.
  - destruct (fo <=? lend x).
    + splits; auto. left; reflexivity. rewrite !lenN_cons. lia.
    + specialize (IH (x :: rpre) y). destruct (split_lines fo (x :: rpre) y r) as [[rp l] post].
      destruct IH as (A & B & C). splits.
      * intros z Hz. apply A in Hz as [[<-|Hz]|Hz]; auto. right. left. reflexivity. right. right. exact Hz.
      * right. exact B.
      * rewrite !lenN_cons in *. lia.
Qed.

Lemma msg_lines_in m l : In m ms -> In l (mlines m) -> line_in l.
Proof. intros Hm Hl. unfold line_in, file_lines. apply in_flat_map. eauto. Qed.

Lemma msg_next_in m x : In m ms -> mnext m = Some x -> line_in x.
Proof.
  intros Hm Hx. apply in_split in Hm as (a & r & E).
  pose proof (wf_next _ _ _ _ Hwf a m r E) as Hn. rewrite Hx in Hn.
  destruct r as [|q r']; [discriminate|]. injection Hn as ->.
  unfold line_in. rewrite E, file_lines_app. apply in_or_app. right.
  unfold file_lines. cbn [flat_map]. apply in_or_app. right. apply in_or_app. left. left. reflexivity.
Qed.

Lemma msg_len m : In m ms -> lenN (mlines m) <= ml.
Proof. intros Hm. destruct (wf_msg_ok _ _ _ _ Hwf m Hm) as (A & _). exact A. Qed.

Lemma ml_pos l : line_in l -> 1 <= ml.
Proof.
  intros Hl. unfold line_in, file_lines in Hl. apply in_flat_map in Hl as (m & Hm & _).
  pose proof (msg_len m Hm) as H. unfold mlines in H. rewrite lenN_cons in H. lia.
Qed.

(* ---- after K finds: at most K messages, 2 ml K lines, 2 ml (span + 1) K + 1 blocks *)
Record grown (K : N) (s : st) : Prop := {
  g_sane : sane s;
  g_hs : hs s <= K;
  g_hl : hl s <= K * (2 * ml);
  g_hb : hb s <= K * (2 * ml * (span + 1)) + 1;
  g_idle : pending s = [] /\ held s = [];
  g_sys : forall m, In m (syslines s) -> In m ms
}.

Lemma has_msg_false s m : has_msg s m = false -> ~ In (mkey m) (map mkey (syslines s)).
Proof. unfold has_msg. apply memN_false. Qed.

Lemma store_only_sane s m : sane s -> has_msg s m = false -> sane (store_only s m).
Proof.
  intros [Sb Sl Ss Shb Shl Shs] E. apply has_msg_false in E.
  constructor; cbn [store_only blocks lines syslines hb hl hs]; auto.
  - rewrite map_app. cbn [map]. apply NoDup_snoc; auto.
  - lia.
Qed.

Lemma grown_step K a b s s' : grown K s -> step_ok a b s s' ->
  a <= 2 * ml -> b <= 2 * ml * (span + 1) -> grown (K + 1) s'.
Proof.
  intros [G1 G2 G3 G4 (G5 & G6) G7] [T1 [Ti Tn] T3 T4 T5 T6] Ha Hb.
  destruct Ti as (I1 & I2 & I3 & I4 & I5 & I6 & I7 & I8 & I9).
  constructor; auto; try nia.
  - split; congruence.
  - rewrite I1. exact G7.
Qed.

Lemma grown_find_line K S fo l : grown K (wb S) -> line_in l -> grown (K + 1) (wb (w_find_line bs S fo l)).
Proof.
  intros G Hl. pose proof (ml_pos l Hl) as Hm.
  eapply grown_step; [exact G|apply w_find_line_ok; [apply G|exact Hl]| |]; nia.
Qed.

Lemma grown_find_sysline K S fo om : grown K (wb S) -> (forall m, om = Some m -> In m ms) ->
  grown (K + 1) (wb (w_find_sysline bs S fo om)).
Proof.
  intros G Hom. unfold w_find_sysline. destruct om as [m|].
  2:{ cbn [with_slru wb]. destruct G. constructor; auto; lia. }
  specialize (Hom m eq_refl).
  destruct (has_msg (wb S) m) eqn:Em.
  { cbn [with_slru wb]. destruct G. constructor; auto; lia. }
  pose proof (split_lines_in fo (mbody m) [] (mfirst m)) as Hsp.
  destruct (split_lines fo [] (mfirst m) (mbody m)) as [[rp l] post].
  destruct Hsp as (A & B & C). rewrite lenN_nil in C.
  pose proof (msg_len m Hom) as Hml. unfold mlines in Hml.
  assert (Hl : line_in l) by (eapply msg_lines_in; eauto).
  assert (Hrp : Forall line_in rp).
  { apply Forall_forall. intros y Hy. apply A in Hy as [[]|Hy]. eapply msg_lines_in; eauto. }
  assert (Hfw : Forall line_in (mbody m ++ opt_list (mnext m))).
  { apply Forall_forall. intros y Hy. apply in_app_or in Hy as [Hy|Hy].
    - eapply msg_lines_in; eauto. right. exact Hy.
    - destruct (mnext m) as [x|] eqn:En; [|destruct Hy]. destruct Hy as [<-|[]]. eapply msg_next_in; eauto. }
  pose proof (w_find_line_ok S fo l (g_sane _ _ G) Hl) as H1.
  set (S1 := w_find_line bs S fo l) in *.
  pose proof (w_find_lines_ok lend rp S1 (so_sane _ _ _ _ H1) Hrp) as H2.
  set (S2 := fold_left (fun T p => w_find_line bs T (lend p) p) rp S1) in *.
  pose proof (w_find_lines_ok lbeg _ S2 (so_sane _ _ _ _ H2) Hfw) as H3.
  set (S3 := fold_left (fun T x => w_find_line bs T (lbeg x) x) (mbody m ++ opt_list (mnext m)) S2) in *.
  pose proof (step_ok_trans _ _ _ _ _ _ _ (step_ok_trans _ _ _ _ _ _ _ H1 H2) H3) as H4.
  assert (Hcnt : lenN (mbody m ++ opt_list (mnext m)) <= ml).
  { rewrite lenN_app. rewrite lenN_cons in Hml. assert (lenN (opt_list (mnext m)) <= 1) by (destruct (mnext m); cbn; lia). lia. }
  assert (G3 : grown (K + 1) (wb S3)).
  { eapply grown_step; [exact G|exact H4| |]; nia. }
  destruct H4 as [T1 [Ti Tn] T3 T4 T5 T6].
  destruct Ti as (I1 & I2 & I3 & I4 & I5 & I6 & I7 & I8 & I9).
  assert (Em3 : has_msg (wb S3) m = false) by (unfold has_msg; rewrite I1; exact Em).
  destruct G as [G1 G2 G3' G4 (G5 & G6) G7]. destruct G3 as [Q1 Q2 Q3 Q4 (Q5 & Q6) Q7].
  cbn [with_slru with_wb wb]. constructor; cbn [store_only blocks lines syslines pending held hb hl hs]; auto.
  - apply store_only_sane; auto.
  - rewrite I1, I4, lenN_app. change (lenN [m]) with 1. destruct G1. lia.
  - intros x Hx. apply in_app_or in Hx as [Hx|[<-|[]]]; auto.
Qed.

End Search.

(* ------------------------------------------------------------------ the whole search phase *)
Section SearchRun.
Variables (bs span ml : N) (ms : list msg).
Hypothesis Hwf : wf bs span ml ms.

Lemma grown_mono K K' s : K <= K' -> grown span ml ms K s -> grown span ml ms K' s.
Proof.
  intros H [G1 G2 G3 G4 G5 G6]. constructor; auto.
  - lia.
  - etransitivity; [exact G3|]. apply N.mul_le_mono_r. exact H.
  - etransitivity; [exact G4|]. apply N.add_le_mono_r, N.mul_le_mono_r. exact H.
Qed.

Lemma grown_fold_lines (key : lspan -> N) ls : forall K S, Forall (line_in ms) ls -> grown span ml ms K (wb S) ->
  grown span ml ms (K + lenN ls) (wb (fold_left (fun T l => w_find_line bs T (key l) l) ls S)).
Proof.
  induction ls as [|l ls IH]; intros K S Hl G; cbn [fold_left].
  - rewrite lenN_nil, N.add_0_r. exact G.
  - apply Forall_cons_iff in Hl as [Hx Hl]. rewrite lenN_cons.
    replace (K + (lenN ls + 1)) with (K + 1 + lenN ls) by lia.
    apply IH; auto. eapply grown_find_line; eauto.
Qed.

Lemma grown_fold_msgs (key : msg -> N) l : forall K S, incl l ms -> grown span ml ms K (wb S) ->
  grown span ml ms (K + lenN l) (wb (fold_left (fun T m => w_find_sysline bs T (key m) (Some m)) l S)).
Proof.
  induction l as [|m l IH]; intros K S Hl G; cbn [fold_left].
  - rewrite lenN_nil, N.add_0_r. exact G.
  - rewrite lenN_cons. replace (K + (lenN l + 1)) with (K + 1 + lenN l) by lia.
    apply IH; [intros x Hx; apply Hl; right; exact Hx|].
    eapply grown_find_sysline; eauto. intros m0 [= <-]. apply Hl. left. reflexivity.
Qed.

Lemma bz_lines_sub cnt : forall ls, incl (bz_lines bs cnt ls) ls /\ lenN (bz_lines bs cnt ls) <= N.of_nat cnt.
Proof.
  induction cnt as [|cnt IH]; intros ls; cbn [bz_lines].
  - split; [intros x []|rewrite lenN_nil; lia].
  - destruct ls as [|l r]; [split; [intros x []|rewrite lenN_nil; lia]|].
    destruct (llb l =? 0); [|split; [intros x []|rewrite lenN_nil; lia]].
    destruct ((lend l + 1) / bs =? 0).
    + destruct (IH r) as (A & B). split.
      * intros x [<-|Hx]; [left; reflexivity|right; apply A; exact Hx].
      * rewrite lenN_cons. lia.
    + split; [intros x [<-|[]]; left; reflexivity|]. rewrite lenN_cons, lenN_nil. lia.
Qed.

Lemma bz_msgs_sub cnt : forall l, incl (bz_msgs bs cnt l) l /\ lenN (bz_msgs bs cnt l) <= N.of_nat cnt.
Proof.
  induction cnt as [|cnt IH]; intros l; cbn [bz_msgs].
  - split; [intros x []|rewrite lenN_nil; lia].
  - destruct l as [|m r]; [split; [intros x []|rewrite lenN_nil; lia]|].
    destruct ((mbeg m / bs =? 0) && match mnext m with Some x => llb x =? 0 | None => false end);
      [|split; [intros x []|rewrite lenN_nil; lia]].
    destruct (IH r) as (A & B). split.
    + intros x [<-|Hx]; [left; reflexivity|right; apply A; exact Hx].
    + rewrite lenN_cons. lia.
Qed.

Lemma grown_init : grown span ml ms 0 (init ms).
Proof.
  constructor; cbn [init blocks lines syslines pending held hb hl hs]; auto; try lia.
  - constructor; cbn [init blocks lines syslines hb hl hs map]; try constructor; rewrite ?lenN_nil; lia.
  - intros m [].
Qed.

Lemma grown_blockzero filesz : grown span ml ms 5 (wb (w_blockzero bs filesz ms (winit ms))).
Proof.
  unfold w_blockzero.
  set (small := N.min bs filesz <? BZ_SMALL).
  set (S0 := with_wb (winit ms) (w_read_block (wb (winit ms)) 0)).
  assert (G0 : grown span ml ms 0 (wb S0)).
  { unfold S0. cbn [with_wb wb winit]. unfold w_read_block. cbn [init blocks memN existsb].
    unfold set_blocks. cbn [init blocks lines syslines pending held hb hl hs nread front todo stage2 wprev dok derr app].
    constructor; cbn [blocks lines syslines pending held hb hl hs]; auto.
    - constructor; cbn [blocks lines syslines hb hl hs map]; try (repeat constructor; fail); try (cbn; lia).
      constructor; [intros []|constructor].
    - lia.
    - lia.
    - cbn. lia.
    - intros m []. }
  destruct (bz_lines_sub (if small then 1 else 3)%nat (file_lines ms)) as (A1 & A2).
  destruct (bz_msgs_sub (if small then 1 else 2)%nat ms) as (B1 & B2).
  pose proof (grown_fold_lines lbeg _ 0 S0 ltac:(apply Forall_forall; intros x Hx; apply A1; exact Hx) G0) as G1.
  pose proof (grown_fold_msgs mbeg _ _ _ B1 G1) as G2.
  eapply grown_mono; [|exact G2]. clearbody small. destruct small; lia.
Qed.

Lemma msg_of_in s m : msg_of ms s = Some m -> In m ms.
Proof. unfold msg_of. intros H. apply find_some in H. tauto. Qed.

Lemma grown_probe K S fo : grown span ml ms K (wb S) -> grown span ml ms (K + 1) (wb (probe bs ms S fo)).
Proof.
  intros G. unfold probe. eapply grown_find_sysline; eauto.
  intros m Hm. destruct (find (wgs ms) fo) as [s|]; [|discriminate]. eapply msg_of_in; eauto.
Qed.

Lemma grown_wloop dt fo0 fuel : forall st K S, grown span ml ms K (wb S) ->
  grown span ml ms (K + 2 * N.of_nat fuel) (wb (fst (wloop bs ms fuel dt fo0 st S))).
Proof.
  induction fuel as [|fuel IH]; intros st K S G; cbn [wloop].
  - cbn [fst]. eapply grown_mono; [|exact G]. lia.
  - pose proof (grown_probe K S (try_fo st) G) as G1.
    destruct (bmatch (wgs ms) dt fo0 st) as [[done st']|r].
    + set (S2 := match endgame_probe ms done st' with Some fo => probe bs ms (probe bs ms S (try_fo st)) fo | None => probe bs ms S (try_fo st) end).
      assert (G2 : grown span ml ms (K + 2) (wb S2)).
      { unfold S2. destruct (endgame_probe ms done st').
        - replace (K + 2) with (K + 1 + 1) by lia. apply grown_probe. exact G1.
        - eapply grown_mono; [|exact G1]. lia. }
      destruct (endgame (wgs ms) (wfilesz ms) dt done st') as [st''|r].
      * replace (K + 2 * N.of_nat (Datatypes.S fuel)) with (K + 2 + 2 * N.of_nat fuel) by lia. apply IH. exact G2.
      * cbn [fst]. eapply grown_mono; [|exact G2]. lia.
    + cbn [fst]. eapply grown_mono; [|exact G1]. lia.
Qed.

(* the search: at most 5 + 2 bfuel finds *)
Definition search_finds : N := 5 + 2 * N.of_nat (bfuel (wfilesz ms)).

Lemma grown_search t : grown span ml ms search_finds (wb (fst (w_search bs ms t))).
Proof.
  unfold w_search, wsearch, search_finds. apply grown_wloop. apply grown_blockzero.
Qed.

(* the search result is the one of Model/Search.v *)
Lemma wloop_result dt fo0 fuel : forall st S,
  snd (wloop bs ms fuel dt fo0 st S) = bloop (wgs ms) (wfilesz ms) dt fo0 fuel st.
Proof.
  induction fuel as [|fuel IH]; intros st S; cbn [wloop bloop]; [reflexivity|].
  unfold bstep. destruct (bmatch (wgs ms) dt fo0 st) as [[done st']|r]; [|reflexivity].
  destruct (endgame (wgs ms) (wfilesz ms) dt done st') as [st''|r]; [apply IH|reflexivity].
Qed.

End SearchRun.

(* ------------------------------------------------------------------ plain reading, exactly *)
Lemma read_blocks_plain_list c cnt : forall b s, streamed c = false ->
  blocks (read_blocks c cnt b s) = blocks s ++ nseq b cnt.
Proof.
  induction cnt as [|cnt IH]; intros b s Hc; cbn [read_blocks nseq].
  - rewrite app_nil_r. reflexivity.
  - rewrite IH by exact Hc. unfold read_block, set_blocks. cbn [blocks]. rewrite Hc. cbn [andb].
    rewrite <- app_assoc. reflexivity.
Qed.

Lemma read_line_plain c s l : streamed c = false ->
  blocks (read_line c s l) = blocks s ++ nseq (nread s) (N.to_nat (llb l + 1 - nread s)).
Proof. intros Hc. unfold read_line, add_line. cbn [blocks]. apply read_blocks_plain_list. exact Hc. Qed.

(* ------------------------------------------------------------------ the stream phase: simulation *)
Section Sim.
Variables (c : cfg) (ms : list msg) (Rb : list N) (Rl : list lspan) (Rs : list msg) (Ks Kl Kb : N).
Hypothesis Hplain : streamed c = false.
Hypothesis Hpol : pol c = P_retry.
Hypothesis Hinj : forall a b, In a ms -> In b ms -> mkey a = mkey b -> a = b.
Hypothesis HKs : lenN Rs <= Ks.
Hypothesis HKl : lenN Rl <= Kl.
Hypothesis HKb : lenN Rb <= Kb.

(* W = the windowed reader (Model/RetainSearch.v), s = the streaming model of Model/Retain.v *)
Record sim (W : wst) (s : st) : Prop := {
  sm_held : held (wb W) = held s;
  sm_todo : todo (wb W) = todo s;
  sm_wprev : wprev (wb W) = wprev s;
  sm_nread : nread (wb W) = nread s;
  sm_stage : stage2 s = false;
  sm_in : (forall m, In m (syslines (wb W)) -> In m ms) /\ incl (todo s) ms;
  sm_sys1 : incl (syslines s) (syslines (wb W));
  sm_pen1 : incl (pending s) (pending (wb W));
  sm_sys2 : incl (syslines (wb W)) (syslines s ++ Rs);
  sm_pen2 : incl (pending (wb W)) (pending s ++ Rs);
  sm_lines : incl (lines (wb W)) (lines s ++ Rl);
  sm_blocks : incl (blocks (wb W)) (blocks s ++ Rb);
  sm_saneW : sane (wb W);
  sm_sizes : lenN (blocks s) <= hb s /\ lenN (lines s) <= hl s /\ lenN (syslines s) <= hs s;
  sm_hs : hs (wb W) <= hs s + Ks;
  sm_hl : hl (wb W) <= hl s + Kl;
  sm_hb : hb (wb W) <= hb s + Kb
}.

Lemma incl_app_mid {A} (a b r : list A) x : incl a (b ++ r) -> incl (a ++ [x]) ((b ++ [x]) ++ r).
Proof.
  intros H y Hy. apply in_app_or in Hy as [Hy|[<-|[]]].
  - apply H in Hy. apply in_app_or in Hy as [Hy|Hy]; apply in_or_app; [left; apply in_or_app; left|right]; exact Hy.
  - apply in_or_app. left. apply in_or_app. right. left. reflexivity.
Qed.

Lemma incl_app_grow {A} (a b b' r : list A) : incl a (b ++ r) -> incl b b' -> incl a (b' ++ r).
Proof.
  intros H Hb y Hy. apply H in Hy. apply in_app_or in Hy as [Hy|Hy]; apply in_or_app; auto.
Qed.

Lemma ins_line_frame lo s l :
  syslines (ins_line lo s l) = syslines s /\ pending (ins_line lo s l) = pending s /\
  held (ins_line lo s l) = held s /\ todo (ins_line lo s l) = todo s /\
  wprev (ins_line lo s l) = wprev s /\ hs (ins_line lo s l) = hs s /\ nread (ins_line lo s l) = nread s.
Proof.
  unfold ins_line. destruct (has_line s l); [splits; reflexivity|].
  pose proof (w_read_range_spec (N.to_nat (llb l + 1 - lo)) lo s) as (F & N1 & _). cbv zeta in *.
  destruct F as (Fl & F1 & F2 & F3 & F4 & F5 & F6 & F7 & F8 & F9 & F10 & F11).
  unfold add_line. cbn. splits; auto.
Qed.

(* one line, found by the windowed reader in the stream / read by the streaming model *)
Lemma sim_line W s l : sim W s -> sim (w_stream_line W l) (read_line c s l).
Proof.
  intros [A1 A2 A3 A4 A5 (A6 & A6') A7 A8 A9 A10 A11 A12 A13 (Z1 & Z2 & Z3) A15 A16 A17].
  pose proof (read_line_grows c s l) as (RL & RF & RG). cbv zeta in RL, RF, RG.
  destruct RG as (RI & RG1 & RG2 & RG3 & RG4 & RG5 & RG6 & RG7 & RG8).
  destruct RI as (I1 & I2 & I3 & I4 & I5 & I6 & I7 & I8 & I9).
  pose proof (read_line_plain c s l Hplain) as RB.
  pose proof (read_line_nread c s l) as RN.
  unfold w_stream_line. cbn [wb].
  change (if has_line (wb W) l then wb W
          else add_line (w_read_range (N.to_nat (llb l + 1 - nread (wb W))) (nread (wb W)) (wb W)) l)
    with (ins_line (nread (wb W)) (wb W) l).
  pose proof (ins_line_spec (nread (wb W)) (wb W) l A13)
    as (B1 & _ & B3 & B4 & B5 & B6 & B7 & B8 & B9 & B10 & B11 & B12). cbv zeta in *.
  pose proof (ins_line_frame (nread (wb W)) (wb W) l) as (J1 & J2 & J3 & J4 & J5 & J6 & J7).
  remember (ins_line (nread (wb W)) (wb W) l) as w1 eqn:Ew1. clear Ew1.
  assert (Hlines : incl (lines w1) (lines (read_line c s l) ++ Rl)).
  { rewrite RL. intros x Hx. apply B4 in Hx. apply in_app_or in Hx as [Hx|[<-|[]]].
    - apply A11 in Hx. apply in_app_or in Hx as [Hx|Hx]; apply in_or_app; [left; apply in_or_app; left|right]; exact Hx.
    - apply in_or_app. left. apply in_or_app. right. left. reflexivity. }
  assert (Hblocks : incl (blocks w1) (blocks (read_line c s l) ++ Rb)).
  { rewrite RB. intros x Hx. apply B6 in Hx as [Hx|Hx].
    - apply A12 in Hx. apply in_app_or in Hx as [Hx|Hx]; apply in_or_app; [left; apply in_or_app; left|right]; exact Hx.
    - apply in_or_app. left. apply in_or_app. right. apply in_nseq. rewrite A4 in Hx. lia. }
  destruct B1 as [Q1 Q2 Q3 Q4 Q5 Q6].
  constructor; cbn [wb set_cursor blocks lines syslines pending held hb hl hs nread todo stage2 wprev].
  - rewrite J3, I3. exact A1.
  - rewrite J4, I5. exact A2.
  - rewrite J5, I7. exact A3.
  - rewrite RN, A4. reflexivity.
  - rewrite I6. exact A5.
  - split; [rewrite J1; exact A6|rewrite I5; exact A6'].
  - rewrite J1, I1. exact A7.
  - rewrite J2, I2. exact A8.
  - rewrite J1, I1. exact A9.
  - rewrite J2, I2. exact A10.
  - exact Hlines.
  - exact Hblocks.
  - constructor; cbn [set_cursor blocks lines syslines hb hl hs]; auto.
  - splits.
    + apply RG5. exact Z1.
    + apply RG8. exact Z2.
    + rewrite I1, I4. exact Z3.
  - rewrite J6, I4. exact A15.
  - assert (lenN (lines w1) <= lenN (lines (read_line c s l)) + lenN Rl) as Hc.
    { apply lenN_incl_app; auto. eapply NoDup_map_inv'; eauto. }
    assert (lenN (lines (read_line c s l)) <= hl (read_line c s l)) by (apply RG8; exact Z2). lia.
  - assert (lenN (blocks w1) <= lenN (blocks (read_line c s l)) + lenN Rb) as Hc by (apply lenN_incl_app; auto).
    assert (lenN (blocks (read_line c s l)) <= hb (read_line c s l)) by (apply RG5; exact Z1). lia.
Qed.

(* a line of a message the search stored: the windowed reader only moves its cursor *)
Lemma sim_skip W s l : sim W s -> sim (w_skip_line W l) (read_line c s l).
Proof.
  intros [A1 A2 A3 A4 A5 (A6 & A6') A7 A8 A9 A10 A11 A12 A13 (Z1 & Z2 & Z3) A15 A16 A17].
  pose proof (read_line_grows c s l) as (RL & RF & RG). cbv zeta in RL, RF, RG.
  destruct RG as (RI & RG1 & RG2 & RG3 & RG4 & RG5 & RG6 & RG7 & RG8).
  destruct RI as (I1 & I2 & I3 & I4 & I5 & I6 & I7 & I8 & I9).
  pose proof (read_line_plain c s l Hplain) as RB.
  pose proof (read_line_nread c s l) as RN.
  unfold w_skip_line. cbn [with_wb wb].
  destruct A13 as [Q1 Q2 Q3 Q4 Q5 Q6].
  constructor; cbn [wb with_wb set_cursor blocks lines syslines pending held hb hl hs nread todo stage2 wprev].
  - rewrite I3. exact A1.
  - rewrite I5. exact A2.
  - rewrite I7. exact A3.
  - rewrite RN, A4. reflexivity.
  - rewrite I6. exact A5.
  - split; [exact A6|rewrite I5; exact A6'].
  - rewrite I1. exact A7.
  - rewrite I2. exact A8.
  - rewrite I1. exact A9.
  - rewrite I2. exact A10.
  - rewrite RL. eapply incl_app_grow; [exact A11|]. apply incl_appl, incl_refl.
  - rewrite RB. eapply incl_app_grow; [exact A12|]. apply incl_appl, incl_refl.
  - constructor; cbn [set_cursor blocks lines syslines hb hl hs]; auto.
  - splits; [apply RG5; exact Z1|apply RG8; exact Z2|rewrite I1, I4; exact Z3].
  - rewrite I4. exact A15.
  - lia.
  - lia.
Qed.

Lemma sim_lines rd : forall W s, sim W s ->
  sim (fold_left w_stream_line rd W) (fold_left (read_line c) rd s).
Proof. induction rd as [|l rd IH]; intros W s H; cbn [fold_left]; auto. apply IH, sim_line, H. Qed.

Lemma sim_skips rd : forall W s, sim W s ->
  sim (fold_left w_skip_line rd W) (fold_left (read_line c) rd s).
Proof. induction rd as [|l rd IH]; intros W s H; cbn [fold_left]; auto. apply IH, sim_skip, H. Qed.

Lemma stream_lines_sys rd : forall W, syslines (wb (fold_left w_stream_line rd W)) = syslines (wb W).
Proof.
  induction rd as [|l rd IH]; intros W; cbn [fold_left]; [reflexivity|]. rewrite IH.
  unfold w_stream_line. cbn [wb set_cursor syslines].
  change (if has_line (wb W) l then wb W
          else add_line (w_read_range (N.to_nat (llb l + 1 - nread (wb W))) (nread (wb W)) (wb W)) l)
    with (ins_line (nread (wb W)) (wb W) l).
  apply ins_line_frame.
Qed.

Lemma skip_lines_sys rd : forall W, syslines (wb (fold_left w_skip_line rd W)) = syslines (wb W).
Proof. induction rd as [|l rd IH]; intros W; cbn [fold_left]; [reflexivity|]. rewrite IH. reflexivity. Qed.

(* LRU bookkeeping does not touch the stores *)
Lemma sim_with_llru W s l : sim W s -> sim (with_llru W l) s.
Proof. intros H. destruct H. constructor; auto. Qed.
Lemma sim_with_slru W s l : sim W s -> sim (with_slru W l) s.
Proof. intros H. destruct H. constructor; auto. Qed.

(* find + send of the next message *)
Lemma sim_find W s q rest : sim W s -> todo s = q :: rest ->
  sim (w_stream_find W q) (do_find c s false q).
Proof.
  intros H Ht.
  assert (Hq : In q ms) by (apply (proj2 (sm_in _ _ H)); rewrite Ht; left; reflexivity).
  unfold w_stream_find, do_find.
  change (mread false q) with (mbody q ++ opt_list (mnext q)).
  set (rd := mbody q ++ opt_list (mnext q)).
  set (s0 := fold_left (read_line c) rd s).
  destruct (has_msg (wb W) q) eqn:Em.
  - (* the search stored q already *)
    pose proof (sim_skips rd W s H) as H1. fold s0 in H1.
    pose proof (skip_lines_sys rd W) as Hsys.
    set (W1 := fold_left w_skip_line rd W) in *.
    assert (Hin : In q (syslines (wb W1))).
    { rewrite Hsys. unfold has_msg in Em. apply memN_In in Em. apply in_map_iff in Em as (m' & Ek & Hm').
      assert (m' = q) as <-; auto. apply Hinj; auto. apply (proj1 (sm_in _ _ H)). exact Hm'. }
    apply sim_with_slru.
    destruct H1 as [A1 A2 A3 A4 A5 (A6 & A6') A7 A8 A9 A10 A11 A12 A13 (Z1 & Z2 & Z3) A15 A16 A17].
    constructor; cbn [with_wb wb hold store_msg blocks lines syslines pending held hb hl hs nread todo stage2 wprev]; auto.
    + rewrite A1. reflexivity.
    + intros x Hx. apply in_app_or in Hx as [Hx|[<-|[]]]; auto.
    + eapply incl_app_grow; [exact A9|]. apply incl_appl, incl_refl.
    + destruct A13. constructor; auto.
    + splits; auto. rewrite lenN_app. change (lenN [q]) with 1. lia.
    + lia.
  - (* q is found now *)
    pose proof (sim_lines rd _ s (sim_with_llru W s (lru_touch LLRU_CAP (mbeg q) (Some (lkey (mfirst q))) (llru W)) H)) as H1.
    fold s0 in H1.
    pose proof (stream_lines_sys rd (with_llru W (lru_touch LLRU_CAP (mbeg q) (Some (lkey (mfirst q))) (llru W)))) as Hsys.
    cbn [with_llru wb] in Hsys.
    set (W1 := fold_left w_stream_line rd (with_llru W (lru_touch LLRU_CAP (mbeg q) (Some (lkey (mfirst q))) (llru W)))) in *.
    assert (Em1 : has_msg (wb W1) q = false) by (unfold has_msg; rewrite Hsys; exact Em).
    apply sim_with_slru.
    destruct H1 as [A1 A2 A3 A4 A5 (A6 & A6') A7 A8 A9 A10 A11 A12 A13 (Z1 & Z2 & Z3) A15 A16 A17].
    pose proof (store_only_sane _ q A13 Em1) as Hs1.
    constructor; cbn [with_wb wb hold store_only store_msg blocks lines syslines pending held hb hl hs nread todo stage2 wprev]; auto.
    + rewrite A1. reflexivity.
    + split; auto. intros x Hx. apply in_app_or in Hx as [Hx|[<-|[]]]; auto.
    + intros x Hx. apply in_app_or in Hx as [Hx|[<-|[]]]; apply in_or_app; [left; apply A7; exact Hx|right; left; reflexivity].
    + apply incl_app_mid. exact A9.
    + destruct Hs1. constructor; auto.
    + splits; auto. rewrite lenN_app. change (lenN [q]) with 1. lia.
    + assert (lenN (syslines (wb W1) ++ [q]) <= lenN (syslines s0 ++ [q]) + lenN Rs) as Hc.
      { apply lenN_incl_app; [|apply incl_app_mid; exact A9]. eapply NoDup_map_inv'. apply (sn_s _ Hs1). }
      rewrite !lenN_app in *. change (lenN [q]) with 1 in *. lia.
Qed.

Lemma sim_rewrap W s : sim W s -> sim (with_wb W (wb W)) s.
Proof. intros H. destruct H. constructor; auto. Qed.

Lemma release_nodup p rel : forall s,
  NoDup (blocks s) -> NoDup (map lkey (lines s)) ->
  NoDup (blocks (fold_left (release_msg p) rel s)) /\ NoDup (map lkey (lines (fold_left (release_msg p) rel s))).
Proof.
  induction rel as [|m rel IH]; intros s Hb Hl; cbn [fold_left]; auto.
  apply IH; cbn [release_msg blocks lines].
  - generalize (mlines m) (blocks s) Hb. clear. intros ls. induction ls as [|l ls IH]; intros bl Hb; cbn [fold_left]; auto.
    apply IH. unfold release_line. apply NoDup_filter. exact Hb.
  - apply NoDup_map_filter. exact Hl.
Qed.

(* drop_data_try(p) under the repaired policy: both sides run the same function on their stores *)
Lemma sim_drop W s p : sim W s -> sim (w_try_drop c W p) (do_try_drop c s p).
Proof.
  intros H. unfold w_try_drop. rewrite Hpol. unfold do_try_drop.
  destruct (mfb p <? 3); [apply sim_rewrap; exact H|].
  destruct H as [A1 A2 A3 A4 A5 (A6 & A6') A7 A8 A9 A10 A11 A12 A13 (Z1 & Z2 & Z3) A15 A16 A17].
  rewrite Hpol.
  assert (Hheld : forall m, is_held (wb W) m = is_held s m) by (intros m; unfold is_held; rewrite A1; reflexivity).
  set (bo := mfb p - 2).
  set (X := wb W) in *.
  set (retryW := filter (fun m => negb (is_held X m)) (pending X)).
  set (stillW := filter (is_held X) (pending X)).
  set (candW := filter (fun m => mlb m <=? bo) (syslines X)).
  set (keepW := filter (fun m => negb (mlb m <=? bo)) (syslines X)).
  set (okW := filter (fun m => negb (is_held X m)) candW).
  set (failW := filter (is_held X) candW).
  set (retry := filter (fun m => negb (is_held s m)) (pending s)).
  set (still := filter (is_held s) (pending s)).
  set (cand := filter (fun m => mlb m <=? bo) (syslines s)).
  set (keep := filter (fun m => negb (mlb m <=? bo)) (syslines s)).
  set (ok := filter (fun m => negb (is_held s m)) cand).
  set (fail := filter (is_held s) cand).
  pose proof (release_msgs_spec P_retry (retryW ++ okW) X) as (BW & LW & _ & _ & NBW & NLW & FW).
  pose proof (release_msgs_spec P_retry (retry ++ ok) s) as (Bs & Ls & _ & _ & NBs & NLs & Fs).
  cbv zeta in *.
  set (x1 := fold_left (release_msg P_retry) (retryW ++ okW) X) in *.
  set (s1 := fold_left (release_msg P_retry) (retry ++ ok) s) in *.
  destruct FW as (W1 & W2 & W3 & W4 & W5 & W6 & W7 & W8 & W9 & W10 & W11 & W12 & W13).
  destruct Fs as (S1 & S2 & S3 & S4 & S5 & S6 & S7 & S8 & S9 & S10 & S11 & S12 & S13).
  assert (Hrel : forall m, In m (retry ++ ok) -> In m (retryW ++ okW)).
  { intros m Hm. apply in_or_app. apply in_app_or in Hm as [Hm|Hm].
    - left. apply filter_In in Hm as [Hm Hh]. apply filter_In. split; [apply A8; exact Hm|rewrite Hheld; exact Hh].
    - right. apply filter_In in Hm as [Hm Hh]. apply filter_In in Hm as [Hm Hc].
      apply filter_In. split; [apply filter_In; split; [apply A7; exact Hm|exact Hc]|rewrite Hheld; exact Hh]. }
  destruct (release_nodup P_retry (retryW ++ okW) X (sn_b _ A13) (sn_l _ A13)) as (ND1 & ND2). fold x1 in ND1, ND2.
  cbn [with_wb wb].
  constructor; cbn [wb with_wb set_index blocks lines syslines pending held hb hl hs nread todo stage2 wprev].
  - rewrite W3, S3. exact A1.
  - rewrite W9, S9. exact A2.
  - rewrite W11, S11. exact A3.
  - rewrite W7, S7. exact A4.
  - rewrite S10. exact A5.
  - split; [|rewrite S9; exact A6']. intros m Hm. apply filter_In in Hm as [Hm _]. apply A6. exact Hm.
  - intros m Hm. apply filter_In in Hm as [Hm Hc]. apply filter_In. split; [apply A7; exact Hm|exact Hc].
  - intros m Hm. apply in_or_app. apply in_app_or in Hm as [Hm|Hm].
    + left. apply filter_In in Hm as [Hm Hh]. apply filter_In. split; [apply A8; exact Hm|rewrite Hheld; exact Hh].
    + right. apply filter_In in Hm as [Hm Hh]. apply filter_In in Hm as [Hm Hc].
      apply filter_In. split; [apply filter_In; split; [apply A7; exact Hm|exact Hc]|rewrite Hheld; exact Hh].
  - intros m Hm. apply filter_In in Hm as [Hm Hc]. apply A9 in Hm. apply in_or_app.
    apply in_app_or in Hm as [Hm|Hm]; [left; apply filter_In; split; auto|right; exact Hm].
  - intros m Hm. apply in_app_or in Hm as [Hm|Hm].
    + apply filter_In in Hm as [Hm Hh]. apply A10 in Hm. apply in_or_app.
      apply in_app_or in Hm as [Hm|Hm]; [left|right; exact Hm].
      apply in_or_app. left. apply filter_In. split; [exact Hm|rewrite <- Hheld; exact Hh].
    + apply filter_In in Hm as [Hm Hh]. apply filter_In in Hm as [Hm Hc]. apply A9 in Hm. apply in_or_app.
      apply in_app_or in Hm as [Hm|Hm]; [left|right; exact Hm].
      apply in_or_app. right. apply filter_In. split; [apply filter_In; split; auto|rewrite <- Hheld; exact Hh].
  - intros l Hl. apply LW in Hl as [Hl Hno]. apply A11 in Hl. apply in_or_app.
    apply in_app_or in Hl as [Hl|Hl]; [left|right; exact Hl].
    apply Ls. split; [exact Hl|]. intros m Hm. apply Hno. apply Hrel. exact Hm.
  - intros b Hb. apply BW in Hb as [Hb Hno]. apply A12 in Hb. apply in_or_app.
    apply in_app_or in Hb as [Hb|Hb]; [left|right; exact Hb].
    apply Bs. split; [exact Hb|]. intros m Hm l Hl. apply (Hno m); [apply Hrel; exact Hm|exact Hl].
  - destruct A13 as [Q1 Q2 Q3 Q4 Q5 Q6].
    constructor; cbn [set_index blocks lines syslines hb hl hs]; auto.
    + apply NoDup_map_filter. exact Q3.
    + rewrite W4. lia.
    + rewrite W5. lia.
    + rewrite W6. pose proof (lenN_filter_le (fun m => negb (mlb m <=? bo)) (syslines X)). fold keepW in H. lia.
  - rewrite S4, S5, S6. pose proof (lenN_filter_le (fun m => negb (mlb m <=? bo)) (syslines s)). fold keep in H.
    splits; lia.
  - rewrite W6, S6. exact A15.
  - rewrite W5, S5. exact A16.
  - rewrite W4, S4. exact A17.
Qed.

Lemma sim_release W s j : sim W s -> sim (with_wb W (release (wb W) j)) (release s j).
Proof.
  intros [A1 A2 A3 A4 A5 A6 A7 A8 A9 A10 A11 A12 A13 A14 A15 A16 A17].
  constructor; cbn [with_wb wb release blocks lines syslines pending held hb hl hs nread todo stage2 wprev]; auto.
  - rewrite A1. reflexivity.
  - destruct A13. constructor; auto.
Qed.

Lemma sim_set_worker W s td wp : sim W s -> incl td (todo s) ->
  sim (with_wb W (set_worker (wb W) td false wp)) (set_worker s td false wp).
Proof.
  intros [A1 A2 A3 A4 A5 (A6 & A6') A7 A8 A9 A10 A11 A12 A13 A14 A15 A16 A17] Hi.
  constructor; cbn [with_wb wb set_worker blocks lines syslines pending held hb hl hs nread todo stage2 wprev]; auto.
  - split; auto. intros x Hx. apply A6', Hi, Hx.
  - destruct A13. constructor; auto.
Qed.

(* one event, lock-step *)
Lemma sim_step W s e : sim W s -> sim (w_step c W e) (step c s e).
Proof.
  intros H. destruct e as [|j]; cbn [w_step step]; [|apply sim_release; exact H].
  unfold w_wstep, wstep. rewrite (sm_todo _ _ H), (sm_stage _ _ H), (sm_wprev _ _ H).
  destruct (todo s) as [|q rest] eqn:Et; [exact H|].
  pose proof (sim_find W s q rest H Et) as H1.
  assert (Ht1 : todo (do_find c s false q) = q :: rest).
  { unfold do_find. cbn [store_msg todo].
    pose proof (read_lines_grows c (mread false q) s) as (_ & _ & G). cbv zeta in G.
    destruct G as (I0 & _). destruct I0 as (_ & _ & _ & _ & I5 & _). rewrite I5. exact Et. }
  destruct rest as [|q' r].
  - apply sim_set_worker; [exact H1|]. intros x [].
  - destruct (wprev s) as [p|].
    + pose proof (sim_drop _ _ p H1) as H2.
      apply sim_set_worker; [exact H2|].
      assert (todo (do_try_drop c (do_find c s false q) p) = q :: q' :: r) as ->.
      { unfold do_try_drop. destruct (mfb p <? 3); [exact Ht1|].
        cbn [set_index todo].
        pose proof (release_msgs_spec (pol c)
          (filter (fun m => negb (is_held (do_find c s false q) m)) (pending (do_find c s false q)) ++
           filter (fun m => negb (is_held (do_find c s false q) m))
             (filter (fun m => mlb m <=? mfb p - 2) (syslines (do_find c s false q)))) (do_find c s false q))
          as (_ & _ & _ & _ & _ & _ & F). cbv zeta in F.
        destruct F as (_ & _ & _ & _ & _ & _ & _ & _ & F9 & _). rewrite F9. exact Ht1. }
      intros x Hx. right. exact Hx.
    + apply sim_set_worker; [exact H1|]. rewrite Ht1. intros x Hx. right. exact Hx.
Qed.

Lemma sim_steps evs : forall W s, sim W s -> sim (w_steps c W evs) (run c s evs).
Proof.
  induction evs as [|e evs IH]; intros W s H; cbn [w_steps run fold_left]; auto.
  apply IH, sim_step, H.
Qed.

Lemma sim_sched H evs : forall W s, sim W s -> w_sched_ok H c W evs = true -> sched_ok H c s evs = true.
Proof.
  induction evs as [|e evs IH]; intros W s Hs Hw; cbn [w_sched_ok sched_ok] in *; auto.
  apply andb_true_iff in Hw as [H1 H2]. pose proof (sim_step W s e Hs) as Hs'.
  rewrite <- (sm_held _ _ Hs'), H1. cbn [andb]. eapply IH; eauto.
Qed.

End Sim.

(* ------------------------------------------------------------------ the windowed run *)
Section Windowed.
Variables (bs span ml H : N) (ms : list msg) (c : cfg).
Hypothesis Hpol : pol c = P_retry.
Hypothesis Hplain : streamed c = false.
Hypothesis Hwf : wf bs span ml ms.

Lemma key_inj a b : In a ms -> In b ms -> mkey a = mkey b -> a = b.
Proof.
  intros Ha Hb E. destruct Hwf as (_ & _ & _ & _ & Hs & _).
  destruct (SS_tricho _ _ _ _ Hs Ha Hb) as [E'|[E'|E']]; auto; unfold msg_lt in E'; lia.
Qed.

Lemma after_key_split k : forall l q rest, after_key k l = q :: rest ->
  exists d w, l = d ++ w :: q :: rest /\ mkey w = k.
Proof.
  induction l as [|m l IH]; intros q rest E; cbn [after_key] in E; [discriminate|].
  destruct (N.eqb_spec (mkey m) k) as [Ek|Ek].
  - subst l. exists [], m. split; auto.
  - destruct (IH q rest E) as (d & w & -> & Hk). exists (m :: d), w. split; auto.
Qed.

(* the streaming model of Model/Retain.v, placed at the first message after w *)
Definition sigma (hd : list N) (q : msg) (rest : list msg) : st :=
  {| blocks := []; lines := []; syslines := []; pending := []; held := hd;
     hb := 0; hl := 0; hs := 0; nread := llb (mfirst q) + 1; front := Some (mfirst q);
     todo := q :: rest; stage2 := false; wprev := None; dok := 0; derr := 0 |}.

Lemma inv_sigma hd d w q rest : ms = d ++ w :: q :: rest -> inv bs span ml H ms (sigma hd q rest).
Proof.
  intros E.
  assert (Hq : In q ms) by (rewrite E; apply in_or_app; right; right; left; reflexivity).
  constructor.
  2:{ cbn. lia. }
  2:{ cbn [sigma hs]. lia. }
  2:{ cbn [sigma hl]. lia. }
  2:{ cbn [sigma hb]. lia. }
  exists (d ++ [w]). splits.
  - constructor; cbn [sigma blocks lines syslines pending front hb hl hs]; unfold idx; cbn [sigma syslines pending app].
    + constructor; cbn [sigma nread front blocks lines].
      * reflexivity.
      * constructor.
      * intros b [].
      * constructor.
      * intros l f [].
      * discriminate.
    + intros m [].
    + intros l [].
    + intros f [= <-]. eapply wf_mlines_file; eauto. left. reflexivity.
    + intros l [].
    + constructor.
    + cbn. lia.
  - cbn [sigma todo]. rewrite E, <- app_assoc. reflexivity.
  - cbn [sigma stage2]. discriminate.
  - intros _. exists d, w. cbn [sigma front todo syslines wprev]. splits; auto.
    + intros m [].
    + intros _. split; intros m [].
Qed.

(* marks of the windowed run of the repaired policy: the bound of the streaming model plus what the
   search (K finds) left behind *)
Theorem windowed_stream_bounded K W w q rest evs :
  grown span ml ms K (wb W) -> after_key (mkey w) ms = q :: rest ->
  w_sched_ok H c (start_stream W w q rest) evs = true ->
  let T := w_steps c (start_stream W w q rest) evs in
  hs (wb T) <= bound_syslines bs span + K /\
  hl (wb T) <= bound_lines bs span ml H + K * (2 * ml) /\
  hb (wb T) <= bound_blocks bs span H + (K * (2 * ml * (span + 1)) + 1) /\
  lenN (syslines (wb T)) <= hs (wb T) /\ lenN (lines (wb T)) <= hl (wb T) /\ lenN (blocks (wb T)) <= hb (wb T).
Proof.
  intros G Ha Hs. cbv zeta.
  destruct (after_key_split _ _ _ _ Ha) as (d & w' & E & _).
  destruct G as [G1 G2 G3 G4 (G5 & G6) G7].
  set (W1 := start_stream W w q rest) in *.
  set (s0 := sigma (held (wb W1)) q rest).
  assert (Hsim : sim ms (blocks (wb W)) (lines (wb W)) (syslines (wb W)) (hs (wb W)) (hl (wb W)) (hb (wb W)) W1 s0).
  { unfold W1, s0, start_stream, sigma. pose proof G1 as [Q1 Q2 Q3 Q4 Q5 Q6].
    constructor; cbn [with_wb wb set_cursor set_worker hold blocks lines syslines pending held hb hl hs nread todo stage2 wprev app].
    - reflexivity.
    - reflexivity.
    - reflexivity.
    - reflexivity.
    - reflexivity.
    - split; [exact G7|]. rewrite E. intros x Hx. apply in_or_app. right. right. exact Hx.
    - intros x [].
    - intros x [].
    - apply incl_refl.
    - rewrite G5. intros x [].
    - apply incl_refl.
    - apply incl_refl.
    - constructor; auto.
    - cbn. lia.
    - lia.
    - lia.
    - lia. }
  pose proof (sn_hs _ G1) as Hks. pose proof (sn_hl _ G1) as Hkl. pose proof (sn_hb _ G1) as Hkb.
  pose proof (sim_sched c ms _ _ _ _ _ _ Hplain Hpol key_inj Hks Hkl Hkb H evs W1 s0 Hsim Hs) as Hsched.
  pose proof (inv_run bs span ml H ms c Hpol Hwf evs s0 (inv_sigma _ _ _ _ _ E) Hsched) as Hinv.
  pose proof (sim_steps c ms _ _ _ _ _ _ Hplain Hpol key_inj Hks Hkl Hkb evs W1 s0 Hsim) as Hfin.
  destruct Hinv as [_ _ Ihs Ihl Ihb].
  destruct Hfin as [_ _ _ _ _ _ _ _ _ _ _ _ F13 _ F15 F16 F17]. destruct F13 as [_ _ _ Q4 Q5 Q6].
  splits; auto; lia.
Qed.

(* the whole run, whatever the search returns *)
Theorem windowed_bounded t evs :
  w_run_sched_ok H c bs ms t evs = true ->
  let K := search_finds ms in
  let T := w_run c bs ms t evs in
  hs (wb T) <= bound_syslines bs span + K /\
  hl (wb T) <= bound_lines bs span ml H + K * (2 * ml) /\
  hb (wb T) <= bound_blocks bs span H + (K * (2 * ml * (span + 1)) + 1) /\
  lenN (syslines (wb T)) <= hs (wb T) /\ lenN (lines (wb T)) <= hl (wb T) /\ lenN (blocks (wb T)) <= hb (wb T).
Proof.
  cbv zeta. unfold w_run_sched_ok, w_run. intros Hs.
  pose proof (grown_search bs span ml ms Hwf t) as G.
  set (W := fst (w_search bs ms t)) in *.
  assert (Hstay : forall T, hs (wb T) = hs (wb W) -> hl (wb T) = hl (wb W) -> hb (wb T) = hb (wb W) ->
                  syslines (wb T) = syslines (wb W) -> lines (wb T) = lines (wb W) -> blocks (wb T) = blocks (wb W) ->
    hs (wb T) <= bound_syslines bs span + search_finds ms /\
    hl (wb T) <= bound_lines bs span ml H + search_finds ms * (2 * ml) /\
    hb (wb T) <= bound_blocks bs span H + (search_finds ms * (2 * ml * (span + 1)) + 1) /\
    lenN (syslines (wb T)) <= hs (wb T) /\ lenN (lines (wb T)) <= hl (wb T) /\ lenN (blocks (wb T)) <= hb (wb T)).
  { intros T E1 E2 E3 E4 E5 E6. rewrite E1, E2, E3, E4, E5, E6.
    destruct G as [[Q1 Q2 Q3 Q4 Q5 Q6] G2 G3 G4 _ _]. splits; auto; lia. }
  destruct (snd (w_search bs ms t)) as [fo s| | | |]; try (apply Hstay; reflexivity).
  destruct (msg_of ms s) as [w|]; [|apply Hstay; reflexivity].
  destruct (after_key (mkey w) ms) as [|q rest] eqn:Ea; [apply Hstay; reflexivity|].
  apply (windowed_stream_bounded _ W w q rest evs G Ea Hs).
Qed.

End Windowed.
