(* Proofs/WalkLookup.v — C15, work package L: path STRINGS.
   lookup_str (the kernel's resolution of a typed path string) finds again, for every entry of the
   walk, the node the walk saw, under the string jwalk renders for it; hence processed(DIR) =
   processed(explicit strings in walk order).  ".." and canonical locations. *)
From Coq Require Import Lia.
From S4.Base Require Import Bytes.
From S4.Model Require Import Classify Walk.
From S4.Proofs Require Import WalkProofs.
Open Scope N_scope.

(* ------------------------------------------------------------ split_slash / join *)
Lemma split_slash_hd_tl s : split_slash s = hd [] (split_slash s) :: tl (split_slash s).
Proof.
  destruct s as [|c r]; [reflexivity|]. simpl. destruct (c =? slash); [reflexivity|].
  destruct (split_slash r); reflexivity.
Qed.

Lemma split_slash_nonempty s : split_slash s <> [].
Proof. rewrite split_slash_hd_tl. discriminate. Qed.

Lemma has_slash_cons_eq c n : has_slash (c :: n) = (c =? slash) || has_slash n.
Proof. unfold has_slash. cbn [existsb]. now rewrite N.eqb_sym. Qed.

Lemma has_slash_cons c n : has_slash (c :: n) = false -> (c =? slash) = false /\ has_slash n = false.
Proof. rewrite has_slash_cons_eq. intro H. now apply Bool.orb_false_iff in H. Qed.

Lemma split_app_name n : forall rest, has_slash n = false -> split_slash (n ++ slash :: rest) = n :: split_slash rest.
Proof.
  induction n as [|c n IH]; intros rest H; simpl.
  - reflexivity.
  - apply has_slash_cons in H. destruct H as [Hc Hn]. rewrite Hc. now rewrite (IH rest Hn).
Qed.

Lemma split_noslash n : has_slash n = false -> split_slash n = [n].
Proof.
  induction n as [|c n IH]; intro H; simpl; [reflexivity|].
  apply has_slash_cons in H. destruct H as [Hc Hn]. rewrite Hc. now rewrite (IH Hn).
Qed.

Lemma split_app a : forall b, split_slash (a ++ slash :: b) = split_slash a ++ split_slash b.
Proof.
  induction a as [|c a IH]; intro b; simpl.
  - reflexivity.
  - destruct (c =? slash).
    + now rewrite IH.
    + rewrite IH. rewrite (split_slash_hd_tl a). reflexivity.
Qed.

Lemma split_comps_noslash s : Forall (fun c => has_slash c = false) (split_slash s).
Proof.
  induction s as [|c r IH]; simpl.
  - constructor; [reflexivity | constructor].
  - destruct (c =? slash) eqn:E.
    + constructor; [reflexivity | exact IH].
    + rewrite (split_slash_hd_tl r) in *. inversion IH; subst. constructor; [|assumption].
      rewrite has_slash_cons_eq, E. assumption.
Qed.

Lemma split_join a : forall r, Forall (fun c => has_slash c = false) (a :: r) -> split_slash (join (a :: r)) = a :: r.
Proof.
  intro r. revert a. induction r as [|b r IH]; intros a H; simpl.
  - rewrite app_nil_r. inversion H; subst. now apply split_noslash.
  - inversion H; subst. rewrite split_app_name by assumption. f_equal.
    apply (IH b). assumption.
Qed.

Lemma join_split s : join (split_slash s) = s.
Proof.
  induction s as [|c r IH]; simpl; [reflexivity|].
  destruct (c =? slash) eqn:E.
  - apply N.eqb_eq in E. subst c. simpl. rewrite (split_slash_hd_tl r) in *. simpl in *. now rewrite IH.
  - rewrite (split_slash_hd_tl r) in *. simpl in *. now rewrite IH.
Qed.

(* ------------------------------------------------------------ proper names *)
Lemma proper_spec n :
  proper n = true <-> n <> [] /\ n <> [dot] /\ n <> [dot; dot] /\ has_slash n = false.
Proof.
  unfold proper, is_junk, is_dotdot. split.
  - intro H. apply Bool.andb_true_iff in H. destruct H as [H H3]. apply Bool.andb_true_iff in H.
    destruct H as [H1 H2]. apply Bool.negb_true_iff in H1, H2, H3.
    apply Bool.orb_false_iff in H1. destruct H1 as [H1a H1b].
    repeat split.
    + intro; subst; discriminate.
    + intro; subst. rewrite beqb_refl in H1b. discriminate.
    + intro; subst. rewrite beqb_refl in H2. discriminate.
    + exact H3.
  - intros (H1 & H2 & H3 & H4). rewrite H4. simpl.
    destruct (beqb n [dot; dot]) eqn:E2; [apply beqb_eq in E2; contradiction|].
    destruct (beqb n [dot]) eqn:E1; [apply beqb_eq in E1; contradiction|].
    destruct n; [contradiction | reflexivity].
Qed.

Lemma proper_not_junk n : proper n = true -> is_junk n = false.
Proof. unfold proper. intro H. destruct (is_junk n); [discriminate | reflexivity]. Qed.
Lemma proper_not_dotdot n : proper n = true -> is_dotdot n = false.
Proof. unfold proper. intro H. destruct (is_junk n), (is_dotdot n); try discriminate; reflexivity. Qed.
Lemma proper_noslash n : proper n = true -> has_slash n = false.
Proof. unfold proper. intro H. destruct (is_junk n), (is_dotdot n), (has_slash n); try discriminate; reflexivity. Qed.
Lemma proper_nonempty n : proper n = true -> n <> [].
Proof. intros H ->. discriminate. Qed.

Fixpoint names_proper (t : tree) : Prop :=
  match t with
  | Dir cs => (fix all (l : list (name * tree)) : Prop :=
                 match l with [] => True | nc :: r => (proper (fst nc) = true /\ names_proper (snd nc)) /\ all r end) cs
  | Link _ x => names_proper x
  | _ => True
  end.

Lemma all_proper_Forall cs :
  (fix all (l : list (name * tree)) : Prop :=
     match l with [] => True | nc :: r => (proper (fst nc) = true /\ names_proper (snd nc)) /\ all r end) cs
  <-> Forall (fun nc => proper (fst nc) = true /\ names_proper (snd nc)) cs.
Proof.
  induction cs as [|a cs IH]; simpl.
  - split; intro; [constructor | exact I].
  - split.
    + intros [H1 H2]. constructor; [exact H1 | now apply IH].
    + intro H. inversion H; subst. split; [assumption | now apply IH].
Qed.

(* ------------------------------------------------------------ resolve_at *)
Lemma resolve_at_snd t : forall cp, snd (resolve_at cp t) = resolve t.
Proof. induction t; intro cp; simpl; try reflexivity. apply IHt. Qed.

Lemma resolve_at_idem t : forall cp,
  resolve_at (fst (resolve_at cp t)) (snd (resolve_at cp t)) = resolve_at cp t.
Proof. induction t; intro cp; simpl; try reflexivity. apply IHt. Qed.

Lemma resolve_at_canon t : forall cp, last (fst (resolve_at cp t)) [] = canon_name (last cp []) t.
Proof. induction t; intro cp; simpl; try reflexivity. apply IHt. Qed.

Lemma resolve_sort_prune t : resolve (sort_tree (prune t)) = sort_tree (prune (resolve t)).
Proof. induction t; simpl; try reflexivity. exact IHt. Qed.

Lemma canon_sort_prune t : forall n, canon_name n (sort_tree (prune t)) = canon_name n t.
Proof. induction t; intro n; simpl; try reflexivity. apply IHt. Qed.

Lemma sort_prune_file t ms : sort_tree (prune t) = File ms -> t = File ms.
Proof. destruct t; simpl; intro H; try discriminate. exact H. Qed.

(* ------------------------------------------------------------ steps *)
Lemma step_unfold root cp t c cp' t' :
  resolve_at cp t = (cp', t') -> step root cp t c = step root cp' t' c.
Proof.
  intro E. unfold step. rewrite E.
  pose proof (resolve_at_idem t cp) as H. rewrite E in H. simpl in H. rewrite H. reflexivity.
Qed.

Lemma step_link root cp c0 x c : step root cp (Link c0 x) c = step root c0 x c.
Proof. reflexivity. Qed.

Lemma resolve_not_link t : forall c x, resolve t <> Link c x.
Proof. induction t; intros c0 x0; simpl; try discriminate. apply IHt. Qed.

Lemma resolve_at_not_link cp t cp' c x : resolve_at cp t <> (cp', Link c x).
Proof.
  intro E. pose proof (resolve_at_snd t cp) as H. rewrite E in H. simpl in H.
  symmetry in H. now apply resolve_not_link in H.
Qed.

Lemma step_junk root cp t j :
  is_junk j = true ->
  step root cp t j = match resolve_at cp t with
                     | (cp', Dir cs) => Found cp' (Dir cs)
                     | (_, Other) => NoEnt
                     | _ => NotDir
                     end.
Proof.
  intro Hj. unfold step. destruct (resolve_at cp t) as [cp' t']. destruct t'; try reflexivity.
  now rewrite Hj.
Qed.

Lemma junk_skip root cp t j c r :
  is_junk j = true -> lookup_comps root cp t (j :: c :: r) = lookup_comps root cp t (c :: r).
Proof.
  intro Hj. cbn [lookup_comps]. rewrite (step_junk root cp t j Hj).
  destruct (resolve_at cp t) as [cp' t'] eqn:E.
  rewrite (step_unfold root cp t c cp' t' E).
  destruct t' as [ms|cs|c0 x| |].
  - reflexivity.
  - reflexivity.
  - now elim (resolve_at_not_link cp t cp' c0 x).
  - reflexivity.
  - reflexivity.
Qed.

Lemma lookup_comps_app root cs1 : forall cp t cs2,
  lookup_comps root cp t (cs1 ++ cs2)
  = match lookup_comps root cp t cs1 with Found cp' t' => lookup_comps root cp' t' cs2 | e => e end.
Proof.
  induction cs1 as [|c cs1 IH]; intros cp t cs2; simpl; [reflexivity|].
  destruct (step root cp t c); try reflexivity. apply IH.
Qed.

Lemma drop_junk_lookup root l : forall cp t n,
  lookup_comps root cp t (l ++ [n]) = lookup_comps root cp t (drop_trailing_junk l ++ [n]).
Proof.
  induction l as [|c r IH]; intros cp t n; [reflexivity|].
  cbn [drop_trailing_junk]. destruct (drop_trailing_junk r) as [|d r'] eqn:E.
  - destruct (is_junk c) eqn:Ej.
    + change ((c :: r) ++ [n]) with (c :: (r ++ [n])). cbn [lookup_comps].
      destruct (step root cp t c) as [cp1 t1| | |] eqn:Es.
      * rewrite IH. simpl.
        (* lookup (c :: [n]) = lookup [n] *)
        pose proof (junk_skip root cp t c n [] Ej) as Hs. cbn [lookup_comps] in Hs. rewrite Es in Hs. exact Hs.
      * pose proof (junk_skip root cp t c n [] Ej) as Hs. cbn [lookup_comps] in Hs. rewrite Es in Hs. exact Hs.
      * pose proof (junk_skip root cp t c n [] Ej) as Hs. cbn [lookup_comps] in Hs. rewrite Es in Hs. exact Hs.
      * pose proof (junk_skip root cp t c n [] Ej) as Hs. cbn [lookup_comps] in Hs. rewrite Es in Hs. exact Hs.
    + change ((c :: r) ++ [n]) with (c :: (r ++ [n])). cbn [lookup_comps app].
      destruct (step root cp t c); try reflexivity. rewrite IH. reflexivity.
  - change ((c :: r) ++ [n]) with (c :: (r ++ [n])).
    change ((c :: d :: r') ++ [n]) with (c :: ((d :: r') ++ [n])). cbn [lookup_comps].
    destruct (step root cp t c); try reflexivity. apply IH.
Qed.

Lemma drop_junk_noslash l :
  Forall (fun c => has_slash c = false) l -> Forall (fun c => has_slash c = false) (drop_trailing_junk l).
Proof.
  induction l as [|c r IH]; intro H; simpl; [constructor|].
  inversion H; subst. destruct (drop_trailing_junk r) eqn:E.
  - destruct (is_junk c); constructor; [assumption | constructor].
  - constructor; [assumption | now apply IH].
Qed.

(* ------------------------------------------------------------ lookup_str as lookup_comps *)
Lemma lookup_str_found root s cp t :
  lookup_str root s = Found cp t ->
  exists c h tl, split_slash s = (c :: h) :: tl /\ lookup_comps root [] root ((c :: h) :: tl) = Found cp t.
Proof.
  unfold lookup_str. destruct (split_slash s) as [|[|c h] tl] eqn:E.
  - now elim (split_slash_nonempty s).
  - destruct tl; discriminate.
  - intro H. now exists c, h, tl.
Qed.

Lemma lookup_str_rel root s c h tl :
  split_slash s = (c :: h) :: tl -> lookup_str root s = lookup_comps root [] root ((c :: h) :: tl).
Proof. intro E. unfold lookup_str. now rewrite E. Qed.

(* the normalisation jwalk applies to a root that is a symlink does not change what the string names *)
Lemma lookup_norm_root root typed : lookup_str root (norm_root typed) = lookup_str root typed.
Proof.
  unfold norm_root.
  pose proof (split_comps_noslash typed) as Hns.
  pose proof (split_slash_nonempty typed) as Hne.
  destruct (@exists_last _ (split_slash typed) Hne) as (init & n & E).
  rewrite E in *. rewrite removelast_last, last_last.
  destruct init as [|h t].
  - (* a single component: typed = n *)
    simpl in E. rewrite <- (join_split typed). rewrite E. simpl. now rewrite app_nil_r.
  - assert (Hs : split_slash (join (h :: drop_trailing_junk t ++ [n])) = h :: drop_trailing_junk t ++ [n]).
    { apply split_join. inversion Hns; subst. constructor; [assumption|].
      apply Forall_app in H2. destruct H2 as [Ht Hn]. apply Forall_app. split; [|exact Hn].
      now apply drop_junk_noslash. }
    unfold lookup_str. rewrite Hs, E. simpl.
    destruct h as [|c h].
    + destruct (drop_trailing_junk t ++ [n]) eqn:E1; [now destruct (drop_trailing_junk t)|].
      destruct (t ++ [n]) eqn:E2; [now destruct t|]. reflexivity.
    + destruct (step root [] root (c :: h)); try reflexivity. symmetry. apply drop_junk_lookup.
Qed.

(* a string with a separator keeps one under that normalisation *)
Lemma has_slash_In s : has_slash s = true <-> In slash s.
Proof.
  unfold has_slash. rewrite existsb_exists. split.
  - intros (x & Hx & E). apply N.eqb_eq in E. now subst.
  - intro H. exists slash. split; [exact H | apply N.eqb_refl].
Qed.

Lemma norm_root_keeps_slash s : In slash s -> In slash (norm_root s).
Proof.
  intro Hs. unfold norm_root.
  pose proof (split_comps_noslash s) as Hns.
  destruct (@exists_last _ (split_slash s) (split_slash_nonempty s)) as (init & n & E).
  rewrite E in *. rewrite removelast_last, last_last.
  destruct init as [|h t].
  - exfalso. simpl in E. rewrite <- (join_split s), E in Hs. simpl in Hs. rewrite app_nil_r in Hs.
    inversion Hns; subst. apply has_slash_In in Hs. congruence.
  - cbn [join]. apply in_or_app. right. rewrite flat_map_app. apply in_or_app. right. simpl. now left.
Qed.

(* ------------------------------------------------------------ rjoin *)
Lemma last_app_ne {A} (a b : list A) d : b <> [] -> last (a ++ b) d = last b d.
Proof.
  intro Hb. induction a as [|x a IH]; [reflexivity|]. simpl.
  destruct (a ++ b) eqn:E; [|exact IH]. apply app_eq_nil in E. destruct E; contradiction.
Qed.

Lemma last_noslash n : n <> [] -> has_slash n = false -> (last n 0 =? slash) = false.
Proof.
  induction n as [|c n IH]; intros Hn Hs; [contradiction|].
  apply has_slash_cons in Hs. destruct Hs as [Hc Hs]. destruct n as [|d n]; [exact Hc|].
  change (last (c :: d :: n) 0) with (last (d :: n) 0). apply IH; [discriminate | exact Hs].
Qed.

Lemma rjoin_clean rest : forall acc,
  acc <> [] -> (last acc 0 =? slash) = false -> Forall (fun n => proper n = true) rest ->
  rjoin acc rest = acc ++ flat_map (fun n => slash :: n) rest.
Proof.
  unfold rjoin. induction rest as [|n rest IH]; intros acc Ha Hl Hp; simpl.
  - now rewrite app_nil_r.
  - inversion Hp; subst. unfold push at 2. destruct acc as [|a acc']; [contradiction|].
    rewrite Hl. rewrite IH.
    + now rewrite <- app_assoc.
    + destruct (a :: acc'); discriminate.
    + change ((a :: acc') ++ slash :: n) with ((a :: acc') ++ (slash :: n)).
      rewrite last_app_ne by discriminate.
      pose proof (proper_nonempty n H1) as Hn. destruct n as [|c n]; [contradiction|].
      change (last (slash :: c :: n) 0) with (last (c :: n) 0).
      apply last_noslash; [discriminate | now apply proper_noslash].
    + assumption.
Qed.

(* the string of entry [p] below [base]: base, a separator unless base ends with one, the names
   joined by '/' *)
Lemma rjoin_form base n1 rest :
  base <> [] -> Forall (fun n => proper n = true) (n1 :: rest) ->
  rjoin base (n1 :: rest)
  = (if last base 0 =? slash then removelast base else base) ++ slash :: join (n1 :: rest).
Proof.
  intros Hb Hp. inversion Hp; subst. unfold rjoin. simpl fold_left. fold (rjoin (push base n1) rest).
  assert (Hn1 : n1 <> []) by now apply proper_nonempty.
  assert (Hl1 : (last n1 0 =? slash) = false) by (apply last_noslash; [assumption | now apply proper_noslash]).
  unfold push. destruct base as [|b0 base']; [contradiction|].
  destruct (last (b0 :: base') 0 =? slash) eqn:El.
  - rewrite rjoin_clean; try assumption.
    + apply N.eqb_eq in El.
      rewrite (app_removelast_last 0 (l := b0 :: base')) at 1 by discriminate.
      rewrite El. rewrite <- !app_assoc. reflexivity.
    + destruct (b0 :: base'); discriminate.
    + rewrite last_app_ne by assumption. exact Hl1.
  - rewrite rjoin_clean; try assumption.
    + rewrite <- app_assoc. reflexivity.
    + destruct (b0 :: base'); discriminate.
    + change ((b0 :: base') ++ slash :: n1) with ((b0 :: base') ++ (slash :: n1)).
      rewrite last_app_ne by discriminate. destruct n1 as [|c n1]; [contradiction|]. exact Hl1.
Qed.

(* resolving the string of an entry = resolving the root's string, then descending by the entry's
   components *)
Lemma lookup_rjoin root base cp0 t0 p :
  lookup_str root base = Found cp0 t0 -> p <> [] -> Forall (fun n => proper n = true) p ->
  lookup_str root (rjoin base p) = lookup_comps root cp0 t0 p.
Proof.
  intros Hl Hp Hpr. destruct p as [|n1 rest]; [contradiction|].
  destruct (lookup_str_found _ _ _ _ Hl) as (c & h & tl & Es & Hc).
  assert (Hb : base <> []) by (intros ->; discriminate).
  assert (Hsp : Forall (fun c => has_slash c = false) (n1 :: rest)).
  { eapply Forall_impl; [|exact Hpr]. intros a Ha. now apply proper_noslash. }
  rewrite rjoin_form by assumption.
  destruct (last base 0 =? slash) eqn:El.
  - (* base = b' ++ "/" : its last component is empty *)
    apply N.eqb_eq in El.
    assert (Eb : base = removelast base ++ [slash]).
    { rewrite <- El. now apply app_removelast_last. }
    remember (removelast base) as b' eqn:Hb'. clear Hb'.
    assert (Es' : split_slash base = split_slash b' ++ [[]]).
    { rewrite Eb at 1. now rewrite split_app. }
    rewrite Es in Es'.
    assert (Hhd : exists tl', split_slash b' = (c :: h) :: tl' /\ tl = tl' ++ [[]]).
    { destruct (split_slash b') as [|x tl'] eqn:E; [now elim (split_slash_nonempty b')|].
      simpl in Es'. inversion Es'; subst. now exists tl'. }
    destruct Hhd as (tl' & Eb' & ->).
    assert (Esp : split_slash (b' ++ slash :: join (n1 :: rest)) = (c :: h) :: (tl' ++ n1 :: rest)).
    { rewrite split_app, split_join by assumption. now rewrite Eb'. }
    rewrite (lookup_str_rel root _ c h _ Esp).
    change ((c :: h) :: tl' ++ n1 :: rest) with (((c :: h) :: tl') ++ (n1 :: rest)).
    rewrite lookup_comps_app.
    change ((c :: h) :: tl' ++ [[]]) with (((c :: h) :: tl') ++ [[]]) in Hc.
    rewrite lookup_comps_app in Hc.
    destruct (lookup_comps root [] root ((c :: h) :: tl')) as [cpa ta| | |]; try discriminate.
    transitivity (lookup_comps root cpa ta ([] :: n1 :: rest)); [symmetry; now apply junk_skip|].
    cbn [lookup_comps] in Hc |- *. destruct (step root cpa ta []); try discriminate.
    inversion Hc; subst. reflexivity.
  - assert (Esp : split_slash (base ++ slash :: join (n1 :: rest)) = (c :: h) :: (tl ++ n1 :: rest)).
    { rewrite split_app, split_join by assumption. now rewrite Es. }
    rewrite (lookup_str_rel root _ c h _ Esp).
    change ((c :: h) :: tl ++ n1 :: rest) with (((c :: h) :: tl) ++ (n1 :: rest)).
    rewrite lookup_comps_app, Hc. reflexivity.
Qed.

(* ------------------------------------------------------------ the entries of a walk *)
Lemma below_prefix t : forall p, below p t = map (fun e => (p ++ fst e, snd e)) (below [] t).
Proof.
  induction t as [ms|cs IH|c x IH| |] using tree_ind'; intro p; try reflexivity.
  - induction cs as [|[n c] cs IHcs]; [reflexivity|].
    rewrite !below_dir_cons, map_app. inversion IH as [|? ? Hc Hcs]; subst. simpl in Hc.
    rewrite (IHcs Hcs). f_equal. simpl. f_equal.
    rewrite (Hc (p ++ [n])), (Hc [n]), map_map. apply map_ext. intros [q y]. simpl.
    now rewrite <- app_assoc.
  - simpl. apply IH.
Qed.

Lemma in_below_dir cs p n :
  In (p, n) (below [] (Dir cs)) ->
  exists m c, In (m, c) cs /\ ((p = [m] /\ n = c) \/ (exists q, q <> [] /\ p = m :: q /\ In (q, n) (below [] c))).
Proof.
  simpl. rewrite in_flat_map. intros ([m c] & Hin & H). exists m, c. split; [exact Hin|].
  destruct H as [H|H].
  - left. inversion H; subst. auto.
  - right. rewrite below_prefix in H. apply in_map_iff in H. destruct H as ([q y] & Heq & Hq).
    simpl in Heq. inversion Heq; subst. exists q. split; [|auto].
    assert (Hm : In q (map fst (below [] c))) by (apply in_map_iff; now exists (q, n)).
    destruct (below_under _ _ _ Hm) as (r & Hr & ->). exact Hr.
Qed.

Lemma sorted_pruned_children cs :
  sort_tree (prune (Dir cs))
  = Dir (sort_children (map (fun nc => let '(n, c) := nc in (n, sort_tree c)) (flat_map prune_child cs))).
Proof. reflexivity. Qed.

Lemma in_sorted_pruned cs m c' :
  In (m, c') (sort_children (map (fun nc => let '(n, c) := nc in (n, sort_tree c)) (flat_map prune_child cs))) ->
  exists c, In (m, c) cs /\ is_hidden m = false /\ c' = sort_tree (prune c).
Proof.
  intro H. apply (proj1 (In_sort_children _ _)) in H. apply in_map_iff in H. destruct H as ([n y] & Heq & Hy).
  inversion Heq; subst. apply (proj1 (In_prune_children _ _)) in Hy. simpl in Hy.
  destruct Hy as (c & Hin & Hh & ->). now exists c.
Qed.

Lemma find_unique (cs : list (name * tree)) m c :
  NoDup (map fst cs) -> In (m, c) cs -> find (fun nc => beqb (fst nc) m) cs = Some (m, c).
Proof.
  induction cs as [|[n y] cs IH]; intros Hnd Hin; [contradiction|].
  simpl in *. inversion Hnd; subst. destruct Hin as [Heq|Hin].
  - inversion Heq; subst. now rewrite beqb_refl.
  - destruct (beqb n m) eqn:E.
    + apply beqb_eq in E. subst. exfalso. apply H1. apply in_map_iff. now exists (m, c).
    + now apply IH.
Qed.

(* descending from a node by the components of a walk entry finds the node the walk saw (before
   the walk's own sorting and pruning), at a location whose last component is the entry's name *)
Lemma descend root t0 :
  names_proper t0 -> names_unique t0 ->
  forall cp p n, In (p, n) (below [] (sort_tree (prune t0))) ->
    Forall (fun m => proper m = true /\ is_hidden m = false) p /\
    exists cpx c, lookup_comps root cp t0 p = Found cpx c /\ sort_tree (prune c) = n
                  /\ last cpx [] = last p [] /\ p <> [].
Proof.
  induction t0 as [ms|cs IH|c0 x IH| |] using tree_ind'; intros Hp Hu cp p n Hin;
    try (simpl in Hin; contradiction).
  - rewrite sorted_pruned_children in Hin. apply in_below_dir in Hin.
    destruct Hin as (m & c' & Hmc & Hcase). apply in_sorted_pruned in Hmc.
    destruct Hmc as (c & Hc & Hhid & ->).
    simpl in Hp. apply all_proper_Forall in Hp. destruct Hu as [Hnd Hall]. apply all_unique_Forall in Hall.
    rewrite Forall_forall in IH, Hp, Hall.
    destruct (Hp (m, c) Hc) as [Hm Hpc]. simpl in Hm, Hpc. pose proof (Hall (m, c) Hc) as Huc. simpl in Huc.
    assert (Hstep : step root cp (Dir cs) m = Found (cp ++ [m]) c).
    { unfold step. simpl. rewrite (proper_not_junk m Hm), (proper_not_dotdot m Hm).
      now rewrite (find_unique cs m c Hnd Hc). }
    destruct Hcase as [[-> ->]|(q & Hq & -> & Hin)].
    + split; [constructor; [split; assumption | constructor]|].
      exists (cp ++ [m]), c. cbn [lookup_comps]. rewrite Hstep. repeat split.
      * now rewrite last_last.
      * discriminate.
    + destruct (IH (m, c) Hc Hpc Huc (cp ++ [m]) q n Hin) as (Hfq & cpx & cx & Hl & Hs & Hlast & _).
      split; [constructor; [split; assumption | assumption]|].
      exists cpx, cx. cbn [lookup_comps]. rewrite Hstep. repeat split; try assumption.
      * rewrite Hlast. destruct q; [contradiction | reflexivity].
      * discriminate.
  - simpl in Hin. destruct (IH Hp Hu c0 p n Hin) as (Hfp & cpx & cx & Hl & Hs & Hlast & Hne).
    split; [exact Hfp|]. exists cpx, cx. repeat split; try assumption.
    destruct p as [|m q]; [contradiction|]. cbn [lookup_comps] in *. now rewrite step_link.
Qed.

(* THE LOOKUP THEOREM: for every entry (p, n) of the walk of the node that the typed string names,
   the path string jwalk renders for the entry resolves — from the root, through the kernel's
   rules — to a node c that the walk saw as n, at a canonical location named like the entry *)
Theorem lookup_walk_thm : forall root typed cp0 t0,
  lookup_str root typed = Found cp0 t0 -> names_proper t0 -> names_unique t0 ->
  forall p n, In (p, n) (walk [] t0) ->
    exists cpx c, lookup_str root (entry_str (walk_base typed t0) (p, n)) = Found cpx c
                  /\ sort_tree (prune c) = n /\ last cpx [] = last p [].
Proof.
  intros root typed cp0 t0 Hl Hp Hu p n Hin. unfold walk in Hin.
  destruct (descend root t0 Hp Hu cp0 p n Hin) as (Hfp & cpx & c & Hd & Hs & Hlast & Hne).
  exists cpx, c. split; [|auto].
  assert (Hr : lookup_str root (rjoin (walk_base typed t0) p) = Found cpx c).
  { rewrite <- Hd. apply lookup_rjoin; try assumption;
      [|eapply Forall_impl; [|exact Hfp]; now intros a [Ha _]].
    unfold walk_base. destruct t0; try exact Hl. now rewrite lookup_norm_root. }
  unfold entry_str. cbn [fst snd]. destruct n; try exact Hr. now rewrite lookup_norm_root.
Qed.

(* names for which render/lookup is not the identity ("", ".", "..", names with '/') do not occur
   in walk output, nor do hidden names *)
Theorem walk_components_proper_thm : forall t0 p n,
  names_proper t0 -> names_unique t0 -> In (p, n) (walk [] t0) ->
  p <> [] /\ Forall (fun m => proper m = true) p /\ Forall (fun m => is_hidden m = false) p
  /\ split_slash (join p) = p.
Proof.
  intros t0 p n Hp Hu Hin. unfold walk in Hin.
  destruct (descend (Dir []) t0 Hp Hu [] p n Hin) as (Hfp & cpx & c & _ & _ & _ & Hne).
  assert (H1 : Forall (fun m => proper m = true) p) by (eapply Forall_impl; [|exact Hfp]; now intros a [Ha _]).
  assert (H2 : Forall (fun m => is_hidden m = false) p) by (eapply Forall_impl; [|exact Hfp]; now intros a [_ Ha]).
  split; [exact Hne|]. split; [exact H1|]. split; [exact H2|].
  destruct p as [|a r]; [contradiction|]. apply split_join.
  eapply Forall_impl; [|exact H1]. intros m Hm. now apply proper_noslash.
Qed.

(* the walk is COMPLETE: every entry beneath the node (links followed) none of whose components is
   hidden is listed *)
Lemma below_resolve t : forall p, below p t = below p (resolve t).
Proof. induction t; intro p; simpl; try reflexivity. apply IHt. Qed.

Theorem walk_complete_thm : forall p t c,
  p <> [] -> Forall (fun m => is_hidden m = false) p -> lookup p t = Some c ->
  In (p, sort_tree (prune c)) (walk [] t).
Proof.
  unfold walk. induction p as [|m q IH]; intros t c Hne Hh Hl; [contradiction|].
  cbn [lookup] in Hl. rewrite below_resolve, resolve_sort_prune.
  destruct (resolve t) as [ms|cs|c0 x| |]; try discriminate.
  destruct (find (fun nc => beqb (fst nc) m) cs) as [[m' c1]|] eqn:Ef; [|discriminate].
  apply find_some in Ef. destruct Ef as [Hin Hb]. cbn [fst snd] in *. apply beqb_eq in Hb. subst m'.
  inversion Hh as [|? ? Hm Hq]; subst.
  rewrite sorted_pruned_children.
  assert (Hc1 : In (m, sort_tree (prune c1))
                   (sort_children (map (fun nc => let '(n, c) := nc in (n, sort_tree c)) (flat_map prune_child cs)))).
  { apply In_sort_children. apply in_map_iff. exists (m, prune c1). split; [reflexivity|].
    apply In_prune_children. exists c1. auto. }
  cbn [below]. apply in_flat_map. exists (m, sort_tree (prune c1)). split; [exact Hc1|].
  destruct q as [|m2 q'].
  - cbn [lookup] in Hl. inversion Hl; subst. now left.
  - right. rewrite below_prefix. apply in_map_iff. exists (m2 :: q', sort_tree (prune c)).
    split; [reflexivity|]. apply IH; [discriminate | exact Hq | exact Hl].
Qed.

(* ... and a regular file behind a hidden name is NOT listed (jwalk's default skip_hidden): `s4 DIR`
   does not read DIR/.h.log, `s4 DIR/.h.log` does *)
Theorem hidden_file_not_walked_refuted_thm :
  exists t p, names_proper t /\ names_unique t /\ lookup p t = Some (File [])
              /\ ~ In p (map fst (walk [] t)).
Proof.
  exists (Dir [([97], File []); ([46; 104; 46; 108; 111; 103], File [])]), [[46; 104; 46; 108; 111; 103]].
  split; [simpl; repeat split|]. split; [simpl; repeat split; repeat constructor; simpl; intuition discriminate|].
  split; [reflexivity|]. vm_compute. intros [H|[]]. discriminate.
Qed.

(* ------------------------------------------------------------ directory = explicit STRINGS *)
Section StrEquiv.
  Variable sfx_table : list (bytes * sfx_action).
  Variable name_table : list (bytes * name_action).
  Variable junk junk_lead : list N.
  Let cls := cls sfx_table name_table junk junk_lead.
  Let kept := kept sfx_table name_table junk junk_lead.
  Let link_agrees := link_agrees sfx_table name_table junk junk_lead.
  Let pps := process_path_s sfx_table name_table junk junk_lead.
  Let wgen := walked_gen sfx_table name_table junk junk_lead.
  Let egen := explicit_gen sfx_table name_table junk junk_lead.
  Let ws := walked_s sfx_table name_table junk junk_lead.

  (* the explicit list: the path strings, as jwalk renders them, of the kept regular files of the
     walk of the node [t0] named by [typed], in walk order *)
  Definition explicit_list (typed : bytes) (t0 : tree) : list bytes :=
    map (entry_str (walk_base typed t0)) (filter kept (walk [] t0)).

  Lemma kept_same_gen ps uat p t :
    kept (p, t) = true -> link_agrees (p, t) ->
    wgen ps (last_name p) uat t = egen ps (canon_name (last_name p) t) uat t.
  Proof.
    unfold kept, link_agrees, wgen, egen, WalkProofs.kept, is_file_entry, excluded,
      WalkProofs.link_agrees, walked_gen, explicit_gen. cbn [fst snd].
    destruct (resolve t) as [ms| | | |]; try discriminate. simpl.
    intros Hk Ha. rewrite Ha.
    destruct (cls_uat sfx_table name_table junk junk_lead (last_name p)) as [E|E].
    - rewrite E in Hk. discriminate.
    - rewrite <- E.
      destruct (Walk.cls sfx_table name_table junk junk_lead false (last_name p)) as [[| | | |]| |];
        try reflexivity. discriminate.
  Qed.

  (* process_path on the string of a walk entry that is a regular file = the explicit
     classification of that entry, reported under the same string *)
  Lemma pps_entry root uat typed cp0 t0 p n :
    lookup_str root typed = Found cp0 t0 -> names_proper t0 -> names_unique t0 ->
    In (p, n) (walk [] t0) -> is_file_entry (p, n) = true ->
    pps root uat (entry_str (walk_base typed t0) (p, n))
    = egen (entry_str (walk_base typed t0) (p, n)) (canon_name (last_name p) n) uat n.
  Proof.
    intros Hl Hp Hu Hin Hf.
    destruct (lookup_walk_thm root typed cp0 t0 Hl Hp Hu p n Hin) as (cpx & c & Hlk & Hs & Hlast).
    subst pps egen. unfold process_path_s. rewrite Hlk.
    destruct (resolve_at cpx c) as [cp' t'] eqn:E.
    pose proof (resolve_at_snd c cpx) as Hr. rewrite E in Hr. simpl in Hr.
    pose proof (resolve_at_canon c cpx) as Hc. rewrite E in Hc. simpl in Hc.
    unfold is_file_entry in Hf. simpl in Hf. rewrite <- Hs, resolve_sort_prune in Hf.
    destruct (sort_tree (prune (resolve c))) as [ms| | | |] eqn:Esp; try discriminate.
    apply sort_prune_file in Esp. rewrite Esp in Hr. subst t'.
    unfold last_name. rewrite Hc, Hlast, <- Hs, canon_sort_prune.
    unfold explicit_gen. rewrite resolve_sort_prune, Esp. reflexivity.
  Qed.

  Lemma ws_dropped typed t0 uat e : kept e = false ->
    ws typed t0 uat e = [] \/ ws typed t0 uat e = [PNotSupported (entry_str (walk_base typed t0) e)]
    \/ ws typed t0 uat e = [PNotAFile (entry_str (walk_base typed t0) e)].
  Proof.
    subst kept ws. destruct e as [p t].
    unfold WalkProofs.kept, is_file_entry, excluded, walked_s, walked_gen. cbn [fst snd].
    destruct (resolve t) as [ms| | | |]; try (left; reflexivity); [|right; right; reflexivity]. simpl. fold cls.
    destruct (cls false (last_name p)) as [[| | | |]| |]; try discriminate. right. left. reflexivity.
  Qed.

  (* processed(DIR) = processed(the explicit path strings, in walk order, of the regular files
     beneath it whose own name is not of a known non-log type and is not hidden), record for record
     and string for string, when every symlink's own name selects the reader its target's name
     selects; what is left out yields no FileValid record *)
  Theorem dir_equiv_explicit_str_thm : forall root uat typed cp0 t0 cs,
    lookup_str root typed = Found cp0 t0 -> resolve t0 = Dir cs ->
    names_proper t0 -> names_unique t0 ->
    (forall e, In e (walk [] t0) -> kept e = true -> link_agrees e) ->
    pps root uat typed = flat_map (ws typed t0 uat) (walk [] t0)
    /\ flat_map (pps root uat) (explicit_list typed t0) = flat_map (ws typed t0 uat) (filter kept (walk [] t0))
    /\ valids (pps root uat typed) = valids (flat_map (pps root uat) (explicit_list typed t0))
    /\ (forall e, In e (walk [] t0) -> kept e = false ->
          ws typed t0 uat e = [] \/ ws typed t0 uat e = [PNotSupported (entry_str (walk_base typed t0) e)]
          \/ ws typed t0 uat e = [PNotAFile (entry_str (walk_base typed t0) e)]).
  Proof.
    intros root uat typed cp0 t0 cs Hl Hd Hp Hu Hag.
    assert (H0 : pps root uat typed = flat_map (ws typed t0 uat) (walk [] t0)).
    { subst pps ws. unfold process_path_s. rewrite Hl.
      destruct (resolve_at cp0 t0) as [cp' t'] eqn:E.
      pose proof (resolve_at_snd t0 cp0) as Hr. rewrite E in Hr. simpl in Hr. rewrite Hd in Hr. subst t'.
      reflexivity. }
    assert (H1 : flat_map (pps root uat) (explicit_list typed t0)
                 = flat_map (ws typed t0 uat) (filter kept (walk [] t0))).
    { unfold explicit_list.
      assert (G : forall E, (forall e, In e E -> In e (walk [] t0)) ->
                  flat_map (pps root uat) (map (entry_str (walk_base typed t0)) (filter kept E))
                  = flat_map (ws typed t0 uat) (filter kept E)).
      { induction E as [|e E IH]; intro Hsub; [reflexivity|]. simpl.
        destruct (kept e) eqn:Ek.
        - simpl. rewrite IH by (intros; apply Hsub; now right). f_equal.
          destruct e as [p n].
          assert (Hin : In (p, n) (walk [] t0)) by (apply Hsub; now left).
          assert (Hf : is_file_entry (p, n) = true).
          { subst kept. unfold WalkProofs.kept in Ek. now apply Bool.andb_true_iff in Ek. }
          rewrite (pps_entry root uat typed cp0 t0 p n Hl Hp Hu Hin Hf).
          subst ws. unfold walked_s. cbn [fst snd]. symmetry. apply kept_same_gen; [exact Ek | now apply Hag].
        - apply IH. intros; apply Hsub; now right. }
      apply G. auto. }
    split; [exact H0|]. split; [exact H1|]. split.
    - rewrite H0, H1. clear H0 H1 Hag Hl Hd Hp Hu. induction (walk [] t0) as [|e E IH]; [reflexivity|]. simpl.
      unfold valids in *. rewrite filter_app. destruct (kept e) eqn:Ek.
      + simpl. rewrite filter_app. now rewrite IH.
      + destruct (ws_dropped typed t0 uat e Ek) as [->|[->| ->]]; simpl; exact IH.
    - intros e _ Hk. now apply ws_dropped.
  Qed.
End StrEquiv.

(* ------------------------------------------------------------ ".." and canonical locations *)
(* the annotation of a pre-resolved link is right: the node at its canonical location IS its target *)
Fixpoint links_ok (root t : tree) {struct t} : Prop :=
  match t with
  | Dir cs => (fix all (l : list (name * tree)) : Prop :=
                 match l with [] => True | nc :: r => links_ok root (snd nc) /\ all r end) cs
  | Link c x => match x with Link _ _ => True | _ => node_at root c = Some x end /\ links_ok root x
  | _ => True
  end.

Lemma all_links_Forall root cs :
  (fix all (l : list (name * tree)) : Prop :=
     match l with [] => True | nc :: r => links_ok root (snd nc) /\ all r end) cs
  <-> Forall (fun nc => links_ok root (snd nc)) cs.
Proof.
  induction cs as [|a cs IH]; simpl.
  - split; intro; [constructor | exact I].
  - split.
    + intros [H1 H2]. constructor; [exact H1 | now apply IH].
    + intro H. inversion H; subst. split; [assumption | now apply IH].
Qed.

Definition is_link (t : tree) : bool := match t with Link _ _ => true | _ => false end.

(* invariant of the resolution: the node is well annotated, and when it is not a link it IS the
   node at its location *)
Definition at_loc (root : tree) (cp : path) (t : tree) : Prop :=
  links_ok root t /\ (is_link t = false -> node_at root cp = Some t).

Lemma at_loc_resolved root t : forall cp cp' t',
  at_loc root cp t -> resolve_at cp t = (cp', t') -> node_at root cp' = Some t' /\ links_ok root t'.
Proof.
  induction t as [ms|cs _|c x IH| |] using tree_ind'; intros cp cp' t' [Hok Hat] E; simpl in E;
    try (inversion E; subst; split; [now apply Hat | exact Hok]).
  simpl in Hok. destruct Hok as [Hx Hok]. apply (IH c cp' t'); [|exact E].
  split; [exact Hok|]. intro Hnl. destruct x; try discriminate; exact Hx.
Qed.

Lemma links_ok_node_at root : forall p t d, links_ok root t -> node_at t p = Some d -> links_ok root d.
Proof.
  induction p as [|n r IH]; intros t d Hok H; simpl in H.
  - inversion H; now subst.
  - destruct t as [ms|cs|c x| |]; try discriminate.
    destruct (find (fun nc => beqb (fst nc) n) cs) as [nc|] eqn:Ef; [|discriminate].
    apply find_some in Ef. destruct Ef as [Hin _]. simpl in Hok. apply all_links_Forall in Hok.
    rewrite Forall_forall in Hok. apply (IH (snd nc) d); [now apply Hok | exact H].
Qed.

Lemma node_at_snoc : forall p t cs n nc,
  node_at t p = Some (Dir cs) -> find (fun nc => beqb (fst nc) n) cs = Some nc ->
  node_at t (p ++ [n]) = Some (snd nc).
Proof.
  induction p as [|m r IH]; intros t cs n nc H Hf; simpl in *.
  - inversion H; subst. now rewrite Hf.
  - destruct t as [ms|ds|c x| |]; try discriminate.
    destruct (find (fun nc0 => beqb (fst nc0) m) ds); [|discriminate]. now apply (IH _ cs).
Qed.

Lemma step_at_loc root cp t c cp2 t2 :
  links_ok root root -> at_loc root cp t -> step root cp t c = Found cp2 t2 -> at_loc root cp2 t2.
Proof.
  intros Hroot Hat Hs. unfold step in Hs. destruct (resolve_at cp t) as [cp' t'] eqn:E.
  destruct (at_loc_resolved root t cp cp' t' Hat E) as [Hn Hok].
  destruct t' as [ms|cs|c0 x| |]; try discriminate.
  destruct (is_junk c).
  - inversion Hs; subst. split; [exact Hok | now intros _].
  - destruct (is_dotdot c).
    + destruct cp' as [|a cp'']; [discriminate|].
      destruct (node_at root (removelast (a :: cp''))) as [[| ds | | |]|] eqn:En; try discriminate.
      inversion Hs; subst. split; [|now intros _]. now apply (links_ok_node_at root _ root _ Hroot En).
    + destruct (find (fun nc => beqb (fst nc) c) cs) as [nc|] eqn:Ef; [|discriminate].
      inversion Hs; subst. split.
      * pose proof (find_some _ _ Ef) as [Hin _]. simpl in Hok. apply all_links_Forall in Hok.
        rewrite Forall_forall in Hok. now apply Hok.
      * intros _. now apply (node_at_snoc cp' root cs c nc).
Qed.

Lemma lookup_comps_at_loc root cs : forall cp t cp2 t2,
  links_ok root root -> at_loc root cp t -> lookup_comps root cp t cs = Found cp2 t2 -> at_loc root cp2 t2.
Proof.
  induction cs as [|c r IH]; intros cp t cp2 t2 Hroot Hat H; simpl in H.
  - inversion H; now subst.
  - destruct (step root cp t c) as [cp1 t1| | |] eqn:Es; try discriminate.
    apply (IH cp1 t1); try assumption. now apply (step_at_loc root cp t c).
Qed.

(* canonicalize is sound: the canonical location of what a path string names is link-free and
   holds exactly the node reached through the links *)
Theorem lookup_canonical_thm : forall root s cp t cp' t',
  links_ok root root -> is_link root = false ->
  lookup_str root s = Found cp t -> resolve_at cp t = (cp', t') ->
  node_at root cp' = Some t'.
Proof.
  intros root s cp t cp' t' Hroot Hnl Hl E.
  destruct (lookup_str_found _ _ _ _ Hl) as (c & h & tl & _ & Hc).
  assert (Hat : at_loc root cp t).
  { apply (lookup_comps_at_loc root ((c :: h) :: tl) [] root cp t Hroot); [|exact Hc]. split; [exact Hroot | reflexivity]. }
  now destruct (at_loc_resolved root t cp cp' t' Hat E).
Qed.

(* "x/n/.." names x again when n is a REAL directory of x ... *)
Theorem dotdot_cancels_real_dir_thm : forall root s cp t cp1 cs n nc ds,
  links_ok root root -> is_link root = false ->
  lookup_str root s = Found cp t -> resolve_at cp t = (cp1, Dir cs) ->
  proper n = true -> find (fun nc => beqb (fst nc) n) cs = Some nc -> snd nc = Dir ds ->
  lookup_str root (s ++ slash :: n ++ slash :: [dot; dot]) = Found cp1 (Dir cs).
Proof.
  intros root s cp t cp1 cs n nc ds Hroot Hnl Hl E Hn Hf Hd.
  pose proof (lookup_canonical_thm root s cp t cp1 (Dir cs) Hroot Hnl Hl E) as Hcan.
  destruct (lookup_str_found _ _ _ _ Hl) as (c & h & tl & Es & Hc).
  assert (Esp : split_slash (s ++ slash :: n ++ slash :: [dot; dot]) = (c :: h) :: (tl ++ [n; [dot; dot]])).
  { rewrite split_app, Es, split_app_name by now apply proper_noslash. reflexivity. }
  rewrite (lookup_str_rel root _ c h _ Esp).
  change ((c :: h) :: tl ++ [n; [dot; dot]]) with (((c :: h) :: tl) ++ [n; [dot; dot]]).
  rewrite lookup_comps_app, Hc. cbn [lookup_comps].
  assert (Hs1 : step root cp t n = Found (cp1 ++ [n]) (Dir ds)).
  { unfold step. rewrite E, (proper_not_junk n Hn), (proper_not_dotdot n Hn), Hf, Hd. reflexivity. }
  rewrite Hs1. unfold step. simpl resolve_at. cbn [is_junk is_empty beqb dot]. 
  assert (Hdd : is_junk [dot; dot] = false) by reflexivity.
  assert (Hdd2 : is_dotdot [dot; dot] = true) by reflexivity.
  rewrite Hdd, Hdd2. destruct (cp1 ++ [n]) eqn:E1; [now destruct cp1|]. rewrite <- E1.
  rewrite removelast_last, Hcan. reflexivity.
Qed.

(* ... and does NOT when n is a symlink to a directory elsewhere: ".." is the parent of the
   link's TARGET, so collapsing "n/.." textually before resolving links is wrong *)
Definition dd_tree : tree :=
  Dir [ ([97], Dir [ ([108], Link [[98]; [100]] (Dir [([113], File [])])) ]);       (* a/l -> b/d *)
        ([98], Dir [ ([100], Dir [([113], File [])]); ([120], File []) ]) ].        (* b/d/q, b/x *)

Theorem dotdot_through_link_refuted_thm :
  links_ok dd_tree dd_tree /\ is_link dd_tree = false
  /\ (exists cs, lookup_str dd_tree [97] = Found [[97]] (Dir cs)
                 /\ lookup_str dd_tree [97; 47; 108; 47; 46; 46] <> Found [[97]] (Dir cs))      (* "a/l/.." is not "a" *)
  /\ (exists f, lookup_str dd_tree [97; 47; 108; 47; 46; 46; 47; 120] = Found [[98]; [120]] f)   (* "a/l/../x" is b/x *)
  /\ lookup_str dd_tree [97; 47; 120] = NoEnt.                                                    (* "a/x" does not exist *)
Proof.
  split; [simpl; repeat split|]. split; [reflexivity|]. split; [|split].
  - eexists. split; [vm_compute; reflexivity|]. vm_compute. discriminate.
  - eexists. vm_compute. reflexivity.
  - vm_compute. reflexivity.
Qed.

(* ------------------------------------------------------------ satisfiable hypotheses *)
(* top/{a.log, .h.log, sub/{s.log}, ld -> pool/d, odd.log -> pool/data.log.gz}, pool/{d/{p.log}, data.log.gz} *)
Definition lk_tree : tree :=
  Dir [ ([116; 111; 112],
         Dir [ ([97; 46; 108; 111; 103], File []);
               ([46; 104; 46; 108; 111; 103], File []);
               ([115; 117; 98], Dir [([115; 46; 108; 111; 103], File [])]);
               ([108; 100], Link [[112]; [100]] (Dir [([112; 46; 108; 111; 103], File [])])) ]);
        ([112], Dir [ ([100], Dir [([112; 46; 108; 111; 103], File [])]) ]) ].

Example lookup_example :
  links_ok lk_tree lk_tree /\ names_proper lk_tree /\ names_unique lk_tree
  /\ (exists t0, lookup_str lk_tree [116; 111; 112; 47; 47] = Found [[116; 111; 112]] t0        (* "top//" *)
       /\ map (entry_str (walk_base [116; 111; 112; 47; 47] t0)) (walk [] t0)
          = [ [116; 111; 112; 47; 47; 97; 46; 108; 111; 103];                      (* top//a.log *)
              [116; 111; 112; 47; 108; 100];                                        (* top/ld : a symlink entry *)
              [116; 111; 112; 47; 47; 108; 100; 47; 112; 46; 108; 111; 103];        (* top//ld/p.log *)
              [116; 111; 112; 47; 47; 115; 117; 98];                                (* top//sub *)
              [116; 111; 112; 47; 47; 115; 117; 98; 47; 115; 46; 108; 111; 103] ])  (* top//sub/s.log *)
  /\ (exists t0 cs, lookup_str lk_tree [46; 47; 116; 111; 112; 47; 46; 47; 108; 100] = Found [[116; 111; 112]; [108; 100]] t0   (* "./top/./ld" *)
       /\ resolve t0 = Dir cs
       /\ walk_base [46; 47; 116; 111; 112; 47; 46; 47; 108; 100] t0 = [46; 47; 116; 111; 112; 47; 108; 100]).  (* "./top/ld" *)
Proof.
  split; [simpl; repeat split|].
  split; [simpl; repeat split|].
  split; [simpl; repeat split; repeat constructor; simpl; intuition discriminate|].
  split.
  - eexists. split; vm_compute; reflexivity.
  - eexists. eexists. split; [vm_compute; reflexivity|]. split; vm_compute; reflexivity.
Qed.
