(* Proofs/CachesFwdRunProofs.v — streamed containers with the look-behind drop ENABLED: the stage driver.

   Part R1  drop_data_try(p) keeps SFW when the horizon is the begin of p: every line it drops ends before p in a
            block at least two below the decoder (c_drop_data_try_fw)
   Part R2  the linear window search and the stage driver over the cached + streamed machine: every find_sysline
            call is at 0, at the begin of a message, or at the end of the file, within the frontier: the driver
            emits exactly `win_scan A B (syslines dated f)` - the messages a forward scan selects: skip while
            before A, stop at the first one after B (= `window A B` of a chronological file), for every block
            size, file, oracle and drop plan (c_stream_win_fw)
   Part R3  block-zero analysis first: the generic gate theorem of CachesGateProofs instantiated with the forward
            invariant; the theorems of Props/C02.v *)
From S4.Base Require Import Bytes Chunk.
From S4.Spec Require Import LinesSpec WindowSpec.
From S4.Model Require Import Lines Syslines Caches.
From S4.Proofs Require Import LinesProofs SyslinesProofs CachesProofs CachesSysProofs CachesRunProofs
  CachesGateProofs CachesExamples CachesStreamProofs CachesFwdProofs CachesFwdSysProofs.
Open Scope N_scope.

(* what a forward scan with the window selects: messages before A are skipped, the first message after B ends it *)
Fixpoint win_scan (fa fb : option Z) (l : list group) : list group :=
  match l with
  | [] => []
  | g :: r => if dt_before fa (fst g) then win_scan fa fb r
              else if dt_after fb (fst g) then [] else g :: win_scan fa fb r
  end.

Fixpoint skip_before (fa : option Z) (l : list group) : list group :=
  match l with
  | [] => []
  | g :: r => if dt_before fa (fst g) then skip_before fa r else g :: r
  end.

Lemma win_scan_skip fa fb l :
  win_scan fa fb l = match skip_before fa l with
                     | [] => []
                     | g :: r => if dt_after fb (fst g) then [] else g :: win_scan fa fb r
                     end.
Proof.
  induction l as [|g r IH]; cbn; [reflexivity|]. destruct (dt_before fa (fst g)) eqn:B; [exact IH|reflexivity].
Qed.

Lemma skip_before_len fa l : (length (skip_before fa l) <= length l)%nat.
Proof. induction l as [|g r IH]; cbn; [lia|]. destruct (dt_before fa (fst g)); cbn; lia. Qed.

Lemma win_scan_none l : win_scan None None l = l.
Proof. induction l as [|g r IH]; cbn; [reflexivity|]. rewrite IH. reflexivity. Qed.

(* on a chronological file the scan selects exactly the window *)
Lemma window_after_nil fa b (g : group) r : nondecreasing (@fst Z (list (list N))) (g :: r) = true -> (b < fst g)%Z ->
  filter (fun m : group => in_window fa (Some b) (fst m)) r = [].
Proof.
  revert g; induction r as [|y r IH]; intros g ND H; [reflexivity|].
  cbn in ND. apply andb_true_iff in ND as [X ND2]. apply Z.leb_le in X. cbn [filter].
  unfold in_window at 1, leq_hi. destruct (Z.leb_spec (fst y) b); [lia|]. rewrite andb_false_r. apply (IH y ND2). lia.
Qed.

Lemma win_scan_window fa fb (l : list group) : nondecreasing (@fst Z (list (list N))) l = true ->
  win_scan fa fb l = window (@fst Z (list (list N))) fa fb l.
Proof.
  induction l as [|g r IH]; intro ND; [reflexivity|].
  assert (ND' : nondecreasing (@fst Z (list (list N))) r = true).
  { cbn in ND. destruct r as [|y r']; [reflexivity|]. apply andb_true_iff in ND as [_ X]. exact X. }
  specialize (IH ND'). unfold window in *. cbn [win_scan filter]. unfold in_window at 1.
  assert (B1 : dt_before fa (fst g) = negb (geq_lo fa (fst g))).
  { destruct fa as [a|]; cbn; [|reflexivity]. destruct (Z.ltb_spec (fst g) a); destruct (Z.leb_spec a (fst g)); try lia; reflexivity. }
  assert (B2 : dt_after fb (fst g) = negb (leq_hi fb (fst g))).
  { destruct fb as [b|]; cbn; [|reflexivity]. destruct (Z.ltb_spec b (fst g)); destruct (Z.leb_spec (fst g) b); try lia; reflexivity. }
  rewrite B1, B2. destruct (geq_lo fa (fst g)); cbn [negb andb]; [|exact IH].
  destruct (leq_hi fb (fst g)) eqn:LH; cbn [negb]; [rewrite IH; reflexivity|].
  destruct fb as [b|]; [|discriminate]. cbn in LH. apply Z.leb_gt in LH. symmetry. apply (window_after_nil fa b g r ND LH).
Qed.

Section FwdRun.
  Variable dated : list N -> option Z.
  Variable bs : N.
  Variable f : file.
  Hypothesis Hbs : 0 < bs.

  (* the block discipline of the container (CachesFwdProofs) *)
  Variable RD : bstate -> N -> Prop.
  Variable DN : bstate -> N -> Prop.
  Hypothesis RD_mono : forall b k k', RD b k -> k <= k' -> RD b k'.
  Hypothesis RD_read : forall refd b k j, RD b k -> k <= j -> j <= blast bs f -> 0 < lenN f ->
    exists b', b_read_block refd (lenN f) (blast bs f) b j = (b', BFound) /\ RD b' j /\ DN b' j /\
               (forall i, DN b i -> DN b' i).
  Hypothesis RD_drop : forall refd b k j bo, RD b k -> DN b j -> j <= k -> bo + 2 <= j ->
    RD (b_drop_block refd b bo) k /\ (forall i, DN b i -> DN (b_drop_block refd b bo) i).

  Local Notation lr_inv0 := (lr_inv0 bs f).
  Local Notation sr_inv0 := (@sr_inv dated bs f lr_inv0).
  Local Notation rinv0 := (@rinv dated bs f lr_inv0).
  Local Notation FWD := (FWD bs f RD DN).
  Local Notation SFW := (SFW dated bs f RD DN).
  Local Notation cursor := (cursor f).
  Local Notation scursor := (scursor dated f).
  Local Notation next_stored := (next_stored bs f).
  Local Notation sline_ok := (sline_ok bs f).
  Local Notation is_group := (is_group dated f).
  Local Notation ssl_ok := (ssl_ok bs f).
  Local Notation consec := (consec bs f).
  Local Notation blk := (blk bs).
  Local Notation glist_ok := (glist_ok dated f).
  Local Notation sobs := (sobs bs f).

  Lemma lr_inv0_drop : forall l e s x, lr_inv0 l -> lr_inv0 (lr_drop_line bs (lr_set_ext e l) s x).
  Proof. intros l e s x I. apply lr_drop_line_inv0. eapply lr_inv0_maps; [| | |exact I]; reflexivity. Qed.

  (* ================================================================ Part R1: drops *)

  Lemma consec_le lns b e1 : consec lns b e1 -> b <= e1.
  Proof. intro C. destruct (consec_len bs f Hbs _ _ _ C) as [[E _]|[_ E]]; lia. Qed.

  Lemma consec_all lns : forall b0 e1, consec lns b0 e1 ->
    forall l, In l lns -> exists b e, sline_ok l b e /\ b0 <= b /\ e + 1 <= e1.
  Proof.
    induction lns as [|a lns IH]; intros b0 e1 C l IN; [contradiction|].
    destruct C as (e & OK & C). destruct IN as [<-|IN].
    - exists b0, e. split; [exact OK|]. split; [lia|]. apply (consec_le _ _ _ C).
    - destruct (IH _ _ C l IN) as (b & e' & OK' & B1 & B2). exists b, e'. split; [exact OK'|]. split; [|exact B2].
      destruct OK as [(? & _) _]. lia.
  Qed.

  (* the inner LineReader during a drop_data call: l0 is the reader before the call *)
  Definition DP (l0 : lr_state * N) (l : lr_state) (d g : N) : Prop :=
    FWD l d g /\ lru_stored l /\ DN (l_blk l) (snd l0) /\ snd l0 <= blk g /\
    (forall y, d <= y -> stored_at (fst l0) y -> stored_at l y) /\ (forall y, stored_at l y -> stored_at (fst l0) y).
  (* a line that may be dropped: it ends below the horizon, in a block at least two below the block jp = snd l0
     that was reached *)
  Definition KL (l0 : lr_state * N) (d : N) (s : sline) : Prop :=
    exists b e, sline_ok s b e /\ e < d /\ blk e + 2 <= snd l0.

  Lemma DP_drop l0 l d g ex s extra : DP l0 l d g -> KL l0 d s -> DP l0 (lr_drop_line bs (lr_set_ext ex l) s extra) d g.
  Proof.
    intros (FW & LS & DJ & JG & M1 & M2) (b & e & OK & ED & BD).
    destruct (lr_drop_line_fw bs f Hbs RD DN RD_drop l ex s extra b e d g (snd l0) FW LS OK ED DJ JG BD) as (A1 & A2 & A3 & A4 & A5).
    split; [exact A1|]. split; [exact A2|]. split; [apply A5; exact DJ|]. split; [exact JG|].
    split; [intros y Y1 Y2; apply A3; auto|auto].
  Qed.

  Lemma drop_lines_DP l0 d g lns : forall st, DP l0 (s_lr st) d g -> Forall (KL l0 d) lns ->
    let st' := fold_left (fun st l => sr_set_lr (lr_drop_line bs (lr_set_ext (sr_held st []) (s_lr st)) l (line_refs st (sl_id l))) st) lns st in
    DP l0 (s_lr st') d g /\ s_lru st' = s_lru st.
  Proof.
    induction lns as [|l lns IH]; intros st P K; cbn [fold_left]; [auto|].
    inversion K as [|? ? K1 K2]; subst.
    set (st1 := sr_set_lr _ st).
    assert (P1 : DP l0 (s_lr st1) d g) by (subst st1; cbn [s_lr sr_set_lr]; apply DP_drop; assumption).
    destruct (IH st1 P1 K2) as (A & B). cbv zeta in *. split; [exact A|]. rewrite B. reflexivity.
  Qed.

  Lemma c_drop_sysline_DP l0 d g st fo : DP l0 (s_lr st) d g ->
    (forall s, alookup fo (s_syslines st) = Some s -> Forall (KL l0 d) (ss_lines s)) ->
    DP l0 (s_lr (c_drop_sysline bs st fo)) d g /\
    (forall k x, alookup k (s_lru (c_drop_sysline bs st fo)) = Some x -> alookup k (s_lru st) = Some x).
  Proof.
    intros P K. unfold c_drop_sysline.
    destruct (alookup fo (s_syslines st)) as [s|] eqn:LK; [|auto].
    set (lru := match ss_begin bs s with Some b => lru_pop b (s_lru st) | None => s_lru st end).
    set (st1 := mkSR (s_lr st) (aremove fo (s_syslines st)) (s_range st) lru (s_on st) (s_parse st) (s_parse_on st) (s_nid st) (s_cnt st)).
    assert (SUB : forall k x, alookup k lru = Some x -> alookup k (s_lru st) = Some x).
    { intros k x X. subst lru. destruct (ss_begin bs s); [apply lru_pop_lookup in X|]; exact X. }
    destruct (existsb _ (live_ssl st1)).
    - split; [exact P|exact SUB].
    - destruct (drop_lines_DP l0 d g (ss_lines s) (sr_cnt d_drop_ok st1) P (K s eq_refl)) as (A & B).
      cbv zeta in A, B. split; [exact A|]. rewrite B. exact SUB.
  Qed.

  Lemma drop_fold_DP l0 d g keys : forall st, sr_inv0 st -> DP l0 (s_lr st) d g ->
    (forall k s, In k keys -> alookup k (s_syslines st) = Some s -> Forall (KL l0 d) (ss_lines s)) ->
    DP l0 (s_lr (fold_left (c_drop_sysline bs) keys st)) d g /\
    (forall k x, alookup k (s_lru (fold_left (c_drop_sysline bs) keys st)) = Some x -> alookup k (s_lru st) = Some x).
  Proof.
    induction keys as [|k0 keys IH]; intros st I P K; cbn [fold_left]; [auto|].
    destruct (c_drop_sysline_DP l0 d g st k0 P (fun s => K k0 s (or_introl eq_refl))) as (P1 & SUB1).
    pose proof (c_drop_sysline_inv dated bs f lr_inv0_drop st k0 I) as I1.
    assert (K1 : forall k s, In k keys -> alookup k (s_syslines (c_drop_sysline bs st k0)) = Some s -> Forall (KL l0 d) (ss_lines s)).
    { intros k s IN X. apply (K k s (or_intror IN)).
      destruct (c_drop_sysline_ok dated bs f lr_inv0_drop st k0 I) as [[_ E]|[_ [E _]]]; cbv zeta in E; rewrite E in X;
        [eapply alookup_aremove_Some; eauto|exact X]. }
    destruct (IH _ I1 P1 K1) as (A & B). split; [exact A|]. intros k x X. apply SUB1. apply B. exact X.
  Qed.

  (* the block of an offset below another one *)
  Lemma blk_lt_lt x y : blk x < blk y -> x < y.
  Proof. intro L. destruct (N.lt_ge_cases x y) as [C|C]; [exact C|]. pose proof (blk_mono bs Hbs y x C). lia. Qed.

  (* SyslogProcessor::drop_data_try(p), the horizon being the begin of p *)
  Theorem c_drop_data_try_fw S p pb pg g : SFW S pb g -> ssl_ok p pb pg -> is_group pb pg ->
    SFW (c_drop_data_try bs S p) pb g.
  Proof.
    intros W OK G. pose proof W as ((I & AS) & LS & FW & DG & (N1 & N2)).
    destruct (is_group_pos dated f _ _ G) as (P & _).
    destruct (drop_try_ok dated bs f Hbs lr_inv0_drop S pb p pb pg (conj I AS) OK G (N.le_refl _)) as (RI & DG').
    specialize (DG' DG).
    destruct (ssl_bo bs f Hbs _ _ _ OK P) as (BF & _). revert RI DG'. unfold c_drop_data_try. rewrite BF.
    destruct (N.ltb_spec 1 (pb / bs)) as [C|C]; [|intros; exact W]. intros RI DG'.
    pose proof FW as (I0 & RDl & F3 & F4 & F5 & F6 & F7 & F8 & F9).
    assert (PBG : pb < g).
    { destruct F7 as [Z|Q]; [exfalso|exact Q]. assert (pb = 0) by lia. subst pb. rewrite N.div_0_l in C by lia. lia. }
    assert (STP : stored_at (s_lr S) pb) by (apply F8; [lia|exact PBG|exact F5]).
    destruct (F9 pb STP) as (_ & BP). change (pb / bs) with (blk pb) in *.
    unfold c_drop_data in *.
    set (keys := map fst (filter _ (s_syslines S))) in *.
    assert (K : forall k s, In k keys -> alookup k (s_syslines S) = Some s -> Forall (KL (s_lr S, blk pb) pb) (ss_lines s)).
    { intros k s IN LK. subst keys. apply in_map_iff in IN as ([k' s'] & <- & IN). apply filter_In in IN as [IN PF].
      cbn [fst snd] in *. pose proof (asc_In_alookup _ _ _ AS IN) as L3. rewrite LK in L3. inversion L3; subst s'.
      destruct (si_sys _ _ _ _ I _ _ LK) as (gk & Gk & OKk).
      destruct (is_group_pos dated f _ _ Gk) as (Pk & _).
      destruct (ssl_bo bs f Hbs _ _ _ OKk Pk) as (_ & BL). rewrite BL in PF. apply N.leb_le in PF.
      change ((k' + glen gk - 1) / bs) with (blk (k' + glen gk - 1)) in PF.
      destruct OKk as (_ & _ & CC & _).
      apply Forall_forall. intros l INl. destruct (consec_all _ _ _ CC l INl) as (b & e & OKl & B1 & B2).
      exists b, e. split; [exact OKl|].
      pose proof (blk_mono bs Hbs e (k' + glen gk - 1) ltac:(lia)) as M.
      split; [apply blk_lt_lt; lia|cbn [snd]; lia]. }
    assert (P0 : DP (s_lr S, blk pb) (s_lr S) pb g).
    { split; [exact FW|]. split; [exact LS|]. split; [exact BP|]. split; [apply (blk_mono bs Hbs); lia|]. split; auto. }
    destruct (drop_fold_DP (s_lr S, blk pb) pb g keys S I P0 K) as ((FW' & LS' & _ & _ & M1 & M2) & SUB).
    destruct (c_drop_data_ok dated bs f lr_inv0_drop S (blk pb - 2) I AS) as (_ & _ & _ & D & _). cbv zeta in D.
    unfold c_drop_data in D. fold keys in D.
    split; [exact RI|]. split; [exact LS'|]. split; [exact FW'|]. split; [exact DG'|]. split.
    - intros k s e A B Cc. destruct (N1 k s e (D _ _ A) B Cc) as [Q|Q]; [left; exact Q|right; apply M1; [lia|exact Q]].
    - intros k n s A Cc. destruct (N2 k n s (SUB _ _ A) Cc) as [Q|Q]; [left; exact Q|right; apply M1; [lia|exact Q]].
  Qed.

  (* moving the horizon up to a line begin below the frontier *)
  Lemma SFW_raise S d g d' : SFW S d g -> d <= d' -> d' < g -> line_beg f d' = d' -> SFW S d' g.
  Proof.
    intros (RI & LS & FW & DG & (N1 & N2)) L1 L2 LB.
    destruct FW as (I0 & RDl & F3 & F4 & F5 & F6 & F7 & F8 & F9).
    split; [exact RI|]. split; [exact LS|]. split.
    - split; [exact I0|]. split; [exact RDl|]. split; [lia|]. split; [exact F4|]. split; [exact LB|]. split; [exact F6|].
      split; [right; exact L2|]. split; [intros x X1 X2 X3; apply F8; [lia|exact X2|exact X3]|exact F9].
    - split; [eapply dangling_mono; eauto|]. split.
      + intros k s e A B C. apply (N1 k s e A B). lia.
      + intros k n s A C. apply (N2 k n s A). lia.
  Qed.

  (* ================================================================ Part R2: the window search and the driver *)

  Variable fa fb : option Z.

  (* the remaining messages gs begin at o; the call at fo is answered with the first of them *)
  Definition spec_here (fo o : N) (gs : list group) : Prop :=
    match gs with
    | [] => spec_find_sysline dated f fo = None
    | g :: _ => spec_find_sysline dated f fo = Some (o + glen g, o, g)
    end.

  Lemma spec_here_at o gs : glist_ok o gs -> spec_here o o gs.
  Proof.
    intro GL. destruct gs as [|g gs]; cbn.
    - unfold spec_find_sysline, syslines_at. apply pick_group_none. destruct GL as [_ T].
      pose proof (proj2 (glist_all dated f)). unfold total in *. cbn in T. lia.
    - destruct (glist_cons dated bs f Hbs _ _ _ GL) as (G & P & _). apply (spec_at_group dated f _ _ o G); lia.
  Qed.

  Lemma group_scursor S d g n gs : SFW S d g -> glist_ok n gs -> d <= n -> (n = lenN f \/ stored_at (s_lr S) n) ->
    scursor d g n.
  Proof.
    intros W GL DNq ST. pose proof W as (_ & _ & FW & _). pose proof FW as (_ & _ & _ & F4 & _ & _ & _ & _ & F9).
    destruct gs as [|g2 gs].
    - assert (n = lenN f). { destruct GL as [_ T]. unfold total in T. cbn in T. lia. }
      split; [right; assumption|right; left; lia].
    - destruct (glist_cons dated bs f Hbs _ _ _ GL) as (G & P & _).
      destruct (syslines_at_fact dated f _ _ G) as ((l & rest & SG & DL & PL & LT & LB & LE & SL) & _).
      destruct ST as [E|ST]; [lia|]. destruct (F9 n ST) as (NG & _).
      split; [left; split; [exact DNq|]; split; [lia|right; exact LB]|].
      right. right. rewrite LE. replace (n + lenN l - 1 + 1) with (n + lenN l) by lia. rewrite SL. congruence.
  Qed.

  Lemma c_linear_fw fuel : forall S fo o gs d g S' r,
    SFW S d g -> scursor d g fo -> glist_ok o gs -> spec_here fo o gs -> d <= o -> (length gs < fuel)%nat ->
    c_linear dated fuel bs f fa S fo = (S', r) ->
    exists g', g <= g' /\ SFW S' d g' /\
      match skip_before fa gs with
      | [] => r = Done
      | gk :: rest => exists ok s, r = Found (ok + glen gk, s) /\ ssl_ok s ok gk /\ is_group ok gk /\
                       glist_ok ok (gk :: rest) /\ o <= ok /\ dt_before fa (fst gk) = false /\
                       (ok + glen gk = lenN f \/ stored_at (s_lr S') (ok + glen gk))
      end.
  Proof.
    induction fuel as [|k IH]; intros S fo o gs d g S' r W SC GL SP DO FU; [lia|]. cbn [c_linear].
    destruct (c_find_sysline dated bs f S fo) as [[S1 r1] p1] eqn:CF.
    destruct (c_find_sysline_fw dated bs f Hbs RD DN RD_mono RD_read _ _ _ _ _ _ _ W SC CF) as (NP & R1 & _ & g1 & G1 & W1 & NX1).
    destruct gs as [|gg gs]; cbn [spec_here skip_before] in *.
    - destruct r1 as [[n s]| | |]; cbn in R1.
      + destruct R1 as (? & ? & _ & _ & X). rewrite SP in X. discriminate.
      + intro H; injection H as <- <-. exists g1. auto.
      + contradiction.
      + congruence.
    - destruct (glist_cons dated bs f Hbs _ _ _ GL) as (G & P & GL' & LAST).
      destruct r1 as [[n s]| | |]; cbn in R1; [|rewrite SP in R1; discriminate|contradiction|congruence].
      destruct R1 as (b' & g' & G' & OK & SP'). rewrite SP in SP'. inversion SP'; subst n b' g'.
      assert (DT : ss_dt s = fst gg) by (destruct OK as (Q & _); exact Q).
      rewrite DT. destruct (dt_before fa (fst gg)) eqn:BF.
      + intro H.
        assert (SC1 : scursor d g1 (o + glen gg)) by (apply (group_scursor S1 d g1 _ gs W1 GL'); [lia|apply (NX1 _ _ eq_refl)]).
        destruct (IH _ _ _ _ _ _ _ _ W1 SC1 GL' (spec_here_at _ _ GL') ltac:(lia) ltac:(cbn in FU; lia) H) as (g2 & G2 & W2 & R2).
        exists g2. split; [lia|]. split; [exact W2|].
        destruct (skip_before fa gs) as [|gk rest]; [exact R2|].
        destruct R2 as (ok & s2 & A1 & A2 & A3 & A4 & A5 & A6 & A7). exists ok, s2. split; [exact A1|]. split; [exact A2|]. split; [exact A3|]. split; [exact A4|]. split; [lia|]. split; [exact A6|exact A7].
      + intro H; injection H as <- <-. exists g1. split; [exact G1|]. split; [exact W1|].
        exists o, s. split; [reflexivity|]. split; [exact OK|]. split; [exact G|]. split; [exact GL|]. split; [lia|].
        split; [exact BF|apply (NX1 _ _ eq_refl)].
  Qed.

  Lemma groups_len : (length (syslines dated f) <= length f)%nat.
  Proof.
    unfold syslines. pose proof (wf_lines_len _ (lines_wf f)) as X. rewrite lines_concat in X.
    assert (forall ls, (length (snd (groups dated ls)) <= length ls)%nat).
    { induction ls as [|l ls IHl]; [cbn; lia|]. rewrite groups_cons. destruct (dated l); cbn [snd length]; lia. }
    specialize (H (lines f)). lia.
  Qed.

  (* the groups still to come are a suffix of all groups: never more than |f| of them *)
  Definition short (gs : list group) : Prop := (length gs <= length f)%nat.

  Lemma c_find_between_fw S fo o gs d g S' r :
    SFW S d g -> scursor d g fo -> glist_ok o gs -> spec_here fo o gs -> d <= o -> short gs ->
    c_find_between dated bs f fa fb S fo = (S', r) ->
    exists g', g <= g' /\ SFW S' d g' /\
      match skip_before fa gs with
      | [] => r = Done
      | gk :: rest =>
          if dt_after fb (fst gk) then r = Done
          else exists ok s, r = Found (ok + glen gk, s) /\ ssl_ok s ok gk /\ is_group ok gk /\
                 glist_ok ok (gk :: rest) /\ o <= ok /\
                 (ok + glen gk = lenN f \/ stored_at (s_lr S') (ok + glen gk))
      end.
  Proof.
    intros W SC GL SP DO SH. unfold c_find_between.
    destruct (c_linear dated (Datatypes.S (length f)) bs f fa S fo) as [S1 r1] eqn:CL.
    assert (FU : (length gs < Datatypes.S (length f))%nat) by (unfold short in SH; lia).
    destruct (c_linear_fw (Datatypes.S (length f)) _ _ _ _ _ _ _ _ W SC GL SP DO FU CL) as (g1 & G1 & W1 & R1).
    destruct (skip_before fa gs) as [|gk rest].
    - subst r1. intro H; injection H as <- <-. exists g1. auto.
    - destruct R1 as (ok & s & -> & OK & G & GL1 & OO & BF & NX).
      assert (DT : ss_dt s = fst gk) by (destruct OK as (Q & _); exact Q).
      rewrite DT, BF. destruct (dt_after fb (fst gk)); intro H; injection H as <- <-; exists g1; split; [exact G1| |exact G1|];
        (split; [exact W1|]); [reflexivity|]. exists ok, s. auto 10.
  Qed.

  Definition prev_fw (prev : option ssl) (d o : N) : Prop :=
    match prev with
    | Some p => exists pb pg, ssl_ok p pb pg /\ is_group pb pg /\ d <= pb /\ pb < o
    | None => True
    end.

  Lemma short_tail g gs : short (g :: gs) -> short gs.
  Proof. unfold short. cbn. lia. Qed.
  Lemma short_skip gs gk rest : short gs -> skip_before fa gs = gk :: rest -> short rest.
  Proof. unfold short. intros S E. pose proof (skip_before_len fa gs) as L. rewrite E in L. cbn in L. lia. Qed.

  Lemma c_stream_win_loop_fw fuel : forall S o gs plan i prev acc d g S' r,
    SFW S d g -> scursor d g o -> glist_ok o gs -> d <= o -> short gs -> (length gs < fuel)%nat -> prev_fw prev d o ->
    c_stream_win_loop dated fuel bs f fa fb plan i S o prev acc = (S', r) ->
    exists sls, r = Found (acc ++ sls) /\ map sobs sls = win_scan fa fb gs.
  Proof.
    induction fuel as [|k IH]; intros S o gs plan i prev acc d g S' r W SC GL DO SH FU PV; [lia|].
    cbn [c_stream_win_loop].
    destruct (c_find_between dated bs f fa fb S o) as [S1 r1] eqn:CF.
    destruct (c_find_between_fw _ _ _ _ _ _ _ _ W SC GL (spec_here_at _ _ GL) DO SH CF) as (g1 & G1 & W1 & R1).
    rewrite (win_scan_skip fa fb gs).
    pose proof (skip_before_len fa gs) as SKL.
    destruct (skip_before fa gs) as [|gk rest] eqn:SK.
    - subst r1. intro H; injection H as <- <-. exists []. rewrite app_nil_r. auto.
    - destruct (dt_after fb (fst gk)).
      + subst r1. intro H; injection H as <- <-. exists []. rewrite app_nil_r. auto.
      + destruct R1 as (ok & s & -> & OK & G & GL1 & OO & NX).
        destruct (glist_cons dated bs f Hbs _ _ _ GL1) as (_ & P & GL' & LAST).
        destruct (is_group_pos dated f _ _ G) as (_ & LE & _).
        rewrite (last_test bs f Hbs _ _ _ OK P LE).
        destruct (N.eqb_spec (ok + glen gk) (lenN f)) as [E|E].
        * (* the last message of the file *)
          intro H; injection H as <- <-. exists [s]. split; [reflexivity|]. cbn.
          rewrite (sobs_ok bs f _ _ _ OK). apply LAST in E. subst rest. reflexivity.
        * assert (STN : stored_at (s_lr S1) (ok + glen gk)) by (destruct NX; [contradiction|assumption]).
          pose proof W1 as (_ & _ & FW1 & _). pose proof FW1 as (_ & _ & _ & _ & _ & _ & _ & _ & F9).
          destruct (F9 _ STN) as (NG & _).
          destruct (syslines_at_fact dated f _ _ G) as ((_ & _ & _ & _ & _ & _ & LBok & _) & _).
          assert (SHR : short rest) by (eapply short_skip; eauto).
          assert (FUR : (length rest < k)%nat) by (cbn in SKL; lia).
          assert (FIN : forall S2 d2 i2 pv2,
                    c_stream_win_loop dated k bs f fa fb plan i2 S2 (ok + glen gk) pv2 (acc ++ [s]) = (S', r) ->
                    pv2 = Some s -> SFW S2 d2 g1 -> d2 <= ok -> stored_at (s_lr S2) (ok + glen gk) ->
                    exists sls, r = Found (acc ++ sls) /\ map sobs sls = gk :: win_scan fa fb rest).
          { intros S2 d2 i2 pv2 H -> W2 D2 ST2.
            assert (SC2 : scursor d2 g1 (ok + glen gk)) by (apply (group_scursor S2 d2 g1 _ rest W2 GL'); [lia|right; exact ST2]).
            assert (PV2 : prev_fw (Some s) d2 (ok + glen gk)) by (exists ok, gk; split; [exact OK|]; split; [exact G|]; lia).
            destruct (IH _ _ _ _ _ _ _ _ _ _ _ W2 SC2 GL' ltac:(lia) SHR FUR PV2 H) as (sls & -> & M).
            exists (s :: sls). rewrite <- app_assoc. split; [reflexivity|]. cbn. rewrite (sobs_ok bs f _ _ _ OK), M. reflexivity. }
          destruct prev as [pv|].
          -- destruct PV as (pb & pg & POK & PG & PD & PL).
             destruct (plan_at plan i).
             ++ (* drop_data_try(the message before): the horizon moves to its begin *)
                destruct (syslines_at_fact dated f _ _ PG) as ((_ & _ & _ & _ & _ & _ & LBp & _) & _).
                assert (WR : SFW S1 pb g1) by (apply (SFW_raise S1 d g1 pb W1 PD ltac:(lia) LBp)).
                pose proof (c_drop_data_try_fw S1 pv pb pg g1 WR POK PG) as W2.
                intro H. apply (FIN _ pb _ _ H eq_refl W2 ltac:(lia)).
                pose proof W2 as (_ & _ & FW2 & _). destruct FW2 as (_ & _ & _ & _ & _ & _ & _ & F8 & _).
                apply F8; [lia|exact NG|].
                destruct rest as [|g2 rest']; [exfalso; apply E; apply LAST; reflexivity|].
                destruct (glist_cons dated bs f Hbs _ _ _ GL') as (G2 & _).
                destruct (syslines_at_fact dated f _ _ G2) as ((_ & _ & _ & _ & _ & _ & LB2 & _) & _). exact LB2.
             ++ intro H. apply (FIN _ d _ _ H eq_refl W1 ltac:(lia) STN).
          -- intro H. apply (FIN _ d _ _ H eq_refl W1 ltac:(lia) STN).
  Qed.

  (* exec_syslogprocessor, stages 2 and 3 with the window, on a streamed reader in the forward state *)
  Theorem c_stream_win_fw S plan g S' r : SFW S 0 g ->
    c_stream_win dated bs f fa fb plan S = (S', r) ->
    obs_stream bs f (rmap r) = Some (win_scan fa fb (syslines dated f)).
  Proof.
    intros W. unfold c_stream_win.
    destruct (c_find_between dated bs f fa fb S 0) as [S1 r1] eqn:CF.
    pose proof (glist_all dated f) as GL. pose proof groups_len as GLEN.
    assert (SC0 : scursor 0 g 0).
    { split; [left; split; [lia|]; split; [lia|right; apply (first_line_beg bs f Hbs); reflexivity]|left; reflexivity]. }
    assert (SP0 : spec_here 0 (first_dated_offset dated f) (syslines dated f)).
    { destruct (syslines dated f) as [|gg gs] eqn:SY; cbn.
      - unfold spec_find_sysline, syslines_at. rewrite SY. reflexivity.
      - destruct (glist_cons dated bs f Hbs _ _ _ GL) as (G & P & _).
        unfold spec_find_sysline, syslines_at. rewrite SY. apply pick_group_first. unfold glen in P. lia. }
    destruct (c_find_between_fw _ _ _ _ _ _ _ _ W SC0 GL SP0 (N.le_0_l _) GLEN CF) as (g1 & G1 & W1 & R1).
    rewrite (win_scan_skip fa fb (syslines dated f)).
    pose proof (skip_before_len fa (syslines dated f)) as SKL.
    destruct (skip_before fa (syslines dated f)) as [|gk rest] eqn:SK.
    - subst r1. intro H; injection H as <- <-. reflexivity.
    - destruct (dt_after fb (fst gk)).
      + subst r1. intro H; injection H as <- <-. reflexivity.
      + destruct R1 as (ok & s & -> & OK & G & GL1 & OO & NX).
        destruct (glist_cons dated bs f Hbs _ _ _ GL1) as (_ & P & GL' & LAST).
        destruct (is_group_pos dated f _ _ G) as (_ & LE & _).
        rewrite (last_test bs f Hbs _ _ _ OK P LE).
        destruct (N.eqb_spec (ok + glen gk) (lenN f)) as [E|E].
        * intro H; injection H as <- <-. rewrite obs_rmap. cbn [map].
          rewrite (sobs_ok bs f _ _ _ OK). apply LAST in E. subst rest. reflexivity.
        * assert (STN : stored_at (s_lr S1) (ok + glen gk)) by (destruct NX; [contradiction|assumption]).
          assert (SC2 : scursor 0 g1 (ok + glen gk)) by (apply (group_scursor S1 0 g1 _ rest W1 GL'); [lia|right; exact STN]).
          assert (SHR : short rest) by (eapply short_skip; [exact GLEN|exact SK]).
          assert (FUR : (length rest < Datatypes.S (length f))%nat) by (cbn in SKL; unfold short in SHR; lia).
          intro H.
          destruct (c_stream_win_loop_fw _ _ _ _ _ _ None _ _ _ _ _ W1 SC2 GL' (N.le_0_l _) SHR FUR Logic.I H) as (sls & -> & M).
          rewrite obs_rmap. cbn [app map]. rewrite (sobs_ok bs f _ _ _ OK), M. reflexivity.
  Qed.
End FwdRun.

(* ================================================================ Part R3: from a fresh streamed reader *)

(* without a window the window driver is the plain stage driver *)
Lemma find_between_none dated bs f st fo :
  c_find_between dated bs f None None st fo = let '(st', r, _) := c_find_sysline dated bs f st fo in (st', r).
Proof.
  unfold c_find_between. cbn [c_linear]. destruct (c_find_sysline dated bs f st fo) as [[st' r] p].
  destruct r as [[n s]| | |]; reflexivity.
Qed.

Lemma stream_win_loop_none dated bs f plan fuel : forall i st fo prev acc,
  c_stream_win_loop dated fuel bs f None None plan i st fo prev acc = c_stream_loop dated fuel bs f plan i st fo prev acc.
Proof.
  induction fuel as [|k IH]; intros i st fo prev acc; [reflexivity|]. cbn [c_stream_win_loop c_stream_loop].
  rewrite find_between_none. destruct (c_find_sysline dated bs f st fo) as [[st' r] p].
  destruct r as [[n s]| | |]; try reflexivity.
  destruct (is_sysline_last bs f (ss_sysline s)); [reflexivity|]. destruct prev; apply IH.
Qed.

Lemma stream_win_none dated bs f plan st : c_stream_win dated bs f None None plan st = c_stream dated bs f plan st.
Proof.
  unfold c_stream_win, c_stream. rewrite find_between_none. destruct (c_find_sysline dated bs f st 0) as [[st' r] p].
  destruct r as [[n s]| | |]; try reflexivity.
  destruct (is_sysline_last bs f (ss_sysline s)); [reflexivity|]. apply stream_win_loop_none.
Qed.

Section FwdGate.
  Variable dated : list N -> option Z.
  Variable bs : N.
  Variable f : file.
  Hypothesis Hbs : 0 < bs.

  Variable RD : bstate -> N -> Prop.
  Variable DN : bstate -> N -> Prop.
  Hypothesis RD_mono : forall b k k', RD b k -> k <= k' -> RD b k'.
  Hypothesis RD_read : forall refd b k j, RD b k -> k <= j -> j <= blast bs f -> 0 < lenN f ->
    exists b', b_read_block refd (lenN f) (blast bs f) b j = (b', BFound) /\ RD b' j /\ DN b' j /\
               (forall i, DN b i -> DN b' i).
  Hypothesis RD_drop : forall refd b k j bo, RD b k -> DN b j -> j <= k -> bo + 2 <= j ->
    RD (b_drop_block refd b bo) k /\ (forall i, DN b i -> DN (b_drop_block refd b bo) i).

  Local Notation lr_inv0 := (lr_inv0 bs f).
  Local Notation FWD := (FWD bs f RD DN).
  Local Notation SFW := (SFW dated bs f RD DN).

  (* the frontier is determined by the reader *)
  Lemma FWD_unique l g g' : FWD l 0 g -> FWD l 0 g' -> g = g'.
  Proof.
    assert (HALF : forall a b, FWD l 0 a -> FWD l 0 b -> a < b -> False).
    { intros a b (_ & _ & _ & A4 & _ & A6 & _ & _ & A9) (_ & _ & _ & B4 & _ & _ & _ & B8 & _) L.
      destruct A6 as [E|LB]; [lia|]. destruct (A9 a (B8 a ltac:(lia) L LB)). lia. }
    intros A B. destruct (N.lt_trichotomy g g') as [C|[C|C]]; [exact (False_ind _ (HALF g g' A B C))|exact C|exact (False_ind _ (HALF g' g B A C))].
  Qed.

  (* the inner LineReader of the gate pattern on a streamed file: in the forward state (horizon 0) *)
  Definition LIf (l : lr_state) : Prop := exists g, FWD l 0 g.
  Definition RGf (l : lr_state) (fo : N) : Prop := exists g, FWD l 0 g /\ fo <= g.

  Lemma LIf_inv0 l : LIf l -> lr_inv0 l.
  Proof. intros (g & I & _). exact I. Qed.

  Lemma fwd_seq : forall l ex fo l' r part p, LIf l -> lru_stored l -> fo < lenN f -> line_beg f fo = fo ->
    pred_stored l fo -> RGf l fo -> c_find_line_in_block bs f (lr_set_ext ex l) fo = (l', (r, part), p) ->
    LIf l' /\ lru_stored l' /\ (forall x, stored_at l x -> stored_at l' x) /\ (forall y, RGf l y -> RGf l' y) /\
    ((exists s, r = Found (line_end f fo + 1, s) /\ sline_ok bs f s fo (line_end f fo) /\ stored_at l' fo /\
                RGf l' (line_end f fo + 1)) \/
     (r = Done /\ fo + 1 < lenN f /\
      match part with
      | None => True
      | Some s => bytes_of bs f (sl_parts s) = slice f fo (fo + 1) /\ line_fo_begin bs (sl_parts s) = Some fo
      end)).
  Proof.
    intros l ex fo l' r part p _ LS L LB _ (g & FW & LE) C.
    destruct (find_line_in_block_fw bs f Hbs RD DN RD_mono RD_read _ _ _ _ _ _ _ _ FW LS LE L LB C) as (LS' & MONO & g' & GG & FW' & R).
    split; [exists g'; exact FW'|]. split; [exact LS'|]. split; [exact MONO|]. split.
    - intros y (g0 & FW0 & Y). exists g'. split; [exact FW'|]. pose proof (FWD_unique _ _ _ FW0 FW). lia.
    - destruct R as [(s & A1 & A2 & A3 & A4)|R]; [left|right; exact R].
      exists s. split; [exact A1|]. split; [exact A2|]. split; [exact A3|]. exists g'. split; [exact FW'|exact A4].
  Qed.

  Lemma fwd_eof : forall l ex l' r part p, LIf l -> lru_stored l ->
    c_find_line_in_block bs f (lr_set_ext ex l) (lenN f) = (l', (r, part), p) ->
    r = Done /\ part = None /\ LIf l' /\ lru_stored l' /\ (forall x, stored_at l x -> stored_at l' x) /\
    (forall y, RGf l y -> RGf l' y).
  Proof.
    intros l ex l' r part p (g & FW) LS C.
    destruct (find_line_in_block_eof bs f Hbs RD DN _ _ _ _ _ _ _ FW LS C) as (A & B & LS' & MONO & FW').
    split; [exact A|]. split; [exact B|]. split; [exists g; exact FW'|]. split; [exact LS'|]. split; [exact MONO|].
    intros y (g0 & FW0 & Y). exists g. split; [exact FW'|]. pose proof (FWD_unique _ _ _ FW0 FW). lia.
  Qed.

  Lemma sr_inv_weaken (LI LI' : lr_state -> Prop) st : (forall l, LI l -> LI' l) ->
    @sr_inv dated bs f LI st -> @sr_inv dated bs f LI' st.
  Proof. intros H [I1 I2 I3 I4 I5]. split; auto. Qed.

  (* a reader on which nothing was called yet, every block of the file readable *)
  Lemma SFW_init b0 : RD b0 0 -> SFW (sr_init_b b0) 0 0.
  Proof.
    intro R0. pose proof (FWD_init bs f Hbs RD DN b0 R0) as FW.
    split; [split; [split; cbn; intros; try discriminate; try contradiction; destruct FW as (Q & _); exact Q|exact Logic.I]|].
    split; [apply lru_stored_init_b|]. split; [exact FW|]. split; [intros a b v []|].
    split; intros; discriminate.
  Qed.

  (* after block-zero analysis (any number of in-block calls) the reader is in the forward state *)
  Theorem gate_SFW k1 k2 b0 : RD b0 0 ->
    (forall b z, b < lenN f -> line_beg f b = b ->
       dated (slice f b (b + 1)) = Some z -> dated (slice f b (line_end f b + 1)) = Some z) ->
    exists g, SFW (c_gate dated k1 k2 bs f (sr_init_b b0)) 0 g.
  Proof.
    intros R0 Hpart. pose proof (FWD_init bs f Hbs RD DN b0 R0) as FW0.
    assert (L0 : LIf (lr_init_b b0)) by (exists 0; exact FW0).
    assert (G0 : RGf (lr_init_b b0) 0) by (exists 0; split; [exact FW0|lia]).
    pose proof (c_gate_ok dated bs f Hbs Hpart RGf LIf_inv0 fwd_seq fwd_eof k1 k2 (sr_init_b b0)
                  (gate_pre_init_b dated bs f Hbs RGf b0 L0 G0)) as ((I & AS) & ND & LS & NX).
    destruct (si_lr _ _ _ _ I) as (g & FW). exists g.
    split; [split; [apply (sr_inv_weaken LIf); [exact LIf_inv0|exact I]|exact AS]|].
    split; [exact LS|]. split; [exact FW|]. split; [exact ND|exact NX].
  Qed.

  (* the driver with the window after block-zero analysis, and on a fresh reader *)
  Theorem fwd_window_driver k1 k2 fa fb plan b0 : RD b0 0 ->
    (forall b z, b < lenN f -> line_beg f b = b ->
       dated (slice f b (b + 1)) = Some z -> dated (slice f b (line_end f b + 1)) = Some z) ->
    obs_stream bs f (rmap (snd (c_stream_win dated bs f fa fb plan (c_gate dated k1 k2 bs f (sr_init_b b0))))) =
    Some (win_scan fa fb (syslines dated f)).
  Proof.
    intros R0 HP. destruct (gate_SFW k1 k2 b0 R0 HP) as (g & W).
    destruct (c_stream_win dated bs f fa fb plan _) as [S' r] eqn:C.
    exact (c_stream_win_fw dated bs f Hbs RD DN RD_mono RD_read RD_drop fa fb _ _ _ _ _ W C).
  Qed.

  Theorem fwd_window_driver_fresh fa fb plan b0 : RD b0 0 ->
    obs_stream bs f (rmap (snd (c_stream_win dated bs f fa fb plan (sr_init_b b0)))) =
    Some (win_scan fa fb (syslines dated f)).
  Proof.
    intros R0. destruct (c_stream_win dated bs f fa fb plan _) as [S' r] eqn:C.
    exact (c_stream_win_fw dated bs f Hbs RD DN RD_mono RD_read RD_drop fa fb _ _ _ _ _ (SFW_init b0 R0) C).
  Qed.
End FwdGate.

(* ---------------------------------------------------------------- the statements of Props/C02.v: every streamed
   container of a text log.  c = KSeq (.gz / .bz2 / .lz4: sequential decoder, look-behind drop), KXz (.xz: sliced at
   open, a dropped block is gone), KTar (a tar member: every miss reads all blocks again) *)

Lemma open_discipline (c : ckind) bs (f : file) : 0 < bs ->
  exists (RD DN : bstate -> N -> Prop),
    (forall b k k', RD b k -> k <= k' -> RD b k') /\
    (forall refd b k j, RD b k -> k <= j -> j <= blast bs f -> 0 < lenN f ->
       exists b', b_read_block refd (lenN f) (blast bs f) b j = (b', BFound) /\ RD b' j /\ DN b' j /\
                  (forall i, DN b i -> DN b' i)) /\
    (forall refd b k j bo, RD b k -> DN b j -> j <= k -> bo + 2 <= j ->
       RD (b_drop_block refd b bo) k /\ (forall i, DN b i -> DN (b_drop_block refd b bo) i)) /\
    RD (b_open c bs (lenN f)) 0.
Proof.
  intro H. destruct c.
  - exists RDs, DNs. split; [exact RDs_mono|]. split; [exact (RDs_read bs f)|]. split; [exact RDs_drop|exact RDs_init].
  - exists (RDx bs f), DNx. split; [exact (RDx_mono bs f)|]. split; [exact (RDx_read bs f)|]. split; [exact (RDx_drop bs f)|exact (RDx_init bs f H)].
  - exists RDt, DNt. split; [exact RDt_mono|]. split; [exact (RDt_read bs f)|]. split; [exact RDt_drop|exact reads_total_init_tar].
Qed.

(* STREAMED container, block drops ENABLED, block-zero analysis first (any number of in-block calls), then the stage
   driver with the datetime window A B (linear search) and any drop plan: no call needs a block that is gone; the
   driver emits exactly what a forward scan selects.  Oracle hypothesis as in gate_then_refines. *)
Theorem streamed_window_driver dated c bs (f : file) k1 k2 fa fb plan : 0 < bs ->
  (forall b z, b < lenN f -> line_beg f b = b ->
     dated (slice f b (b + 1)) = Some z -> dated (slice f b (line_end f b + 1)) = Some z) ->
  obs_stream bs f (rmap (snd (c_stream_win dated bs f fa fb plan
                                (c_gate dated k1 k2 bs f (sr_init_b (b_open c bs (lenN f))))))) =
  Some (win_scan fa fb (syslines dated f)).
Proof.
  intros H HP. destruct (open_discipline c bs f H) as (RD & DN & A1 & A2 & A3 & A4).
  exact (fwd_window_driver dated bs f H RD DN A1 A2 A3 k1 k2 fa fb plan _ A4 HP).
Qed.

(* the same without block-zero analysis: for EVERY oracle *)
Theorem streamed_window_driver_fresh dated c bs (f : file) fa fb plan : 0 < bs ->
  obs_stream bs f (rmap (snd (c_stream_win dated bs f fa fb plan (sr_init_b (b_open c bs (lenN f)))))) =
  Some (win_scan fa fb (syslines dated f)).
Proof.
  intros H. destruct (open_discipline c bs f H) as (RD & DN & A1 & A2 & A3 & A4).
  exact (fwd_window_driver_fresh dated bs f H RD DN A1 A2 A3 fa fb plan _ A4).
Qed.

(* no window: the stage driver emits exactly the messages of the file *)
Theorem streamed_driver_complete dated c bs (f : file) k1 k2 plan : 0 < bs ->
  (forall b z, b < lenN f -> line_beg f b = b ->
     dated (slice f b (b + 1)) = Some z -> dated (slice f b (line_end f b + 1)) = Some z) ->
  obs_stream bs f (rmap (snd (c_stream dated bs f plan (c_gate dated k1 k2 bs f (sr_init_b (b_open c bs (lenN f))))))) =
  Some (syslines dated f).
Proof.
  intros H HP. rewrite <- stream_win_none, (streamed_window_driver dated c bs f k1 k2 None None plan H HP).
  rewrite win_scan_none. reflexivity.
Qed.

Theorem streamed_driver_complete_fresh dated c bs (f : file) plan : 0 < bs ->
  obs_stream bs f (rmap (snd (c_stream dated bs f plan (sr_init_b (b_open c bs (lenN f)))))) = Some (syslines dated f).
Proof.
  intros H. rewrite <- stream_win_none, (streamed_window_driver_fresh dated c bs f None None plan H).
  rewrite win_scan_none. reflexivity.
Qed.

(* a chronological file: exactly the window of C03's spec *)
Theorem streamed_window_chronological dated c bs (f : file) k1 k2 fa fb plan : 0 < bs ->
  (forall b z, b < lenN f -> line_beg f b = b ->
     dated (slice f b (b + 1)) = Some z -> dated (slice f b (line_end f b + 1)) = Some z) ->
  nondecreasing (@fst Z (list (list N))) (syslines dated f) = true ->
  obs_stream bs f (rmap (snd (c_stream_win dated bs f fa fb plan
                                (c_gate dated k1 k2 bs f (sr_init_b (b_open c bs (lenN f))))))) =
  Some (window (@fst Z (list (list N))) fa fb (syslines dated f)).
Proof.
  intros H HP ND. rewrite (streamed_window_driver dated c bs f k1 k2 fa fb plan H HP), (win_scan_window fa fb _ ND). reflexivity.
Qed.

(* ---------------------------------------------------------------- examples: the hypotheses are satisfiable,
   the statements are not vacuous (toy oracles d2 of CachesExamples and d3: a line "2c..." is dated with the
   byte c) *)
Definition d3 : list N -> option Z := fun l => match l with 50 :: c :: _ => Some (Z.of_N c) | _ => None end.

Example d3_gate_hypothesis : forall (f : file) b z, b < lenN f -> line_beg f b = b ->
  d3 (slice f b (b + 1)) = Some z -> d3 (slice f b (line_end f b + 1)) = Some z.
Proof.
  intros f b z _ _ D. exfalso. unfold slice in D. replace (b + 1 - b) with 1 in D by lia.
  destruct (skipnN b f) as [|x [|y l]]; cbn in D; try discriminate; destruct x as [|p]; try discriminate;
    repeat (destruct p as [p|p|]; try discriminate).
Qed.

(* "2a\n2b\n2c\n2d\n2e\n", block size 2, block-zero analysis, then the driver dropping after every message: all five
   messages; the decoder went through all 8 blocks and the look-behind drop removed 7 of them *)
Example streamed_driver_example :
  let st := c_stream d2 2 fy [true] (c_gate d2 2 2 2 fy (sr_init_k true)) in
  obs_stream 2 fy (rmap (snd st)) = Some (syslines d2 fy) /\
  (b_dec (l_blk (s_lr (fst st))), lenN (b_blocks (l_blk (s_lr (fst st))))) = (8, 1).
Proof. vm_compute. split; reflexivity. Qed.

(* "2a\n2b\nx\n2c\n2d\n" with the window 'b' .. 'c': the second and the third message *)
Definition fz : file := [50; 97; 10; 50; 98; 10; 120; 10; 50; 99; 10; 50; 100; 10].
Example streamed_window_example :
  obs_stream 3 fz (rmap (snd (c_stream_win d3 3 fz (Some 98%Z) (Some 99%Z) [true; false]
                                 (c_gate d3 1 1 3 fz (sr_init_k true))))) =
  Some [(98%Z, [[50; 98; 10]; [120; 10]]); (99%Z, [[50; 99; 10]])] /\
  window (@fst Z (list (list N))) (Some 98%Z) (Some 99%Z) (syslines d3 fz) =
  [(98%Z, [[50; 98; 10]; [120; 10]]); (99%Z, [[50; 99; 10]])] /\
  nondecreasing (@fst Z (list (list N))) (syslines d3 fz) = true.
Proof. vm_compute. repeat split; reflexivity. Qed.

(* a file that is NOT chronological: the scan stops at the first message after B although a later one lies inside *)
Example win_scan_not_window :
  win_scan (Some 1%Z) (Some 5%Z) [(3%Z, []); (9%Z, []); (4%Z, [])] = [(3%Z, [])] /\
  window (@fst Z (list (list N))) (Some 1%Z) (Some 5%Z) [(3%Z, []); (9%Z, []); (4%Z, [])] = [(3%Z, []); (4%Z, [])].
Proof. split; reflexivity. Qed.

(* the same file as an .xz (all 8 blocks sliced at open, no miss; drop_line removes one block) and as a tar member
   (the first miss reads all 8 blocks, nothing is missed later; one block dropped) *)
Example streamed_driver_example_xz_tar :
  let sx := c_stream d2 2 fy [true] (c_gate d2 2 2 2 fy (sr_init_b (b_open KXz 2 (lenN fy)))) in
  let st := c_stream d2 2 fy [true] (c_gate d2 2 2 2 fy (sr_init_b (b_open KTar 2 (lenN fy)))) in
  obs_stream 2 fy (rmap (snd sx)) = Some (syslines d2 fy) /\ obs_stream 2 fy (rmap (snd st)) = Some (syslines d2 fy) /\
  (lenN (b_blocks (l_blk (s_lr (fst sx)))), bc_miss (b_cnt (l_blk (s_lr (fst sx)))),
   lenN (b_blocks (l_blk (s_lr (fst st)))), bc_miss (b_cnt (l_blk (s_lr (fst st))))) = (7, 0, 7, 1).
Proof. vm_compute. repeat split; reflexivity. Qed.

