(* Proofs/CliDtMiscProofs.v — table obligations over the regenerated tables, the -a/-b
   evaluation-order theorems, rejection theorems, and the regression lemmas for the two
   repaired defects (F4 unanchored relative-offset expression, F7b "+epoch" read in the
   --tz-offset zone). *)
From Coq Require Import String ZArith Lia.
From S4.Base Require Import Bytes.
From S4.Model Require Import Calendar CliDt.
From S4.Gen Require Import CliDtTables.
From S4.Spec Require Import CalendarSpec CliDtRef CliDtSpec.
From S4.Proofs Require Import CalendarProofs CliDtSpecProofs CliDtAbsInfra.
Open Scope Z_scope.

(* the model with the regenerated tables; anchors and the epoch switch explicit *)
Definition resolve_with (a_s a_e eu : bool) :=
  resolve cli_rows append_value append_pattern tz_table dur_at dur_plus dur_minus dur_units a_s a_e eu.
Definition bounds_with (a_s a_e eu : bool) :=
  cli_bounds cli_rows append_value append_pattern tz_table dur_at dur_plus dur_minus dur_units a_s a_e eu.
Definition m_resolve := resolve_with dur_anchor_start dur_anchor_end epoch_utc.
Definition m_bounds := bounds_with dur_anchor_start dur_anchor_end epoch_utc.
Definition m_wdhms := wdhms dur_at dur_plus dur_minus dur_units dur_anchor_start dur_anchor_end.
Definition m_search (a_s a_e : bool) := rel_search dur_at dur_plus dur_minus dur_units a_s a_e.
Definition cs (s : string) : list sym := classify (s2b s).

(* ---------------------------------------------------------------- table obligations *)
Lemma tz_table_matches_reference : tz_table_s = ref_tz_table.
Proof. vm_compute. reflexivity. Qed.

Lemma dur_expression_anchored : dur_anchor_start = true /\ dur_anchor_end = true.
Proof. split; reflexivity. Qed.

Lemma epoch_read_as_utc : epoch_utc = true.
Proof. reflexivity. Qed.

Lemma unit_letters_are_not_zone_names :
  forallb (fun lu => match assoc [fst lu] tz_table with None => true | Some _ => false end) dur_units = true.
Proof. vm_compute. reflexivity. Qed.

(* ---------------------------------------------------------------- -a / -b evaluation order *)
Lemma both_at_rejected a b tz now :
  is_other (m_wdhms a) = true -> is_other (m_wdhms b) = true ->
  m_bounds (Some a) (Some b) tz now = None.
Proof.
  unfold m_bounds, bounds_with, cli_bounds, m_wdhms. cbn [opt_arg]. intros Ha Hb.
  destruct (wdhms _ _ _ _ _ _ a) as [| |da oa]; try discriminate.
  destruct (wdhms _ _ _ _ _ _ b) as [| |db ob]; try discriminate.
  destruct oa, ob; try discriminate. reflexivity.
Qed.

Lemma after_not_after_before a b tz now x y :
  m_bounds a b tz now = Some (Some x, Some y) -> x <= y.
Proof.
  unfold m_bounds, bounds_with, cli_bounds.
  destruct (is_exit _ || is_exit _); [discriminate|].
  destruct (is_other _ && is_other _); [discriminate|].
  match goal with |- match ?F with _ => _ end = _ -> _ => destruct F as [[[x'|] [y'|]]|] end;
    try discriminate; intros H; try (inversion H; fail).
  destruct (Z.ltb_spec y' x'); [discriminate|]. inversion H; subst. assumption.
Qed.

Lemma at_relative_before a rel tz now x d :
  is_other (m_wdhms a) = false -> is_exit (m_wdhms a) = false ->
  m_wdhms rel = DurOk d true ->
  m_resolve a tz None now = Some x ->
  resolve_abs cli_rows append_value append_pattern tz_table epoch_utc rel tz = None ->
  0 <= d -> TS_MIN * NS <= x + d * NS <= TS_MAX * NS + (NS - 1) ->
  m_bounds (Some a) (Some rel) tz now = Some (Some x, Some (x + d * NS)).
Proof.
  intros Ho He Hw Hr Habs Hd Hrange.
  unfold m_bounds, bounds_with, cli_bounds. cbn [opt_arg]. fold m_wdhms.
  rewrite Ho, He, Hw. cbn [is_exit is_other orb andb].
  cbn [resolve_opt]. fold (resolve_with dur_anchor_start dur_anchor_end epoch_utc). fold m_resolve.
  rewrite Hr.
  unfold m_resolve, resolve_with, resolve. rewrite Habs. fold m_wdhms. rewrite Hw.
  replace ((TS_MIN * NS <=? x + d * NS) && (x + d * NS <=? TS_MAX * NS + (NS - 1))) with true
    by (symmetry; apply andb_true_iff; split; apply Z.leb_le; lia).
  destruct (Z.ltb_spec (x + d * NS) x); [unfold NS in *; lia|reflexivity].
Qed.

(* the documented example: -a 20220102 -b @+1d  ==  -a 20220102 -b 20220103 *)
Example at_relative_help_example :
  m_bounds (Some (cs "20220102")) (Some (cs "@+1d")) (-12600) 1700000000
  = m_bounds (Some (cs "20220102")) (Some (cs "20220103")) (-12600) 1700000000
  /\ m_bounds (Some (cs "@-6h")) (Some (cs "20220101T120000")) 19800 1700000000
     = m_bounds (Some (cs "20220101T060000")) (Some (cs "20220101T120000")) 19800 1700000000
  /\ m_bounds (Some (cs "20220102")) (Some (cs "@+1d")) 0 1700000000
     = Some (Some (1641081600 * NS), Some ((1641081600 + 86400) * NS)).
Proof. vm_compute. repeat split; reflexivity. Qed.

(* the other bound's FRACTION is kept: x + D with x's sub-second part, both directions;
   '@+0s' against a fractional bound gives b = a and is accepted *)
Example at_relative_keeps_fraction :
  m_bounds (Some (cs "2020-01-02T03:04:05.678")) (Some (cs "@+1s")) 0 1700000000
  = Some (Some 1577934245678000000, Some 1577934246678000000)
  /\ m_bounds (Some (cs "2020-01-02T03:04:05.678")) (Some (cs "@+0s")) 0 1700000000
     = Some (Some 1577934245678000000, Some 1577934245678000000)
  /\ m_bounds (Some (cs "2020-01-02T03:04:05.999999")) (Some (cs "@+90s")) 0 1700000000
     = Some (Some 1577934245999999000, Some 1577934335999999000)
  /\ m_bounds (Some (cs "@-2s")) (Some (cs "2020-01-02 03:04:05.500 +05:30")) 0 1700000000
     = Some (Some 1577914443500000000, Some 1577914445500000000)
  /\ m_bounds (Some (cs "@-1h2m3s")) (Some (cs "20200102T030405.001")) (-12600) 1700000000
     = m_bounds (Some (cs "20200102T020202.001")) (Some (cs "20200102T030405.001")) (-12600) 1700000000.
Proof. vm_compute. repeat split; reflexivity. Qed.

(* the same statement at the level of the specification, for every form and every sum *)
Lemma spec_at_relative f items tz now x :
  is_at (Some f) = false -> denote f tz now None = Some x ->
  spec_bounds (Some f) (Some (FRel true false items)) tz now
  = if x + rel_sum items * NSs <? x then None else Some (Some x, Some (x + rel_sum items * NSs)).
Proof.
  intros Hat Hd. unfold spec_bounds, spec_bounds_with. rewrite Hat. cbn [andb].
  unfold denote_opt_with. fold denote. rewrite Hd. cbn [denote_with]. reflexivity.
Qed.

(* ---------------------------------------------------------------- relative forms *)
(* _partial: the documented examples and a sample of orders/signs, not the universal statement *)
Example relative_examples_partial :
  m_resolve (cs "-1w22h") 19800 None 1700000000 = Some ((1700000000 - (604800 + 22 * 3600)) * NS)
  /\ m_resolve (cs "+30s") (-12600) None 1700000000 = Some ((1700000000 + 30) * NS)
  /\ m_resolve (cs "+1w2d3h4m5s") 0 None 1700000000 = Some ((1700000000 + (604800 + 2 * 86400 + 3 * 3600 + 4 * 60 + 5)) * NS)
  /\ m_resolve (cs "-5s4m3h2d1w") 0 None 1700000000 = Some ((1700000000 - (604800 + 2 * 86400 + 3 * 3600 + 4 * 60 + 5)) * NS)
  /\ m_resolve (cs "-0012d00345m") 3600 None 1700000000 = Some ((1700000000 - (12 * 86400 + 345 * 60)) * NS)
  /\ m_resolve (cs "@+90m") 3600 (Some 123456789) 1700000000 = Some (123456789 + 5400 * NS)
  /\ m_resolve (cs "@-1d") 3600 None 1700000000 = None.
Proof. vm_compute. repeat split; reflexivity. Qed.

(* ---------------------------------------------------------------- near-miss strings (F4) *)
Definition near_miss_witnesses : list string :=
  ["foo+1d"; "+1dzzz"; "++1d"; "+1d+"; "+1d 2h"; "+1d@"; "-3h+"; "1+1d"]%string.

(* the unanchored expression (the code before the fix) accepts every witness *)
Lemma near_miss_refuted_before_fix :
  forallb (fun s => match resolve_with false false epoch_utc (cs s) 0 None 1700000000 with
                    | Some _ => true | None => false end) near_miss_witnesses = true.
Proof. vm_compute. reflexivity. Qed.

(* the regenerated (anchored) expression rejects them *)
Lemma near_miss_witnesses_rejected :
  forallb (fun s => match m_resolve (cs s) 0 None 1700000000 with
                    | Some _ => false | None => true end) near_miss_witnesses = true.
Proof. vm_compute. reflexivity. Qed.

(* universal, matcher level: with the start anchor no text beginning with a character other
   than '@', '+', '-' is a relative offset, whatever follows *)
Lemma anchored_rejects_foreign_first_char c rest a_e :
  c <> 64%N -> c <> 43%N -> c <> 45%N ->
  m_search true a_e (Ch c :: rest) = None.
Proof.
  intros H1 H2 H3. unfold m_search. cbn [rel_search].
  unfold rel_here_anch, rel_match_here, dur_at, dur_plus, dur_minus. cbn [sym_is].
  rewrite (proj2 (N.eqb_neq c 64)) by assumption. cbn [sym_is].
  rewrite (proj2 (N.eqb_neq c 43)) by assumption.
  rewrite (proj2 (N.eqb_neq c 45)) by assumption. reflexivity.
Qed.

(* universal, matcher level: a digit first is never a relative offset *)
Lemma anchored_rejects_digit_first v rest a_e : m_search true a_e (Dg v :: rest) = None.
Proof. reflexivity. Qed.

(* ---------------------------------------------------------------- "+epoch" (F7b) *)
Lemma plus_epoch_refuted_before_fix :
  resolve_with dur_anchor_start dur_anchor_end false (cs "+1987184272") 19800 None 0
  = Some (1987164472 * NS).
Proof. vm_compute. reflexivity. Qed.

Lemma plus_epoch_is_utc :
  forallb (fun tz => match m_resolve (cs "+1987184272") tz None 0 with
                     | Some v => v =? 1987184272 * NS | None => false end)
          [0; 19800; -12600; 50400; -43200; 3600] = true.
Proof. vm_compute. reflexivity. Qed.

(* ---------------------------------------------------------------- zone names *)
Definition names_with (amb : bool) : list string :=
  map fst (filter (fun kv => if String.eqb (snd kv) "" then amb else negb amb) ref_tz_table).

Definition named_form (l : layout) (name : string) : form :=
  FDateTime l 2001 2 3 4 5 6 FNone
            (ZoneName (match l with LCompact => false | _ => true end) name).

(* every unambiguous name of the reference table, every layout, one fixed date-time:
   the model resolves the rendered text to the instant the spec gives *)
Lemma named_all_names_fixed_fields :
  forallb (fun name =>
    forallb (fun l =>
      match m_resolve_abs (classify (render (named_form l name))) 19800,
            denote_with spec_days_fast (named_form l name) 19800 0 None with
      | Some a, Some b => a =? b
      | _, _ => false
      end) [LCompact; LDashSpace; LDashT; LSlash]) (names_with false) = true.
Proof. vm_compute. reflexivity. Qed.

(* every ambiguous name is rejected, every layout *)
Lemma ambiguous_names_rejected :
  forallb (fun name =>
    forallb (fun l =>
      match m_resolve (classify (render (named_form l name))) 19800 None 1700000000 with
      | Some _ => false | None => true end) [LCompact; LDashSpace; LDashT; LSlash]) (names_with true) = true.
Proof. vm_compute. reflexivity. Qed.

Example ambiguous_names_exist : In "SST"%string (names_with true).
Proof. vm_compute. tauto. Qed.
