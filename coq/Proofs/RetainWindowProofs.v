(* Proofs/RetainWindowProofs.v — property C17, every kind of window.
   1. -b (alone or with -a): the first message after B is found but not sent and the driver stops:
      the marks of the repaired policy are bounded as before (with H + 1 in place of H: the message
      that is found but not sent);
   2. windows on STREAMED files: stage 2 is one linear search WITHOUT any drop: every message before
      A is stored at once (finding F9d, for every policy and every file), while the repaired driver
      (drops inside the linear search) has exactly the streaming bounds, no logarithmic term;
   3. plain files with -a and/or -b: the bound of Proofs/RetainSearchProofs.v extends. *)
From Coq Require Import List NArith ZArith Bool Sorted Lia.
Import ListNotations.
From S4.Model Require Import Retain Search RetainSearch.
From S4.Proofs Require Import RetainProofs RetainLayout RetainLag RetainSearchProofs.
Open Scope N_scope.

(* ------------------------------------------------------------------ marks and sizes, any policy *)
Definition marks_eq (s s' : st) : Prop := hb s' = hb s /\ hl s' = hl s /\ hs s' = hs s.
Definition sizes_ok (s : st) : Prop :=
  lenN (blocks s) <= hb s /\ lenN (lines s) <= hl s /\ lenN (syslines s) <= hs s.
Definition marks_le (s s' : st) : Prop := hb s <= hb s' /\ hl s <= hl s' /\ hs s <= hs s'.

Lemma drop_marks c s p : marks_eq s (do_try_drop c s p) /\ (sizes_ok s -> sizes_ok (do_try_drop c s p)).
Proof.
  unfold do_try_drop. destruct (mfb p <? 3); [split; [repeat split|auto]|].
  match goal with |- context [fold_left (release_msg ?pp) ?rel s] =>
    pose proof (release_msgs_spec pp rel s) as (_ & _ & _ & _ & NB & NL & F) end.
  cbv zeta in *. destruct F as (F1 & F2 & F3 & F4 & F5 & F6 & _).
  split.
  - unfold marks_eq. cbn [set_index hb hl hs]. auto.
  - intros (A & B & C). unfold sizes_ok. cbn [set_index blocks lines syslines hb hl hs].
    rewrite F4, F5, F6.
    pose proof (lenN_filter_le (fun m => negb (mlb m <=? mfb p - 2)) (syslines s)). splits; lia.
Qed.

Lemma find_marks c s first m :
  marks_le s (do_find c s first m) /\ (sizes_ok s -> sizes_ok (do_find c s first m)) /\
  held (do_find c s first m) = held s ++ [mkey m] /\ todo (do_find c s first m) = todo s /\
  wprev (do_find c s first m) = wprev s /\ pending (do_find c s first m) = pending s.
Proof.
  unfold do_find.
  pose proof (read_lines_grows c (mread first m) s) as (_ & _ & G). cbv zeta in G.
  destruct G as (I0 & _ & G2 & _ & _ & G5 & G6 & _ & G8).
  destruct I0 as (I1 & I2 & I3 & I4 & I5 & I6 & I7 & I8 & I9).
  cbn [store_msg blocks lines syslines pending held hb hl hs todo wprev]. splits; auto.
  - unfold marks_le. cbn [store_msg hb hl hs]. splits; lia.
  - intros (A & B & C). unfold sizes_ok. cbn [store_msg blocks lines syslines hb hl hs]. splits; auto. lia.
  - rewrite I3. reflexivity.
Qed.

Lemma wstep_marks c s q rest : todo s = q :: rest ->
  marks_eq (do_find c s (stage2 s) q) (wstep c s) /\ held (wstep c s) = held s ++ [mkey q].
Proof.
  intros Et. unfold wstep. rewrite Et.
  destruct (find_marks c s (stage2 s) q) as (_ & _ & Hh & _).
  destruct (stage2 s); [split; [repeat split|exact Hh]|].
  destruct rest as [|q' r]; [split; [repeat split|exact Hh]|].
  destruct (wprev s) as [p|]; [|split; [repeat split|exact Hh]].
  destruct (drop_marks c (do_find c s false q) p) as ((A & B & C) & _).
  split; [unfold marks_eq; cbn [set_worker hb hl hs]; auto|].
  cbn [set_worker held]. unfold do_try_drop. destruct (mfb p <? 3); [exact Hh|].
  match goal with |- context [fold_left (release_msg ?pp) ?rel ?x] =>
    pose proof (release_msgs_spec pp rel x) as (_ & _ & _ & _ & _ & _ & F) end.
  cbv zeta in F. destruct F as (_ & _ & F3 & _). cbn [set_index held]. rewrite F3. exact Hh.
Qed.

Lemma sizes_release s j : sizes_ok s -> sizes_ok (release s j).
Proof. intros H. exact H. Qed.

(* ------------------------------------------------------------------ once the driver has stopped *)
Lemma run_b_done c tb evs : forall s, todo s = [] ->
  marks_eq s (run_b c tb s evs) /\ blocks (run_b c tb s evs) = blocks s /\ lines (run_b c tb s evs) = lines s /\
  syslines (run_b c tb s evs) = syslines s.
Proof.
  induction evs as [|e evs IH]; intros s Ht; cbn [run_b fold_left]; [repeat split|].
  assert (H : todo (step_b c tb s e) = [] /\ marks_eq s (step_b c tb s e) /\ blocks (step_b c tb s e) = blocks s /\
              lines (step_b c tb s e) = lines s /\ syslines (step_b c tb s e) = syslines s).
  { destruct e as [|j]; cbn [step_b]; [unfold wstep_b; rewrite Ht|cbn [release todo]]; repeat split; auto. }
  destruct H as (A & (B1 & B2 & B3) & C & D & E). destruct (IH _ A) as ((I1 & I2 & I3) & I4 & I5 & I6).
  fold (run_b c tb (step_b c tb s e) evs). unfold marks_eq. splits; congruence.
Qed.

(* ------------------------------------------------------------------ -b, repaired policy *)
Section BoundB.
Variables (bs span ml H : N) (ms : list msg) (c : cfg).
Hypothesis Hpol : pol c = P_retry.
Hypothesis Hwf : wf bs span ml ms.

Lemma bound_lines_mono : bound_lines bs span ml H <= bound_lines bs span ml (H + 1).
Proof. unfold bound_lines. nia. Qed.
Lemma bound_blocks_mono : bound_blocks bs span H <= bound_blocks bs span (H + 1).
Proof. unfold bound_blocks. nia. Qed.

Lemma inv_mono s : inv bs span ml H ms s -> inv bs span ml (H + 1) ms s.
Proof.
  intros [A B C D E]. constructor; auto; try lia.
  - pose proof bound_lines_mono. lia.
  - pose proof bound_blocks_mono. lia.
Qed.

Definition bounded1 (s : st) : Prop :=
  hs s <= bound_syslines bs span /\ hl s <= bound_lines bs span ml (H + 1) /\ hb s <= bound_blocks bs span (H + 1).

Lemma inv_sizes s : inv bs span ml (H + 1) ms s -> sizes_ok s /\ bounded1 s.
Proof.
  intros [(done & C & _) _ A B D]. destruct (c_sizes _ _ _ C) as (S1 & S2 & S3).
  split; [unfold sizes_ok; auto|unfold bounded1; auto].
Qed.

(* the iteration that finds the first message after B *)
Lemma stop_step_bounded s q rest : inv bs span ml (H + 1) ms s -> lenN (held s) <= H -> todo s = q :: rest ->
  sizes_ok (stop_step c s) /\ bounded1 (stop_step c s) /\ todo (stop_step c s) = [].
Proof.
  intros I Hh Et. unfold stop_step. rewrite Et.
  destruct (wstep_marks c s q rest Et) as ((M1 & M2 & M3) & Hheld).
  assert (I' : inv bs span ml (H + 1) ms (wstep c s)).
  { apply (inv_wstep bs span ml (H + 1) ms c Hpol Hwf s I). rewrite Hheld, lenN_app. change (lenN [mkey q]) with 1. lia. }
  destruct (inv_sizes _ I') as (_ & B1 & B2 & B3).
  destruct (inv_sizes _ I) as (S0 & _).
  destruct (find_marks c s (stage2 s) q) as (_ & Sz & _). specialize (Sz S0).
  splits.
  - exact Sz.
  - unfold bounded1. cbn [set_worker release hs hl hb]. rewrite <- M1, <- M2, <- M3. auto.
  - reflexivity.
Qed.

Theorem run_b_bounded tb evs : forall s, inv bs span ml (H + 1) ms s -> lenN (held s) <= H ->
  sched_ok_b H c tb s evs = true ->
  sizes_ok (run_b c tb s evs) /\ bounded1 (run_b c tb s evs).
Proof.
  induction evs as [|e evs IH]; intros s I Hh Hs; cbn [run_b fold_left]; [apply inv_sizes; exact I|].
  cbn [sched_ok_b] in Hs. apply andb_true_iff in Hs as [H1 H2]. apply N.leb_le in H1.
  fold (run_b c tb (step_b c tb s e) evs).
  destruct e as [|j]; cbn [step_b] in *.
  - unfold wstep_b in *. destruct (todo s) as [|q rest] eqn:Et; [apply IH; auto|].
    destruct (after_b tb q).
    + destruct (stop_step_bounded s q rest I Hh Et) as (A & B & C).
      destruct (run_b_done c tb evs _ C) as ((M1 & M2 & M3) & E1 & E2 & E3).
      unfold sizes_ok, bounded1 in *. rewrite M1, M2, M3, E1, E2, E3. auto.
    + apply IH; auto. apply (inv_wstep bs span ml (H + 1) ms c Hpol Hwf s I). lia.
  - apply IH; auto. apply inv_release. exact I.
Qed.

End BoundB.

Lemma lin_search_none c fuel s : lin_search c None fuel s = s.
Proof. destruct fuel; cbn [lin_search]; [reflexivity|]. destruct (todo s); reflexivity. Qed.

(* a file read from its start with -b only *)
Lemma sw_b_bounded bs span ml H ms c tb evs : pol c = P_retry -> wf bs span ml ms -> 1 <= H ->
  sched_ok_b H c tb (sw_start c ms None tb) evs = true ->
  sizes_ok (sw_run c ms None tb evs) /\ bounded1 bs span ml H (sw_run c ms None tb evs).
Proof.
  intros Hpol Hwf H1 Hs. unfold sw_run, sw_start in *. rewrite lin_search_none in *. cbn [init todo] in *.
  pose proof (inv_mono bs span ml H ms _ (inv_init bs span ml H ms)) as I0.
  destruct ms as [|m r].
  - apply (run_b_bounded bs span ml H [] c Hpol Hwf); auto. cbn. lia.
  - destruct (after_b tb m).
    + destruct (stop_step_bounded bs span ml H (m :: r) c Hpol Hwf (init (m :: r)) m r I0 ltac:(cbn; lia) eq_refl) as (A & B & C).
      destruct (run_b_done c tb evs _ C) as ((M1 & M2 & M3) & E1 & E2 & E3).
      unfold sizes_ok, bounded1 in *. rewrite M1, M2, M3, E1, E2, E3. auto.
    + change (send_step c (init (m :: r))) with (wstep c (init (m :: r))) in *.
      assert (Hh : held (wstep c (init (m :: r))) = [mkey m]).
      { destruct (wstep_marks c (init (m :: r)) m r eq_refl) as (_ & E). rewrite E. reflexivity. }
      apply (run_b_bounded bs span ml H (m :: r) c Hpol Hwf); auto.
      * apply (inv_wstep bs span ml (H + 1) (m :: r) c Hpol Hwf _ I0). rewrite Hh. cbn. lia.
      * rewrite Hh. cbn. lia.
Qed.

(* a file read from its start with -b (no -a): plain or streamed container, every layout *)
Theorem sw_b_bounded_layout bs layout H c tb evs :
  pol c = P_retry -> layout_ok bs layout -> 1 <= H ->
  let ms := layout_msgs bs layout in
  let span := max_span ms in let ml := max_lines ms in
  sched_ok_b H c tb (sw_start c ms None tb) evs = true ->
  let s := sw_run c ms None tb evs in
  lenN (syslines s) <= hs s /\ hs s <= bound_syslines bs span /\
  lenN (lines s) <= hl s /\ hl s <= bound_lines bs span ml (H + 1) /\
  lenN (blocks s) <= hb s /\ hb s <= bound_blocks bs span (H + 1).
Proof.
  intros Hp Hok H1. cbv zeta. intros Hs.
  pose proof (layout_msgs_wf bs layout Hok) as Hwf. cbv zeta in Hwf.
  destruct (sw_b_bounded bs _ _ H _ c tb evs Hp Hwf H1 Hs) as ((A & B & C) & D & E & F).
  splits; auto.
Qed.

(* ------------------------------------------------------------------ F9d: the linear search keeps everything *)
Lemma lin_step_spec c s m rest : todo s = m :: rest -> lenN (syslines s) <= hs s ->
  syslines (lin_step c s) = syslines s ++ [m] /\ todo (lin_step c s) = rest /\
  lenN (syslines (lin_step c s)) <= hs (lin_step c s) /\ hs s <= hs (lin_step c s).
Proof.
  intros Et Hs. unfold lin_step. rewrite Et. unfold do_find.
  pose proof (read_lines_grows c (mread (stage2 s) m) s) as (_ & _ & G). cbv zeta in G.
  destruct G as (I0 & _). destruct I0 as (I1 & _ & _ & I4 & _).
  cbn [set_worker release store_msg syslines todo hs]. rewrite I1, I4, lenN_app. change (lenN [m]) with 1.
  splits; auto; lia.
Qed.

Lemma lin_search_spec c ta fuel : forall s, lenN (syslines s) <= hs s -> (length (todo s) <= fuel)%nat ->
  let s' := lin_search c ta fuel s in
  exists bef, todo s = bef ++ todo s' /\ Forall (fun m => before_a ta m = true) bef /\
              match todo s' with m :: _ => before_a ta m = false | [] => True end /\
              syslines s' = syslines s ++ bef /\ lenN (syslines s') <= hs s'.
Proof.
  induction fuel as [|fuel IH]; intros s Hs Hf; cbv zeta; cbn [lin_search].
  - exists []. destruct (todo s) as [|m r] eqn:Et; [|cbn in Hf; lia]. rewrite !app_nil_r. splits; auto.
  - destruct (todo s) as [|m r] eqn:Et.
    + exists []. rewrite Et, !app_nil_r. splits; auto.
    + destruct (before_a ta m) eqn:Eb.
      * destruct (lin_step_spec c s m r Et Hs) as (A & B & C & D).
        destruct (IH (lin_step c s) C ltac:(rewrite B; cbn in Hf; lia)) as (bef & E1 & E2 & E3 & E4 & E5).
        cbv zeta in *. exists (m :: bef). rewrite B in E1. splits; auto.
        -- cbn [app]. rewrite <- E1. reflexivity.
        -- rewrite E4, A, <- app_assoc. reflexivity.
      * exists []. rewrite Et, !app_nil_r. splits; auto.
Qed.

Lemma step_b_hs c tb s e : hs s <= hs (step_b c tb s e).
Proof.
  destruct e as [|j]; cbn [step_b]; [|cbn; lia]. unfold wstep_b.
  destruct (todo s) as [|m r] eqn:Et; [lia|]. destruct (after_b tb m).
  - unfold stop_step. rewrite Et. cbn [set_worker release hs].
    destruct (find_marks c s (stage2 s) m) as ((_ & _ & A) & _). exact A.
  - destruct (wstep_marks c s m r Et) as ((_ & _ & M) & _). rewrite M.
    destruct (find_marks c s (stage2 s) m) as ((_ & _ & A) & _). exact A.
Qed.

Lemma run_b_hs c tb evs : forall s, hs s <= hs (run_b c tb s evs).
Proof.
  induction evs as [|e evs IH]; intros s; cbn [run_b fold_left]; [lia|].
  fold (run_b c tb (step_b c tb s e) evs). pose proof (step_b_hs c tb s e). pose proof (IH (step_b c tb s e)). lia.
Qed.

(* FINDING F9d.  For EVERY policy (the repaired release policy included), every container, every
   message sequence and every window: at the end of stage 2 every message before the window start is
   stored at the same time, so `syslines high` is at least their number — linear in the part of the
   file before A.  (The lines of those messages are stored as well; on a streamed container only the
   blocks are released, by the look-behind drop of the decoder.) *)
Theorem window_linear_search_keeps_prefix c ms ta tb evs :
  exists bef rest, ms = bef ++ rest /\ Forall (fun m => before_a ta m = true) bef /\
    match rest with m :: _ => before_a ta m = false | [] => True end /\
    syslines (lin_search c ta (length ms) (init ms)) = bef /\
    lenN bef <= hs (sw_run c ms ta tb evs).
Proof.
  destruct (lin_search_spec c ta (length ms) (init ms) ltac:(cbn; lia) ltac:(cbn; lia)) as (bef & E1 & E2 & E3 & E4 & E5).
  cbv zeta in *. cbn [init todo syslines app] in *.
  set (s2 := lin_search c ta (length ms) (init ms)) in *.
  exists bef, (todo s2). splits; auto.
  unfold sw_run. etransitivity; [|apply run_b_hs]. unfold sw_start. fold s2. rewrite E4 in E5.
  destruct (todo s2) as [|m r] eqn:Et; [exact E5|].
  destruct (after_b tb m).
  - unfold stop_step. rewrite Et. cbn [set_worker release hs].
    destruct (find_marks c s2 (stage2 s2) m) as ((_ & _ & A) & _). lia.
  - unfold send_step. rewrite Et. cbn [set_worker hs].
    destruct (find_marks c s2 (stage2 s2) m) as ((_ & _ & A) & _). lia.
Qed.

(* the REPAIRED driver (drop_data_try also inside the linear search; messages before A are never
   referenced by the consumer side) is a run of the streaming model: its marks are those of
   C17_retry_bounded, for every layout, window position and schedule — no logarithmic term *)
Theorem sw_repaired_bounded_layout bs layout H c nbefore evs :
  pol c = P_retry -> layout_ok bs layout ->
  let ms := layout_msgs bs layout in
  let span := max_span ms in let ml := max_lines ms in
  sched_ok H c (init ms) (flat_map (fun k => [EW; ER k]) (nseq 0 nbefore) ++ evs) = true ->
  let s := sw_run_repaired c ms nbefore evs in
  lenN (syslines s) <= hs s /\ hs s <= bound_syslines bs span /\
  lenN (lines s) <= hl s /\ hl s <= bound_lines bs span ml H /\
  lenN (blocks s) <= hb s /\ hb s <= bound_blocks bs span H /\
  lenN (pending s) <= H.
Proof. intros Hp Hok. cbv zeta. intros Hs. apply (retry_bounded_layout bs layout H c _ Hp Hok Hs). Qed.

(* ------------------------------------------------------------------ plain files: -a and / or -b *)
Lemma w_steps2_done c tb evs : forall W, todo (wb W) = [] ->
  hb (wb (w_steps2 c tb W evs)) = hb (wb W) /\ hl (wb (w_steps2 c tb W evs)) = hl (wb W) /\
  hs (wb (w_steps2 c tb W evs)) = hs (wb W) /\ blocks (wb (w_steps2 c tb W evs)) = blocks (wb W) /\
  lines (wb (w_steps2 c tb W evs)) = lines (wb W) /\ syslines (wb (w_steps2 c tb W evs)) = syslines (wb W).
Proof.
  induction evs as [|e evs IH]; intros W Ht; cbn [w_steps2 fold_left]; [repeat split|].
  assert (H : todo (wb (w_step2 c tb W e)) = [] /\ hb (wb (w_step2 c tb W e)) = hb (wb W) /\
              hl (wb (w_step2 c tb W e)) = hl (wb W) /\ hs (wb (w_step2 c tb W e)) = hs (wb W) /\
              blocks (wb (w_step2 c tb W e)) = blocks (wb W) /\ lines (wb (w_step2 c tb W e)) = lines (wb W) /\
              syslines (wb (w_step2 c tb W e)) = syslines (wb W)).
  { destruct e as [|j]; cbn [w_step2]; [unfold w_wstep2; rewrite Ht|cbn [with_wb wb release todo hb hl hs blocks lines syslines]]; repeat split; auto. }
  destruct H as (A & B1 & B2 & B3 & B4 & B5 & B6). destruct (IH _ A) as (I1 & I2 & I3 & I4 & I5 & I6).
  fold (w_steps2 c tb (w_step2 c tb W e) evs). splits; congruence.
Qed.

Section WindowedB.
Variables (bs span ml H : N) (ms : list msg) (c : cfg).
Hypothesis Hpol : pol c = P_retry.
Hypothesis Hplain : streamed c = false.
Hypothesis Hwf : wf bs span ml ms.
Variables (Rb : list N) (Rl : list lspan) (Rs : list msg) (Ks Kl Kb : N).
Hypothesis HKs : lenN Rs <= Ks.
Hypothesis HKl : lenN Rl <= Kl.
Hypothesis HKb : lenN Rb <= Kb.

Definition wbounded (W : wst) : Prop :=
  hs (wb W) <= bound_syslines bs span + Ks /\ hl (wb W) <= bound_lines bs span ml (H + 1) + Kl /\
  hb (wb W) <= bound_blocks bs span (H + 1) + Kb /\
  lenN (syslines (wb W)) <= hs (wb W) /\ lenN (lines (wb W)) <= hl (wb W) /\ lenN (blocks (wb W)) <= hb (wb W).

Lemma sim_wbounded W s : sim ms Rb Rl Rs Ks Kl Kb W s -> inv bs span ml (H + 1) ms s -> wbounded W.
Proof.
  intros S I. destruct (inv_sizes bs span ml H ms s I) as (_ & B1 & B2 & B3).
  destruct S as [_ _ _ _ _ _ _ _ _ _ _ _ [Q1 Q2 Q3 Q4 Q5 Q6] _ F15 F16 F17].
  unfold wbounded. splits; auto; lia.
Qed.

Theorem w_steps2_bounded tb evs : forall W s,
  sim ms Rb Rl Rs Ks Kl Kb W s -> inv bs span ml (H + 1) ms s -> lenN (held s) <= H ->
  w_sched_ok2 H c tb W evs = true -> wbounded (w_steps2 c tb W evs).
Proof.
  pose proof (key_inj bs span ml ms Hwf) as Hinj.
  induction evs as [|e evs IH]; intros W s S I Hh Hs; cbn [w_steps2 fold_left]; [eapply sim_wbounded; eauto|].
  cbn [w_sched_ok2] in Hs. apply andb_true_iff in Hs as [H1 H2]. apply N.leb_le in H1.
  fold (w_steps2 c tb (w_step2 c tb W e) evs).
  destruct e as [|j]; cbn [w_step2] in *.
  - unfold w_wstep2 in *. rewrite (sm_todo _ _ _ _ _ _ _ _ _ S) in *.
    destruct (todo s) as [|q rest] eqn:Et.
    + apply (IH W s); auto.
    + destruct (after_b tb q).
      * (* found, not sent: the driver stops *)
        pose proof (sim_find c ms Rb Rl Rs Ks Kl Kb Hplain Hinj HKs HKl HKb W s q rest S Et) as S1.
        destruct (wstep_marks c s q rest Et) as ((M1 & M2 & M3) & Hheld).
        rewrite (sm_stage _ _ _ _ _ _ _ _ _ S) in *.
        assert (I' : inv bs span ml (H + 1) ms (wstep c s)).
        { apply (inv_wstep bs span ml (H + 1) ms c Hpol Hwf s I). rewrite Hheld, lenN_app. change (lenN [mkey q]) with 1. lia. }
        destruct (inv_sizes bs span ml H ms _ I') as (_ & B1 & B2 & B3).
        destruct S1 as [_ _ _ _ _ _ _ _ _ _ _ _ [Q1 Q2 Q3 Q4 Q5 Q6] _ F15 F16 F17].
        assert (Ht : todo (wb (w_stop_step W q)) = []) by reflexivity.
        destruct (w_steps2_done c tb evs _ Ht) as (D1 & D2 & D3 & D4 & D5 & D6).
        unfold wbounded. rewrite D1, D2, D3, D4, D5, D6.
        unfold w_stop_step. cbn [with_wb wb set_worker release hb hl hs blocks lines syslines].
        splits; auto; lia.
      * assert (Ew : w_wstep c W = w_step c W EW) by reflexivity. rewrite Ew in *.
        pose proof (sim_step c ms Rb Rl Rs Ks Kl Kb Hplain Hpol Hinj HKs HKl HKb W s EW S) as S'.
        pose proof (sm_held _ _ _ _ _ _ _ _ _ S') as Hh'.
        apply (IH _ (step c s EW)); auto.
        -- cbn [step] in *. apply (inv_wstep bs span ml (H + 1) ms c Hpol Hwf s I). rewrite <- Hh'. lia.
        -- rewrite <- Hh'. exact H1.
  - pose proof (sim_release ms Rb Rl Rs Ks Kl Kb W s j S) as S'.
    apply (IH _ (release s j)); auto.
    + apply inv_release. exact I.
    + rewrite <- (sm_held _ _ _ _ _ _ _ _ _ S'). exact H1.
Qed.

End WindowedB.

Section WindowedRun2.
Variables (bs span ml H : N) (ms : list msg) (c : cfg).
Hypothesis Hpol : pol c = P_retry.
Hypothesis Hplain : streamed c = false.
Hypothesis Hwf : wf bs span ml ms.
Hypothesis HH : 1 <= H.

Lemma grown_search2 ta : grown span ml ms (search_finds ms) (wb (fst (w_search2 bs ms ta))).
Proof. unfold w_search2, wsearch, search_finds. apply (grown_wloop bs span ml ms Hwf). apply (grown_blockzero bs span ml ms Hwf). Qed.

(* the stage-3 loop starts: the windowed reader and the streaming model placed after w *)
Lemma sim_start K W w q rest d w' : grown span ml ms K (wb W) -> ms = d ++ w' :: q :: rest ->
  sim ms (blocks (wb W)) (lines (wb W)) (syslines (wb W)) (hs (wb W)) (hl (wb W)) (hb (wb W))
      (start_stream W w q rest) (sigma (held (wb (start_stream W w q rest))) q rest) /\
  held (wb (start_stream W w q rest)) = [mkey w].
Proof.
  intros [G1 G2 G3 G4 (G5 & G6) G7] E. split.
  - unfold start_stream, sigma. pose proof G1 as [Q1 Q2 Q3 Q4 Q5 Q6].
    constructor; cbn [with_wb wb set_cursor set_worker hold blocks lines syslines pending held hb hl hs nread todo stage2 wprev app].
    + reflexivity.
    + reflexivity.
    + reflexivity.
    + reflexivity.
    + reflexivity.
    + split; [exact G7|]. rewrite E. intros x Hx. apply in_or_app. right. right. exact Hx.
    + intros x [].
    + intros x [].
    + apply incl_refl.
    + rewrite G5. intros x [].
    + apply incl_refl.
    + apply incl_refl.
    + constructor; auto.
    + cbn. lia.
    + lia.
    + lia.
    + lia.
  - unfold start_stream. cbn [with_wb wb set_cursor set_worker hold held]. rewrite G6. reflexivity.
Qed.

Theorem windowed_bounded2 ta tb evs :
  w_run_sched_ok2 H c bs ms ta tb evs = true ->
  let K := search_finds ms in
  let T := w_run2 c bs ms ta tb evs in
  hs (wb T) <= bound_syslines bs span + K /\
  hl (wb T) <= bound_lines bs span ml (H + 1) + K * (2 * ml) /\
  hb (wb T) <= bound_blocks bs span (H + 1) + (K * (2 * ml * (span + 1)) + 1) /\
  lenN (syslines (wb T)) <= hs (wb T) /\ lenN (lines (wb T)) <= hl (wb T) /\ lenN (blocks (wb T)) <= hb (wb T).
Proof.
  cbv zeta. unfold w_run_sched_ok2, w_run2. intros Hs.
  pose proof (grown_search2 ta) as G.
  set (W := fst (w_search2 bs ms ta)) in *.
  assert (Hstay : forall T, hs (wb T) = hs (wb W) -> hl (wb T) = hl (wb W) -> hb (wb T) = hb (wb W) ->
                  syslines (wb T) = syslines (wb W) -> lines (wb T) = lines (wb W) -> blocks (wb T) = blocks (wb W) ->
    hs (wb T) <= bound_syslines bs span + search_finds ms /\
    hl (wb T) <= bound_lines bs span ml (H + 1) + search_finds ms * (2 * ml) /\
    hb (wb T) <= bound_blocks bs span (H + 1) + (search_finds ms * (2 * ml * (span + 1)) + 1) /\
    lenN (syslines (wb T)) <= hs (wb T) /\ lenN (lines (wb T)) <= hl (wb T) /\ lenN (blocks (wb T)) <= hb (wb T)).
  { intros T E1 E2 E3 E4 E5 E6. rewrite E1, E2, E3, E4, E5, E6.
    destruct G as [[Q1 Q2 Q3 Q4 Q5 Q6] G2 G3 G4 _ _]. splits; auto; lia. }
  destruct (snd (w_search2 bs ms ta)) as [fo s| | | |]; try (apply Hstay; reflexivity).
  destruct (msg_of ms s) as [w|]; [|apply Hstay; reflexivity].
  destruct (after_b tb w); [apply Hstay; reflexivity|].
  destruct (after_key (mkey w) ms) as [|q rest] eqn:Ea; [apply Hstay; reflexivity|].
  destruct (after_key_split _ _ _ _ Ea) as (d & w' & E & _).
  destruct (sim_start _ W w q rest d w' G E) as (Hsim & Hheld).
  pose proof (g_sane _ _ _ _ _ G) as G1.
  pose proof (w_steps2_bounded bs span ml H ms c Hpol Hplain Hwf _ _ _ _ _ _
                (sn_hs _ G1) (sn_hl _ G1) (sn_hb _ G1) tb evs _ _ Hsim
                (inv_mono bs span ml H ms _ (inv_sigma bs span ml H ms _ _ _ _ _ E))
                ltac:(cbn [sigma held]; rewrite Hheld; cbn; lia) Hs) as (B1 & B2 & B3 & B4 & B5 & B6).
  destruct G as [_ G2 G3 G4 _ _]. splits; auto; lia.
Qed.

End WindowedRun2.

(* every layout, plain file, -a and / or -b *)
Theorem retry_windowed2_bounded_layout bs layout H c ta tb evs :
  pol c = P_retry -> streamed c = false -> layout_ok bs layout -> 1 <= H ->
  let ms := layout_msgs bs layout in
  let span := max_span ms in let ml := max_lines ms in
  let K := 9 + 2 * N.size (wfilesz ms) in
  w_run_sched_ok2 H c bs ms ta tb evs = true ->
  let T := w_run2 c bs ms ta tb evs in
  hs (wb T) <= bound_syslines bs span + K /\
  hl (wb T) <= bound_lines bs span ml (H + 1) + K * (2 * ml) /\
  hb (wb T) <= bound_blocks bs span (H + 1) + (K * (2 * ml * (span + 1)) + 1) /\
  lenN (syslines (wb T)) <= hs (wb T) /\ lenN (lines (wb T)) <= hl (wb T) /\ lenN (blocks (wb T)) <= hb (wb T).
Proof.
  intros Hp Hc Hok HH. cbv zeta. intros Hs.
  pose proof (layout_msgs_wf bs layout Hok) as Hwf. cbv zeta in Hwf.
  pose proof (windowed_bounded2 bs _ _ H _ c Hp Hc Hwf HH ta tb evs Hs) as Hb. cbv zeta in Hb.
  replace (9 + 2 * N.size (wfilesz (layout_msgs bs layout))) with (search_finds (layout_msgs bs layout))
    by (unfold search_finds, bfuel; lia).
  exact Hb.
Qed.

(* w_run2 with -a only is w_run *)
Lemma w_run2_is_w_run c bs ms t evs : w_run2 c bs ms (Some t) None evs = w_run c bs ms t evs.
Proof.
  unfold w_run2, w_run. change (w_search2 bs ms (Some t)) with (w_search bs ms t).
  destruct (snd (w_search bs ms t)); auto. destruct (msg_of ms s); auto. cbn [after_b].
  destruct (after_key (mkey m) ms); auto.
  generalize (start_stream (fst (w_search bs ms t)) m m0 l). clear. intros W. revert W.
  induction evs as [|e evs IH]; intros W; cbn [w_steps2 w_steps fold_left]; auto.
  assert (w_step2 c None W e = w_step c W e) as ->.
  { destruct e; cbn [w_step2 w_step]; auto. unfold w_wstep2. destruct (todo (wb W)) eqn:Et; auto.
    unfold w_wstep. rewrite Et. reflexivity. }
  apply IH.
Qed.

(* ------------------------------------------------------------------ examples (hypotheses satisfiable) *)
Definition retry_gz : cfg := {| pol := P_retry; streamed := true |}.
Definition cur_gz : cfg := {| pol := P_cur; streamed := true |}.

(* the example layout (163 messages, block size 64), the consumer 7 behind.
   -b 100 on a streamed file: 2 / 15 / 6 for the repaired policy;
   -a 80 on a streamed file: the linear search leaves 80 messages stored, syslines high 83, lines
   high 144 — for the repaired release policy as well as for the current one (F9d);
   the repaired DRIVER on the same window: 2 / 15 / 6;
   -a 80 -b 120 on the plain file: the schedule is admissible, repaired 20 / 21 / 9 *)
Lemma window_examples :
  let ms := layout_msgs 64 ex_layout in
  sched_ok_b 7 retry_gz (Some 100%Z) (sw_start retry_gz ms None (Some 100%Z)) (w_sched_lag 7 0 162) = true /\
  marks (sw_run retry_gz ms None (Some 100%Z) (w_sched_lag 7 0 162)) = (2, 15, 6) /\
  lenN (syslines (lin_search retry_gz (Some 80%Z) (length ms) (init ms))) = 80 /\
  marks (sw_run retry_gz ms (Some 80%Z) None (w_sched_lag 7 80 82)) = (2, 144, 83) /\
  marks (sw_run cur_gz ms (Some 80%Z) None (w_sched_lag 1 80 82)) = (2, 144, 83) /\
  sched_ok 7 retry_gz (init ms) (flat_map (fun k => [EW; ER k]) (nseq 0 80) ++ (EW :: w_sched_lag 7 80 82)) = true /\
  marks (sw_run_repaired retry_gz ms 80 (EW :: w_sched_lag 7 80 82)) = (2, 15, 6) /\
  w_run_sched_ok2 7 retry_plain 64 ms (Some 80%Z) (Some 120%Z) (w_sched_lag 7 80 82) = true /\
  wmarks (w_run2 retry_plain 64 ms (Some 80%Z) (Some 120%Z) (w_sched_lag 7 80 82)) = (20, 21, 9) /\
  wmarks (w_run2 cur_plain 64 ms (Some 80%Z) (Some 120%Z) (w_sched_lag 7 80 82)) = (63, 79, 9).
Proof. vm_compute. repeat split; reflexivity. Qed.
