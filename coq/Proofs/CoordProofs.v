(* Proofs/CoordProofs.v — lemmas about Model/Coord.v (property C06). *)
From Coq Require Import List ZArith Bool Arith Lia.
From S4.Model Require Import Merge Coord.
From S4.Proofs Require Import MergeProofs.
Import ListNotations.

(* ------------------------------------------------------------------ upd *)

Lemma nth_error_upd {A} (f : A -> A) : forall l i x,
  nth_error l i = Some x -> nth_error (upd i f l) i = Some (f x).
Proof.
  induction l as [|a l IH]; intros [|i] x H; simpl in *; try discriminate.
  - now inversion H.
  - now apply IH.
Qed.

Lemma upd_Forall {A} (P : A -> Prop) f : forall l i,
  Forall P l -> (forall x, nth_error l i = Some x -> P (f x)) -> Forall P (upd i f l).
Proof.
  induction l as [|a l IH]; intros [|i] HF Hx; simpl; auto;
    inversion HF; subst; constructor; auto.
Qed.

Lemma map_upd_same {A B} (g : A -> B) f : forall l i,
  (forall x, nth_error l i = Some x -> g (f x) = g x) -> map g (upd i f l) = map g l.
Proof.
  induction l as [|a l IH]; intros [|i] H; simpl; auto.
  - f_equal. apply H. reflexivity.
  - f_equal. apply IH. intros x Hx. apply H. exact Hx.
Qed.

Lemma forallb_upd_same {A} (g : A -> bool) f : forall l i,
  (forall x, nth_error l i = Some x -> g (f x) = g x) -> forallb g (upd i f l) = forallb g l.
Proof.
  induction l as [|a l IH]; intros [|i] H; simpl; auto.
  - f_equal. apply H. reflexivity.
  - f_equal. apply IH. intros x Hx. apply H. exact Hx.
Qed.

Lemma forallb_upd_mono {A} (g : A -> bool) f : forall l i,
  forallb g l = true ->
  (forall x, nth_error l i = Some x -> g x = true -> g (f x) = true) ->
  forallb g (upd i f l) = true.
Proof.
  induction l as [|a l IH]; intros [|i] HF H; simpl in *; auto;
    apply andb_true_iff in HF as [Ha Hl]; apply andb_true_iff; split; auto.
Qed.

Lemma list_sum_upd {A} (w : A -> nat) f : forall l i x,
  nth_error l i = Some x ->
  list_sum (map w (upd i f l)) + w x = list_sum (map w l) + w (f x).
Proof.
  induction l as [|a l IH]; intros [|i] x H; simpl in *; try discriminate.
  - inversion H; subst. lia.
  - specialize (IH i x H). lia.
Qed.

Lemma nth_error_map_inv {A B} (g : A -> B) : forall l i y,
  nth_error (map g l) i = Some y -> exists x, nth_error l i = Some x /\ g x = y.
Proof.
  induction l as [|a l IH]; intros [|i] y H; simpl in *; try discriminate.
  - inversion H; subst. eauto.
  - now apply IH.
Qed.

Lemma map_upd_pop f : forall l i x,
  nth_error l i = Some x -> remaining (f x) = tl (remaining x) ->
  map remaining (upd i f l) = pop i (map remaining l).
Proof.
  induction l as [|a l IH]; intros [|i] x H Hr; simpl in *; try discriminate.
  - inversion H; subst. now rewrite Hr.
  - f_equal. eapply IH; eauto.
Qed.

(* ------------------------------------------------------------------ measure *)

Lemma mu_upd s i x f :
  nth_error (srcs s) i = Some x -> weight (f x) < weight x ->
  list_sum (map weight (upd i f (srcs s))) < list_sum (map weight (srcs s)).
Proof. intros H Hw. pose proof (list_sum_upd weight f _ _ _ H). lia. Qed.

Lemma first_min_pending l i m :
  first_min (map pending l) = Some (i, m) -> exists x, nth_error l i = Some x /\ pending x = Some m.
Proof. intros H. apply first_min_nth in H. now apply nth_error_map_inv in H. Qed.

Lemma measure_decreases cap s e s' : step cap s e = Some s' -> mu s' < mu s.
Proof.
  unfold step, mu. destruct e as [i|i|].
  - destruct (nth_error (srcs s) i) as [x|] eqn:Ex; [|discriminate].
    destruct (unsent x) as [|d u] eqn:Eu; [discriminate|].
    destruct (Nat.ltb (length (queue x)) cap); [|discriminate].
    intros H; inversion H; subst; clear H. simpl.
    apply mu_upd with (x := x); auto.
    unfold weight, has_pending. simpl. rewrite Eu, app_length. simpl. lia.
  - destruct (wait_mode s); [|discriminate].
    destruct (nth_error (srcs s) i) as [x|] eqn:Ex; [|discriminate].
    destruct (live x && negb (has_pending x)) eqn:El; [|discriminate].
    apply andb_true_iff in El as [Hl Hp]. apply negb_true_iff in Hp.
    destruct (queue x) as [|d q] eqn:Eq.
    + destruct (unsent x) eqn:Eu; [|discriminate].
      intros H; inversion H; subst; clear H. simpl.
      apply mu_upd with (x := x); auto.
      unfold weight, has_pending in *. simpl. rewrite Eq, Eu, Hl, Hp. simpl. lia.
    + intros H; inversion H; subst; clear H. simpl.
      apply mu_upd with (x := x); auto.
      unfold weight, has_pending in *.
      destruct d; simpl; rewrite Eq, Hl; try rewrite Hp; simpl; lia.
  - destruct (wait_mode s); [discriminate|].
    destruct (first_min (map pending (srcs s))) as [[i m]|] eqn:Ef; [|discriminate].
    intros H; inversion H; subst; clear H. simpl.
    apply first_min_pending in Ef as (x & Ex & Ep).
    apply mu_upd with (x := x); auto.
    unfold weight, has_pending, clear_pending. simpl. rewrite Ep. simpl. lia.
Qed.

Lemma executions_bounded cap : forall es s s',
  run cap s es = Some s' -> length es + mu s' <= mu s.
Proof.
  induction es as [|e es IH]; intros s s' H; simpl in *.
  - inversion H; subst. lia.
  - destruct (step cap s e) as [s1|] eqn:E; [|discriminate].
    apply measure_decreases in E. apply IH in H. lia.
Qed.

Lemma weight_init l : weight (init_src l) = 3 * length l + 7.
Proof.
  unfold weight, init_src, worker_datums, has_pending. simpl.
  rewrite app_length, map_length. simpl. lia.
Qed.

Lemma mu_init Ss : mu (init Ss) = 3 * total Ss + 7 * length Ss.
Proof.
  unfold mu, init, total. cbn [srcs]. induction Ss as [|l Ss IH]; [reflexivity|].
  assert (E : forall a r, list_sum (a :: r) = a + list_sum r) by reflexivity.
  cbn [map concat length]. rewrite E, weight_init, app_length, IH. lia.
Qed.

(* ------------------------------------------------------------------ invariant *)

Definition proto_tail (ms : list msg) : list datum := map DMsg ms ++ [DSum].

Definition src_ok (x : src) : Prop :=
  if live x then
    if got_fi x then exists ms, rd x = proto_tail ms
    else pending x = None /\ exists ms, queue x ++ unsent x = DInfo :: proto_tail ms
  else got_fi x = true /\ drained x.

Definition inv (Ss : list (list msg)) (s : state) : Prop :=
  Forall src_ok (srcs s) /\
  fi_open s = negb (forallb got_fi (srcs s)) /\
  printed s ++ merge (map remaining (srcs s)) = merge Ss.

Lemma msgs_of_app a b : msgs_of (a ++ b) = msgs_of a ++ msgs_of b.
Proof. induction a as [|[|m|] a IH]; simpl; auto. now rewrite IH. Qed.

Lemma msgs_of_map l : msgs_of (map DMsg l) = l.
Proof. induction l; simpl; auto. now rewrite IHl. Qed.

Lemma msgs_of_proto ms : msgs_of (proto_tail ms) = ms.
Proof. unfold proto_tail. rewrite msgs_of_app, msgs_of_map. simpl. apply app_nil_r. Qed.

Lemma proto_tail_not_nil ms : proto_tail ms <> [].
Proof. unfold proto_tail. destruct ms; discriminate. Qed.

Lemma proto_tail_not_info ms r : proto_tail ms <> DInfo :: r.
Proof. unfold proto_tail. destruct ms; discriminate. Qed.

Lemma proto_tail_msg ms m r : proto_tail ms = DMsg m :: r -> exists ms', ms = m :: ms' /\ r = proto_tail ms'.
Proof.
  unfold proto_tail. destruct ms as [|m0 ms]; simpl; intros H; inversion H; subst. eauto.
Qed.

Lemma proto_tail_sum ms r : proto_tail ms = DSum :: r -> ms = [] /\ r = [].
Proof. unfold proto_tail. destruct ms as [|m0 ms]; simpl; intros H; inversion H; auto. Qed.

Lemma inv_init Ss : inv Ss (init Ss).
Proof.
  unfold inv, init. simpl. repeat split.
  - apply Forall_map. apply Forall_forall. intros l _.
    unfold src_ok, init_src. simpl. split; auto. exists l. reflexivity.
  - destruct Ss; reflexivity.
  - rewrite map_map. f_equal. rewrite <- (map_id Ss) at 2. apply map_ext.
    intros l. unfold remaining, rd, init_src, worker_datums. simpl.
    apply (msgs_of_proto l).
Qed.

(* consequences of src_ok *)
Lemma ok_pending_live x m : src_ok x -> pending x = Some m -> live x = true.
Proof.
  unfold src_ok. destruct (live x); auto. intros (_ & Hp & _) E. congruence.
Qed.

Lemma ok_dead_drained x : src_ok x -> live x = false -> drained x.
Proof. unfold src_ok. intros H E. rewrite E in H. tauto. Qed.

Lemma ok_live_more x : src_ok x -> live x = true -> pending x = None -> queue x ++ unsent x <> [].
Proof.
  unfold src_ok. intros H E Ep. rewrite E in H. destruct (got_fi x).
  - destruct H as [ms H]. unfold rd in H. rewrite Ep in H. simpl in H. rewrite H.
    apply proto_tail_not_nil.
  - destruct H as (_ & ms & H). rewrite H. discriminate.
Qed.

Lemma ok_nofi x : src_ok x -> got_fi x = false -> live x = true /\ pending x = None.
Proof.
  unfold src_ok. intros H E. destruct (live x).
  - rewrite E in H. tauto.
  - destruct H. congruence.
Qed.

Lemma drained_remaining x : drained x -> remaining x = [].
Proof. intros (Hp & Hq & Hu). unfold remaining, rd. now rewrite Hp, Hq, Hu. Qed.

(* counting *)
Lemma count_le {A} (p q : A -> bool) l :
  Forall (fun x => p x = true -> q x = true) l -> length (filter p l) <= length (filter q l).
Proof.
  induction 1 as [|x l Hx HF IH]; simpl; auto.
  destruct (p x) eqn:Ep; [rewrite (Hx eq_refl); simpl; lia|].
  destruct (q x); simpl; lia.
Qed.

Lemma count_eq_all {A} (p q : A -> bool) l :
  Forall (fun x => p x = true -> q x = true) l ->
  length (filter p l) = length (filter q l) ->
  Forall (fun x => q x = true -> p x = true) l.
Proof.
  induction 1 as [|x l Hx HF IH]; simpl; intros E; constructor.
  - destruct (p x) eqn:Ep; auto. destruct (q x) eqn:Eq; [|discriminate].
    simpl in E. pose proof (count_le p q l HF). lia.
  - apply IH. destruct (p x) eqn:Ep.
    + rewrite (Hx eq_refl) in E. simpl in E. lia.
    + destruct (q x) eqn:Eq; simpl in E; auto.
      pose proof (count_le p q l HF). lia.
Qed.

Lemma count_neq_exists {A} (p q : A -> bool) l :
  Forall (fun x => p x = true -> q x = true) l ->
  length (filter p l) <> length (filter q l) ->
  exists i x, nth_error l i = Some x /\ q x = true /\ p x = false.
Proof.
  induction 1 as [|x l Hx HF IH]; simpl; intros E; [congruence|].
  destruct (p x) eqn:Ep.
  - rewrite (Hx eq_refl) in E. simpl in E.
    destruct IH as (i & y & Hi & Hy); [lia|]. exists (S i), y. auto.
  - destruct (q x) eqn:Eq.
    + exists 0, x. auto.
    + destruct IH as (i & y & Hi & Hy); [lia|]. exists (S i), y. auto.
Qed.

Lemma forallb_false_exists {A} (g : A -> bool) l :
  forallb g l = false -> exists i x, nth_error l i = Some x /\ g x = false.
Proof.
  induction l as [|a l IH]; simpl; [discriminate|]. intros H.
  destruct (g a) eqn:Ea.
  - destruct (IH H) as (i & x & Hi & Hx). exists (S i), x. auto.
  - exists 0, a. auto.
Qed.

Lemma ok_pending_implies_live l :
  Forall src_ok l -> Forall (fun x => has_pending x = true -> live x = true) l.
Proof.
  intros H. eapply Forall_impl; [|exact H]. intros x Hx Hp. unfold has_pending in Hp.
  destruct (pending x) eqn:E; [|discriminate]. eapply ok_pending_live; eauto.
Qed.

Lemma wait_mode_false s :
  wait_mode s = false -> count_live (srcs s) = count_pending (srcs s) /\ fi_open s = false.
Proof.
  unfold wait_mode. intros H. apply orb_false_iff in H as [H1 H2].
  apply negb_false_iff, Nat.eqb_eq in H1. auto.
Qed.

(* in print mode the pending messages are exactly the heads of what remains *)
Lemma print_mode_heads l :
  Forall src_ok l -> count_live l = count_pending l ->
  heads (map remaining l) = map pending l.
Proof.
  intros Hok Hc. unfold heads. rewrite map_map. apply map_ext_in. intros x Hx.
  pose proof (count_eq_all has_pending live l (ok_pending_implies_live l Hok) (eq_sym Hc)) as Hall.
  rewrite Forall_forall in Hall, Hok. specialize (Hall x Hx). specialize (Hok x Hx).
  destruct (pending x) as [m|] eqn:Ep.
  - unfold remaining, rd. now rewrite Ep.
  - destruct (live x) eqn:El.
    + specialize (Hall eq_refl). unfold has_pending in Hall. rewrite Ep in Hall. discriminate.
    + rewrite drained_remaining; auto. now apply ok_dead_drained.
Qed.

Lemma close_fi_ok l l' open :
  open = negb (forallb got_fi l) ->
  (forallb got_fi l = true -> forallb got_fi l' = true) ->
  close_fi open l' = negb (forallb got_fi l').
Proof.
  unfold close_fi. intros -> Hm. destruct (forallb got_fi l); simpl.
  - now rewrite Hm.
  - destruct (forallb got_fi l'); reflexivity.
Qed.

Lemma inv_step cap Ss s e s' : inv Ss s -> step cap s e = Some s' -> inv Ss s'.
Proof.
  intros (Hok & Hfi & Hm). unfold step. destruct e as [i|i|].
  - (* Send *)
    destruct (nth_error (srcs s) i) as [x|] eqn:Ex; [|discriminate].
    destruct (unsent x) as [|d u] eqn:Eu; [discriminate|].
    destruct (Nat.ltb (length (queue x)) cap); [|discriminate].
    intros H; inversion H; subst; clear H. unfold inv. simpl.
    assert (Hrd : forall y, nth_error (srcs s) i = Some y ->
              rd (mkSrc u (queue x ++ [d]) (pending x) (live x) (got_fi x)) = rd y).
    { intros y Hy. rewrite Ex in Hy. inversion Hy; subst y. unfold rd. simpl.
      rewrite Eu, <- app_assoc. reflexivity. }
    repeat split.
    + apply upd_Forall; auto. intros y Hy. pose proof (Hrd y Hy) as Hr.
      rewrite Ex in Hy. inversion Hy; subst y.
      rewrite Forall_forall in Hok. pose proof (Hok x (nth_error_In _ _ Ex)) as Hx.
      unfold src_ok in *. simpl. destruct (live x).
      * destruct (got_fi x).
        -- destruct Hx as [ms Hx]. exists ms. now rewrite Hr.
        -- destruct Hx as (Hp & ms & Hx). split; auto. exists ms.
           rewrite <- app_assoc. simpl. now rewrite <- Eu.
      * destruct Hx as (_ & _ & _ & Hu). congruence.
    + rewrite Hfi. f_equal. symmetry. apply forallb_upd_same.
      intros y Hy. rewrite Ex in Hy. now inversion Hy.
    + rewrite map_upd_same; auto. intros y Hy. unfold remaining. now rewrite (Hrd y Hy).
  - (* Recv *)
    destruct (wait_mode s); [|discriminate].
    destruct (nth_error (srcs s) i) as [x|] eqn:Ex; [|discriminate].
    destruct (live x && negb (has_pending x)) eqn:El; [|discriminate].
    apply andb_true_iff in El as [Hl Hp]. apply negb_true_iff in Hp.
    assert (Ep : pending x = None).
    { unfold has_pending in Hp. destruct (pending x); [discriminate|reflexivity]. }
    pose proof Hok as Hok'. rewrite Forall_forall in Hok'.
    pose proof (Hok' x (nth_error_In _ _ Ex)) as Hx. clear Hok'.
    unfold src_ok in Hx. rewrite Hl in Hx.
    destruct (queue x) as [|d q] eqn:Eq.
    + (* RecvError: excluded by the protocol *)
      destruct (unsent x) eqn:Eu; [|discriminate]. exfalso.
      destruct (got_fi x).
      * destruct Hx as [ms Hx]. unfold rd in Hx. rewrite ?Ep, ?Eq, ?Eu in Hx.
        symmetry in Hx. now apply proto_tail_not_nil in Hx.
      * destruct Hx as (_ & ms & Hx). rewrite ?Eq, ?Eu in Hx. discriminate.
    + intros H; inversion H; subst; clear H. unfold inv. simpl.
      assert (Hsame : forall y, nth_error (srcs s) i = Some y -> y = x).
      { intros y Hy. rewrite Ex in Hy. now inversion Hy. }
      destruct d as [|m|].
      * (* FileInfo *)
        assert (Hq : got_fi x = false /\ exists ms, q ++ unsent x = proto_tail ms).
        { destruct (got_fi x).
          - destruct Hx as [ms Hx]. unfold rd in Hx. rewrite ?Ep, ?Eq in Hx. simpl in Hx.
            symmetry in Hx. now apply proto_tail_not_info in Hx.
          - destruct Hx as (_ & ms & Hx). rewrite ?Eq in Hx. simpl in Hx. inversion Hx. eauto. }
        destruct Hq as (Hg & ms & Hq).
        repeat split.
        -- apply upd_Forall; auto. intros y _. unfold src_ok, recv_datum. simpl. rewrite Hl.
           exists ms. unfold rd. simpl. now rewrite Ep.
        -- apply (close_fi_ok (srcs s)); auto. intros Hall.
           apply forallb_upd_mono; auto.
        -- rewrite map_upd_same; auto. intros y Hy. apply Hsame in Hy. subst y.
           unfold remaining, rd, recv_datum. simpl. now rewrite Ep, Eq.
      * (* NewMessage *)
        assert (Hq : got_fi x = true /\ exists ms, DMsg m :: q ++ unsent x = proto_tail ms).
        { destruct (got_fi x).
          - destruct Hx as [ms Hx]. unfold rd in Hx. rewrite ?Ep, ?Eq in Hx. simpl in Hx. eauto.
          - destruct Hx as (_ & ms & Hx). rewrite ?Eq in Hx. discriminate. }
        destruct Hq as (Hg & ms & Hq).
        repeat split.
        -- apply upd_Forall; auto. intros y _. unfold src_ok, recv_datum. simpl. rewrite Hl, Hg.
           exists ms. unfold rd. simpl. exact Hq.
        -- apply (close_fi_ok (srcs s)); auto. intros Hall.
           apply forallb_upd_mono; auto.
        -- rewrite map_upd_same; auto. intros y Hy. apply Hsame in Hy. subst y.
           unfold remaining, rd, recv_datum. simpl. now rewrite Ep, Eq.
      * (* FileSummary *)
        assert (Hq : got_fi x = true /\ q = [] /\ unsent x = []).
        { destruct (got_fi x).
          - destruct Hx as [ms Hx]. unfold rd in Hx. rewrite ?Ep, ?Eq in Hx. simpl in Hx.
            symmetry in Hx. apply proto_tail_sum in Hx as [_ Hx].
            apply app_eq_nil in Hx. tauto.
          - destruct Hx as (_ & ms & Hx). rewrite ?Eq in Hx. discriminate. }
        destruct Hq as (Hg & -> & Hu).
        repeat split.
        -- apply upd_Forall; auto. intros y _. unfold src_ok, recv_datum, drained. simpl. auto.
        -- apply (close_fi_ok (srcs s)); auto. intros Hall.
           apply forallb_upd_mono; auto.
        -- rewrite map_upd_same; auto. intros y Hy. apply Hsame in Hy. subst y.
           unfold remaining, rd, recv_datum. simpl. now rewrite Ep, Eq, Hu.
  - (* Print *)
    destruct (wait_mode s) eqn:Ew; [discriminate|].
    apply wait_mode_false in Ew as [Hc Hopen].
    destruct (first_min (map pending (srcs s))) as [[i m]|] eqn:Ef; [|discriminate].
    intros H; inversion H; subst; clear H. unfold inv. simpl.
    pose proof (first_min_pending _ _ _ Ef) as (x & Ex & Ep).
    assert (Hsame : forall y, nth_error (srcs s) i = Some y -> y = x).
    { intros y Hy. rewrite Ex in Hy. now inversion Hy. }
    pose proof Hok as Hok'. rewrite Forall_forall in Hok'.
    pose proof (Hok' x (nth_error_In _ _ Ex)) as Hx. clear Hok'.
    repeat split.
    + apply upd_Forall; auto. intros y Hy. apply Hsame in Hy. subst y.
      pose proof (ok_pending_live x m Hx Ep) as Hl.
      unfold src_ok in *. rewrite Hl in Hx. unfold clear_pending. simpl. rewrite Hl.
      destruct (got_fi x).
      * destruct Hx as [ms Hx]. unfold rd in Hx. rewrite Ep in Hx. simpl in Hx.
        symmetry in Hx. apply proto_tail_msg in Hx as (ms' & _ & Hx). exists ms'.
        unfold rd. simpl. exact Hx.
      * destruct Hx as [Hx _]. congruence.
    + rewrite Hfi. f_equal. symmetry. apply forallb_upd_same.
      intros y Hy. apply Hsame in Hy. now subst y.
    + rewrite <- Hm, <- app_assoc. f_equal. simpl.
      rewrite (merge_eq (map remaining (srcs s))). unfold pick.
      rewrite (print_mode_heads _ Hok Hc), Ef. f_equal. f_equal.
      apply map_upd_pop with (x := x); auto.
      unfold remaining, rd, clear_pending. simpl. now rewrite Ep.
Qed.

Lemma inv_reachable cap Ss s : reachable cap Ss s -> inv Ss s.
Proof. induction 1; [apply inv_init | eapply inv_step; eauto]. Qed.

(* ------------------------------------------------------------------ progress *)

Lemma final_false_live l :
  forallb (fun x => negb (live x)) l = false -> 0 < count_live l.
Proof.
  unfold count_live. induction l as [|a l IH]; simpl; [discriminate|].
  destruct (live a); simpl; [lia|]. auto.
Qed.

Lemma all_none_count l :
  Forall (fun o => o = None) (map pending l) -> count_pending l = 0.
Proof.
  unfold count_pending. induction l as [|a l IH]; simpl; auto. intros H.
  inversion H as [|? ? Ha Hl]; subst. unfold has_pending at 1. rewrite Ha. simpl. auto.
Qed.

Lemma no_deadlock cap Ss s :
  1 <= cap -> reachable cap Ss s -> final s = false -> exists e s', step cap s e = Some s'.
Proof.
  intros Hcap Hr Hf. apply inv_reachable in Hr as (Hok & Hfi & _).
  destruct (wait_mode s) eqn:Ew.
  - (* wait mode: some live source without pending message *)
    assert (exists i x, nth_error (srcs s) i = Some x /\ live x = true /\ pending x = None)
      as (i & x & Ex & Hl & Ep).
    { unfold wait_mode in Ew. apply orb_true_iff in Ew as [Ew|Ew].
      - apply negb_true_iff, Nat.eqb_neq in Ew.
        destruct (count_neq_exists has_pending live (srcs s)) as (i & x & Ex & Hl & Hp).
        + now apply ok_pending_implies_live.
        + unfold count_live, count_pending in Ew. congruence.
        + exists i, x. repeat split; auto. unfold has_pending in Hp.
          destruct (pending x); [discriminate|reflexivity].
      - rewrite Ew in Hfi. symmetry in Hfi. apply negb_true_iff in Hfi.
        apply forallb_false_exists in Hfi as (i & x & Ex & Hg).
        rewrite Forall_forall in Hok. pose proof (Hok x (nth_error_In _ _ Ex)) as Hx.
        apply ok_nofi in Hx as [Hl Hp]; auto. exists i, x. auto. }
    rewrite Forall_forall in Hok. pose proof (Hok x (nth_error_In _ _ Ex)) as Hx.
    pose proof (ok_live_more x Hx Hl Ep) as Hmore.
    destruct (queue x) as [|d q] eqn:Eq.
    + destruct (unsent x) as [|d u] eqn:Eu; [now simpl in Hmore|].
      exists (Send i). unfold step. rewrite Ex, Eu, Eq. simpl.
      destruct (Nat.ltb_spec 0 cap); [eauto|lia].
    + exists (Recv i). unfold step. rewrite Ew, Ex, Eq, Hl.
      unfold has_pending. rewrite Ep. simpl. eauto.
  - (* print mode: something is pending *)
    exists Print. unfold step. rewrite Ew.
    destruct (first_min (map pending (srcs s))) as [[i m]|] eqn:Ef; [eauto|].
    exfalso. apply first_min_none, all_none_count in Ef.
    apply wait_mode_false in Ew as [Hc _]. apply final_false_live in Hf. lia.
Qed.

Lemma final_output_unique cap Ss s :
  reachable cap Ss s -> final s = true ->
  printed s = merge Ss /\ Forall drained (srcs s).
Proof.
  intros Hr Hf. apply inv_reachable in Hr as (Hok & _ & Hm).
  assert (Hd : Forall drained (srcs s)).
  { unfold final in Hf. rewrite forallb_forall in Hf. rewrite Forall_forall in *.
    intros x Hx. apply ok_dead_drained; auto. specialize (Hf x Hx).
    now apply negb_true_iff in Hf. }
  split; auto. rewrite <- Hm, merge_nil; [now rewrite app_nil_r|].
  apply Forall_map. eapply Forall_impl; [|exact Hd]. apply drained_remaining.
Qed.

Lemma reachable_run cap Ss : forall es s s',
  reachable cap Ss s -> run cap s es = Some s' -> reachable cap Ss s'.
Proof.
  induction es as [|e es IH]; intros s s' Hr H; simpl in H.
  - now inversion H; subst.
  - destruct (step cap s e) as [s1|] eqn:E; [|discriminate].
    eapply IH; [|exact H]. apply reach_step with (s := s) (e := e); auto.
Qed.

(* every maximal execution, under any schedule, ends with the same output *)
Lemma schedule_independence cap Ss es s' :
  1 <= cap -> run cap (init Ss) es = Some s' -> (forall e, step cap s' e = None) ->
  final s' = true /\ printed s' = merge Ss /\ Forall drained (srcs s').
Proof.
  intros Hcap Hrun Hstuck.
  assert (Hr : reachable cap Ss s') by (eapply reachable_run; eauto; constructor).
  destruct (final s') eqn:Hf.
  - split; auto. eapply final_output_unique; eauto.
  - destruct (no_deadlock cap Ss s' Hcap Hr Hf) as (e & s2 & He). rewrite Hstuck in He. discriminate.
Qed.

(* and complete executions exist (the statement above is not vacuous) *)
Lemma complete_run_exists_n cap Ss n : forall s,
  1 <= cap -> reachable cap Ss s -> mu s <= n ->
  exists es s', run cap s es = Some s' /\ final s' = true.
Proof.
  induction n as [|n IH]; intros s Hcap Hr Hn; destruct (final s) eqn:Hf;
    try (exists [], s; simpl; auto; fail).
  - destruct (no_deadlock cap Ss s Hcap Hr Hf) as (e & s1 & He).
    apply measure_decreases in He. lia.
  - destruct (no_deadlock cap Ss s Hcap Hr Hf) as (e & s1 & He).
    destruct (IH s1) as (es & s' & Hrun & Hf'); auto.
    + apply reach_step with (s := s) (e := e); auto.
    + apply measure_decreases in He. lia.
    + exists (e :: es), s'. simpl. rewrite He. auto.
Qed.

Lemma complete_run_exists cap Ss :
  1 <= cap -> exists es s', run cap (init Ss) es = Some s' /\ final s' = true /\ printed s' = merge Ss.
Proof.
  intros Hcap.
  destruct (complete_run_exists_n cap Ss (mu (init Ss)) (init Ss)) as (es & s' & Hrun & Hf); auto.
  - constructor.
  - exists es, s'. repeat split; auto.
    eapply final_output_unique; eauto. eapply reachable_run; eauto. constructor.
Qed.

(* ------------------------------------------------------------------ replay *)

Lemma prepend_oof t r : prepend t r = ROutOfFuel -> r = ROutOfFuel.
Proof. destruct r; simpl; auto; discriminate. Qed.

Lemma prepend_done t r t' s' :
  prepend t r = RDone t' s' -> exists t0, r = RDone t0 s' /\ t' = t ++ t0.
Proof. destruct r; simpl; intros H; inversion H; subst; eauto. Qed.

Lemma replay_recv_steps cap s i k s' :
  replay_recv cap s i k = Some s' ->
  (exists s1, step cap s (Send i) = Some s1 /\ step cap s1 (Recv i) = Some s') \/
  step cap s (Recv i) = Some s'.
Proof.
  unfold replay_recv. destruct (nth_error (srcs s) i) as [x|]; [|discriminate].
  destruct (unsent x) as [|d u].
  - destruct (kind_eqb k KE); [auto|discriminate].
  - destruct (kind_eqb (datum_kind d) k); [|discriminate].
    destruct (step cap s (Send i)) as [s1|] eqn:E; [|discriminate]. eauto.
Qed.

Lemma replay_recv_mu cap s i k s' : replay_recv cap s i k = Some s' -> mu s' < mu s.
Proof.
  intros H. apply replay_recv_steps in H as [(s1 & H1 & H2)|H].
  - apply measure_decreases in H1, H2. lia.
  - now apply measure_decreases in H.
Qed.

Lemma replay_recv_reachable cap Ss s i k s' :
  reachable cap Ss s -> replay_recv cap s i k = Some s' -> reachable cap Ss s'.
Proof.
  intros Hr H. apply replay_recv_steps in H as [(s1 & H1 & H2)|H].
  - apply reach_step with (s := s1) (e := Recv i); auto.
    apply reach_step with (s := s) (e := Send i); auto.
  - apply reach_step with (s := s) (e := Recv i); auto.
Qed.

Lemma replay_S f cap s recvs :
  replay (S f) cap s recvs =
  if final s then
    match recvs with [] => RDone [] s | _ :: _ => RBad 1 [] end
  else if wait_mode s then
    match recvs with
    | [] => RBad 2 []
    | (i, k) :: r =>
        match replay_recv cap s i k with
        | Some s' => prepend (TR i k :: if disconnects k then [TD i] else []) (replay f cap s' r)
        | None => RBad 3 []
        end
    end
  else
    match first_min (map pending (srcs s)), step cap s Print with
    | Some (i, _), Some s' => prepend [TP i] (replay f cap s' recvs)
    | _, _ => RBad 4 []
    end.
Proof. reflexivity. Qed.

Lemma replay_fuel_enough cap : forall fuel s recvs,
  mu s < fuel -> replay fuel cap s recvs <> ROutOfFuel.
Proof.
  induction fuel as [|f IH]; intros s recvs Hmu; [lia|]. rewrite replay_S.
  destruct (final s); [destruct recvs; discriminate|].
  destruct (wait_mode s).
  - destruct recvs as [|[i k] r]; [discriminate|].
    destruct (replay_recv cap s i k) as [s1|] eqn:E; [|discriminate].
    intros H. apply prepend_oof in H. revert H. apply IH.
    apply replay_recv_mu in E. lia.
  - destruct (first_min (map pending (srcs s))) as [[i m]|]; [|discriminate].
    destruct (step cap s Print) as [s1|] eqn:E; [|discriminate].
    intros H. apply prepend_oof in H. revert H. apply IH.
    apply measure_decreases in E. lia.
Qed.

Lemma coord_replay_never_out_of_fuel cap Ss recvs : coord_replay cap Ss recvs <> ROutOfFuel.
Proof. unfold coord_replay. apply replay_fuel_enough. lia. Qed.

(* a successful replay is a complete execution of the transition system *)
Lemma replay_reachable cap Ss : forall fuel s recvs t s',
  reachable cap Ss s -> replay fuel cap s recvs = RDone t s' ->
  reachable cap Ss s' /\ final s' = true.
Proof.
  induction fuel as [|f IH]; intros s recvs t s' Hr H; [discriminate|]. rewrite replay_S in H.
  destruct (final s) eqn:Hf.
  - destruct recvs; [|discriminate]. inversion H; subst. auto.
  - destruct (wait_mode s).
    + destruct recvs as [|[i k] r]; [discriminate|].
      destruct (replay_recv cap s i k) as [s1|] eqn:E; [|discriminate].
      apply prepend_done in H as (t0 & H & _). eapply IH; [|exact H].
      eapply replay_recv_reachable; eauto.
    + destruct (first_min (map pending (srcs s))) as [[i m]|]; [|discriminate].
      destruct (step cap s Print) as [s1|] eqn:E; [|discriminate].
      apply prepend_done in H as (t0 & H & _). eapply IH; [|exact H].
      apply reach_step with (s := s) (e := Print); auto.
Qed.

Lemma coord_replay_output cap Ss recvs t s' :
  coord_replay cap Ss recvs = RDone t s' ->
  final s' = true /\ printed s' = merge Ss /\ Forall drained (srcs s').
Proof.
  unfold coord_replay. intros H.
  apply (replay_reachable cap Ss) in H as [Hr Hf]; [|constructor].
  split; auto. eapply final_output_unique; eauto.
Qed.

(* ------------------------------------------------------------------ isolation (for C07) *)

(* A source that fails after delivering k of its messages (k = 0: FileInfo(err) then
   FileSummary) follows the protocol of the shorter source [firstn k x]; whatever the
   schedule, the other sources' messages are printed exactly as if the failing source
   were not there, and the failing source contributes exactly its first k messages. *)
Lemma failing_source_isolated cap A x B k s :
  well_tagged (A ++ x :: B) ->
  reachable cap (A ++ firstn k x :: B) s -> final s = true ->
  filter (fun m => negb (from_src (length A) m)) (printed s) = merge (A ++ B) /\
  filter (from_src (length A)) (printed s) = firstn k x.
Proof.
  intros Hwt Hr Hf. destruct (final_output_unique _ _ _ Hr Hf) as [-> _]. split.
  - apply merge_failing_source with (x := x); auto.
    apply Forall_forall. intros m Hm. apply Hwt. rewrite nth_middle.
    rewrite <- (firstn_skipn k x). apply in_or_app. now left.
  - now apply merge_prefix_source.
Qed.

Lemma failing_source_protocol l k :
  worker_datums (firstn k l) = DInfo :: map DMsg (firstn k l) ++ [DSum].
Proof. reflexivity. Qed.
