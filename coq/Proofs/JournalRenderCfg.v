(* Proofs/JournalRenderCfg.v — the configuration regenerated from the current source
   (Gen/JournalTables.src_cfg) satisfies the conditions of the theorems (by computation: this file
   stops compiling when the source changes in a way the theorems do not cover), and the witnesses
   of the refuted statements. *)
From Coq Require Import String.
From S4.Base Require Import Bytes.
From S4.Model Require Import Journal JournalRender.
From S4.Spec Require Import JournalSpec.
From S4.Gen Require Import JournalTables.
From S4.Proofs Require Import JournalWindow JournalExport JournalRenderBasic JournalRenderMessage.
Open Scope list_scope.
Open Scope N_scope.

Lemma src_cfg_ok_l : cfg_ok src_cfg = true.
Proof. vm_compute. reflexivity. Qed.

Lemma src_formats_ok : cfg_formats_ok src_cfg = true.
Proof. exact (cfg_ok_formats src_cfg src_cfg_ok_l). Qed.

Lemma src_is_cat o : is_cat (cfg_dispatch src_cfg o) = true <-> o = OCat.
Proof. destruct o; cbn; split; intro H; try discriminate; reflexivity. Qed.

Lemma src_emerg : emerg_min src_cfg = EMERG_STOP.
Proof. reflexivity. Qed.

(* which renderings ask for the monotonic time (and so, with the call of sd_id128_get_boot, the host) *)
Lemma src_host_independent off b1 b2 o e :
  o <> OShortMonotonic -> o <> OVerbose -> o <> OExport ->
  next_entry src_cfg (mkEnv off b1) o e = next_entry src_cfg (mkEnv off b2) o e.
Proof.
  intros H1 H2 H3. apply host_independent_l. destruct o; cbn; try exact I; contradiction.
Qed.

(* ------------------------------------------------------------------ witnesses *)

(* an entry of the Ubuntu 16 fixture (first entry of system.journal), reduced to the fields the
   renderings look at *)
Definition w_entry1 : entry :=
  mkEntry 1702683843814918%Z
          (s2b "s=301da6bc860f44808d5e36ddb58400db;i=6bd;b=1809e3bbbb334d62937ce8827b16b5f0;m=3217e43cc;t=60c94f9ace606;x=4e442f8e0c086ec5")
          (Some 13446824908)
          [(s2b "_TRANSPORT", s2b "syslog"); (s2b "PRIORITY", s2b "6"); (s2b "SYSLOG_IDENTIFIER", s2b "rtkit-daemon");
           (s2b "SYSLOG_PID", s2b "1170"); (s2b "MESSAGE", s2b "Demoting known real-time threads.");
           (s2b "_PID", s2b "1170"); (s2b "_COMM", s2b "rtkit-daemon"); (s2b "_HOSTNAME", s2b "fink");
           (s2b "_SOURCE_REALTIME_TIMESTAMP", s2b "1702683843818187")].

(* the same entry without its MESSAGE field (the crafted journals of the check: MESSAGE= -> MESSAGX=) *)
Definition w_entry_nomsg : entry :=
  mkEntry (e_time w_entry1) (e_cursor w_entry1) (e_mono w_entry1)
          (map (fun f => if beqb (fst f) (s2b "MESSAGE") then (s2b "MESSAGX", snd f) else f) (e_fields w_entry1)).

Example w_entry1_renderings :
  let ev := mkEnv (-12600)%Z true in
  next_entry src_cfg ev OShort w_entry1 = NFound (s2b "Dec 15 20:14:03 fink rtkit-daemon[1170]: Demoting known real-time threads." ++ [NL]) /\
  next_entry src_cfg ev OShortMonotonic w_entry1 = NFound (s2b "[13446.824908] fink rtkit-daemon[1170]: Demoting known real-time threads." ++ [NL]) /\
  next_entry src_cfg ev OShortFull w_entry1 = NFound (s2b "Fri 2023-12-15 20:14:03 -03:30 fink rtkit-daemon[1170]: Demoting known real-time threads." ++ [NL]) /\
  next_entry src_cfg ev OCat w_entry1 = NFound (s2b "Demoting known real-time threads." ++ [NL]) /\
  next_entry src_cfg ev OShort w_entry_nomsg = NFound (s2b "Dec 15 20:14:03 fink rtkit-daemon[1170]" ++ [NL]).
Proof. vm_compute. repeat split; reflexivity. Qed.

(* decidable well-formedness, for witnesses *)
Definition wf_keyb (k : bytes) : bool :=
  negb (match k with [] => true | _ => false end) && negb (existsb (N.eqb NL) k) && negb (existsb (N.eqb EQ) k).
Definition wf_entryb (e : entry) : bool :=
  negb (existsb (N.eqb NL) (e_cursor e))
  && forallb (fun f => wf_keyb (fst f) && (len (snd f) <? 18446744073709551616)) (e_fields e).

Lemma not_in_existsb c l : existsb (N.eqb c) l = false -> ~ In c l.
Proof.
  intros H Hin. assert (existsb (N.eqb c) l = true) by (apply existsb_exists; exists c; split; [exact Hin|apply N.eqb_refl]).
  congruence.
Qed.

Lemma wf_entryb_ok e : wf_entryb e = true -> wf_entry e.
Proof.
  unfold wf_entryb. intro H. apply andb_true_iff in H as [Hc Hf]. split.
  - apply not_in_existsb. apply negb_true_iff. exact Hc.
  - apply Forall_forall. intros f Hin. rewrite forallb_forall in Hf. specialize (Hf f Hin).
    apply andb_true_iff in Hf as [Hk Hl]. unfold wf_keyb in Hk.
    apply andb_true_iff in Hk as [Hk H3]. apply andb_true_iff in Hk as [H1 H2].
    split; [split; [|split]|].
    + intro E. rewrite E in H1. discriminate.
    + apply not_in_existsb. apply negb_true_iff. exact H2.
    + apply not_in_existsb. apply negb_true_iff. exact H3.
    + apply N.ltb_lt. exact Hl.
Qed.

Lemma wf_entry_keys e : wf_entry e -> keys_wf (e_fields e).
Proof.
  intros [_ H]. unfold keys_wf. eapply Forall_impl; [|exact H]. intros f [[_ [_ Hk]] _]. exact Hk.
Qed.

Lemma bytes_neq_by_beqb a b : beqb a b = false -> a <> b.
Proof. intros H E. subst. rewrite beqb_refl in H. discriminate. Qed.

Lemma next_res_neq r1 r2 : beqb (entry_bytes r1) (entry_bytes r2) = false -> r1 <> r2.
Proof. intros H E. subst. rewrite beqb_refl in H. discriminate. Qed.

(* "the rendering text is never empty for an entry that passes the window" fails for cat (only for
   cat: next_entry_found_l): an entry without MESSAGE prints nothing, as with journalctl -o cat *)
Lemma render_nonempty_refuted_l :
  exists o e ev, cfg_ok src_cfg = true /\ wf_entry e /\ entry_bytes (next_entry src_cfg ev o e) = [].
Proof.
  exists OCat, w_entry_nomsg, (mkEnv 0%Z true). split; [exact src_cfg_ok_l|]. split; [|vm_compute; reflexivity].
  apply wf_entryb_ok. vm_compute. reflexivity.
Qed.

(* FINDING host_boot_id_unreadable (repaired in /repo ab7eeab4; regression lemma about the code before the
   repair, [set_needs_host true]): with the call of sd_id128_get_boot in get_monotonic_usec the renderings
   that show the monotonic time depended on the HOST although the journal file holds the value:
   short-monotonic printed a blank field, export dropped __MONOTONIC_TIMESTAMP (fields NOT intact),
   verbose dropped the same line *)
Definition cfg_with_host_call : jcfg := set_needs_host true src_cfg.

Lemma host_dependence_refuted_l :
  exists e off,
    next_entry cfg_with_host_call (mkEnv off true) OShortMonotonic e <> next_entry cfg_with_host_call (mkEnv off false) OShortMonotonic e /\
    next_entry cfg_with_host_call (mkEnv off true) OVerbose e <> next_entry cfg_with_host_call (mkEnv off false) OVerbose e /\
    next_entry cfg_with_host_call (mkEnv off true) OExport e <> next_entry cfg_with_host_call (mkEnv off false) OExport e /\
    length (export_fields (host_view cfg_with_host_call (mkEnv off false) e)) <> length (export_fields e) /\
    next_entry cfg_with_host_call (mkEnv off false) OShortMonotonic e
    = NFound (s2b "[            ] fink rtkit-daemon[1170]: Demoting known real-time threads." ++ [NL]).
Proof.
  exists w_entry1, 0%Z. split; [|split; [|split; [|split]]].
  - apply next_res_neq. vm_compute. reflexivity.
  - apply next_res_neq. vm_compute. reflexivity.
  - apply next_res_neq. vm_compute. reflexivity.
  - vm_compute. discriminate.
  - vm_compute. reflexivity.
Qed.

(* the repaired get_monotonic_usec (no call of sd_id128_get_boot): no rendering depends on the host *)
Lemma host_independent_repaired_l off b1 b2 o e :
  next_entry (set_needs_host false src_cfg) (mkEnv off b1) o e = next_entry (set_needs_host false src_cfg) (mkEnv off b2) o e.
Proof. apply host_independent_all_l. reflexivity. Qed.

(* FINDING verbose_multivalued_field (repaired in /repo 98ec3000; regression lemma about the code before
   the repair, [set_verbose_multi false]): next_verbose collected the data objects in a HashMap keyed by
   the field name, so of a field with several values (SYSLOG_FACILITY=DHCP4 and SYSLOG_FACILITY=DHCP6 in
   8 entries of the Ubuntu 16 fixture) only the last one was printed; journalctl -o verbose and the export
   rendering show all of them *)
Lemma infixb_complete a : forall b, infix a b -> infixb a b = true.
Proof.
  intros b [p [s ->]]. induction p as [|x p IH].
  - cbn [app]. assert (H : prefixb a (a ++ s) = true).
    { clear. induction a as [|y a IH]; [destruct s; reflexivity|]. cbn [app prefixb]. rewrite N.eqb_refl, IH. reflexivity. }
    destruct (a ++ s); cbn [infixb]; rewrite H; reflexivity.
  - cbn [app infixb]. rewrite IH. apply orb_true_r.
Qed.

Definition w_entry_multi : entry :=
  mkEntry 1702684442126627%Z
          (s2b "s=301da6bc860f44808d5e36ddb58400db;i=6da;b=1809e3bbbb334d62937ce8827b16b5f0;m=34527c6e9;t=60c951d566923;x=fe5e288c1c72eef7")
          (Some 14045136617)
          [(s2b "_TRANSPORT", s2b "syslog"); (s2b "PRIORITY", s2b "6"); (s2b "SYSLOG_FACILITY", s2b "DHCP4");
           (s2b "SYSLOG_FACILITY", s2b "DHCP6"); (s2b "SYSLOG_IDENTIFIER", s2b "dhclient");
           (s2b "MESSAGE", s2b "DHCPREQUEST of 192.168.1.5 on enp0s3"); (s2b "_HOSTNAME", s2b "fink")].

Definition cfg_with_hashmap : jcfg := set_verbose_multi false src_cfg.

Lemma verbose_multivalued_refuted_l :
  exists e k v b ev, wf_entry e /\ In (k, v) (e_fields e) /\
    next_entry cfg_with_hashmap ev OVerbose e = NFound b /\ ~ infix (vline cfg_with_hashmap k v) b /\
    infix (print_field_safe (k, v)) (render_export e).
Proof.
  exists w_entry_multi, (s2b "SYSLOG_FACILITY"), (s2b "DHCP4").
  eexists. exists (mkEnv 0%Z true).
  split; [apply wf_entryb_ok; vm_compute; reflexivity|].
  split; [vm_compute; do 2 right; left; reflexivity|].
  split; [vm_compute; reflexivity|]. split.
  - intro H. apply infixb_complete in H. vm_compute in H. discriminate.
  - apply export_field_l. vm_compute. do 2 right. left. reflexivity.
Qed.

(* the repaired next_verbose (every data object kept): both values are in the text *)
Example verbose_multivalued_repaired :
  cfg_verbose_multi (set_verbose_multi true src_cfg) = true /\
  exists b, next_entry (set_verbose_multi true src_cfg) (mkEnv 0%Z true) OVerbose w_entry_multi = NFound b /\
            infixb (s2b "    SYSLOG_FACILITY=DHCP4" ++ [NL] ++ s2b "    SYSLOG_FACILITY=DHCP6" ++ [NL]) b = true.
Proof. split; [reflexivity|]. eexists. split; vm_compute; reflexivity. Qed.

(* the hypotheses of message_verbatim_l are satisfiable *)
Example message_verbatim_example :
  cfg_ok src_cfg = true /\ keys_wf (e_fields w_entry1) /\
  In (cfg_k_msg src_cfg, s2b "Demoting known real-time threads.") (firstn (emerg_min src_cfg) (e_fields w_entry1)) /\
  (forall v, In (cfg_k_msg src_cfg, v) (e_fields w_entry1) -> v = s2b "Demoting known real-time threads.").
Proof.
  split; [exact src_cfg_ok_l|]. split; [apply wf_entry_keys, wf_entryb_ok; vm_compute; reflexivity|]. split.
  - vm_compute. do 4 right. left. reflexivity.
  - intros v H. vm_compute in H.
    repeat (destruct H as [H|H]; [try discriminate H; injection H as <-; reflexivity|]). destruct H.
Qed.

(* a run of the model on a two-entry journal (reference oracle): every rendering prints both entries,
   cat prints only the one that has a MESSAGE *)
Example journal_printed10_example :
  let j := [w_entry_nomsg; w_entry1] in
  nondecreasing (times j) /\ valid_realtimes (times j) /\
  journal_printed10 ref_seek_head ref_seek_realtime stop_after src_cfg (mkEnv 0%Z true) OShort None None j = 2%nat /\
  journal_printed10 ref_seek_head ref_seek_realtime stop_after src_cfg (mkEnv 0%Z true) OVerbose None None j = 2%nat /\
  journal_printed10 ref_seek_head ref_seek_realtime stop_after src_cfg (mkEnv 0%Z true) OCat None None j = 1%nat.
Proof.
  split; [cbn; lia|]. split; [intros t [<-|[<-|[]]]; reflexivity|]. vm_compute. repeat split; reflexivity.
Qed.

(* more facts about the configuration of the current source *)
From S4.Proofs Require Import JournalRenderShort JournalRenderVerbose.

Lemma src_need_five : need_five src_cfg.
Proof. reflexivity. Qed.

Lemma src_order_nodup : NoDup (cfg_order src_cfg).
Proof. apply distinctb_NoDup. vm_compute. reflexivity. Qed.

(* the hypotheses of short_tail_spec_l are satisfiable, and what the statement gives for the witness *)
Example short_tail_spec_example :
  keys_wf (e_fields w_entry1) /\ NoDup (map fst (firstn (cfg_emerg_short src_cfg) (e_fields w_entry1))) /\
  short_tail (sf_lookup src_cfg (firstn (cfg_emerg_short src_cfg) (e_fields w_entry1)))
  = s2b " fink rtkit-daemon[1170]: Demoting known real-time threads." ++ [NL].
Proof.
  split; [apply wf_entry_keys, wf_entryb_ok; vm_compute; reflexivity|]. split; [|vm_compute; reflexivity].
  apply distinctb_NoDup. vm_compute. reflexivity.
Qed.

(* verbose of the witness under a small order table: table names first (all their values, in enumeration
   order), the rest sorted, _SOURCE_REALTIME_TIMESTAMP last *)
Example verbose_order_example :
  next_entry (set_order [s2b "_PID"; s2b "MESSAGE"; s2b "__MONOTONIC_TIMESTAMP"] src_cfg) (mkEnv 0%Z true) OVerbose w_entry1
  = NFound (s2b "Fri 2023-12-15 23:44:03.814918 +00:00 [s=301da6bc860f44808d5e36ddb58400db;i=6bd;b=1809e3bbbb334d62937ce8827b16b5f0;m=3217e43cc;t=60c94f9ace606;x=4e442f8e0c086ec5]" ++ [NL]
            ++ s2b "    _PID=1170" ++ [NL]
            ++ s2b "    MESSAGE=Demoting known real-time threads." ++ [NL]
            ++ s2b "    __MONOTONIC_TIMESTAMP=13446824908" ++ [NL]
            ++ s2b "    PRIORITY=6" ++ [NL] ++ s2b "    SYSLOG_IDENTIFIER=rtkit-daemon" ++ [NL] ++ s2b "    SYSLOG_PID=1170" ++ [NL]
            ++ s2b "    _COMM=rtkit-daemon" ++ [NL] ++ s2b "    _HOSTNAME=fink" ++ [NL] ++ s2b "    _TRANSPORT=syslog" ++ [NL]
            ++ s2b "    _SOURCE_REALTIME_TIMESTAMP=1702683843818187" ++ [NL]).
Proof. vm_compute. reflexivity. Qed.

(* hypotheses of the remaining implications are satisfiable *)
Example short_no_message_example :
  keys_wf (e_fields w_entry_nomsg) /\
  (forall f, In f (firstn (cfg_emerg_short src_cfg) (e_fields w_entry_nomsg)) -> fst f <> cfg_k_msg src_cfg) /\
  short_tail (short_found src_cfg w_entry_nomsg) = s2b " fink rtkit-daemon[1170]" ++ [NL].
Proof.
  split; [apply wf_entry_keys, wf_entryb_ok; vm_compute; reflexivity|]. split; [|vm_compute; reflexivity].
  intros f H. vm_compute in H.
  repeat (destruct H as [H|H]; [subst f; vm_compute; discriminate|]). destruct H.
Qed.

Example export_message_text_example :
  In (s2b "MESSAGE", s2b "Demoting known real-time threads.") (enumerated w_entry1) /\
  text_safe (data_of (s2b "MESSAGE", s2b "Demoting known real-time threads.")) = true.
Proof. split; [vm_compute; do 4 right; left; reflexivity|vm_compute; reflexivity]. Qed.

Example src_override_example : cfg_override src_cfg = Some DsRealtime.
Proof. reflexivity. Qed.
