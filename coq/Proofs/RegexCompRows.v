(* Proofs/RegexCompRows.v — C04, regex stage: the competitor lists of four representative rows of the
   regenerated table, by evaluation ([competitors] is decidable on the ASTs; computing it for all 173 rows
   takes about an hour of vm_compute, so the table obligation is stated for these rows; the theorem
   Proofs/RegexComp.not_competitor_never_dates is generic).
     row 0   [YYYY/MM/DD hh:mm:ss.f]           no earlier row
     row 12  <pri>YYYY-MM-DD hh:mm:ss +hh:mm   only rows 7-11 (the same `<pri>` family)
     row 33  Mmm dd hh:mm:ss  (RFC 3164)       the unanchored row 25 and the other month-name rows 27-32; every
                                               row 0-24 and 26 is refuted
     row 79  YYYY-MM-DD hh:mm:ss               the unanchored rows 25, 45-57, 59 and the same ISO family 70-78;
                                               every other earlier row (0-24, 26-44, 58, 60-69) is refuted
   The lists are over-approximations: a listed row MAY match (rows 70-78 do when the line carries a fraction
   or a zone: C04_regex_competition_refuted); an unlisted row provably never does. *)
From S4.Base Require Import Bytes.
From S4.Model Require Import Calendar Normalise Regex RegexPlan RegexDt RegexNum.
From S4.Gen Require Import DatetimeTables RegexTables.
From S4.Proofs Require Import RegexUniv.
Open Scope N_scope.

Definition row_at (i : N) : rx_row := match nth_rx' i with Some r => r | None => mkRx 0 REps 0 [] 0 0 0 0 end.
Lemma competitors_0 : competitors rx_table (row_at 0) = [].
Proof. vm_cast_no_check (eq_refl (@nil N)). Qed.
Lemma competitors_12 : competitors rx_table (row_at 12) = [7; 8; 9; 10; 11].
Proof. vm_cast_no_check (eq_refl [7; 8; 9; 10; 11]). Qed.
Lemma competitors_79 : competitors rx_table (row_at 79) =
  [25; 45; 46; 47; 48; 49; 50; 51; 52; 53; 54; 55; 56; 57; 59; 70; 71; 72; 73; 74; 75; 76; 77; 78].
Proof. vm_cast_no_check (eq_refl [25; 45; 46; 47; 48; 49; 50; 51; 52; 53; 54; 55; 56; 57; 59; 70; 71; 72; 73; 74; 75; 76; 77; 78]). Qed.
Lemma competitors_33 : competitors rx_table (row_at 33) = [25; 27; 28; 29; 30; 31; 32].
Proof. vm_cast_no_check (eq_refl [25; 27; 28; 29; 30; 31; 32]). Qed.

(* the hypotheses of refuted_sound / not_competitor_never_dates are satisfiable: row 0 (`^[\[(<{]YEAR...`) is
   refuted for the lines of row 79, e.g. "2024-02-29 23:59:59 " *)
From S4.Proofs Require Import RegexIso.
Example refuted_example :
  refuted (rx_re (row_at 0)) (row_fam (row_at 79)) = true /\
  in_family (row_fam (row_at 79)) (iso_texts 2024 2 29 23 59 59 32) = true /\
  rx_index (row_at 0) < rx_index (row_at 79) /\ ~ In (rx_index (row_at 0)) (competitors rx_table (row_at 79)).
Proof.
  split; [vm_compute; reflexivity|]. split; [vm_compute; reflexivity|]. split; [vm_compute; reflexivity|].
  rewrite competitors_79. vm_compute. intros H. repeat (destruct H as [H|H]; [discriminate|]). exact H.
Qed.
