(* Proofs/ContainersGz.v — gzip: the header parser (flate2 transcription) inverts the RFC 1952 encoder
   of Spec/ContainersSpec.v for every combination of optional fields; what BlockReader::new derives
   from a well-formed file (size = |plain| mod 2^32, mtime = MTIME, DEFLATE start); multi-member. *)
From Coq Require Import String Lia ZArith ZifyN ZifyNat ZifyBool.
From S4.Base Require Import Bytes.
From S4.Spec Require Import AssembleSpec ContainersSpec.
From S4.Model Require Import Assemble Containers.
From S4.Proofs Require Import AssembleProofs AssembleTheorems.
Open Scope N_scope.
Ltac Zify.zify_post_hook ::= Z.div_mod_to_equations.

(* ------------------------------------------------------------------------------ small list facts *)
Lemma take_app k (a b : bytes) : length a = k -> take k (a ++ b) = Some (a, b).
Proof.
  intro H. unfold take. rewrite app_length.
  replace (length a + length b <? k)%nat with false by (symmetry; apply Nat.ltb_ge; lia).
  subst k. rewrite firstn_app, Nat.sub_diag, firstn_all, firstn_O, app_nil_r.
  rewrite skipn_app, Nat.sub_diag, skipn_all. reflexivity.
Qed.

Lemma take_short k (a : bytes) : (length a < k)%nat -> take k a = None.
Proof. intro H. unfold take. replace (length a <? k)%nat with true by (symmetry; apply Nat.ltb_lt; lia). reflexivity. Qed.

Lemma le16_le16b v l : v < 65536 -> le16 (le16b v ++ l) = v.
Proof. intro H. unfold le16, le16b, byte_at. cbn [app nth]. lia. Qed.

Lemma le32_le32b v l : v < TWO32 -> le32 (le32b v ++ l) = v.
Proof. unfold TWO32. intro H. unfold le32, le32b, byte_at. cbn [app nth]. lia. Qed.

Lemma dword_le32b v : v < TWO32 -> dword_to_u32 (le32b v) = v.
Proof. unfold TWO32. intro H. unfold dword_to_u32, from_be32, le32b, byte_at. cbn [nth]. lia. Qed.

Lemma crc_update_app c a b : crc_update c (a ++ b) = crc_update (crc_update c a) b.
Proof. unfold crc_update. apply fold_left_app. Qed.

(* ------------------------------------------------------------------------------------- the flags *)
Lemma flg_cases h :
  N.land (gz_flg h) FRESERVED = 0
  /\ has_flag (gz_flg h) FHCRC = gf_hcrc h
  /\ has_flag (gz_flg h) FEXTRA = (match gf_extra h with Some _ => true | None => false end)
  /\ has_flag (gz_flg h) FNAME = (match gf_name h with Some _ => true | None => false end)
  /\ has_flag (gz_flg h) FCOMMENT = (match gf_comment h with Some _ => true | None => false end)
  /\ gz_flg h < 32.
Proof.
  unfold gz_flg, has_flag.
  destruct (gf_text h), (gf_hcrc h), (gf_extra h), (gf_name h), (gf_comment h); cbn; repeat split; reflexivity.
Qed.

(* ------------------------------------------------------------------------------------ read_to_nul *)
Lemma read_to_nul_ok s rest : forall n, no_nul s -> n + blen s <= MAX_HEADER_BUF ->
  read_to_nul (s ++ 0 :: rest) n = GOk (s, rest).
Proof.
  induction s as [|b s IH]; intros n Hn Hl.
  - reflexivity.
  - cbn [app read_to_nul].
    assert (b <> 0) by (intro E; apply Hn; left; auto).
    replace (b =? 0) with false by (symmetry; apply N.eqb_neq; auto).
    unfold blen in Hl. cbn [length] in Hl.
    replace (n =? MAX_HEADER_BUF) with false by (symmetry; apply N.eqb_neq; unfold MAX_HEADER_BUF in *; lia).
    rewrite IH; [reflexivity | intro E; apply Hn; right; auto | unfold blen; lia].
Qed.

(* a field one byte longer than MAX_HEADER_BUF is refused although RFC 1952 sets no limit *)
Lemma read_to_nul_too_long s rest : forall n, no_nul s -> n <= MAX_HEADER_BUF -> MAX_HEADER_BUF < n + blen s ->
  read_to_nul (s ++ 0 :: rest) n = GErr GzTooLong.
Proof.
  induction s as [|b s IH]; intros n Hn Hle Hl.
  - unfold blen in Hl. cbn in Hl. lia.
  - cbn [app read_to_nul].
    assert (b <> 0) by (intro E; apply Hn; left; auto).
    replace (b =? 0) with false by (symmetry; apply N.eqb_neq; auto).
    destruct (n =? MAX_HEADER_BUF) eqn:E; [reflexivity|].
    apply N.eqb_neq in E. unfold blen in Hl. cbn [length] in Hl.
    rewrite IH; [reflexivity | intro E'; apply Hn; right; auto | lia | unfold blen; lia].
Qed.

(* ------------------------------------------------------------------ parse (encode fields) = fields *)
Definition hdr_of (h : gz_fields) : gz_header :=
  mk_gzh (gf_extra h) (gf_name h) (gf_comment h) (gf_os h) (gf_mtime h).
(* flate2's field limit (not in RFC 1952): name and comment of at most MAX_HEADER_BUF bytes *)
Definition fits (o : option bytes) : bool :=
  match o with Some s => blen s <=? MAX_HEADER_BUF | None => true end.
Definition gz_within_flate2_limits (h : gz_fields) : Prop :=
  fits (gf_name h) = true /\ fits (gf_comment h) = true.

Lemma stage_crc_ok (h : gz_fields) hd rest c :
  crc_finish c = crc32 (gz_header_body h) ->
  gz_stage_crc (Some c) hd (le16b (crc32 (gz_header_body h) mod 65536) ++ rest) = GOk (hd, rest).
Proof.
  intros Hc. unfold gz_stage_crc. rewrite take_app by reflexivity.
  rewrite <- (app_nil_r (le16b _)), le16_le16b by lia. rewrite Hc, N.eqb_refl. reflexivity.
Qed.

(* total form: for EVERY well-formed field combination the parser either returns exactly the fields
   and the input positioned on the first byte after the header, or (name / comment longer than
   flate2's limit) GzTooLong *)
Theorem gz_parse_encode_total : forall h rest,
  gz_fields_ok h ->
  gz_parse_header (gz_header_bytes h ++ rest)
  = if fits (gf_name h) && fits (gf_comment h) then GOk (hdr_of h, rest) else GErr GzTooLong.
Proof.
  intros h rest (Hm & Hx & Ho & Hex & Hnm & Hcm).
  destruct (flg_cases h) as (Fr & Fh & Fe & Fn & Fc & Fl).
  unfold gz_parse_header, gz_header_bytes, gz_header_body.
  repeat rewrite <- app_assoc.
  rewrite (take_app 10 (gz_fixed h)) by reflexivity.
  unfold gz_fixed at 1 2 3 4. cbn [byte_at app nth le32b]. cbn [N.eqb Pos.eqb negb orb].
  rewrite Fr. cbn [N.eqb negb].
  change (skipn 4 _) with (le32b (gf_mtime h) ++ [gf_xfl h; gf_os h]).
  rewrite le32_le32b by exact Hm.
  change (byte_at (gz_fixed h) 3) with (gz_flg h). change (byte_at (gz_fixed h) 9) with (gf_os h).
  rewrite Fh.
  (* the running crc, as a function of what has been consumed *)
  set (crc0 := if gf_hcrc h then Some (crc_update CRC_INIT (gz_fixed h)) else None).
  assert (Hcrc0 : crc0 = if gf_hcrc h then Some (crc_update CRC_INIT (gz_fixed h)) else None) by reflexivity.
  clearbody crc0.
  unfold gz_stage_extra. rewrite Fe. unfold gz_extra_bytes, hdr_of.
  destruct h as [tx hc ex nm cm mt xfl os]. cbn [gf_text gf_hcrc gf_extra gf_name gf_comment gf_mtime gf_xfl gf_os] in *.
  set (H0 := mk_gzf tx hc ex nm cm mt xfl os) in *.
  assert (Hbody : gz_header_body H0 = gz_fixed H0 ++ gz_extra_bytes H0 ++ zstr nm ++ zstr cm) by reflexivity.
  assert (Hfin : forall hd c1,
            (c1 = if hc then Some (crc_update CRC_INIT (gz_header_body H0)) else None) ->
            gz_stage_crc c1 hd ((if hc then le16b (crc32 (gz_header_body H0) mod 65536) else []) ++ rest) = GOk (hd, rest)).
  { intros hd c1 ->. destruct hc.
    - apply stage_crc_ok; reflexivity.
    - reflexivity. }
  assert (Hcom : forall hd c1 pre,
            (c1 = if hc then Some (crc_update CRC_INIT pre) else None) ->
            gz_header_body H0 = pre ++ zstr cm ->
            gz_stage_comment (gz_flg H0) c1 hd (zstr cm ++ (if hc then le16b (crc32 (gz_header_body H0) mod 65536) else []) ++ rest)
            = if fits cm
              then GOk (mk_gzh (gh_extra hd) (gh_filename hd) (match cm with Some s => Some s | None => gh_comment hd end) (gh_os hd) (gh_mtime hd), rest)
              else GErr GzTooLong).
  { intros hd c1 pre Hc1 Hb. unfold gz_stage_comment. rewrite Fc. destruct cm as [s|]; cbn [zstr fits].
    - destruct Hcm as [Hnn _].
      rewrite <- app_assoc. cbn [app].
      destruct (blen s <=? MAX_HEADER_BUF) eqn:El.
      + apply N.leb_le in El. rewrite read_to_nul_ok by (auto; lia).
        apply Hfin. rewrite Hb, Hc1. destruct hc; [|reflexivity].
        cbn [crc_opt_update zstr]. rewrite !crc_update_app. reflexivity.
      + apply N.leb_gt in El. rewrite read_to_nul_too_long; [reflexivity | auto | unfold MAX_HEADER_BUF; lia | lia].
    - cbn [app]. rewrite Hfin; [destruct hd; reflexivity|].
      rewrite Hb, Hc1. cbn [zstr]. rewrite app_nil_r. reflexivity. }
  assert (Hnam : forall hd c1 pre,
            (c1 = if hc then Some (crc_update CRC_INIT pre) else None) ->
            gz_header_body H0 = pre ++ zstr nm ++ zstr cm ->
            gz_stage_filename (gz_flg H0) c1 hd (zstr nm ++ zstr cm ++ (if hc then le16b (crc32 (gz_header_body H0) mod 65536) else []) ++ rest)
            = if fits nm && fits cm
              then GOk (mk_gzh (gh_extra hd) (match nm with Some s => Some s | None => gh_filename hd end)
                          (match cm with Some s => Some s | None => gh_comment hd end) (gh_os hd) (gh_mtime hd), rest)
              else GErr GzTooLong).
  { intros hd c1 pre Hc1 Hb. unfold gz_stage_filename. rewrite Fn. destruct nm as [s|]; cbn [zstr fits].
    - destruct Hnm as [Hnn _].
      rewrite <- app_assoc. cbn [app].
      destruct (blen s <=? MAX_HEADER_BUF) eqn:El.
      + apply N.leb_le in El. rewrite read_to_nul_ok by (auto; lia).
        rewrite (Hcom _ _ (pre ++ s ++ [0])).
        * cbn [andb]. reflexivity.
        * rewrite Hc1. destruct hc; [|reflexivity]. cbn [crc_opt_update]. rewrite !crc_update_app. reflexivity.
        * rewrite Hb. cbn [zstr]. repeat rewrite <- app_assoc. reflexivity.
      + apply N.leb_gt in El. rewrite read_to_nul_too_long; [reflexivity | auto | unfold MAX_HEADER_BUF; lia | lia].
    - cbn [app andb]. rewrite (Hcom _ _ pre); [destruct (fits cm); [destruct hd|]; reflexivity | exact Hc1 | exact Hb]. }
  destruct ex as [e|].
  - cbn [opt_ok] in Hex. destruct Hex as [Hel _].
    repeat rewrite <- app_assoc.
    rewrite (take_app 2 (le16b (blen e))) by reflexivity.
    rewrite <- (app_nil_r (le16b (blen e))) at 1. rewrite le16_le16b by exact Hel.
    unfold blen at 1. rewrite Nat2N.id. rewrite take_app by reflexivity.
    rewrite (Hnam _ _ (gz_fixed H0 ++ le16b (blen e) ++ e)).
    + cbn [gh_extra gh_filename gh_comment gh_os gh_mtime]. destruct nm, cm; reflexivity.
    + rewrite Hcrc0. destruct hc; [|reflexivity]. cbn [crc_opt_update]. rewrite !crc_update_app. reflexivity.
    + rewrite Hbody. unfold gz_extra_bytes. cbn [gf_extra H0]. repeat rewrite <- app_assoc. reflexivity.
  - cbn [app]. rewrite (Hnam _ _ (gz_fixed H0)).
    + cbn [gh_extra gh_filename gh_comment gh_os gh_mtime]. destruct nm, cm; reflexivity.
    + exact Hcrc0.
    + rewrite Hbody. unfold gz_extra_bytes. cbn [gf_extra H0]. reflexivity.
Qed.

(* header skipping lands exactly on the first DEFLATE byte, and the fields come back *)
Theorem gz_parse_encode_thm : forall h rest,
  gz_fields_ok h -> gz_within_flate2_limits h ->
  gz_parse_header (gz_header_bytes h ++ rest) = GOk (hdr_of h, rest).
Proof.
  intros h rest Hok [Hn Hc]. rewrite gz_parse_encode_total by exact Hok. rewrite Hn, Hc. reflexivity.
Qed.

(* flate2 refuses an RFC-1952-valid header whose name (or comment) exceeds 65535 bytes *)
Theorem gz_long_name_rejected_thm : forall h rest,
  gz_fields_ok h -> ~ gz_within_flate2_limits h ->
  gz_parse_header (gz_header_bytes h ++ rest) = GErr GzTooLong.
Proof.
  intros h rest Hok Hn. rewrite gz_parse_encode_total by exact Hok.
  unfold gz_within_flate2_limits in Hn.
  destruct (fits (gf_name h)), (fits (gf_comment h)); cbn; try reflexivity. exfalso; apply Hn; split; reflexivity.
Qed.

(* ------------------------------------------------------------------------- BlockReader::new, Gz *)
Lemma dword_le32b_mod v : dword_to_u32 (le32b v) = v mod TWO32.
Proof. unfold TWO32, dword_to_u32, from_be32, le32b, byte_at. cbn [nth]. lia. Qed.

Lemma skipn_tail {A} (a b : list A) : skipn (length (a ++ b) - length b) (a ++ b) = b.
Proof.
  rewrite app_length. replace (length a + length b - length b)%nat with (length a) by lia.
  rewrite skipn_app, Nat.sub_diag, skipn_all. reflexivity.
Qed.

Lemma trailer_len plain : length (gz_trailer plain) = 8%nat.
Proof. reflexivity. Qed.

Lemma header_len_ge h : (10 <= length (gz_header_bytes h))%nat.
Proof. unfold gz_header_bytes, gz_header_body. rewrite !app_length. change (length (gz_fixed h)) with 10%nat. lia. Qed.

(* a file ending in a member's trailer: the size and CRC that new reads *)
Lemma gz_new_tail pre plain :
  let f := pre ++ gz_trailer plain in
  dword_to_u32 (firstn 4 (skipn (length f - 8) f)) = crc32 plain mod TWO32
  /\ dword_to_u32 (firstn 4 (skipn 4 (skipn (length f - 8) f))) = blen plain mod TWO32 mod TWO32.
Proof.
  cbv zeta. pose proof (skipn_tail pre (gz_trailer plain)) as E. rewrite trailer_len in E. rewrite E.
  unfold gz_trailer. split.
  - change (firstn 4 (le32b (crc32 plain) ++ _)) with (le32b (crc32 plain)). apply dword_le32b_mod.
  - change (firstn 4 (skipn 4 (le32b (crc32 plain) ++ le32b (blen plain mod TWO32)))) with (le32b (blen plain mod TWO32)).
    apply dword_le32b_mod.
Qed.

(* what new derives from ONE well-formed member: size = |plain| mod 2^32, mtime = MTIME, the header
   fields, and the decoder positioned exactly on the DEFLATE data *)
Theorem gz_new_member_thm : forall h deflated plain,
  gz_fields_ok h -> gz_within_flate2_limits h ->
  let f := gz_member h deflated plain in
  blen f <= GZ_MAX_SZ ->
  gz_new f = COk (mk_gzd (blen plain mod TWO32) (gf_mtime h) (crc32 plain mod TWO32)
                         (Some (hdr_of h)) (deflated ++ gz_trailer plain)).
Proof.
  intros h deflated plain Hok Hlim f Hsz. unfold gz_new.
  assert (Hlen : 18 <= lenN f).
  { unfold f, gz_member, lenN. rewrite !app_length, trailer_len. pose proof (header_len_ge h). lia. }
  replace (lenN f <? 8) with false by (symmetry; apply N.ltb_ge; lia).
  replace (GZ_MAX_SZ <? lenN f) with false by (symmetry; apply N.ltb_ge; exact Hsz).
  assert (Hf : f = (gz_header_bytes h ++ deflated) ++ gz_trailer plain) by (unfold f, gz_member; rewrite app_assoc; reflexivity).
  destruct (gz_new_tail (gz_header_bytes h ++ deflated) plain) as [Hc Hs]. cbv zeta in Hc, Hs.
  rewrite <- Hf in Hc, Hs. rewrite Hc, Hs.
  unfold f, gz_member. rewrite gz_parse_encode_thm by assumption.
  rewrite N.mod_mod by (unfold TWO32; lia). reflexivity.
Qed.

(* the size s4 derives is the true size exactly when the plain data is shorter than 4 GiB *)
Theorem gz_size_correct_iff_thm : forall h deflated plain d,
  gz_fields_ok h -> gz_within_flate2_limits h ->
  blen (gz_member h deflated plain) <= GZ_MAX_SZ ->
  gz_new (gz_member h deflated plain) = COk d ->
  (gd_filesz d = blen plain <-> blen plain < TWO32).
Proof.
  intros h deflated plain d Hok Hlim Hsz Hn.
  rewrite gz_new_member_thm in Hn by assumption. inversion Hn; subst d; clear Hn. cbn [gd_filesz].
  unfold TWO32. split; intro H; lia.
Qed.

(* ... and for 4 GiB or more it is wrong: |plain| mod 2^32 (arithmetic; such a file fits under the
   512 MiB guard when the data is compressible: the guard is on the COMPRESSED size) *)
Theorem gz_size_4gib_refuted_thm : forall h deflated plain,
  gz_fields_ok h -> gz_within_flate2_limits h ->
  blen (gz_member h deflated plain) <= GZ_MAX_SZ ->
  TWO32 <= blen plain ->
  exists d, gz_new (gz_member h deflated plain) = COk d
            /\ gd_filesz d = blen plain mod TWO32 /\ gd_filesz d <> blen plain.
Proof.
  intros h deflated plain Hok Hlim Hsz Hbig.
  eexists. split; [apply gz_new_member_thm; assumption|]. cbn [gd_filesz]. split; [reflexivity|].
  unfold TWO32 in *. lia.
Qed.

(* mtime(): the header's MTIME when it is not 0, else the .gz file's own modification time *)
Theorem gz_mtime_thm : forall h deflated plain d,
  gz_fields_ok h -> gz_within_flate2_limits h ->
  blen (gz_member h deflated plain) <= GZ_MAX_SZ ->
  gz_new (gz_member h deflated plain) = COk d ->
  mtime_of_header (gd_mtime d) = if gf_mtime h =? 0 then MFile else MSecs (gf_mtime h).
Proof.
  intros h deflated plain d (Hm & Hrest) Hlim Hsz Hn.
  rewrite gz_new_member_thm in Hn by (try assumption; split; assumption). inversion Hn; subst d; clear Hn.
  cbn [gd_mtime]. unfold mtime_of_header, seconds_to_systemtime.
  destruct (gf_mtime h =? 0); [reflexivity|].
  replace (I64_MAX <? gf_mtime h) with false; [reflexivity|].
  symmetry. apply N.ltb_ge. unfold I64_MAX, TWO32 in *. lia.
Qed.

(* a header that flate2 cannot parse does NOT make new fail: size from the trailer, mtime 0 (so
   mtime() is the file's), and every block that is not past the declared end is Err *)
Theorem gz_bad_header_thm : forall (dstate : Type) read mkdec f e bs i,
  gz_parse_header f = GErr e -> 8 <= lenN f -> lenN f <= GZ_MAX_SZ ->
  exists d, gz_new f = COk d /\ gd_mtime d = 0 /\ gd_header d = None
            /\ mtime_of_header (gd_mtime d) = MFile
            /\ gz_read_block dstate read mkdec bs f i
               = COk (if blockoffset_last (gd_filesz d) bs <? i then BDone
                      else if gd_filesz d =? 0 then BDone else BErr).
Proof.
  intros dstate read mkdec f e bs i He H8 Hmax.
  unfold gz_read_block, gz_new. rewrite He.
  replace (lenN f <? 8) with false by (symmetry; apply N.ltb_ge; lia).
  replace (GZ_MAX_SZ <? lenN f) with false by (symmetry; apply N.ltb_ge; lia).
  eexists. split; [reflexivity|]. cbn [gd_mtime gd_header gd_filesz]. repeat split; reflexivity.
Qed.

(* multi-member  a.gz ++ b.gz : new takes the size from the LAST member's trailer and the mtime
   from the FIRST member's header; the decoder (GzDecoder, not MultiGzDecoder) yields the first
   member's data only *)
Theorem gz_multi_member_new_thm : forall h1 d1 p1 h2 d2 p2,
  gz_fields_ok h1 -> gz_within_flate2_limits h1 ->
  let f := gz_member h1 d1 p1 ++ gz_member h2 d2 p2 in
  blen f <= GZ_MAX_SZ ->
  gz_new f = COk (mk_gzd (blen p2 mod TWO32) (gf_mtime h1) (crc32 p2 mod TWO32) (Some (hdr_of h1))
                         (d1 ++ gz_trailer p1 ++ gz_member h2 d2 p2)).
Proof.
  intros h1 d1 p1 h2 d2 p2 Hok Hlim f Hsz. unfold gz_new.
  assert (Hlen : 18 <= lenN f).
  { unfold f, gz_member, lenN. rewrite !app_length, !trailer_len. pose proof (header_len_ge h1). lia. }
  replace (lenN f <? 8) with false by (symmetry; apply N.ltb_ge; lia).
  replace (GZ_MAX_SZ <? lenN f) with false by (symmetry; apply N.ltb_ge; exact Hsz).
  assert (Hf : f = (gz_member h1 d1 p1 ++ gz_header_bytes h2 ++ d2) ++ gz_trailer p2).
  { unfold f, gz_member. repeat rewrite <- app_assoc. reflexivity. }
  destruct (gz_new_tail (gz_member h1 d1 p1 ++ gz_header_bytes h2 ++ d2) p2) as [Hc Hs]. cbv zeta in Hc, Hs.
  rewrite <- Hf in Hc, Hs. rewrite Hc, Hs.
  unfold f. unfold gz_member at 1. repeat rewrite <- app_assoc.
  rewrite gz_parse_encode_thm by assumption.
  rewrite N.mod_mod by (unfold TWO32; lia). reflexivity.
Qed.

(* ------------------------------------------------- the whole .gz reader on one well-formed member *)
Section GzWhole.
  Variable dstate : Type.
  Variable read : dstate -> N -> dstate * list N.
  Variable remaining : dstate -> list N.
  Variable mkdec : bytes -> dstate.
  Hypothesis HC : contract dstate read remaining.

  (* transparency of a single-member .gz below 4 GiB, for every header and every DEFLATE decoder
     that meets the read contract and yields [plain] from the member's data *)
  Theorem gz_single_member_blocks_thm : forall h deflated plain bs,
    gz_fields_ok h -> gz_within_flate2_limits h ->
    blen (gz_member h deflated plain) <= GZ_MAX_SZ ->
    blen plain < TWO32 -> 0 < bs ->
    remaining (mkdec (deflated ++ gz_trailer plain)) = plain ->
    forall i, gz_read_block dstate read mkdec bs (gz_member h deflated plain) i
              = COk (if (N.to_nat i <? length (chunk bs plain))%nat
                     then BFound (nth (N.to_nat i) (chunk bs plain) []) else BDone).
  Proof.
    intros h deflated plain bs Hok Hlim Hsz H32 Hbs Hrem i.
    unfold gz_read_block. rewrite gz_new_member_thm by assumption. cbn [gd_filesz gd_header gd_rest].
    unfold assemble_gz.
    rewrite (assemble_chunk_independent_thm dstate read remaining HC (Some GZ_BUF_SZ) ltac:(cbn; unfold GZ_BUF_SZ; lia)
               bs _ _ plain Hbs Hrem).
    - destruct (N.to_nat i <? length (chunk bs plain))%nat; reflexivity.
    - unfold declared_size_ok, len, blen. unfold blen, TWO32 in H32. rewrite N.mod_small by (unfold TWO32; lia). reflexivity.
  Qed.

  (* what is then read: every block found is a block of the first member's data cut at the LAST
     member's size — never of a ++ b *)
  Theorem gz_multi_member_blocks_thm : forall h1 d1 p1 h2 d2 p2 bs,
    gz_fields_ok h1 -> gz_within_flate2_limits h1 ->
    let f := gz_member h1 d1 p1 ++ gz_member h2 d2 p2 in
    blen f <= GZ_MAX_SZ -> 0 < bs ->
    remaining (mkdec (d1 ++ gz_trailer p1 ++ gz_member h2 d2 p2)) = p1 ->
    let n := blen p2 mod TWO32 in
    (* the last member is not longer than the first: silent truncation of the first *)
    (n <= blen p1 ->
       forall i, gz_read_block dstate read mkdec bs f i
                 = COk (if in_range n bs i then BFound (blk bs (firstn (N.to_nat n) p1) i) else BDone))
    (* longer: the last block is an error (and no block is ever wrong) *)
    /\ (blen p1 < n -> gz_read_block dstate read mkdec bs f (blockoffset_last n bs) = COk BErr)
    /\ (forall i b, gz_read_block dstate read mkdec bs f i = COk (BFound b) ->
                    b = blk bs (firstn (N.to_nat n) p1) i).
  Proof.
    intros h1 d1 p1 h2 d2 p2 bs Hok Hlim f Hsz Hbs Hrem n.
    unfold gz_read_block. unfold f. rewrite gz_multi_member_new_thm by assumption.
    cbn [gd_filesz gd_header gd_rest]. fold n. unfold assemble_gz.
    assert (Hb : buf_ok (Some GZ_BUF_SZ)) by (cbn; unfold GZ_BUF_SZ; lia).
    repeat split.
    - intros Hle i.
      rewrite (assemble_long_stream_thm dstate read remaining HC _ Hb bs n _ p1 Hbs Hrem) by (unfold len; unfold blen in Hle; exact Hle).
      destruct (in_range n bs i); reflexivity.
    - intros Hlt.
      destruct (assemble_short_stream_thm dstate read remaining HC _ Hb bs n _ p1 Hbs Hrem) as [_ Hlast];
        [unfold len; unfold blen in Hlt; exact Hlt|].
      rewrite Hlast. reflexivity.
    - intros i b Hfound.
      destruct (assemble dstate (fill_block dstate read (Some GZ_BUF_SZ)) bs n
                  (mkdec (d1 ++ gz_trailer p1 ++ gz_member h2 d2 p2)) i) eqn:E; cbn [bres_of] in Hfound; try discriminate.
      inversion Hfound; subst a.
      exact (assemble_never_wrong_thm dstate read remaining HC _ Hb bs n _ p1 Hbs Hrem i b E).
  Qed.
End GzWhole.

(* ------------------------------------------------------------------ satisfiability and witnesses *)
Definition s2n (s : string) : bytes := s2b s.
(* every optional field present, FTEXT and FHCRC set, bytes 0xFF inside extra / name / comment *)
Definition gz_example_fields : gz_fields :=
  mk_gzf true true (Some [1; 2; 255; 0]) (Some (s2n "x" ++ [255] ++ s2n ".log")) (Some [99; 255]) 1700000000 2 3.
Definition gz_min_fields : gz_fields := mk_gzf false false None None None 0 0 255.

Lemma all_bytes_dec l : forallb (fun b => b <? 256) l = true -> all_bytes l.
Proof. intro H. apply Forall_forall. intros x Hx. rewrite forallb_forall in H. apply N.ltb_lt. auto. Qed.
Lemma no_nul_dec l : forallb (fun b => negb (b =? 0)) l = true -> no_nul l.
Proof.
  intros H Hin. rewrite forallb_forall in H. apply H in Hin. rewrite N.eqb_refl in Hin. discriminate.
Qed.

Example gz_example_ok :
  gz_fields_ok gz_example_fields /\ gz_within_flate2_limits gz_example_fields
  /\ blen (gz_member gz_example_fields [3; 0] []) <= GZ_MAX_SZ
  /\ gz_parse_header (gz_header_bytes gz_example_fields ++ [3; 0; 0; 0; 0; 0; 0; 0; 0; 0])
     = GOk (hdr_of gz_example_fields, [3; 0; 0; 0; 0; 0; 0; 0; 0; 0]).
Proof.
  assert (Hok : gz_fields_ok gz_example_fields).
  { unfold gz_fields_ok, gz_example_fields, TWO32. cbn [gf_mtime gf_xfl gf_os gf_extra gf_name gf_comment opt_ok].
    repeat split; try lia; try (apply all_bytes_dec; reflexivity); try (apply no_nul_dec; reflexivity). }
  assert (Hlim : gz_within_flate2_limits gz_example_fields) by (split; reflexivity).
  split; [exact Hok|]. split; [exact Hlim|]. split.
  - vm_compute. discriminate.
  - apply gz_parse_encode_thm; assumption.
Qed.

Example gz_min_ok : gz_fields_ok gz_min_fields /\ gz_within_flate2_limits gz_min_fields.
Proof.
  split; [|split; reflexivity].
  unfold gz_fields_ok, gz_min_fields, TWO32. cbn [gf_mtime gf_xfl gf_os gf_extra gf_name gf_comment opt_ok].
  repeat split; lia.
Qed.

(* the hypotheses of gz_size_4gib_refuted are satisfiable: 2^32 zero bytes behind a tiny member
   (nothing of that size is ever built: lengths only) *)
Example gz_4gib_hypotheses_satisfiable :
  exists h deflated plain,
    gz_fields_ok h /\ gz_within_flate2_limits h
    /\ blen (gz_member h deflated plain) <= GZ_MAX_SZ /\ TWO32 <= blen plain.
Proof.
  exists gz_min_fields, [3; 0], (repeat 0 (N.to_nat TWO32)).
  destruct gz_min_ok as [H1 H2]. split; [exact H1|]. split; [exact H2|]. split.
  - unfold gz_member, blen. rewrite !app_length, trailer_len. vm_compute. discriminate.
  - unfold blen. rewrite repeat_length, N2Nat.id. lia.
Qed.

(* a name one byte over flate2's limit: RFC-valid, refused *)
Example gz_long_name_example :
  let h := mk_gzf false false None (Some (repeat 110 (N.to_nat 65536))) None 5 0 3 in
  gz_fields_ok h /\ ~ gz_within_flate2_limits h.
Proof.
  cbv zeta. split.
  - unfold gz_fields_ok, TWO32. cbn [gf_mtime gf_xfl gf_os gf_extra gf_name gf_comment opt_ok].
    repeat split; try lia.
    + intro Hin. apply repeat_spec in Hin. discriminate.
    + apply Forall_forall. intros x Hx. apply repeat_spec in Hx. subst x. lia.
  - intros [H _]. vm_compute in H. discriminate.
Qed.

(* multi-member is NOT transparent: a.gz ++ b.gz with a = "abc", b = "d" reads as "a" *)
Theorem gz_multi_member_refuted_thm :
  exists (h1 h2 : gz_fields) (d1 d2 p1 p2 : bytes) (bs : N) (mkdec : bytes -> sched_state) (i : N),
    gz_fields_ok h1 /\ gz_within_flate2_limits h1 /\ gz_fields_ok h2 /\ gz_within_flate2_limits h2
    /\ (let f := gz_member h1 d1 p1 ++ gz_member h2 d2 p2 in
        blen f <= GZ_MAX_SZ /\ 0 < bs
        /\ sched_remaining (mkdec (d1 ++ gz_trailer p1 ++ gz_member h2 d2 p2)) = p1
        /\ (N.to_nat i < length (chunk bs (p1 ++ p2)))%nat
        /\ gz_read_block sched_state sched_read mkdec bs f i
           <> COk (BFound (nth (N.to_nat i) (chunk bs (p1 ++ p2)) []))).
Proof.
  exists gz_min_fields, gz_min_fields, [3; 0], [3; 0], [97; 98; 99], [100], 2, (fun _ => ([97; 98; 99], [])), 0.
  destruct gz_min_ok as [H1 H2].
  split; [exact H1|]. split; [exact H2|]. split; [exact H1|]. split; [exact H2|].
  cbv zeta. split; [vm_compute; discriminate|]. split; [lia|]. split; [reflexivity|].
  split; [vm_compute; lia|]. vm_compute. discriminate.
Qed.
