(* Proofs/MergeExamples.v — non-vacuity examples for C01 (cross- and intra-source ties). *)
From Coq Require Import List ZArith Bool Sorted Permutation Lia Arith.
From S4.Model Require Import Merge.
From S4.Proofs Require Import MergeProofs.
Import ListNotations.
Local Open Scope Z_scope.

Definition view (l : list msg) : list (Z * Z * Z) :=
  map (fun m => (Z.of_nat (m_src m), Z.of_nat (m_pos m), m_inst m)) l.

(* three chronological sources; instant 1 occurs twice in source 0 (intra-source tie)
   and in all three sources (cross-source tie); instant 2 twice in source 1 *)
Definition ex_srcs : list (list msg) := tag_srcs [[1; 1; 3]; [1; 2; 2]; [0; 1]].

Lemma ex_merge_ties :
  view (merge ex_srcs) =
  [(2, 0, 0); (0, 0, 1); (0, 1, 1); (1, 0, 1); (2, 1, 1); (1, 1, 2); (1, 2, 2); (0, 2, 3)].
Proof. vm_compute. reflexivity. Qed.

Lemma ex_sorted : Forall sorted_inst ex_srcs.
Proof. repeat (constructor; try (unfold le_inst; simpl; lia)). Qed.

Lemma ex_well_tagged : well_tagged ex_srcs.
Proof. apply tag_srcs_well_tagged. Qed.

Lemma ex_stable_sort : merge ex_srcs = stable_sort (concat ex_srcs).
Proof. vm_compute. reflexivity. Qed.

(* a source that is not chronological keeps its own order; the merge is then not sorted *)
Lemma ex_unsorted_source :
  view (merge (tag_srcs [[5; 1]; [3]])) = [(1, 0, 3); (0, 0, 5); (0, 1, 1)].
Proof. vm_compute. reflexivity. Qed.

(* empty sources anywhere change nothing but the indices they occupy *)
Lemma ex_empty_sources :
  map m_inst (merge (tag_srcs [[]; [2; 2]; []; [1; 2]; []])) = map m_inst (merge (tag_srcs [[2; 2]; [1; 2]])).
Proof. vm_compute. reflexivity. Qed.

(* first minimum, not last: two sources with the same single instant *)
Lemma ex_first_minimum : view (merge (tag_srcs [[7]; [7]; [7]])) = [(0, 0, 7); (1, 0, 7); (2, 0, 7)].
Proof. vm_compute. reflexivity. Qed.

(* a failing source (source 1 delivers only its first message): the others are undisturbed *)
Lemma ex_failing_source :
  filter (fun m => negb (from_src 1 m)) (merge (tag_srcs [[1; 4]; [2]; [3; 3]])) =
  filter (fun m => negb (from_src 1 m)) (merge (tag_srcs [[1; 4]; [2; 0; 9]; [3; 3]])).
Proof. vm_compute. reflexivity. Qed.
