From Coq Require Import String Ascii ZArith Lia List Bool.
From S4.Base Require Import Bytes.
From S4.Model Require Import Calendar CliDt.
From S4.Gen Require Import CliDtTables.
From S4.Spec Require Import CalendarSpec CliDtRef CliDtSpec.
From S4.Proofs Require Import CalendarProofs CliDtSpecProofs CliDtAbsInfra CliDtMiscProofs CliDtScanLemmas CliDtUniversal CliDtNamedInfra.
Import ListNotations.
Open Scope Z_scope.
Ltac Zify.zify_post_hook ::= Z.div_mod_to_equations.

(* named zones, layout LSlash: universal in the name (any table entry but the one-letter Z / z) and in all field values *)
Lemma abs_named_LSlash name (e : zone_entry name) y m d h mi s fr sp tz :
  ze_nm _ e <> [90%N] -> ze_nm _ e <> [122%N] ->
  form_ok (FDateTime LSlash y m d h mi s fr (ZoneName sp name)) = true ->
  m_resolve_abs (classify (render (FDateTime LSlash y m d h mi s fr (ZoneName sp name)))) tz
  = denote (FDateTime LSlash y m d h mi s fr (ZoneName sp name)) tz 0 None.
Proof.
  intros HZ Hz Hok.
  destruct sp; try (exfalso; prep Hok; fail); destruct fr; prep Hok; named_case e HZ Hz y m.
Qed.
