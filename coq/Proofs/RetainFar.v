(* Proofs/RetainFar.v — property C17, OUTSIDE finding F9a: a sufficient condition on the block
   numbers of a file (`far lag ms`: the drop distance is at least the consumer's lag) under which
   the canonical schedule `sched_lag lag` never makes a release fail (drop_sysline Err = 0), for
   EITHER policy; with RetainNoErr.cur_no_err_bounded the marks of the current policy then obey the
   bounds of the repaired policy.  Opposite direction of RetainLag.cur_lag_keeps_everything.
   The off-by-one of `far` is exact on the example of RetainNoErr (block size 512, 240 lines of 20
   bytes): farb holds for lag <= 28 and fails from 29 on; derr = 0 for lag <= 28 and derr = 4 at
   lag 29 (vm_compute, both policies). *)
From Coq Require Import List Arith NArith Bool Sorted Lia.
Import ListNotations.
From S4.Model Require Import Retain.
From S4.Proofs Require Import RetainProofs RetainLayout RetainLag RetainKeepsUp RetainNoErr.
Open Scope N_scope.

(* the drop distance is at least lag: whenever the drop issued in the iteration that finds message k
   (with p = message k-1 as the drop's reference: candidates are the stored messages m with
   mlb m <= mfb p - 2, provided 3 <= mfb p) reaches a message m, then m is at least lag messages
   before k *)
Definition far (lag : N) (ms : list msg) : Prop :=
  forall m p, In m ms -> In p ms -> 3 <= mfb p -> mlb m + 2 <= mfb p -> mkey m + lag <= mkey p + 1.

Definition farb (lag : N) (ms : list msg) : bool :=
  forallb (fun p => (mfb p <? 3) ||
                    forallb (fun m => negb (mlb m + 2 <=? mfb p) || (mkey m + lag <=? mkey p + 1)) ms) ms.

Lemma farb_sound lag ms : farb lag ms = true -> far lag ms.
Proof.
  unfold farb, far. intros Hb m p Hm Hp H3 H2.
  rewrite forallb_forall in Hb. specialize (Hb p Hp).
  apply orb_true_iff in Hb as [Hb|Hb]; [apply N.ltb_lt in Hb; lia|].
  rewrite forallb_forall in Hb. specialize (Hb m Hm).
  apply orb_true_iff in Hb as [Hb|Hb].
  - apply negb_true_iff, N.leb_gt in Hb. lia.
  - apply N.leb_le in Hb. exact Hb.
Qed.

Lemma filter_all' {A} (f : A -> bool) l : (forall x, In x l -> f x = true) -> filter f l = l.
Proof.
  induction l as [|x l IH]; intros H; [reflexivity|]. cbn [filter].
  rewrite (H x (or_introl eq_refl)). f_equal. apply IH. intros y Hy. apply H. right. exact Hy.
Qed.

Section Far.
Variables (c : cfg) (lag : N) (ms : list msg).
Hypothesis Hlag : 1 <= lag.
Hypothesis Hkeys : map mkey ms = nseq 0 (length ms).
Hypothesis Hfar : far lag ms.

Let n := length ms.

Record R (k : nat) (s : st) : Prop := {
  r_split : exists done, ms = done ++ todo s /\ length done = k;
  r_stage : stage2 s = Nat.eqb k 0;
  r_prev0 : (k <= 1)%nat -> wprev s = None;
  r_prev : (2 <= k)%nat -> (k < n)%nat ->
           exists p, wprev s = Some p /\ In p ms /\ mkey p + 1 = N.of_nat k;
  r_held : held s = nseq (N.of_nat k - lag) (N.to_nat (N.min (N.of_nat k) lag));
  r_pending : pending s = [];
  r_sys : forall m, In m (syslines s) -> In m ms;
  r_derr : derr s = 0
}.

Lemma key_of_split' done q rest : ms = done ++ q :: rest -> mkey q = N.of_nat (length done).
Proof. intros E. exact (key_of_split 3 ms ltac:(lia) Hkeys done q rest E). Qed.

Lemma not_held s k m : held s = nseq (N.of_nat k + 1 - lag) (N.to_nat (N.min (N.of_nat k + 1) lag)) ->
  mkey m + lag <= N.of_nat k -> is_held s m = false.
Proof.
  intros Hh H1. unfold is_held. destruct (memN (mkey m) (held s)) eqn:E; [|reflexivity].
  apply memN_In in E. rewrite Hh in E. apply in_nseq in E. rewrite N2Nat.id in E. lia.
Qed.

Lemma R_step k s : (k < n)%nat -> R k s ->
  sched_ok lag c s (iter_events lag (N.of_nat k)) = true /\ R (S k) (run c s (iter_events lag (N.of_nat k))).
Proof.
  intros Hk [(done & E & Hlen) Hst Hp0 Hp Hh Hpe Hsys Hde].
  set (K := N.of_nat k) in *.
  (* the release *)
  set (s0 := run c s (if lag <=? K then [ER (K - lag)] else [])).
  assert (Hs0 : held s0 = nseq (K + 1 - lag) (N.to_nat (N.min K (lag - 1))) /\
                lenN (held s0) <= lag /\
                sched_ok lag c s (if lag <=? K then [ER (K - lag)] else []) = true /\
                syslines s0 = syslines s /\ pending s0 = pending s /\ todo s0 = todo s /\
                stage2 s0 = stage2 s /\ wprev s0 = wprev s /\ derr s0 = derr s).
  { unfold s0. destruct (N.leb_spec lag K) as [Hle|Hgt].
    - cbn [run fold_left step release held syslines pending todo stage2 wprev derr].
      rewrite Hh. replace (N.min K lag) with lag by lia.
      replace (N.to_nat lag) with (S (N.to_nat (lag - 1))) by lia.
      rewrite filter_nseq_head. replace (N.min K (lag - 1)) with (lag - 1) by lia.
      replace (K - lag + 1) with (K + 1 - lag) by lia.
      splits; auto; [rewrite lenN_nseq; lia|].
      cbn [sched_ok step release held]. rewrite Hh. replace (N.min K lag) with lag by lia.
      replace (N.to_nat lag) with (S (N.to_nat (lag - 1))) by lia.
      rewrite filter_nseq_head, lenN_nseq, andb_true_r. apply N.leb_le. lia.
    - cbn [run fold_left]. rewrite Hh. replace (K - lag) with 0 by lia. replace (K + 1 - lag) with 0 by lia.
      replace (N.min K lag) with K by lia. replace (N.min K (lag - 1)) with K by lia.
      splits; auto. rewrite lenN_nseq. lia. }
  destruct Hs0 as (Hh0 & Hhl0 & Hrel & S0' & P0 & T0 & St0 & W0 & D0).
  assert (Hrun : run c s (iter_events lag K) = wstep c s0).
  { unfold iter_events. rewrite run_app. fold s0. reflexivity. }
  assert (Hsched : lenN (held (wstep c s0)) <= lag -> sched_ok lag c s (iter_events lag K) = true).
  { intros Hw. unfold iter_events. rewrite sched_ok_app. fold s0. rewrite Hrel. cbn [sched_ok step andb].
    rewrite andb_true_r. apply N.leb_le. exact Hw. }
  (* the worker iteration *)
  destruct (todo s) as [|q rest] eqn:Et.
  { exfalso. rewrite app_nil_r in E. subst done. unfold n in Hk. lia. }
  assert (Hq : In q ms) by (rewrite E; apply in_or_app; right; left; reflexivity).
  pose proof (key_of_split' _ _ _ E) as Hkq. rewrite Hlen in Hkq. fold K in Hkq.
  assert (Hn : n = (k + S (length rest))%nat) by (unfold n; rewrite E, app_length; cbn [length]; lia).
  rewrite Hrun. unfold wstep. rewrite T0, St0, W0.
  set (s1 := do_find c s0 (stage2 s) q).
  pose proof (read_lines_grows c (mread (stage2 s) q) s0) as (_ & _ & RG). cbv zeta in RG.
  destruct RG as (RI & _).
  destruct RI as (I1 & I2 & I3 & I4 & I5 & I6 & I7 & I8 & I9).
  assert (F1 : syslines s1 = syslines s ++ [q] /\ pending s1 = [] /\
               held s1 = nseq (K + 1 - lag) (N.to_nat (N.min (K + 1) lag)) /\ derr s1 = 0).
  { unfold s1, do_find. cbn [store_msg syslines pending held derr].
    splits.
    - rewrite I1, S0'. reflexivity.
    - rewrite I2, P0. exact Hpe.
    - rewrite I3, Hh0, Hkq.
      replace K with (K + 1 - lag + N.of_nat (N.to_nat (N.min K (lag - 1)))) at 3 by lia.
      rewrite <- nseq_snoc. f_equal. lia.
    - rewrite I9, D0. exact Hde. }
  destruct F1 as (FS & FP & FH & FD).
  assert (Hheld1 : lenN (held s1) <= lag) by (rewrite FH, lenN_nseq; lia).
  assert (Hsys1 : forall m, In m (syslines s1) -> In m ms).
  { rewrite FS. intros m Hm. apply in_app_or in Hm as [Hm|[<-|[]]]; auto. }
  assert (Hsplit1 : ms = (done ++ [q]) ++ rest) by (rewrite E, <- app_assoc; reflexivity).
  assert (Hlen1 : length (done ++ [q]) = S k) by (rewrite app_length; cbn [length]; lia).
  assert (Hnodrop : forall wp,
            ((S k <= 1)%nat -> wp = None) ->
            ((2 <= S k)%nat -> (S k < n)%nat -> exists p, wp = Some p /\ In p ms /\ mkey p + 1 = N.of_nat (S k)) ->
            R (S k) (set_worker s1 rest false wp)).
  { intros wp Hw0 Hw. constructor; cbn [set_worker todo stage2 wprev held pending syslines derr]; auto.
    - exists (done ++ [q]). split; auto.
    - rewrite FH. f_equal; [lia|]. f_equal. lia. }
  destruct (stage2 s) eqn:Es2.
  - (* k = 0 *)
    assert (k = 0)%nat as -> by (destruct k; [reflexivity|rewrite Hst in Es2; discriminate]).
    split.
    + apply Hsched. unfold wstep. rewrite T0, St0. cbn [set_worker held]. auto.
    + apply Hnodrop; auto. intros; lia.
  - assert (0 < k)%nat as Hk0 by (destruct k; [rewrite Hst in Es2; discriminate|lia]).
    destruct rest as [|q' r].
    + (* the last message *)
      split.
      * apply Hsched. unfold wstep. rewrite T0, St0, W0. cbn [set_worker held]. auto.
      * apply Hnodrop; auto.
        -- intros; lia.
        -- intros _ Hlt. cbn [length] in Hn. lia.
    + destruct (wprev s) as [p|] eqn:Ewp.
      * (* the drop: every candidate has been released by the consumer *)
        assert (2 <= k)%nat as Hk2.
        { destruct (Nat.le_gt_cases 2 k); auto. specialize (Hp0 ltac:(lia)). discriminate. }
        destruct (Hp Hk2 Hk) as (p0 & Ep & Hpin & Hpk). injection Ep as Ep. subst p0.
        fold K in Hpk.
        set (s2 := do_try_drop c s1 p).
        assert (Hs2 : held s2 = held s1 /\ pending s2 = [] /\ derr s2 = 0 /\
                      (forall m, In m (syslines s2) -> In m (syslines s1))).
        { split; [apply try_drop_held|].
          unfold s2, do_try_drop. destruct (mfb p <? 3) eqn:E3; [splits; auto|].
          apply N.ltb_ge in E3.
          rewrite FP. cbn [filter app].
          assert (filter (is_held s1) (filter (fun m => mlb m <=? mfb p - 2) (syslines s1)) = []) as ->.
          { apply filter_none'. intros m Hm. apply filter_In in Hm as [Hm Hc]. apply N.leb_le in Hc.
            apply (not_held s1 k m); [exact FH|]. fold K.
            pose proof (Hfar m p (Hsys1 m Hm) Hpin E3 ltac:(lia)). lia. }
          cbn [set_index held pending derr syslines]. rewrite FD.
          splits.
          - destruct (pol c); reflexivity.
          - reflexivity.
          - intros m Hm. apply filter_In in Hm as [Hm _]. exact Hm. }
        destruct Hs2 as (H2h & H2p & H2d & H2s).
        split.
        -- apply Hsched. unfold wstep. rewrite T0, St0, W0. cbn [set_worker held]. fold s1. fold s2. rewrite H2h. auto.
        -- constructor; cbn [set_worker todo stage2 wprev held pending syslines derr]; auto.
           ++ exists (done ++ [q]). split; auto.
           ++ intros; lia.
           ++ intros _ _. exists q. splits; auto. rewrite Hkq. lia.
           ++ rewrite H2h, FH. f_equal; [lia|]. f_equal. lia.
      * (* the second message *)
        assert (k = 1)%nat as ->.
        { destruct (Nat.le_gt_cases 2 k) as [H2|H2]; [|lia].
          destruct (Hp H2 Hk) as (p & Ep & _). discriminate. }
        split.
        -- apply Hsched. unfold wstep. rewrite T0, St0, W0. cbn [set_worker held]. auto.
        -- apply Hnodrop; auto.
           ++ intros; lia.
           ++ intros _ _. exists q. splits; auto. rewrite Hkq. reflexivity.
Qed.

Lemma R_init : R 0 (init ms).
Proof.
  constructor; cbn [init todo stage2 wprev held pending syslines derr].
  - exists []. split; reflexivity.
  - reflexivity.
  - auto.
  - intros H; inversion H.
  - rewrite N.min_0_l. reflexivity.
  - reflexivity.
  - intros m [].
  - reflexivity.
Qed.

Lemma R_iter cnt : forall k s, (k + cnt = n)%nat -> R k s ->
  sched_ok lag c s (flat_map (iter_events lag) (nseq (N.of_nat k) cnt)) = true /\
  R n (run c s (flat_map (iter_events lag) (nseq (N.of_nat k) cnt))).
Proof.
  induction cnt as [|cnt IH]; intros k s Hk Hq.
  - cbn [nseq flat_map sched_ok run fold_left]. replace n with k by lia. auto.
  - cbn [nseq flat_map]. rewrite sched_ok_app, run_app.
    destruct (R_step k s ltac:(lia) Hq) as (A & B).
    replace (N.of_nat k + 1) with (N.of_nat (S k)) by lia.
    destruct (IH (S k) _ ltac:(lia) B) as (C & D). rewrite A, C. auto.
Qed.

Theorem cur_far_no_err_sec :
  let evs := sched_lag lag n in
  sched_ok lag c (init ms) evs = true /\ derr (run c (init ms) evs) = 0.
Proof.
  cbv zeta. destruct (R_iter n 0%nat (init ms) ltac:(lia) R_init) as (A & B).
  change (flat_map (iter_events lag) (nseq (N.of_nat 0) n)) with (sched_lag lag n) in *.
  split; [exact A|]. destruct B. assumption.
Qed.

End Far.

(* when the drop distance is at least the consumer's lag, no release fails: for every message
   sequence with keys 0..n-1, either policy, plain or streamed *)
Theorem cur_far_no_err : forall c lag ms, 1 <= lag -> map mkey ms = nseq 0 (length ms) -> far lag ms ->
  let evs := sched_lag lag (length ms) in
  sched_ok lag c (init ms) evs = true /\ derr (run c (init ms) evs) = 0.
Proof. intros c lag ms H1 Hk Hf. exact (cur_far_no_err_sec c lag ms H1 Hk Hf). Qed.

(* hence the marks of the CURRENT policy obey the bounds of the repaired one *)
Theorem cur_far_bounded : forall bs span ml lag ms c, pol c = P_cur -> wf bs span ml ms -> 1 <= lag ->
  map mkey ms = nseq 0 (length ms) -> far lag ms ->
  let s := run c (init ms) (sched_lag lag (length ms)) in
  derr s = 0 /\ hs s <= bound_syslines bs span /\ hl s <= bound_lines bs span ml lag.
Proof.
  intros bs span ml lag ms c Hc Hwf H1 Hk Hf. cbv zeta.
  destruct (cur_far_no_err c lag ms H1 Hk Hf) as (A & B). cbv zeta in A, B.
  pose proof (cur_no_err_bounded bs span ml lag ms c _ Hc Hwf A B) as (_ & B2 & _ & B4 & _).
  splits; auto.
Qed.

(* the example of RetainNoErr: block size 512, 240 lines of 20 bytes *)
Example farb_far_layout :
  farb 7 (layout_msgs 512 RetainNoErr.far_layout) = true /\
  farb 28 (layout_msgs 512 RetainNoErr.far_layout) = true /\
  farb 29 (layout_msgs 512 RetainNoErr.far_layout) = false /\
  farb 66 (layout_msgs 512 RetainNoErr.far_layout) = false.
Proof. vm_compute. repeat split; reflexivity. Qed.

(* the hypothesis is exact on the example: the first lag at which `far` fails is the first lag at
   which a release fails *)
Example far_tight_example :
  let ms := layout_msgs 512 RetainNoErr.far_layout in
  derr (run cur_plain (init ms) (sched_lag 28 (length ms))) = 0 /\
  0 < derr (run cur_plain (init ms) (sched_lag 29 (length ms))).
Proof. vm_compute. split; reflexivity. Qed.

Print Assumptions cur_far_no_err.
Print Assumptions cur_far_bounded.
Print Assumptions farb_sound.
