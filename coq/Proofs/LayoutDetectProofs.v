(* Proofs/LayoutDetectProofs.v — C08, layout detection (Model/LayoutDetect.v):
   - the outer loop of score_file picks the FIRST candidate, in iteration order, that reaches the
     maximal positive score (best_of_iff); a strict unique maximum is chosen under every order
     (score_file_order_independent); two candidates tied at the maximum are each chosen under some
     order (score_file_tie_order_dependent): with a HashMap as the candidate container the result
     was not a function of the file; a layout can only be displaced by a candidate whose score
     ties or exceeds its own (score_file_displaced) and a candidate's entry size divides the file
     size (filesz_candidates_sound / _complete);
   - the score of an entry is a function of the entry alone exactly when every scored string has
     a NUL before the end of the struct (score_entry_closed / score_entry_open_depends_on_memory /
     score_entry_none_iff);
   - the plausibility predicate the scoring rewards (plausible) gives at least 20 + bonus per entry
     (plausible_score_entry) and so a positive high score for the layout the file was written in
     (type_high_plausible). *)
From Coq Require Import List NArith ZArith Bool Lia Permutation.
Import ListNotations.
From S4.Base Require Import Bytes.
From S4.Model Require Import Records RecordRender LayoutDetect.

Local Open Scope Z_scope.

(* ------------------------------------------------------------------ the outer loop of score_file *)
Lemma best_of_keep l best hs :
  Forall (fun x : bytes * Z => snd x <= hs) l -> best_of l best hs = (best, hs).
Proof.
  induction l as [|[n h] r IH]; intro H; simpl; [reflexivity|].
  inversion H as [|? ? Hh Hr]; subst. simpl in Hh.
  destruct (hs <? h) eqn:E; [apply Z.ltb_lt in E; lia|]. apply IH. exact Hr.
Qed.

(* the first candidate, in iteration order, that reaches the maximal score wins *)
Lemma best_of_first_max l1 n s l2 best hs :
  hs < s -> Forall (fun x : bytes * Z => snd x < s) l1 -> Forall (fun x : bytes * Z => snd x <= s) l2 ->
  best_of (l1 ++ (n, s) :: l2) best hs = (Some n, s).
Proof.
  revert best hs. induction l1 as [|[m h] r IH]; intros best hs Hs H1 H2; simpl.
  - apply Z.ltb_lt in Hs. rewrite Hs. apply best_of_keep. exact H2.
  - inversion H1 as [|? ? Hh Hr]; subst. simpl in Hh.
    destruct (hs <? h) eqn:E; apply IH; try assumption. 
Qed.

Lemma best_of_inv l : forall best hs b s,
  best_of l best hs = (b, s) ->
  (b = best /\ s = hs /\ Forall (fun x : bytes * Z => snd x <= hs) l) \/
  (exists l1 n l2, l = l1 ++ (n, s) :: l2 /\ b = Some n /\ hs < s /\
                   Forall (fun x : bytes * Z => snd x < s) l1 /\ Forall (fun x : bytes * Z => snd x <= s) l2).
Proof.
  induction l as [|[m h] r IH]; intros best hs b s H; simpl in H.
  - inversion H; subst. left. repeat split. constructor.
  - destruct (hs <? h) eqn:E.
    + apply Z.ltb_lt in E. destruct (IH _ _ _ _ H) as [[Hb [Hs Hf]]|[l1 [n [l2 [Hl [Hb [Hlt [F1 F2]]]]]]]].
      * subst. right. exists [], m, r. repeat split; try assumption. constructor.
      * right. exists ((m, h) :: l1), n, l2. subst. repeat split; try assumption; try lia.
        constructor; [simpl; lia|assumption].
    + apply Z.ltb_ge in E. destruct (IH _ _ _ _ H) as [[Hb [Hs Hf]]|[l1 [n [l2 [Hl [Hb [Hlt [F1 F2]]]]]]]].
      * left. subst. repeat split. constructor; [simpl; lia|assumption].
      * right. exists ((m, h) :: l1), n, l2. subst. repeat split; try assumption.
        constructor; [simpl; lia|assumption].
Qed.

(* exact characterisation of the layout score_file settles on, for candidates met in the order l *)
Theorem best_of_iff l n s :
  best_of l None 0 = (Some n, s) <->
  exists l1 l2, l = l1 ++ (n, s) :: l2 /\ 0 < s /\
                Forall (fun x : bytes * Z => snd x < s) l1 /\ Forall (fun x : bytes * Z => snd x <= s) l2.
Proof.
  split.
  - intro H. destruct (best_of_inv l None 0 (Some n) s H) as [[Hb _]|[l1 [m [l2 [Hl [Hb [Hlt [F1 F2]]]]]]]]; [discriminate|].
    inversion Hb; subst. exists l1, l2. auto.
  - intros [l1 [l2 [-> [Hs [F1 F2]]]]]. apply best_of_first_max; assumption.
Qed.

Theorem best_of_none l :
  fst (best_of l None 0) = None <-> Forall (fun x : bytes * Z => snd x <= 0) l.
Proof.
  split.
  - intro H. destruct (best_of l None 0) as [b s] eqn:E. simpl in H. subst.
    destruct (best_of_inv l None 0 None s E) as [[_ [_ Hf]]|[l1 [m [l2 [_ [Hb _]]]]]]; [exact Hf|discriminate].
  - intro H. rewrite best_of_keep by exact H. reflexivity.
Qed.

(* a strict unique maximum wins whatever the iteration order *)
Theorem best_of_order_independent l n s :
  NoDup (map fst l) -> In (n, s) l -> 0 < s ->
  (forall m t, In (m, t) l -> m <> n -> t < s) ->
  forall l', Permutation l l' -> best_of l' None 0 = (Some n, s).
Proof.
  intros Hnd Hin Hs Hlt l' Hp.
  assert (Hin' : In (n, s) l') by (eapply Permutation_in; eassumption).
  assert (Hnd' : NoDup (map fst l')) by (eapply Permutation_NoDup; [apply Permutation_map; exact Hp|exact Hnd]).
  destruct (in_split _ _ Hin') as [l1 [l2 ->]].
  assert (Hother : forall x, In x (l1 ++ l2) -> snd x < s).
  { intros [m t] Hx. apply (Hlt m t).
    - apply (Permutation_in _ (Permutation_sym Hp)). apply in_app_or in Hx. apply in_or_app. simpl. tauto.
    - intro; subst m. rewrite map_app in Hnd'. simpl in Hnd'. apply NoDup_remove_2 in Hnd'.
      apply Hnd'. rewrite <- map_app. change n with (fst (n, t)). apply in_map. exact Hx. }
  apply best_of_first_max; [exact Hs| |]; apply Forall_forall; intros x Hx.
  - apply Hother. apply in_or_app. left. exact Hx.
  - assert (snd x < s) by (apply Hother; apply in_or_app; right; exact Hx). lia.
Qed.

(* two candidates tied at the maximal score: each of them wins under some iteration order *)
Theorem best_of_tie_order_dependent l n1 n2 s :
  In (n1, s) l -> In (n2, s) l -> n1 <> n2 -> 0 < s -> (forall x, In x l -> snd x <= s) ->
  exists l1 l2, Permutation l l1 /\ Permutation l l2 /\
                best_of l1 None 0 = (Some n1, s) /\ best_of l2 None 0 = (Some n2, s) /\
                fst (best_of l1 None 0) <> fst (best_of l2 None 0).
Proof.
  intros H1 H2 Hne Hs Hle.
  assert (Hfront : forall n, In (n, s) l -> exists l', Permutation l l' /\ best_of l' None 0 = (Some n, s)).
  { intros n Hin. destruct (in_split _ _ Hin) as [a [b ->]].
    exists ((n, s) :: a ++ b). split; [apply Permutation_sym, Permutation_middle|].
    change ((n, s) :: a ++ b) with ([] ++ (n, s) :: (a ++ b)). apply best_of_first_max; [exact Hs|constructor|].
    apply Forall_forall. intros x Hx. apply Hle. apply in_app_or in Hx. apply in_or_app. simpl. tauto. }
  destruct (Hfront n1 H1) as [l1 [P1 B1]]. destruct (Hfront n2 H2) as [l2 [P2 B2]].
  exists l1, l2. repeat split; try assumption. rewrite B1, B2. simpl. congruence.
Qed.

Example best_of_tie_example :
  best_of [([1%N], 122); ([2%N], 122)] None 0 = (Some [1%N], 122) /\
  best_of [([2%N], 122); ([1%N], 122)] None 0 = (Some [2%N], 122).
Proof. split; reflexivity. Qed.

Local Open Scope N_scope.

(* ------------------------------------------------------------------ when is the score a function of the entry? *)
Lemma take_cstr_app_nul r after : existsb (N.eqb 0) r = true -> take_cstr (r ++ after) = take_cstr r.
Proof.
  induction r as [|b r IH]; intro H; [discriminate|].
  cbn [existsb] in H. cbn [app take_cstr].
  destruct (b =? 0) eqn:E; [reflexivity|].
  rewrite N.eqb_sym, E in H. cbn [orb] in H. rewrite IH by exact H. reflexivity.
Qed.

Lemma cstr_mem_closed after off e :
  cstr_closed off e = true -> cstr_mem after off e = Some (take_cstr (skipn (N.to_nat off) e)).
Proof.
  unfold cstr_closed, cstr_mem. intro H. rewrite existsb_app, H. simpl.
  rewrite take_cstr_app_nul by exact H. reflexivity.
Qed.

Definition item_closed (e : bytes) (it : sitem) : bool :=
  match it with SCstr off => cstr_closed off e | _ => true end.
Definition items_closed (items : list sitem) (e : bytes) : bool := forallb (item_closed e) items.

Lemma sitem_score_closed after it e :
  item_closed e it = true -> sitem_score after it e = sitem_score [] it e /\ sitem_score [] it e <> None.
Proof.
  destruct it; simpl; intro H; try (split; [reflexivity|discriminate]).
  rewrite !cstr_mem_closed by exact H. split; [reflexivity|discriminate].
Qed.

Lemma items_score_closed after items e :
  items_closed items e = true ->
  items_score after items e = items_score [] items e /\ items_score [] items e <> None.
Proof.
  induction items as [|it r IH]; intro H; simpl; [split; [reflexivity|discriminate]|].
  simpl in H. apply andb_true_iff in H as [H1 H2].
  destruct (sitem_score_closed after it e H1) as [E1 N1]. destruct (IH H2) as [E2 N2].
  rewrite E1, E2. split; [reflexivity|].
  destruct (sitem_score [] it e); [|congruence]. destruct (items_score [] r e); [discriminate|congruence].
Qed.

(* every scored string has a NUL before the end of the struct: whatever lies behind the
   allocation, the score is the same, and it is defined *)
Theorem score_entry_closed items bonus e :
  items_closed items e = true ->
  (forall after, score_entry after items bonus e = score_entry [] items bonus e)
  /\ score_entry [] items bonus e <> None.
Proof.
  intro H. split.
  - intro aft. unfold score_entry. destruct (items_score_closed aft items e H) as [E _]. rewrite E. reflexivity.
  - unfold score_entry. destruct (items_score_closed [] items e H) as [_ Nn].
    destruct (items_score [] items e); [discriminate|congruence].
Qed.

(* ... and conversely: one scored string without a NUL up to the end of the struct, and two
   different continuations of memory give two different scores *)
Lemma cstr_mem_open_nul (after : bytes) off e :
  cstr_closed off e = false -> existsb (N.eqb 0) after = true ->
  cstr_mem after off e = Some (skipn (N.to_nat off) e ++ take_cstr after).
Proof.
  unfold cstr_closed, cstr_mem. intros H Ha. rewrite existsb_app, Ha, orb_true_r. f_equal.
  induction (skipn (N.to_nat off) e) as [|b r IH]; [reflexivity|].
  cbn [existsb] in H. cbn [app take_cstr].
  apply orb_false_iff in H as [H1 H2]. rewrite N.eqb_sym, H1. rewrite IH by exact H2. reflexivity.
Qed.

Lemma sumZ_app a b : sumZ (a ++ b) = (sumZ a + sumZ b)%Z.
Proof. induction a as [|x a IH]; simpl; [reflexivity|]. rewrite IH. lia. Qed.

Lemma cstr_score_grow r : (cstr_score r < cstr_score (r ++ [65%N]))%Z.
Proof.
  unfold cstr_score. destruct r as [|b r]; [simpl; lia|].
  change ((b :: r) ++ [65]) with (b :: (r ++ [65])).
  cbn [map sumZ]. rewrite map_app, sumZ_app. change (sumZ (map byte_score [65])) with 2%Z. lia.
Qed.

Lemma sitem_score_two it e :
  exists a b, sitem_score [0] it e = Some a /\ sitem_score [65; 0] it e = Some b /\ (a <= b)%Z /\
              (item_closed e it = false -> (a < b)%Z).
Proof.
  destruct it; cbn [sitem_score item_closed];
    try (eexists; eexists; split; [reflexivity|split; [reflexivity|split; [lia|discriminate]]]).
  destruct (cstr_closed off e) eqn:E.
  - rewrite !cstr_mem_closed by exact E.
    eexists; eexists; split; [reflexivity|split; [reflexivity|split; [lia|discriminate]]].
  - rewrite !cstr_mem_open_nul by (exact E || reflexivity).
    change (take_cstr [0]) with (@nil N). change (take_cstr [65; 0]) with [65]. rewrite app_nil_r.
    pose proof (cstr_score_grow (skipn (N.to_nat off) e)) as Hg.
    eexists; eexists; split; [reflexivity|split; [reflexivity|split; [lia|intros _; exact Hg]]].
Qed.

Lemma items_score_two items e :
  exists a b, items_score [0] items e = Some a /\ items_score [65; 0] items e = Some b /\ (a <= b)%Z /\
              (items_closed items e = false -> (a < b)%Z).
Proof.
  induction items as [|it r IH]; cbn [items_score items_closed forallb].
  - exists 0%Z, 0%Z. split; [reflexivity|split; [reflexivity|split; [lia|discriminate]]].
  - destruct (sitem_score_two it e) as [a1 [b1 [A1 [B1 [L1 S1]]]]].
    destruct IH as [a2 [b2 [A2 [B2 [L2 S2]]]]].
    rewrite A1, B1, A2, B2. exists (a1 + a2)%Z, (b1 + b2)%Z.
    split; [reflexivity|split; [reflexivity|split; [lia|]]].
    intro H. apply andb_false_iff in H as [H|H]; [specialize (S1 H)|specialize (S2 H)]; lia.
Qed.

Theorem score_entry_open_depends_on_memory items bonus e :
  items_closed items e = false ->
  exists after1 after2 s1 s2,
    score_entry after1 items bonus e = Some s1 /\ score_entry after2 items bonus e = Some s2 /\ s1 <> s2.
Proof.
  intro H. destruct (items_score_two items e) as [a [b [A [B [_ S]]]]]. specialize (S H).
  exists [0], [65; 0]. unfold score_entry. rewrite A, B. eexists; eexists. repeat split. lia.
Qed.

(* with nothing assumed about memory (after = []) the model says None exactly in that case *)
Theorem score_entry_none_iff items bonus e :
  score_entry [] items bonus e = None <-> items_closed items e = false.
Proof.
  split.
  - intro H. destruct (items_closed items e) eqn:E; [|reflexivity].
    destruct (score_entry_closed items bonus e E) as [_ Hn]. congruence.
  - intro H. unfold score_entry.
    assert (G : items_score [] items e = None); [|rewrite G; reflexivity].
    induction items as [|it r IH]; [discriminate|]. simpl in H. apply andb_false_iff in H. simpl.
    destruct H as [H|H].
    + destruct it; simpl in H; try discriminate. simpl. unfold cstr_mem, cstr_closed in *.
      rewrite app_nil_r, H. reflexivity.
    + rewrite (IH H). destruct (sitem_score [] it e); reflexivity.
Qed.

Local Open Scope N_scope.

(* ------------------------------------------------------------------ what the scoring rewards *)
Definition printable (c : N) : bool := (32 <=? c) && (c <=? 126).

(* no non-NUL byte after the first NUL *)
Definition no_data_after_nul (bs : bytes) : bool := forallb (N.eqb 0) (skipn (length (take_cstr bs)) bs).

(* the plausibility of one scoring item's field: the condition under which the item does not
   subtract (and a time in the range scores its +20) *)
Definition plausible_item (e : bytes) (it : sitem) : bool :=
  match it with
  | SCstr off => match cstr_mem [] off e with Some t => forallb printable t | None => false end
  | SNoDataAfterNull off w => no_data_after_nul (slice off w e)
  | SNullTerm off w => last (slice off w e) 0 =? 0
  | SAllNull off w => (last (slice off w e) 0 =? 0)
  | SValueNotZero off sz => negb (le_unsigned (slice off sz e) =? 0)
  | SUtType off sz signed types => memZ (field_int off sz signed e) types
  | SAcFlags off mask => N.land (byte_at off e) (255 - mask) =? 0
  | STimeRange off sz signed lo hi =>
      ((lo <=? field_int off sz signed e) && (field_int off sz signed e <=? hi) && (0 <? lo))%Z
  end.
Definition plausible (items : list sitem) (e : bytes) : bool := forallb (plausible_item e) items.

Definition is_time (it : sitem) : bool := match it with STimeRange _ _ _ _ _ => true | _ => false end.

Lemma sumZ_printable t : forallb printable t = true -> (0 <= sumZ (map byte_score t))%Z.
Proof.
  induction t as [|c r IH]; intro H; [simpl; lia|].
  cbn [forallb] in H. apply andb_true_iff in H as [Hc Hr]. specialize (IH Hr).
  cbn [map sumZ]. assert (Hb : byte_score c = 2%Z) by (unfold byte_score; unfold printable in Hc; rewrite Hc; reflexivity).
  rewrite Hb. lia.
Qed.

Lemma cstr_score_printable t : forallb printable t = true -> (0 <= cstr_score t)%Z.
Proof.
  intro H. unfold cstr_score. destruct t as [|c r]; [lia|]. pose proof (sumZ_printable _ H). lia.
Qed.

Lemma nodata_true_zero bs : forallb (N.eqb 0) bs = true -> nodata_score true bs = 0%Z.
Proof.
  induction bs as [|b r IH]; intro H; [reflexivity|]. cbn [forallb] in H. apply andb_true_iff in H as [Hb Hr].
  cbn [nodata_score]. rewrite N.eqb_sym, Hb. apply IH. exact Hr.
Qed.

Lemma nodata_plausible bs : no_data_after_nul bs = true -> nodata_score false bs = 0%Z.
Proof.
  unfold no_data_after_nul. induction bs as [|b r IH]; intro H; [reflexivity|].
  cbn [take_cstr nodata_score] in *. destruct (b =? 0) eqn:E.
  - cbn [length skipn] in H. cbn [forallb] in H. apply andb_true_iff in H as [_ H].
    apply nodata_true_zero. exact H.
  - cbn [length skipn] in H. apply IH. exact H.
Qed.

Lemma plausible_item_score e it :
  plausible_item e it = true ->
  exists s, sitem_score [] it e = Some s /\ (0 <= s)%Z /\ (is_time it = true -> s = 20%Z).
Proof.
  destruct it; cbn [plausible_item sitem_score is_time]; intro H.
  - destruct (cstr_mem [] off e) as [t|]; [|discriminate]. eexists. split; [reflexivity|].
    split; [apply cstr_score_printable; exact H|discriminate].
  - eexists. split; [reflexivity|]. rewrite nodata_plausible by exact H. split; [lia|discriminate].
  - eexists. split; [reflexivity|]. unfold nullterm_score. rewrite H. split; [lia|discriminate].
  - eexists. split; [reflexivity|]. unfold allnull_score. rewrite H. cbn [negb].
    split; [destruct (slice off w e); lia|discriminate].
  - eexists. split; [reflexivity|]. unfold notzero_score. apply negb_true_iff in H. rewrite H. split; [lia|discriminate].
  - eexists. split; [reflexivity|]. unfold uttype_score. rewrite H.
    split; [destruct (field_int off sz signed e =? 0)%Z; lia|discriminate].
  - eexists. split; [reflexivity|]. unfold acflags_score. rewrite H. cbn [negb].
    split; [destruct (byte_at off e =? 0); lia|discriminate].
  - eexists. split; [reflexivity|]. unfold time_score.
    apply andb_true_iff in H as [H Hlo]. rewrite H. apply andb_true_iff in H as [H1 H2].
    apply Z.leb_le in H1. apply Z.ltb_lt in Hlo.
    assert (Hz : (field_int off sz signed e =? 0)%Z = false) by (apply Z.eqb_neq; lia).
    rewrite Hz. split; [lia|]. intros _. lia.
Qed.

(* a plausible entry scores at least 20 per time item, under any continuation of memory, and every
   read stays inside the struct *)
Theorem plausible_score items e :
  plausible items e = true ->
  items_closed items e = true /\
  exists s, items_score [] items e = Some s /\ (20 * Z.of_nat (length (filter is_time items)) <= s)%Z.
Proof.
  induction items as [|it r IH]; intro H.
  - split; [reflexivity|]. exists 0%Z. split; [reflexivity|simpl; lia].
  - cbn [plausible forallb] in H. apply andb_true_iff in H as [H1 H2].
    destruct (IH H2) as [Hc [s2 [E2 L2]]]. destruct (plausible_item_score e it H1) as [s1 [E1 [P1 T1]]].
    split.
    + cbn [items_closed forallb]. fold (items_closed r e). rewrite Hc, andb_true_r.
      destruct it; try reflexivity. cbn [item_closed]. cbn [plausible_item] in H1.
      unfold cstr_mem in H1. rewrite app_nil_r in H1. unfold cstr_closed.
      destruct (existsb (N.eqb 0) (skipn (N.to_nat off) e)); [reflexivity|discriminate].
    + exists (s1 + s2)%Z. cbn [items_score]. rewrite E1, E2. split; [reflexivity|].
      cbn [filter]. destruct (is_time it) eqn:Et.
      * specialize (T1 eq_refl). cbn [length]. lia.
      * lia.
Qed.

Theorem plausible_score_entry items bonus e :
  plausible items e = true -> existsb is_time items = true ->
  forall aft, exists s, score_entry aft items bonus e = Some s /\ (20 <= s)%Z /\ (20 + bonus <= s)%Z.
Proof.
  intros H Ht aft. destruct (plausible_score items e H) as [Hc [s [E L]]].
  destruct (score_entry_closed items bonus e Hc) as [Hind _]. rewrite Hind.
  unfold score_entry. rewrite E. eexists. split; [reflexivity|].
  assert (1 <= length (filter is_time items))%nat.
  { apply existsb_exists in Ht as [x [Hx Hxt]].
    assert (In x (filter is_time items)) by (apply filter_In; split; assumption).
    destruct (filter is_time items); [contradiction|simpl; lia]. }
  destruct (0 <? bonus)%Z eqn:Eb; [apply Z.ltb_lt in Eb|apply Z.ltb_ge in Eb]; lia.
Qed.

Local Open Scope N_scope.

(* ------------------------------------------------------------------ the inner loop *)
(* the first k convertible entries *)
Fixpoint take_conv (k : nat) (entries : list bytes) : list bytes :=
  match entries with
  | [] => []
  | e :: r => match k with
              | O => []
              | S k' => if convertible e then e :: take_conv k' r else take_conv k r
              end
  end.

Definition sc (items : list sitem) (bonus : Z) (e : bytes) : Z :=
  match score_entry [] items bonus e with Some s => s | None => 0%Z end.

Lemma zmax_step s high : (if (s <=? high)%Z then high else s) = Z.max high s.
Proof. destruct (s <=? high)%Z eqn:E; [apply Z.leb_le in E|apply Z.leb_gt in E]; lia. Qed.

(* when every read stays inside the struct: the high score of a candidate is the maximum of 0 and
   the scores of the first `maxfound` convertible entries, whatever lies behind the allocations *)
Lemma type_loop_closed mem mx items bonus entries :
  Forall (fun e => items_closed items e = true) entries ->
  forall idx found high, (found <= mx)%nat ->
  type_loop mem mx items bonus entries idx found high
  = Some (fold_left Z.max (map (sc items bonus) (take_conv (mx - found) entries)) high).
Proof.
  induction 1 as [|e r He Hr IH]; intros idx found high Hf; cbn [type_loop take_conv].
  - destruct (mx - found)%nat; reflexivity.
  - destruct (Nat.leb mx found) eqn:E.
    + apply Nat.leb_le in E. replace (mx - found)%nat with 0%nat by lia. reflexivity.
    + apply Nat.leb_gt in E. destruct (mx - found)%nat as [|k] eqn:Ek; [lia|].
      destruct (convertible e).
      * destruct (score_entry_closed items bonus e He) as [Hind Hsome].
        rewrite Hind. cbn [map fold_left].
        assert (Hsc : score_entry [] items bonus e = Some (sc items bonus e)).
        { unfold sc. destruct (score_entry [] items bonus e); [reflexivity|congruence]. }
        rewrite Hsc. rewrite IH by lia. replace (mx - S found)%nat with k by lia.
        rewrite zmax_step. reflexivity.
      * rewrite IH by lia. rewrite Ek. reflexivity.
Qed.

Theorem type_high_closed mem mx size items bonus file :
  Forall (fun e => items_closed items e = true) (chunks (length file) (N.to_nat size) file) ->
  type_high mem mx size items bonus file
  = Some (fold_left Z.max (map (sc items bonus) (take_conv mx (chunks (length file) (N.to_nat size) file))) 0%Z).
Proof.
  intro H. unfold type_high. rewrite (type_loop_closed mem mx items bonus _ H 0%nat 0%nat 0%Z) by lia.
  rewrite Nat.sub_0_r. reflexivity.
Qed.

Lemma fold_max_ge l : forall a, (a <= fold_left Z.max l a)%Z.
Proof. induction l as [|x r IH]; intro a; simpl; [lia|]. specialize (IH (Z.max a x)). lia. Qed.

Lemma fold_max_in l x : In x l -> forall a, (x <= fold_left Z.max l a)%Z.
Proof.
  induction l as [|y r IH]; intros H a; [contradiction|]. simpl. destruct H as [->|H].
  - pose proof (fold_max_ge r (Z.max a x)). lia.
  - apply IH. exact H.
Qed.

(* a plausible entry among the first `maxfound` convertible ones: the candidate's high score is at
   least 20 + bonus *)
Theorem type_high_plausible mem mx size items bonus file e :
  Forall (fun e => items_closed items e = true) (chunks (length file) (N.to_nat size) file) ->
  In e (take_conv mx (chunks (length file) (N.to_nat size) file)) ->
  plausible items e = true -> existsb is_time items = true ->
  exists h, type_high mem mx size items bonus file = Some h /\ (20 <= h)%Z /\ (20 + bonus <= h)%Z.
Proof.
  intros Hc Hin Hp Ht. rewrite type_high_closed by exact Hc. eexists. split; [reflexivity|].
  destruct (plausible_score_entry items bonus e Hp Ht []) as [s [Es [L1 L2]]].
  assert (Hs : sc items bonus e = s) by (unfold sc; rewrite Es; reflexivity).
  pose proof (fold_max_in (map (sc items bonus) (take_conv mx (chunks (length file) (N.to_nat size) file)))
                          (sc items bonus e) (in_map _ _ _ Hin) 0%Z). lia.
Qed.

(* ------------------------------------------------------------------ the candidate set *)
Lemma find_size_in n t sz : find_size n t = Some sz -> exists l, In l t /\ l_name l = n /\ l_size l = sz.
Proof.
  induction t as [|l r IH]; simpl; [discriminate|]. destruct (beqb n (l_name l)) eqn:E.
  - intro H. inversion H. apply beqb_eq in E. exists l. auto.
  - intro H. destruct (IH H) as [l' [H1 H2]]. exists l'. auto.
Qed.

(* a layout is a candidate only when its entry size divides the file size *)
Theorem filesz_candidates_sound layouts bonus_tbl try_all score_tbl bonus kind filesz n sz items b :
  In (n, sz, items, b) (filesz_candidates layouts bonus_tbl try_all score_tbl bonus kind filesz) ->
  filesz <> 0 /\ 0 < sz /\ filesz mod sz = 0 /\ In n try_all /\
  find_size n layouts = Some sz /\ assoc n score_tbl = Some items /\
  b = (if has_bonus kind n bonus_tbl then bonus else 0%Z).
Proof.
  unfold filesz_candidates. destruct (filesz =? 0) eqn:E0; [contradiction|]. apply N.eqb_neq in E0.
  intro H. apply in_flat_map in H as [m [Hm H]].
  destruct (find_size m layouts) as [s|] eqn:Ef; [|contradiction].
  destruct (assoc m score_tbl) as [its|] eqn:Ea; [|contradiction].
  destruct ((0 <? s) && (filesz mod s =? 0)) eqn:Ec; [|contradiction].
  destruct H as [H|[]]. inversion H; subst. apply andb_true_iff in Ec as [E1 E2].
  apply N.ltb_lt in E1. apply N.eqb_eq in E2. repeat split; assumption.
Qed.

Theorem filesz_candidates_complete layouts bonus_tbl try_all score_tbl bonus kind filesz n sz items :
  filesz <> 0 -> In n try_all -> find_size n layouts = Some sz -> assoc n score_tbl = Some items ->
  0 < sz -> filesz mod sz = 0 ->
  In (n, sz, items, if has_bonus kind n bonus_tbl then bonus else 0%Z)
     (filesz_candidates layouts bonus_tbl try_all score_tbl bonus kind filesz).
Proof.
  intros H0 Hn Hf Ha Hs Hm. unfold filesz_candidates.
  apply N.eqb_neq in H0. rewrite H0. apply in_flat_map. exists n. split; [exact Hn|].
  rewrite Hf, Ha. apply N.ltb_lt in Hs. apply N.eqb_eq in Hm. rewrite Hs, Hm. left. reflexivity.
Qed.

(* ------------------------------------------------------------------ score_file and the iteration order *)
Definition cname (c : cand) : bytes := fst (fst (fst c)).
Definition chigh (mem : bytes -> nat -> bytes) (mx : nat) (file : bytes) (c : cand) : option Z :=
  let '(n, size, items, bonus) := c in type_high (mem n) mx size items bonus file.

Lemma cand_scores_opt_map mem mx cands file :
  cand_scores_opt mem mx cands file = map (fun c => (cname c, chigh mem mx file c)) cands.
Proof. unfold cand_scores_opt. apply map_ext. intros [[[n sz] it] b]. reflexivity. Qed.

Lemma all_some_app a b :
  all_some (a ++ b) = match all_some a, all_some b with Some x, Some y => Some (x ++ y) | _, _ => None end.
Proof.
  induction a as [|[n [h|]] r IH]; simpl.
  - destruct (all_some b); reflexivity.
  - rewrite IH. destruct (all_some r), (all_some b); reflexivity.
  - reflexivity.
Qed.

Lemma all_some_spec l l' : all_some l = Some l' <-> l = map (fun x => (fst x, Some (snd x))) l'.
Proof.
  revert l'. induction l as [|[n [h|]] r IH]; intro l'; simpl.
  - split; [intro H; inversion H; reflexivity|]. destruct l'; [reflexivity|discriminate].
  - destruct (all_some r) as [x|] eqn:E.
    + split.
      * intro H. inversion H; subst. simpl. f_equal. apply IH. reflexivity.
      * destruct l' as [|[m t] l'']; [discriminate|]. simpl. intro H. inversion H; subst.
        assert (Some x = Some l'') by (apply IH; reflexivity). congruence.
    + split; [discriminate|]. destruct l' as [|[m t] l'']; [discriminate|]. simpl. intro H. inversion H; subst.
      assert (None = Some l'') by (apply IH; reflexivity). discriminate.
  - split; [discriminate|]. destruct l' as [|[m t] l'']; discriminate.
Qed.

Lemma all_some_perm a b l :
  Permutation a b -> all_some a = Some l -> exists l', all_some b = Some l' /\ Permutation l l'.
Proof.
  intros Hp Ha. apply all_some_spec in Ha. subst a.
  apply Permutation_sym in Hp. apply Permutation_map_inv in Hp as [l' [Hb Hp]].
  exists l'. split; [apply all_some_spec; exact Hb|exact Hp].
Qed.

Lemma cand_scores_perm mem mx cands cands' file l :
  Permutation cands cands' -> cand_scores mem mx cands file = Some l ->
  exists l', cand_scores mem mx cands' file = Some l' /\ Permutation l l'.
Proof.
  unfold cand_scores. rewrite !cand_scores_opt_map. intros Hp H.
  eapply all_some_perm; [apply Permutation_map; exact Hp|exact H].
Qed.

(* POSITIVE: if one candidate's high score is strictly above every other's (and positive), that
   candidate is chosen whatever the order in which score_file meets the candidates *)
Theorem score_file_order_independent mem mx cands file l n s :
  cand_scores mem mx cands file = Some l -> NoDup (map fst l) ->
  In (n, s) l -> (0 < s)%Z -> (forall m t, In (m, t) l -> m <> n -> (t < s)%Z) ->
  forall cands', Permutation cands cands' -> score_file mem mx cands' file = Some (Some n, s).
Proof.
  intros Hl Hnd Hin Hs Hlt cands' Hp.
  destruct (cand_scores_perm mem mx cands cands' file l Hp Hl) as [l' [Hl' Hpl]].
  unfold score_file. rewrite Hl'. f_equal. eapply best_of_order_independent; eassumption.
Qed.

(* REFUTED in general: two candidates tied at the maximal score — each is chosen under some
   iteration order, so the result is not a function of the candidate SET *)
Theorem score_file_tie_order_dependent mem mx cands file l n1 n2 s :
  cand_scores mem mx cands file = Some l ->
  In (n1, s) l -> In (n2, s) l -> n1 <> n2 -> (0 < s)%Z -> (forall x, In x l -> (snd x <= s)%Z) ->
  exists cands1 cands2, Permutation cands cands1 /\ Permutation cands cands2 /\
    score_file mem mx cands1 file = Some (Some n1, s) /\ score_file mem mx cands2 file = Some (Some n2, s).
Proof.
  intros Hl H1 H2 Hne Hs Hle.
  destruct (best_of_tie_order_dependent l n1 n2 s H1 H2 Hne Hs Hle) as [l1 [l2 [P1 [P2 [B1 [B2 _]]]]]].
  unfold cand_scores in Hl. rewrite cand_scores_opt_map in Hl. apply all_some_spec in Hl.
  assert (Hlift : forall lx, Permutation l lx -> exists cx, Permutation cands cx /\ cand_scores mem mx cx file = Some lx).
  { intros lx Px.
    assert (Pm : Permutation (map (fun x : bytes * Z => (fst x, Some (snd x))) lx)
                             (map (fun c => (cname c, chigh mem mx file c)) cands)).
    { rewrite Hl. apply Permutation_map. apply Permutation_sym. exact Px. }
    apply Permutation_map_inv in Pm as [cx [Hcx Pcx]].
    exists cx. split; [exact Pcx|]. unfold cand_scores. rewrite cand_scores_opt_map.
    apply all_some_spec. symmetry. exact Hcx. }
  destruct (Hlift l1 P1) as [c1 [Pc1 S1]]. destruct (Hlift l2 P2) as [c2 [Pc2 S2]].
  exists c1, c2. unfold score_file. rewrite S1, S2, B1, B2. auto.
Qed.

(* which candidates can displace a layout: only one whose high score ties or exceeds it (and whose
   entry size divides the file size, by filesz_candidates_sound) *)
Theorem score_file_displaced mem mx cands file l n s n' s' :
  cand_scores mem mx cands file = Some l -> In (n, s) l ->
  score_file mem mx cands file = Some (Some n', s') -> n' <> n ->
  In (n', s') l /\ (s <= s')%Z /\ (0 < s')%Z.
Proof.
  intros Hl Hin Hsf Hne. unfold score_file in Hsf. rewrite Hl in Hsf. inversion Hsf as [Hb].
  apply best_of_iff in Hb as [l1 [l2 [-> [Hs [F1 F2]]]]].
  split; [apply in_or_app; right; left; reflexivity|]. split; [|exact Hs].
  apply in_app_or in Hin as [Hin|[Hin|Hin]].
  - rewrite Forall_forall in F1. specialize (F1 _ Hin). simpl in F1. lia.
  - inversion Hin; subst. congruence.
  - rewrite Forall_forall in F2. specialize (F2 _ Hin). simpl in F2. lia.
Qed.

(* a single candidate (no other layout's entry size divides the file size) *)
Theorem score_file_single mem mx c file h :
  chigh mem mx file c = Some h ->
  score_file mem mx [c] file = Some (if (0 <? h)%Z then (Some (cname c), h) else (None, 0%Z)).
Proof.
  destruct c as [[[n sz] it] b]. unfold chigh, score_file, cand_scores, cand_scores_opt. simpl.
  intro H. rewrite H. simpl. reflexivity.
Qed.
