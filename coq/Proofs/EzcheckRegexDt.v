(* Proofs/EzcheckRegexDt.v — dated_model of Model/RegexDt.v (slice -> regex search -> captures -> normalise + chrono
   parse) IS the per-row oracle `dated_by_row_of (match_slice_rx post_dm) info_tab` of the block-zero analysis, for every
   row of the regenerated tables; with Proofs/EzcheckRegex.v this gives EZCHECK soundness and the acceptance theorems
   for dated_model with no hypothesis on an oracle. *)
From Coq Require Import List NArith ZArith Lia Bool.
Import ListNotations.
From S4.Base Require Import Bytes Chunk.
From S4.Model Require Import Calendar Normalise Regex RegexPlan RegexDt.
From S4.Model Require Gate GateSpec.
From S4.Gen Require Import BlockConsts DatetimeTables RegexTables.
From S4.Proofs Require Import RegexProofs EzcheckRegex.
From S4.Corr Require C12.
Open Scope N_scope.

(* the conversion step of bytes_to_regex_to_datetime (Model/RegexDt.v), applied to the SLICE *)
Definition post_dm (mt tzt : list (bytes * bytes)) (yo : option Z) (off : Z) (r : N) (s : bytes) (m : N * cst) : option Z :=
  match nth_error rx_table (N.to_nat r), nth_error dt_table (N.to_nat r) with
  | Some row, Some drow =>
      model_instant mt tzt (r_dtfs drow) (caps_of row s (map (shift_span (rx_start row)) (spans_of (rx_ncap row) m))) yo off
  | _, _ => None
  end.

Definition bounded (n : N) (o : option (N * N)) : Prop := match o with Some (a, b) => a <= b /\ b <= n | None => True end.

Lemma sub_firstn (line : bytes) e a b : a <= b -> b <= e ->
  sub (firstn (N.to_nat e) line) (a, b) = sub line (a, b).
Proof.
  intros L1 L2. unfold sub. cbn [fst snd].
  rewrite skipn_firstn_comm, firstn_firstn. f_equal. lia.
Qed.

Lemma spans_upto_bounded n : forall g caps lim, (forall g' a b, cap_lookup g' caps = Some (a, b) -> a <= b /\ b <= lim) ->
  Forall (bounded lim) (spans_upto n g caps).
Proof.
  induction n as [|n IH]; intros g caps lim H; cbn [spans_upto]; constructor.
  - destruct (cap_lookup g caps) as [[a b]|] eqn:E; [exact (H _ _ _ E)|exact I].
  - apply IH. exact H.
Qed.

Lemma search_spans_bounded r text st s ncap : search r text = Match (st, s) ->
  Forall (bounded (N.of_nat (length text))) (map (shift_span 0) (spans_of ncap (st, s))).
Proof.
  intro H. apply search_sound in H as (A & B & _ & C). unfold spans_of. cbn [fst snd map].
  constructor.
  - cbn. lia.
  - apply Forall_map. eapply Forall_impl; [|apply (spans_upto_bounded _ _ _ (c_pos s))].
    + intros [[a b]|] Q; cbn in *; [lia|exact I].
    + intros g' a b E. destruct (C _ _ _ E) as (X & Y & Z). lia.
Qed.

Lemma field_text_slice row (line : bytes) e spans f : Forall (bounded e) spans ->
  field_text row (firstn (N.to_nat e) line) spans f = field_text row line spans f.
Proof.
  intro F. unfold field_text, field_span. destruct (assocN f (rx_names row)) as [g|]; [|reflexivity].
  destruct (nth_in_or_default (N.to_nat g) spans None) as [I|D].
  - rewrite Forall_forall in F. specialize (F _ I). destruct (nth (N.to_nat g) spans None) as [[a b]|]; [|reflexivity].
    cbn [option_map]. f_equal. destruct F as [F1 F2]. apply sub_firstn; assumption.
  - rewrite D. reflexivity.
Qed.

Lemma caps_of_slice row (line : bytes) e spans : Forall (bounded e) spans ->
  caps_of row (firstn (N.to_nat e) line) spans = caps_of row line spans.
Proof. intro F. unfold caps_of. rewrite !(field_text_slice row line e spans _ F). reflexivity. Qed.

(* the regenerated tables agree on the slice ranges *)
Lemma ranges_agree_b :
  forallb (fun p => (rx_start (fst p) =? 0) && (r_start (snd p) =? 0) && (rx_end (fst p) =? r_end (snd p)))
          (combine rx_table dt_table) = true /\ length rx_table = length dt_table.
Proof. vm_compute. split; reflexivity. Qed.

(* dated_model (Model/RegexDt.v) IS the analysis' per-row oracle built from the regex model and its conversion step *)
Theorem dated_model_is_oracle mt tzt yo off r row drow (line : bytes) :
  nth_error rx_table (N.to_nat r) = Some row -> nth_error dt_table (N.to_nat r) = Some drow ->
  option_map (fun x => fst (fst x)) (dated_model mt tzt row (r_dtfs drow) line yo off) =
  Gate.dated_by_row_of (match_slice_rx (post_dm mt tzt yo off)) C12.info_tab r line.
Proof.
  intros Hr Hd.
  assert (RA : rx_start row = 0 /\ r_start drow = 0 /\ rx_end row = r_end drow).
  { destruct ranges_agree_b as (T & L). rewrite forallb_forall in T.
    assert (I : In (row, drow) (combine rx_table dt_table)).
    { clear - Hr Hd. revert Hr Hd. generalize (N.to_nat r) rx_table dt_table. intro k. induction k as [|k IH]; intros [|x l1] [|y l2] A B; try discriminate.
      - cbn in *. injection A as ->. injection B as ->. left. reflexivity.
      - cbn in *. right. apply IH; assumption. }
    specialize (T _ I). cbn [fst snd] in T. apply andb_true_iff in T as [T T3]. apply andb_true_iff in T as [T1 T2].
    rewrite !N.eqb_eq in *. auto. }
  destruct RA as (S0 & S1 & EN).
  unfold Gate.dated_by_row_of, C12.info_tab. rewrite Hd. cbn [Gate.ri_start Gate.ri_end]. rewrite S1.
  unfold dated_model, row_spans, slice_of. rewrite S0, <- EN.
  change (lenN line) with (N.of_nat (length line)).
  destruct (N.leb_spec (N.of_nat (length line)) 0) as [Z|Z]; [reflexivity|].
  destruct (N.leb_spec (N.min (N.of_nat (length line)) (rx_end row)) 0) as [Z2|Z2]; [reflexivity|].
  set (e := N.min (N.of_nat (length line)) (rx_end row)) in *.
  assert (SL : Chunk.slice line 0 e = firstn (N.to_nat (e - 0)) (skipn (N.to_nat 0) line)) by reflexivity.
  rewrite SL. cbn [N.to_nat skipn]. rewrite N.sub_0_r.
  unfold match_slice_rx. rewrite Hr.
  destruct (search (rx_re row) (firstn (N.to_nat e) line)) as [[st cs]| | |] eqn:SE; try reflexivity.
  unfold post_dm. rewrite Hr, Hd, S0.
  pose proof (search_spans_bounded _ _ _ _ (rx_ncap row) SE) as B.
  assert (LE : N.of_nat (length (firstn (N.to_nat e) line)) <= e) by (rewrite firstn_length; lia).
  rewrite (caps_of_slice row line e).
  2:{ eapply Forall_impl; [|exact B]. intros [[a b]|] Q; cbn in *; [lia|exact I]. }
  destruct (model_instant _ _ _ _ _ _); reflexivity.
Qed.

(* EZCHECK soundness for dated_model: the pre-filtered search over the model's matcher finds exactly what the plain
   first-matching-row search over dated_model finds — for every line, every counts map, no oracle hypothesis *)
Theorem ezcheck_sound_dated_model mt tzt yo off c line :
  Gate.parse_ez (match_slice_rx (post_dm mt tzt yo off)) C12.info_tab c line =
  Gate.parse_plain (Gate.dated_by_row_of (match_slice_rx (post_dm mt tzt yo off)) C12.info_tab) c line.
Proof. apply ezcheck_sound_regex. Qed.
