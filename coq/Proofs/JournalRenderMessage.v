(* Proofs/JournalRenderMessage.v — which field values the renderings show.
   * next_short's enumeration loop: the MESSAGE slot ends up holding a MESSAGE value of the entry
     (the only one when the key occurs once), and the line ends with ": " MESSAGE "\n";
   * next_verbose: the body prints every binding of the field map exactly once (a permutation),
     each as FIELD_BEG key "=" value "\n"; the map binds MESSAGE to a MESSAGE value of the entry;
   * next_export: every enumerated field is printed, its value bytes verbatim followed by a newline;
   * hence every one of the ten renderings contains MESSAGE "\n" verbatim. *)
From Coq Require Import String Permutation.
From S4.Base Require Import Bytes.
From S4.Model Require Import Journal JournalRender.
From S4.Proofs Require Import JournalExport JournalRenderBasic.
Open Scope N_scope.

(* keys as libsystemd stores them: no '=' inside the field name *)
Definition keys_wf (fs : list field) : Prop := Forall (fun f => ~ In EQ (fst f)) fs.

Lemma keys_wf_firstn n fs : keys_wf fs -> keys_wf (firstn n fs).
Proof. apply Forall_firstn. Qed.

Lemma In_firstn {A} (x : A) : forall n l, In x (firstn n l) -> In x l.
Proof.
  induction n as [|n IH]; intros l H; [destruct H|]. destruct l as [|y l]; [destruct H|].
  cbn [firstn] in H. destruct H as [->|H]; [left; reflexivity|right; apply IH; exact H].
Qed.

Lemma split_data_of f : ~ In EQ (fst f) -> split_at EQ (data_of f) = Some f.
Proof. intro H. destruct f as [k v]. unfold data_of. cbn [fst snd] in *. apply split_at_app. exact H. Qed.

Lemma raw_data_firstn n e : firstn n (raw_data e) = map data_of (firstn n (e_fields e)).
Proof. unfold raw_data. apply firstn_map. Qed.

(* ------------------------------------------------------------------ infix *)

Lemma infix_refl a : infix a a.
Proof. exists [], []. rewrite app_nil_r. reflexivity. Qed.

Lemma infix_trans a b c : infix a b -> infix b c -> infix a c.
Proof.
  intros [p [s ->]] [p' [s' ->]]. exists (p' ++ p), (s ++ s'). rewrite <- !app_assoc. reflexivity.
Qed.

Lemma infix_app_l a b x : infix a b -> infix a (x ++ b).
Proof. intros [p [s ->]]. exists (x ++ p), s. rewrite <- app_assoc. reflexivity. Qed.

Lemma infix_app_r a b x : infix a b -> infix a (b ++ x).
Proof. intros [p [s ->]]. exists p, (s ++ x). rewrite <- !app_assoc. reflexivity. Qed.

Lemma infix_cons a b x : infix a b -> infix a (x :: b).
Proof. apply (infix_app_l a b [x]). Qed.

Lemma infix_suffix p a : infix a (p ++ a).
Proof. apply infix_app_l, infix_refl. Qed.

Lemma infix_concat_map {A} (g : A -> bytes) (l : list A) x : In x l -> infix (g x) (concat (map g l)).
Proof.
  intro H. apply in_split in H as [l1 [l2 ->]]. rewrite map_app, concat_app. cbn [map concat].
  apply infix_app_l, infix_app_r, infix_refl.
Qed.

(* ------------------------------------------------------------------ what cfg_ok gives *)

Lemma beqb_false_neq a b : beqb a b = false -> a <> b.
Proof. intros H E. subst. rewrite beqb_refl in H. discriminate. Qed.
Lemma beqb_neq_false a b : a <> b -> beqb a b = false.
Proof. intro H. destruct (beqb a b) eqn:E; [apply beqb_eq in E; contradiction|reflexivity]. Qed.

Record cfg_facts (cfg : jcfg) : Prop := {
  cf_formats : cfg_formats_ok cfg = true;
  cf_host : cfg_k_host cfg <> cfg_k_msg cfg;
  cf_ident : cfg_k_ident cfg <> cfg_k_msg cfg;
  cf_spid : cfg_k_spid cfg <> cfg_k_msg cfg;
  cf_comm : cfg_k_comm cfg <> cfg_k_msg cfg;
  cf_pid : cfg_k_pid cfg <> cfg_k_msg cfg;
  cf_need : forall st, sf_all cfg st = true -> exists m, sf_msg st = Some m;
  cf_cat : cfg_k_cat cfg = cfg_k_msg cfg;
  cf_selinux : cfg_k_msg cfg <> cfg_k_selinux cfg;
  cf_mono : cfg_k_msg cfg <> cfg_k_mono cfg;
  cf_src : cfg_k_msg cfg <> cfg_k_source_rt cfg;
  cf_export : cfg_emerg_export cfg = EMERG_STOP
}.

Lemma cfg_ok_facts cfg : cfg_ok cfg = true -> cfg_facts cfg.
Proof.
  intro H. pose proof (cfg_ok_formats cfg H) as Hfm. unfold cfg_ok in H.
  repeat (apply andb_true_iff in H; destruct H as [H ?]).
  match goal with X : distinctb _ = true |- _ => rename X into Hd end.
  unfold short_keys in Hd. cbn [distinctb existsb] in Hd.
  repeat (apply andb_true_iff in Hd; destruct Hd as [? Hd]).
  repeat match goal with X : negb _ = true |- _ => apply negb_true_iff in X end.
  repeat match goal with X : orb _ _ = false |- _ => apply orb_false_iff in X; destruct X end.
  repeat match goal with X : beqb _ _ = false |- _ => apply beqb_false_neq in X end.
  repeat match goal with X : andb _ _ = true |- _ => apply andb_true_iff in X; destruct X end.
  constructor; try assumption.
  - (* need *)
    match goal with X : Nat.eqb (length (cfg_short_need cfg)) 6 = true |- _ => apply Nat.eqb_eq in X; rename X into Hl end.
    match goal with X : nth 5 (cfg_short_need cfg) false = true |- _ => rename X into Hn end.
    intros st. unfold sf_all. destruct (cfg_short_need cfg) as [|a [|b [|c [|d [|e' [|f [|g r]]]]]]]; try discriminate Hl.
    cbn [nth] in Hn. subst f. unfold sf_flags. cbn [need_met]. intro Hm.
    repeat (apply andb_true_iff in Hm; destruct Hm as [? Hm]).
    match goal with X : is_some (sf_msg st) = true |- _ => destruct (sf_msg st) as [m|]; [exists m; reflexivity|discriminate X] end.
  - match goal with X : beqb (cfg_k_cat cfg) (cfg_k_msg cfg) = true |- _ => apply beqb_eq in X; exact X end.
  - match goal with X : Nat.eqb (cfg_emerg_export cfg) EMERG_STOP = true |- _ => apply Nat.eqb_eq in X; exact X end.
Qed.

(* ------------------------------------------------------------------ next_short: the enumeration loop *)

Fixpoint scan_fields (cfg : jcfg) (fs : list field) (st : sfound) : sfound :=
  match fs with
  | [] => st
  | f :: r => let st' := sf_update cfg st (fst f) (snd f) in
              if sf_all cfg st' then st' else scan_fields cfg r st'
  end.

Lemma scan_short_fields cfg : forall fs st, keys_wf fs ->
  scan_short cfg (map data_of fs) st = scan_fields cfg fs st.
Proof.
  induction fs as [|f r IH]; intros st H; [reflexivity|].
  inversion H as [|? ? Hf Hr]; subst. cbn [map scan_short scan_fields].
  rewrite (split_data_of f Hf). destruct f as [k v]. cbn [fst snd].
  destruct (sf_all cfg (sf_update cfg st k v)); [reflexivity|apply IH; exact Hr].
Qed.

Section Scan.
  Variable cfg : jcfg.
  Hypothesis F : cfg_facts cfg.

  Lemma sf_update_msg st v : sf_msg (sf_update cfg st (cfg_k_msg cfg) v) = Some v.
  Proof.
    unfold sf_update. destruct F.
    rewrite (beqb_neq_false _ _ (not_eq_sym cf_host0)), (beqb_neq_false _ _ (not_eq_sym cf_ident0)),
            (beqb_neq_false _ _ (not_eq_sym cf_spid0)), (beqb_neq_false _ _ (not_eq_sym cf_comm0)),
            (beqb_neq_false _ _ (not_eq_sym cf_pid0)), beqb_refl. reflexivity.
  Qed.

  Lemma sf_update_other st k v : k <> cfg_k_msg cfg -> sf_msg (sf_update cfg st k v) = sf_msg st.
  Proof.
    intro H. unfold sf_update.
    rewrite (beqb_neq_false _ _ H).
    repeat match goal with |- context [if beqb ?a ?b then _ else _] => destruct (beqb a b) eqn:?; [reflexivity|] end.
    reflexivity.
  Qed.

  (* the MESSAGE slot after the loop *)
  Lemma scan_fields_msg : forall fs st,
    (forall m0, sf_msg st = Some m0 ->
       exists m, sf_msg (scan_fields cfg fs st) = Some m /\ (m = m0 \/ In (cfg_k_msg cfg, m) fs))
    /\ (sf_msg st = None -> (exists v, In (cfg_k_msg cfg, v) fs) ->
       exists m, sf_msg (scan_fields cfg fs st) = Some m /\ In (cfg_k_msg cfg, m) fs).
  Proof.
    induction fs as [|[k v] r IH]; intro st.
    - split; [intros m0 H; exists m0; split; [exact H|left; reflexivity]|intros _ [v' []]].
    - cbn [scan_fields fst snd].
      assert (Hdec : k = cfg_k_msg cfg \/ k <> cfg_k_msg cfg).
      { destruct (beqb k (cfg_k_msg cfg)) eqn:E; [left; apply beqb_eq; exact E|right; apply beqb_false_neq; exact E]. }
      destruct Hdec as [->|Hk].
      + (* a MESSAGE object *)
        pose proof (sf_update_msg st v) as Hu.
        assert (G : exists m, sf_msg (if sf_all cfg (sf_update cfg st (cfg_k_msg cfg) v) then sf_update cfg st (cfg_k_msg cfg) v
                                      else scan_fields cfg r (sf_update cfg st (cfg_k_msg cfg) v)) = Some m
                              /\ In (cfg_k_msg cfg, m) ((cfg_k_msg cfg, v) :: r)).
        { destruct (sf_all cfg (sf_update cfg st (cfg_k_msg cfg) v)).
          - exists v. split; [exact Hu|left; reflexivity].
          - destruct (proj1 (IH (sf_update cfg st (cfg_k_msg cfg) v)) v Hu) as [m [Hm [->|Hin]]].
            + exists v. split; [exact Hm|left; reflexivity].
            + exists m. split; [exact Hm|right; exact Hin]. }
        destruct G as [m [Hm Hin]].
        split; [intros m0 _|intros _ _]; exists m; split; try exact Hm; try (right; exact Hin); exact Hin.
      + (* another object *)
        pose proof (sf_update_other st k v Hk) as Hu. split.
        * intros m0 H0. rewrite H0 in Hu.
          destruct (sf_all cfg (sf_update cfg st k v)).
          -- exists m0. split; [exact Hu|left; reflexivity].
          -- destruct (proj1 (IH (sf_update cfg st k v)) m0 Hu) as [m [Hm [->|Hin]]];
               [exists m0; split; [exact Hm|left; reflexivity]|exists m; split; [exact Hm|right; right; exact Hin]].
        * intros H0 [v' Hv']. rewrite H0 in Hu.
          destruct (sf_all cfg (sf_update cfg st k v)) eqn:Hall.
          -- destruct (cf_need cfg F _ Hall) as [m Hm]. rewrite Hm in Hu. discriminate.
          -- assert (Hr : exists v0, In (cfg_k_msg cfg, v0) r).
             { destruct Hv' as [E|Hin]; [injection E as E _; contradiction|exists v'; exact Hin]. }
             destruct (proj2 (IH (sf_update cfg st k v)) Hu Hr) as [m [Hm Hin]].
             exists m. split; [exact Hm|right; exact Hin].
  Qed.

  (* no MESSAGE object: the slot stays empty *)
  Lemma scan_fields_nomsg : forall fs st,
    sf_msg st = None -> (forall f, In f fs -> fst f <> cfg_k_msg cfg) -> sf_msg (scan_fields cfg fs st) = None.
  Proof.
    induction fs as [|[k v] r IH]; intros st H0 Hn; [exact H0|].
    cbn [scan_fields fst snd].
    assert (Hk : k <> cfg_k_msg cfg) by (apply (Hn (k, v)); left; reflexivity).
    pose proof (sf_update_other st k v Hk) as Hu. rewrite H0 in Hu.
    destruct (sf_all cfg (sf_update cfg st k v)); [exact Hu|].
    apply IH; [exact Hu|intros f Hf; apply Hn; right; exact Hf].
  Qed.
End Scan.

Lemma short_tail_msg st m : sf_msg st = Some m -> exists h, short_tail st = h ++ 58 :: SP :: m ++ [NL].
Proof.
  intro H. unfold short_tail. rewrite H. rewrite !app_assoc. eexists. rewrite <- app_assoc. cbn [app]. reflexivity.
Qed.

(* short*: the line ends with ": " MESSAGE "\n", MESSAGE being a MESSAGE value among the enumerated data *)
Theorem short_message_some_l cfg ev fmt mono e :
  cfg_ok cfg = true -> keys_wf (e_fields e) -> (mono = false -> fmt_accepted fmt = true) ->
  (exists v, In (cfg_k_msg cfg, v) (firstn (cfg_emerg_short cfg) (e_fields e))) ->
  exists h m, In (cfg_k_msg cfg, m) (firstn (cfg_emerg_short cfg) (e_fields e)) /\
              render_short cfg ev fmt mono e = Some (h ++ 58 :: SP :: m ++ [NL]).
Proof.
  intros Hok Hwf Hf Hex. pose proof (cfg_ok_facts cfg Hok) as F.
  unfold render_short, short_found. rewrite raw_data_firstn, scan_short_fields by (apply keys_wf_firstn; exact Hwf).
  destruct (proj2 (scan_fields_msg cfg F (firstn (cfg_emerg_short cfg) (e_fields e)) sf_empty) eq_refl Hex) as [m [Hm Hin]].
  destruct (short_tail_msg _ m Hm) as [h Hh]. rewrite Hh.
  assert (Hhd : exists hd, short_head cfg ev fmt mono e = Some hd).
  { unfold short_head. destruct mono; [eexists; reflexivity|].
    unfold entry_dt_text. apply fmt_accepted_some. apply Hf. reflexivity. }
  destruct Hhd as [hd ->]. exists (hd ++ h), m. split; [exact Hin|]. rewrite <- app_assoc. reflexivity.
Qed.

Theorem short_message_l cfg ev fmt mono e m :
  cfg_ok cfg = true -> keys_wf (e_fields e) -> (mono = false -> fmt_accepted fmt = true) ->
  In (cfg_k_msg cfg, m) (firstn (cfg_emerg_short cfg) (e_fields e)) ->
  (forall v, In (cfg_k_msg cfg, v) (e_fields e) -> v = m) ->
  exists h, render_short cfg ev fmt mono e = Some (h ++ 58 :: SP :: m ++ [NL]).
Proof.
  intros Hok Hwf Hf Hin Hu.
  destruct (short_message_some_l cfg ev fmt mono e Hok Hwf Hf (ex_intro _ m Hin)) as [h [m' [Hin' Hr]]].
  assert (m' = m) as -> by (apply Hu; eapply In_firstn; exact Hin').
  exists h. exact Hr.
Qed.

(* an entry without MESSAGE among the enumerated data: the line has no ": " part *)
Theorem short_no_message_l cfg e :
  cfg_ok cfg = true -> keys_wf (e_fields e) ->
  (forall f, In f (firstn (cfg_emerg_short cfg) (e_fields e)) -> fst f <> cfg_k_msg cfg) ->
  sf_msg (short_found cfg e) = None.
Proof.
  intros Hok Hwf Hn. pose proof (cfg_ok_facts cfg Hok) as F.
  unfold short_found. rewrite raw_data_firstn, scan_short_fields by (apply keys_wf_firstn; exact Hwf).
  apply scan_fields_nomsg; [reflexivity|exact Hn].
Qed.

(* ------------------------------------------------------------------ next_verbose: the field map *)

Lemma assoc_In {A} k (l : list (bytes * A)) v : assoc k l = Some v -> In (k, v) l.
Proof.
  induction l as [|[k' v'] r IH]; [discriminate|]. cbn [assoc].
  destruct (beqb k k') eqn:E.
  - intro H. injection H as ->. apply beqb_eq in E. subst. left. reflexivity.
  - intro H. right. apply IH. exact H.
Qed.

Lemma vm_insert_assoc q k v : forall m,
  assoc q (vm_insert k v m) = if beqb q k then Some v else assoc q m.
Proof.
  induction m as [|[k' v'] r IH]; cbn [vm_insert assoc]; [reflexivity|].
  destruct (beqb k k') eqn:E.
  - apply beqb_eq in E. subst k'. cbn [assoc]. destruct (beqb q k); reflexivity.
  - cbn [assoc]. rewrite IH. destruct (beqb q k') eqn:E2; [|reflexivity].
    destruct (beqb q k) eqn:E3; [|reflexivity].
    apply beqb_eq in E2, E3. subst. rewrite beqb_refl in E. discriminate.
Qed.

Lemma vkv_data_of f : ~ In EQ (fst f) -> vkv (data_of f) = f.
Proof. intro H. unfold vkv. rewrite (split_data_of f H). reflexivity. Qed.

(* the value next_verbose stores for a field *)
Definition vval (cfg : jcfg) (f : field) : bytes :=
  if beqb (fst f) (cfg_k_selinux cfg) then rtrim (cfg_trim cfg) (snd f) else snd f.

Lemma vfield_data_of cfg f : ~ In EQ (fst f) -> vfield cfg (data_of f) = (fst f, vval cfg f).
Proof. intro H. unfold vfield. rewrite (vkv_data_of f H). destruct f. reflexivity. Qed.

Lemma vm_of_fields cfg : forall fs m0, keys_wf fs ->
  fold_left (fun m d => let '(k, v) := vfield cfg d in vm_put (cfg_verbose_multi cfg) k v m) (map data_of fs) m0
  = fold_left (fun m f => vm_put (cfg_verbose_multi cfg) (fst f) (vval cfg f) m) fs m0.
Proof.
  induction fs as [|f r IH]; intros m0 H; [reflexivity|].
  inversion H as [|? ? Hf Hr]; subst. cbn [map fold_left]. rewrite (vfield_data_of cfg f Hf). apply IH. exact Hr.
Qed.

(* HashMap: the binding of key q after inserting the fields in order: the last field of that key wins *)
Lemma fold_insert_some cfg q : forall fs m0,
  (exists f, In f fs /\ fst f = q) ->
  exists f, In f fs /\ fst f = q /\
    assoc q (fold_left (fun m f => vm_insert (fst f) (vval cfg f) m) fs m0) = Some (vval cfg f).
Proof.
  induction fs as [|f r IH] using rev_ind; intros m0 [g [Hg Hq]]; [destruct Hg|].
  rewrite fold_left_app. cbn [fold_left]. rewrite vm_insert_assoc.
  destruct (beqb q (fst f)) eqn:E.
  - apply beqb_eq in E. exists f. split; [apply in_or_app; right; left; reflexivity|]. split; [symmetry; exact E|reflexivity].
  - apply in_app_or in Hg as [Hg|[->|[]]].
    + destruct (IH m0 (ex_intro _ g (conj Hg Hq))) as [f' [Hf' [Hq' Ha]]].
      exists f'. split; [apply in_or_app; left; exact Hf'|]. split; [exact Hq'|exact Ha].
    + subst q. rewrite beqb_refl in E. discriminate.
Qed.

(* Vec: every field is kept *)
Lemma fold_push cfg : forall fs m0,
  fold_left (fun m f => m ++ [(fst f, vval cfg f)]) fs m0 = m0 ++ map (fun f => (fst f, vval cfg f)) fs.
Proof.
  induction fs as [|f r IH]; intro m0; cbn [fold_left map]; [rewrite app_nil_r; reflexivity|].
  rewrite IH, <- app_assoc. reflexivity.
Qed.

(* either way: a field of key q leaves a binding (q, its stored value) *)
Lemma fold_put_some cfg q : forall fs m0,
  (exists f, In f fs /\ fst f = q) ->
  exists f, In f fs /\ fst f = q /\
    In (q, vval cfg f) (fold_left (fun m f => vm_put (cfg_verbose_multi cfg) (fst f) (vval cfg f) m) fs m0).
Proof.
  intros fs m0 Hex. unfold vm_put. destruct (cfg_verbose_multi cfg).
  - destruct Hex as [f [Hf Hq]]. exists f. split; [exact Hf|]. split; [exact Hq|].
    rewrite fold_push. apply in_or_app. right. apply in_map_iff. exists f. split; [rewrite Hq; reflexivity|exact Hf].
  - destruct (fold_insert_some cfg q fs m0 Hex) as [f [Hf [Hq Ha]]]. exists f. split; [exact Hf|]. split; [exact Hq|].
    apply assoc_In. exact Ha.
Qed.

Lemma vm_insert_In_other q x k v : forall m, q <> k -> In (q, x) m -> In (q, x) (vm_insert k v m).
Proof.
  induction m as [|[k' v'] r IH]; intros Hn H; [destruct H|]. cbn [vm_insert].
  destruct (beqb k k') eqn:E.
  - apply beqb_eq in E. subst k'. destruct H as [H|H]; [injection H as H _; subst; contradiction|right; exact H].
  - destruct H as [H|H]; [left; exact H|right; apply IH; assumption].
Qed.

Lemma vm_put_In_other multi q x k v m : q <> k -> In (q, x) m -> In (q, x) (vm_put multi k v m).
Proof.
  intros Hn H. unfold vm_put. destruct multi; [apply in_or_app; left; exact H|apply vm_insert_In_other; assumption].
Qed.

(* the collection binds MESSAGE to a MESSAGE value of the entry (untrimmed) *)
Lemma verbose_map_msg cfg ev e :
  cfg_ok cfg = true -> keys_wf (e_fields e) ->
  (exists v, In (cfg_k_msg cfg, v) (firstn (cfg_emerg_verbose cfg) (e_fields e))) ->
  exists m, In (cfg_k_msg cfg, m) (firstn (cfg_emerg_verbose cfg) (e_fields e)) /\
            In (cfg_k_msg cfg, m) (verbose_map cfg ev e).
Proof.
  intros Hok Hwf [v Hv]. pose proof (cfg_ok_facts cfg Hok) as F.
  set (fs := firstn (cfg_emerg_verbose cfg) (e_fields e)) in *.
  assert (Hex : exists f, In f fs /\ fst f = cfg_k_msg cfg) by (exists (cfg_k_msg cfg, v); split; [exact Hv|reflexivity]).
  destruct (fold_put_some cfg (cfg_k_msg cfg) fs [] Hex) as [[k m] [Hin [Hk Ha]]].
  cbn [fst] in Hk. subst k.
  assert (Hval : vval cfg (cfg_k_msg cfg, m) = m).
  { unfold vval. cbn [fst snd]. rewrite (beqb_neq_false _ _ (cf_selinux cfg F)). reflexivity. }
  rewrite Hval in Ha. exists m. split; [exact Hin|].
  unfold verbose_map, vm_of. rewrite raw_data_firstn. fold fs.
  rewrite (vm_of_fields cfg fs [] (keys_wf_firstn _ _ Hwf)).
  match goal with |- context [fold_left ?g fs []] => set (m0 := fold_left g fs []) in * end.
  destruct (vm_mem (cfg_k_mono cfg) m0); [exact Ha|].
  destruct (mono_usec cfg ev e); [|exact Ha].
  apply vm_put_In_other; [exact (cf_mono cfg F)|exact Ha].
Qed.

(* ------------------------------------------------------------------ next_verbose: the body is a permutation of the map *)

Lemma vm_take_perm k : forall m,
  Permutation m (map (pair k) (fst (vm_take k m)) ++ snd (vm_take k m)).
Proof.
  induction m as [|[k' v'] r IH]; cbn [vm_take]; [apply Permutation_refl|].
  destruct (vm_take k r) as [vs r'] eqn:Et. cbn [fst snd] in IH.
  destruct (beqb k k') eqn:E; cbn [fst snd map app].
  - apply beqb_eq in E. subst k'. apply perm_skip. exact IH.
  - eapply perm_trans; [apply perm_skip; exact IH|]. apply Permutation_middle.
Qed.

Definition vl (cfg : jcfg) (f : field) : bytes := vline cfg (fst f) (snd f).

Lemma vlines_vl cfg k vs : vlines cfg k vs = concat (map (vl cfg) (map (pair k) vs)).
Proof. unfold vlines. rewrite map_map. reflexivity. Qed.

Lemma take_ordered_perm cfg : forall order m out m',
  take_ordered cfg order m = (out, m') ->
  exists l, out = concat (map (vl cfg) l) /\ Permutation m (l ++ m').
Proof.
  induction order as [|k r IH]; intros m out m' H; cbn [take_ordered] in H.
  - injection H as <- <-. exists []. split; [reflexivity|apply Permutation_refl].
  - pose proof (vm_take_perm k m) as Hp. destruct (vm_take k m) as [vs m1]. cbn [fst snd] in Hp.
    destruct (take_ordered cfg r m1) as [out' m''] eqn:Ht. injection H as <- <-.
    destruct (IH _ _ _ Ht) as [l [-> Hl]]. exists (map (pair k) vs ++ l). split.
    + rewrite map_app, concat_app, vlines_vl. reflexivity.
    + eapply perm_trans; [exact Hp|]. rewrite <- app_assoc. apply Permutation_app_head. exact Hl.
Qed.

Lemma insert_sorted_perm f : forall l, Permutation (insert_sorted f l) (f :: l).
Proof.
  induction l as [|g r IH]; cbn [insert_sorted]; [apply Permutation_refl|].
  destruct (field_leb f g); [apply Permutation_refl|].
  eapply perm_trans; [apply perm_skip; exact IH|apply perm_swap].
Qed.

Lemma sort_fields_perm l : Permutation (sort_fields l) l.
Proof.
  induction l as [|f r IH]; [apply Permutation_refl|]. cbn [sort_fields fold_right].
  eapply perm_trans; [apply insert_sorted_perm|apply perm_skip; exact IH].
Qed.

(* every binding of the collection is printed exactly once, as FIELD_BEG key "=" value "\n" *)
Theorem verbose_body_perm_l cfg m :
  exists l, Permutation l m /\ verbose_body cfg m = concat (map (vl cfg) l).
Proof.
  unfold verbose_body.
  pose proof (vm_take_perm (cfg_k_source_rt cfg) m) as Hp.
  destruct (vm_take (cfg_k_source_rt cfg) m) as [src m1]. cbn [fst snd] in Hp.
  destruct (take_ordered cfg (cfg_order cfg) m1) as [out m2] eqn:Ht.
  destruct (take_ordered_perm cfg _ _ _ _ Ht) as [l1 [-> Hl1]].
  exists (l1 ++ sort_fields m2 ++ map (pair (cfg_k_source_rt cfg)) src). split.
  - apply Permutation_sym. eapply perm_trans; [exact Hp|].
    eapply perm_trans; [apply Permutation_app_comm|].
    eapply perm_trans; [apply Permutation_app_tail; exact Hl1|]. rewrite <- app_assoc.
    apply Permutation_app_head, Permutation_app_tail, Permutation_sym, sort_fields_perm.
  - rewrite !map_app, !concat_app, vlines_vl. reflexivity.
Qed.

Corollary verbose_body_line_l cfg m k v : In (k, v) m -> infix (vline cfg k v) (verbose_body cfg m).
Proof.
  intro H. destruct (verbose_body_perm_l cfg m) as [l [Hp ->]].
  apply (infix_concat_map (vl cfg) l (k, v)). eapply Permutation_in; [apply Permutation_sym; exact Hp|exact H].
Qed.

(* verbose: the line FIELD_BEG "MESSAGE=" value "\n" is in the text *)
Theorem verbose_message_l cfg ev e :
  cfg_ok cfg = true -> keys_wf (e_fields e) ->
  (exists v, In (cfg_k_msg cfg, v) (firstn (cfg_emerg_verbose cfg) (e_fields e))) ->
  exists b m, In (cfg_k_msg cfg, m) (firstn (cfg_emerg_verbose cfg) (e_fields e)) /\
              render_verbose cfg ev e = Some b /\ infix (vline cfg (cfg_k_msg cfg) m) b.
Proof.
  intros Hok Hwf Hex. destruct (verbose_map_msg cfg ev e Hok Hwf Hex) as [m [Hin Hmap]].
  destruct (render_verbose_found cfg ev e (formats_ok_verbose cfg (cfg_ok_formats cfg Hok))) as [ts [_ Hr]].
  eexists. exists m. split; [exact Hin|]. split; [exact Hr|].
  apply infix_app_l. apply infix_cons. apply infix_app_l. apply infix_cons. apply verbose_body_line_l. exact Hmap.
Qed.

(* ------------------------------------------------------------------ export *)

Lemma print_field_safe_value f : infix (snd f ++ [NL]) (print_field_safe f).
Proof.
  unfold print_field_safe. destruct (text_safe (data_of f)).
  - unfold print_field_text, data_of. exists (fst f ++ [EQ]), []. rewrite app_nil_r, <- !app_assoc. reflexivity.
  - unfold print_field_binary. exists (fst f ++ NL :: le64 (len (snd f))), [].
    rewrite app_nil_r, <- !app_assoc. cbn [app]. reflexivity.
Qed.

Theorem export_field_l e f : In f (enumerated e) -> infix (print_field_safe f) (render_export e).
Proof.
  intro H. unfold render_export, print_export_with. apply infix_app_l, infix_app_r.
  apply (infix_concat_map print_field_safe _ f H).
Qed.

(* ------------------------------------------------------------------ all ten renderings *)

Definition emerg_min (cfg : jcfg) : nat :=
  Nat.min (cfg_emerg_short cfg) (Nat.min (cfg_emerg_verbose cfg) (cfg_emerg_export cfg)).

Lemma firstn_In_le {A} (x : A) : forall n n' l, (n <= n')%nat -> In x (firstn n l) -> In x (firstn n' l).
Proof.
  induction n as [|n IH]; intros n' l Hle H; [destruct H|].
  destruct l as [|y l]; [destruct H|]. destruct n' as [|n']; [lia|].
  cbn [firstn] in *. destruct H as [->|H]; [left; reflexivity|right; apply (IH n' l); [lia|exact H]].
Qed.

(* every rendering contains the bytes of MESSAGE, followed by a newline, verbatim — whatever the
   bytes are (single-line printable text is the special case in which that block is a line of its own) *)
Theorem message_verbatim_l cfg ev o e m :
  cfg_ok cfg = true -> keys_wf (e_fields e) ->
  In (cfg_k_msg cfg, m) (firstn (emerg_min cfg) (e_fields e)) ->
  (forall v, In (cfg_k_msg cfg, v) (e_fields e) -> v = m) ->
  exists b, next_entry cfg ev o e = NFound b /\ infix (m ++ [NL]) b.
Proof.
  intros Hok Hwf Hin Hu. pose proof (cfg_ok_facts cfg Hok) as F.
  assert (Hs : In (cfg_k_msg cfg, m) (firstn (cfg_emerg_short cfg) (e_fields e)))
    by (eapply firstn_In_le; [|exact Hin]; unfold emerg_min; lia).
  assert (Hv : In (cfg_k_msg cfg, m) (firstn (cfg_emerg_verbose cfg) (e_fields e)))
    by (eapply firstn_In_le; [|exact Hin]; unfold emerg_min; lia).
  assert (He : In (cfg_k_msg cfg, m) (enumerated e)).
  { unfold enumerated. rewrite <- (cf_export cfg F). eapply firstn_In_le; [|exact Hin]. unfold emerg_min. lia. }
  unfold next_entry. destruct (cfg_dispatch cfg o) as [fmt mono| | |] eqn:Hd.
  - destruct (short_message_l cfg ev fmt mono e m Hok Hwf) as [h Hr]; try assumption.
    { intro; subst mono. exact (formats_ok_dispatch cfg o fmt (cf_formats cfg F) Hd). }
    rewrite Hr. eexists. split; [reflexivity|]. apply infix_app_l. apply infix_cons, infix_cons, infix_refl.
  - destruct (verbose_message_l cfg ev e Hok Hwf (ex_intro _ m Hv)) as [b [m' [Hin' [Hr Hi]]]].
    assert (m' = m) as -> by (apply Hu; eapply In_firstn; exact Hin').
    rewrite Hr. exists b. split; [reflexivity|].
    eapply infix_trans; [|exact Hi]. unfold vline.
    exists (cfg_field_beg cfg ++ cfg_k_msg cfg ++ [EQ]), []. rewrite app_nil_r, <- !app_assoc. reflexivity.
  - eexists. split; [reflexivity|].
    assert (He' : In (cfg_k_msg cfg, m) (enumerated (host_view cfg ev e))) by exact He.
    eapply infix_trans; [|apply (export_field_l _ _ He')]. apply (print_field_safe_value (cfg_k_msg cfg, m)).
  - rewrite (cf_cat cfg F).
    assert (Hg : get_data (cfg_k_msg cfg) e = Some m).
    { unfold get_data. apply in_split in Hin as [l1 [l2 Hl]].
      assert (Hfull : exists l2', e_fields e = l1 ++ (cfg_k_msg cfg, m) :: l2').
      { exists (l2 ++ skipn (emerg_min cfg) (e_fields e)).
        rewrite <- (firstn_skipn (emerg_min cfg) (e_fields e)) at 1. rewrite Hl, <- app_assoc. reflexivity. }
      destruct Hfull as [l2' Hfull].
      (* first occurrence: split at the first MESSAGE object *)
      clear Hl l2. revert Hfull Hu. generalize (e_fields e) as fs. intros fs Hfull Hu. subst fs.
      induction l1 as [|[k v] l1 IH]; cbn [app assoc].
      - rewrite beqb_refl. reflexivity.
      - destruct (beqb (cfg_k_msg cfg) k) eqn:E.
        + apply beqb_eq in E. subst k. f_equal. apply Hu. left. reflexivity.
        + apply IH. intros v' Hv'. apply Hu. right. exact Hv'. }
    rewrite Hg. eexists. split; [reflexivity|apply infix_refl].
Qed.

(* single-line printable text: the export rendering carries the line MESSAGE=value *)
Theorem export_message_text_l e k m :
  In (k, m) (enumerated e) -> text_safe (data_of (k, m)) = true ->
  infix (k ++ EQ :: m ++ [NL]) (render_export e).
Proof.
  intros H Ht. eapply infix_trans; [|apply (export_field_l e (k, m) H)].
  unfold print_field_safe. rewrite Ht. unfold print_field_text, data_of. cbn [fst snd].
  rewrite <- app_assoc. apply infix_refl.
Qed.
