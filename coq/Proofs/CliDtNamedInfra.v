(* Proofs/CliDtNamedInfra.v (+ CliDtNamedL1..L4.v, CliDtNamed.v) — C14: a date-time followed by a zone NAME
   resolves to the documented instant for EVERY name of the regenerated table and every field value.

   Method.  The name is an arbitrary non-empty run of letters, so the structural pass cannot be run
   by vm_compute on it.  [ascan items B] runs the scanner on the digit-symbolic body B alone and
   says what happens when ANY text starting with a letter follows (fails / B consumed exactly at an
   item boundary, continue with the remaining items / undecided), proved sound against [scan]
   (ascan_sound); [fails_on_letter] decides that the remaining items reject a letter.  Rows
   without %Z therefore fail on body ++ name (finite obligation per body, by vm_compute); rows with
   %Z pop the name, look it up and scan body ++ "+HH:MM", which is closed again.  The zone table is
   checked entry by entry (letters only, first occurrence, value shape sign HH:MM within a day,
   equal to the reference value): table_entries_ok. *)
From Coq Require Import String Ascii ZArith Lia List Bool.
From S4.Base Require Import Bytes.
From S4.Model Require Import Calendar CliDt.
From S4.Gen Require Import CliDtTables.
From S4.Spec Require Import CalendarSpec CliDtRef CliDtSpec.
From S4.Proofs Require Import CalendarProofs CliDtSpecProofs CliDtAbsInfra CliDtMiscProofs CliDtScanLemmas CliDtUniversal.
Import ListNotations.
Open Scope Z_scope.
Ltac Zify.zify_post_hook ::= Z.div_mod_to_equations.
(* ------------------------------------------------------------------ abstract scan: a known body followed by a letter *)
(* [ascan items B] is the scan of [B ++ tail] for EVERY tail that starts with a letter, as far as it
   can be decided on B alone:
     AFail          the scan fails whatever the tail,
     ACut fs rest   B is consumed exactly at an item boundary, with fields fs; the scan continues
                    with the items [rest] on the tail,
     AUnknown       not decided (never the case for the rows and bodies below: checked). *)
Inductive ares := AFail | ACut (fs : list rawfield) (rest : list item) | AUnknown.

Definition acons (f : rawfield) (r : ares) : ares :=
  match r with ACut fs rest => ACut (f :: fs) rest | x => x end.

Fixpoint ascan (items : list item) (s : list sym) : ares :=
  match s with
  | [] => ACut [] items
  | x0 :: t0 =>
    match items with
    | [] => AFail
    | it :: rest =>
      match it with
      | ILit c => if sym_is x0 c then ascan rest t0 else AFail
      | ISpace => ascan rest (trim_ws s)
      | INum k =>
        match k with
        | NTimestamp => AUnknown
        | _ =>
          match trim_ws s with
          | [] => AFail
          | x :: t =>
            if is_year k && (sym_is x 45 || sym_is x 43) then AUnknown
            else let '(ds, r) := take_digits (num_width k (x :: t)) (x :: t) in
                 match ds with [] => AFail | _ :: _ => acons (RNum k false ds) (ascan rest r) end
          end
        end
      | IFrac n => let '(ds, t) := take_digits n s in
                   if Nat.eqb (length ds) n then acons (RFrac n ds) (ascan rest t) else AFail
      | ITz z m =>
        match trim_ws s with
        | [] => ACut [] items
        | x :: t =>
          if sym_is x 90 || sym_is x 122 || sym_is x 43 || sym_is x 45 then AUnknown else AFail
        end
      | IErr => AFail
      | _ => AUnknown
      end
    end
  end.

Lemma ascan_nil items : ascan items [] = ACut [] items.
Proof. destruct items; reflexivity. Qed.

Definition letter_tail (tail : list sym) : Prop :=
  match tail with
  | Ch c :: more => is_alpha_c c = true /\ ((c =? 90)%N || (c =? 122)%N = true -> more <> [])
  | _ => False
  end.

Definition prepend (fs : list rawfield) (o : option (list rawfield)) : option (list rawfield) :=
  match o with Some l => Some (fs ++ l) | None => None end.

Lemma prepend_cons f fs o : cons_opt f (prepend fs o) = prepend (f :: fs) o.
Proof. destruct o; reflexivity. Qed.

Lemma letter_tail_props tail : letter_tail tail -> head_nondigit tail /\ head_nonws tail /\ tail <> [].
Proof.
  destruct tail as [|[v|c] more]; cbn; try tauto. intros [A _]. repeat split; try discriminate.
  unfold is_alpha_c in A. unfold is_ws_c.
  destruct (N.eqb_spec c 32); [subst; discriminate|].
  destruct (N.leb_spec 9 c), (N.leb_spec c 13); cbn; try reflexivity.
  exfalso. apply orb_true_iff in A as [A|A]; apply andb_true_iff in A as [A1 A2];
    apply N.leb_le in A1; lia.
Qed.

Lemma trim_ws_app_tail s tail : head_nonws tail ->
  (trim_ws s <> [] /\ trim_ws (s ++ tail) = trim_ws s ++ tail) \/ (trim_ws s = [] /\ trim_ws (s ++ tail) = tail).
Proof.
  intros H. induction s as [|x r IH]; cbn [app trim_ws].
  - right. split; [reflexivity|apply trim_ws_nonws; exact H].
  - destruct (sym_ws x); [exact IH|]. left. split; [discriminate|reflexivity].
Qed.

Lemma take_digits_app_tail n s tail ds r :
  take_digits n s = (ds, r) -> head_nondigit tail -> take_digits n (s ++ tail) = (ds, r ++ tail).
Proof.
  revert s ds r. induction n as [|n IH]; intros s ds r H Ht.
  - cbn in *. inversion H; subst. reflexivity.
  - destruct s as [|[v|c] t]; cbn [take_digits app] in *.
    + inversion H; subst. cbn [app]. destruct tail as [|[v|c] more]; [reflexivity|destruct Ht|reflexivity].
    + destruct (take_digits n t) as [ds' r'] eqn:E. inversion H; subst.
      rewrite (IH _ _ _ E Ht). reflexivity.
    + inversion H; subst. reflexivity.
Qed.

Lemma letter_not_special c :
  is_alpha_c c = true -> (c =? 45)%N = false /\ (c =? 43)%N = false /\ is_ws_c c = false /\ (c =? 58)%N = false /\ (c =? 46)%N = false.
Proof.
  intros A. unfold is_alpha_c in A.
  apply orb_true_iff in A as [A|A]; apply andb_true_iff in A as [A1 A2]; apply N.leb_le in A1, A2;
    unfold is_ws_c;
    repeat split; try (apply N.eqb_neq; lia);
    (destruct (N.eqb_spec c 32); [lia|]; destruct (N.leb_spec 9 c), (N.leb_spec c 13); cbn; try reflexivity; lia).
Qed.

Theorem ascan_sound items : forall s tail,
  letter_tail tail ->
  match ascan items s with
  | AFail => scan items (s ++ tail) = None
  | ACut fs rest => scan items (s ++ tail) = prepend fs (scan rest tail)
  | AUnknown => True
  end.
Proof.
  induction items as [|it rest IH]; intros s tail Ht;
    destruct (letter_tail_props tail Ht) as [Hd [Hw Hne]].
  - destruct s as [|x0 t0]; cbn [ascan app].
    + destruct (scan [] tail); reflexivity.
    + reflexivity.
  - destruct s as [|x0 t0].
    { cbn [ascan app]. destruct (scan (it :: rest) tail); reflexivity. }
    cbn [ascan].
    destruct it as [c| |k|n|z m| | | |].
    + (* ILit *) cbn [app scan]. destruct (sym_is x0 c); [apply IH; exact Ht|reflexivity].
    + (* ISpace *) cbn [scan].
      destruct (trim_ws_app_tail (x0 :: t0) tail Hw) as [[NE E]|[E1 E2]].
      * rewrite E. apply IH. exact Ht.
      * rewrite E2, E1, ascan_nil. destruct (scan rest tail); reflexivity.
    + (* INum *) destruct k; try exact I;
      (cbn [scan]; unfold scan_num;
       destruct (trim_ws_app_tail (x0 :: t0) tail Hw) as [[NE E]|[E1 E2]];
       [ rewrite E; destruct (trim_ws (x0 :: t0)) as [|x t] eqn:T; [contradiction|];
         cbn [app]; cbn [is_year andb];
         try (destruct (sym_is x 45 || sym_is x 43) eqn:SG; [exact I|];
              apply orb_false_iff in SG as [S1 S2]; rewrite ?S1, ?S2);
         change (x :: t ++ tail) with ((x :: t) ++ tail);
         cbn [num_width];
         match goal with |- context [take_digits ?n (x :: t)] =>
           destruct (take_digits n (x :: t)) as [ds r] eqn:TD;
           rewrite (take_digits_app_tail _ _ _ _ _ TD Hd) end;
         destruct ds as [|d0 ds']; [reflexivity|];
         specialize (IH r tail Ht); cbn [acons]; destruct (ascan rest r); cbn [acons];
         [rewrite IH; reflexivity|rewrite IH; apply prepend_cons|exact I]
       | rewrite E2, E1; destruct tail as [|[v|c] more]; try contradiction;
         destruct Ht as [A _]; destruct (letter_not_special c A) as [M [P _]];
         cbn [is_year andb sym_is]; rewrite ?M, ?P; cbn [andb];
         match goal with |- context [take_digits ?n (Ch c :: more)] =>
           replace (take_digits n (Ch c :: more)) with (@nil N, Ch c :: more) by (destruct n; reflexivity) end;
         reflexivity ]).
    + (* IFrac *) cbn [scan].
      destruct (take_digits n (x0 :: t0)) as [ds t] eqn:TD.
      rewrite (take_digits_app_tail _ _ _ _ _ TD Hd).
      destruct (Nat.eqb (length ds) n); [|reflexivity].
      specialize (IH t tail Ht). destruct (ascan rest t); cbn [acons];
        [rewrite IH; reflexivity|rewrite IH; apply prepend_cons|exact I].
    + (* ITz *) cbn [scan]. unfold scan_tz.
      destruct (trim_ws_app_tail (x0 :: t0) tail Hw) as [[NE E]|[E1 E2]].
      * rewrite E. destruct (trim_ws (x0 :: t0)) as [|x t] eqn:T; [contradiction|]. cbn [app].
        destruct (sym_is x 90 || sym_is x 122 || sym_is x 43 || sym_is x 45) eqn:SG; [exact I|].
        apply orb_false_iff in SG as [SG S4]. apply orb_false_iff in SG as [SG S3].
        apply orb_false_iff in SG as [S1 S2]. rewrite S1, S2, S3, S4. rewrite andb_false_r. reflexivity.
      * rewrite E1. change (x0 :: t0 ++ tail) with ((x0 :: t0) ++ tail). rewrite E2.
        cbn [scan]. unfold scan_tz. rewrite (trim_ws_nonws tail Hw).
        match goal with |- ?a = prepend [] ?b => change b with a; destruct a; reflexivity end.
    + exact I.
    + exact I.
    + exact I.
    + reflexivity.
Qed.

(* ------------------------------------------------------------------ items that cannot start on a letter *)
Fixpoint fails_on_letter (rest : list item) : bool :=
  match rest with
  | [] => true
  | ILit c :: _ => negb (is_alpha_c c)
  | ISpace :: r => fails_on_letter r
  | INum _ :: _ => true
  | IFrac n :: _ => negb (Nat.eqb n 0)
  | ITz z _ :: r => if z then match r with [] => true | _ :: _ => false end else true
  | _ => false
  end.

Lemma fails_on_letter_ok rest tail :
  fails_on_letter rest = true -> letter_tail tail -> scan rest tail = None.
Proof.
  intros H Ht. destruct tail as [|[v|c] more]; try contradiction. destruct Ht as [A Z].
  destruct (letter_not_special c A) as [M [P [W [_ _]]]].
  induction rest as [|it rest IH]; [reflexivity|].
  destruct it as [c0| |k|n|z m| | | |]; cbn [fails_on_letter] in H; try discriminate.
  - apply scan_lit_mismatch. cbn [sym_is]. apply negb_true_iff in H.
    destruct (N.eqb_spec c c0) as [E|E]; [subst; congruence|reflexivity].
  - cbn [scan trim_ws sym_ws]. rewrite W. apply IH. exact H.
  - apply scan_num_nodigit; cbn [trim_ws sym_ws]; rewrite W; [exact I|]. intros _. cbn [sym_is]. split; assumption.
  - cbn [scan]. destruct n as [|n]; [discriminate|]. cbn [take_digits length Nat.eqb]. reflexivity.
  - cbn [scan]. unfold scan_tz. cbn [trim_ws sym_ws]. rewrite W. cbn [sym_is]. rewrite M, P.
    destruct z; cbn [andb].
    + destruct rest; [|discriminate].
      destruct ((c =? 90)%N || (c =? 122)%N) eqn:E; [|reflexivity].
      cbn [cons_opt scan]. destruct more; [exfalso; apply Z; reflexivity|reflexivity].
    + reflexivity.
Qed.

(* ------------------------------------------------------------------ the zone table, entry by entry *)
Definition digit_b (b : N) : bool := ((48 <=? b) && (b <=? 57))%N.

Definition entry_ok (kv : string * string) : bool :=
  let name := s2b (fst kv) in
  let v := s2b (snd kv) in
  match name with [] => false | _ :: _ => forallb is_alpha_c name end
  && match assoc name tz_table with Some v' => beqb v' v | None => false end
  && match lookup (fst kv) ref_tz_table with Some v' => String.eqb v' (snd kv) | None => false end
  && match v with
     | [] => true
     | [sg; a; b; col; c; d] =>
       ((sg =? 43) || (sg =? 45))%N && digit_b a && digit_b b && (col =? 58)%N && digit_b c && digit_b d
       && (c <=? 53)%N
       && match tzval_secs (snd kv) with
          | Some z => (z =? off_value (sg =? 45)%N (a - 48) (b - 48) (Some ((c - 48)%N, (d - 48)%N)))
                      && (-86400 <? z) && (z <? 86400)
          | None => false
          end
     | _ => false
     end.

Lemma table_entries_ok : forallb entry_ok ref_tz_table = true.
Proof. vm_compute. reflexivity. Qed.

Lemma names_with_in name :
  In name (names_with false) -> exists v, In (name, v) ref_tz_table /\ v <> ""%string.
Proof.
  unfold names_with. intros H. apply in_map_iff in H as [[n v] [E H]]. cbn in E. subst n.
  apply filter_In in H as [H1 H2]. exists v. split; [exact H1|].
  cbn [snd] in H2. intros ->. discriminate.
Qed.

Lemma classify_alpha nm : forallb is_alpha_c nm = true -> classify nm = map Ch nm.
Proof.
  induction nm as [|c r IH]; [reflexivity|]. cbn [forallb]. intros H. apply andb_true_iff in H as [A B].
  cbn [classify map]. fold (classify r). rewrite (IH B). f_equal. apply classify1_nondigit.
  unfold is_alpha_c in A. apply orb_true_iff in A as [A|A]; apply andb_true_iff in A as [A1 A2];
    apply N.leb_le in A1; lia.
Qed.

(* ------------------------------------------------------------------ %Z rows: the trailing name is replaced *)
Lemma pop_alpha_rev_name nm r acc :
  forallb is_alpha_c nm = true ->
  pop_alpha_rev (rev (map Ch nm) ++ r) acc = pop_alpha_rev r (map Ch nm ++ acc).
Proof.
  revert r acc. induction nm as [|a nm IH]; intros r acc H; [reflexivity|].
  cbn [forallb] in H. apply andb_true_iff in H as [A B].
  cbn [map rev]. rewrite <- app_assoc. cbn [app]. rewrite IH by exact B.
  cbn [pop_alpha_rev sym_alpha]. rewrite A. reflexivity.
Qed.

Definition ends_nonalpha (s : list sym) : bool :=
  match rev s with x :: _ => negb (sym_alpha x) | [] => false end.

Lemma pop_alpha_name B nm :
  ends_nonalpha B = true -> forallb is_alpha_c nm = true -> pop_alpha (B ++ map Ch nm) = (B, map Ch nm).
Proof.
  intros HB Hn. unfold pop_alpha. rewrite rev_app_distr, pop_alpha_rev_name by exact Hn.
  rewrite app_nil_r. unfold ends_nonalpha in HB.
  destruct (rev B) as [|x r] eqn:E; [discriminate|]. cbn [pop_alpha_rev]. apply negb_true_iff in HB. rewrite HB.
  rewrite <- E, rev_involutive. reflexivity.
Qed.

Definition zrow_scan (rw : row) (dts0 : list sym) : option (list rawfield) :=
  let pat0 := replace_first_Z (r_pat rw) in
  if r_has_time rw then
    if issue660_ok (map sym_ws_class dts0) (map ws_class pat0) then scan (tokenize pat0) dts0 else None
  else
    if issue660_ok (map sym_ws_class (dts0 ++ classify append_value)) (map ws_class (pat0 ++ append_pattern))
    then scan (tokenize (pat0 ++ append_pattern)) (dts0 ++ classify append_value) else None.

Definition named_info (Bsp vs : list sym) (rw : row) : bool * bool * option (list rawfield) :=
  (r_has_tz rw, epoch_utc && contains_pct_s (final_pattern append_pattern rw),
   if r_has_tzZ rw then zrow_scan rw (Bsp ++ vs) else None).

Definition named_row_ok (Bsp : list sym) (rw : row) : bool :=
  if r_has_tzZ rw then true
  else match ascan (tokenize (final_pattern append_pattern rw)) Bsp with
       | AFail => true
       | ACut _ rest => fails_on_letter rest
       | AUnknown => false
       end.

Lemma map_sym_byte_ch nm : map sym_byte (map Ch nm) = nm.
Proof. induction nm; cbn; congruence. Qed.

Lemma named_row_info Bsp nm vb rw :
  named_row_ok Bsp rw = true -> ends_nonalpha Bsp = true ->
  forallb is_alpha_c nm = true -> nm <> [] -> nm <> [90%N] -> nm <> [122%N] ->
  assoc nm tz_table = Some vb ->
  row_info (Bsp ++ map Ch nm) rw = named_info Bsp (classify vb) rw.
Proof.
  intros Hok HB Ha Hne HZ Hz Hassoc. unfold row_info, named_info. f_equal.
  unfold named_row_ok in Hok. destruct (r_has_tzZ rw) eqn:Z.
  - unfold m_scan_row, scan_row, prepare_row, zrow_scan. rewrite Z.
    rewrite pop_alpha_name by assumption. rewrite map_sym_byte_ch, Hassoc.
    destruct (r_has_time rw); reflexivity.
  - apply scan_row_nonZ_none; [exact Z|]. rewrite <- app_assoc.
    assert (LT : letter_tail (map Ch nm ++ row_tail rw)).
    { destruct nm as [|c more]; [contradiction|]. cbn [map app forallb] in *.
      apply andb_true_iff in Ha as [A _]. split; [exact A|].
      intros E. destruct more as [|c2 more]; [|discriminate].
      exfalso. apply orb_true_iff in E as [E|E]; apply N.eqb_eq in E; subst; [apply HZ|apply Hz]; reflexivity. }
    pose proof (ascan_sound (tokenize (final_pattern append_pattern rw)) Bsp _ LT) as S.
    destruct (ascan (tokenize (final_pattern append_pattern rw)) Bsp) as [|fs rest|]; [exact S| |discriminate].
    rewrite S, (fails_on_letter_ok rest _ Hok LT). reflexivity.
Qed.

Lemma resolve_via_named Bsp nm vb tz L :
  forallb (named_row_ok Bsp) cli_rows = true -> ends_nonalpha Bsp = true ->
  forallb is_alpha_c nm = true -> nm <> [] -> nm <> [90%N] -> nm <> [122%N] ->
  assoc nm tz_table = Some vb ->
  map (named_info Bsp (classify vb)) cli_rows = L ->
  m_resolve_abs (Bsp ++ map Ch nm) tz = first_valid tz L.
Proof.
  intros Hall HB Ha Hne HZ Hz Hassoc <-. apply resolve_via_list.
  apply map_ext_in. intros rw Hin. apply named_row_info; try assumption.
  exact (proj1 (forallb_forall _ _) Hall rw Hin).
Qed.

Lemma classify1_digit_b a : digit_b a = true -> classify1 a = Dg (a - 48).
Proof. unfold digit_b, classify1. intros ->. reflexivity. Qed.

Record zone_entry (name : string) := {
  ze_nm : bytes; ze_sg : N; ze_a : N; ze_b : N; ze_c : N; ze_d : N;
  ze_name : s2b name = ze_nm;
  ze_alpha : forallb is_alpha_c ze_nm = true;
  ze_ne : ze_nm <> [];
  ze_assoc : assoc ze_nm tz_table = Some [ze_sg; (48 + ze_a)%N; (48 + ze_b)%N; 58%N; (48 + ze_c)%N; (48 + ze_d)%N];
  ze_sign : ze_sg = 43%N \/ ze_sg = 45%N;
  ze_c5 : (ze_c <= 5)%N;
  ze_secs : name_secs name = Some (off_value (ze_sg =? 45)%N ze_a ze_b (Some (ze_c, ze_d)));
  ze_range : -86400 < off_value (ze_sg =? 45)%N ze_a ze_b (Some (ze_c, ze_d)) < 86400;
  ze_cl : classify [ze_sg; (48 + ze_a)%N; (48 + ze_b)%N; 58%N; (48 + ze_c)%N; (48 + ze_d)%N]
          = [Ch ze_sg; Dg ze_a; Dg ze_b; Ch 58; Dg ze_c; Dg ze_d]
}.

Lemma zone_entry_of name : In name (names_with false) -> exists e : zone_entry name, True.
Proof.
  intros Hin. destruct (names_with_in name Hin) as [v [Hv Hne]].
  pose proof (proj1 (forallb_forall _ _) table_entries_ok (name, v) Hv) as E.
  unfold entry_ok in E. cbn [fst snd] in E.
  apply andb_true_iff in E as [E E4]. apply andb_true_iff in E as [E E3]. apply andb_true_iff in E as [E1 E2].
  destruct (s2b name) as [|c0 more] eqn:Hnm; [discriminate|].
  destruct (assoc (c0 :: more) tz_table) as [v'|] eqn:Ha; [|discriminate]. apply beqb_eq in E2. subst v'.
  destruct (lookup name ref_tz_table) as [v'|] eqn:Hl; [|discriminate]. apply String.eqb_eq in E3. subst v'.
  assert (Hvb : s2b v <> []) by (destruct v; [contradiction|discriminate]).
  destruct (s2b v) as [|sg [|a [|b [|col [|c [|d [|? ?]]]]]]] eqn:Hvb'; try discriminate; try contradiction.
  repeat (apply andb_true_iff in E4 as [E4 ?]).
  destruct (tzval_secs v) as [z|] eqn:Hz; [|discriminate].
  match goal with H : (_ && _ && _) = true |- _ => apply andb_true_iff in H as [H R2]; apply andb_true_iff in H as [R0 R1] end.
  apply Z.eqb_eq in R0. apply Z.ltb_lt in R1, R2.
  match goal with H : (col =? 58)%N = true |- _ => apply N.eqb_eq in H; subst col end.
  repeat match goal with H : digit_b ?x = true |- _ =>
    let H' := fresh in pose proof H as H'; unfold digit_b in H'; apply andb_true_iff in H' as [? ?];
    revert H end. intros Da Db Dc Dd.
  repeat match goal with H : (_ <=? _)%N = true |- _ => apply N.leb_le in H end.
  assert (Ea : a = (48 + (a - 48))%N) by lia. assert (Eb : b = (48 + (b - 48))%N) by lia.
  assert (Ec : c = (48 + (c - 48))%N) by lia. assert (Ed : d = (48 + (d - 48))%N) by lia.
  unshelve eexists.
  - refine {| ze_nm := c0 :: more; ze_sg := sg; ze_a := (a - 48)%N; ze_b := (b - 48)%N; ze_c := (c - 48)%N; ze_d := (d - 48)%N |}.
    + exact Hnm.
    + exact E1.
    + discriminate.
    + rewrite <- Ea, <- Eb, <- Ec, <- Ed. exact Ha.
    + apply orb_true_iff in E4 as [X|X]; apply N.eqb_eq in X; auto.
    + lia.
    + unfold name_secs. rewrite Hl, Hz. f_equal. exact R0.
    + rewrite <- R0. lia.
    + rewrite <- Ea, <- Eb, <- Ec, <- Ed. cbn [classify map].
      rewrite (classify1_digit_b a Da), (classify1_digit_b b Db), (classify1_digit_b c Dc), (classify1_digit_b d Dd).
      apply orb_true_iff in E4 as [X|X]; apply N.eqb_eq in X; subst sg; reflexivity.
  - exact I.
Qed.

Lemma render_named_split l y m d h mi s fr sp name :
  render (FDateTime l y m d h mi s fr (ZoneName sp name))
  = (render_datetime l y m d h mi s ++ render_frac fr ++ (if sp then [32%N] else [])) ++ s2b name.
Proof. cbn [render render_zone]. rewrite <- !app_assoc. reflexivity. Qed.

Ltac named_skeleton e :=
  rewrite render_named_split, classify_app, (ze_name _ e), (classify_alpha _ (ze_alpha _ e));
  match goal with |- m_resolve_abs (?X ++ _) _ = _ =>
    let B := fresh "B" in let EB := fresh "EB" in
    remember X as B eqn:EB;
    cbv [render_datetime render_date render_time_colon render_frac pad2 pad3 pad4 pad6 app classify map] in EB;
    rewrite ?classify1_dg in EB;
    change (classify1 45%N) with (Ch 45%N) in EB; change (classify1 84%N) with (Ch 84%N) in EB;
    change (classify1 58%N) with (Ch 58%N) in EB; change (classify1 47%N) with (Ch 47%N) in EB;
    change (classify1 32%N) with (Ch 32%N) in EB; change (classify1 46%N) with (Ch 46%N) in EB;
    repeat match type of EB with context [Dg (Z.to_N ?x)] => let n := fresh "g" in remember (Z.to_N x) as n end;
    subst B
  end.

Ltac named_finish y m Hsecs Hrange Hc5 :=
  cbn [first_valid];
  match goal with |- context [validate ?ht ?tz (RNum NYear false ?yd :: RNum NMonth false ?md :: RNum NDay false ?dd :: RNum NHour false ?hd :: RNum NMinute false ?mid :: RNum NSecond false ?sd :: ?tail)] =>
    change (RNum NYear false yd :: RNum NMonth false md :: RNum NDay false dd :: RNum NHour false hd :: RNum NMinute false mid :: RNum NSecond false sd :: tail)
      with (dt_fields yd md dd hd mid sd tail) end;
  subst;
  pose proof (month_len_le31 y m);
  rewrite validate_dt; rewrite ?Ey4, ?Ey2 by lia;
  [ cbv beta zeta iota; cbn [find_nano find_off]; change (pow10 (9 - 3)) with 1000000; change (pow10 (9 - 6)) with 1000;
    rewrite ?Ey3, ?Ey6 by lia;
    unfold denote, denote_with, zone_secs; rewrite Hsecs; unfold instant_with, frac_ns, NS;
    rewrite <- days_from_civil_spec by lia;
    match goal with |- context [(?a <? ?b) && (?c <? ?d)] =>
      replace ((a <? b) && (c <? d)) with true by (symmetry; apply andb_true_iff; split; apply Z.ltb_lt; lia) end;
    first [reflexivity | f_equal; lia]
  | reflexivity
  | cbn [forallb field_ok]; replace (Z.of_N _ <=? 5) with true by (symmetry; apply Z.leb_le; lia); reflexivity
  | lia
  | unfold valid_date; rewrite <- month_len_days_in_month; rewrite !andb_true_iff, !Z.leb_le; lia
  | lia | lia | lia ].

Ltac named_case e HZ Hz y m :=
  destruct e as [nm sg za zb zc zd Hname Halpha Hne Hassoc Hsign Hc5 Hsecs Hrange Hcl];
  cbn [ze_nm] in HZ, Hz;
  rewrite render_named_split, classify_app, Hname, (classify_alpha _ Halpha);
  match goal with |- m_resolve_abs (?X ++ _) _ = _ =>
    let B := fresh "B" in let EB := fresh "EB" in
    remember X as B eqn:EB;
    cbv [render_datetime render_date render_time_colon render_frac pad2 pad3 pad4 pad6 app classify map] in EB;
    rewrite ?classify1_dg in EB;
    change (classify1 45%N) with (Ch 45%N) in EB; change (classify1 84%N) with (Ch 84%N) in EB;
    change (classify1 58%N) with (Ch 58%N) in EB; change (classify1 47%N) with (Ch 47%N) in EB;
    change (classify1 32%N) with (Ch 32%N) in EB; change (classify1 46%N) with (Ch 46%N) in EB;
    repeat match type of EB with context [Dg (Z.to_N ?x)] => let n := fresh "g" in remember (Z.to_N x) as n end;
    subst B
  end;
  destruct Hsign as [SG|SG]; subst sg;
  (match goal with |- m_resolve_abs (?B ++ _) ?tz = _ =>
    erewrite (resolve_via_named B nm _ tz);
      [ | vm_compute; reflexivity | vm_compute; reflexivity | exact Halpha | exact Hne | exact HZ | exact Hz
        | exact Hassoc | rewrite Hcl; vm_compute; reflexivity ] end);
  cbn [N.eqb Pos.eqb] in Hsecs, Hrange;
  named_finish y m Hsecs Hrange Hc5.

