(* Proofs/RegexNumCover.v — C04, regex stage: which VALUES the number-level theorem reaches, row by row
   (vm_compute on the regenerated tables): every numeric row admits a standard rendering of every year,
   month, day, hour, minute, second, at least one fraction length, every ASCII-signed numeric offset and at
   least 192 zone-name spellings — except the unpadded month / hour of rows 59 and 138
   (`(?P<month>1|2|...|12)[ /\-\\]?(?P<day>...)`: a one-digit month or hour in front of an optional separator
   is ambiguous). *)
From S4.Base Require Import Bytes.
From S4.Model Require Import Calendar Normalise Regex RegexPlan RegexDt RegexNum.
From S4.Gen Require Import DatetimeTables RegexTables.
From S4.Proofs Require Import RegexUniv RegexNumProofs.
Open Scope N_scope.

Definition expected_gaps (i : N) : list N := if (i =? 59) || (i =? 138) then [1; 3] else [].
Lemma value_gaps_ok :
  forallb (fun row => match nth_dt' (rx_index row) with
                      | Some dr => if row_numeric row (r_dtfs dr)
                                   then list_eqb (value_gaps row (r_dtfs dr)) (expected_gaps (rx_index row))
                                   else true
                      | None => false end) rx_table = true.
Proof. vm_cast_no_check (eq_refl true). Qed.

(* the hypotheses of row_numbers_fields are satisfiable: row 73, the NUMBERS 2024 2 29 23 59 58, fraction
   digits "123456", zone PDT (-07:00): "2024-02-29 23:59:58.123456 PDT message" *)
From S4.Spec Require Import CalendarSpec TzRef NormaliseSpec.
From S4.Proofs Require Import RegexExamples.
From Coq Require Import String.
Open Scope string_scope.
Definition ex_fread : fread :=
  mkFR (Some (dec4 2024, 2024%Z)) (dd 2, 2%Z) (dd 29, 29%Z) (dd 23, 23%Z) (dd 59, 59%Z) (Some (dd 58, 58%Z))
       (Some (s2b "123456")) (Some (s2b "PDT", Some (-25200)%Z)).
Example row_numbers_example :
  exists row dr,
    nth_rx 73 = Some row /\ nth_dt 73 = Some dr /\
    row_numeric row (r_dtfs dr) = true /\
    fread_admitted row (r_dtfs dr) (row_plan row) (row_fam row) ex_fread = true /\
    fread_valid ex_fread None = true /\ fallback_ok 3600 = true /\
    plan_caps row (row_plan row) ex_texts = fread_caps ex_fread /\
    seps_in_family row ex_texts = true /\ rest_ok (row_rf row) true (s2b " message") = true /\
    fread_instant ex_fread None 3600 = 1709276398123456000%Z.
Proof.
  destruct (nth_rx 73) as [row|] eqn:E; [|vm_compute in E; discriminate].
  destruct (nth_dt 73) as [dr|] eqn:D; [|vm_compute in D; discriminate].
  exists row, dr. split; [reflexivity|]. split; [reflexivity|].
  vm_compute in E. inversion E; subst row. vm_compute in D. inversion D; subst dr.
  vm_compute. repeat split; reflexivity.
Qed.

(* unanchored rows: the rows whose plan for a match attempt at an offset >= 1 is numeric, i.e. for which the
   number-level theorem also holds behind a dead prefix (Proofs/RegexNumProofs.row_numbers_prefixed) *)
Definition prefixed_rows : list N :=
  [25; 45] ++ rangeN 46 12 ++ [59; 101] ++ rangeN 102 47 ++ rangeN 155 18.
Lemma numeric_nz_ok :
  forallb (fun row => match nth_dt' (rx_index row) with
                      | Some dr => Bool.eqb (row_numeric_nz row (r_dtfs dr)) (existsb (N.eqb (rx_index row)) prefixed_rows)
                      | None => false end) rx_table = true.
Proof. vm_cast_no_check (eq_refl true). Qed.
