(* Proofs/RegexYear.v — C04 / the text side of C11: year-less lines.
   (1) normalise_no_such_date: when every captured field reads as a number but the day does not exist in
       that month of that year (29 Feb of a common year, 31 Apr, ...), captures_to_buffer_bytes + chrono
       ([model_instant]) yield NO instant — the complement of C04_normalise_denotes for this case.
   (2) yearless_line: for every numeric row that writes no year (DTFS year = fill), the model of
       bytes_to_regex_to_datetime on the BYTES of the line with the fill year y is exactly
       Model/Year.with_year (zone, y, (month, day, time of day)): the instant of that month/day/time in the
       year y, or nothing when the date does not exist in y.  This instantiates the `dated` oracle of the
       year walk (Model/Year.v) with a proved function of the line. *)
From Coq Require Import Lia String.
From S4.Base Require Import Bytes.
From S4.Model Require Import Calendar Normalise Regex RegexPlan RegexDt RegexNum Year.
From S4.Gen Require Import DatetimeTables RegexTables.
From S4.Spec Require Import CalendarSpec TzRef NormaliseSpec.
From S4.Proofs Require Import CalendarProofs NormaliseTablesOk NormaliseDenotes RegexProofs RegexSim RegexUniv RegexNumProofs.
Close Scope string_scope.
Open Scope list_scope.
Open Scope N_scope.

Theorem normalise_no_such_date d c yo off y mo dd h mi s fr o :
  dtfs_ok d = true -> f_epoch d = E_none -> fallback_ok off = true ->
  rd_year d c yo = Some y -> rd_month d c = Some mo -> rd_day d c = Some dd -> rd_hour d c = Some h ->
  rd_minute d c = Some mi -> rd_second d c = Some s -> rd_frac d c = Some fr -> rd_off d c off = Some o ->
  (0 <= y)%Z -> (1 <= mo <= 12)%Z -> (1 <= dd)%Z -> (month_len y mo < dd)%Z ->
  (h <= 23)%Z -> (mi <= 59)%Z -> (s <= 59)%Z ->
  model_instant month_table tz_table d c yo off = None.
Proof.
  intros OK E F Ry Rmo Rd Rh Rmi Rs Rf Ro Hy0 Hmo Hd1 Hdm Hh Hmi Hs.
  destruct (civil_branch d OK E) as [Sup Pat].
  destruct (seg_year_ok _ _ _ _ Ry) as [yd [yv [Sy [Dy Ey]]]].
  destruct (seg_month_ok month_table_complete_all _ _ _ Rmo) as [md [Smo Dmo]].
  destruct (seg_day_ok _ _ _ Rd) as [ds [Sd Dd]].
  destruct (seg_hour_ok _ _ _ Rh) as [hd [Sh Dh]].
  destruct (seg_minute_ok _ _ _ Rmi) as [mid [Smi Dmi]].
  destruct (seg_second_ok _ _ _ Rs) as [sd [Ss Ds]].
  destruct (seg_frac_ok _ _ _ Rf) as [fd [Sf Df]].
  destruct (seg_tz_ok _ _ _ _ F Ro) as [txt [o' [Stz [Sc [Tr [Ltxt Hoff]]]]]].
  unfold model_instant, normalise, obind, seg_epoch. rewrite E, Sy, Smo, Sd, Sh, Smi, Ss, Sf, Stz.
  cbn [app].
  (* lengths: the buffer fits in BUFLEN = 35 *)
  pose proof Dy as [Ly _]. pose proof Dmo as [Lmo _]. pose proof Dd as [Ld _]. pose proof Dh as [Lh _]. pose proof Dmi as [Lmi _].
  assert (Lsd : (length sd <= 2)%nat) by (destruct (sec_present d); [destruct Ds as [-> _]; lia|destruct Ds as [-> _]; cbn; lia]).
  assert (Lfd : (length fd <= 10)%nat).
  { destruct (frac_present d); [destruct Df as [f9 [-> [L9 _]]]; cbn; lia|destruct Df as [-> _]; cbn; lia]. }
  assert (Lyd : (length yd <= 4)%nat) by (destruct (is_y2 d); lia).
  replace (Nat.leb (length (yd ++ md ++ ds ++ 84 :: hd ++ mid ++ sd ++ fd ++ txt)) 35) with true
    by (symmetry; apply Nat.leb_le; rewrite !app_length; cbn [length]; rewrite !app_length; lia).
  unfold parse_buffer. rewrite Pat.
  (* the item chain *)
  assert (HS : if sec_present d then dig 2 sd s else sd = []) by (destruct (sec_present d); tauto).
  assert (HF : if frac_present d then exists f9, fd = 46 :: f9 /\ dig 9 f9 fr else fd = []) by (destruct (frac_present d); tauto).
  change (yd ++ md ++ ds ++ 84 :: hd ++ mid ++ sd ++ fd ++ txt) with (yd ++ md ++ ds ++ [84] ++ hd ++ mid ++ sd ++ fd ++ txt).
  rewrite (canon_parse (is_y2 d) (sec_present d) (frac_present d) (tz_perm d) yd md ds hd mid sd fd txt
             yv mo dd h mi s fr o' Dy Dmo Dd Dh Dmi HS HF Sc Tr).
  (* resolution *)
  assert (Hy9 : (0 <= y <= 9999)%Z).
  { apply dig_bound in Dy. destruct (is_y2 d).
    - change (10 ^ Z.of_nat 2)%Z with 100%Z in Dy. destruct (yv <? 70)%Z; lia.
    - change (10 ^ Z.of_nat 4)%Z with 10000%Z in Dy. lia. }
  assert (Ryear : resolve_year (mkParsed (if is_y2 d then None else Some yv) (if is_y2 d then Some yv else None)
                       (Some mo) (Some dd) (Some h) (Some mi) (if sec_present d then Some s else None)
                       (if frac_present d then Some fr else None) None (Some o')) = Some y).
  { unfold resolve_year. cbn [p_year p_year2]. destruct (is_y2 d); subst y; reflexivity. }
  assert (Vd : valid_date y mo dd = false).
  { unfold valid_date. rewrite <- month_len_days_in_month.
    replace (dd <=? month_len y mo)%Z with false by (symmetry; apply Z.leb_gt; lia).
    rewrite andb_false_r. reflexivity. }
  set (P := mkParsed _ _ _ _ _ _ _ _ _ _) in *.
  assert (ND : naive_date P = None).
  { unfold naive_date. rewrite Ryear. subst P. cbn [p_month p_day]. rewrite Vd. reflexivity. }
  assert (NDT : forall off0, naive_datetime P off0 = None).
  { intros off0. unfold naive_datetime. rewrite ND. subst P. reflexivity. }
  cbv beta iota.
  destruct (has_tz d).
  - subst P. cbn [p_off]. destruct (offset_in_range o'); [|reflexivity]. rewrite NDT. reflexivity.
  - rewrite NDT. reflexivity.
Qed.

(* ---- what an admitted reading reads as, field by field *)
Lemma fread_reads row d p fs r yo off :
  fread_admitted row d p fs r = true ->
  match r_year r, yo with None, Some y' => ((1000 <=? y') && (y' <=? 9999))%Z = true | _, _ => True end ->
  f_epoch d = E_none /\
  rd_year d (fread_caps r) yo = Some (fr_year r yo) /\
  rd_month d (fread_caps r) = Some (snd (r_month r)) /\
  rd_day d (fread_caps r) = Some (snd (r_day r)) /\
  rd_hour d (fread_caps r) = Some (snd (r_hour r)) /\
  rd_minute d (fread_caps r) = Some (snd (r_minute r)) /\
  rd_second d (fread_caps r) = Some (fr_second r) /\
  rd_frac d (fread_caps r) = Some (fr_frac r) /\
  rd_off d (fread_caps r) off = Some (fr_off r off).
Proof.
  unfold fread_admitted. intros Ha Hyo.
  repeat (apply andb_true_iff in Ha as [Ha ?]).
  rename H into Hep, H0 into Htz, H1 into Hfr, H2 into Hse, H3 into Hmi, H4 into Hho, H5 into Hda, H6 into Hmo.
  destruct (f_epoch d) eqn:Eep; [discriminate|]. split; [reflexivity|].
  apply mem_adm in Hmo as [Hmo _]. apply mem_adm in Hda as [Hda _]. apply mem_adm in Hho as [Hho _].
  apply mem_adm in Hmi as [Hmi _].
  rewrite (rd_month_cap d (fread_caps r) (fst (r_month r)) eq_refl), Hmo.
  rewrite (rd_day_cap d (fread_caps r) (fst (r_day r)) eq_refl), Hda.
  rewrite (rd_hour_cap d (fread_caps r) (fst (r_hour r)) eq_refl), Hho.
  rewrite (rd_minute_cap d (fread_caps r) (fst (r_minute r)) eq_refl), Hmi.
  repeat split.
  - unfold fr_year. destruct (r_year r) as [tv|] eqn:Ey.
    + apply mem_adm in Ha as [Ha _]. rewrite (rd_year_cap d (fread_caps r) yo (fst tv)); auto.
      unfold fread_caps. rewrite Ey. reflexivity.
    + unfold rd_year, fread_caps. rewrite Ey. simpl. destruct (f_year d); try discriminate.
      destruct yo as [y'|]; [rewrite Hyo|]; reflexivity.
  - unfold fr_second. destruct (r_second r) as [tv|] eqn:Es.
    + apply mem_adm in Hse as [Hse _]. rewrite (rd_second_cap d (fread_caps r) (fst tv)); auto.
      unfold fread_caps. rewrite Es. reflexivity.
    + unfold rd_second. destruct (f_second d); try discriminate; reflexivity.
  - unfold fr_frac, rd_frac. destruct (r_frac r) as [f|] eqn:Ef.
    + repeat (apply andb_true_iff in Hfr as [Hfr ?]).
      destruct (f_frac d); [|discriminate]. unfold fread_caps. rewrite Ef. simpl.
      apply frac_ns_digits; auto.
      apply existsb_exists in Hfr as (n & Hn & En). apply Nat.eqb_eq in En. rewrite En.
      apply (adm_frac_len_bound _ _ Hn).
    + destruct (f_frac d); [discriminate|reflexivity].
  - unfold fr_off. destruct (r_tz r) as [[t v]|] eqn:Et.
    + apply mem_adm_tz in Htz as [Htz _]. simpl in Htz.
      rewrite (rd_off_cap d (fread_caps r) off t v); auto. unfold fread_caps. rewrite Et. reflexivity.
    + unfold rd_off. destruct (f_tz d); try discriminate. reflexivity.
Qed.

(* the time of day and the month/day of a reading are in range *)
Definition time_ok (r : fread) : bool :=
  ((1 <=? snd (r_month r)) && (snd (r_month r) <=? 12) && (1 <=? snd (r_day r))
   && (0 <=? snd (r_hour r)) && (snd (r_hour r) <=? 23) && (0 <=? snd (r_minute r)) && (snd (r_minute r) <=? 59)
   && (0 <=? fr_second r) && (fr_second r <=? 59))%Z.
Definition fr_msg (r : fread) : ymsg :=
  mkMsg (snd (r_month r)) (snd (r_day r))
        ((snd (r_hour r) * 3600 + snd (r_minute r) * 60 + fr_second r) * NS + fr_frac r)%Z.

(* THE TEXT SIDE OF C11: a year-less line + the fill year = Model/Year.with_year of its month/day/time *)
Theorem yearless_line o row dr p r pre texts rest tail y off :
  In row rx_table -> In dr dt_table ->
  plan_numeric o row p (r_dtfs dr) = true ->
  r_year r = None ->
  fread_admitted row (r_dtfs dr) p (fam_of p) r = true ->
  time_ok r = true -> (1000 <= y <= 9999)%Z -> fallback_ok off = true ->
  plan_caps row p texts = fread_caps r ->
  seps_in_fam row p texts = true -> rest_ok (rf_of p) true rest = true ->
  match o with OAbs => pre = [] | ONz => pre <> [] | OUnk => False end ->
  pre_ok (rx_re row) OAbs pre (hd_opt (concat texts ++ rest)) = true ->
  slice_of row ((pre ++ concat texts ++ rest) ++ tail) = Some (pre ++ concat texts ++ rest) ->
  option_map (fun x => fst (fst x))
             (dated_model month_table tz_table row (r_dtfs dr) ((pre ++ concat texts ++ rest) ++ tail) (Some y) off)
  = with_year (fr_off r off) y (fr_msg r).
Proof.
  intros Hin Hdr Hn Hny Ha Ht Hy Hfb Hcaps Hsep Hrest Horg Hpre Hslice.
  unfold time_ok in Ht. repeat (apply andb_true_iff in Ht as [Ht ?]).
  repeat match goal with H : (_ <=? _)%Z = true |- _ => apply Z.leb_le in H end.
  unfold with_year, fr_msg. cbn [m_mon m_day m_tod].
  destruct (valid_date y (snd (r_month r)) (snd (r_day r))) eqn:Vd.
  - (* the date exists in year y *)
    assert (Hv : fread_valid r (Some y) = true).
    { unfold fread_valid, fr_year. rewrite Hny.
      unfold valid_date in Vd. rewrite <- month_len_days_in_month in Vd.
      repeat (apply andb_true_iff in Vd as [Vd ?]).
      repeat (apply andb_true_iff; split); try assumption; apply Z.leb_le; lia. }
    rewrite (plan_numbers_fields o row dr p r pre texts rest tail (Some y) off); auto.
    f_equal. unfold fread_instant, fr_year, spec_instant. rewrite Hny.
    rewrite <- (days_from_civil_spec y (snd (r_month r)) (snd (r_day r))) by lia.
    unfold NS. lia.
  - (* it does not: no instant *)
    assert (Hyo : match r_year r, Some y with None, Some y' => ((1000 <=? y') && (y' <=? 9999))%Z = true | _, _ => True end).
    { rewrite Hny. apply andb_true_iff; split; apply Z.leb_le; lia. }
    destruct (fread_reads row (r_dtfs dr) p (fam_of p) r (Some y) off Ha Hyo)
      as (Ee & Ry & Rmo & Rd & Rh & Rmi & Rs & Rf & Ro).
    unfold plan_numeric in Hn. apply andb_true_iff in Hn as [Hn Hep]. apply andb_true_iff in Hn as [Hn Hne].
    apply andb_true_iff in Hn as [Hn Hfo].
    assert (Hr : names_in_range row = true).
    { pose proof names_in_range_ok as E. unfold names_in_range_b in E. rewrite forallb_forall in E. auto. }
    assert (Hfam : in_family (fam_of p) texts = true).
    { apply (in_family_sel_full _ _ _ _ Hsep). intros k Hk _. simpl in Hk.
      apply (fields_in_family row (r_dtfs dr) p (fam_of p) r texts Ha Hcaps k Hk). }
    pose proof (family_sound _ _ _ _ _ _ Hfo Hfam Hrest) as Hok.
    rewrite (covered_at_dated row p o Hn Hr pre texts rest tail _ Horg Hpre Hslice eq_refl Hok).
    rewrite Hcaps.
    apply (normalise_no_such_date (r_dtfs dr) (fread_caps r) (Some y) off _ _ _ _ _ _ _ _
             (rows_ok_all _ Hdr) Ee Hfb Ry Rmo Rd Rh Rmi Rs Rf Ro); unfold fr_year; rewrite ?Hny; try lia.
    destruct (Z_lt_le_dec (month_len y (snd (r_month r))) (snd (r_day r))) as [L|L]; [exact L|].
    exfalso. unfold valid_date in Vd. rewrite <- month_len_days_in_month in Vd.
    replace (1 <=? snd (r_month r))%Z with true in Vd by (symmetry; apply Z.leb_le; lia).
    replace (snd (r_month r) <=? 12)%Z with true in Vd by (symmetry; apply Z.leb_le; lia).
    replace (1 <=? snd (r_day r))%Z with true in Vd by (symmetry; apply Z.leb_le; lia).
    replace (snd (r_day r) <=? month_len y (snd (r_month r)))%Z with true in Vd by (symmetry; apply Z.leb_le; lia).
    discriminate.
Qed.

(* the hypotheses are satisfiable, both branches: "Feb 29 23:59:58 host s" (row 33, RFC 3164) with fill year
   2024 (leap) -> 2024-02-29T23:59:58Z; with fill year 2023 -> no instant *)
From Coq Require Import String.
Open Scope string_scope.
Open Scope list_scope.
Definition yl_row : rx_row := match nth_rx' 33 with Some r => r | None => mkRx 0 REps 0 [] 0 0 0 0 end.
Definition yl_fread : fread :=
  mkFR None (s2b "Feb", 2%Z) (dd 29, 29%Z) (dd 23, 23%Z) (dd 59, 59%Z) (Some (dd 58, 58%Z)) None None.
Definition yl_texts : list bytes :=
  [[]; s2b "Feb"; s2b " "; s2b "29"; s2b " "; s2b "23"; s2b ":"; s2b "59"; s2b ":"; s2b "58"; s2b " "].
Example yearless_example :
  exists dr,
    nth_dt' 33 = Some dr /\ In yl_row rx_table /\ In dr dt_table /\
    plan_numeric OAbs yl_row (row_plan yl_row) (r_dtfs dr) = true /\
    fread_admitted yl_row (r_dtfs dr) (row_plan yl_row) (fam_of (row_plan yl_row)) yl_fread = true /\
    time_ok yl_fread = true /\
    plan_caps yl_row (row_plan yl_row) yl_texts = fread_caps yl_fread /\
    seps_in_fam yl_row (row_plan yl_row) yl_texts = true /\ rest_ok (rf_of (row_plan yl_row)) true (s2b "host s") = true /\
    slice_of yl_row ((([] ++ List.concat yl_texts ++ s2b "host s") ++ s2b "shd[1]: x"))%list = Some ([] ++ List.concat yl_texts ++ s2b "host s")%list /\
    with_year 0 2024 (fr_msg yl_fread) = Some 1709251198000000000%Z /\
    with_year 0 2023 (fr_msg yl_fread) = None.
Proof.
  destruct (nth_dt' 33) as [dr|] eqn:D; [|vm_compute in D; discriminate].
  exists dr. split; [reflexivity|].
  assert (E : nth_rx' 33 = Some yl_row) by (vm_compute; reflexivity).
  split; [apply (find_some _ _ E)|]. split; [apply (find_some _ _ D)|].
  vm_compute in D. inversion D; subst dr.
  vm_compute. repeat split; reflexivity.
Qed.
