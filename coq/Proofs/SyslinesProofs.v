(* Proofs/SyslinesProofs.v — find_sysline and the stage driver return exactly the spec
   groups, for every block size, every file, every timestamp oracle `dated`. *)
From S4.Base Require Import Bytes Chunk.
From S4.Spec Require Import LinesSpec.
From S4.Model Require Import Lines Syslines.
From S4.Proofs Require Import LinesProofs.
Open Scope N_scope.

(* ---------------------------------------------------------------- lists of lines *)

Definition no_inner_nl (l : list N) : Prop := forall k, k + 1 < lenN l -> nthN l k <> Some NL.

Fixpoint wf_lines (ls : list (list N)) : Prop :=
  match ls with
  | [] => True
  | l :: r => l <> [] /\ no_inner_nl l /\ (r <> [] -> nthN l (lenN l - 1) = Some NL) /\ wf_lines r
  end.

Lemma lines_nil l : lines l = [] -> l = [].
Proof.
  destruct l as [|x r]; [reflexivity|]. cbn [lines].
  destruct (x =? NL); [discriminate|]. destruct (lines r); discriminate.
Qed.

Lemma lines_concat l : concat (lines l) = l.
Proof.
  induction l as [|x r IH]; [reflexivity|]. cbn [lines].
  destruct (x =? NL).
  - cbn [concat app]. rewrite IH. reflexivity.
  - destruct (lines r) as [|h t] eqn:E.
    + apply lines_nil in E. subst r. reflexivity.
    + cbn [concat] in *. rewrite <- IH. reflexivity.
Qed.

Lemma lines_wf l : wf_lines (lines l).
Proof.
  induction l as [|x r IH]; [exact I|]. cbn [lines].
  destruct (N.eqb_spec x NL) as [E|E].
  - cbn [wf_lines]. repeat split; [discriminate| |intros _; subst x; reflexivity|exact IH].
    intros k K. cbn in K. lia.
  - destruct (lines r) as [|h t] eqn:EL.
    + cbn [wf_lines]. repeat split; [discriminate| |intro X; congruence].
      intros k K. cbn in K. lia.
    + cbn [wf_lines] in *. destruct IH as (H1 & H2 & H3 & H4).
      repeat split; [discriminate| | |exact H4].
      * intros k K. rewrite lenN_cons in K. destruct (N.eq_dec k 0) as [->|K0].
        -- cbn. congruence.
        -- rewrite nthN_cons_pos by lia. apply H2. lia.
      * intro T. specialize (H3 T). rewrite lenN_cons.
        assert (0 < lenN h) by (destruct h; [congruence|rewrite lenN_cons; lia]).
        rewrite nthN_cons_pos by lia. replace (lenN h + 1 - 1 - 1) with (lenN h - 1) by lia. exact H3.
Qed.

Lemma wf_lines_app_r a b : wf_lines (a ++ b) -> wf_lines b.
Proof. induction a as [|x a IH]; [auto|]. cbn. intros (_ & _ & _ & W). auto. Qed.

Lemma wf_lines_len ls : wf_lines ls -> (length ls <= length (concat ls))%nat.
Proof.
  induction ls as [|l r IH]; [cbn; lia|]. intros (H1 & _ & _ & W). cbn [concat length].
  rewrite app_length. specialize (IH W). destruct l; [congruence|]. cbn [length]. lia.
Qed.

Lemma concat_app_len {A} (a b : list (list A)) : lenN (concat (a ++ b)) = lenN (concat a) + lenN (concat b).
Proof. rewrite concat_app, lenN_app. reflexivity. Qed.

(* the bytes before a line that is not the first end with a newline *)
Lemma closed_before before l after : wf_lines (before ++ l :: after) ->
  lenN (concat before) = 0 \/ nthN (concat before) (lenN (concat before) - 1) = Some NL.
Proof.
  induction before as [|b0 before IH]; [left; reflexivity|].
  cbn [app wf_lines]. intros (H1 & H2 & H3 & W). right.
  assert (P : 0 < lenN b0) by (destruct b0; [congruence|rewrite lenN_cons; lia]).
  cbn [concat]. rewrite lenN_app.
  destruct (IH W) as [Z|Z].
  - rewrite Z. rewrite nthN_app_l by lia. replace (lenN b0 + 0 - 1) with (lenN b0 - 1) by lia.
    apply H3. destruct before; discriminate.
  - assert (0 < lenN (concat before)).
    { destruct (N.eq_dec (lenN (concat before)) 0) as [E|E]; [|lia].
      rewrite E in Z. apply nthN_Some_lt in Z. lia. }
    rewrite nthN_app_r by lia.
    replace (lenN b0 + lenN (concat before) - 1 - lenN b0) with (lenN (concat before) - 1) by lia. exact Z.
Qed.

Lemma slice_mid {A} (pre l post : list A) : slice (pre ++ l ++ post) (lenN pre) (lenN pre + lenN l) = l.
Proof.
  unfold slice. rewrite skipnN_app_len. replace (lenN pre + lenN l - lenN pre) with (lenN l) by lia.
  apply firstnN_app_len.
Qed.

(* the line that contains an offset, in terms of the list of lines *)
Lemma line_at before l after fo :
  wf_lines (before ++ l :: after) ->
  let f := concat (before ++ l :: after) in
  let b := lenN (concat before) in
  b <= fo -> fo < b + lenN l ->
  line_beg f fo = b /\ line_end f fo = b + lenN l - 1 /\ slice f b (b + lenN l) = l /\ fo < lenN f.
Proof.
  intros W f b L1 L2.
  assert (EF : f = concat before ++ l ++ concat after).
  { subst f. rewrite concat_app. reflexivity. }
  assert (LF : lenN f = b + lenN l + lenN (concat after)).
  { rewrite EF, !lenN_app. subst b. lia. }
  pose proof (closed_before _ _ _ W) as CB. fold b in CB.
  apply wf_lines_app_r in W. destruct W as (H1 & H2 & H3 & W).
  assert (NTH : forall k, b <= k -> k < b + lenN l -> nthN f k = nthN l (k - b)).
  { intros k K1 K2. rewrite EF. rewrite nthN_app_r by (fold b; lia). fold b.
    apply nthN_app_l. lia. }
  split; [|split; [|split]].
  - apply line_beg_char; [lia|]. unfold is_beg. repeat split; [exact L1| |].
    + intros k K1 K2. rewrite NTH by lia. apply H2. lia.
    + destruct CB as [Z|Z]; [left; exact Z|right].
      assert (0 < b) by (destruct (N.eq_dec b 0) as [E|E]; [rewrite E in Z; apply nthN_Some_lt in Z; lia|lia]).
      rewrite EF. rewrite nthN_app_l by (fold b; lia). exact Z.
  - apply line_end_char. unfold is_end. repeat split; [lia|lia| |].
    + intros k K1 K2. rewrite NTH by lia. apply H2. lia.
    + destruct after as [|a after].
      * right. cbn in LF. lia.
      * left. rewrite NTH by lia. replace (b + lenN l - 1 - b) with (lenN l - 1) by lia.
        apply H3. discriminate.
  - rewrite EF. subst b. apply slice_mid.
  - lia.
Qed.

(* ---------------------------------------------------------------- representation *)

Section Dated.
  Variable dated : list N -> option Z.

  (* the model line ln is the spec line l that begins at offset b *)
  Definition line_repr (bs : N) (f : file) (ln : line) (b : N) (l : list N) : Prop :=
    bytes_of bs f ln = l /\ line_fo_begin bs ln = Some b /\ line_fo_end bs ln = Some (b + lenN l - 1).

  Fixpoint lines_repr (bs : N) (f : file) (lns : list line) (b : N) (ls : list (list N)) : Prop :=
    match lns, ls with
    | [], [] => True
    | ln :: lns', l :: ls' => line_repr bs f ln b l /\ lines_repr bs f lns' (b + lenN l) ls'
    | _, _ => False
    end.

  Lemma lines_repr_app bs f a b0 la c lc :
    lines_repr bs f a b0 la -> lines_repr bs f c (b0 + lenN (concat la)) lc ->
    lines_repr bs f (a ++ c) b0 (la ++ lc).
  Proof.
    revert b0 la; induction a as [|x a IH]; intros b0 [|l la] A C; cbn in A; try contradiction.
    - cbn in C. replace (b0 + 0) with b0 in C by lia. exact C.
    - destruct A as [A1 A2]. cbn [app lines_repr]. split; [exact A1|].
      apply IH; [exact A2|]. cbn [concat] in C. rewrite lenN_app in C.
      replace (b0 + lenN l + lenN (concat la)) with (b0 + (lenN l + lenN (concat la))) by lia. exact C.
  Qed.

  Lemma lines_repr_bytes bs f lns b ls : lines_repr bs f lns b ls -> map (bytes_of bs f) lns = ls.
  Proof.
    revert b ls; induction lns as [|x lns IH]; intros b [|l ls] R; cbn in R; try contradiction; [reflexivity|].
    destruct R as [(R1 & _) R2]. cbn [map]. rewrite R1, (IH _ _ R2). reflexivity.
  Qed.

  (* find_line at an offset inside line l *)
  Lemma find_line_at bs before l after fo : 0 < bs ->
    wf_lines (before ++ l :: after) ->
    let f := concat (before ++ l :: after) in
    let b := lenN (concat before) in
    b <= fo -> fo < b + lenN l ->
    exists ln, find_line_m bs f fo = Found (b + lenN l, ln) /\ line_repr bs f ln b l.
  Proof.
    intros H W f b L1 L2.
    destruct (line_at before l after fo W L1 L2) as (LB & LE & SL & LT). fold f b in LB, LE, SL, LT.
    destruct (find_line_correct bs f fo H LT) as (ps & R & _ & BY & BG & EN).
    rewrite LB, LE in *.
    assert (0 < lenN l).
    { apply wf_lines_app_r in W. destruct W as (H1 & _). destruct l; [congruence|rewrite lenN_cons; lia]. }
    replace (b + lenN l - 1 + 1) with (b + lenN l) in * by lia.
    exists ps. split; [exact R|]. unfold line_repr. rewrite BY, SL. auto.
  Qed.

  Lemma find_line_at_end bs ls : find_line_m bs (concat ls) (lenN (concat ls)) = Done.
  Proof. apply find_line_done. lia. Qed.

  (* ---------------------------------------------------------------- groups *)

  Lemma groups_cons l r :
    groups dated (l :: r) =
    match dated l with
    | Some t => ([], (t, l :: fst (groups dated r)) :: snd (groups dated r))
    | None => (l :: fst (groups dated r), snd (groups dated r))
    end.
  Proof. cbn [groups]. destruct (groups dated r). reflexivity. Qed.

  (* ls = undated prefix ++ rest, rest empty or beginning with a dated line *)
  Lemma groups_fst_split ls : exists rest,
    ls = fst (groups dated ls) ++ rest /\ snd (groups dated rest) = snd (groups dated ls) /\
    fst (groups dated rest) = [] /\
    (forall u, In u (fst (groups dated ls)) -> dated u = None).
  Proof.
    induction ls as [|l r IH].
    - exists []. cbn. repeat split; auto. intros u [].
    - rewrite groups_cons. destruct (dated l) as [t|] eqn:D.
      + exists (l :: r). cbn [fst snd app]. rewrite groups_cons, D. cbn [fst snd].
        repeat split; auto. intros u [].
      + destruct IH as (rest & E1 & E2 & E3 & E4). exists rest. cbn [fst snd app].
        repeat split; [congruence|exact E2|exact E3|].
        intros u [U|U]; [subst; exact D|apply E4; exact U].
  Qed.

  Lemma groups_head ls : fst (groups dated ls) = [] ->
    match ls with
    | [] => snd (groups dated ls) = []
    | l :: r => exists t, dated l = Some t /\
                snd (groups dated ls) = (t, l :: fst (groups dated r)) :: snd (groups dated r)
    end.
  Proof.
    destruct ls as [|l r]; [reflexivity|]. rewrite groups_cons.
    destruct (dated l) as [t|]; [|discriminate]. intros _. exists t. auto.
  Qed.

  (* the concatenated groups are the file from its first dated line *)
  Lemma groups_concat ls :
    concat (fst (groups dated ls)) ++ concat (map group_bytes (snd (groups dated ls))) = concat ls.
  Proof.
    induction ls as [|l r IH]; [reflexivity|].
    rewrite groups_cons. destruct (dated l); cbn [fst snd map concat app].
    - unfold group_bytes at 1. cbn [snd concat]. rewrite <- IH. rewrite <- app_assoc. reflexivity.
    - rewrite <- IH. rewrite <- app_assoc. reflexivity.
  Qed.

  (* ---------------------------------------------------------------- loop B *)

  Lemma loop_b_ok bs : 0 < bs -> forall after before fuel acc,
    wf_lines (before ++ after) ->
    (length after < fuel)%nat ->
    let f := concat (before ++ after) in
    let fo1 := lenN (concat before) in
    let u := fst (groups dated after) in
    exists lns, loop_b dated fuel bs f fo1 acc = Found (fo1 + lenN (concat u), acc ++ lns) /\
                lines_repr bs f lns fo1 u.
  Proof.
    intros H after. induction after as [|l r IH]; intros before fuel acc W FU f fo1 u.
    - destruct fuel; [cbn in FU; lia|]. cbn [loop_b].
      subst f fo1 u. rewrite app_nil_r. rewrite find_line_at_end. cbn.
      exists []. rewrite app_nil_r. split; [f_equal; f_equal; lia|exact I].
    - destruct fuel; [cbn in FU; lia|]. cbn [loop_b].
      destruct (find_line_at bs before l r fo1 H W ltac:(subst fo1; lia)) as (ln & R & LR).
      { assert (0 < lenN l).
        { apply wf_lines_app_r in W. destruct W as (H1 & _). destruct l; [congruence|rewrite lenN_cons; lia]. }
        subst fo1. lia. }
      fold f in R, LR. fold fo1 in R, LR. rewrite R.
      destruct LR as (LR1 & LR2 & LR3). rewrite LR1.
      subst u. rewrite groups_cons. destruct (dated l) as [t|] eqn:D.
      + cbn [fst concat]. exists []. rewrite app_nil_r. split; [f_equal; f_equal; cbn; lia|exact I].
      + cbn [fst].
        assert (E : before ++ l :: r = (before ++ [l]) ++ r) by (rewrite <- app_assoc; reflexivity).
        specialize (IH (before ++ [l]) fuel (acc ++ [ln])).
        rewrite <- E in IH. specialize (IH W ltac:(cbn in FU; lia)).
        cbv zeta in IH. fold f in IH.
        assert (P : lenN (concat (before ++ [l])) = fo1 + lenN l).
        { rewrite concat_app_len. cbn [concat]. rewrite app_nil_r. reflexivity. }
        rewrite P in IH. destruct IH as (lns & R2 & LR').
        exists (ln :: lns). split.
        * rewrite R2. cbn [concat]. rewrite lenN_app. rewrite <- app_assoc. cbn [app].
          f_equal. f_equal. lia.
        * cbn [lines_repr]. split; [unfold line_repr; auto|exact LR'].
  Qed.

  (* ---------------------------------------------------------------- loop A, forwards *)

  (* result of a forward search for the first dated line among `after` *)
  Definition loop_a_spec (bs : N) (f : file) (fo1 : N) (after : list (list N)) (r : res (Z * line * N)) : Prop :=
    match snd (groups dated after) with
    | [] => r = Done
    | (t, gl) :: _ =>
        exists l ln, hd_error gl = Some l /\
          let s := fo1 + lenN (concat (fst (groups dated after))) in
          r = Found (t, ln, s + lenN l) /\ line_repr bs f ln s l
    end.

  Lemma loop_a_fwd bs : 0 < bs -> forall after before fuel,
    wf_lines (before ++ after) ->
    (length after < fuel)%nat ->
    let f := concat (before ++ after) in
    let fo1 := lenN (concat before) in
    loop_a_spec bs f fo1 after (loop_a dated fuel bs f fo1 true fo1).
  Proof.
    intros H after. induction after as [|l r IH]; intros before fuel W FU f fo1.
    - destruct fuel; [cbn in FU; lia|]. cbn [loop_a]. unfold loop_a_spec. cbn.
      subst f fo1. rewrite app_nil_r. rewrite find_line_at_end. reflexivity.
    - destruct fuel; [cbn in FU; lia|]. cbn [loop_a].
      assert (PL : 0 < lenN l).
      { apply wf_lines_app_r in W. destruct W as (H1 & _). destruct l; [congruence|rewrite lenN_cons; lia]. }
      destruct (find_line_at bs before l r fo1 H W ltac:(subst fo1; lia) ltac:(subst fo1; lia)) as (ln & R & LR).
      fold f in R, LR. fold fo1 in R, LR. rewrite R.
      destruct LR as (LR1 & LR2 & LR3). rewrite LR1. unfold loop_a_spec. rewrite groups_cons.
      destruct (dated l) as [t|] eqn:D.
      + cbn [fst snd concat]. rewrite LR3. exists l, ln. split; [reflexivity|].
        cbv zeta. replace (fo1 + lenN (@nil N)) with fo1 by (cbn; lia).
        split; [do 2 f_equal; lia|]. unfold line_repr. auto.
      + rewrite LR2. replace (N.max fo1 (fo1 + lenN l)) with (fo1 + lenN l) by lia.
        assert (E : before ++ l :: r = (before ++ [l]) ++ r) by (rewrite <- app_assoc; reflexivity).
        specialize (IH (before ++ [l]) fuel). rewrite <- E in IH.
        specialize (IH W ltac:(cbn in FU; lia)). cbv zeta in IH. fold f in IH.
        assert (P : lenN (concat (before ++ [l])) = fo1 + lenN l).
        { rewrite concat_app_len. cbn [concat]. rewrite app_nil_r. reflexivity. }
        rewrite P in IH. unfold loop_a_spec in IH. cbn [fst snd].
        destruct (snd (groups dated r)) as [|[t gl] gs]; [exact IH|].
        destruct IH as (l' & ln' & HD & RR & LR'). exists l', ln'. split; [exact HD|].
        cbv zeta. cbn [concat]. rewrite lenN_app.
        replace (fo1 + (lenN l + lenN (concat (fst (groups dated r)))))
          with (fo1 + lenN l + lenN (concat (fst (groups dated r)))) by lia.
        split; assumption.
  Qed.

  (* loop A started at a line start that is either offset 0 or a dated line *)
  Lemma loop_a_start bs : 0 < bs -> forall after before fuel,
    wf_lines (before ++ after) ->
    (length after + 2 < fuel)%nat ->
    before = [] \/ fst (groups dated after) = [] ->
    let f := concat (before ++ after) in
    let fo := lenN (concat before) in
    loop_a_spec bs f fo after (loop_a dated fuel bs f fo false 0).
  Proof.
    intros H after before fuel W FU ST f fo.
    destruct after as [|l r].
    - destruct fuel; [lia|]. cbn [loop_a]. unfold loop_a_spec. cbn.
      subst f fo. rewrite app_nil_r. rewrite find_line_at_end. reflexivity.
    - destruct fuel as [|fuel]; [lia|]. cbn [loop_a].
      assert (PL : 0 < lenN l).
      { apply wf_lines_app_r in W. destruct W as (H1 & _). destruct l; [congruence|rewrite lenN_cons; lia]. }
      destruct (find_line_at bs before l r fo H W ltac:(subst fo; lia) ltac:(subst fo; lia)) as (ln & R & LR).
      fold f in R, LR. fold fo in R, LR. rewrite R.
      destruct LR as (LR1 & LR2 & LR3). rewrite LR1.
      destruct (dated l) as [t|] eqn:D.
      + unfold loop_a_spec. rewrite groups_cons, D. cbn [fst snd concat]. rewrite LR3.
        exists l, ln. split; [reflexivity|]. cbv zeta.
        replace (fo + lenN (@nil N)) with fo by (cbn; lia).
        split; [do 2 f_equal; lia|]. unfold line_repr. auto.
      + destruct ST as [ST|ST]; [|rewrite groups_cons, D in ST; discriminate].
        subst before. cbn [app concat] in *.
        assert (fo = 0) by (subst fo; reflexivity).
        rewrite LR2. rewrite H0. cbn [N.ltb N.compare]. replace (1 <? 0) with false by reflexivity.
        replace (N.max 0 (0 + lenN l)) with (lenN l) by lia.
        (* second visit of the line at offset 0, now with fo_zero_tried *)
        destruct fuel as [|fuel]; [cbn in FU; lia|]. cbn [loop_a].
        rewrite H0 in R. rewrite R, LR1, D, LR2.
        replace (N.max (lenN l) (0 + lenN l)) with (lenN l) by lia.
        pose proof (loop_a_fwd bs H r [l] fuel) as FW. cbn [app] in FW.
        specialize (FW W ltac:(cbn in FU; lia)). cbv zeta in FW. fold f in FW.
        replace (lenN (concat [l])) with (lenN l) in FW by (cbn [concat]; rewrite app_nil_r; reflexivity).
        unfold loop_a_spec in *. rewrite groups_cons, D. cbn [fst snd].
        destruct (snd (groups dated r)) as [|[t gl] gs]; [exact FW|].
        destruct FW as (l' & ln' & HD & RR & LR'). exists l', ln'. split; [exact HD|].
        cbv zeta. cbn [concat]. rewrite lenN_app.
        replace (0 + (lenN l + lenN (concat (fst (groups dated r)))))
          with (lenN l + lenN (concat (fst (groups dated r)))) by lia.
        split; assumption.
  Qed.

  (* ---------------------------------------------------------------- find_sysline, forwards *)

  Definition sysline_repr (bs : N) (f : file) (sl : sysline) (b : N) (g : group) : Prop :=
    fst sl = fst g /\ lines_repr bs f (snd sl) b (snd g).

  (* s = offset of the first dated line among `after`; the result is the first group *)
  Definition find_sysline_spec (bs : N) (f : file) (fo : N) (after : list (list N))
             (r : res (N * sysline)) : Prop :=
    match snd (groups dated after) with
    | [] => r = Done
    | g :: _ =>
        let s := fo + lenN (concat (fst (groups dated after))) in
        exists sl, r = Found (s + lenN (group_bytes g), sl) /\ sysline_repr bs f sl s g
    end.

  Lemma groups_decomp after t gl gs : snd (groups dated after) = (t, gl) :: gs ->
    exists l r, after = fst (groups dated after) ++ l :: r /\ dated l = Some t /\
                gl = l :: fst (groups dated r) /\ gs = snd (groups dated r).
  Proof.
    induction after as [|x after IH]; [discriminate|].
    rewrite groups_cons. destruct (dated x) as [t'|] eqn:D; cbn [fst snd].
    - intro E. inversion E; subst. exists x, after. auto.
    - intro E. destruct (IH E) as (l & r & E1 & E2 & E3 & E4).
      exists l, r. cbn [app]. repeat split; auto. congruence.
  Qed.

  Lemma find_sysline_fwd bs : 0 < bs -> forall after before fuel,
    wf_lines (before ++ after) ->
    (length after + 2 < fuel)%nat ->
    before = [] \/ fst (groups dated after) = [] ->
    let f := concat (before ++ after) in
    let fo := lenN (concat before) in
    find_sysline_spec bs f fo after (find_sysline_fuel dated fuel bs f fo).
  Proof.
    intros H after before fuel W FU ST f fo.
    pose proof (loop_a_start bs H after before fuel W FU ST) as LA. cbv zeta in LA. fold f fo in LA.
    unfold find_sysline_fuel, find_sysline_spec. unfold loop_a_spec in LA.
    destruct (snd (groups dated after)) as [|[t gl] gs] eqn:G.
    - rewrite LA. reflexivity.
    - destruct LA as (l & ln & HD & RA & LR). cbv zeta in RA, LR. rewrite RA.
      destruct (groups_decomp after t gl gs G) as (l0 & r & E1 & E2 & E3 & E4).
      subst gl. cbn in HD. inversion HD; subst l0. clear HD.
      set (u := fst (groups dated after)) in *.
      (* loop B runs over r *)
      assert (EA : before ++ after = (before ++ u ++ [l]) ++ r).
      { rewrite E1. rewrite <- !app_assoc. reflexivity. }
      pose proof (loop_b_ok bs H r (before ++ u ++ [l]) fuel [ln]) as LB.
      rewrite <- EA in LB. specialize (LB W).
      assert (FU2 : (length r < fuel)%nat).
      { rewrite E1 in FU. rewrite app_length in FU. cbn [length] in FU. lia. }
      specialize (LB FU2). cbv zeta in LB. fold f in LB.
      assert (P : lenN (concat (before ++ u ++ [l])) = fo + lenN (concat u) + lenN l).
      { rewrite !concat_app_len. cbn [concat]. rewrite app_nil_r. subst fo. lia. }
      rewrite P in LB. destruct LB as (lns & RB & LRB). rewrite RB.
      exists (t, [ln] ++ lns). cbv zeta. unfold group_bytes. cbn [snd concat]. rewrite lenN_app.
      split; [do 2 f_equal; lia|].
      unfold sysline_repr. cbn [fst snd]. split; [reflexivity|].
      cbn [app lines_repr]. split; [exact LR|exact LRB].
  Qed.

  Lemma fuel_enough (ls : list (list N)) after before : wf_lines (before ++ after) ->
    (length after + 2 < 2 * length (concat (before ++ after)) + 3)%nat.
  Proof.
    intro W. pose proof (wf_lines_len _ W) as L. rewrite app_length in L. lia.
  Qed.

  (* ---------------------------------------------------------------- the stage driver *)

  Fixpoint sls_repr (bs : N) (f : file) (sls : list sysline) (b : N) (gs : list group) : Prop :=
    match sls, gs with
    | [], [] => True
    | sl :: sls', g :: gs' => sysline_repr bs f sl b g /\ sls_repr bs f sls' (b + lenN (group_bytes g)) gs'
    | _, _ => False
    end.

  Lemma lines_repr_end bs f lns b ls : lines_repr bs f lns b ls -> lns <> [] ->
    (forall l, In l ls -> 0 < lenN l) ->
    match rev lns with
    | [] => False
    | ln :: _ => line_fo_end bs ln = Some (b + lenN (concat ls) - 1)
    end.
  Proof.
    revert b ls; induction lns as [|x lns IH]; intros b [|l ls] R NE POS; cbn in R; try contradiction; try congruence.
    destruct R as [(R1 & R2 & R3) R4]. cbn [rev].
    destruct lns as [|y lns].
    - destruct ls; [|contradiction]. cbn. rewrite app_nil_r. exact R3.
    - specialize (IH _ _ R4 ltac:(discriminate) ltac:(intros l0 I0; apply POS; right; exact I0)).
      destruct (rev (y :: lns)) as [|z zs] eqn:RV; [contradiction|].
      cbn [app]. rewrite IH. cbn [concat]. rewrite lenN_app. f_equal. lia.
  Qed.

  Lemma wf_lines_pos ls : wf_lines ls -> forall l, In l ls -> 0 < lenN l.
  Proof.
    induction ls as [|x ls IH]; intros W l I; [contradiction|].
    destruct W as (H1 & _ & _ & W). destruct I as [->|I]; [|apply IH; assumption].
    destruct l; [congruence|rewrite lenN_cons; lia].
  Qed.

  Lemma stream_loop_ok bs : 0 < bs -> forall fuel after before acc,
    wf_lines (before ++ after) ->
    (length after < fuel)%nat ->
    before = [] \/ fst (groups dated after) = [] ->
    let f := concat (before ++ after) in
    let fo := lenN (concat before) in
    exists sls, stream_loop dated fuel bs f fo acc = Found (acc ++ sls) /\
                sls_repr bs f sls (fo + lenN (concat (fst (groups dated after)))) (snd (groups dated after)).
  Proof.
    intros H fuel. induction fuel as [|fuel IH]; intros after before acc W FU ST f fo; [lia|].
    cbn [stream_loop]. unfold find_sysline_m.
    pose proof (find_sysline_fwd bs H after before (2 * length f + 3) W) as FS.
    specialize (FS ltac:(subst f; apply (fuel_enough after); exact W) ST). cbv zeta in FS. fold f fo in FS.
    unfold find_sysline_spec in FS.
    destruct (snd (groups dated after)) as [|[t gl] gs] eqn:G.
    - rewrite FS. exists []. rewrite app_nil_r. split; [reflexivity|exact I].
    - destruct FS as (sl & R & SR). cbv zeta in R, SR. rewrite R.
      destruct (groups_decomp after t gl gs G) as (l & r & E1 & E2 & E3 & E4).
      set (u := fst (groups dated after)) in *.
      destruct (groups_fst_split r) as (rest & F1 & F2 & F3 & _).
      set (c := fst (groups dated r)) in *.
      (* end offset of the sysline *)
      assert (WA : wf_lines after) by (eapply wf_lines_app_r; exact W).
      assert (POS : forall x, In x gl -> 0 < lenN x).
      { intros x IX. apply (wf_lines_pos after WA). rewrite E1. subst gl.
        apply in_or_app. right. destruct IX as [->|IX]; [left; reflexivity|].
        right. rewrite F1. apply in_or_app. left. exact IX. }
      destruct SR as (SR1 & SR2). cbn [fst snd] in SR1, SR2.
      assert (NE : snd sl <> []).
      { subst gl. destruct (snd sl); [cbn in SR2; contradiction|discriminate]. }
      pose proof (lines_repr_end bs f (snd sl) _ gl SR2 NE POS) as LE.
      assert (PG : 0 < lenN (concat gl)).
      { subst gl. cbn [concat]. rewrite lenN_app. specialize (POS l ltac:(left; reflexivity)). lia. }
      assert (LF : lenN f = fo + lenN (concat u) + lenN (concat gl) + lenN (concat rest)).
      { subst f fo. rewrite concat_app_len. rewrite E1 at 1. rewrite concat_app_len.
        replace (l :: r) with ((l :: c) ++ rest) by (cbn [app]; rewrite <- F1; reflexivity).
        rewrite concat_app_len. rewrite <- E3. lia. }
      unfold is_sysline_last, sysline_fo_end, fileoffset_last.
      destruct (rev (snd sl)) as [|lz zs]; [contradiction|]. rewrite LE.
      destruct (N.eqb_spec (lenN f) 0) as [Z|Z]; [lia|].
      unfold group_bytes. cbn [snd].
      destruct (N.eqb_spec (fo + lenN (concat u) + lenN (concat gl) - 1) (lenN f - 1)) as [EL|EL].
      + (* last sysline of the file *)
        assert (rest = []).
        { destruct rest as [|x rest]; [reflexivity|]. exfalso.
          assert (0 < lenN x).
          { apply (wf_lines_pos after WA). rewrite E1. apply in_or_app. right. right.
            rewrite F1. apply in_or_app. right. left. reflexivity. }
          cbn [concat] in LF. rewrite lenN_app in LF. lia. }
        subst rest. exists [sl]. split; [reflexivity|].
        cbn [sls_repr]. split; [split; [exact SR1|exact SR2]|].
        rewrite E4, <- F2. cbn. exact I.
      + (* continue at fo_next *)
        assert (EB : before ++ after = (before ++ u ++ (l :: c)) ++ rest).
        { rewrite E1. rewrite <- !app_assoc. cbn [app]. rewrite <- F1. reflexivity. }
        specialize (IH rest (before ++ u ++ (l :: c)) (acc ++ [sl])).
        rewrite <- EB in IH. specialize (IH W).
        assert (FU2 : (length rest < fuel)%nat).
        { rewrite E1 in FU. rewrite app_length in FU. cbn [length] in FU.
          rewrite F1 in FU. rewrite app_length in FU. lia. }
        specialize (IH FU2 (or_intror F3)). cbv zeta in IH. fold f in IH.
        assert (P : lenN (concat (before ++ u ++ l :: c)) = fo + lenN (concat u) + lenN (concat gl)).
        { rewrite !concat_app_len. subst gl fo. lia. }
        rewrite P in IH. rewrite F3 in IH. cbn [concat] in IH.
        destruct IH as (sls & RS & SS). exists (sl :: sls). split.
        * rewrite RS. rewrite <- app_assoc. reflexivity.
        * cbn [sls_repr]. split; [split; [exact SR1|exact SR2]|].
          unfold group_bytes. cbn [snd]. rewrite E4, <- F2.
          replace (fo + lenN (concat u) + lenN (concat gl) + lenN (@nil N))
            with (fo + lenN (concat u) + lenN (concat gl)) in SS by (cbn; lia).
          exact SS.
  Qed.

  (* ---------------------------------------------------------------- loop A, backwards *)

  (* the last dated line of ls, if any: ls = p ++ d :: q, dated d = Some t, q undated *)
  Inductive last_dated : list (list N) -> option (list (list N) * Z * list N) -> Prop :=
  | LD_none ls : (forall u, In u ls -> dated u = None) -> last_dated ls None
  | LD_some p d t q : dated d = Some t -> (forall u, In u q -> dated u = None) ->
                      last_dated (p ++ d :: q) (Some (p, t, d)).

  Lemma last_dated_nil ld : last_dated [] ld -> ld = None.
  Proof.
    intro LD. inversion LD as [ls U E|p d t q DD U E]; [reflexivity|].
    destruct p; discriminate.
  Qed.

  Lemma last_dated_dated_end cur l t ld : last_dated (cur ++ [l]) ld -> dated l = Some t ->
    ld = Some (cur, t, l).
  Proof.
    intros LD D. inversion LD as [ls U E|p d t' q DD U E]; subst.
    - rewrite (U l) in D by (apply in_or_app; right; left; reflexivity). discriminate.
    - destruct q as [|x q _] using rev_ind.
      + apply app_inj_tail in E as [E1 E2]. subst. congruence.
      + rewrite app_comm_cons, app_assoc in E. apply app_inj_tail in E as [E1 E2]. subst.
        rewrite (U l) in D by (apply in_or_app; right; left; reflexivity). discriminate.
  Qed.

  Lemma last_dated_undated_end cur l ld : last_dated (cur ++ [l]) ld -> dated l = None ->
    last_dated cur ld.
  Proof.
    intros LD D. inversion LD as [ls U E|p d t q DD U E]; subst.
    - constructor. intros u I0. apply U. apply in_or_app. left. exact I0.
    - destruct q as [|x q _] using rev_ind.
      + apply app_inj_tail in E as [E1 E2]. subst. congruence.
      + rewrite app_comm_cons, app_assoc in E. apply app_inj_tail in E as [E1 E2]. subst.
        constructor; [exact DD|]. intros u I0. apply U. apply in_or_app. left. exact I0.
  Qed.

  (* what loop A returns when it has walked back to the lines `cur` (the last of which it is
     inspecting); E = end + 1 of the line the search started from *)
  Definition loop_a_any (bs : N) (f : file) (cur : list (list N)) (E : N) (after : list (list N))
             (r : res (Z * line * N)) : Prop :=
    forall ld, last_dated cur ld ->
    match ld with
    | Some (p, t, d) =>
        exists ln, r = Found (t, ln, lenN (concat p) + lenN d) /\ line_repr bs f ln (lenN (concat p)) d
    | None => loop_a_spec bs f E after r
    end.

  Lemma concat_nil_lines ls : wf_lines ls -> lenN (concat ls) = 0 -> ls = [].
  Proof.
    intros W Z. destruct ls as [|l ls]; [reflexivity|]. exfalso.
    pose proof (wf_lines_pos _ W l ltac:(left; reflexivity)). cbn [concat] in Z. rewrite lenN_app in Z. lia.
  Qed.

  (* the revisit of offset 0 with fo_zero_tried, then forwards from E *)
  Lemma loop_a_zero bs : 0 < bs -> forall l0 q after fuel E,
    wf_lines (l0 :: q ++ after) ->
    (length after + 1 < fuel)%nat ->
    (forall u, In u q -> dated u = None) ->
    let f := concat (l0 :: q ++ after) in
    E = lenN (concat (l0 :: q)) ->
    match dated l0 with
    | Some t => exists ln, loop_a dated fuel bs f 0 true E = Found (t, ln, 0 + lenN l0) /\
                           line_repr bs f ln 0 l0
    | None => loop_a_spec bs f E after (loop_a dated fuel bs f 0 true E)
    end.
  Proof.
    intros H l0 q after fuel E W FU UQ f EE.
    destruct fuel as [|fuel]; [lia|]. cbn [loop_a].
    assert (PL : 0 < lenN l0) by (apply (wf_lines_pos _ W); left; reflexivity).
    destruct (find_line_at bs [] l0 (q ++ after) 0 H W ltac:(cbn; lia) ltac:(cbn; lia)) as (ln & R & LR).
    cbn [app] in R, LR. fold f in R, LR. replace (lenN (concat [])) with 0 in * by reflexivity.
    rewrite R. destruct LR as (LR1 & LR2 & LR3). rewrite LR1.
    assert (EL : lenN l0 <= E) by (rewrite EE; cbn [concat]; rewrite lenN_app; lia).
    destruct (dated l0) as [t|] eqn:D.
    - rewrite LR3. exists ln. split; [do 2 f_equal; lia|]. unfold line_repr. auto.
    - rewrite LR2. replace (N.max E (0 + lenN l0)) with E by lia.
      pose proof (loop_a_fwd bs H after (l0 :: q) fuel) as FW.
      assert (EQ : (l0 :: q) ++ after = l0 :: q ++ after) by reflexivity.
      rewrite EQ in FW. specialize (FW W ltac:(lia)). cbv zeta in FW. fold f in FW.
      rewrite <- EE in FW. exact FW.
  Qed.

  Lemma loop_a_bwd bs : 0 < bs -> forall before l q after fuel fo1 M,
    wf_lines (before ++ l :: q ++ after) ->
    (forall u, In u q -> dated u = None) ->
    (length before + length after + 3 < fuel)%nat ->
    let f := concat (before ++ l :: q ++ after) in
    let b := lenN (concat before) in
    let E := lenN (concat (before ++ l :: q)) in
    b <= fo1 -> fo1 < b + lenN l -> N.max M (b + lenN l) = E ->
    loop_a_any bs f (before ++ [l]) E after (loop_a dated fuel bs f fo1 false M).
  Proof.
    intros H before. induction before as [|l' before IH] using rev_ind;
      intros l q after fuel fo1 M W UQ FU f b E L1 L2 ME ld LD.
    - (* l is the first line of the file *)
      cbn [app] in *. destruct fuel as [|fuel]; [lia|]. cbn [loop_a].
      destruct (find_line_at bs [] l (q ++ after) fo1 H W L1 L2) as (ln & R & LR).
      cbn [app] in R, LR. fold f in R, LR. fold b in R, LR. rewrite R.
      assert (B0 : b = 0) by reflexivity.
      destruct LR as (LR1 & LR2 & LR3). rewrite LR1.
      destruct (dated l) as [t|] eqn:D.
      + rewrite (last_dated_dated_end [] l t ld LD D). rewrite LR3.
        exists ln. cbn [concat]. replace (lenN (@nil N)) with 0 by reflexivity. rewrite B0 in *.
        split; [do 2 f_equal; lia|]. unfold line_repr. auto.
      + apply (last_dated_undated_end [] l) in LD; [|exact D]. apply last_dated_nil in LD. subst ld.
        rewrite LR2, ME, B0. replace (1 <? 0) with false by reflexivity.
        pose proof (loop_a_zero bs H l q after fuel E W ltac:(cbn in FU; lia) UQ) as Z0.
        cbv zeta in Z0. fold f in Z0. specialize (Z0 eq_refl). rewrite D in Z0. exact Z0.
    - (* l' precedes l *)
      destruct fuel as [|fuel]; [lia|]. cbn [loop_a].
      destruct (find_line_at bs (before ++ [l']) l (q ++ after) fo1 H W L1 L2) as (ln & R & LR).
      fold f in R, LR. fold b in R, LR. rewrite R.
      destruct LR as (LR1 & LR2 & LR3). rewrite LR1.
      assert (WP : forall x, In x (before ++ [l']) -> 0 < lenN x).
      { intros x IX. apply (wf_lines_pos _ W). apply in_or_app. left. exact IX. }
      assert (PL' : 0 < lenN l') by (apply WP; apply in_or_app; right; left; reflexivity).
      assert (BB : b = lenN (concat before) + lenN l').
      { subst b. rewrite concat_app_len. cbn [concat]. rewrite app_nil_r. reflexivity. }
      assert (BE : b + lenN l <= E).
      { subst E b. rewrite (concat_app_len (before ++ [l']) (l :: q)). cbn [concat]. rewrite lenN_app. lia. }
      destruct (dated l) as [t|] eqn:D.
      + rewrite (last_dated_dated_end _ l t ld LD D). rewrite LR3.
        exists ln. fold b. split; [do 2 f_equal; lia|]. unfold line_repr. auto.
      + apply last_dated_undated_end in LD; [|exact D].
        rewrite LR2. rewrite ME.
        assert (W' : wf_lines (before ++ l' :: (l :: q) ++ after)).
        { rewrite <- app_assoc in W. exact W. }
        assert (F' : concat (before ++ l' :: (l :: q) ++ after) = f).
        { subst f. rewrite <- app_assoc. reflexivity. }
        assert (E' : lenN (concat (before ++ l' :: l :: q)) = E).
        { subst E. rewrite <- app_assoc. reflexivity. }
        assert (UQ' : forall u, In u (l :: q) -> dated u = None).
        { intros u [<-|IU]; [exact D|apply UQ; exact IU]. }
        destruct (N.ltb_spec 1 b) as [B1|B1].
        * (* step back into l' *)
          specialize (IH l' (l :: q) after fuel (b - 1) E W' UQ').
          rewrite F', E' in IH. apply IH; [rewrite app_length in FU; cbn [length] in FU; lia|lia|lia|lia|exact LD].
        * (* b = 1: l' is a one-byte first line; offset 0 is tried next *)
          assert (before = []).
          { apply concat_nil_lines; [|lia].
            clear - W. induction before as [|x before IHb]; [exact I|].
            cbn [app wf_lines] in *. destruct W as (A & B & C & W). repeat split; auto.
            intro NE. apply C. destruct before; discriminate. }
          subst before. cbn [app] in *.
          pose proof (loop_a_zero bs H l' (l :: q) after fuel E W' ltac:(cbn in FU; lia) UQ') as Z0.
          cbv zeta in Z0. change (concat (l' :: (l :: q) ++ after)) with f in Z0.
          specialize (Z0 (eq_sym E')).
          destruct (dated l') as [t|] eqn:D'.
          -- rewrite (last_dated_dated_end [] l' t ld LD D').
             destruct Z0 as (ln0 & R0 & LR0). exists ln0. cbn [concat].
             replace (lenN (@nil N)) with 0 by reflexivity. split; assumption.
          -- apply (last_dated_undated_end [] l') in LD; [|exact D']. apply last_dated_nil in LD. subst ld.
             exact Z0.
  Qed.

  (* ---------------------------------------------------------------- find_sysline, any offset *)

  Lemma last_dated_total ls : exists r, last_dated ls r.
  Proof.
    induction ls as [|l ls IH] using rev_ind.
    - exists None. constructor. intros u [].
    - destruct (dated l) as [t|] eqn:D.
      + exists (Some (ls, t, l)). apply (LD_some ls l t []); [exact D|intros u []].
      + destruct IH as (r & LD). destruct LD as [ls U|p d t q DD U].
        * exists None. constructor. intros u I0. apply in_app_or in I0 as [I0|[<-|[]]]; auto.
        * exists (Some (p, t, d)). rewrite <- app_assoc. cbn [app].
          apply (LD_some p d t (q ++ [l])); [exact DD|].
          intros u I0. apply in_app_or in I0 as [I0|[<-|[]]]; auto.
  Qed.

  Lemma last_dated_shape ls p t d : last_dated ls (Some (p, t, d)) ->
    exists q, ls = p ++ d :: q /\ dated d = Some t /\ (forall u, In u q -> dated u = None).
  Proof. intro LD. inversion LD; subst. eauto. Qed.

  Lemma last_dated_none ls : last_dated ls None -> forall u, In u ls -> dated u = None.
  Proof. intro LD. inversion LD; subst. assumption. Qed.

  Lemma groups_undated_app q r : (forall u, In u q -> dated u = None) ->
    groups dated (q ++ r) = (q ++ fst (groups dated r), snd (groups dated r)).
  Proof.
    induction q as [|x q IH]; intro U.
    - cbn [app]. destruct (groups dated r); reflexivity.
    - cbn [app]. rewrite groups_cons, (U x) by (left; reflexivity).
      rewrite IH by (intros u I0; apply U; right; exact I0). reflexivity.
  Qed.

  Lemma groups_app_dated p r : fst (groups dated r) = [] ->
    groups dated (p ++ r) = (fst (groups dated p), snd (groups dated p) ++ snd (groups dated r)).
  Proof.
    intro F. induction p as [|x p IH].
    - cbn [app groups fst snd]. destruct (groups dated r) as [u gs]. cbn in F. subst u. reflexivity.
    - cbn [app]. rewrite !groups_cons, IH. cbn [fst snd].
      destruct (dated x); [|reflexivity]. cbn [fst snd app].
      (* the undated lines that trail the last group of p stay with it: p's own tail *)
      reflexivity.
  Qed.

  Lemma locate ls fo : wf_lines ls -> fo < lenN (concat ls) ->
    exists before l after, ls = before ++ l :: after /\
      lenN (concat before) <= fo /\ fo < lenN (concat before) + lenN l.
  Proof.
    revert fo; induction ls as [|x ls IH]; intros fo W L; [cbn in L; lia|].
    cbn [concat] in L. rewrite lenN_app in L.
    destruct (N.lt_ge_cases fo (lenN x)) as [C|C].
    - exists [], x, ls. cbn. repeat split; lia.
    - destruct W as (_ & _ & _ & W).
      destruct (IH (fo - lenN x) W ltac:(lia)) as (b & l & a & E1 & E2 & E3).
      exists (x :: b), l, a. subst ls. cbn [app concat]. rewrite lenN_app. repeat split; lia.
  Qed.

  (* loop B after a successful loop A *)
  Lemma finish_sysline bs : 0 < bs -> forall after before fuel ra,
    wf_lines (before ++ after) ->
    (length after < fuel)%nat ->
    let f := concat (before ++ after) in
    let fo1 := lenN (concat before) in
    loop_a_spec bs f fo1 after ra ->
    find_sysline_spec bs f fo1 after
      (match ra with
       | Found (dt, ln, fo1') =>
           match loop_b dated fuel bs f fo1' [ln] with
           | Found (fo_b, lns) => Found (fo_b, (dt, lns))
           | Done => Done | OutOfFuel => OutOfFuel | Panic => Panic
           end
       | Done => Done | OutOfFuel => OutOfFuel | Panic => Panic
       end).
  Proof.
    intros H after before fuel ra W FU f fo LA.
    unfold find_sysline_spec. unfold loop_a_spec in LA.
    destruct (snd (groups dated after)) as [|[t gl] gs] eqn:G.
    - rewrite LA. reflexivity.
    - destruct LA as (l & ln & HD & RA & LR). cbv zeta in RA, LR. rewrite RA.
      destruct (groups_decomp after t gl gs G) as (l0 & r & E1 & E2 & E3 & E4).
      subst gl. cbn in HD. inversion HD; subst l0. clear HD.
      set (u := fst (groups dated after)) in *.
      assert (EA : before ++ after = (before ++ u ++ [l]) ++ r).
      { rewrite E1. rewrite <- !app_assoc. reflexivity. }
      pose proof (loop_b_ok bs H r (before ++ u ++ [l]) fuel [ln]) as LB.
      rewrite <- EA in LB. specialize (LB W).
      assert (FU2 : (length r < fuel)%nat).
      { rewrite E1 in FU. rewrite app_length in FU. cbn [length] in FU. lia. }
      specialize (LB FU2). cbv zeta in LB. fold f in LB.
      assert (P : lenN (concat (before ++ u ++ [l])) = fo + lenN (concat u) + lenN l).
      { rewrite !concat_app_len. cbn [concat]. rewrite app_nil_r. subst fo. lia. }
      rewrite P in LB. destruct LB as (lns & RB & LRB). rewrite RB.
      exists (t, [ln] ++ lns). cbv zeta. unfold group_bytes. cbn [snd concat]. rewrite lenN_app.
      split; [do 2 f_equal; lia|].
      unfold sysline_repr. cbn [fst snd]. split; [reflexivity|].
      cbn [app lines_repr]. split; [exact LR|exact LRB].
  Qed.

  (* spec side: picking a group by offset *)
  Definition total (gs : list group) : N := lenN (concat (map group_bytes gs)).

  Lemma pick_group_skip fo o a g c :
    o + total a <= fo -> fo < o + total a + lenN (group_bytes g) ->
    pick_group fo (with_offsets o (a ++ g :: c)) =
    Some (o + total a + lenN (group_bytes g), o + total a, g).
  Proof.
    revert o; induction a as [|x a IH]; intros o L1 L2.
    - unfold total in *. cbn [map concat app with_offsets pick_group] in *.
      replace (o + lenN (@nil N)) with o in * by (cbn; lia).
      destruct (N.ltb_spec fo (o + lenN (group_bytes g))); [reflexivity|lia].
    - unfold total in *. cbn [map concat app with_offsets pick_group] in *. rewrite lenN_app in *.
      destruct (N.ltb_spec fo (o + lenN (group_bytes x))); [lia|].
      rewrite IH by lia. do 3 f_equal; lia.
  Qed.

  Lemma pick_group_first fo o g c : fo < o + lenN (group_bytes g) ->
    pick_group fo (with_offsets o (g :: c)) = Some (o + lenN (group_bytes g), o, g).
  Proof.
    intro L. cbn [with_offsets pick_group].
    destruct (N.ltb_spec fo (o + lenN (group_bytes g))); [reflexivity|lia].
  Qed.

  Lemma pick_group_none fo o gs : o + total gs <= fo -> pick_group fo (with_offsets o gs) = None.
  Proof.
    revert o; induction gs as [|x gs IH]; intros o L; [reflexivity|].
    unfold total in *. cbn [map concat with_offsets pick_group] in *. rewrite lenN_app in L.
    destruct (N.ltb_spec fo (o + lenN (group_bytes x))); [lia|]. apply IH. lia.
  Qed.

  Lemma groups_total ls :
    lenN (concat (fst (groups dated ls))) + total (snd (groups dated ls)) = lenN (concat ls).
  Proof. unfold total. rewrite <- lenN_app, groups_concat. reflexivity. Qed.

  (* what the caller observes of find_sysline *)
  Definition obs_sysline (bs : N) (f : file) (sl : sysline) : group :=
    (fst sl, map (bytes_of bs f) (snd sl)).

  Definition obs_find_sysline (bs : N) (f : file) (r : res (N * sysline)) : option (N * N * group) :=
    match r with
    | Found (fo_next, sl) =>
        match sysline_fo_begin bs sl with
        | Some b => Some (fo_next, b, obs_sysline bs f sl)
        | None => None
        end
    | _ => None
    end.

  Lemma sysline_repr_obs bs f sl b g n : sysline_repr bs f sl b g -> snd g <> [] ->
    obs_find_sysline bs f (Found (n, sl)) = Some (n, b, g).
  Proof.
    intros (R1 & R2) NE. unfold obs_find_sysline, sysline_fo_begin, obs_sysline.
    rewrite (lines_repr_bytes _ _ _ _ _ R2), R1.
    destruct (snd sl) as [|ln lns]; destruct (snd g) as [|l ls] eqn:G; cbn in R2; try contradiction; try congruence.
    destruct R2 as ((_ & B & _) & _). rewrite B. destruct g as [t gl]. cbn in G. subst gl. reflexivity.
  Qed.

  Theorem find_sysline_correct bs (f : file) fo : 0 < bs ->
    obs_find_sysline bs f (find_sysline_m dated bs f fo) = spec_find_sysline dated f fo.
  Proof.
    intro H. unfold spec_find_sysline, syslines_at, first_dated_offset, leading, syslines.
    pose proof (lines_wf f) as W. pose proof (lines_concat f) as CF.
    pose proof (groups_total (lines f)) as GT. rewrite CF in GT.
    destruct (N.lt_ge_cases fo (lenN f)) as [L|L].
    2:{ (* past the end *)
      rewrite pick_group_none by lia.
      unfold find_sysline_m, find_sysline_fuel.
      replace (2 * length f + 3)%nat with (S (2 * length f + 2)) by lia. cbn [loop_a].
      rewrite find_line_done by exact L. reflexivity. }
    rewrite <- CF in L. destruct (locate (lines f) fo W L) as (before & l & after & E & L1 & L2).
    unfold find_sysline_m, find_sysline_fuel.
    set (fuel := (2 * length f + 3)%nat).
    assert (LEN : (length (lines f) <= length f)%nat).
    { pose proof (wf_lines_len _ W). rewrite CF in H0. exact H0. }
    assert (PL : 0 < lenN l).
    { apply (wf_lines_pos _ W). rewrite E. apply in_or_app. right. left. reflexivity. }
    (* loop A *)
    pose proof (loop_a_bwd bs H before l [] after fuel fo 0) as LA. cbn [app] in LA.
    rewrite <- E in LA. specialize (LA W ltac:(intros u []%In_nil || (intros u [])) ).
    assert (FU : (length before + length after + 3 < fuel)%nat).
    { subst fuel. rewrite E in LEN. rewrite app_length in LEN. cbn [length] in LEN. lia. }
    specialize (LA FU). cbv zeta in LA. rewrite CF in LA.
    specialize (LA L1 L2).
    assert (ME : N.max 0 (lenN (concat before) + lenN l) = lenN (concat (before ++ [l]))).
    { rewrite concat_app_len. cbn [concat]. rewrite app_nil_r. lia. }
    specialize (LA ME).
    destruct (last_dated_total (before ++ [l])) as (ld & LD). specialize (LA ld LD).
    set (E1 := lenN (concat (before ++ [l]))) in *.
    assert (EE1 : E1 = lenN (concat before) + lenN l).
    { subst E1. rewrite concat_app_len. cbn [concat]. rewrite app_nil_r. reflexivity. }
    assert (SPLIT : lines f = (before ++ [l]) ++ after) by (rewrite E, <- app_assoc; reflexivity).
    destruct ld as [[[p t] d]|].
    - (* a dated line at or before the line of fo: its group *)
      destruct LA as (ln & RA & LR). rewrite RA.
      destruct (last_dated_shape _ _ _ _ LD) as (q & EQ & DD & UQ).
      set (rest := q ++ after).
      assert (SP2 : lines f = (p ++ [d]) ++ rest).
      { rewrite SPLIT, EQ. subst rest. rewrite <- !app_assoc. reflexivity. }
      pose proof (loop_b_ok bs H rest (p ++ [d]) fuel [ln]) as LB. rewrite <- SP2 in LB.
      specialize (LB W).
      assert (FU2 : (length rest < fuel)%nat).
      { subst fuel. rewrite SP2 in LEN. rewrite app_length in LEN. lia. }
      specialize (LB FU2). cbv zeta in LB. rewrite CF in LB.
      assert (P : lenN (concat (p ++ [d])) = lenN (concat p) + lenN d).
      { rewrite concat_app_len. cbn [concat]. rewrite app_nil_r. reflexivity. }
      rewrite P in LB. destruct LB as (lns & RB & LRB). rewrite RB.
      set (s := lenN (concat p)) in *.
      set (g := (t, d :: fst (groups dated rest)) : group).
      assert (GR : groups dated (lines f) =
                   (fst (groups dated p), snd (groups dated p) ++ g :: snd (groups dated rest))).
      { rewrite SP2, <- app_assoc. cbn [app]. rewrite (groups_app_dated p (d :: rest)).
        - rewrite groups_cons, DD. reflexivity.
        - rewrite groups_cons, DD. reflexivity. }
      rewrite GR in *. cbn [fst snd] in *.
      pose proof (groups_total p) as GP. fold s in GP.
      assert (UB : fst (groups dated rest) = q ++ fst (groups dated after)).
      { subst rest. rewrite groups_undated_app by exact UQ. reflexivity. }
      assert (BQ : E1 = s + lenN d + lenN (concat q)).
      { subst E1. rewrite EQ. rewrite concat_app_len. cbn [concat]. rewrite lenN_app. subst s. lia. }
      assert (GB : lenN (group_bytes g) = lenN d + lenN (concat (fst (groups dated rest)))).
      { subst g. unfold group_bytes. cbn [snd concat]. rewrite lenN_app. reflexivity. }
      assert (SB : s <= lenN (concat before)).
      { assert (lenN (concat before) + lenN l = s + lenN d + lenN (concat q)) by lia.
        destruct q as [|x q _] using rev_ind.
        - apply app_inj_tail in EQ as [EQ1 EQ2]. subst. lia.
        - rewrite app_comm_cons, app_assoc in EQ. apply app_inj_tail in EQ as [EQ1 EQ2]. subst.
          rewrite concat_app_len. cbn [concat]. rewrite lenN_app. subst s. lia. }
      rewrite (pick_group_skip fo _ (snd (groups dated p)) g (snd (groups dated rest))).
      + rewrite GP, GB, N.add_assoc.
        apply sysline_repr_obs; [|subst g; discriminate].
        unfold sysline_repr. cbn [fst snd]. split; [reflexivity|].
        cbn [app lines_repr]. split; [exact LR|exact LRB].
      + rewrite GP. lia.
      + rewrite GP, GB, UB, concat_app_len. lia.
    - (* no dated line at or before fo: the first group after it, if any *)
      pose proof (last_dated_none _ LD) as UN.
      pose proof (finish_sysline bs H after (before ++ [l]) fuel (loop_a dated fuel bs f fo false 0)) as FS.
      rewrite <- SPLIT in FS. specialize (FS W).
      assert (FU2 : (length after < fuel)%nat) by lia.
      specialize (FS FU2). cbv zeta in FS. rewrite CF in FS. fold E1 in FS.
      specialize (FS LA). unfold find_sysline_spec in FS.
      assert (GR : groups dated (lines f) =
                   ((before ++ [l]) ++ fst (groups dated after), snd (groups dated after))).
      { rewrite SPLIT. apply groups_undated_app. exact UN. }
      rewrite GR in *. cbn [fst snd] in *.
      destruct (snd (groups dated after)) as [|g gs] eqn:G.
      + rewrite FS. reflexivity.
      + destruct FS as (sl & R & SR). cbv zeta in R, SR. rewrite R.
        rewrite concat_app_len. fold E1.
        rewrite pick_group_first.
        * apply sysline_repr_obs; [exact SR|].
          destruct g as [t gl]. destruct (groups_decomp after t gl gs G) as (l0 & r & _ & _ & E3 & _).
          subst gl. discriminate.
        * destruct g as [t gl]. destruct (groups_decomp after t gl gs G) as (l0 & r & _ & _ & E3 & _).
          assert (0 < lenN (group_bytes (t, gl))).
          { subst gl. unfold group_bytes. cbn [snd concat]. rewrite lenN_app.
            assert (0 < lenN l0); [|lia].
            apply (wf_lines_pos _ W). rewrite SPLIT.
            apply in_or_app. right.
            destruct (groups_decomp after t (l0 :: fst (groups dated r)) gs G) as (l1 & r1 & EA & _ & EG & _).
            inversion EG; subst. rewrite EA. apply in_or_app. right. left. reflexivity. }
          lia.
  Qed.

  (* ---------------------------------------------------------------- observations *)

  Lemma sls_repr_obs bs f sls b gs : sls_repr bs f sls b gs -> map (obs_sysline bs f) sls = gs.
  Proof.
    revert b gs; induction sls as [|sl sls IH]; intros b [|g gs] R; cbn in R; try contradiction; [reflexivity|].
    destruct R as [(R1 & R2) R3]. cbn [map]. rewrite (IH _ _ R3). f_equal.
    unfold obs_sysline. rewrite (lines_repr_bytes _ _ _ _ _ R2), R1. destruct g; reflexivity.
  Qed.

  Definition obs_stream (bs : N) (f : file) (r : res (list sysline)) : option (list group) :=
    match r with
    | Found sls => Some (map (obs_sysline bs f) sls)
    | _ => None
    end.

  (* stream_complete: the messages handed to the printer are exactly the spec groups, in
     order (none dropped, repeated, split or merged); fuel |f|+1 suffices *)
  Theorem stream_groups bs (f : file) : 0 < bs ->
    obs_stream bs f (stream_m dated bs f) = Some (syslines dated f).
  Proof.
    intro H. unfold stream_m, syslines.
    pose proof (stream_loop_ok bs H (S (length f)) (lines f) [] []) as SL.
    cbn [app] in SL. specialize (SL (lines_wf f)).
    assert (FU : (length (lines f) < S (length f))%nat).
    { pose proof (wf_lines_len _ (lines_wf f)). rewrite lines_concat in H0. lia. }
    specialize (SL FU (or_introl eq_refl)). cbv zeta in SL. rewrite lines_concat in SL.
    destruct SL as (sls & R & SR). cbn [concat] in R. replace (lenN (@nil N)) with 0 in R by reflexivity.
    rewrite R. cbn [app obs_stream]. f_equal. eapply sls_repr_obs. exact SR.
  Qed.

  Theorem stream_bytes_suffix (f : file) :
    stream_bytes dated f = skipnN (first_dated_offset dated f) f.
  Proof.
    unfold stream_bytes, first_dated_offset, syslines, leading.
    pose proof (groups_concat (lines f)) as G. rewrite lines_concat in G.
    set (u := concat (fst (groups dated (lines f)))) in *.
    set (s := concat (map group_bytes (snd (groups dated (lines f))))) in *.
    clearbody u s. subst f. rewrite skipnN_app_len. reflexivity.
  Qed.

  Theorem printed_bytes (f : file) :
    let s := skipnN (first_dated_offset dated f) f in
    printed dated f = match s with [] => [] | _ => if ends_with_nl s then s else s ++ [NL] end.
  Proof. cbv zeta. unfold printed. rewrite stream_bytes_suffix. reflexivity. Qed.

  (* C12 core: nothing a caller observes depends on the block size *)
  Theorem reader_core_bs_independent bs1 bs2 (f : file) : 0 < bs1 -> 0 < bs2 ->
    (forall fo, obs_line bs1 f (find_line_m bs1 f fo) = obs_line bs2 f (find_line_m bs2 f fo)) /\
    (forall fo, obs_find_sysline bs1 f (find_sysline_m dated bs1 f fo) =
                obs_find_sysline bs2 f (find_sysline_m dated bs2 f fo)) /\
    obs_stream bs1 f (stream_m dated bs1 f) = obs_stream bs2 f (stream_m dated bs2 f).
  Proof.
    intros H1 H2. split; [|split].
    - intro fo. rewrite !find_line_spec by assumption. reflexivity.
    - intro fo. rewrite !find_sysline_correct by assumption. reflexivity.
    - rewrite !stream_groups by assumption. reflexivity.
  Qed.
End Dated.

(* the hypotheses are satisfiable, the statements are not vacuous *)
Example stream_example :
  let dated := fun l : list N => match l with 50 :: _ => Some 7%Z | _ => None end in
  obs_stream 3 [120; 10; 50; 48; 10; 32; 121; 10; 50; 49]
             (stream_m dated 3 [120; 10; 50; 48; 10; 32; 121; 10; 50; 49])
  = Some [(7%Z, [[50; 48; 10]; [32; 121; 10]]); (7%Z, [[50; 49]])].
Proof. vm_compute. reflexivity. Qed.

