(* Proofs/StableSort.v — the left-to-right insertion sort of Spec/RecordsSpec.v is a stable
   sort: its result is a permutation of the input, sorted, and elements of equal time keep
   their input order.  Generic in the element type and the (total, transitive) order. *)
From Coq Require Import List Bool Permutation Sorted.
Import ListNotations.
From S4.Spec Require Import RecordsSpec.

Section StableSortFacts.
  Variable A : Type.
  Variable tle : A -> A -> bool.
  Hypothesis tle_total : forall a b, tle a b = true \/ tle b a = true.
  Hypothesis tle_trans : forall a b c, tle a b = true -> tle b c = true -> tle a c = true.

  Definition le_prop (a b : A) : Prop := tle a b = true.
  Definition sorted (l : list A) : Prop := StronglySorted le_prop l.
  Definition same (z x : A) : bool := tle z x && tle x z.

  Lemma tle_refl a : tle a a = true.
  Proof. destruct (tle_total a a); assumption. Qed.

  Lemma insert_after_in x l y : In y (insert_after tle x l) <-> y = x \/ In y l.
  Proof.
    induction l as [|z r IH]; simpl.
    - intuition.
    - destruct (tle z x); simpl; rewrite ?IH; intuition.
  Qed.

  Lemma insert_after_perm x l : Permutation (insert_after tle x l) (x :: l).
  Proof.
    induction l as [|z r IH]; simpl.
    - apply Permutation_refl.
    - destruct (tle z x).
      + eapply Permutation_trans; [apply perm_skip; exact IH|apply perm_swap].
      + apply Permutation_refl.
  Qed.

  Lemma insert_after_length x l : length (insert_after tle x l) = S (length l).
  Proof. apply (Permutation_length (insert_after_perm x l)). Qed.

  Lemma insert_after_sorted x l : sorted l -> sorted (insert_after tle x l).
  Proof.
    unfold sorted. induction l as [|z r IH]; simpl; intro H.
    - constructor; constructor.
    - inversion H as [|? ? Hr Hz]; subst.
      destruct (tle z x) eqn:E.
      + constructor; [apply IH; exact Hr|].
        apply Forall_forall. intros y Hy. apply insert_after_in in Hy as [->|Hy].
        * exact E.
        * rewrite Forall_forall in Hz. apply Hz; exact Hy.
      + assert (Hxz : tle x z = true) by (destruct (tle_total x z); congruence).
        constructor; [exact H|].
        constructor; [exact Hxz|].
        rewrite Forall_forall in Hz. apply Forall_forall. intros y Hy.
        apply (tle_trans x z y); [exact Hxz|apply Hz; exact Hy].
  Qed.

  Lemma fold_insert_perm l acc :
    Permutation (fold_left (fun a x => insert_after tle x a) l acc) (acc ++ l).
  Proof.
    revert acc; induction l as [|x r IH]; intro acc; simpl.
    - rewrite app_nil_r. apply Permutation_refl.
    - eapply Permutation_trans; [apply IH|].
      eapply Permutation_trans; [apply Permutation_app_tail; apply insert_after_perm|].
      simpl. apply Permutation_middle.
  Qed.

  Lemma fold_insert_sorted l acc :
    sorted acc -> sorted (fold_left (fun a x => insert_after tle x a) l acc).
  Proof.
    revert acc; induction l as [|x r IH]; intros acc H; simpl; [exact H|].
    apply IH. apply insert_after_sorted. exact H.
  Qed.

  (* the inserted element lands after every element of its own time class *)
  Lemma insert_after_filter_same z x l :
    sorted l ->
    filter (same z) (insert_after tle x l) = filter (same z) l ++ filter (same z) [x].
  Proof.
    unfold sorted. induction l as [|y r IH]; intro H; simpl.
    - reflexivity.
    - inversion H as [|? ? Hr Hy]; subst.
      destruct (tle y x) eqn:E; simpl.
      + rewrite (IH Hr). simpl. destruct (same z y); reflexivity.
      + assert (Hxy : tle x y = true) by (destruct (tle_total x y); congruence).
        destruct (same z x) eqn:Sx; simpl.
        * (* nothing of z's class can follow: everything in y::r is strictly later than x *)
          assert (Hnone : forall w, In w (y :: r) -> same z w = false).
          { intros w Hw. destruct (same z w) eqn:Sw; [|reflexivity]. exfalso.
            unfold same in Sx, Sw. apply andb_true_iff in Sx as [Hzx Hxz].
            apply andb_true_iff in Sw as [Hzw Hwz].
            assert (Hyw : tle y w = true).
            { destruct Hw as [<-|Hw]; [apply tle_refl|].
              rewrite Forall_forall in Hy. apply Hy; exact Hw. }
            assert (tle y x = true).
            { apply (tle_trans y w x); [exact Hyw|]. apply (tle_trans w z x); assumption. }
            congruence. }
          assert (Hf : filter (same z) (y :: r) = []).
          { clear -Hnone. induction (y :: r) as [|w t IHt]; [reflexivity|]. simpl.
            rewrite (Hnone w (or_introl eq_refl)). apply IHt. intros w' Hw'. apply Hnone. right; exact Hw'. }
          simpl in Hf. rewrite Hf. reflexivity.
        * rewrite app_nil_r. reflexivity.
  Qed.

  Lemma fold_insert_filter_same z l acc :
    sorted acc ->
    filter (same z) (fold_left (fun a x => insert_after tle x a) l acc)
    = filter (same z) acc ++ filter (same z) l.
  Proof.
    revert acc; induction l as [|x r IH]; intros acc H.
    - simpl. rewrite app_nil_r. reflexivity.
    - change (fold_left (fun a x0 => insert_after tle x0 a) (x :: r) acc)
        with (fold_left (fun a x0 => insert_after tle x0 a) r (insert_after tle x acc)).
      rewrite IH by (apply insert_after_sorted; exact H).
      rewrite insert_after_filter_same by exact H.
      rewrite <- app_assoc.
      change (x :: r) with ([x] ++ r). rewrite (filter_app (same z) [x] r). reflexivity.
  Qed.

  (* dropping elements after sorting = sorting without them *)
  Lemma insert_after_filter (p : A -> bool) x l :
    sorted l ->
    filter p (insert_after tle x l)
    = if p x then insert_after tle x (filter p l) else filter p l.
  Proof.
    unfold sorted. induction l as [|y r IH]; intro H; simpl.
    - destruct (p x); reflexivity.
    - inversion H as [|? ? Hr Hy]; subst.
      destruct (tle y x) eqn:E; simpl.
      + rewrite (IH Hr). destruct (p y) eqn:Py; destruct (p x) eqn:Px; simpl; try rewrite E; reflexivity.
      + destruct (p x) eqn:Px; simpl; [|reflexivity].
        destruct (p y) eqn:Py; simpl; [rewrite E; reflexivity|].
        (* every element of r is strictly later than x, so x goes in front *)
        assert (Hall : forall w, In w r -> tle w x = false).
        { intros w Hw. destruct (tle w x) eqn:Ew; [|reflexivity]. exfalso.
          rewrite Forall_forall in Hy. pose proof (tle_trans y w x (Hy w Hw) Ew). congruence. }
        clear -Hall. induction r as [|w t IHt]; simpl; [reflexivity|].
        destruct (p w) eqn:Pw; simpl.
        * rewrite (Hall w (or_introl eq_refl)). reflexivity.
        * apply IHt. intros w' Hw'. apply Hall. right; exact Hw'.
  Qed.

  Lemma filter_sorted (p : A -> bool) l : sorted l -> sorted (filter p l).
  Proof.
    unfold sorted. induction 1 as [|y r Hr IH Hy]; simpl; [constructor|].
    destruct (p y); [|exact IH]. constructor; [exact IH|].
    rewrite Forall_forall in *. intros w Hw. apply filter_In in Hw as [Hw _]. apply Hy; exact Hw.
  Qed.

  Lemma fold_insert_filter (p : A -> bool) l acc :
    sorted acc ->
    filter p (fold_left (fun a x => insert_after tle x a) l acc)
    = fold_left (fun a x => insert_after tle x a) (filter p l) (filter p acc).
  Proof.
    revert acc; induction l as [|x r IH]; intros acc H; simpl; [reflexivity|].
    rewrite IH by (apply insert_after_sorted; exact H).
    rewrite insert_after_filter by exact H.
    destruct (p x); reflexivity.
  Qed.

  Theorem stable_sort_filter (p : A -> bool) l :
    filter p (stable_sort tle l) = stable_sort tle (filter p l).
  Proof. unfold stable_sort. rewrite fold_insert_filter by constructor. reflexivity. Qed.

  (* ---- the three facts about stable_sort *)
  Theorem stable_sort_perm l : Permutation (stable_sort tle l) l.
  Proof. unfold stable_sort. apply (fold_insert_perm l []). Qed.

  Theorem stable_sort_sorted l : sorted (stable_sort tle l).
  Proof. unfold stable_sort. apply fold_insert_sorted. constructor. Qed.

  Theorem stable_sort_stable z l :
    filter (same z) (stable_sort tle l) = filter (same z) l.
  Proof. unfold stable_sort. rewrite fold_insert_filter_same by constructor. reflexivity. Qed.

  Lemma stable_sort_length l : length (stable_sort tle l) = length l.
  Proof. apply (Permutation_length (stable_sort_perm l)). Qed.

  Lemma stable_sort_in l y : In y (stable_sort tle l) <-> In y l.
  Proof.
    split; intro H.
    - apply (Permutation_in _ (stable_sort_perm l)); exact H.
    - apply (Permutation_in _ (Permutation_sym (stable_sort_perm l))); exact H.
  Qed.
End StableSortFacts.
