(* Proofs/RetainFarConv.v — property C17, the CONVERSE of RetainFar.cur_far_no_err: when a drop that
   is really issued reaches a message the consumer, `lag` messages behind, still references
   (`reached_held lag ms`, a statement about block numbers and positions only), the canonical
   schedule `sched_lag lag` makes a release fail: drop_sysline Err > 0.  Together with RetainFar:
   on files with keys 0..n-1, `far lag ms` => Err = 0 and `reached_held lag ms` => Err > 0.

   The drop with reference p is issued in the iteration that finds message mkey p + 1, and only if
   that message is not the last one (wstep: `rest = []` breaks before the drop: mkey p + 2 < n) and
   p is not message 0 (the stage-2 find leaves wprev = None: 1 <= mkey p; for a well-formed file
   this follows from 3 <= mfb p, it is kept as a condition because the theorem does not assume wf).
   The theorem holds for EITHER policy (the counter derr and the index do not depend on it); the
   requested form with pol c = P_cur is the corollary cur_reached_held_err.
   Checked by vm_compute before proving: reached_heldb lag ms = (0 <? derr) for every lag 1..80 on
   layout_msgs 512 far_layout, 1..40 on layout_msgs 64 ex_layout and layout_msgs 64 (lag_layout 30). *)
From Coq Require Import List Arith NArith Bool Sorted Lia.
Import ListNotations.
From S4.Model Require Import Retain.
From S4.Proofs Require Import RetainProofs RetainLayout RetainLag RetainKeepsUp RetainNoErr RetainFar.
Open Scope N_scope.

Definition reached_held (lag : N) (ms : list msg) : Prop :=
  exists m p, In m ms /\ In p ms /\ 3 <= mfb p /\ mlb m + 2 <= mfb p /\ mkey p + 1 < mkey m + lag
              /\ mkey p + 2 < lenN ms   (* message p+1 is not the last: the drop with reference p is issued *)
              /\ 1 <= mkey p            (* message 0 is never the reference of a drop *)
              /\ mkey m <= mkey p.      (* m was found before *)

Definition reached_heldb (lag : N) (ms : list msg) : bool :=
  existsb (fun p => (3 <=? mfb p) && (1 <=? mkey p) && (mkey p + 2 <? lenN ms) &&
     existsb (fun m => (mlb m + 2 <=? mfb p) && (mkey p + 1 <? mkey m + lag) && (mkey m <=? mkey p)) ms) ms.

Lemma reached_heldb_sound lag ms : reached_heldb lag ms = true -> reached_held lag ms.
Proof.
  unfold reached_heldb, reached_held. intros Hb.
  apply existsb_exists in Hb as (p & Hp & Hb).
  apply andb_true_iff in Hb as [Hb Hm]. apply andb_true_iff in Hb as [Hb H3].
  apply andb_true_iff in Hb as [H1 H2].
  apply existsb_exists in Hm as (m & Hm & Hc).
  apply andb_true_iff in Hc as [Hc H6]. apply andb_true_iff in Hc as [H4 H5].
  apply N.leb_le in H1, H2, H4, H6. apply N.ltb_lt in H3, H5.
  exists m, p. splits; auto.
Qed.

Lemma app_len_inj {A} (a1 : list A) : forall a2 b1 b2, length a1 = length a2 -> a1 ++ b1 = a2 ++ b2 -> b1 = b2.
Proof.
  induction a1 as [|x a1 IH]; intros [|y a2] b1 b2 Hl E; cbn [length app] in *; try discriminate; auto.
  injection E as _ E. injection Hl as Hl. eapply IH; eauto.
Qed.

Lemma in_lenN_pos {A} (x : A) l : In x l -> 0 < lenN l.
Proof. destruct l; [intros []|intros _; rewrite lenN_cons; lia]. Qed.

Section Conv.
Variables (c : cfg) (lag : N) (ms : list msg).
Hypothesis Hlag : 1 <= lag.
Hypothesis Hkeys : map mkey ms = nseq 0 (length ms).
(* the witness *)
Variables (wm wp : msg).
Hypothesis Hwm : In wm ms.
Hypothesis Hwp : In wp ms.
Hypothesis Hw3 : 3 <= mfb wp.
Hypothesis Hwc : mlb wm + 2 <= mfb wp.
Hypothesis Hwl : mkey wp + 1 < mkey wm + lag.
Hypothesis Hwn : mkey wp + 2 < lenN ms.
Hypothesis Hw1 : 1 <= mkey wp.
Hypothesis Hwb : mkey wm <= mkey wp.

Let n := length ms.

Lemma key_inj x y : In x ms -> In y ms -> mkey x = mkey y -> x = y.
Proof.
  intros Hx Hy E.
  apply in_split in Hx as (d1 & d2 & E1). apply in_split in Hy as (e1 & e2 & E2).
  pose proof (key_of_split 3 ms ltac:(lia) Hkeys d1 x d2 E1) as K1.
  pose proof (key_of_split 3 ms ltac:(lia) Hkeys e1 y e2 E2) as K2.
  assert (length d1 = length e1) as Hl by lia.
  rewrite E1 in E2. apply (app_len_inj d1 e1) in E2; auto. injection E2 as E2 _. exact E2.
Qed.

Record T (k : nat) (s : st) : Prop := {
  t_split : exists done, ms = done ++ todo s /\ length done = k;
  t_stage : stage2 s = Nat.eqb k 0;
  t_prev0 : (k <= 1)%nat -> wprev s = None;
  t_prev : (2 <= k)%nat -> (k < n)%nat ->
           exists p, wprev s = Some p /\ In p ms /\ mkey p + 1 = N.of_nat k;
  t_held : held s = nseq (N.of_nat k - lag) (N.to_nat (N.min (N.of_nat k) lag));
  (* as long as no release failed, every message the consumer still references is in the index *)
  t_keep : derr s = 0 -> forall m, In m ms -> mkey m < N.of_nat k -> N.of_nat k <= mkey m + lag ->
           In m (syslines s);
  (* after the iteration of the witness a release has failed *)
  t_hit : mkey wp + 2 <= N.of_nat k -> 0 < derr s
}.

Lemma is_held_range s k m : held s = nseq (N.of_nat k + 1 - lag) (N.to_nat (N.min (N.of_nat k + 1) lag)) ->
  mkey m <= N.of_nat k -> N.of_nat k + 1 <= mkey m + lag -> is_held s m = true.
Proof.
  intros Hh H1 H2. unfold is_held. apply memN_In. rewrite Hh. apply in_nseq. rewrite N2Nat.id. lia.
Qed.

Lemma T_step k s : (k < n)%nat -> T k s -> T (S k) (run c s (iter_events lag (N.of_nat k))).
Proof.
  intros Hk [(done & E & Hlen) Hst Hp0 Hp Hh Hkeep Hhit].
  set (K := N.of_nat k) in *.
  (* the release *)
  set (s0 := run c s (if lag <=? K then [ER (K - lag)] else [])).
  assert (Hs0 : held s0 = nseq (K + 1 - lag) (N.to_nat (N.min K (lag - 1))) /\
                syslines s0 = syslines s /\ todo s0 = todo s /\
                stage2 s0 = stage2 s /\ wprev s0 = wprev s /\ derr s0 = derr s).
  { unfold s0. destruct (N.leb_spec lag K) as [Hle|Hgt].
    - cbn [run fold_left step release held syslines pending todo stage2 wprev derr].
      rewrite Hh. replace (N.min K lag) with lag by lia.
      replace (N.to_nat lag) with (S (N.to_nat (lag - 1))) by lia.
      rewrite filter_nseq_head. replace (N.min K (lag - 1)) with (lag - 1) by lia.
      replace (K - lag + 1) with (K + 1 - lag) by lia.
      splits; auto.
    - cbn [run fold_left]. rewrite Hh. replace (K - lag) with 0 by lia. replace (K + 1 - lag) with 0 by lia.
      replace (N.min K lag) with K by lia. replace (N.min K (lag - 1)) with K by lia.
      splits; auto. }
  destruct Hs0 as (Hh0 & S0' & T0 & St0 & W0 & D0).
  assert (Hrun : run c s (iter_events lag K) = wstep c s0).
  { unfold iter_events. rewrite run_app. fold s0. reflexivity. }
  (* the worker iteration *)
  destruct (todo s) as [|q rest] eqn:Et.
  { exfalso. rewrite app_nil_r in E. subst done. unfold n in Hk. lia. }
  assert (Hq : In q ms) by (rewrite E; apply in_or_app; right; left; reflexivity).
  pose proof (key_of_split 3 ms ltac:(lia) Hkeys _ _ _ E) as Hkq. rewrite Hlen in Hkq. fold K in Hkq.
  assert (Hn : n = (k + S (length rest))%nat) by (unfold n; rewrite E, app_length; cbn [length]; lia).
  assert (HnN : lenN ms = N.of_nat n) by reflexivity.
  rewrite Hrun. unfold wstep. rewrite T0, St0, W0.
  set (s1 := do_find c s0 (stage2 s) q).
  pose proof (read_lines_grows c (mread (stage2 s) q) s0) as (_ & _ & RG). cbv zeta in RG.
  destruct RG as (RI & _).
  destruct RI as (I1 & I2 & I3 & I4 & I5 & I6 & I7 & I8 & I9).
  assert (F1 : syslines s1 = syslines s ++ [q] /\
               held s1 = nseq (K + 1 - lag) (N.to_nat (N.min (K + 1) lag)) /\ derr s1 = derr s).
  { unfold s1, do_find. cbn [store_msg syslines pending held derr].
    splits.
    - rewrite I1, S0'. reflexivity.
    - rewrite I3, Hh0, Hkq.
      replace K with (K + 1 - lag + N.of_nat (N.to_nat (N.min K (lag - 1)))) at 3 by lia.
      rewrite <- nseq_snoc. f_equal. lia.
    - rewrite I9, D0. reflexivity. }
  destruct F1 as (FS & FH & FD).
  assert (Hsplit1 : ms = (done ++ [q]) ++ rest) by (rewrite E, <- app_assoc; reflexivity).
  assert (Hlen1 : length (done ++ [q]) = S k) by (rewrite app_length; cbn [length]; lia).
  (* without a failed release so far, the referenced messages are in the index after the find *)
  assert (Hkeep1 : derr s = 0 -> forall m, In m ms -> mkey m < K + 1 -> K + 1 <= mkey m + lag ->
                   In m (syslines s1)).
  { intros Hd m Hm H1 H2. rewrite FS. apply in_or_app.
    destruct (N.eq_dec (mkey m) K) as [Ek|Nk].
    - right. left. apply key_inj; auto. lia.
    - left. apply Hkeep; auto; lia. }
  assert (HK1 : N.of_nat (S k) = K + 1) by lia.
  assert (Hnodrop : forall wp',
            ((S k <= 1)%nat -> wp' = None) ->
            ((2 <= S k)%nat -> (S k < n)%nat -> exists p, wp' = Some p /\ In p ms /\ mkey p + 1 = N.of_nat (S k)) ->
            (mkey wp + 2 <= K + 1 -> mkey wp + 2 <= K) ->
            T (S k) (set_worker s1 rest false wp')).
  { intros wp' Hw0 Hw Hnot. constructor; cbn [set_worker todo stage2 wprev held pending syslines derr]; auto.
    - exists (done ++ [q]). split; auto.
    - rewrite FH. f_equal; [lia|]. f_equal. lia.
    - rewrite FD, HK1. exact Hkeep1.
    - rewrite FD, HK1. intros H. apply Hhit. apply Hnot. exact H. }
  destruct (stage2 s) eqn:Es2.
  - (* k = 0 *)
    assert (k = 0)%nat as Hk0 by (destruct k; [reflexivity|rewrite Hst in Es2; discriminate]).
    apply Hnodrop; auto; intros; lia.
  - assert (0 < k)%nat as Hk0 by (destruct k; [rewrite Hst in Es2; discriminate|lia]).
    destruct rest as [|q' r].
    + (* the last message: no drop, and the witness's iteration is an earlier one *)
      apply Hnodrop; auto.
      * intros; lia.
      * intros _ Hlt. cbn [length] in Hn. lia.
      * intros _. cbn [length] in Hn. lia.
    + destruct (wprev s) as [p|] eqn:Ewp.
      * (* the drop *)
        assert (2 <= k)%nat as Hk2.
        { destruct (Nat.le_gt_cases 2 k); auto. specialize (Hp0 ltac:(lia)). discriminate. }
        destruct (Hp Hk2 Hk) as (p0 & Ep & Hpin & Hpk). injection Ep as Ep. subst p0.
        fold K in Hpk.
        set (s2 := do_try_drop c s1 p).
        assert (H2h : held s2 = held s1) by apply try_drop_held.
        assert (H2mono : derr s <= derr s2) by (rewrite <- FD; apply derr_try_drop).
        assert (H2 : (mfb p <? 3 = true /\ s2 = s1) \/
                     (3 <= mfb p /\
                      derr s2 = derr s + lenN (filter (is_held s1) (filter (fun m => mlb m <=? mfb p - 2) (syslines s1))) /\
                      syslines s2 = filter (fun m => negb (mlb m <=? mfb p - 2)) (syslines s1))).
        { unfold s2, do_try_drop. destruct (mfb p <? 3) eqn:E3; [left; auto|right].
          apply N.ltb_ge in E3. cbn [set_index derr syslines]. rewrite FD. splits; auto. }
        constructor; cbn [set_worker todo stage2 wprev held pending syslines derr]; auto.
        -- exists (done ++ [q]). split; auto.
        -- intros; lia.
        -- intros _ _. exists q. splits; auto. rewrite Hkq. lia.
        -- rewrite H2h, FH. f_equal; [lia|]. f_equal. lia.
        -- (* the referenced messages stay in the index as long as no release fails *)
           rewrite HK1. intros Hd2 m Hm H1 H2'.
           assert (Hd : derr s = 0) by lia.
           pose proof (Hkeep1 Hd m Hm H1 H2') as Hin.
           destruct H2 as [(_ & ->)|(E3 & Ed & Es)]; [exact Hin|].
           rewrite Es. apply filter_In. split; [exact Hin|].
           destruct (mlb m <=? mfb p - 2) eqn:Ec; [exfalso|reflexivity].
           assert (In m (filter (is_held s1) (filter (fun m => mlb m <=? mfb p - 2) (syslines s1)))) as Hf.
           { apply filter_In. split; [apply filter_In; auto|].
             apply (is_held_range s1 k m FH); fold K; lia. }
           apply in_lenN_pos in Hf. lia.
        -- (* the iteration of the witness *)
           rewrite HK1. intros Hge.
           destruct (N.eq_dec (derr s) 0) as [Hd|Hd]; [|lia].
           destruct (N.eq_dec (mkey wp + 1) K) as [Ek|Nk]; [|specialize (Hhit ltac:(lia)); lia].
           assert (p = wp) as -> by (apply key_inj; auto; lia).
           destruct H2 as [(E3 & _)|(E3 & Ed & Es)]; [apply N.ltb_lt in E3; lia|].
           assert (In wm (filter (is_held s1) (filter (fun m => mlb m <=? mfb wp - 2) (syslines s1)))) as Hf.
           { apply filter_In. split; [apply filter_In; split|].
             - apply Hkeep1; auto; lia.
             - apply N.leb_le. lia.
             - apply (is_held_range s1 k wm FH); fold K; lia. }
           apply in_lenN_pos in Hf. lia.
      * (* the second message: no drop (wp is not message 0) *)
        assert (k = 1)%nat as Hk1.
        { destruct (Nat.le_gt_cases 2 k) as [H2|H2]; [|lia].
          destruct (Hp H2 Hk) as (p & Ep & _). discriminate. }
        apply Hnodrop; auto.
        -- intros; lia.
        -- intros _ _. exists q. splits; auto. rewrite Hkq. lia.
        -- intros. lia.
Qed.

Lemma T_init : T 0 (init ms).
Proof.
  constructor; cbn [init todo stage2 wprev held pending syslines derr].
  - exists []. split; reflexivity.
  - reflexivity.
  - auto.
  - intros H; inversion H.
  - rewrite N.min_0_l. reflexivity.
  - intros _ m _ H. cbn in H. lia.
  - cbn. lia.
Qed.

Lemma T_iter cnt : forall k s, (k + cnt = n)%nat -> T k s ->
  T n (run c s (flat_map (iter_events lag) (nseq (N.of_nat k) cnt))).
Proof.
  induction cnt as [|cnt IH]; intros k s Hk Hq.
  - cbn [nseq flat_map run fold_left]. replace n with k by lia. auto.
  - cbn [nseq flat_map]. rewrite run_app.
    pose proof (T_step k s ltac:(lia) Hq) as B.
    replace (N.of_nat k + 1) with (N.of_nat (S k)) by lia.
    apply (IH (S k)); [lia|exact B].
Qed.

Theorem reached_held_err_sec : 0 < derr (run c (init ms) (sched_lag lag n)).
Proof.
  pose proof (T_iter n 0%nat (init ms) ltac:(lia) T_init) as B.
  change (flat_map (iter_events lag) (nseq (N.of_nat 0) n)) with (sched_lag lag n) in B.
  destruct B as [_ _ _ _ _ _ Hhit]. apply Hhit. unfold lenN in Hwn. fold n in Hwn. lia.
Qed.

End Conv.

(* a drop that is issued reaches a message the lagging consumer still references => a release fails;
   either policy, plain or streamed *)
Theorem reached_held_err : forall c lag ms, 1 <= lag -> map mkey ms = nseq 0 (length ms) ->
  reached_held lag ms ->
  0 < derr (run c (init ms) (sched_lag lag (length ms))).
Proof.
  intros c lag ms H1 Hk (m & p & A1 & A2 & A3 & A4 & A5 & A6 & A7 & A8).
  exact (reached_held_err_sec c lag ms H1 Hk m p A1 A2 A3 A4 A5 A6 A7 A8).
Qed.

(* the requested form *)
Theorem cur_reached_held_err : forall c lag ms, pol c = P_cur -> 1 <= lag -> map mkey ms = nseq 0 (length ms) ->
  reached_held lag ms ->
  0 < derr (run c (init ms) (sched_lag lag (length ms))).
Proof. intros c lag ms _. apply reached_held_err. Qed.

(* the two conditions exclude each other (keys 0..n-1 are not even needed) *)
Lemma far_not_reached_held lag ms : far lag ms -> reached_held lag ms -> False.
Proof.
  intros Hf (m & p & A1 & A2 & A3 & A4 & A5 & _). specialize (Hf m p A1 A2 A3 A4). lia.
Qed.

(* on the examples the two conditions are complementary, and the counter agrees *)
Example reached_held_examples :
  let ms := layout_msgs 512 RetainNoErr.far_layout in
  let mx := layout_msgs 64 ex_layout in
  reached_heldb 28 ms = false /\ farb 28 ms = true /\ derr (run cur_plain (init ms) (sched_lag 28 (length ms))) = 0 /\
  reached_heldb 29 ms = true /\ farb 29 ms = false /\ derr (run cur_plain (init ms) (sched_lag 29 (length ms))) = 4 /\
  reached_heldb 3 mx = false /\ farb 3 mx = true /\ derr (run cur_plain (init mx) (sched_lag 3 (length mx))) = 0 /\
  reached_heldb 4 mx = true /\ farb 4 mx = false /\ derr (run cur_plain (init mx) (sched_lag 4 (length mx))) = 41.
Proof. vm_compute. repeat split; reflexivity. Qed.

Print Assumptions reached_held_err.
Print Assumptions cur_reached_held_err.
Print Assumptions reached_heldb_sound.
