(* Proofs/AssembleProofs.v — lemmas for C05 (Model/Assemble.v vs Spec/AssembleSpec.v). *)
From Coq Require Import Lia ZifyN ZifyNat ZifyBool.
From S4.Base Require Import Bytes.
From S4.Spec Require Import AssembleSpec.
From S4.Model Require Import Assemble.
Open Scope N_scope.

(* ---------------------------------------------------------------- list helpers *)
Lemma skipn_skipn' {A} (a b : nat) (l : list A) : skipn a (skipn b l) = skipn (b + a) l.
Proof.
  revert l; induction b as [|b IH]; intros l; simpl; [reflexivity|].
  destruct l; [now rewrite skipn_nil | apply IH].
Qed.

Lemma lenN_len l : lenN l = len l.
Proof. reflexivity. Qed.

Lemma len_app (a b : list N) : len (a ++ b) = len a + len b.
Proof. unfold len. rewrite app_length. lia. Qed.

Lemma len_nil_iff (l : list N) : len l = 0 <-> l = [].
Proof. unfold len. destruct l; simpl; split; intro H; try reflexivity; try discriminate; lia. Qed.

Lemma is_nil_false_iff {A} (l : list A) : is_nil l = false <-> l <> [].
Proof. destruct l; simpl; split; intro H; congruence. Qed.

Lemma firstn_min_len {A} (a : nat) (l : list A) : firstn (Nat.min a (length l)) l = firstn a l.
Proof. rewrite <- firstn_firstn. now rewrite firstn_all. Qed.

Lemma firstn_nonnil (e : N) (l : list N) :
  0 < e -> e <= len l -> is_nil (firstn (N.to_nat e) l) = false.
Proof.
  unfold len. intros He Hl. destruct l as [|x l]; simpl in *; [lia|].
  destruct (N.to_nat e) eqn:E; [lia | reflexivity].
Qed.

(* ---------------------------------------------------------------- spec lemmas *)
Lemma nth_chunk_n (bs : nat) : (0 < bs)%nat ->
  forall fuel f i, (length f <= fuel)%nat ->
    nth i (chunk_n fuel bs f) [] = firstn bs (skipn (i * bs) f).
Proof.
  intros Hbs. induction fuel as [|k IH]; intros f i Hf.
  - destruct f; simpl in *; [|lia]. rewrite skipn_nil, firstn_nil. now destruct i.
  - destruct f as [|x f'].
    + simpl. rewrite skipn_nil, firstn_nil. now destruct i.
    + change (chunk_n (S k) bs (x :: f')) with (firstn bs (x :: f') :: chunk_n k bs (skipn bs (x :: f'))).
      assert (Hlf : (length (x :: f') = S (length f'))%nat) by reflexivity.
      remember (x :: f') as f eqn:Eqf.
      destruct i as [|j].
      * reflexivity.
      * cbn [nth]. rewrite IH.
        -- rewrite skipn_skipn'. replace (bs + j * bs)%nat with (S j * bs)%nat by lia. reflexivity.
        -- rewrite skipn_length. lia.
Qed.

Lemma nth_chunk (bs : N) (f : list N) (i : N) : 0 < bs ->
  nth (N.to_nat i) (chunk bs f) [] = blk bs f i.
Proof.
  intros Hbs. unfold chunk, blk. rewrite nth_chunk_n by lia. now rewrite N2Nat.inj_mul.
Qed.

Lemma chunk_n_index (bs : nat) : (0 < bs)%nat ->
  forall fuel f i, (length f <= fuel)%nat ->
    (i < length (chunk_n fuel bs f))%nat <-> (i * bs < length f)%nat.
Proof.
  intros Hbs. induction fuel as [|k IH]; intros f i Hf.
  - destruct f; simpl in *; lia.
  - destruct f as [|x f'].
    + simpl. lia.
    + change (chunk_n (S k) bs (x :: f')) with (firstn bs (x :: f') :: chunk_n k bs (skipn bs (x :: f'))).
      assert (Hlf : (length (x :: f') = S (length f'))%nat) by reflexivity.
      remember (x :: f') as f eqn:Eqf. cbn [length].
      destruct i as [|j].
      * lia.
      * assert (Hl : (length (skipn bs f) <= k)%nat) by (rewrite skipn_length; lia).
        specialize (IH (skipn bs f) j Hl). rewrite skipn_length in IH. lia.
Qed.

Lemma chunk_index_range (bs : N) (f : list N) (i : N) : 0 < bs ->
  (N.to_nat i < length (chunk bs f))%nat <-> i * bs < len f.
Proof.
  intros Hbs. unfold chunk, len. rewrite chunk_n_index by lia.
  rewrite <- N2Nat.inj_mul. lia.
Qed.

Lemma concat_chunk_n (bs : nat) : (0 < bs)%nat ->
  forall fuel f, (length f <= fuel)%nat -> concat (chunk_n fuel bs f) = f.
Proof.
  intros Hbs. induction fuel as [|k IH]; intros f Hf.
  - destruct f; simpl in *; [reflexivity | lia].
  - destruct f as [|x f']; [reflexivity|].
    change (chunk_n (S k) bs (x :: f')) with (firstn bs (x :: f') :: chunk_n k bs (skipn bs (x :: f'))).
    assert (Hlf : (length (x :: f') = S (length f'))%nat) by reflexivity.
    remember (x :: f') as f eqn:Eqf. cbn [concat].
    rewrite IH; [apply firstn_skipn|]. rewrite skipn_length. lia.
Qed.

Lemma concat_chunk (bs : N) (f : list N) : 0 < bs -> concat (chunk bs f) = f.
Proof. intros. unfold chunk. apply concat_chunk_n; lia. Qed.

(* ---------------------------------------------------------------- block arithmetic *)
Lemma blocksz_at_bounds n bs k : 0 < bs -> 0 < n -> 0 < blocksz_at n bs k <= bs.
Proof.
  intros Hbs Hn. unfold blocksz_at.
  destruct (n =? 0) eqn:E; [apply N.eqb_eq in E; lia|].
  pose proof (N.mod_lt n bs ltac:(lia)).
  destruct (k =? blockoffset_last n bs); [|lia].
  destruct (n mod bs =? 0) eqn:E2; [lia|]. apply N.eqb_neq in E2. lia.
Qed.

Lemma blocksz_at_not_last n bs k : 0 < n -> k <> blockoffset_last n bs -> blocksz_at n bs k = bs.
Proof.
  intros Hn Hk. unfold blocksz_at.
  destruct (n =? 0) eqn:E; [apply N.eqb_eq in E; lia|].
  destruct (k =? blockoffset_last n bs) eqn:E2; [apply N.eqb_eq in E2; contradiction | reflexivity].
Qed.

(* the expected size of block i is what is left, capped by bs; every block up to the last
   lies inside the declared size *)
Lemma blocksz_at_min n bs i : 0 < bs -> 0 < n -> i <= blockoffset_last n bs ->
  blocksz_at n bs i = N.min bs (n - i * bs) /\ i * bs < n.
Proof.
  intros Hbs Hn Hi.
  pose proof (N.div_mod n bs ltac:(lia)) as Hdm.
  pose proof (N.mod_lt n bs ltac:(lia)) as Hml.
  unfold blocksz_at, blockoffset_last, count_blocks in *.
  set (q := n / bs) in *. set (r := n mod bs) in *.
  destruct (n =? 0) eqn:E; [apply N.eqb_eq in E; lia|]. clear E.
  destruct (0 <? r) eqn:Er.
  - apply N.ltb_lt in Er.
    replace (q + 1 - 1) with q in * by lia.
    destruct (r =? 0) eqn:Er0; [apply N.eqb_eq in Er0; lia|].
    destruct (i =? q) eqn:Eiq.
    + apply N.eqb_eq in Eiq. subst i. split; nia.
    + apply N.eqb_neq in Eiq. assert (i + 1 <= q) by lia.
      assert (i * bs + bs <= q * bs) by nia. split; nia.
  - apply N.ltb_ge in Er. assert (r = 0) by lia.
    replace (r =? 0) with true by (symmetry; apply N.eqb_eq; assumption).
    assert (1 <= q) by nia.
    replace (q + 0 - 1) with (q - 1) in * by lia.
    destruct (i =? q - 1) eqn:Eiq.
    + apply N.eqb_eq in Eiq. assert (i * bs + bs = q * bs) by nia. split; nia.
    + apply N.eqb_neq in Eiq. assert (i + 2 <= q) by lia.
      assert (i * bs + 2 * bs <= q * bs) by nia. split; nia.
Qed.

Lemma last_index_range n bs i : 0 < bs -> 0 < n -> (i <= blockoffset_last n bs <-> i * bs < n).
Proof.
  intros Hbs Hn. split.
  - intro H. now apply blocksz_at_min.
  - intro H.
    pose proof (N.div_mod n bs ltac:(lia)) as Hdm.
    pose proof (N.mod_lt n bs ltac:(lia)) as Hml.
    unfold blockoffset_last, count_blocks.
    set (q := n / bs) in *. set (r := n mod bs) in *.
    destruct (n =? 0) eqn:E; [apply N.eqb_eq in E; lia|].
    destruct (0 <? r) eqn:Er.
    + apply N.ltb_lt in Er. assert (~ (q + 1 <= i)) by nia. lia.
    + apply N.ltb_ge in Er. assert (~ (q <= i)) by nia. lia.
Qed.

(* expected bytes of block i, from the stream's point of view = block i of the declared prefix *)
Lemma exp_blk_eq n bs i (plain : list N) : 0 < bs -> 0 < n -> i <= blockoffset_last n bs ->
  firstn (N.to_nat (blocksz_at n bs i)) (skipn (N.to_nat (i * bs)) plain)
  = blk bs (firstn (N.to_nat n) plain) i.
Proof.
  intros Hbs Hn Hi. destruct (blocksz_at_min n bs i Hbs Hn Hi) as [E _]. rewrite E.
  unfold blk. rewrite skipn_firstn_comm, firstn_firstn.
  f_equal. lia.
Qed.

(* ================================================================ decoder section *)
Section WithDecoder.
  Variable dstate : Type.
  Variable read : dstate -> N -> dstate * list N.
  Variable remaining : dstate -> list N.
  Hypothesis HC : contract dstate read remaining.

  Definition buf_ok (buf : option N) : Prop := match buf with Some b => 0 < b | None => True end.

  (* what a "filler" must do: deliver exactly the next [e] bytes, or fail with EZeroRead when
     the stream ends first *)
  Definition filler_ok (filler : dstate -> N -> ares (dstate * list N)) : Prop :=
    forall d e,
      (e <= len (remaining d) ->
         exists d', filler d e = AOk (d', firstn (N.to_nat e) (remaining d))
                    /\ remaining d' = skipn (N.to_nat e) (remaining d))
      /\ (len (remaining d) < e -> filler d e = AErr EZeroRead).

  Lemma fill_spec buf : buf_ok buf ->
    forall fuel d need acc, (N.to_nat need < fuel)%nat ->
      (need <= len (remaining d) ->
         exists d', fill dstate read fuel buf d need acc
                    = AOk (d', acc ++ firstn (N.to_nat need) (remaining d))
                    /\ remaining d' = skipn (N.to_nat need) (remaining d))
      /\ (len (remaining d) < need -> fill dstate read fuel buf d need acc = AErr EZeroRead).
  Proof.
    intros Hbuf. destruct HC as [HR1 HR2].
    induction fuel as [|k IH]; intros d need acc Hfuel; [lia|].
    cbn [fill]. destruct (need =? 0) eqn:E0.
    - apply N.eqb_eq in E0. subst need. split; intro H.
      + exists d. simpl. rewrite app_nil_r. split; reflexivity.
      + lia.
    - apply N.eqb_neq in E0.
      set (req := match buf with Some b => N.min b need | None => need end).
      assert (Hreq : 0 < req <= need) by (subst req; destruct buf; simpl in Hbuf; lia).
      destruct (HR1 d req) as [Hp Hl]. pose proof (HR2 d req (proj1 Hreq)) as H2.
      destruct (read d req) as [d1 r] eqn:ER. cbn [fst snd] in *.
      change (lenN r) with (len r).
      destruct (len r =? 0) eqn:Ez.
      + apply N.eqb_eq in Ez. apply len_nil_iff in Ez. subst r.
        assert (Hrem : remaining d = []).
        { destruct (remaining d) eqn:Erd; [reflexivity|]. exfalso. apply H2; [discriminate | reflexivity]. }
        rewrite Hrem. split; intro H; [unfold len in H; simpl in H; lia | reflexivity].
      + apply N.eqb_neq in Ez.
        assert (Hlt : (req <? len r) = false) by (apply N.ltb_ge; exact Hl).
        rewrite Hlt.
        assert (Hk : (N.to_nat (need - len r) < k)%nat) by (unfold len in *; lia).
        destruct (IH d1 (need - len r) (acc ++ r) Hk) as [IH1 IH2].
        rewrite <- Hp. rewrite len_app.
        assert (Hlr : (length r <= N.to_nat need)%nat) by (unfold len in *; lia).
        assert (Hsub : (N.to_nat need - length r)%nat = N.to_nat (need - len r)) by (unfold len; lia).
        split; intro H.
        * destruct IH1 as (d' & Ef & Er); [lia|]. exists d'. split.
          -- rewrite Ef. f_equal. f_equal.
             rewrite firstn_app, (@firstn_all2 _ (N.to_nat need) r Hlr). rewrite Hsub. now rewrite app_assoc.
          -- rewrite Er. rewrite skipn_app, (@skipn_all2 _ (N.to_nat need) r Hlr). now rewrite Hsub.
        * apply IH2. lia.
  Qed.

  Lemma fill_block_ok buf : buf_ok buf -> filler_ok (fill_block dstate read buf).
  Proof.
    intros Hbuf d e. unfold fill_block.
    destruct (fill_spec buf Hbuf (S (N.to_nat e)) d e [] ltac:(lia)) as [H1 H2].
    split; [exact H1 | exact H2].
  Qed.

  (* the single-read filler (lz4) is right only for decoders that never return short, and only
     when enough is left (when the stream is short it pads with zeros instead of failing) *)
  Definition filler_ok_when_enough (filler : dstate -> N -> ares (dstate * list N)) : Prop :=
    forall d e, e <= len (remaining d) ->
      exists d', filler d e = AOk (d', firstn (N.to_nat e) (remaining d))
                 /\ remaining d' = skipn (N.to_nat e) (remaining d).

  Lemma filler_ok_weaken f : filler_ok f -> filler_ok_when_enough f.
  Proof. intros H d e He. now apply (proj1 (H d e)). Qed.

  Lemma fill_once_enough :
    full_reads dstate read remaining -> filler_ok_when_enough (fill_once dstate read).
  Proof.
    intros HF d e He. destruct HC as [HR1 _]. unfold fill_once.
    destruct (HR1 d e) as [Hp Hl]. pose proof (HF d e) as Hfull.
    destruct (read d e) as [d1 r] eqn:ER. cbn [fst snd] in *.
    fold (len r) in *.
    assert (Hr : len r = e) by lia.
    assert (Hlen : length r = N.to_nat e) by (unfold len in Hr; lia).
    assert (Hle : (length r <= N.to_nat e)%nat) by lia.
    exists d1. rewrite <- Hp.
    rewrite !firstn_app, skipn_app, (@firstn_all2 _ (N.to_nat e) r Hle), (@skipn_all2 _ (N.to_nat e) r Hle).
    replace (N.to_nat e - length r)%nat with 0%nat by lia. simpl. rewrite !app_nil_r.
    split; reflexivity.
  Qed.

  (* ---------------------------------------------------------------- the walk *)
  Section WithFiller.
    Variable filler : dstate -> N -> ares (dstate * list N).
    Variable plain : list N.
    Variables bs n : N.
    Hypothesis Hbs : 0 < bs.
    Hypothesis Hn : 0 < n.

    Let last := blockoffset_last n bs.

    Lemma len_skipn_plain k : len (skipn (N.to_nat (k * bs)) plain) = len plain - k * bs.
    Proof. unfold len. rewrite skipn_length. lia. Qed.

    (* success half: needs only filler_ok_when_enough *)
    Lemma assemble_from_fits : filler_ok_when_enough filler ->
      forall steps d k i, k <= i -> i <= last -> (N.to_nat (i - k) < steps)%nat ->
        remaining d = skipn (N.to_nat (k * bs)) plain ->
        i * bs + blocksz_at n bs i <= len plain ->
        exists d', assemble_from dstate filler steps bs n d k i
                   = AOk (d', firstn (N.to_nat (blocksz_at n bs i)) (skipn (N.to_nat (i * bs)) plain))
                   /\ remaining d' = skipn (N.to_nat (i * bs + blocksz_at n bs i)) plain.
    Proof.
      intros HF. induction steps as [|s IH]; intros d k i Hki Hil Hst Hrem Hfit; [lia|].
      cbn [assemble_from].
      pose proof (blocksz_at_bounds n bs k Hbs Hn) as Hek.
      pose proof (blocksz_at_bounds n bs i Hbs Hn) as Hei.
      assert (Hlr : len (remaining d) = len plain - k * bs) by (rewrite Hrem; apply len_skipn_plain).
      assert (Hmono : k * bs + blocksz_at n bs k <= i * bs + blocksz_at n bs i).
      { destruct (N.eq_dec k i) as [->|Hne]; [lia|].
        rewrite (blocksz_at_not_last n bs k Hn) by (subst last; lia).
        assert (k + 1 <= i) by lia. assert (k * bs + bs <= i * bs) by nia. lia. }
      destruct (HF d (blocksz_at n bs k) ltac:(lia)) as (d' & Ef & Er).
      rewrite Ef. rewrite firstn_nonnil by lia.
      destruct (k =? i) eqn:Eki.
      - apply N.eqb_eq in Eki. subst k. exists d'. rewrite Hrem in *. split; [reflexivity|].
        rewrite Er, skipn_skipn'. f_equal. lia.
      - apply N.eqb_neq in Eki.
        assert (Ebs : blocksz_at n bs k = bs) by (apply blocksz_at_not_last; [exact Hn | subst last; lia]).
        apply IH; try lia.
        rewrite Er, Hrem, skipn_skipn', Ebs. f_equal. lia.
    Qed.

    (* failure half: the stream ends inside (or before) block i *)
    Lemma assemble_from_short : filler_ok filler ->
      forall steps d k i, k <= i -> i <= last -> (N.to_nat (i - k) < steps)%nat ->
        remaining d = skipn (N.to_nat (k * bs)) plain ->
        len plain < i * bs + blocksz_at n bs i ->
        assemble_from dstate filler steps bs n d k i = AErr EZeroRead.
    Proof.
      intros HF. induction steps as [|s IH]; intros d k i Hki Hil Hst Hrem Hshort; [lia|].
      cbn [assemble_from].
      pose proof (blocksz_at_bounds n bs k Hbs Hn) as Hek.
      assert (Hlr : len (remaining d) = len plain - k * bs) by (rewrite Hrem; apply len_skipn_plain).
      destruct (HF d (blocksz_at n bs k)) as [Hok Herr].
      destruct (N.le_gt_cases (blocksz_at n bs k) (len (remaining d))) as [Hfit|Hno].
      - destruct (Hok Hfit) as (d' & Ef & Er). rewrite Ef. rewrite firstn_nonnil by lia.
        destruct (k =? i) eqn:Eki.
        + apply N.eqb_eq in Eki. subst k. lia.
        + apply N.eqb_neq in Eki.
          assert (Ebs : blocksz_at n bs k = bs) by (apply blocksz_at_not_last; [exact Hn | subst last; lia]).
          apply IH; try lia.
          rewrite Er, Hrem, skipn_skipn', Ebs. f_equal. lia.
      - now rewrite (Herr Hno).
    Qed.

    (* tar: all blocks *)
    Lemma assemble_all_fits : filler_ok_when_enough filler -> n <= len plain ->
      forall steps d k acc, k <= last + 1 -> (N.to_nat (last + 1 - k) < steps)%nat ->
        (k <= last -> remaining d = skipn (N.to_nat (k * bs)) plain) ->
        assemble_all dstate filler steps bs n d k acc
        = AOk (acc ++ map (fun j => blk bs (firstn (N.to_nat n) plain) (N.of_nat j))
                          (seq (N.to_nat k) (N.to_nat (last + 1 - k)))).
    Proof.
      intros HF Hnl. induction steps as [|s IH]; intros d k acc Hk Hst Hrem; [lia|].
      cbn [assemble_all]. fold last.
      destruct (last <? k) eqn:Elk.
      - apply N.ltb_lt in Elk. replace (last + 1 - k) with 0 by lia. simpl. now rewrite app_nil_r.
      - apply N.ltb_ge in Elk. specialize (Hrem Elk).
        destruct (blocksz_at_min n bs k Hbs Hn Elk) as [Emin Hlt].
        pose proof (blocksz_at_bounds n bs k Hbs Hn) as Hek.
        assert (Hlr : len (remaining d) = len plain - k * bs) by (rewrite Hrem; apply len_skipn_plain).
        destruct (HF d (blocksz_at n bs k) ltac:(lia)) as (d' & Ef & Er).
        rewrite Ef. rewrite firstn_nonnil by lia.
        rewrite IH; try lia.
        + rewrite <- app_assoc. f_equal.
          replace (N.to_nat (last + 1 - k)) with (S (N.to_nat (last + 1 - (k + 1)))) by lia.
          cbn [seq map]. rewrite Hrem, exp_blk_eq by assumption.
          rewrite N2Nat.id. replace (N.to_nat (k + 1)) with (S (N.to_nat k)) by lia. reflexivity.
        + intro Hk1. rewrite Er, Hrem, skipn_skipn'. f_equal.
          rewrite (blocksz_at_not_last n bs k Hn) by (subst last; lia). lia.
    Qed.
  End WithFiller.

  (* ---------------------------------------------------------------- drain *)
  Lemma drain_spec buf : 0 < buf ->
    forall fuel d acc, (length (remaining d) < fuel)%nat ->
      drain dstate read fuel buf d acc = AOk (acc ++ remaining d).
  Proof.
    intros Hbuf. destruct HC as [HR1 HR2].
    induction fuel as [|k IH]; intros d acc Hf; [lia|].
    cbn [drain]. destruct (HR1 d buf) as [Hp Hl]. pose proof (HR2 d buf Hbuf) as H2.
    destruct (read d buf) as [d1 r] eqn:ER. cbn [fst snd] in *.
    destruct r as [|x r].
    - simpl. destruct (remaining d) eqn:Erd; [now rewrite app_nil_r|].
      exfalso. apply H2; [discriminate | reflexivity].
    - cbn [is_nil]. rewrite IH.
      + rewrite <- Hp. now rewrite app_assoc.
      + rewrite <- Hp in Hf. rewrite app_length in Hf. simpl in Hf. lia.
  Qed.
End WithDecoder.
