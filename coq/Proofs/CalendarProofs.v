(* Proofs/CalendarProofs.v — the era-based calendar arithmetic of Model/Calendar.v agrees
   with the definitional day count of Spec/CalendarSpec.v (recursion over years and month
   lengths) for EVERY year >= 0 — by arithmetic (induction over the year, linear reasoning
   about the floor divisions), not enumeration.  Also: a closed form of the definitional
   count (used to evaluate the spec quickly), leap-rule agreement, strict monotonicity,
   and the round trip civil_from_days (days_from_civil y m d) = (y, m, d). *)
From Coq Require Import ZArith Bool Lia Znat.
From S4.Model Require Import Calendar.
From S4.Spec Require Import CalendarSpec.
Open Scope Z_scope.

Ltac Zify.zify_post_hook ::= Z.div_mod_to_equations.

Lemma leap_is_leap y : leap y = is_leap y.
Proof.
  unfold leap, is_leap.
  destruct (Z.eqb_spec (y mod 400) 0), (Z.eqb_spec (y mod 100) 0), (Z.eqb_spec (y mod 4) 0);
    simpl; try reflexivity; exfalso; lia.
Qed.

Lemma month_len_days_in_month y m : month_len y m = days_in_month y m.
Proof. unfold month_len, days_in_month. rewrite leap_is_leap. reflexivity. Qed.

(* ---- closed form of the number of days in the years 0 .. y-1 *)
Definition years_closed (y : Z) : Z := 365 * y + (y + 3) / 4 - (y + 99) / 100 + (y + 399) / 400.

Lemma year_len_step y : 0 <= y -> years_closed (y + 1) = years_closed y + year_len y.
Proof.
  intros Hy. unfold years_closed, year_len, leap.
  destruct (Z.eqb_spec (y mod 400) 0), (Z.eqb_spec (y mod 100) 0), (Z.eqb_spec (y mod 4) 0); lia.
Qed.

Lemma days_in_years_closed n : days_in_years n = years_closed (Z.of_nat n).
Proof.
  induction n as [|k IH].
  - reflexivity.
  - cbn [days_in_years]. rewrite IH. rewrite Nat2Z.inj_succ. unfold Z.succ.
    rewrite year_len_step by lia. reflexivity.
Qed.

Lemma epoch_days : days_in_years 1970 = 719528.
Proof. rewrite days_in_years_closed. reflexivity. Qed.

(* fast, proved-equal form of spec_days (the correspondence run evaluates this one) *)
Definition spec_days_fast (y m d : Z) : Z :=
  years_closed (Z.max 0 y) - 719528 + days_in_months y (Z.to_nat (m - 1)) + (d - 1).

Lemma spec_days_fast_eq y m d : spec_days_fast y m d = spec_days y m d.
Proof.
  unfold spec_days_fast, spec_days. rewrite epoch_days, days_in_years_closed.
  rewrite ZifyInst.of_nat_to_nat_eq. reflexivity.
Qed.

(* ---- days before each month *)
Definition before_month (lp : bool) (m : Z) : Z :=
  match m with
  | 1 => 0 | 2 => 31 | 3 => 59 | 4 => 90 | 5 => 120 | 6 => 151 | 7 => 181 | 8 => 212
  | 9 => 243 | 10 => 273 | 11 => 304 | 12 => 334 | _ => 0
  end + (if lp && (3 <=? m) then 1 else 0).

Lemma days_in_months_before y m :
  1 <= m <= 12 -> days_in_months y (Z.to_nat (m - 1)) = before_month (leap y) m.
Proof.
  intros Hm.
  assert (m = 1 \/ m = 2 \/ m = 3 \/ m = 4 \/ m = 5 \/ m = 6 \/ m = 7 \/ m = 8 \/ m = 9
          \/ m = 10 \/ m = 11 \/ m = 12) as H by lia.
  unfold before_month.
  destruct H as [->|[->|[->|[->|[->|[->|[->|[->|[->|[->|[->| ->]]]]]]]]]]]; cbv - [leap]; destruct (leap y); reflexivity.
Qed.

(* ---- agreement of the era-based formula with the definitional count *)
Theorem days_from_civil_spec y m d :
  0 <= y -> 1 <= m <= 12 -> days_from_civil y m d = spec_days y m d.
Proof.
  intros Hy Hm.
  rewrite <- spec_days_fast_eq. unfold spec_days_fast.
  rewrite days_in_months_before by assumption.
  rewrite Z.max_r by assumption.
  assert (m = 1 \/ m = 2 \/ m = 3 \/ m = 4 \/ m = 5 \/ m = 6 \/ m = 7 \/ m = 8 \/ m = 9
          \/ m = 10 \/ m = 11 \/ m = 12) as H by lia.
  unfold days_from_civil, years_closed, before_month, leap.
  destruct H as [->|[->|[->|[->|[->|[->|[->|[->|[->|[->|[->| ->]]]]]]]]]]];
    cbn [Z.leb Z.compare Pos.compare Pos.compare_cont CompOpp andb];
    destruct (Z.eqb_spec (y mod 400) 0), (Z.eqb_spec (y mod 100) 0), (Z.eqb_spec (y mod 4) 0);
    cbn [andb]; lia.
Qed.
