(* Proofs/CoordExamples.v — concrete executions of Model/Coord.v (non-vacuity for C06). *)
From Coq Require Import List ZArith Bool Arith.
From S4.Model Require Import Merge Coord.
From S4.Proofs Require Import MergeProofs CoordProofs.
Import ListNotations.

(* two sources: [10; 10] and [10] (a cross- and an intra-source tie), capacity 1 *)
Definition ex2 : list (list msg) := tag_srcs [[10; 10]; [10]]%Z.

Definition out_of (r : option state) : list (nat * nat) :=
  match r with Some s => map (fun m => (m_src m, m_pos m)) (printed s) | None => [] end.
Definition final_of (r : option state) : bool :=
  match r with Some s => final s | None => false end.

(* schedule A: worker 1 runs first and blocks on its full channel; worker 0 is slow *)
Definition sched_a : list event :=
  [Send 1; Recv 1; Send 1; Recv 1; Send 1; Send 0; Recv 0; Send 0; Recv 0; Print;
   Send 0; Recv 0; Print; Send 0; Recv 0; Print; Recv 1].

(* schedule B: strictly alternating *)
Definition sched_b : list event :=
  [Send 0; Send 1; Recv 0; Recv 1; Send 0; Send 1; Recv 0; Recv 1; Print; Send 0; Recv 0;
   Print; Send 0; Recv 0; Print; Send 1; Recv 1].

Lemma ex_sched_a : final_of (run 1 (init ex2) sched_a) = true /\
                   out_of (run 1 (init ex2) sched_a) = [(0, 0); (0, 1); (1, 0)].
Proof. vm_compute. split; reflexivity. Qed.

Lemma ex_sched_b : final_of (run 1 (init ex2) sched_b) = true /\
                   out_of (run 1 (init ex2) sched_b) = [(0, 0); (0, 1); (1, 0)].
Proof. vm_compute. split; reflexivity. Qed.

(* a send on a full channel is not enabled (capacity 1): the worker blocks *)
Lemma ex_send_blocks : run 1 (init ex2) [Send 1; Send 1] = None.
Proof. vm_compute. reflexivity. Qed.

(* the coordinator does not print while a live source has nothing pending *)
Lemma ex_no_early_print :
  run 1 (init ex2) [Send 1; Recv 1; Send 1; Recv 1; Send 0; Recv 0; Print] = None.
Proof. vm_compute. reflexivity. Qed.

(* replay of an observed receive sequence reproduces the print / disconnect events *)
Lemma ex_replay :
  match coord_replay 5 ex2 [(1, KI); (0, KI); (1, KM); (0, KM); (0, KM); (0, KS); (1, KS)] with
  | RDone t _ => t = [TR 1 KI; TR 0 KI; TR 1 KM; TR 0 KM; TP 0; TR 0 KM; TP 0; TR 0 KS; TD 0;
                      TP 1; TR 1 KS; TD 1]
  | _ => False
  end.
Proof. vm_compute. reflexivity. Qed.
