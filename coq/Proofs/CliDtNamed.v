(* Proofs/CliDtNamed.v — named zones: the universal theorem (every table name, every field value),
   and the rejection of every ambiguous name for every field value. *)
From Coq Require Import String Ascii ZArith Lia List Bool.
From S4.Base Require Import Bytes.
From S4.Model Require Import Calendar CliDt.
From S4.Gen Require Import CliDtTables.
From S4.Spec Require Import CalendarSpec CliDtRef CliDtSpec.
From S4.Proofs Require Import CalendarProofs CliDtSpecProofs CliDtAbsInfra CliDtMiscProofs CliDtScanLemmas CliDtUniversal CliDtAbsProofs CliDtNamedInfra CliDtNamedL1 CliDtNamedL2 CliDtNamedL3 CliDtNamedL4.
Import ListNotations.
Open Scope Z_scope.
Ltac Zify.zify_post_hook ::= Z.div_mod_to_equations.

Lemma abs_named_generic name (e : zone_entry name) l y m d h mi s fr sp tz :
  ze_nm _ e <> [90%N] -> ze_nm _ e <> [122%N] ->
  form_ok (FDateTime l y m d h mi s fr (ZoneName sp name)) = true ->
  m_resolve_abs (classify (render (FDateTime l y m d h mi s fr (ZoneName sp name)))) tz
  = denote (FDateTime l y m d h mi s fr (ZoneName sp name)) tz 0 None.
Proof.
  intros HZ Hz Hok.
  destruct l; [apply (abs_named_LCompact name e)|apply (abs_named_LDashSpace name e)|apply (abs_named_LDashT name e)|apply (abs_named_LSlash name e)]; assumption.
Qed.

(* the two one-letter names that the permissive %#z rows read themselves *)
Lemma abs_named_Z l y m d h mi s fr sp tz :
  form_ok (FDateTime l y m d h mi s fr (ZoneName sp "Z")) = true ->
  m_resolve_abs (classify (render (FDateTime l y m d h mi s fr (ZoneName sp "Z")))) tz
  = denote (FDateTime l y m d h mi s fr (ZoneName sp "Z")) tz 0 None.
Proof.
  intros Hok.
  assert (Hn : name_secs "Z" = Some 0) by (vm_compute; reflexivity).
  destruct l, sp; try (exfalso; prep Hok; fail);
    destruct fr; prep Hok; skeleton; finish y m.
Qed.

Lemma abs_named_z l y m d h mi s fr sp tz :
  form_ok (FDateTime l y m d h mi s fr (ZoneName sp "z")) = true ->
  m_resolve_abs (classify (render (FDateTime l y m d h mi s fr (ZoneName sp "z")))) tz
  = denote (FDateTime l y m d h mi s fr (ZoneName sp "z")) tz 0 None.
Proof.
  intros Hok.
  assert (Hn : name_secs "z" = Some 0) by (vm_compute; reflexivity).
  destruct l, sp; try (exfalso; prep Hok; fail);
    destruct fr; prep Hok; skeleton; finish y m.
Qed.

Lemma s2b_single name c : s2b name = [c] -> name = String (ascii_of_N c) EmptyString.
Proof.
  destruct name as [|a [|b r]]; cbn; try discriminate. intros H. inversion H. rewrite ascii_N_embedding. reflexivity.
Qed.

(* named zones: for EVERY unambiguous name of the regenerated table (= the reference table), every
   layout, fraction, spacing and every field value *)
Theorem abs_named_universal name l y m d h mi s fr sp tz :
  In name (names_with false) ->
  form_ok (FDateTime l y m d h mi s fr (ZoneName sp name)) = true ->
  m_resolve_abs (classify (render (FDateTime l y m d h mi s fr (ZoneName sp name)))) tz
  = denote (FDateTime l y m d h mi s fr (ZoneName sp name)) tz 0 None.
Proof.
  intros Hin Hok. destruct (zone_entry_of name Hin) as [e _].
  destruct (list_eq_dec N.eq_dec (ze_nm _ e) [90%N]) as [E|HZ].
  { pose proof (ze_name _ e) as Hn. rewrite E in Hn. apply s2b_single in Hn. subst name. apply abs_named_Z. exact Hok. }
  destruct (list_eq_dec N.eq_dec (ze_nm _ e) [122%N]) as [E|Hz].
  { pose proof (ze_name _ e) as Hn. rewrite E in Hn. apply s2b_single in Hn. subst name. apply abs_named_z. exact Hok. }
  apply (abs_named_generic name e); assumption.
Qed.

Example named_universal_satisfiable :
  In "NPT"%string (names_with false)
  /\ form_ok (FDateTime LSlash 2024 2 29 23 59 59 (FMicro 999999) (ZoneName true "NPT")) = true
  /\ In "chast"%string (names_with false).
Proof. vm_compute. repeat split; tauto. Qed.

(* ------------------------------------------------------------------ ambiguous names: rejected, every field value *)
Lemma names_with_amb_in name :
  In name (names_with true) -> In (name, ""%string) ref_tz_table.
Proof.
  unfold names_with. intros H. apply in_map_iff in H as [[n v] [E H]]. cbn in E. subst n.
  apply filter_In in H as [H1 H2]. cbn [snd] in H2. destruct (String.eqb_spec v ""); [subst; exact H1|discriminate].
Qed.

Lemma amb_entry name :
  In name (names_with true) ->
  s2b name <> [] /\ forallb is_alpha_c (s2b name) = true /\ assoc (s2b name) tz_table = Some []
  /\ s2b name <> [90%N] /\ s2b name <> [122%N].
Proof.
  intros Hin. pose proof (names_with_amb_in name Hin) as Hv.
  pose proof (proj1 (forallb_forall _ _) table_entries_ok (name, ""%string) Hv) as E.
  unfold entry_ok in E. cbn [fst snd] in E.
  apply andb_true_iff in E as [E _]. apply andb_true_iff in E as [E _]. apply andb_true_iff in E as [E1 E2].
  destruct (s2b name) as [|c0 more] eqn:Hnm; [discriminate|].
  destruct (assoc (c0 :: more) tz_table) as [v'|] eqn:Ha; [|discriminate]. apply beqb_eq in E2. cbn in E2. subst v'.
  repeat split; try discriminate; try assumption.
  - intros X. rewrite X in Ha. vm_compute in Ha. discriminate.
  - intros X. rewrite X in Ha. vm_compute in Ha. discriminate.
Qed.

Lemma wdhms_digit_first g r : m_wdhms (Dg g :: r) = DurNone.
Proof. reflexivity. Qed.

Ltac amb_case nm Halpha Hne HZ Hz Hassoc :=
  rewrite (classify_alpha _ Halpha);
  match goal with |- context [m_resolve (?X ++ _)] =>
    let B := fresh "B" in let EB := fresh "EB" in
    remember X as B eqn:EB;
    cbv [render_datetime render_date render_time_colon render_frac pad2 pad3 pad4 pad6 app classify map] in EB;
    rewrite ?classify1_dg in EB;
    change (classify1 45%N) with (Ch 45%N) in EB; change (classify1 84%N) with (Ch 84%N) in EB;
    change (classify1 58%N) with (Ch 58%N) in EB; change (classify1 47%N) with (Ch 47%N) in EB;
    change (classify1 32%N) with (Ch 32%N) in EB; change (classify1 46%N) with (Ch 46%N) in EB;
    repeat match type of EB with context [Dg (Z.to_N ?x)] => let n := fresh "g" in remember (Z.to_N x) as n end;
    subst B
  end;
  unfold m_resolve, resolve_with, resolve; fold m_resolve_abs;
  (match goal with |- context [m_resolve_abs (?B ++ _) ?tz] =>
    erewrite (resolve_via_named B nm [] tz);
      [ | vm_compute; reflexivity | vm_compute; reflexivity | exact Halpha | exact Hne | exact HZ | exact Hz
        | exact Hassoc | vm_compute; reflexivity ] end);
  cbn [first_valid]; fold m_wdhms; cbn [app]; rewrite wdhms_digit_first; reflexivity.

(* a date-time followed by an AMBIGUOUS zone name is rejected: every such name of the table, every
   layout, fraction, spacing (documented or not) and every field value, whatever --tz-offset,
   the other bound and the clock *)
Theorem abs_named_ambiguous_rejected name l y m d h mi s fr sp tz other now :
  In name (names_with true) ->
  m_resolve (classify (render (FDateTime l y m d h mi s fr (ZoneName sp name)))) tz other now = None.
Proof.
  intros Hin. destruct (amb_entry name Hin) as [Hne [Halpha [Hassoc [HZ Hz]]]].
  destruct l, sp, fr;
    (rewrite render_named_split, classify_app; remember (s2b name) as nm eqn:Enm;
     amb_case nm Halpha Hne HZ Hz Hassoc).
Qed.
