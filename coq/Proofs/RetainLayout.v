(* Proofs/RetainLayout.v — property C17: `layout_msgs bs layout` is a well-formed message sequence
   for EVERY layout (block size > 0, every line at least one byte, first line dated), with the
   parameters span = max_span and ml = max_lines; hence the bound of the repaired policy holds for
   all layouts (retry_bounded_layout). *)
From Coq Require Import List NArith Bool Sorted Lia.
Import ListNotations.
From S4.Model Require Import Retain.
From S4.Proofs Require Import RetainProofs.
Open Scope N_scope.

(* ------------------------------------------------------------------ arithmetic of block numbers *)
Lemma div_pred_edge x bs : 0 < bs -> 1 <= x ->
  x / bs = if x mod bs =? 0 then (x - 1) / bs + 1 else (x - 1) / bs.
Proof.
  intros Hbs Hx.
  pose proof (N.div_mod x bs ltac:(lia)) as Hdm.
  pose proof (N.mod_lt x bs ltac:(lia)) as Hlt.
  remember (x / bs) as q eqn:Eq. remember (x mod bs) as r eqn:Er.
  destruct (N.eqb_spec r 0) as [E|E].
  - subst r. assert (1 <= q) by (destruct (N.eq_dec q 0) as [->|]; [rewrite N.mul_0_r in Hdm; lia|lia]).
    assert ((x - 1) / bs = q - 1) as ->; [|lia].
    symmetry. apply (N.div_unique (x - 1) bs (q - 1) (bs - 1)); [lia|].
    rewrite N.mul_sub_distr_l. nia.
  - apply (N.div_unique (x - 1) bs q (r - 1)); lia.
Qed.

Lemma block_window e bs : 0 < bs -> e / bs * bs <= e /\ e < (e / bs + 1) * bs.
Proof.
  intros Hbs.
  pose proof (N.div_mod e bs ltac:(lia)) as Hdm.
  pose proof (N.mod_lt e bs ltac:(lia)) as Hlt.
  remember (e / bs) as q. remember (e mod bs) as r. nia.
Qed.

(* ------------------------------------------------------------------ the lines of a layout *)
Definition lens_pos (layout : list (N * bool)) : Prop := Forall (fun x => 1 <= fst x) layout.
Definition first_dated (layout : list (N * bool)) : Prop :=
  match layout with (_, d) :: _ => d = true | [] => True end.

Lemma spans_head bs off key len d r :
  spans bs off key ((len, d) :: r) =
  ({| lkey := key; lfb := off / bs; llb := (off + len - 1) / bs; ledge := (off + len) mod bs =? 0;
      lend := off + len - 1; lbeg := off |}, d) :: spans bs (off + len) (key + 1) r.
Proof. reflexivity. Qed.

Lemma spans_line_ok bs layout : 0 < bs -> lens_pos layout ->
  forall off key, Forall (line_ok bs) (map fst (spans bs off key layout)).
Proof.
  intros Hbs. induction layout as [|[len d] r IH]; intros Hl off key; [constructor|].
  apply Forall_cons_iff in Hl as [Hlen Hl]. cbn [fst] in Hlen.
  rewrite spans_head. cbn [map fst]. constructor; [|apply IH; exact Hl].
  unfold line_ok. cbn [lfb llb lend].
  pose proof (block_window (off + len - 1) bs Hbs) as (W1 & W2).
  split; [|split; assumption].
  apply N.div_le_mono; lia.
Qed.

Lemma spans_chain bs layout : 0 < bs -> lens_pos layout ->
  forall off key, chain succ_ok (map fst (spans bs off key layout)).
Proof.
  intros Hbs. induction layout as [|[len d] r IH]; intros Hl off key; [exact I|].
  apply Forall_cons_iff in Hl as [Hlen Hl]. cbn [fst] in Hlen.
  rewrite spans_head. cbn [map fst]. cbn [chain]. split; [|apply IH; exact Hl].
  destruct r as [|[len' d'] r']; [exact I|].
  apply Forall_cons_iff in Hl as [Hlen' _]. cbn [fst] in Hlen'.
  rewrite spans_head. cbn [map fst]. unfold succ_ok. cbn [lkey lend lfb ledge llb].
  split; [lia|]. split; [lia|].
  apply div_pred_edge; lia.
Qed.

(* ------------------------------------------------------------------ grouping keeps the lines *)
Definition gflat (g : list (lspan * list lspan)) : list lspan := flat_map (fun fb => fst fb :: snd fb) g.

Lemma group_flat l : fst (group l) ++ gflat (snd (group l)) = map fst l.
Proof.
  induction l as [|x r IH]; [reflexivity|].
  change (group (x :: r)) with (group_step x (group r)). unfold group_step.
  destruct (snd x); cbn [fst snd map].
  - unfold gflat in *. cbn [flat_map fst snd app]. rewrite IH. reflexivity.
  - cbn [app]. rewrite IH. reflexivity.
Qed.

Lemma group_first_dated x r : snd x = true -> fst (group (x :: r)) = [].
Proof. intros H. unfold group. cbn [fold_right]. unfold group_step. rewrite H. reflexivity. Qed.

Lemma link_lines g : forall k, file_lines (link k g) = gflat g.
Proof.
  induction g as [|[f b] r IH]; intros k; [reflexivity|].
  cbn [link]. unfold file_lines, gflat in *. cbn [flat_map mlines mfirst mbody fst snd]. rewrite IH. reflexivity.
Qed.

Lemma layout_file_lines bs layout : first_dated layout ->
  file_lines (layout_msgs bs layout) = map fst (spans bs 0 0 layout).
Proof.
  intros Hd. unfold layout_msgs. rewrite link_lines, <- group_flat.
  destruct layout as [|[len d] r]; [reflexivity|].
  cbn in Hd. subst d. rewrite spans_head. rewrite group_first_dated by reflexivity. reflexivity.
Qed.

(* ------------------------------------------------------------------ order of the lines *)
(* a is somewhere before b in the file *)
Definition before (a b : lspan) : Prop :=
  lkey a < lkey b /\ lend a < lend b /\ llb a <= lfb b /\ lfb a <= llb a /\ lfb b <= llb b.

Lemma before_trans a b c : before a b -> before b c -> before a c.
Proof. unfold before. lia. Qed.

Lemma chain_before bs L : Forall (line_ok bs) L -> chain succ_ok L -> chain before L.
Proof.
  induction L as [|x L IH]; intros Hok Hc; [exact I|].
  apply Forall_cons_iff in Hok as [Hx Hok]. cbn [chain] in *. destruct Hc as [H1 H2].
  split; [|apply IH; assumption].
  destruct L as [|y L]; [exact I|].
  apply Forall_cons_iff in Hok as [Hy _].
  unfold succ_ok in H1. unfold line_ok in Hx, Hy. unfold before.
  destruct H1 as (K & E & F). destruct (ledge x); lia.
Qed.

Lemma lines_sorted bs L : Forall (line_ok bs) L -> chain succ_ok L -> StronglySorted before L.
Proof.
  intros Hok Hc. apply chain_SS; [exact before_trans|]. eapply chain_before; eauto.
Qed.

(* in a sorted segment every line is the last one or before it *)
Lemma last_or_before x t : StronglySorted before (x :: t) ->
  forall l, In l (x :: t) -> l = last t x \/ before l (last t x).
Proof.
  revert x. induction t as [|y t IH]; intros x Hs l Hl.
  - destruct Hl as [<-|[]]. left. reflexivity.
  - apply StronglySorted_inv in Hs as [Hs Hf]. rewrite Forall_forall in Hf.
    rewrite last_cons.
    destruct Hl as [<-|Hl].
    + right. apply Hf. clear. revert y. induction t as [|z t IH]; intros y; [left; reflexivity|].
      rewrite last_cons. right. apply IH.
    + apply IH; auto.
Qed.

Lemma last_in {A} (t : list A) x : In (last t x) (x :: t).
Proof.
  revert x. induction t as [|y t IH]; intros x; [left; reflexivity|].
  rewrite last_cons. right. apply IH.
Qed.

(* ------------------------------------------------------------------ link *)
Lemma link_linked g : forall k, linked (link k g).
Proof.
  induction g as [|[f b] r IH]; intros k; [exact I|].
  cbn [link linked mnext]. split; [|apply IH].
  destruct r as [|[f' b'] r']; reflexivity.
Qed.

Lemma link_in g : forall k m, In m (link k g) ->
  k <= mkey m /\ In (mfirst m, mbody m) g.
Proof.
  induction g as [|[f b] r IH]; intros k m Hm; [destruct Hm|].
  cbn [link] in Hm. destruct Hm as [<-|Hm].
  - cbn. split; [lia|left; reflexivity].
  - apply IH in Hm as [H1 H2]. split; [lia|right; exact H2].
Qed.

Lemma link_chain_lt g : forall k, StronglySorted before (gflat g) -> chain msg_lt (link k g).
Proof.
  induction g as [|[f b] r IH]; intros k Hs; [exact I|].
  cbn [link chain]. split.
  - destruct r as [|[f' b'] r']; [exact I|]. cbn [link]. unfold msg_lt, mend, mlast. cbn [mkey mfirst mbody].
    split; [lia|].
    unfold gflat in Hs. cbn [flat_map fst snd] in Hs.
    change ((f :: b) ++ (f' :: b') ++ flat_map (fun fb => fst fb :: snd fb) r')
      with ((f :: b) ++ ((f' :: b') ++ flat_map (fun fb => fst fb :: snd fb) r')) in Hs.
    apply SS_app_iff in Hs as (_ & _ & Hx).
    assert (before (last b f) (last b' f')) as Hb.
    { apply Hx; [apply last_in|]. apply in_or_app. left. apply last_in. }
    unfold before in Hb. lia.
  - apply IH. unfold gflat in *. cbn [flat_map fst snd] in Hs.
    change ((f :: b) ++ flat_map (fun fb => fst fb :: snd fb) r)
      with ((f :: b) ++ (flat_map (fun fb => fst fb :: snd fb) r)) in Hs.
    apply SS_app_iff in Hs. tauto.
Qed.

Lemma msg_lt_trans a b c : msg_lt a b -> msg_lt b c -> msg_lt a c.
Proof. unfold msg_lt. lia. Qed.

(* a group is a sorted segment of the file *)
Lemma gflat_segment g f b : In (f, b) g -> StronglySorted before (gflat g) -> StronglySorted before (f :: b).
Proof.
  induction g as [|[f0 b0] r IH]; intros Hin Hs; [destruct Hin|].
  unfold gflat in *. cbn [flat_map fst snd] in Hs.
  change ((f0 :: b0) ++ flat_map (fun fb => fst fb :: snd fb) r)
    with ((f0 :: b0) ++ (flat_map (fun fb => fst fb :: snd fb) r)) in Hs.
  apply SS_app_iff in Hs as (H1 & H2 & _).
  destruct Hin as [E|Hin]; [injection E as <- <-; exact H1|auto].
Qed.

(* ------------------------------------------------------------------ the two parameters *)
Lemma fold_max_ge {A} (f : A -> N) l : forall a, a <= fold_left (fun a m => N.max a (f m)) l a.
Proof.
  induction l as [|x l IH]; intros a; cbn [fold_left]; [lia|].
  etransitivity; [|apply IH]. lia.
Qed.

Lemma fold_max_in {A} (f : A -> N) l : forall a m, In m l -> f m <= fold_left (fun a m => N.max a (f m)) l a.
Proof.
  induction l as [|x l IH]; intros a m Hm; [destruct Hm|]. cbn [fold_left].
  destruct Hm as [<-|Hm]; [|apply IH; exact Hm].
  etransitivity; [|apply fold_max_ge]. lia.
Qed.

Lemma max_span_in ms m : In m ms -> mlb m + 1 <= mfb m + max_span ms.
Proof.
  intros Hm. unfold max_span.
  pose proof (fold_max_in (fun m => mlb m + 1 - mfb m) ms 1 m Hm). cbv beta in H. lia.
Qed.

Lemma max_lines_in ms m : In m ms -> lenN (mlines m) <= max_lines ms.
Proof. intros Hm. unfold max_lines. apply (fold_max_in (fun m => lenN (mlines m))). exact Hm. Qed.

(* ------------------------------------------------------------------ groups of sorted lines are well formed *)
Lemma link_wf bs g :
  0 < bs -> Forall (line_ok bs) (gflat g) -> chain succ_ok (gflat g) ->
  match g with (f, _) :: _ => lfb f = 0 | [] => True end ->
  let ms := link 0 g in wf bs (max_span ms) (max_lines ms) ms.
Proof.
  intros Hbs Hok Hc H0. cbv zeta.
  pose proof (lines_sorted bs _ Hok Hc) as Hs.
  unfold wf. rewrite link_lines. splits; auto.
  - destruct g as [|[f b] r]; [exact I|]. cbn [link mfirst]. exact H0.
  - apply chain_SS; [exact msg_lt_trans|]. apply link_chain_lt. exact Hs.
  - apply Forall_forall. intros m Hm. unfold msg_ok. splits.
    + apply max_lines_in. exact Hm.
    + apply max_span_in. exact Hm.
    + apply link_in in Hm as [_ Hg].
      pose proof (gflat_segment g _ _ Hg Hs) as Hseg.
      apply Forall_forall. intros l Hl. unfold mlines in Hl.
      unfold mfb, mlb, mlast.
      assert (Hfl : forall x, In x (mfirst m :: mbody m) -> lfb x <= llb x).
      { intros x Hx. rewrite Forall_forall in Hok. destruct (Hok x) as (A & _); auto.
        unfold gflat. apply in_flat_map. exists (mfirst m, mbody m). split; auto. }
      split.
      * destruct Hl as [<-|Hl]; [lia|].
        apply StronglySorted_inv in Hseg as [_ Hf]. rewrite Forall_forall in Hf.
        specialize (Hf l Hl). unfold before in Hf. lia.
      * destruct (last_or_before _ _ Hseg l Hl) as [->|Hb]; [lia|]. unfold before in Hb. lia.
  - apply link_linked.
Qed.

(* ------------------------------------------------------------------ every layout *)
Definition layout_ok (bs : N) (layout : list (N * bool)) : Prop :=
  0 < bs /\ lens_pos layout /\ first_dated layout.

Theorem layout_msgs_wf bs layout : layout_ok bs layout ->
  let ms := layout_msgs bs layout in wf bs (max_span ms) (max_lines ms) ms.
Proof.
  intros (Hbs & Hl & Hd). cbv zeta. unfold layout_msgs.
  set (g := snd (group (spans bs 0 0 layout))).
  assert (Hflat : gflat g = map fst (spans bs 0 0 layout)).
  { pose proof (layout_file_lines bs layout Hd) as E. unfold layout_msgs in E. rewrite link_lines in E. exact E. }
  apply link_wf; auto.
  - rewrite Hflat. apply spans_line_ok; auto.
  - rewrite Hflat. apply spans_chain; auto.
  - destruct g as [|[f b] r] eqn:Eg; [exact I|].
    destruct layout as [|[len d] r0]; [discriminate|].
    unfold gflat in Hflat. cbn [flat_map fst snd app] in Hflat. rewrite spans_head in Hflat.
    cbn [map fst] in Hflat. injection Hflat as -> _. cbn [lfb]. apply N.div_0_l. lia.
Qed.

(* The bound of the repaired policy for ALL layouts: every block size > 0, every layout whose lines
   have at least one byte and whose first line is dated, plain or streamed container, every H and
   EVERY schedule respecting H.  span and ml are the largest number of blocks / lines of one
   message of the file. *)
Theorem retry_bounded_layout bs layout H c evs :
  pol c = P_retry -> layout_ok bs layout ->
  let ms := layout_msgs bs layout in
  let span := max_span ms in let ml := max_lines ms in
  sched_ok H c (init ms) evs = true ->
  let s := run c (init ms) evs in
  lenN (syslines s) <= hs s /\ hs s <= bound_syslines bs span /\
  lenN (lines s) <= hl s /\ hl s <= bound_lines bs span ml H /\
  lenN (blocks s) <= hb s /\ hb s <= bound_blocks bs span H /\
  lenN (pending s) <= H.
Proof.
  intros Hp Hl. cbv zeta. intros Hs.
  apply (retry_bounded bs _ _ H _ c evs Hp); auto. apply layout_msgs_wf. exact Hl.
Qed.

(* the two parameters do not depend on the length of the file but on the shape of its messages:
   a message of at most B bytes occupies at most B / bs + 2 blocks *)
Lemma span_of_bytes bs l : 0 < bs -> line_ok bs l -> lbeg l < (lfb l + 1) * bs -> lbeg l <= lend l ->
  llb l + 1 <= lfb l + ((lend l + 1 - lbeg l) / bs + 2).
Proof.
  intros Hbs (A & B & C) D E.
  set (n := lend l + 1 - lbeg l).
  pose proof (block_window n bs Hbs) as (W1 & W2).
  assert (llb l * bs < (lfb l + n / bs + 2) * bs) as Hm.
  { rewrite !N.mul_add_distr_r in *. lia. }
  apply N.mul_lt_mono_pos_r in Hm; lia.
Qed.

(* hypotheses of retry_bounded_layout are satisfiable: the example layout of RetainProofs *)
Lemma layout_ok_example : layout_ok 64 ex_layout /\
  max_span (layout_msgs 64 ex_layout) = 5 /\ max_lines (layout_msgs 64 ex_layout) = 3.
Proof.
  split; [|vm_compute; split; reflexivity].
  unfold layout_ok. split; [reflexivity|]. split; [|reflexivity].
  unfold lens_pos. apply Forall_forall. intros x Hx.
  assert (forallb (fun x => 1 <=? fst x) ex_layout = true) as Hf by (vm_compute; reflexivity).
  rewrite forallb_forall in Hf. apply N.leb_le. apply Hf. exact Hx.
Qed.

Lemma layout_ok_explicit bs layout :
  layout_ok bs layout <->
  0 < bs /\ Forall (fun x => 1 <= fst x) layout /\
  match layout with (_, d) :: _ => d = true | [] => True end.
Proof. reflexivity. Qed.
