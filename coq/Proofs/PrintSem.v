(* Proofs/PrintSem.v — algebra of printer programs:
   * [exec_buf] (the 2056-byte buffer, `printed` counted at flush time) computes the
     same stdout / last colour / byte count as the buffer-free [sem];
   * program equivalence [peq] and its congruences, a normaliser. *)
From S4.Base Require Import Bytes.
From S4.Model Require Import Strftime Print.
Open Scope nat_scope.

Definition sem_out (p : prog) (l : option cls) : list out := fst (sem p l).
Definition sem_last (p : prog) (l : option cls) : option cls := snd (sem p l).

Lemma sem_pair p l : sem p l = (sem_out p l, sem_last p l).
Proof. unfold sem_out, sem_last. destruct (sem p l); reflexivity. Qed.

Lemma sem_app p q l :
  sem (p ++ q) l = (sem_out p l ++ sem_out q (sem_last p l), sem_last q (sem_last p l)).
Proof.
  revert l; induction p as [|x p IH]; intro l.
  - simpl. unfold sem_out, sem_last. simpl. destruct (sem q l); reflexivity.
  - destruct x as [s| |c]; simpl.
    + rewrite IH. unfold sem_out, sem_last. simpl. destruct (sem p l) as [o1 l1]; simpl.
      rewrite app_assoc. reflexivity.
    + rewrite IH. unfold sem_out, sem_last. simpl. reflexivity.
    + unfold sem_out, sem_last. simpl. destruct (last_is l c).
      * rewrite IH. reflexivity.
      * rewrite IH. unfold sem_out, sem_last. destruct (sem p (Some c)) as [o1 l1]; simpl. reflexivity.
Qed.

Lemma sem_out_app p q l : sem_out (p ++ q) l = sem_out p l ++ sem_out q (sem_last p l).
Proof. unfold sem_out at 1. rewrite sem_app. reflexivity. Qed.
Lemma sem_last_app p q l : sem_last (p ++ q) l = sem_last q (sem_last p l).
Proof. unfold sem_last at 1. rewrite sem_app. reflexivity. Qed.

Lemma wbytes_app p q : wbytes (p ++ q) = wbytes p ++ wbytes q.
Proof.
  induction p as [|x p IH]; simpl; [reflexivity|].
  destruct x; simpl; rewrite IH; try reflexivity. rewrite app_assoc. reflexivity.
Qed.

Lemma payload_app a b : payload (a ++ b) = payload a ++ payload b.
Proof. unfold payload. apply flat_map_app. Qed.

Lemma payload_obs s : payload (obs s) = s.
Proof. unfold payload, obs. induction s; simpl; congruence. Qed.

Lemma concr_app g a b : concr g (a ++ b) = concr g a ++ concr g b.
Proof. unfold concr. apply flat_map_app. Qed.

Lemma concr_obs g s : concr g (obs s) = s.
Proof. unfold concr, obs. induction s; simpl; congruence. Qed.

(* the payload bytes of the output are exactly the bytes written *)
Lemma payload_sem p l : payload (sem_out p l) = wbytes p.
Proof.
  revert l; induction p as [|x p IH]; intro l; [reflexivity|].
  destruct x as [s| |c]; unfold sem_out in *; simpl.
  - specialize (IH l). destruct (sem p l) as [o1 l1]; simpl in *.
    rewrite payload_app, payload_obs, IH. reflexivity.
  - apply IH.
  - destruct (last_is l c); [apply IH|].
    specialize (IH (Some c)). destruct (sem p (Some c)); simpl in *. exact IH.
Qed.

(* programs without colour changes print their bytes and nothing else *)
Fixpoint no_C (p : prog) : bool :=
  match p with [] => true | C _ :: _ => false | _ :: r => no_C r end.

Lemma no_C_app p q : no_C (p ++ q) = no_C p && no_C q.
Proof. induction p as [|x p IH]; simpl; [reflexivity|]. destruct x; simpl; auto. Qed.

Lemma sem_no_C p l : no_C p = true -> sem p l = (obs (wbytes p), l).
Proof.
  induction p as [|x p IH]; simpl; intro H; [reflexivity|].
  destruct x; try discriminate.
  - rewrite (IH H). unfold obs. rewrite map_app. reflexivity.
  - apply IH, H.
Qed.

(* ---------------------------------------------------------------- buffer transparency *)
Lemma blen_app a b : blen (a ++ b) = (blen a + blen b)%N.
Proof. unfold blen. rewrite app_length. lia. Qed.

Lemma obs_app a b : obs (a ++ b) = obs a ++ obs b.
Proof. apply map_app. Qed.

Definition vis (st : pst) : list out := p_out st ++ obs (p_buf st).
Definition cnt (st : pst) : N := (p_printed st + blen (p_buf st))%N.

Lemma flush_vis st : vis (do_flush st) = vis st /\ cnt (do_flush st) = cnt st
                     /\ p_last (do_flush st) = p_last st /\ p_buf (do_flush st) = [].
Proof.
  unfold do_flush, vis, cnt. destruct (p_buf st) eqn:E; simpl.
  - rewrite E. simpl. auto.
  - rewrite app_nil_r. unfold blen. simpl. repeat split; lia.
Qed.

Lemma write_vis cap s st :
  vis (do_write cap s st) = vis st ++ obs s /\ cnt (do_write cap s st) = (cnt st + blen s)%N
  /\ p_last (do_write cap s st) = p_last st.
Proof.
  unfold do_write, vis, cnt.
  destruct (length s <=? cap - length (p_buf st)); simpl.
  - rewrite obs_app, blen_app, app_assoc. repeat split; lia.
  - destruct (cap <? length s); simpl.
    + rewrite app_nil_r. unfold blen at 3. simpl. repeat split; try lia.
    + rewrite <- app_assoc. repeat split; lia.
Qed.

Lemma color_vis c st :
  vis (do_color c st) = vis st ++ (if last_is (p_last st) c then [] else [OS c])
  /\ cnt (do_color c st) = cnt st
  /\ p_last (do_color c st) = (if last_is (p_last st) c then p_last st else Some c)
  /\ p_buf (do_color c st) = [].
Proof.
  unfold do_color. destruct (flush_vis st) as (Hv & Hc & Hl & Hb).
  rewrite Hl. destruct (last_is (p_last st) c).
  - rewrite app_nil_r. auto.
  - unfold vis, cnt in *. simpl. rewrite Hb in *. simpl in *. rewrite !app_nil_r in *.
    rewrite Hv. repeat split; auto.
Qed.

Lemma exec_sim cap p : forall st,
  vis (exec_buf cap p st) = vis st ++ sem_out p (p_last st)
  /\ cnt (exec_buf cap p st) = (cnt st + blen (wbytes p))%N
  /\ p_last (exec_buf cap p st) = sem_last p (p_last st).
Proof.
  induction p as [|x p IH]; intro st.
  - unfold exec_buf, sem_out, sem_last. simpl. rewrite app_nil_r. unfold blen. simpl. repeat split; lia.
  - unfold exec_buf in *. simpl fold_left. destruct x as [s| |c]; simpl exec_prim.
    + destruct (write_vis cap s st) as (Hv & Hc & Hl).
      destruct (IH (do_write cap s st)) as (IHv & IHc & IHl).
      rewrite IHv, IHc, IHl, Hv, Hc, Hl. unfold sem_out, sem_last. simpl.
      destruct (sem p (p_last st)); simpl. rewrite blen_app, <- app_assoc. repeat split; lia.
    + destruct (flush_vis st) as (Hv & Hc & Hl & _).
      destruct (IH (do_flush st)) as (IHv & IHc & IHl).
      rewrite IHv, IHc, IHl, Hv, Hc, Hl. unfold sem_out, sem_last. simpl. auto.
    + destruct (color_vis c st) as (Hv & Hc & Hl & _).
      destruct (IH (do_color c st)) as (IHv & IHc & IHl).
      rewrite IHv, IHc, IHl, Hv, Hc, Hl. unfold sem_out, sem_last. simpl.
      destruct (last_is (p_last st) c).
      * rewrite app_nil_r. auto.
      * destruct (sem p (Some c)); simpl. rewrite <- app_assoc. auto.
Qed.

(* a program whose last effect is a flush or a colour change leaves the buffer empty *)
Definition ends_flushed (p : prog) : bool :=
  match rev p with F :: _ | C _ :: _ => true | _ => false end.

Lemma exec_buf_app cap p q st : exec_buf cap (p ++ q) st = exec_buf cap q (exec_buf cap p st).
Proof. unfold exec_buf. apply fold_left_app. Qed.

Lemma ends_flushed_buf cap p st : ends_flushed p = true -> p_buf (exec_buf cap p st) = [].
Proof.
  unfold ends_flushed. intro H.
  destruct (rev p) as [|x r] eqn:E; [discriminate|].
  assert (p = rev r ++ [x]) by (rewrite <- (rev_involutive p), E; reflexivity).
  subst p. rewrite exec_buf_app. unfold exec_buf at 1. simpl.
  destruct x; try discriminate; simpl.
  - apply flush_vis.
  - apply color_vis.
Qed.

Lemma ends_flushed_app p q : ends_flushed q = true -> ends_flushed (p ++ q) = true.
Proof.
  unfold ends_flushed. rewrite rev_app_distr. destruct (rev q); [discriminate|]. simpl. auto.
Qed.

(* the statement used by the coordinator model *)
Lemma exec_buf_sem cap p last :
  ends_flushed p = true ->
  let r := exec_buf cap p {| p_out := []; p_buf := []; p_printed := 0; p_last := last |} in
  p_out r = sem_out p last /\ p_printed r = printed_of p /\ p_last r = sem_last p last /\ p_buf r = [].
Proof.
  intros H r.
  pose proof (ends_flushed_buf cap p {| p_out := []; p_buf := []; p_printed := 0; p_last := last |} H) as Hb.
  destruct (exec_sim cap p {| p_out := []; p_buf := []; p_printed := 0; p_last := last |}) as (Hv & Hc & Hl).
  fold r in Hb, Hv, Hc, Hl. unfold vis, cnt in *. simpl in *. rewrite Hb in *. simpl in *.
  rewrite app_nil_r in Hv. unfold printed_of. unfold blen in *. simpl in Hc.
  repeat split; auto. lia.
Qed.

(* ---------------------------------------------------------------- equivalence *)
Definition peq (p q : prog) : Prop := forall l, sem p l = sem q l.

Lemma peq_refl p : peq p p. Proof. intro; reflexivity. Qed.
Lemma peq_sym p q : peq p q -> peq q p. Proof. intros H l; symmetry; apply H. Qed.
Lemma peq_trans p q r : peq p q -> peq q r -> peq p r.
Proof. intros H1 H2 l. rewrite H1. apply H2. Qed.

Lemma peq_app p p' q q' : peq p p' -> peq q q' -> peq (p ++ q) (p' ++ q').
Proof.
  intros H1 H2 l. rewrite !sem_app. unfold sem_out, sem_last. rewrite (H1 l).
  rewrite (H2 (snd (sem p' l))). reflexivity.
Qed.

Lemma peq_cons x p q : peq p q -> peq (x :: p) (x :: q).
Proof. intro H. apply (peq_app [x] [x] p q (peq_refl _) H). Qed.

Lemma peq_flat_map {A} (f g : A -> prog) (ls : list A) :
  (forall x, In x ls -> peq (f x) (g x)) -> peq (flat_map f ls) (flat_map g ls).
Proof.
  induction ls as [|x ls IH]; intro H; simpl; [apply peq_refl|].
  apply peq_app; [apply H; left; reflexivity | apply IH; intros y Hy; apply H; right; exact Hy].
Qed.

Lemma peq_map_first {A} (f g : bool -> A -> prog) (ls : list A) :
  (forall b x, In x ls -> peq (f b x) (g b x)) -> peq (map_first f ls) (map_first g ls).
Proof.
  destruct ls as [|x ls]; intro H; simpl; [apply peq_refl|].
  apply peq_app; [apply H; left; reflexivity|].
  apply peq_flat_map. intros y Hy. apply H. right; exact Hy.
Qed.

Lemma peq_loop_at (f g : nat -> bytes -> prog) (ls : list bytes) :
  (forall a x, peq (f a x) (g a x)) -> forall a, peq (loop_at f a ls) (loop_at g a ls).
Proof.
  intro H. induction ls as [|x ls IH]; intro a; simpl; [apply peq_refl|].
  apply peq_app; [apply H | apply IH].
Qed.

Lemma map_first_map {A B} (f : bool -> B -> prog) (h : A -> B) (ls : list A) :
  map_first f (map h ls) = map_first (fun b x => f b (h x)) ls.
Proof.
  destruct ls as [|x ls]; simpl; [reflexivity|]. f_equal.
  induction ls as [|y ls IH]; simpl; [reflexivity|]. rewrite IH. reflexivity.
Qed.

(* normaliser: drop flushes, merge adjacent writes *)
Fixpoint norm (p : prog) : prog :=
  match p with
  | [] => []
  | F :: r => norm r
  | W a :: r => match norm r with
                | W b :: r' => W (a ++ b) :: r'
                | r' => W a :: r'
                end
  | C c :: r => C c :: norm r
  end.

Lemma peq_WW a b p : peq (W a :: W b :: p) (W (a ++ b) :: p).
Proof. intro l. simpl. destruct (sem p l). rewrite obs_app, app_assoc. reflexivity. Qed.

Lemma norm_sound p : peq (norm p) p.
Proof.
  induction p as [|x p IH]; [apply peq_refl|].
  destruct x as [a| |c]; simpl.
  - destruct (norm p) as [|y r'] eqn:E.
    + apply peq_cons, IH.
    + destruct y as [b| |c'].
      * eapply peq_trans; [apply peq_sym, peq_WW|]. apply peq_cons, IH.
      * apply peq_cons, IH.
      * apply peq_cons, IH.
  - intro l. simpl. apply IH.
  - apply peq_cons, IH.
Qed.

Lemma peq_by_norm p q : norm p = norm q -> peq p q.
Proof.
  intro H. eapply peq_trans; [apply peq_sym, norm_sound|]. rewrite H. apply norm_sound.
Qed.

Lemma peq_mapW l : peq (map W l ++ [F]) [W (concat l)].
Proof.
  induction l as [|a l IH]; simpl.
  - intro x. reflexivity.
  - eapply peq_trans; [apply peq_cons, IH|]. apply peq_WW.
Qed.

Lemma peq_mapW' l : peq (map W l) [W (concat l)].
Proof.
  induction l as [|a l IH]; simpl.
  - intro x. reflexivity.
  - eapply peq_trans; [apply peq_cons, IH|]. apply peq_WW.
Qed.

Lemma wbytes_mapW l : wbytes (map W l) = concat l.
Proof. induction l; simpl; congruence. Qed.
