(* Proofs/JournalExport.v — the export serialisation round-trips: parsing what the
   (repaired) printer writes gives back the stored fields, for arbitrary value bytes. *)
From Coq Require Import String.
From S4.Base Require Import Bytes.
From S4.Model Require Import Journal.
Open Scope N_scope.

(* ------------------------------------------------------------------ well-formedness *)

Definition wf_key (k : bytes) : Prop := k <> [] /\ ~ In NL k /\ ~ In EQ k.
(* any value bytes; its length fits the 64-bit length word (always true of a Vec<u8>) *)
Definition wf_field (f : field) : Prop := wf_key (fst f) /\ len (snd f) < 18446744073709551616.
Definition wf_entry (e : entry) : Prop :=
  ~ In NL (e_cursor e) /\ Forall wf_field (e_fields e).

(* ------------------------------------------------------------------ split_at *)

Lemma split_at_app c a b : ~ In c a -> split_at c (a ++ c :: b) = Some (a, b).
Proof.
  induction a as [|x a IH]; intro H; cbn [app split_at].
  - rewrite N.eqb_refl. reflexivity.
  - destruct (x =? c) eqn:E.
    + apply N.eqb_eq in E. exfalso. apply H. left. exact E.
    + rewrite IH; [reflexivity|]. intro Hc. apply H. right. exact Hc.
Qed.

Lemma split_at_none c l : ~ In c l -> split_at c l = None.
Proof.
  induction l as [|x l IH]; intro H; cbn [split_at]; [reflexivity|].
  destruct (x =? c) eqn:E.
  - apply N.eqb_eq in E. exfalso. apply H. left. exact E.
  - rewrite IH; [reflexivity|]. intro Hc. apply H. right. exact Hc.
Qed.

Lemma split_at_shorter c : forall l a b, split_at c l = Some (a, b) -> (length b < length l)%nat.
Proof.
  induction l as [|x l IH]; intros a b H; cbn [split_at] in H; [discriminate|].
  destruct (x =? c).
  - inversion H; subst. cbn. lia.
  - destruct (split_at c l) as [[a' b']|] eqn:E; [|discriminate].
    inversion H; subst. specialize (IH _ _ eq_refl). cbn. lia.
Qed.

(* ------------------------------------------------------------------ text_safe excludes newline *)

Lemma is_cont_not_nl b : is_cont b = true -> b <> NL.
Proof.
  unfold is_cont, NL. intro H. apply andb_true_iff in H as [H _]. apply N.leb_le in H. lia.
Qed.

Ltac not_nl :=
  match goal with
  | Hc : ?b = NL, Hx : is_cont ?b = true |- _ => exact (is_cont_not_nl _ Hx Hc)
  | Hc : ?b = NL, Hx : (128 <=? ?b) = true |- _ => apply N.leb_le in Hx; unfold NL in Hc; lia
  | Hc : ?b = NL, Hx : 128 <= ?b |- _ => unfold NL in Hc; lia
  end.

Lemma text_safe_no_nl_n : forall n l, (length l <= n)%nat -> text_safe l = true -> ~ In NL l.
Proof.
  induction n as [|n IH]; intros l Hl H.
  - destruct l; [intros []|cbn in Hl; lia].
  - destruct l as [|b0 r]; [intros []|].
    cbn [text_safe] in H. cbn [length] in Hl.
    destruct (b0 <? 128) eqn:E0.
    + apply andb_true_iff in H as [Hb Hr].
      intros [Hc|Hc].
      * subst b0. vm_compute in Hb. discriminate.
      * revert Hc. apply IH; [lia|exact Hr].
    + apply N.ltb_ge in E0.
      destruct ((194 <=? b0) && (b0 <=? 223)).
      { destruct r as [|b1 r1]; [discriminate|].
        repeat (apply andb_true_iff in H as [H ?]).
        cbn [length] in Hl.
        intros [Hc|[Hc|Hc]]; try not_nl.
        revert Hc. apply IH; [lia|assumption]. }
      destruct ((224 <=? b0) && (b0 <=? 239)).
      { destruct r as [|b1 [|b2 r2]]; try discriminate.
        repeat (apply andb_true_iff in H as [H ?]).
        cbn [length] in Hl.
        intros [Hc|[Hc|[Hc|Hc]]]; try not_nl.
        revert Hc. apply IH; [lia|assumption]. }
      destruct ((240 <=? b0) && (b0 <=? 244)); [|discriminate].
      destruct r as [|b1 [|b2 [|b3 r3]]]; try discriminate.
      repeat (apply andb_true_iff in H as [H ?]).
      cbn [length] in Hl.
      intros [Hc|[Hc|[Hc|[Hc|Hc]]]]; try not_nl.
      revert Hc. apply IH; [lia|assumption].
Qed.

Lemma text_safe_no_nl l : text_safe l = true -> ~ In NL l.
Proof. apply (text_safe_no_nl_n (length l)). lia. Qed.

(* ------------------------------------------------------------------ 64-bit length word *)

Lemma le_bytes_length k : forall n, length (le_bytes k n) = k.
Proof. induction k; intro n; cbn [le_bytes length]; [reflexivity|]. rewrite IHk. reflexivity. Qed.

Lemma le_decode_encode k : forall n, le64_decode (le_bytes k n) = n mod 256 ^ N.of_nat k.
Proof.
  induction k as [|k IH]; intro n.
  - cbn. rewrite N.mod_1_r. reflexivity.
  - cbn [le_bytes le64_decode fold_right]. fold (le64_decode (le_bytes k (n / 256))).
    rewrite IH. rewrite Nat2N.inj_succ, N.pow_succ_r'.
    rewrite N.mod_mul_r; [reflexivity|lia|].
    apply N.pow_nonzero. lia.
Qed.

Lemma le64_roundtrip n : n < 18446744073709551616 -> le64_decode (le64 n) = n.
Proof.
  intro H. unfold le64. rewrite le_decode_encode.
  change (256 ^ N.of_nat 8) with 18446744073709551616. apply N.mod_small. exact H.
Qed.

Lemma len_app a b : len (a ++ b) = len a + len b.
Proof. unfold len. rewrite app_length. lia. Qed.

(* ------------------------------------------------------------------ one field *)

Lemma parse_field_text f rest :
  ~ In NL (fst f) -> ~ In EQ (fst f) -> ~ In NL (snd f) ->
  parse_field (print_field_text f ++ rest) = Some (f, rest).
Proof.
  destruct f as [k v]. cbn [fst snd]. intros Hk1 Hk2 Hv.
  unfold parse_field, print_field_text, data_of. cbn [fst snd].
  replace ((k ++ EQ :: v) ++ [NL]) with ((k ++ EQ :: v) ++ NL :: []) by reflexivity.
  rewrite <- app_assoc. cbn [app].
  rewrite split_at_app.
  - rewrite split_at_app by exact Hk2. reflexivity.
  - intro H. apply in_app_or in H as [H|[H|H]]; [exact (Hk1 H)|discriminate H|exact (Hv H)].
Qed.

Lemma firstn_app_exact {A} (a b : list A) n : length a = n -> firstn n (a ++ b) = a.
Proof.
  intro H. subst n. induction a as [|x a IH]; cbn [length firstn app]; [destruct b; reflexivity|].
  rewrite IH. reflexivity.
Qed.

Lemma skipn_app_exact {A} (a b : list A) n : length a = n -> skipn n (a ++ b) = b.
Proof.
  intro H. subst n. induction a as [|x a IH]; cbn [length skipn app]; [reflexivity|exact IH].
Qed.

Lemma parse_field_binary f rest :
  ~ In NL (fst f) -> ~ In EQ (fst f) -> len (snd f) < 18446744073709551616 ->
  parse_field (print_field_binary f ++ rest) = Some (f, rest).
Proof.
  destruct f as [k v]. cbn [fst snd]. intros Hk1 Hk2 Hv.
  unfold parse_field, print_field_binary. cbn [fst snd].
  rewrite <- app_assoc. cbn [app].
  rewrite split_at_app by exact Hk1.
  rewrite split_at_none by exact Hk2.
  rewrite <- !app_assoc. cbn [app].
  assert (Hl8 : length (le64 (len v)) = 8%nat) by apply le_bytes_length.
  set (tail := v ++ NL :: rest).
  assert (Hlen : len (le64 (len v) ++ tail) = 8 + len tail).
  { rewrite len_app. unfold len at 1. rewrite Hl8. reflexivity. }
  rewrite Hlen.
  replace (8 + len tail <? 8) with false by (symmetry; apply N.ltb_ge; lia).
  rewrite (firstn_app_exact (le64 (len v)) tail 8 Hl8), (skipn_app_exact (le64 (len v)) tail 8 Hl8).
  rewrite le64_roundtrip by exact Hv.
  assert (Ht : len tail = len v + N.of_nat (S (length rest))).
  { unfold tail. rewrite len_app. reflexivity. }
  rewrite Ht.
  replace (len v + N.of_nat (S (length rest)) <? len v + 1) with false by (symmetry; apply N.ltb_ge; lia).
  assert (Hn : N.to_nat (len v) = length v) by (unfold len; apply Nat2N.id).
  rewrite Hn. unfold tail.
  rewrite (skipn_app_exact v (NL :: rest) _ eq_refl), (firstn_app_exact v (NL :: rest) _ eq_refl).
  rewrite N.eqb_refl. reflexivity.
Qed.

Lemma parse_field_safe f rest :
  wf_field f -> parse_field (print_field_safe f ++ rest) = Some (f, rest).
Proof.
  intros [[_ [Hk1 Hk2]] Hv]. unfold print_field_safe.
  destruct (text_safe (data_of f)) eqn:E.
  - apply parse_field_text; try assumption.
    apply text_safe_no_nl in E. intro H. apply E. unfold data_of. apply in_or_app. right. right. exact H.
  - apply parse_field_binary; assumption.
Qed.

(* ------------------------------------------------------------------ one entry *)

(* what the entry-level lemma needs of a field printer on a list of fields *)
Definition printer_ok (pf : field -> bytes) (fs : list field) : Prop :=
  forall f, In f fs ->
    (forall rest, parse_field (pf f ++ rest) = Some (f, rest)) /\
    (exists x t, pf f = x :: t /\ x <> NL).

Lemma parse_entry_step fuel s f r acc :
  (exists x t, s = x :: t /\ x <> NL) -> parse_field s = Some (f, r) ->
  parse_entry (S fuel) s acc = parse_entry fuel r (f :: acc).
Proof.
  intros [x [t [E Hx]]] Hp. cbn [parse_entry]. rewrite E. rewrite <- E.
  replace (x =? NL) with false by (symmetry; apply N.eqb_neq; exact Hx).
  rewrite Hp. reflexivity.
Qed.

Lemma head_app (a b : bytes) : (exists x t, a = x :: t /\ x <> NL) -> exists x t, a ++ b = x :: t /\ x <> NL.
Proof. intros [x [t [E H]]]. exists x, (t ++ b). rewrite E. split; [reflexivity|exact H]. Qed.

Lemma parse_entry_print pf : forall fs fuel acc rest,
  printer_ok pf fs -> (length fs < fuel)%nat ->
  parse_entry fuel (concat (map pf fs) ++ NL :: rest) acc = POk (rev acc ++ fs, rest).
Proof.
  induction fs as [|f fs IH]; intros fuel acc rest Hok Hfuel.
  - destruct fuel; [cbn in Hfuel; lia|]. cbn. rewrite app_nil_r. reflexivity.
  - destruct fuel; [cbn in Hfuel; lia|].
    destruct (Hok f (or_introl eq_refl)) as [Hp Hhead].
    cbn [map concat]. rewrite <- app_assoc.
    rewrite (parse_entry_step fuel _ f (concat (map pf fs) ++ NL :: rest) acc (head_app _ _ Hhead) (Hp _)).
    rewrite IH.
    + cbn [rev]. rewrite <- app_assoc. reflexivity.
    + intros g Hg. apply Hok. right. exact Hg.
    + cbn [length] in Hfuel. lia.
Qed.

Lemma concat_length_ge (pf : field -> bytes) (fs : list field) :
  (forall f, In f fs -> pf f <> []) -> (length fs <= length (concat (map pf fs)))%nat.
Proof.
  induction fs as [|f fs IH]; intro H; cbn [map concat length]; [lia|].
  rewrite app_length.
  assert (pf f <> []) by (apply H; left; reflexivity).
  destruct (pf f); [congruence|]. cbn [length].
  specialize (IH (fun g Hg => H g (or_intror Hg))). lia.
Qed.

Lemma printer_ok_nonempty pf fs : printer_ok pf fs -> forall f, In f fs -> pf f <> [].
Proof. intros H f Hf. destruct (H f Hf) as [_ [x [t [E _]]]]. rewrite E. discriminate. Qed.

Lemma printer_ok_app pf fs gs : printer_ok pf fs -> printer_ok pf gs -> printer_ok pf (fs ++ gs).
Proof. intros H1 H2 f Hf. apply in_app_or in Hf as [Hf|Hf]; [apply H1|apply H2]; exact Hf. Qed.

Lemma parse_entry_two_acc pf hs fs rest :
  printer_ok print_field_text hs -> printer_ok pf fs ->
  forall acc fuel, (length hs + length fs < fuel)%nat ->
  parse_entry fuel (concat (map print_field_text hs) ++ concat (map pf fs) ++ NL :: rest) acc
  = POk (rev acc ++ hs ++ fs, rest).
Proof.
  intros Hh Hf.
  induction hs as [|h hs IH]; intros acc fuel Hfuel.
  - cbn [map concat app length] in *. apply parse_entry_print; [exact Hf|lia].
  - destruct fuel; [cbn in Hfuel; lia|].
    destruct (Hh h (or_introl eq_refl)) as [Hp Hhead].
    cbn [map concat]. rewrite <- app_assoc.
    rewrite (parse_entry_step fuel _ h _ acc (head_app _ _ Hhead) (Hp _)).
    rewrite IH.
    + cbn [rev]. rewrite <- !app_assoc. reflexivity.
    + intros g Hg. apply Hh. right. exact Hg.
    + cbn [length] in Hfuel. lia.
Qed.

Lemma parse_entry_two pf hs fs fuel rest :
  printer_ok print_field_text hs -> printer_ok pf fs -> (length hs + length fs < fuel)%nat ->
  parse_entry fuel (concat (map print_field_text hs) ++ concat (map pf fs) ++ NL :: rest) []
  = POk (hs ++ fs, rest).
Proof. intros Hh Hf Hfuel. exact (parse_entry_two_acc pf hs fs rest Hh Hf [] fuel Hfuel). Qed.

(* ------------------------------------------------------------------ printers are ok *)

Lemma wf_key_head k : wf_key k -> exists x t, k = x :: t /\ x <> NL.
Proof.
  intros [Hne [Hnl _]]. destruct k as [|x t]; [congruence|].
  exists x, t. split; [reflexivity|]. intro E. apply Hnl. left. exact E.
Qed.

Lemma printer_ok_safe fs : Forall wf_field fs -> printer_ok print_field_safe fs.
Proof.
  intros H f Hf. rewrite Forall_forall in H. specialize (H f Hf). split.
  - intro rest. apply parse_field_safe. exact H.
  - destruct H as [Hk _]. destruct (wf_key_head _ Hk) as [x [t [E Hx]]].
    destruct f as [k v]. cbn [fst] in E. subst k.
    unfold print_field_safe, print_field_text, print_field_binary, data_of. cbn [fst snd].
    destruct (text_safe ((x :: t) ++ EQ :: v)); cbn [app]; eauto.
Qed.

Lemma printer_ok_text fs :
  Forall (fun f => wf_key (fst f) /\ ~ In NL (snd f)) fs -> printer_ok print_field_text fs.
Proof.
  intros H f Hf. rewrite Forall_forall in H. destruct (H f Hf) as [Hk Hv]. split.
  - intro rest. destruct Hk as [_ [H1 H2]]. apply parse_field_text; assumption.
  - destruct (wf_key_head _ Hk) as [x [t [E Hx]]].
    destruct f as [k v]. cbn [fst] in E. subst k.
    unfold print_field_text, data_of. cbn [fst snd app]. eauto.
Qed.

(* decimal digits are digits *)
Lemma dec_digits_digits : forall fuel n acc,
  Forall (fun b => 48 <= b <= 57) acc -> Forall (fun b => 48 <= b <= 57) (dec_digits fuel n acc).
Proof.
  induction fuel as [|fuel IH]; intros n acc H; cbn [dec_digits]; [exact H|].
  assert (Hd : Forall (fun b => 48 <= b <= 57) ((48 + n mod 10) :: acc)).
  { constructor; [|exact H]. assert (n mod 10 < 10) by (apply N.mod_upper_bound; lia). cbv beta. remember (n mod 10) as x. lia. }
  destruct (n <? 10); [exact Hd|]. apply IH. exact Hd.
Qed.

Lemma dec_no_nl n : ~ In NL (dec n).
Proof.
  intro H. pose proof (dec_digits_digits (S (N.to_nat (N.log2 n))) n [] (Forall_nil _)) as F.
  rewrite Forall_forall in F. specialize (F _ H). unfold NL in F. lia.
Qed.

Lemma wf_key_const (s : string) :
  (let k := s2b s in negb (match k with [] => true | _ => false end)
                     && negb (existsb (N.eqb NL) k) && negb (existsb (N.eqb EQ) k)) = true ->
  wf_key (s2b s).
Proof.
  cbv zeta. intro H. apply andb_true_iff in H as [H H3]. apply andb_true_iff in H as [H1 H2].
  split; [|split].
  - intro E. rewrite E in H1. discriminate.
  - intro Hin. apply negb_true_iff in H2.
    assert (existsb (N.eqb NL) (s2b s) = true) by (apply existsb_exists; exists NL; split; [exact Hin|apply N.eqb_refl]).
    congruence.
  - intro Hin. apply negb_true_iff in H3.
    assert (existsb (N.eqb EQ) (s2b s) = true) by (apply existsb_exists; exists EQ; split; [exact Hin|apply N.eqb_refl]).
    congruence.
Qed.

Lemma header_ok e : ~ In NL (e_cursor e) -> printer_ok print_field_text (header_fields e).
Proof.
  intro Hc. apply printer_ok_text. unfold header_fields.
  constructor; [|constructor].
  - split; [apply (wf_key_const "__CURSOR"); vm_compute; reflexivity|exact Hc].
  - split; [apply (wf_key_const "__REALTIME_TIMESTAMP"); vm_compute; reflexivity|apply dec_no_nl].
  - destruct (e_mono e); constructor; [|constructor].
    split; [apply (wf_key_const "__MONOTONIC_TIMESTAMP"); vm_compute; reflexivity|apply dec_no_nl].
Qed.

Lemma Forall_firstn {A} (P : A -> Prop) n : forall l, Forall P l -> Forall P (firstn n l).
Proof.
  induction n; intros l H; cbn [firstn]; [constructor|].
  destruct l; [constructor|]. inversion H; subst. constructor; auto.
Qed.

(* ------------------------------------------------------------------ entries and streams *)

Lemma print_export_with_length pf e :
  (forall f, In f (header_fields e) -> print_field_text f <> []) ->
  (forall f, In f (enumerated e) -> pf f <> []) ->
  (length (header_fields e) + length (enumerated e) < S (length (print_export_with pf e)))%nat.
Proof.
  intros H1 H2. unfold print_export_with. rewrite !app_length.
  pose proof (concat_length_ge print_field_text (header_fields e) H1).
  pose proof (concat_length_ge pf (enumerated e) H2). cbn [length]. lia.
Qed.

Lemma parse_entry_export pf e rest :
  printer_ok print_field_text (header_fields e) -> printer_ok pf (enumerated e) ->
  parse_entry (S (length (print_export_with pf e ++ rest))) (print_export_with pf e ++ rest) []
  = POk (export_fields e, rest).
Proof.
  intros Hh Hf. unfold print_export_with at 2. rewrite <- !app_assoc. cbn [app].
  unfold export_fields. apply parse_entry_two; [exact Hh|exact Hf|].
  pose proof (print_export_with_length pf e (printer_ok_nonempty _ _ Hh) (printer_ok_nonempty _ _ Hf)).
  rewrite app_length. lia.
Qed.

Lemma parse_entries_stream pf : forall es fuel acc,
  (forall e, In e es -> printer_ok print_field_text (header_fields e) /\ printer_ok pf (enumerated e)) ->
  (length es < fuel)%nat ->
  parse_entries fuel (concat (map (print_export_with pf) es)) acc
  = POk (rev acc ++ map export_fields es).
Proof.
  induction es as [|e es IH]; intros fuel acc Hok Hfuel.
  - destruct fuel; [cbn in Hfuel; lia|]. cbn. rewrite app_nil_r. reflexivity.
  - destruct fuel; [cbn in Hfuel; lia|].
    destruct (Hok e (or_introl eq_refl)) as [Hh Hf].
    cbn [map concat parse_entries].
    remember (print_export_with pf e ++ concat (map (print_export_with pf) es)) as s eqn:Es.
    assert (Hne : exists x t, s = x :: t).
    { subst s. unfold print_export_with. destruct (concat (map print_field_text (header_fields e))) eqn:E1;
        cbn [app]; [|eauto]. destruct (concat (map pf (enumerated e))); cbn [app]; eauto. }
    destruct Hne as [x [t Ext]]. rewrite Ext. rewrite <- Ext. subst s.
    rewrite parse_entry_export by assumption.
    rewrite IH.
    + cbn [rev map]. rewrite <- app_assoc. reflexivity.
    + intros e' He'. apply Hok. right. exact He'.
    + cbn [length] in Hfuel. lia.
Qed.

Lemma stream_length_ge pf es :
  (length es <= length (concat (map (print_export_with pf) es)))%nat.
Proof.
  induction es as [|e es IH]; cbn [map concat length]; [lia|].
  rewrite app_length. unfold print_export_with at 1. rewrite !app_length. cbn [length]. lia.
Qed.

Lemma wf_entry_printers e :
  wf_entry e -> printer_ok print_field_text (header_fields e) /\ printer_ok print_field_safe (enumerated e).
Proof.
  intros [Hc Hf]. split; [apply header_ok; exact Hc|].
  apply printer_ok_safe. apply Forall_firstn. exact Hf.
Qed.

(* full statement: any bytes in values *)
Theorem export_roundtrip_stream_l : forall es,
  Forall wf_entry es ->
  parse_export (concat (map render_export es)) = POk (map export_fields es).
Proof.
  intros es H. unfold parse_export, render_export.
  rewrite parse_entries_stream.
  - reflexivity.
  - intros e He. apply wf_entry_printers. rewrite Forall_forall in H. apply H. exact He.
  - pose proof (stream_length_ge print_field_safe es). lia.
Qed.

Theorem export_roundtrip_l : forall e,
  wf_entry e -> parse_export (render_export e) = POk [export_fields e].
Proof.
  intros e H. pose proof (export_roundtrip_stream_l [e] (Forall_cons _ H (Forall_nil _))) as R.
  cbn [map concat] in R. rewrite app_nil_r in R. exact R.
Qed.

(* when the emergency stop is not reached the enumerated fields are all the fields *)
Lemma enumerated_all e : (length (e_fields e) <= EMERG_STOP)%nat -> enumerated e = e_fields e.
Proof. intro H. unfold enumerated. apply firstn_all2. exact H. Qed.

(* the printer before the repair round-trips only when no value contains a newline *)
Theorem export_roundtrip_textonly_partial_l : forall es,
  Forall wf_entry es ->
  Forall (fun e => Forall (fun f => ~ In NL (snd f)) (e_fields e)) es ->
  parse_export (concat (map render_export_textonly es)) = POk (map export_fields es).
Proof.
  intros es H Hnl. unfold parse_export, render_export_textonly.
  rewrite parse_entries_stream.
  - reflexivity.
  - intros e He. rewrite Forall_forall in H, Hnl. destruct (H e He) as [Hc Hf]. split.
    + apply header_ok. exact Hc.
    + apply printer_ok_text. apply Forall_firstn.
      specialize (Hnl e He). rewrite Forall_forall in Hf, Hnl. apply Forall_forall.
      intros f Hin. split; [apply (Hf f Hin)|apply (Hnl f Hin)].
  - pose proof (stream_length_ge print_field_text es). lia.
Qed.

(* ------------------------------------------------------------------ fuel *)

Lemma parse_field_shorter s f r : parse_field s = Some (f, r) -> (length r < length s)%nat.
Proof.
  unfold parse_field. destruct (split_at NL s) as [[line rest]|] eqn:E1; [|discriminate].
  pose proof (split_at_shorter _ _ _ _ E1) as L1.
  destruct (split_at EQ line) as [[k v]|].
  - intro H. inversion H; subst. exact L1.
  - destruct (len rest <? 8); [discriminate|].
    destruct (len (skipn 8 rest) <? le64_decode (firstn 8 rest) + 1); [discriminate|].
    destruct (skipn (N.to_nat (le64_decode (firstn 8 rest))) (skipn 8 rest)) as [|x rest2] eqn:E2; [discriminate|].
    destruct (x =? NL); [|discriminate]. intro H. inversion H; subst.
    assert (length (x :: r) <= length rest)%nat.
    { rewrite <- E2. rewrite !skipn_length. lia. }
    cbn [length] in *. lia.
Qed.

Lemma parse_entry_fuel_ok : forall fuel s acc, (length s < fuel)%nat -> parse_entry fuel s acc <> POutOfFuel.
Proof.
  induction fuel as [|fuel IH]; intros s acc H; [lia|].
  cbn [parse_entry]. destruct s as [|x r]; [discriminate|].
  destruct (x =? NL); [discriminate|].
  destruct (parse_field (x :: r)) as [[f r']|] eqn:E; [|discriminate].
  apply IH. pose proof (parse_field_shorter _ _ _ E). lia.
Qed.

Lemma parse_entry_shorter : forall fuel s acc fs r,
  parse_entry fuel s acc = POk (fs, r) -> (length r < length s)%nat.
Proof.
  induction fuel as [|fuel IH]; intros s acc fs r H; [discriminate|].
  cbn [parse_entry] in H. destruct s as [|x s']; [discriminate|].
  destruct (x =? NL).
  - inversion H; subst. cbn. lia.
  - destruct (parse_field (x :: s')) as [[f r']|] eqn:E; [|discriminate].
    pose proof (parse_field_shorter _ _ _ E). specialize (IH _ _ _ _ H). lia.
Qed.

Lemma parse_entries_fuel_ok : forall fuel s acc, (length s < fuel)%nat -> parse_entries fuel s acc <> POutOfFuel.
Proof.
  induction fuel as [|fuel IH]; intros s acc H; [lia|].
  cbn [parse_entries]. destruct s as [|x r]; [discriminate|].
  destruct (parse_entry (S (length (x :: r))) (x :: r) []) as [[fs r']| |] eqn:E.
  - apply IH. pose proof (parse_entry_shorter _ _ _ _ _ E). lia.
  - discriminate.
  - exfalso. revert E. apply parse_entry_fuel_ok. lia.
Qed.

Theorem parse_export_fuel_ok_l : forall s, parse_export s <> POutOfFuel.
Proof. intro s. unfold parse_export. apply parse_entries_fuel_ok. lia. Qed.

(* ------------------------------------------------------------------ cat *)

Lemma assoc_first {A} k (pre : list (bytes * A)) v post :
  (forall f, In f pre -> fst f <> k) -> assoc k (pre ++ (k, v) :: post) = Some v.
Proof.
  induction pre as [|[k' v'] pre IH]; intro H; cbn [app assoc].
  - rewrite beqb_refl. reflexivity.
  - destruct (beqb k k') eqn:E.
    + apply beqb_eq in E. exfalso. apply (H (k', v') (or_introl eq_refl)). cbn. congruence.
    + apply IH. intros f Hf. apply H. right. exact Hf.
Qed.

Lemma assoc_absent {A} k (l : list (bytes * A)) : (forall f, In f l -> fst f <> k) -> assoc k l = None.
Proof.
  induction l as [|[k' v'] l IH]; intro H; cbn [assoc]; [reflexivity|].
  destruct (beqb k k') eqn:E.
  - apply beqb_eq in E. exfalso. apply (H (k', v') (or_introl eq_refl)). cbn. congruence.
  - apply IH. intros f Hf. apply H. right. exact Hf.
Qed.

(* cat prints exactly the stored MESSAGE value and a newline *)
Theorem cat_is_message_l : forall e pre m post,
  e_fields e = pre ++ (k_message, m) :: post ->
  (forall f, In f pre -> fst f <> k_message) ->
  render_cat e = m ++ [NL].
Proof.
  intros e pre m post E H. unfold render_cat, get_data. rewrite E, assoc_first by exact H. reflexivity.
Qed.

Theorem cat_without_message_l : forall e,
  (forall f, In f (e_fields e) -> fst f <> k_message) -> render_cat e = [].
Proof.
  intros e H. unfold render_cat, get_data. rewrite assoc_absent by exact H. reflexivity.
Qed.

(* ------------------------------------------------------------------ witnesses *)

(* the SYSLOG_RAW entry of the RHE 9.1 fixture (entry 883), fields abridged *)
Definition w_multiline : entry :=
  mkEntry 1681160194568581%Z
    (s2b "s=90a351b904294e209b9d0794de354860;i=374;b=5f1352760aa4490e946c08e5c1fe1c12;m=8918c5;t=5f9019c352f45;x=d8f0d09a2b2cbe2e")
    (Some 8984773)
    [ (s2b "_TRANSPORT", s2b "syslog");
      (s2b "SYSLOG_IDENTIFIER", s2b "dracut-cmdline");
      (s2b "MESSAGE", s2b "+ sysctl -w kernel.core_pattern=core");
      (s2b "SYSLOG_RAW", s2b "<31>Apr 10 20:56:34 dracut-cmdline: + sysctl -w kernel.core_pattern=core" ++ [NL]) ].

Lemma w_multiline_wf : wf_entry w_multiline.
Proof.
  split.
  - vm_compute. intuition discriminate.
  - repeat constructor; try (vm_compute; intuition discriminate); cbn; try discriminate.
Qed.

(* F10: the text-only printer loses the entry structure on such a value *)
Lemma export_multiline_refuted_l :
  exists e, wf_entry e /\ parse_export (render_export_textonly e) <> POk [export_fields e].
Proof.
  exists w_multiline. split; [exact w_multiline_wf|]. vm_compute. discriminate.
Qed.

(* the repaired printer handles the same witness (regression); hypotheses of
   export_roundtrip are satisfiable *)
Example export_multiline_witness_repaired :
  parse_export (render_export w_multiline) = POk [export_fields w_multiline].
Proof. vm_compute. reflexivity. Qed.

Example cat_example : render_cat w_multiline = s2b "+ sysctl -w kernel.core_pattern=core" ++ [NL].
Proof. vm_compute. reflexivity. Qed.

(* a value of arbitrary bytes (NUL, newline, '=', invalid UTF-8, a lone continuation byte) *)
Definition w_binary : entry :=
  mkEntry 7%Z (s2b "c") None [ (s2b "K", [0; 10; 61; 255; 128; 10; 10]); (s2b "MESSAGE", []) ; (s2b "E", [195; 169]) ].
Example export_binary_example :
  wf_entry w_binary /\ parse_export (render_export w_binary) = POk [export_fields w_binary].
Proof.
  split; [|vm_compute; reflexivity].
  split; [vm_compute; intuition discriminate|].
  repeat constructor; try (vm_compute; intuition discriminate); cbn; try discriminate.
Qed.
