From Coq Require Import String ZArith Lia.
From S4.Base Require Import Bytes.
From S4.Model Require Import Calendar CliDt.
From S4.Gen Require Import CliDtTables.
From S4.Spec Require Import CalendarSpec CliDtRef CliDtSpec.
From S4.Proofs Require Import CalendarProofs CliDtAbsInfra CliDtAbsL1 CliDtAbsL2 CliDtAbsL3 CliDtAbsL4.
Open Scope Z_scope.
Ltac Zify.zify_post_hook ::= Z.div_mod_to_equations.

Definition numeric_zone (z : zone) : Prop := match z with ZoneName _ _ => False | _ => True end.

(* date-time, optional 3/6-digit fraction, no zone or a numeric zone (+HHMM, +HH:MM, +HH) *)
Theorem abs_datetime_numeric_resolves l y m d h mi s fr z tz :
  numeric_zone z ->
  form_ok (FDateTime l y m d h mi s fr z) = true ->
  m_resolve_abs (classify (render (FDateTime l y m d h mi s fr z))) tz
  = denote (FDateTime l y m d h mi s fr z) tz 0 None.
Proof.
  intros Hz Hok.
  destruct z as [|sp st neg hh mm|sp name]; [| |destruct Hz].
  - destruct l, fr; prep Hok; skeleton; finish y m.
  - destruct l; [apply abs_num_LCompact|apply abs_num_LDashSpace|apply abs_num_LDashT|apply abs_num_LSlash]; assumption.
Qed.

(* a bare date is 00:00:00 in the --tz-offset zone *)
Theorem abs_date_resolves l y m d tz :
  form_ok (FDate l y m d) = true ->
  m_resolve_abs (classify (render (FDate l y m d))) tz = denote (FDate l y m d) tz 0 None.
Proof.
  intros Hok. destruct l; (prep Hok; skeleton;
    pose proof (month_len_le31 y m);
    rewrite validate_dt; change (dnum [0%N; 0%N]) with 0; rewrite ?Ey4, ?Ey2 by lia;
    [ cbv beta zeta iota; cbn [find_nano find_off];
      unfold denote, denote_with, instant_with, NS;
      rewrite <- days_from_civil_spec by lia; first [reflexivity | f_equal; lia]
    | reflexivity | reflexivity | lia
    | unfold valid_date; rewrite <- month_len_days_in_month; rewrite !andb_true_iff, !Z.leb_le; lia
    | lia | lia | lia ]).
Qed.

Example abs_forms_satisfiable :
  form_ok (FDateTime LDashT 2000 2 29 23 59 59 (FMicro 678901) (ZoneNum true ZColon true 1 30)) = true
  /\ form_ok (FDate DSlash 1999 12 31) = true.
Proof. split; reflexivity. Qed.

(* named zones: universal in the date-time fields for the sample names below; every other name
   of the table is covered only for one fixed date-time (named_all_names_fixed_fields) *)
Lemma abs_named_PST_partial l y m d h mi s fr sp tz :
  form_ok (FDateTime l y m d h mi s fr (ZoneName sp "PST")) = true ->
  m_resolve_abs (classify (render (FDateTime l y m d h mi s fr (ZoneName sp "PST")))) tz
  = denote (FDateTime l y m d h mi s fr (ZoneName sp "PST")) tz 0 None.
Proof.
  intros Hok.
  assert (Hn : name_secs "PST" = Some (-28800)) by (vm_compute; reflexivity).
  destruct l, sp; try (exfalso; prep Hok; fail);
    destruct fr; prep Hok; skeleton;
    change (classify1 80%N) with (Ch 80%N) in *; finish y m.
Qed.
