(* Proofs/RegexCompAll.v — C04, regex stage: the competitor lists of ALL rows of the regenerated table, assembled
   from the 16 generated shards coq/Gen/RegexCompShard_NN.v (each evaluates `competitors` for the rows with
   index = NN mod 16 and is re-checked by the kernel; `make -j16` builds them in parallel).  Built in the
   THOROUGH tier only (the evaluation is compute-bound); the quick tier keeps the four-row obligation
   C04_regex_competitors_rows. *)
From Coq Require Import List NArith.
Import ListNotations.
From S4.Base Require Import Bytes.
From S4.Model Require Import Regex RegexPlan RegexDt RegexNum.
From S4.Gen Require Import RegexTables RegexCompShard_00 RegexCompShard_01 RegexCompShard_02 RegexCompShard_03 RegexCompShard_04 RegexCompShard_05 RegexCompShard_06 RegexCompShard_07 RegexCompShard_08 RegexCompShard_09 RegexCompShard_10 RegexCompShard_11 RegexCompShard_12 RegexCompShard_13 RegexCompShard_14 RegexCompShard_15.
Open Scope N_scope.

Lemma list_eqb_eq' a : forall b, list_eqb a b = true -> a = b.
Proof.
  induction a as [|x a IH]; intros [|y b]; simpl; try discriminate; auto.
  intros H. apply andb_true_iff in H as [H1 H2]. apply N.eqb_eq in H1. subst. f_equal. auto.
Qed.
Lemma shard_in (l : list (N * list N)) :
  forallb (fun p => list_eqb (competitors rx_table (rx_at rx_table (fst p))) (snd p)) l = true ->
  forall i c, In (i, c) l -> competitors rx_table (rx_at rx_table i) = c.
Proof.
  intros H i c Hin. rewrite forallb_forall in H. specialize (H _ Hin). simpl in H. apply list_eqb_eq'. exact H.
Qed.

Definition comp_all : list (N * list N) := comp_rows_00 ++ comp_rows_01 ++ comp_rows_02 ++ comp_rows_03 ++ comp_rows_04 ++ comp_rows_05 ++ comp_rows_06 ++ comp_rows_07 ++ comp_rows_08 ++ comp_rows_09 ++ comp_rows_10 ++ comp_rows_11 ++ comp_rows_12 ++ comp_rows_13 ++ comp_rows_14 ++ comp_rows_15.

(* every row of the table has its list *)
Lemma comp_all_complete : forallb (fun r => existsb (fun p => fst p =? rx_index r) comp_all) rx_table = true.
Proof. vm_compute. reflexivity. Qed.

Theorem competitors_all_rows : forall i c, In (i, c) comp_all -> competitors rx_table (rx_at rx_table i) = c.
Proof.
  intros i c H. unfold comp_all in H.
  repeat (apply in_app_or in H as [H|H]).
  - apply (shard_in _ comp_rows_00_ok); exact H.
  - apply (shard_in _ comp_rows_01_ok); exact H.
  - apply (shard_in _ comp_rows_02_ok); exact H.
  - apply (shard_in _ comp_rows_03_ok); exact H.
  - apply (shard_in _ comp_rows_04_ok); exact H.
  - apply (shard_in _ comp_rows_05_ok); exact H.
  - apply (shard_in _ comp_rows_06_ok); exact H.
  - apply (shard_in _ comp_rows_07_ok); exact H.
  - apply (shard_in _ comp_rows_08_ok); exact H.
  - apply (shard_in _ comp_rows_09_ok); exact H.
  - apply (shard_in _ comp_rows_10_ok); exact H.
  - apply (shard_in _ comp_rows_11_ok); exact H.
  - apply (shard_in _ comp_rows_12_ok); exact H.
  - apply (shard_in _ comp_rows_13_ok); exact H.
  - apply (shard_in _ comp_rows_14_ok); exact H.
  - apply (shard_in _ comp_rows_15_ok); exact H.
Qed.
Print Assumptions competitors_all_rows.

(* the rows whose lines NO earlier row can date (empty competitor list): block-zero analysis counts every such
   line for the row itself *)
Definition sole_rows : list N := map fst (filter (fun p => match snd p with [] => true | _ => false end) comp_all).
(* on the regenerated table: rows 0, 7, 24 and 25 (for these, Proofs/RegexChoice.choice_numeric needs no
   condition on competitors: F13-style mis-locking cannot happen for files of their notation) *)
Lemma sole_rows_eq : sole_rows = [0; 7; 24; 25].
Proof. vm_compute. reflexivity. Qed.
