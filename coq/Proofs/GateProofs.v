(* Proofs/GateProofs.v — the block-zero acceptance analysis decides a bs-free predicate of the file
   outside four decidable classes (gate_accept_spec), hence is block-size independent there
   (gate_independent); witnesses that each class really contains block-size dependent files. *)
From S4.Base Require Import Bytes Chunk.
From S4.Spec Require Import LinesSpec.
From S4.Gen Require Import BlockConsts.
From S4.Model Require Import Lines Gate GateSpec.
From S4.Proofs Require Import LinesProofs.
From S4.Proofs Require Import GateLemmas.
Open Scope N_scope.

Section Thm.
  Variable dbr : N -> list N -> option Z.
  Variable rows : list N.
  Hypothesis ND : NoDup rows.

  Notation P := (parse_plain dbr).
  Notation nd := (next_dated dbr rows).

  Lemma st0_CZ : CZ rows (mkPst (counts_init rows) [] false []).
  Proof. split; reflexivity. Qed.
  Lemma st0_above fo : lru_above (mkPst (counts_init rows) [] false []) fo.
  Proof. intros k _. reflexivity. Qed.

  (* no dated line at all: rejected at every block size *)
  Lemma gate_rejects_undated bs (f : file) : 0 < bs -> first_dated dbr rows f = None ->
    accepted (gate_rows dbr rows bs f) = None.
  Proof.
    intros HB FD. unfold gate_rows, gate2.
    destruct (lenN f =? 0); [reflexivity|].
    destruct (_ <? _); [reflexivity|].
    destruct (all_zero _); [reflexivity|].
    destruct (range_lookup line_min_map _) as [lmin|]; [|reflexivity].
    destruct (range_lookup sysline_min_map _) as [smin|]; [|reflexivity].
    destruct (_ <? lmin); [reflexivity|].
    destruct (bz2_none dbr rows bs f HB (length f) smin (mkPst (counts_init rows) [] false [])) as (st' & E).
    { exact FD. } { apply keys_init. } { apply st0_above. }
    rewrite E. reflexivity.
  Qed.

  (* the analysis after a pass in which only row r was counted *)
  Lemma gate_tail r st1 found smin lmin (X : gate_out -> gate_out) :
    Inv rows r st1 -> found <> 0 -> found <? smin = false ->
    accepted (let o :=
      (if found =? 0
       then mkOut FileErrNoSyslinesFound None found (p_counts st1) found (p_counts st1) (p_trace st1)
       else match analysis (p_counts st1) with
            | None => mkOut FileErrNoSyslinesFound None found (p_counts st1) found (p_counts st1) (p_trace st1)
            | Some c1 =>
                let '(st2, found') :=
                  if 1 <? in_use (p_counts st1)
                  then lmin c1
                  else (mkPst c1 (p_lru st1) (p_panic st1) (p_trace st1), found) in
                let res := if p_panic st2 then GatePanic
                           else if found' <? smin then FileErrNoSyslinesFound else FileOk in
                mkOut res (match res with FileOk => chosen_row (p_counts st2) | _ => None end)
                      found (p_counts st1) found' (p_counts st2) (p_trace st2)
            end) in (g_res o, g_row o)) = Some r.
  Proof.
    intros (IP & IO) F0 FS.
    destruct (only_analysis rows ND r _ IO) as (n & Pn & U1 & An & Ch).
    destruct (N.eqb_spec found 0); [contradiction|].
    rewrite An, U1. change (1 <? 1) with false. cbv iota beta.
    cbn [p_panic p_counts]. rewrite IP, FS. cbn [g_res g_row accepted]. rewrite Ch. reflexivity.
  Qed.
End Thm.

Section Thm.
  Variable dbr : N -> list N -> option Z.
  Variable rows : list N.
  Hypothesis ND : NoDup rows.

  Notation P := (parse_plain dbr).
  Notation nd := (next_dated dbr rows).

  Lemma matched_some r (f : file) b e : matched_by dbr r f b e = true -> exists dtr, dbr r (slice f b (e + 1)) = Some dtr.
  Proof. unfold matched_by. destruct (dbr r _) as [d|]; [eexists; reflexivity|discriminate]. Qed.

  Theorem gate_accept_spec bs (f : file) : sp_blocksz_min <= bs -> bs <= blocksz_max ->
    in_classes dbr rows bs f = false ->
    accepted (gate_rows dbr rows bs f) = spec_accept dbr rows f.
  Proof.
    intros B1 B2 CL.
    destruct consts_ok as (C1 & C2 & C3 & C4).
    assert (HB : 0 < bs) by lia.
    destruct (first_dated dbr rows f) as [[[[b1 e1] dt1] r]|] eqn:FD.
    2:{ rewrite gate_rejects_undated by assumption. unfold spec_accept. rewrite FD.
        destruct (_ || _); reflexivity. }
    unfold in_classes in CL. apply Bool.orb_false_iff in CL as [CL CM]. apply Bool.orb_false_iff in CL as [CF CC].
    unfold cls_first_dated_incomplete in CF. rewrite FD in CF. apply N.leb_gt in CF. unfold b0 in CF.
    unfold first_dated in FD.
    destruct (nd_facts dbr rows bs f HB _ _ _ _ _ FD) as (G1 & G2 & G3 & G4 & G5 & G6).
    assert (ENDX : nthN f e1 = Some NL \/ e1 = lenN f - 1).
    { assert (L : b1 < lenN f) by lia. destruct (line_end_is_end f b1 L) as (_ & _ & _ & X). rewrite <- G4 in X. exact X. }
    (* the second dated line, if any, is matched by r *)
    assert (U2 : forall b2 e2 dt2 r2, nd f (e1 + 1) = Some (b2, e2, dt2, r2) -> matched_by dbr r f b2 e2 = true).
    { intros b2 e2 dt2 r2 H2. unfold cls_mixed_notation, first_dated in CM. rewrite FD, H2 in CM.
      apply Bool.orb_false_iff in CM as [CM _]. apply Bool.negb_false_iff in CM. exact CM. }
    unfold spec_accept, first_dated. rewrite FD.
    unfold gate_rows, gate2.
    destruct (N.eqb_spec (lenN f) 0) as [Z|Z]; [lia|].
    assert (LB0 : lenN (block bs f 0) = N.min bs (lenN f)) by (rewrite lenN_block; f_equal; lia).
    rewrite LB0. rewrite (N.min_l bytes_min bs) by lia.
    destruct (N.ltb_spec (N.min bs (lenN f)) bytes_min) as [T|T].
    { destruct (N.ltb_spec (lenN f) bytes_min); [reflexivity|lia]. }
    destruct (N.ltb_spec (lenN f) bytes_min) as [T2|T2]; [lia|]. cbn [orb].
    rewrite (null_rule_agrees bs f e1 HB CF ENDX).
    destruct (all_zero (firstnN bytes_null_max f)); [reflexivity|].
    destruct (N.lt_ge_cases (N.min bs (lenN f)) syslog_sz_max) as [SM|BG].
    - (* block zero below SYSLOG_SZ_MAX: one line, one message *)
      destruct (thresholds_small _ SM) as (-> & ->).
      rewrite bzl_small by lia. change (1 <? 1) with false. cbv iota.
      destruct (bz2_one dbr rows ND bs f HB (length f) (mkPst (counts_init rows) [] false []) b1 e1 dt1 r)
        as (st1 & E & (IP & IO)); try assumption.
      { apply st0_CZ. } { apply st0_above. }
      { intros b2 e2 dt2 r2 H2 X. destruct (matched_some _ _ _ _ (U2 _ _ _ _ H2)) as (d & Y). congruence. }
      rewrite E. cbv iota beta. change (1 =? 0) with false. cbv iota.
      destruct (only_analysis rows ND r _ IO) as (n & Pn & U1 & An & Ch).
      rewrite An, U1. change (1 <? 1) with false. cbv iota beta.
      cbn [p_panic p_counts]. rewrite IP. cbn [g_res g_row accepted]. rewrite Ch. reflexivity.
    - (* block zero holds >= SYSLOG_SZ_MAX bytes: three lines, two messages *)
      unfold cls_count_minimum, b0 in CC.
      destruct (N.leb_spec syslog_sz_max (N.min bs (lenN f))); [|lia]. cbn [andb] in CC.
      apply Bool.negb_false_iff in CC. apply Bool.andb_true_iff in CC as [C3L C2D].
      unfold three_lines_begin, b0 in C3L. apply Bool.andb_true_iff in C3L as [L1 L2].
      apply N.ltb_lt in L1. apply N.ltb_lt in L2.
      unfold two_dated_complete, first_dated in C2D. rewrite FD in C2D.
      destruct (nd f (e1 + 1)) as [[[[b2 e2] dt2] r2]|] eqn:H2; [|discriminate].
      apply N.ltb_lt in C2D. unfold b0 in C2D.
      destruct (matched_some _ _ _ _ (U2 _ _ _ _ eq_refl)) as (dtr & DR).
      assert (U3 : forall b3 e3 dt3 r3, nd f (e2 + 1) = Some (b3, e3, dt3, r3) -> dbr r (slice f b3 (e3 + 1)) <> None).
      { intros b3 e3 dt3 r3 H3 X. unfold cls_mixed_notation, first_dated in CM. rewrite FD, H2, H3 in CM.
        apply Bool.orb_false_iff in CM as [_ CM].
        destruct (N.leb_spec syslog_sz_max (lenN f)); [|lia]. cbn [andb] in CM.
        apply Bool.negb_false_iff in CM. destruct (matched_some _ _ _ _ CM) as (d & Y). congruence. }
      assert (BM : N.min bs (lenN f) <= blocksz_max) by lia.
      destruct (thresholds_big _ BG BM) as (-> & ->).
      assert (LEN3 : exists k, length f = S (S k)).
      { unfold lenN in *. destruct (length f) as [|[|k]]; [lia|lia|eexists; reflexivity]. }
      destruct LEN3 as (k & LEN). rewrite LEN.
      rewrite bzl_big by assumption. change (3 <? 3) with false. cbv iota.
      destruct (bz2_two dbr rows ND bs f HB (S k) (mkPst (counts_init rows) [] false []) b1 e1 dt1 r b2 e2 dt2 r2 dtr)
        as (st1 & E & (IP & IO)); try assumption.
      { apply st0_CZ. } { apply st0_above. }
      rewrite E. cbv iota beta. change (2 =? 0) with false. cbv iota.
      destruct (only_analysis rows ND r _ IO) as (n & Pn & U1 & An & Ch).
      rewrite An, U1. change (1 <? 1) with false. cbv iota beta.
      cbn [p_panic p_counts]. rewrite IP. change (2 <? 2) with false. cbn [g_res g_row accepted]. rewrite Ch. reflexivity.
  Qed.
End Thm.
