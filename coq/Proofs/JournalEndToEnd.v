(* Proofs/JournalEndToEnd.v — window theorem and serialisation theorem combined:
   what a consumer parses out of the export rendering of a run is exactly the
   stored fields of the in-window entries, in journal order. *)
From S4.Base Require Import Bytes.
From S4.Model Require Import Journal.
From S4.Spec Require Import JournalSpec.
From S4.Proofs Require Import JournalWindow JournalExport.
Open Scope Z_scope.

Lemma Forall_filter {A} (P : A -> Prop) f l : Forall P l -> Forall P (filter f l).
Proof.
  intro H. apply Forall_forall. intros x Hx. apply filter_In in Hx as [Hx _].
  rewrite Forall_forall in H. exact (H x Hx).
Qed.

Theorem journal_export_correct_l :
  forall sd_head sd_rt, J1_contract sd_head sd_rt ->
  forall j A B, nondecreasing (times j) -> valid_realtimes (times j) -> bound_rep A -> bound_rep B -> Forall wf_entry j ->
  parse_export (journal_stdout sd_head sd_rt stop_after RExport A B j)
  = POk (map export_fields (window e_time A B j)).
Proof.
  intros sd_head sd_rt J1 j A B Hs Hv HA HB Hwf.
  rewrite (journal_stdout_correct_l sd_head sd_rt J1 RExport j A B Hs Hv HA HB).
  cbn [render]. apply export_roundtrip_stream_l. unfold window. apply Forall_filter. exact Hwf.
Qed.

Theorem journal_cat_correct_l :
  forall sd_head sd_rt, J1_contract sd_head sd_rt ->
  forall j A B, nondecreasing (times j) -> valid_realtimes (times j) -> bound_rep A -> bound_rep B ->
  journal_stdout sd_head sd_rt stop_after RCat A B j
  = concat (map render_cat (window e_time A B j)).
Proof.
  intros sd_head sd_rt J1 j A B Hs Hv HA HB.
  exact (journal_stdout_correct_l sd_head sd_rt J1 RCat j A B Hs Hv HA HB).
Qed.

(* hypotheses satisfiable: the reference oracle, a two-entry journal with a multi-line value *)
Definition w_j2 : journal := [w_multiline; w_binary].
Example journal_export_example :
  ~ nondecreasing (times w_j2) /\
  nondecreasing (times (rev w_j2)) /\ Forall wf_entry (rev w_j2) /\
  parse_export (journal_stdout ref_seek_head ref_seek_realtime stop_after RExport (Some 7) (Some 7) (rev w_j2))
  = POk [export_fields w_binary].
Proof.
  split; [cbn; lia|]. split; [cbn; lia|]. split.
  - constructor; [apply export_binary_example|]. constructor; [apply w_multiline_wf|constructor].
  - vm_compute. reflexivity.
Qed.
