(* Proofs/CachesYearStage3.v — stage 3 of the year-less driver answered from the store (piece (c)), for a file that begins
   with a message, without a datetime window and without drops in stage 3 (every streamed file: c_stream_year passes the
   empty drop plan; a plain file with the plan that never drops).

   The reverse pass leaves every message in `syslines` (CachesYearWalk.yearless_stage2_lru) and every message of the
   find_sysline LRU cache is a stored one (lruS).  Stage 3 calls find_sysline (filler-year oracle) at 0 and at each
   fo_next: every call is at the begin of a message, so check_store answers it (hit_some) - the oracle is not consulted
   (find_sysline_hit_oracle_free) - with a message of the LRU cache or of `syslines` (check_store_src), which carries the
   instant stored at that begin; the structure of the answer is the spec's (yi_find on the state re-dated with the
   year the pass ended with).  Hence the driver emits the spec groups, the i-th with the instant assign_years gave it. *)
From S4.Base Require Import Bytes Chunk.
From S4.Spec Require Import LinesSpec.
From S4.Model Require Import Lines Syslines Caches.
From S4.Model Require Year.
From S4.Proofs Require Import LinesProofs SyslinesProofs CachesProofs CachesSysProofs CachesRunProofs CachesYearProofs
  CachesYearParam CachesYearDriver CachesFwdRunProofs CachesYearWalk.
Open Scope N_scope.

(* ---------------------------------------------------------------- check_store on a hit (no invariant needed) *)
Section Hit.
  Variable bs : N.
  Variable f : file.

  Lemma lru_step_sys st fo :
    s_syslines (snd (if s_on st
                     then match lru_get fo (s_lru st) with
                          | (Some r, c) => (Some r, sr_cnt d_lru_hit (sr_set_lru c st))
                          | (None, _) => (None, sr_cnt d_lru_miss st)
                          end
                     else (None, st))) = s_syslines st.
  Proof. destruct (s_on st); [|reflexivity]. destruct (lru_get fo (s_lru st)) as [[r|] c]; reflexivity. Qed.

  (* an offset that is a key of `syslines` is answered by check_store *)
  Lemma hit_some st fo s0 : alookup fo (s_syslines st) = Some s0 ->
    exists ans stm, sr_check_store bs f st fo = (Some ans, stm).
  Proof.
    intro LK. unfold sr_check_store. pose proof (lru_step_sys st fo) as E0.
    destruct (if s_on st then _ else _) as [[r|] st0]; cbn [fst snd] in *; [eexists _, _; reflexivity|].
    destruct (range_get (s_range st0) fo) as [v|].
    - cbn [s_syslines sr_cnt]. destruct (alookup v (s_syslines st0)) as [s'|]; [destruct (ss_end bs s')|]; eexists _, _; reflexivity.
    - cbn [s_syslines sr_cnt]. rewrite E0, LK. destruct (ss_end bs s0); eexists _, _; reflexivity.
  Qed.

  Lemma In_put_always st fo r k v : In (k, v) (s_lru (sr_put_always st fo r)) -> v = r \/ In (k, v) (s_lru st).
  Proof.
    unfold sr_put_always, lru_put. cbn [sr_cnt sr_set_lru s_lru]. intro IN.
    apply (In_firstn (fun _ => None) bs f (fun _ => True)) in IN.
    destruct IN as [X|IN]; [inversion X; left; reflexivity|]. apply In_aremove in IN. right. exact IN.
  Qed.
  Lemma In_put st fo r k v : In (k, v) (s_lru (sr_put st fo r)) -> v = r \/ In (k, v) (s_lru st).
  Proof. unfold sr_put. destruct (s_on st); [apply In_put_always|intro IN; right; exact IN]. Qed.

  (* where the message of a hit comes from, and what the hit leaves in the LRU cache *)
  Lemma check_store_src st fo st1 n s p stm : sr_check_store bs f st fo = (Some (st1, Found (n, s), p), stm) ->
    ((exists k, In (k, SF n s) (s_lru st)) \/ (exists k, alookup k (s_syslines st) = Some s)) /\
    (forall k v, In (k, v) (s_lru st1) -> v = SF n s \/ In (k, v) (s_lru st)).
  Proof.
    unfold sr_check_store.
    assert (E0 : forall st0 o, (if s_on st
                     then match lru_get fo (s_lru st) with
                          | (Some r, c) => (Some r, sr_cnt d_lru_hit (sr_set_lru c st))
                          | (None, _) => (None, sr_cnt d_lru_miss st)
                          end
                     else (None, st)) = (o, st0) ->
                 match o with
                 | Some r => alookup fo (s_lru st) = Some r /\ (forall k v, In (k, v) (s_lru st0) -> v = r \/ In (k, v) (s_lru st))
                 | None => s_lru st0 = s_lru st /\ s_syslines st0 = s_syslines st
                 end).
    { intros st0 o. destruct (s_on st); [|intro H; injection H as <- <-; auto].
      unfold lru_get. destruct (alookup fo (s_lru st)) as [r|] eqn:LK; intro H; injection H as <- <-.
      - split; [reflexivity|]. cbn [sr_cnt sr_set_lru s_lru]. intros k v [X|IN]; [inversion X; left; reflexivity|].
        apply In_aremove in IN. right. exact IN.
      - auto. }
    destruct (if s_on st then _ else _) as [[r|] st0] eqn:LS; specialize (E0 _ _ eq_refl).
    - destruct E0 as [LK FR]. intro H. injection H as <- HR _ _. destruct r as [n' s'|]; [|discriminate HR].
      cbn in HR. injection HR as <- <-. split; [left; exists fo; apply alookup_In; exact LK|exact FR].
    - destruct E0 as [EL ES]. destruct (range_get (s_range st0) fo) as [v|].
      + cbn [s_syslines sr_cnt]. destruct (alookup v (s_syslines st0)) as [s'|] eqn:LK; [|intro H; discriminate H].
        destruct (ss_end bs s') as [e|]; [|intro H; discriminate H].
        intro H. injection H as <- <- <- _ _. split; [right; exists v; rewrite <- ES; exact LK|].
        intros k w IN. apply In_put_always in IN. cbn [sr_cnt s_lru] in IN. rewrite EL in IN. exact IN.
      + cbn [s_syslines sr_cnt]. destruct (alookup fo (s_syslines st0)) as [s'|] eqn:LK; [|intro H; discriminate H].
        destruct (ss_end bs s') as [e|]; [|intro H; discriminate H].
        intro H. injection H as <- <- <- _ _. split; [right; exists fo; rewrite <- ES; exact LK|].
        intros k w IN. destruct (is_sysline_last bs f (ss_sysline s')).
        * apply In_put_always in IN. cbn [sr_cnt s_lru] in IN. rewrite EL in IN. exact IN.
        * apply In_put in IN. cbn [sr_cnt s_lru] in IN. rewrite EL in IN. exact IN.
  Qed.
End Hit.

(* ---------------------------------------------------------------- the calls of stage 3 *)
Section Stage3.
  Variable dated_y : option Z -> list N -> option Z.
  Variable bs : N.
  Variable f : file.
  Hypothesis Hbs : 0 < bs.
  Variable yl : Z.                         (* the year the reverse pass ended with *)

  Local Notation DN := (dated_y None).
  Local Notation Dl := (D dated_y yl).
  Local Notation ph := (phi dated_y f yl).
  Local Notation rds := (rd_ssl bs ph).
  Local Notation YIl := (YI dated_y bs f yl).

  (* what stage 3 emits for the message (b, g): its re-dated form is the spec's message, its instant the stored one *)
  Definition emitted (M : list (N * ssl)) (s : ssl) (bg : N * group) : Prop :=
    ssl_ok bs f (rds s) (fst bg) (snd bg) /\ exists s', alookup (fst bg) M = Some s' /\ ss_dt s' = ss_dt s.

  Lemma hit_call st o g s0 st1 r p : YIl st -> lruS bs st -> is_group Dl f o g ->
    alookup o (s_syslines st) = Some s0 ->
    c_find_sysline DN bs f st o = (st1, r, p) ->
    exists s, r = Found (o + glen g, s) /\ emitted (s_syslines st) s (o, g) /\
              YIl st1 /\ lruS bs st1 /\ s_syslines st1 = s_syslines st.
  Proof.
    intros W LS G LK C.
    destruct (hit_some bs f st o s0 LK) as (ans & stm & CS).
    rewrite (find_sysline_hit_oracle_free DN Dl bs f st o ans stm CS) in C.
    destruct (yi_find dated_y bs f Hbs yl _ _ _ _ _ W C) as (W1 & NP & R1 & _ & _).
    destruct (is_group_pos Dl f _ _ G) as (PG & _).
    pose proof (spec_at_group Dl f o g o G ltac:(lia) ltac:(lia)) as SP.
    destruct r as [[n s]| | |]; [|cbn in R1; congruence|cbn in R1; contradiction|congruence].
    cbn in R1. destruct R1 as (b' & g' & G' & OK & SP'). rewrite SP in SP'. inversion SP'; subst b' g'. clear SP'.
    destruct (ssl_ok_facts bs f Hbs _ _ _ OK PG) as (BG & _). rewrite rd_begin in BG.
    unfold c_find_sysline in C. rewrite CS in C. subst ans.
    destruct (check_store_src bs f _ _ _ _ _ _ _ CS) as [SRC FR].
    pose proof (check_store_sys bs f st o) as [_ SY]. rewrite CS in SY. cbn [fst] in SY.
    assert (ST : exists s', alookup o (s_syslines st) = Some s' /\ ss_dt s' = ss_dt s).
    { destruct SRC as [(k & IN)|(k & LK2)].
      - destruct (LS _ _ _ IN) as (b & s' & B & L2 & DT). rewrite BG in B. inversion B; subst b. exists s'. auto.
      - destruct W as [[I _] _].
        destruct (si_sys _ _ _ _ I k (rds s)) as (g2 & G2 & OK2).
        { cbn [rdS s_syslines]. rewrite alookup_mapv, LK2. reflexivity. }
        destruct (is_group_pos Dl f _ _ G2) as (PG2 & _).
        destruct (ssl_ok_facts bs f Hbs _ _ _ OK2 PG2) as (BG2 & _). rewrite rd_begin, BG in BG2. inversion BG2; subst k.
        exists s. auto. }
    eexists. split; [reflexivity|]. split; [split; [exact OK|exact ST]|]. split; [exact W1|]. split; [|exact SY].
    intros k n' s' IN. destruct (FR _ _ IN) as [X|OLD].
    - inversion X; subst n' s'. destruct ST as (s2 & L2 & DT). exists o, s2. rewrite SY. auto.
    - destruct (LS _ _ _ OLD) as (b & s2 & B & L2 & DT). exists b, s2. rewrite SY. auto.
  Qed.

  Lemma last_test_rd s o g : ssl_ok bs f (rds s) o g -> 0 < glen g -> o + glen g <= lenN f ->
    is_sysline_last bs f (ss_sysline s) = (o + glen g =? lenN f).
  Proof.
    intros OK P LE. destruct (ssl_ok_facts bs f Hbs _ _ _ OK P) as (_ & EN & _). rewrite rd_end in EN.
    unfold is_sysline_last. unfold ss_end in EN. rewrite EN. unfold fileoffset_last.
    destruct (N.eqb_spec (lenN f) 0); [lia|].
    destruct (N.eqb_spec (o + glen g - 1) (lenN f - 1)); destruct (N.eqb_spec (o + glen g) (lenN f)); auto; lia.
  Qed.

  Variable M : list (N * ssl).             (* `syslines` as the reverse pass left it *)
  Hypothesis ALL : forall b g, is_group Dl f b g -> exists s0, alookup b M = Some s0.

  Lemma stage3_call st o g gs st1 r p : YIl st -> lruS bs st -> s_syslines st = M -> glist_ok Dl f o (g :: gs) ->
    c_find_sysline DN bs f st o = (st1, r, p) ->
    exists s, r = Found (o + glen g, s) /\ emitted M s (o, g) /\ YIl st1 /\ lruS bs st1 /\ s_syslines st1 = M /\
              is_sysline_last bs f (ss_sysline s) = match gs with [] => true | _ => false end.
  Proof.
    intros W LS EM GL C. destruct (glist_cons Dl bs f Hbs _ _ _ GL) as (G & P & GL' & LAST).
    destruct (ALL _ _ G) as (s0 & LK). rewrite <- EM in LK.
    destruct (hit_call st o g s0 st1 r p W LS G LK C) as (s & -> & EMT & W1 & LS1 & SY).
    exists s. rewrite EM in EMT, SY. split; [reflexivity|]. split; [exact EMT|]. split; [exact W1|]. split; [exact LS1|].
    split; [exact SY|].
    destruct (is_group_pos Dl f _ _ G) as (_ & LE & _).
    rewrite (last_test_rd s o g (proj1 EMT) P LE).
    destruct gs; destruct (N.eqb_spec (o + glen g) (lenN f)) as [X|X]; auto.
    - exfalso. apply X. apply LAST. reflexivity.
    - apply LAST in X. discriminate.
  Qed.

  Lemma stage3_loop fuel : forall st o g gs i prev acc st' r,
    YIl st -> lruS bs st -> s_syslines st = M -> glist_ok Dl f o (g :: gs) -> (length (g :: gs) < fuel)%nat ->
    c_stream_loop DN fuel bs f [] i st o prev acc = (st', r) ->
    exists sls, r = Found (acc ++ sls) /\ Forall2 (emitted M) sls (with_offsets o (g :: gs)).
  Proof.
    induction fuel as [|k IH]; intros st o g gs i prev acc st' r W LS EM GL FU; [lia|].
    cbn [c_stream_loop].
    destruct (c_find_sysline DN bs f st o) as [[st1 r1] p1] eqn:CF.
    destruct (stage3_call _ _ _ _ _ _ _ W LS EM GL CF) as (s & -> & EMT & W1 & LS1 & SY & LT).
    rewrite LT. destruct (glist_cons Dl bs f Hbs _ _ _ GL) as (_ & _ & GL' & _).
    destruct gs as [|g2 gs].
    - intro H; injection H as <- <-. exists [s]. split; [reflexivity|]. cbn [with_offsets]. constructor; [exact EMT|constructor].
    - assert (REC : forall i' pv, c_stream_loop DN k bs f [] i' st1 (o + glen g) pv (acc ++ [s]) = (st', r) ->
                exists sls, r = Found (acc ++ sls) /\ Forall2 (emitted M) sls (with_offsets o (g :: g2 :: gs))).
      { intros i' pv H.
        destruct (IH _ _ _ _ _ _ _ _ _ W1 LS1 SY GL' ltac:(cbn [length] in *; lia) H) as (sls & -> & F2).
        exists (s :: sls). rewrite <- app_assoc. split; [reflexivity|].
        cbn [with_offsets]. constructor; [exact EMT|exact F2]. }
      destruct prev as [pv|]; cbn [plan_at]; apply REC.
  Qed.

  Theorem stage3_stream st st' r : YIl st -> lruS bs st -> s_syslines st = M ->
    first_dated_offset Dl f = 0 -> syslines Dl f <> [] ->
    c_stream DN bs f [] st = (st', r) ->
    exists sls, r = Found sls /\ Forall2 (emitted M) sls (syslines_at Dl f).
  Proof.
    intros W LS EM Z0 NE. unfold c_stream.
    pose proof (glist_all Dl f) as GL. rewrite Z0 in GL. unfold syslines_at. rewrite Z0.
    assert (LEN : (length (syslines Dl f) <= length f)%nat).
    { pose proof (begins_len Dl f) as X. rewrite map_length in X. unfold syslines_at in X.
      rewrite with_offsets_length in X. exact X. }
    destruct (syslines Dl f) as [|g gs]; [congruence|].
    destruct (c_find_sysline DN bs f st 0) as [[st1 r1] p1] eqn:CF.
    destruct (stage3_call _ _ _ _ _ _ _ W LS EM GL CF) as (s & -> & EMT & W1 & LS1 & SY & LT).
    rewrite LT. destruct (glist_cons Dl bs f Hbs _ _ _ GL) as (_ & _ & GL' & _).
    destruct gs as [|g2 gs].
    - intro H; injection H as <- <-. exists [s]. split; [reflexivity|]. cbn [with_offsets]. constructor; [exact EMT|constructor].
    - intro H.
      destruct (stage3_loop (Datatypes.S (length f)) _ _ _ _ _ _ _ _ _ W1 LS1 SY GL' ltac:(cbn [length] in *; lia) H)
        as (sls & -> & F2).
      exists (s :: sls). split; [reflexivity|]. cbn [with_offsets]. constructor; [exact EMT|exact F2].
  Qed.
End Stage3.

(* ---------------------------------------------------------------- the driver *)
Lemma groups_nonempty dated (f : file) : first_dated_offset dated f = 0 -> 0 < lenN f -> syslines dated f <> [].
Proof.
  unfold first_dated_offset, leading, syslines. intros Z0 PF E.
  pose proof (groups_concat dated (lines f)) as GC. rewrite lines_concat, E in GC. cbn in GC. rewrite app_nil_r in GC.
  rewrite GC in Z0. lia.
Qed.

Lemma Forall2_In_l {A B} (P : A -> B -> Prop) l1 l2 a : Forall2 P l1 l2 -> In a l1 -> exists b, P a b.
Proof. induction 1 as [|x y l1 l2 H _ IH]; [contradiction|]. intros [<-|IN]; [eauto|auto]. Qed.

Lemma Forall2_map_eq {A B C} (f1 : A -> C) (f2 : B -> C) l1 l2 :
  Forall2 (fun a b => f1 a = f2 b) l1 l2 -> map f1 l1 = map f2 l2.
Proof. induction 1; cbn; congruence. Qed.

Lemma sobs_rd bs (f : file) phi s : sobs bs f s = (ss_dt s, snd (sobs bs f (rd_ssl bs phi s))).
Proof.
  unfold sobs, obs_sysline, ss_sysline. cbn [fst snd]. rewrite rd_lines. reflexivity.
Qed.

Lemma emit_values dated_y bs (f : file) yl st' : forall L3 o sls ys,
  Forall2 (emitted dated_y bs f yl (s_syslines st')) sls (with_offsets o (map (rdg (D dated_y yl)) L3)) ->
  Forall2 (stored bs st') (map fst (with_offsets o L3)) ys ->
  Forall2 (fun s gyt => sobs bs f s = (snd (snd gyt), snd (fst gyt))) sls (combine L3 ys).
Proof.
  induction L3 as [|g L IH]; intros o sls ys F1 F2; cbn [map with_offsets] in F1, F2.
  - inversion F1; subst. cbn. constructor.
  - inversion F1 as [|s bg sls' rest EM F1']; subst. inversion F2 as [|b yt bl ys' ST F2']; subst.
    cbn [combine]. constructor.
    + cbn [fst snd]. destruct EM as [OK (s' & LK & DT)]. cbn [fst snd] in OK, LK.
      destruct ST as (s2 & LK2 & _ & DT2). rewrite LK in LK2. inversion LK2; subst s2.
      rewrite (sobs_rd bs f (phi dated_y f yl) s). rewrite (sobs_ok bs f _ _ _ OK). unfold rdg. cbn [snd]. congruence.
    + apply (IH (o + lenN (group_bytes g))); [|exact F2'].
      replace (o + lenN (group_bytes g)) with (o + lenN (group_bytes (rdg (D dated_y yl) g))); [exact F1'|].
      unfold group_bytes, rdg. reflexivity.
Qed.

(* YEARLESS DRIVER COMPLETE (no datetime window, no drops in stage 3, the file begins with a message): the driver emits the
   spec groups of the file, the i-th with the instant C11's assign_years gives the i-th message *)
Theorem yearless_driver_nodrop dated_y bs (f : file) off msgs Y ys plan st : 0 < bs ->
  (forall y y' l, dated_y (Some y) l = None <-> dated_y (Some y') l = None) ->
  let stream := b_stream (l_blk (s_lr st)) in
  let st1 := if stream then sr_set_lr (lr_set_blk (b_disable_drop (l_blk (s_lr st))) (s_lr st)) st else st in
  lr_inv bs f (s_lr st1) -> 0 < lenN f ->
  let begins := map fst (syslines_at (dated_y (Some Y)) f) in
  Forall2 (fun b m => forall y, inst dated_y f y b = Year.with_year off y m) begins msgs ->
  Year.assign_years 2 off Y msgs = Some ys ->
  first_dated_offset (dated_y (Some Y)) f = 0 ->
  (if stream then [] else plan) = [] ->
  exists st'' sls, c_stream_year dated_y bs f Year.TOL Y None None plan st = (st'', Found sls) /\
    map (sobs bs f) sls = map (fun gyt => (snd (snd gyt), snd (fst gyt))) (combine (syslines (dated_y (Some Y)) f) ys) /\
    length ys = length (syslines (dated_y (Some Y)) f).
Proof.
  intros H HI stream st1 L PF begins F2 AY Z0 NP.
  destruct (yearless_stage2_lru dated_y bs f off msgs Y ys None plan st H HI L PF F2 AY) as (st' & EQ & W & ST & LR).
  fold stream in EQ. rewrite NP in EQ. rewrite stream_win_none in EQ.
  set (yl := match ys with [] => Y | (y, _) :: _ => y end) in *.
  pose proof (groups_nonempty (dated_y (Some Y)) f Z0 PF) as NE.
  assert (NB : begins <> []).
  { unfold begins, syslines_at. destruct (syslines (dated_y (Some Y)) f); [congruence|discriminate]. }
  specialize (LR Z0 NB). fold begins in ST.
  (* the structure of the file read with the year the pass ended with *)
  pose proof (groups_redate (D dated_y Y) (D dated_y yl) (HI Y yl) (lines f)) as GR.
  assert (SYL : syslines (D dated_y yl) f = map (rdg (D dated_y yl)) (syslines (D dated_y Y) f)).
  { unfold syslines. rewrite GR. reflexivity. }
  assert (FDL : first_dated_offset (D dated_y yl) f = 0).
  { unfold first_dated_offset, leading. rewrite GR. cbn [fst]. exact Z0. }
  assert (ALL : forall b g, is_group (D dated_y yl) f b g -> exists s0, alookup b (s_syslines st') = Some s0).
  { intros b g G. pose proof (is_group_year dated_y bs f H HI yl Y b g G) as G0.
    assert (IN : In b begins) by (unfold begins; apply in_map_iff; exists (b, (phi dated_y f Y b, snd g)); auto).
    destruct (Forall2_In_l _ _ _ _ ST IN) as (yt & s0 & LK & _). eauto. }
  assert (NEL : syslines (D dated_y yl) f <> []).
  { rewrite SYL. intro E. apply map_eq_nil in E. exact (NE E). }
  destruct (c_stream (dated_y None) bs f [] st') as [st'' r] eqn:CS.
  destruct (stage3_stream dated_y bs f H yl (s_syslines st') ALL st' st'' r W LR eq_refl FDL NEL CS) as (sls & -> & EMS).
  exists st'', sls. split; [exact EQ|].
  unfold syslines_at in EMS. rewrite FDL, SYL in EMS.
  unfold begins, syslines_at in ST. rewrite Z0 in ST.
  pose proof (emit_values dated_y bs f yl st' _ 0 sls ys EMS ST) as EV. split.
  - apply Forall2_map_eq. exact EV.
  - pose proof (Forall2_len _ _ _ ST) as LN. rewrite map_length, with_offsets_length in LN. symmetry. exact LN.
Qed.

(* ================================================================ drops in stage 3 (a plain file, any plan) *)

(* ---------------------------------------------------------------- drop_data_try commutes with the re-dating *)
Section DropRd.
  Variable bs : N.
  Variable f : file.
  Variable phi : N -> Z.
  Local Notation rds := (rd_ssl bs phi).
  Local Notation rdst := (rdS bs phi).

  Lemma existsb_id_rd id l : existsb (fun x => ss_id x =? id) (map rds l) = existsb (fun x => ss_id x =? id) l.
  Proof. induction l as [|s l IH]; cbn; [reflexivity|]. rewrite rd_id, IH. reflexivity. Qed.

  Lemma line_refs_rd st id : line_refs (rdst st) id = line_refs st id.
  Proof.
    unfold line_refs. rewrite live_rd. unfold lenN. f_equal.
    induction (live_ssl st) as [|s l IH]; cbn [map filter]; [reflexivity|]. rewrite rd_lines.
    destruct (existsb _ (ss_lines s)); cbn [length]; rewrite IH; reflexivity.
  Qed.

  Definition drop_line_step (st : sr_state) (l : sline) : sr_state :=
    sr_set_lr (lr_drop_line bs (lr_set_ext (sr_held st []) (s_lr st)) l (line_refs st (sl_id l))) st.

  Lemma drop_lines_rd lines : forall st, fold_left drop_line_step lines (rdst st) = rdst (fold_left drop_line_step lines st).
  Proof.
    induction lines as [|l lines IH]; intro st; cbn [fold_left]; [reflexivity|].
    rewrite <- IH. f_equal. unfold drop_line_step. rewrite held_rd, line_refs_rd. reflexivity.
  Qed.

  Lemma drop_sysline_rd st fo : c_drop_sysline bs (rdst st) fo = rdst (c_drop_sysline bs st fo).
  Proof.
    unfold c_drop_sysline. cbn [rdS s_syslines]. rewrite alookup_mapv.
    destruct (alookup fo (s_syslines st)) as [s|]; cbn [option_map]; [|reflexivity].
    rewrite rd_begin, rd_id, rd_lines.
    set (A := mkSR (s_lr st) (aremove fo (s_syslines st)) (s_range st)
                   (match ss_begin bs s with Some b => lru_pop b (s_lru st) | None => s_lru st end)
                   (s_on st) (s_parse st) (s_parse_on st) (s_nid st) (s_cnt st)).
    assert (EA : mkSR (s_lr (rdst st)) (aremove fo (mapv rds (s_syslines st))) (s_range (rdst st))
                   (match ss_begin bs s with Some b => lru_pop b (s_lru (rdst st)) | None => s_lru (rdst st) end)
                   (s_on (rdst st)) (s_parse (rdst st)) (s_parse_on (rdst st)) (s_nid (rdst st)) (s_cnt (rdst st)) = rdst A).
    { unfold A. cbn [rdS s_lr s_syslines s_range s_lru s_on s_parse s_parse_on s_nid s_cnt]. rewrite aremove_mapv.
      destruct (ss_begin bs s); [unfold lru_pop; rewrite aremove_mapv|]; reflexivity. }
    rewrite EA. rewrite live_rd, existsb_id_rd.
    destruct (existsb (fun x => ss_id x =? ss_id s) (live_ssl A)); [reflexivity|].
    change (sr_cnt d_drop_ok (rdst A)) with (rdst (sr_cnt d_drop_ok A)).
    exact (drop_lines_rd (ss_lines s) (sr_cnt d_drop_ok A)).
  Qed.

  Lemma drop_fold_rd keys : forall st, fold_left (c_drop_sysline bs) keys (rdst st) = rdst (fold_left (c_drop_sysline bs) keys st).
  Proof. induction keys as [|k keys IH]; intro st; cbn [fold_left]; [reflexivity|]. rewrite drop_sysline_rd. apply IH. Qed.

  Lemma drop_data_rd st bo : c_drop_data bs (rdst st) bo = rdst (c_drop_data bs st bo).
  Proof.
    unfold c_drop_data. cbn [rdS s_syslines].
    assert (EK : map fst (filter (fun e => match ss_bo_last (snd e) with Some b => b <=? bo | None => false end) (mapv rds (s_syslines st))) =
                 map fst (filter (fun e => match ss_bo_last (snd e) with Some b => b <=? bo | None => false end) (s_syslines st))).
    { unfold mapv. induction (s_syslines st) as [|[k s] m IH]; cbn [map filter fst snd]; [reflexivity|].
      rewrite rd_bo_last. destruct (match ss_bo_last s with Some b => b <=? bo | None => false end); cbn [map fst]; rewrite IH; reflexivity. }
    rewrite EK. apply drop_fold_rd.
  Qed.

  Lemma drop_try_rd st p : c_drop_data_try bs (rdst st) (rds p) = rdst (c_drop_data_try bs st p).
  Proof.
    unfold c_drop_data_try. rewrite rd_bo_first. destruct (ss_bo_first p) as [b|]; [|reflexivity].
    destruct (1 <? b); [apply drop_data_rd|reflexivity].
  Qed.

  (* what the drops leave: nothing new in `syslines` nor in the LRU cache *)
  Lemma drop_lines_frame lines : forall st,
    s_syslines (fold_left drop_line_step lines st) = s_syslines st /\ s_lru (fold_left drop_line_step lines st) = s_lru st.
  Proof. induction lines as [|l lines IH]; intro st; cbn [fold_left]; [auto|]. destruct (IH (drop_line_step st l)) as [-> ->]. auto. Qed.

  Lemma drop_sysline_frame st fo :
    (forall k x, alookup k (s_syslines (c_drop_sysline bs st fo)) = Some x -> alookup k (s_syslines st) = Some x) /\
    (forall e, In e (s_lru (c_drop_sysline bs st fo)) -> In e (s_lru st)).
  Proof.
    unfold c_drop_sysline. destruct (alookup fo (s_syslines st)) as [s|]; [|auto].
    set (A := mkSR _ _ _ _ _ _ _ _ _).
    assert (FA : (forall k x, alookup k (s_syslines A) = Some x -> alookup k (s_syslines st) = Some x) /\
                 (forall e, In e (s_lru A) -> In e (s_lru st))).
    { unfold A. cbn [s_syslines s_lru]. split; [intros k x; apply alookup_aremove_Some|].
      destruct (ss_begin bs s); [unfold lru_pop; intros e IN; eapply In_aremove; exact IN|auto]. }
    destruct (existsb _ (live_ssl A)); [exact FA|].
    destruct (drop_lines_frame (ss_lines s) (sr_cnt d_drop_ok A)) as [E1 E2].
    fold drop_line_step. rewrite E1, E2. exact FA.
  Qed.

  Lemma drop_fold_frame keys : forall st,
    (forall k x, alookup k (s_syslines (fold_left (c_drop_sysline bs) keys st)) = Some x -> alookup k (s_syslines st) = Some x) /\
    (forall e, In e (s_lru (fold_left (c_drop_sysline bs) keys st)) -> In e (s_lru st)).
  Proof.
    induction keys as [|k0 keys IH]; intro st; cbn [fold_left]; [auto|].
    destruct (IH (c_drop_sysline bs st k0)) as [A1 A2]. destruct (drop_sysline_frame st k0) as [B1 B2]. split; auto.
  Qed.

  Lemma drop_try_frame st p :
    (forall k x, alookup k (s_syslines (c_drop_data_try bs st p)) = Some x -> alookup k (s_syslines st) = Some x) /\
    (forall e, In e (s_lru (c_drop_data_try bs st p)) -> In e (s_lru st)).
  Proof.
    unfold c_drop_data_try. destruct (ss_bo_first p) as [b|]; [|auto]. destruct (1 <? b); [|auto].
    unfold c_drop_data. apply drop_fold_frame.
  Qed.
End DropRd.

(* ---------------------------------------------------------------- stage 3 with drops *)
Section Stage3D.
  Variable dated_y : option Z -> list N -> option Z.
  Variable bs : N.
  Variable f : file.
  Hypothesis Hbs : 0 < bs.
  Variable yl : Z.

  Local Notation DN := (dated_y None).
  Local Notation Dl := (D dated_y yl).
  Local Notation ph := (phi dated_y f yl).
  Local Notation rds := (rd_ssl bs ph).
  Local Notation rdst := (rdS bs ph).
  Local Notation rinvl := (@rinv Dl bs f (lr_inv bs f)).
  Local Notation emit := (emitted dated_y bs f yl).

  (* the messages of the LRU cache that begin at or after o are stored *)
  Definition lruSo (o : N) (st : sr_state) : Prop := forall k n s b, In (k, SF n s) (s_lru st) ->
    ss_begin bs s = Some b -> o <= b -> exists s', alookup b (s_syslines st) = Some s' /\ ss_dt s' = ss_dt s.

  Lemma find_d st fo st1 r p : rinvl (rdst st) -> dangling_behind st fo -> c_find_sysline Dl bs f st fo = (st1, r, p) ->
    rinvl (rdst st1) /\ dangling_behind st1 fo /\ r <> Panic /\ sres_ok Dl bs f (rdst st) fo (rd_res bs ph r).
  Proof.
    intros RI DG C.
    destruct (c_find_sysline Dl bs f (rdst st) fo) as [[st2 r2] p2] eqn:C2.
    destruct (find_step Dl bs f Hbs _ _ _ _ _ RI C2) as (RI2 & R2 & DD).
    destruct (DD (proj2 (nd_rd bs ph st fo) DG)) as [NP2 DG2].
    assert (P : forall n s b, r2 = Found (n, s) -> ss_begin bs s = Some b -> ph b = ss_dt s).
    { intros n s b -> B. cbn in R2. destruct R2 as (b' & g & G & OK & _).
      destruct (is_group_pos Dl f _ _ G) as (PG & _).
      destruct (ssl_ok_facts bs f Hbs _ _ _ OK PG) as (BG & _). rewrite BG in B. inversion B; subst b'.
      destruct (group_phi dated_y bs f Hbs yl _ _ G) as [E _]. destruct OK as (DT & _). congruence. }
    destruct (find_sysline_rd2 bs f ph Dl _ _ _ _ _ _ _ _ C C2 P) as (-> & -> & -> & _).
    split; [exact RI2|]. split; [apply (nd_rd bs ph); exact DG2|]. split; [intro E; subst r; apply NP2; reflexivity|exact R2].
  Qed.

  Lemma hit_call_d st o g s0 st1 r p : rinvl (rdst st) -> dangling_behind st o -> lruSo o st -> is_group Dl f o g ->
    alookup o (s_syslines st) = Some s0 ->
    c_find_sysline DN bs f st o = (st1, r, p) ->
    exists s, r = Found (o + glen g, s) /\ emit (s_syslines st) s (o, g) /\
              rinvl (rdst st1) /\ dangling_behind st1 o /\ lruSo o st1 /\ s_syslines st1 = s_syslines st.
  Proof.
    intros RI DG LS G LK C.
    destruct (hit_some bs f st o s0 LK) as (ans & stm & CS).
    rewrite (find_sysline_hit_oracle_free DN Dl bs f st o ans stm CS) in C.
    destruct (find_d _ _ _ _ _ RI DG C) as (RI1 & DG1 & NP & R1).
    destruct (is_group_pos Dl f _ _ G) as (PG & _).
    pose proof (spec_at_group Dl f o g o G ltac:(lia) ltac:(lia)) as SP.
    destruct r as [[n s]| | |]; [|cbn in R1; congruence|cbn in R1; contradiction|congruence].
    cbn in R1. destruct R1 as (b' & g' & G' & OK & SP'). rewrite SP in SP'. inversion SP'; subst b' g'. clear SP'.
    destruct (ssl_ok_facts bs f Hbs _ _ _ OK PG) as (BG & _). rewrite rd_begin in BG.
    unfold c_find_sysline in C. rewrite CS in C. subst ans.
    destruct (check_store_src bs f _ _ _ _ _ _ _ CS) as [SRC FR].
    pose proof (check_store_sys bs f st o) as [_ SY]. rewrite CS in SY. cbn [fst] in SY.
    assert (ST : exists s', alookup o (s_syslines st) = Some s' /\ ss_dt s' = ss_dt s).
    { destruct SRC as [(k & IN)|(k & LK2)].
      - exact (LS _ _ _ _ IN BG (N.le_refl o)).
      - destruct RI as [I _].
        destruct (si_sys _ _ _ _ I k (rds s)) as (g2 & G2 & OK2).
        { cbn [rdS s_syslines]. rewrite alookup_mapv, LK2. reflexivity. }
        destruct (is_group_pos Dl f _ _ G2) as (PG2 & _).
        destruct (ssl_ok_facts bs f Hbs _ _ _ OK2 PG2) as (BG2 & _). rewrite rd_begin, BG in BG2. inversion BG2; subst k.
        exists s. auto. }
    eexists. split; [reflexivity|]. split; [split; [exact OK|exact ST]|]. split; [exact RI1|]. split; [exact DG1|].
    split; [|exact SY].
    intros k n' s' b IN B LB. rewrite SY. destruct (FR _ _ IN) as [X|OLD].
    - inversion X; subst n' s'. rewrite BG in B. inversion B; subst b. exact ST.
    - exact (LS _ _ _ _ OLD B LB).
  Qed.

  Variable M : list (N * ssl).
  Hypothesis ALL : forall b g, is_group Dl f b g -> exists s0, alookup b M = Some s0.

  (* from o on `syslines` is as the reverse pass left it *)
  Definition ahead (o : N) (st : sr_state) : Prop := forall b, o <= b -> alookup b (s_syslines st) = alookup b M.

  Definition inv3 (o : N) (st : sr_state) : Prop :=
    rinvl (rdst st) /\ dangling_behind st o /\ lruSo o st /\ ahead o st.

  Lemma inv3_mono o e st : inv3 o st -> o <= e -> inv3 e st.
  Proof.
    intros (RI & DG & LS & AH) LE. split; [exact RI|]. split; [eapply dangling_mono; eauto|]. split.
    - intros k n s b IN B LB. apply (LS k n s b IN B). lia.
    - intros b LB. apply AH. lia.
  Qed.

  Lemma stage3_call_d st o g gs st1 r p : inv3 o st -> glist_ok Dl f o (g :: gs) ->
    c_find_sysline DN bs f st o = (st1, r, p) ->
    exists s, r = Found (o + glen g, s) /\ emit M s (o, g) /\ inv3 o st1 /\
              is_sysline_last bs f (ss_sysline s) = match gs with [] => true | _ => false end.
  Proof.
    intros (RI & DG & LS & AH) GL C. destruct (glist_cons Dl bs f Hbs _ _ _ GL) as (G & P & GL' & LAST).
    destruct (ALL _ _ G) as (s0 & LK). rewrite <- (AH o (N.le_refl o)) in LK.
    destruct (hit_call_d st o g s0 st1 r p RI DG LS G LK C) as (s & -> & [OK (s' & L2 & DT)] & RI1 & DG1 & LS1 & SY).
    exists s. split; [reflexivity|]. split.
    { split; [exact OK|]. exists s'. cbn [fst] in *. rewrite <- (AH o (N.le_refl o)). auto. }
    split.
    { split; [exact RI1|]. split; [exact DG1|]. split; [exact LS1|]. intros b LB. rewrite SY. apply AH. exact LB. }
    destruct (is_group_pos Dl f _ _ G) as (_ & LE & _).
    rewrite (last_test_rd dated_y bs f Hbs yl s o g OK P LE).
    destruct gs; destruct (N.eqb_spec (o + glen g) (lenN f)) as [X|X]; auto.
    - exfalso. apply X. apply LAST. reflexivity.
    - apply LAST in X. discriminate.
  Qed.

  (* drop_data_try(the message before the current one) removes nothing at or after o *)
  Lemma drop_step st o pv pb pg : inv3 o st -> ssl_ok bs f (rds pv) pb pg -> is_group Dl f pb pg -> pb < o ->
    inv3 o (c_drop_data_try bs st pv).
  Proof.
    intros (RI & DG & LS & AH) OK PG LT.
    destruct (drop_try_ok Dl bs f Hbs (lr_inv_drop bs f) (rdst st) o (rds pv) pb pg RI OK PG ltac:(lia)) as [RI2 DG2].
    rewrite drop_try_rd in RI2, DG2.
    destruct (drop_try_frame bs st pv) as [FS FL].
    assert (KEEP : forall b x, o <= b -> alookup b (s_syslines st) = Some x ->
                   alookup b (s_syslines (c_drop_data_try bs st pv)) = Some x).
    { intros b x LB LKx.
      destruct (alookup b (s_syslines (c_drop_data_try bs st pv))) as [y|] eqn:LKy.
      { apply FS in LKy. congruence. }
      exfalso. destruct (is_group_pos Dl f _ _ PG) as (PP & _).
      destruct (ssl_bo bs f Hbs _ _ _ OK PP) as (BF & _). rewrite rd_bo_first in BF.
      unfold c_drop_data_try in LKy. rewrite BF in LKy.
      destruct (N.ltb_spec 1 (pb / bs)) as [C1|C1]; [|congruence].
      destruct RI as [I AS].
      destruct (c_drop_data_ok Dl bs f (lr_inv_drop bs f) (rdst st) (pb / bs - 2) I AS) as (_ & _ & _ & _ & E).
      rewrite drop_data_rd in E.
      destruct (E b (rds x)) as (bl & BL & LE).
      { cbn [rdS s_syslines]. rewrite alookup_mapv, LKx. reflexivity. }
      { cbn [rdS s_syslines]. rewrite alookup_mapv, LKy. reflexivity. }
      destruct (si_sys _ _ _ _ I b (rds x)) as (g' & G' & OK').
      { cbn [rdS s_syslines]. rewrite alookup_mapv, LKx. reflexivity. }
      destruct (is_group_pos Dl f _ _ G') as (P' & _).
      destruct (ssl_bo bs f Hbs _ _ _ OK' P') as (_ & BL'). rewrite BL' in BL. inversion BL; subst bl.
      pose proof (div_mono pb (b + glen g' - 1) bs Hbs ltac:(lia)). lia. }
    split; [exact RI2|]. split; [apply (nd_rd bs ph); apply DG2; apply (nd_rd bs ph); exact DG|]. split.
    - intros k n s b IN B LB. apply FL in IN. destruct (LS k n s b IN B LB) as (s' & L2 & DT).
      exists s'. split; [apply KEEP; assumption|exact DT].
    - intros b LB. rewrite <- (AH b LB).
      destruct (alookup b (s_syslines st)) as [x|] eqn:LKx; [apply KEEP; assumption|].
      destruct (alookup b (s_syslines (c_drop_data_try bs st pv))) as [y|] eqn:LKy; [|reflexivity].
      apply FS in LKy. congruence.
  Qed.

  Definition prev3 (prev : option ssl) (o : N) : Prop :=
    match prev with
    | Some pv => exists pb pg, ssl_ok bs f (rds pv) pb pg /\ is_group Dl f pb pg /\ pb < o
    | None => True
    end.

  Lemma stage3_loop_d fuel : forall st o g gs plan i prev acc st' r,
    inv3 o st -> glist_ok Dl f o (g :: gs) -> (length (g :: gs) < fuel)%nat -> prev3 prev o ->
    c_stream_loop DN fuel bs f plan i st o prev acc = (st', r) ->
    exists sls, r = Found (acc ++ sls) /\ Forall2 (emit M) sls (with_offsets o (g :: gs)).
  Proof.
    induction fuel as [|k IH]; intros st o g gs plan i prev acc st' r IV GL FU PV; [lia|].
    cbn [c_stream_loop].
    destruct (c_find_sysline DN bs f st o) as [[st1 r1] p1] eqn:CF.
    destruct (stage3_call_d _ _ _ _ _ _ _ IV GL CF) as (s & -> & EMT & IV1 & LT).
    rewrite LT. destruct (glist_cons Dl bs f Hbs _ _ _ GL) as (G & PG & GL' & _).
    destruct gs as [|g2 gs].
    - intro H; injection H as <- <-. exists [s]. split; [reflexivity|]. cbn [with_offsets]. constructor; [exact EMT|constructor].
    - assert (PV2 : prev3 (Some s) (o + glen g)).
      { exists o, g. split; [exact (proj1 EMT)|]. split; [exact G|lia]. }
      assert (REC : forall i' st2, inv3 o st2 ->
                c_stream_loop DN k bs f plan i' st2 (o + glen g) (Some s) (acc ++ [s]) = (st', r) ->
                exists sls, r = Found (acc ++ sls) /\ Forall2 (emit M) sls (with_offsets o (g :: g2 :: gs))).
      { intros i' st2 IV2 H.
        destruct (IH _ _ _ _ _ _ _ _ _ _ (inv3_mono _ (o + glen g) _ IV2 ltac:(lia)) GL' ltac:(cbn [length] in *; lia) PV2 H)
          as (sls & -> & F2).
        exists (s :: sls). rewrite <- app_assoc. split; [reflexivity|].
        cbn [with_offsets]. constructor; [exact EMT|exact F2]. }
      destruct prev as [pv|]; [|apply REC; exact IV1].
      destruct PV as (pb & pg & POK & PGG & PL).
      apply REC. destruct (plan_at plan i); [|exact IV1].
      exact (drop_step st1 o pv pb pg IV1 POK PGG PL).
  Qed.

  Theorem stage3_stream_d st plan st' r : inv3 0 st ->
    first_dated_offset Dl f = 0 -> syslines Dl f <> [] ->
    c_stream DN bs f plan st = (st', r) ->
    exists sls, r = Found sls /\ Forall2 (emit M) sls (syslines_at Dl f).
  Proof.
    intros IV Z0 NE. unfold c_stream.
    pose proof (glist_all Dl f) as GL. rewrite Z0 in GL. unfold syslines_at. rewrite Z0.
    assert (LEN : (length (syslines Dl f) <= length f)%nat).
    { pose proof (begins_len Dl f) as X. rewrite map_length in X. unfold syslines_at in X.
      rewrite with_offsets_length in X. exact X. }
    destruct (syslines Dl f) as [|g gs]; [congruence|].
    destruct (c_find_sysline DN bs f st 0) as [[st1 r1] p1] eqn:CF.
    destruct (stage3_call_d _ _ _ _ _ _ _ IV GL CF) as (s & -> & EMT & IV1 & LT).
    rewrite LT. destruct (glist_cons Dl bs f Hbs _ _ _ GL) as (G & PG & GL' & _).
    destruct gs as [|g2 gs].
    - intro H; injection H as <- <-. exists [s]. split; [reflexivity|]. cbn [with_offsets]. constructor; [exact EMT|constructor].
    - intro H.
      destruct (stage3_loop_d (Datatypes.S (length f)) st1 (0 + glen g) g2 gs plan 0%nat None [s] st' r (inv3_mono _ (0 + glen g) _ IV1 ltac:(lia)) GL'
                  ltac:(cbn [length] in *; lia) Logic.I H) as (sls & -> & F2).
      exists (s :: sls). split; [reflexivity|]. cbn [with_offsets]. constructor; [exact EMT|exact F2].
  Qed.
End Stage3D.

(* YEARLESS DRIVER COMPLETE (no datetime window; the file begins with a message): for every drop plan the driver emits the
   spec groups of the file, the i-th with the instant C11's assign_years gives the i-th message *)
Theorem yearless_driver_drops dated_y bs (f : file) off msgs Y ys plan st : 0 < bs ->
  (forall y y' l, dated_y (Some y) l = None <-> dated_y (Some y') l = None) ->
  let stream := b_stream (l_blk (s_lr st)) in
  let st1 := if stream then sr_set_lr (lr_set_blk (b_disable_drop (l_blk (s_lr st))) (s_lr st)) st else st in
  lr_inv bs f (s_lr st1) -> 0 < lenN f ->
  let begins := map fst (syslines_at (dated_y (Some Y)) f) in
  Forall2 (fun b m => forall y, inst dated_y f y b = Year.with_year off y m) begins msgs ->
  Year.assign_years 2 off Y msgs = Some ys ->
  first_dated_offset (dated_y (Some Y)) f = 0 ->
  exists st'' sls, c_stream_year dated_y bs f Year.TOL Y None None plan st = (st'', Found sls) /\
    map (sobs bs f) sls = map (fun gyt => (snd (snd gyt), snd (fst gyt))) (combine (syslines (dated_y (Some Y)) f) ys) /\
    length ys = length (syslines (dated_y (Some Y)) f).
Proof.
  intros H HI stream st1 L PF begins F2 AY Z0.
  destruct (yearless_stage2_lru dated_y bs f off msgs Y ys None plan st H HI L PF F2 AY) as (st' & EQ & W & ST & LR).
  fold stream in EQ. rewrite stream_win_none in EQ.
  set (yl := match ys with [] => Y | (y, _) :: _ => y end) in *.
  pose proof (groups_nonempty (dated_y (Some Y)) f Z0 PF) as NE.
  assert (NB : begins <> []).
  { unfold begins, syslines_at. destruct (syslines (dated_y (Some Y)) f); [congruence|discriminate]. }
  specialize (LR Z0 NB). fold begins in ST.
  pose proof (groups_redate (D dated_y Y) (D dated_y yl) (HI Y yl) (lines f)) as GR.
  assert (SYL : syslines (D dated_y yl) f = map (rdg (D dated_y yl)) (syslines (D dated_y Y) f)).
  { unfold syslines. rewrite GR. reflexivity. }
  assert (FDL : first_dated_offset (D dated_y yl) f = 0).
  { unfold first_dated_offset, leading. rewrite GR. cbn [fst]. exact Z0. }
  assert (ALL : forall b g, is_group (D dated_y yl) f b g -> exists s0, alookup b (s_syslines st') = Some s0).
  { intros b g G. pose proof (is_group_year dated_y bs f H HI yl Y b g G) as G0.
    assert (IN : In b begins) by (unfold begins; apply in_map_iff; exists (b, (phi dated_y f Y b, snd g)); auto).
    destruct (Forall2_In_l _ _ _ _ ST IN) as (yt & s0 & LK & _). eauto. }
  assert (NEL : syslines (D dated_y yl) f <> []).
  { rewrite SYL. intro E. apply map_eq_nil in E. exact (NE E). }
  assert (IV : inv3 dated_y bs f yl (s_syslines st') 0 st').
  { destruct W as [RI ND]. split; [exact RI|]. split; [exact ND|]. split.
    - intros k n s b IN B _. destruct (LR k n s IN) as (b' & s' & B' & L2 & DT). rewrite B in B'. inversion B'; subst b'.
      exists s'. auto.
    - intros b _. reflexivity. }
  destruct (c_stream (dated_y None) bs f (if stream then [] else plan) st') as [st'' r] eqn:CS.
  destruct (stage3_stream_d dated_y bs f H yl (s_syslines st') ALL st' _ st'' r IV FDL NEL CS) as (sls & -> & EMS).
  exists st'', sls. split; [exact EQ|].
  unfold syslines_at in EMS. rewrite FDL, SYL in EMS.
  unfold begins, syslines_at in ST. rewrite Z0 in ST.
  pose proof (emit_values dated_y bs f yl st' _ 0 sls ys EMS ST) as EV. split.
  - apply Forall2_map_eq. exact EV.
  - pose proof (Forall2_len _ _ _ ST) as LN. rewrite map_length, with_offsets_length in LN. symmetry. exact LN.
Qed.

(* ---------------------------------------------------------------- the hypotheses are satisfiable, the conclusion says something:
   a calendar oracle - a line "2z.." is 1 December, any other line that begins with '2' is 1 January, 00:00:00 UTC, of the
   year filled in (1972 when none) - on "2z\n2b\n" with the modification time in 2021 and a plan that always drops *)
Definition dyc (o : option Z) (l : list N) : option Z :=
  match l with
  | 50 :: c :: _ => Year.with_year 0 (match o with Some y => y | None => 1972%Z end)
                                   (Year.mkMsg (if c =? 122 then 12 else 1) 1 0)
  | _ => None
  end.

Example dyc_domain : forall y y' l, dyc (Some y) l = None <-> dyc (Some y') l = None.
Proof.
  intros y y' l. unfold dyc. destruct l as [|a [|c l]]; [tauto|destruct a; tauto|].
  destruct (N.eq_dec a 50) as [->|NE].
  - destruct (c =? 122); unfold Year.with_year; cbn; split; discriminate.
  - assert (E : forall v : option Z, match a with 50 => v | _ => None end = None).
    { intro v. destruct a as [|p]; [reflexivity|]. do 6 (destruct p as [p|p|]; try reflexivity). congruence. }
    split; intros _; apply E.
Qed.

Definition tvc (y : Z) (m : Year.ymsg) : Z := match Year.with_year 0 y m with Some t => t | None => 0%Z end.

Example yearless_driver_complete_example :
  let st := sr_init_b (b_init false) in
  let m1 := Year.mkMsg 12 1 0 in
  let m2 := Year.mkMsg 1 1 0 in
  lr_inv 2 fyj (s_lr st) /\
  Forall2 (fun b m => forall y, inst dyc fyj y b = Year.with_year 0 y m) (map fst (syslines_at (dyc (Some 2021%Z)) fyj)) [m1; m2] /\
  Year.assign_years 2 0 2021 [m1; m2] = Some [(2020%Z, tvc 2020 m1); (2021%Z, tvc 2021 m2)] /\
  first_dated_offset (dyc (Some 2021%Z)) fyj = 0 /\
  option_map (map (sobs 2 fyj)) (match snd (c_stream_year dyc 2 fyj Year.TOL 2021 None None [true] st) with
                                 | Found l => Some l | _ => None end) =
    Some [(tvc 2020 m1, [[50; 122; 10]]); (tvc 2021 m2, [[50; 98; 10]])].
Proof.
  cbv zeta. split; [apply lr_inv_init|]. split.
  - assert (E : map fst (syslines_at (dyc (Some 2021%Z)) fyj) = [0; 3]) by (vm_compute; reflexivity).
    rewrite E. constructor; [intro y; reflexivity|]. constructor; [intro y; reflexivity|constructor].
  - split; [vm_compute; reflexivity|]. split; vm_compute; reflexivity.
Qed.

(* ================================================================ stage 3 with --dt-before (no --dt-after): the same scan,
   cut at the first message whose instant lies after the bound (find_sysline_between_datetime_filters answers Done) *)
Fixpoint cutM (M : list (N * ssl)) (fb : option Z) (l : list (N * group)) : list (N * group) :=
  match l with
  | [] => []
  | (b, g) :: r =>
      match alookup b M with
      | Some s' => if dt_after fb (ss_dt s') then [] else (b, g) :: cutM M fb r
      | None => []
      end
  end.

Section Stage3W.
  Variable dated_y : option Z -> list N -> option Z.
  Variable bs : N.
  Variable f : file.
  Hypothesis Hbs : 0 < bs.
  Variable yl : Z.
  Variable M : list (N * ssl).
  Variable fb : option Z.

  Local Notation DN := (dated_y None).
  Local Notation Dl := (D dated_y yl).
  Local Notation ph := (phi dated_y f yl).
  Local Notation rds := (rd_ssl bs ph).
  Local Notation emit := (emitted dated_y bs f yl).
  Local Notation inv3 := (inv3 dated_y bs f yl M).
  Local Notation prev3 := (prev3 dated_y bs f yl).
  Hypothesis ALL : forall b g, is_group Dl f b g -> exists s0, alookup b M = Some s0.

  Lemma find_between_d st o g gs st1 r : inv3 o st -> glist_ok Dl f o (g :: gs) ->
    c_find_between DN bs f None fb st o = (st1, r) ->
    exists s s', emit M s (o, g) /\ inv3 o st1 /\ alookup o M = Some s' /\
      is_sysline_last bs f (ss_sysline s) = match gs with [] => true | _ => false end /\
      r = if dt_after fb (ss_dt s') then Done else Found (o + glen g, s).
  Proof.
    intros IV GL. unfold c_find_between. cbn [c_linear].
    destruct (c_find_sysline DN bs f st o) as [[st0 r0] p0] eqn:CF.
    destruct (stage3_call_d dated_y bs f Hbs yl M ALL _ _ _ _ _ _ _ IV GL CF) as (s & -> & EMT & IV1 & LT).
    cbn [dt_before]. destruct EMT as [OK (s' & LK & DT)]. cbn [fst] in LK.
    intro H. exists s, s'. split; [split; [exact OK|exists s'; auto]|].
    rewrite <- DT in H. destruct (dt_after fb (ss_dt s')); injection H as <- <-; auto.
  Qed.

  Lemma stage3_loop_w fuel : forall st o g gs plan i prev acc st' r,
    inv3 o st -> glist_ok Dl f o (g :: gs) -> (length (g :: gs) < fuel)%nat -> prev3 prev o ->
    c_stream_win_loop DN fuel bs f None fb plan i st o prev acc = (st', r) ->
    exists sls, r = Found (acc ++ sls) /\ Forall2 (emit M) sls (cutM M fb (with_offsets o (g :: gs))).
  Proof.
    induction fuel as [|k IH]; intros st o g gs plan i prev acc st' r IV GL FU PV; [lia|].
    cbn [c_stream_win_loop].
    destruct (c_find_between DN bs f None fb st o) as [st1 r1] eqn:CF.
    destruct (find_between_d _ _ _ _ _ _ IV GL CF) as (s & s' & EMT & IV1 & LK & LT & ->).
    cbn [with_offsets cutM]. rewrite LK.
    destruct (dt_after fb (ss_dt s')).
    { intro H; injection H as <- <-. exists []. rewrite app_nil_r. split; [reflexivity|constructor]. }
    rewrite LT. destruct (glist_cons Dl bs f Hbs _ _ _ GL) as (G & PG & GL' & _).
    destruct gs as [|g2 gs].
    - intro H; injection H as <- <-. exists [s]. split; [reflexivity|]. cbn [with_offsets cutM]. constructor; [exact EMT|constructor].
    - assert (PV2 : prev3 (Some s) (o + glen g)).
      { exists o, g. split; [exact (proj1 EMT)|]. split; [exact G|lia]. }
      assert (REC : forall i' st2, inv3 o st2 ->
                c_stream_win_loop DN k bs f None fb plan i' st2 (o + glen g) (Some s) (acc ++ [s]) = (st', r) ->
                exists sls, r = Found (acc ++ sls) /\
                  Forall2 (emit M) sls ((o, g) :: cutM M fb (with_offsets (o + lenN (group_bytes g)) (g2 :: gs)))).
      { intros i' st2 IV2 H.
        destruct (IH _ _ _ _ _ _ _ _ _ _ (inv3_mono dated_y bs f Hbs yl M _ (o + glen g) _ IV2 ltac:(lia)) GL'
                    ltac:(cbn [length] in *; lia) PV2 H) as (sls & -> & F2).
        exists (s :: sls). rewrite <- app_assoc. split; [reflexivity|]. constructor; [exact EMT|exact F2]. }
      destruct prev as [pv|]; [|apply REC; exact IV1].
      destruct PV as (pb & pg & POK & PGG & PL).
      apply REC. destruct (plan_at plan i); [|exact IV1].
      exact (drop_step dated_y bs f Hbs yl M st1 o pv pb pg IV1 POK PGG PL).
  Qed.

  Theorem stage3_stream_w st plan st' r : inv3 0 st ->
    first_dated_offset Dl f = 0 -> syslines Dl f <> [] ->
    c_stream_win DN bs f None fb plan st = (st', r) ->
    exists sls, r = Found sls /\ Forall2 (emit M) sls (cutM M fb (syslines_at Dl f)).
  Proof.
    intros IV Z0 NE. unfold c_stream_win.
    pose proof (glist_all Dl f) as GL. rewrite Z0 in GL. unfold syslines_at. rewrite Z0.
    assert (LEN : (length (syslines Dl f) <= length f)%nat).
    { pose proof (begins_len Dl f) as X. rewrite map_length in X. unfold syslines_at in X.
      rewrite with_offsets_length in X. exact X. }
    destruct (syslines Dl f) as [|g gs]; [congruence|].
    destruct (c_find_between DN bs f None fb st 0) as [st1 r1] eqn:CF.
    destruct (find_between_d _ _ _ _ _ _ IV GL CF) as (s & s' & EMT & IV1 & LK & LT & ->).
    cbn [with_offsets cutM]. rewrite LK.
    destruct (dt_after fb (ss_dt s')).
    { intro H; injection H as <- <-. exists []. split; [reflexivity|constructor]. }
    rewrite LT. destruct (glist_cons Dl bs f Hbs _ _ _ GL) as (G & PG & GL' & _).
    destruct gs as [|g2 gs].
    - intro H; injection H as <- <-. exists [s]. split; [reflexivity|]. cbn [with_offsets cutM]. constructor; [exact EMT|constructor].
    - intro H.
      destruct (stage3_loop_w (Datatypes.S (length f)) st1 (0 + glen g) g2 gs plan 0%nat None [s] st' r
                  (inv3_mono dated_y bs f Hbs yl M _ (0 + glen g) _ IV1 ltac:(lia)) GL' ltac:(cbn [length] in *; lia) Logic.I H)
        as (sls & -> & F2).
      exists (s :: sls). split; [reflexivity|]. constructor; [exact EMT|exact F2].
  Qed.
End Stage3W.

Lemma emit_values_w dated_y bs (f : file) yl st' fb : forall L3 o sls ys,
  Forall2 (emitted dated_y bs f yl (s_syslines st')) sls
          (cutM (s_syslines st') fb (with_offsets o (map (rdg (D dated_y yl)) L3))) ->
  Forall2 (stored bs st') (map fst (with_offsets o L3)) ys ->
  map (sobs bs f) sls = win_scan None fb (map (fun gyt => (snd (snd gyt), snd (fst gyt))) (combine L3 ys)).
Proof.
  induction L3 as [|g L IH]; intros o sls ys F1 F2; cbn [map with_offsets cutM] in F1, F2.
  - inversion F1; subst. reflexivity.
  - inversion F2 as [|b yt bl ys' ST F2']; subst. destruct ST as (s2 & LK2 & _ & DT2).
    rewrite LK2 in F1. cbn [combine map win_scan dt_before fst snd]. rewrite <- DT2.
    destruct (dt_after fb (ss_dt s2)); [inversion F1; subst; reflexivity|].
    inversion F1 as [|s bg sls' rest EM F1']; subst. cbn [map]. f_equal.
    + destruct EM as [OK (s' & LK & DT)]. cbn [fst snd] in OK, LK. rewrite LK2 in LK. inversion LK; subst s'.
      rewrite (sobs_rd bs f (phi dated_y f yl) s). rewrite (sobs_ok bs f _ _ _ OK). unfold rdg. cbn [snd]. congruence.
    + apply (IH (o + lenN (group_bytes g))); [|exact F2'].
      replace (o + lenN (group_bytes g)) with (o + lenN (group_bytes (rdg (D dated_y yl) g))); [exact F1'|].
      unfold group_bytes, rdg. reflexivity.
Qed.

(* YEARLESS DRIVER COMPLETE with --dt-before (no --dt-after; the file begins with a message): for every drop plan the
   driver emits the spec groups with the instants of assign_years, up to the first one after the bound *)
Theorem yearless_driver_before dated_y bs (f : file) off msgs Y ys fb plan st : 0 < bs ->
  (forall y y' l, dated_y (Some y) l = None <-> dated_y (Some y') l = None) ->
  let stream := b_stream (l_blk (s_lr st)) in
  let st1 := if stream then sr_set_lr (lr_set_blk (b_disable_drop (l_blk (s_lr st))) (s_lr st)) st else st in
  lr_inv bs f (s_lr st1) -> 0 < lenN f ->
  let begins := map fst (syslines_at (dated_y (Some Y)) f) in
  Forall2 (fun b m => forall y, inst dated_y f y b = Year.with_year off y m) begins msgs ->
  Year.assign_years 2 off Y msgs = Some ys ->
  first_dated_offset (dated_y (Some Y)) f = 0 ->
  exists st'' sls, c_stream_year dated_y bs f Year.TOL Y None fb plan st = (st'', Found sls) /\
    map (sobs bs f) sls =
      win_scan None fb (map (fun gyt => (snd (snd gyt), snd (fst gyt))) (combine (syslines (dated_y (Some Y)) f) ys)) /\
    length ys = length (syslines (dated_y (Some Y)) f).
Proof.
  intros H HI stream st1 L PF begins F2 AY Z0.
  destruct (yearless_stage2_lru dated_y bs f off msgs Y ys fb plan st H HI L PF F2 AY) as (st' & EQ & W & ST & LR).
  fold stream in EQ.
  set (yl := match ys with [] => Y | (y, _) :: _ => y end) in *.
  pose proof (groups_nonempty (dated_y (Some Y)) f Z0 PF) as NE.
  assert (NB : begins <> []).
  { unfold begins, syslines_at. destruct (syslines (dated_y (Some Y)) f); [congruence|discriminate]. }
  specialize (LR Z0 NB). fold begins in ST.
  pose proof (groups_redate (D dated_y Y) (D dated_y yl) (HI Y yl) (lines f)) as GR.
  assert (SYL : syslines (D dated_y yl) f = map (rdg (D dated_y yl)) (syslines (D dated_y Y) f)).
  { unfold syslines. rewrite GR. reflexivity. }
  assert (FDL : first_dated_offset (D dated_y yl) f = 0).
  { unfold first_dated_offset, leading. rewrite GR. cbn [fst]. exact Z0. }
  assert (ALL : forall b g, is_group (D dated_y yl) f b g -> exists s0, alookup b (s_syslines st') = Some s0).
  { intros b g G. pose proof (is_group_year dated_y bs f H HI yl Y b g G) as G0.
    assert (IN : In b begins) by (unfold begins; apply in_map_iff; exists (b, (phi dated_y f Y b, snd g)); auto).
    destruct (Forall2_In_l _ _ _ _ ST IN) as (yt & s0 & LK & _). eauto. }
  assert (NEL : syslines (D dated_y yl) f <> []).
  { rewrite SYL. intro E. apply map_eq_nil in E. exact (NE E). }
  assert (IV : inv3 dated_y bs f yl (s_syslines st') 0 st').
  { destruct W as [RI ND]. split; [exact RI|]. split; [exact ND|]. split.
    - intros k n s b IN B _. destruct (LR k n s IN) as (b' & s' & B' & L2 & DT). rewrite B in B'. inversion B'; subst b'.
      exists s'. auto.
    - intros b _. reflexivity. }
  destruct (c_stream_win (dated_y None) bs f None fb (if stream then [] else plan) st') as [st'' r] eqn:CS.
  destruct (stage3_stream_w dated_y bs f H yl (s_syslines st') fb ALL st' _ st'' r IV FDL NEL CS) as (sls & -> & EMS).
  exists st'', sls. split; [exact EQ|].
  unfold syslines_at in EMS. rewrite FDL, SYL in EMS.
  unfold begins, syslines_at in ST. rewrite Z0 in ST.
  split; [exact (emit_values_w dated_y bs f yl st' fb _ 0 sls ys EMS ST)|].
  pose proof (Forall2_len _ _ _ ST) as LN. rewrite map_length, with_offsets_length in LN. symmetry. exact LN.
Qed.

(* ... and with --dt-before at the instant of the first message (inclusive): the second message is cut *)
Example yearless_driver_before_example :
  let m1 := Year.mkMsg 12 1 0 in
  option_map (map (sobs 2 fyj)) (match snd (c_stream_year dyc 2 fyj Year.TOL 2021 None (Some (tvc 2020 m1)) [true]
                                                  (sr_init_b (b_init false))) with
                                 | Found l => Some l | _ => None end) =
    Some [(tvc 2020 m1, [[50; 122; 10]])].
Proof. vm_compute. reflexivity. Qed.

(* FINDING W5 (genuine, on the shipped binary): the hypothesis "the LineReader can read every block" of the theorems above
   FAILS for the block-zero-analysis state of a STREAMED file when a line of the first message begins exactly at the
   end of block zero and is longer than a block: stage 1's find_sysline_in_block calls find_line_in_block at that
   offset, which reads block 1, and the look-behind drop of the sequential decoder removes block 0 - BEFORE
   disable_drop_data.  The reverse pass then cannot read block 0 again (Done), ends before the messages that begin
   there, and stage 3 builds them with the FILLER year.  "2z\nwxyv\n2b\n", toy oracle dy2, tolerance 10, mtime year 7,
   gz/bz2/lz4 at block size 3: the first message is emitted with the instant 122 (filler) instead of 6122; at block
   sizes 4 and 9, as a tar member and as a plain file it is 6122 *)
Definition fyg : file := [50; 122; 10; 119; 120; 121; 118; 10; 50; 98; 10].
Definition run_fyg (b0 : bstate) (bs : N) : list N * option (list (option N * Z)) :=
  let g := c_gate (dy2 None) 2 2 bs fyg (sr_init_b b0) in
  (b_blocks (l_blk (s_lr g)),
   option_map (map (fun s => (ss_begin bs s, ss_dt s)))
              (match snd (c_stream_year dy2 bs fyg 10 7 None None [] g) with Found l => Some l | _ => None end)).
Example yearless_streamed_gate_drop_witness :
  run_fyg (b_open KSeq 3 (lenN fyg)) 3 = ([1], Some [(Some 0, 122%Z); (Some 8, 7098%Z)]) /\
  run_fyg (b_open KSeq 4 (lenN fyg)) 4 = ([0], Some [(Some 0, 6122%Z); (Some 8, 7098%Z)]) /\
  run_fyg (b_open KSeq 9 (lenN fyg)) 9 = ([0], Some [(Some 0, 6122%Z); (Some 8, 7098%Z)]) /\
  snd (run_fyg (b_open KTar 3 (lenN fyg)) 3) = Some [(Some 0, 6122%Z); (Some 8, 7098%Z)] /\
  snd (run_fyg (b_init false) 3) = Some [(Some 0, 6122%Z); (Some 8, 7098%Z)].
Proof. vm_compute. repeat split; reflexivity. Qed.
