(* Proofs/RetainSearchFuel.v — property C17, windowed clause: the search of Model/RetainSearch.v is
   the binary search of Model/Search.v, and with the fuel bfuel = 2 + bit length of the file size
   it always completes (never OutOfFuel, no panic, no error path) on the files of the property's
   domain: messages stamped with increasing instants, dated lines of at least two bytes.
   (Proofs/SearchProofs.v bsearch_no_panic, instantiated.) *)
From Coq Require Import List NArith ZArith Bool Sorted Lia.
Import ListNotations.
From S4.Spec Require Import WindowSpec.
From S4.Model Require Import Retain Search RetainSearch.
From S4.Proofs Require Import RetainProofs RetainLayout SearchProofs RetainSearchProofs.
Open Scope N_scope.

Lemma w_search_is_bsearch bs ms t :
  snd (w_search bs ms t) = l_bsearch 0 (slayout ms) (Some t) 0.
Proof. unfold w_search, wsearch. rewrite wloop_result. reflexivity. Qed.

(* the instants (= keys) never decrease *)
Lemma place_sorted ms : forall b, StronglySorted msg_lt ms ->
  nondecreasing s_t (place b (slayout ms)) = true.
Proof.
  induction ms as [|m r IH]; intros b Hs; [reflexivity|].
  apply StronglySorted_inv in Hs as [Hs Hf].
  unfold slayout in *. cbn [map place].
  destruct r as [|m' r']; [reflexivity|].
  cbn [map place] in *. cbn [nondecreasing]. apply andb_true_iff. split.
  - cbn [s_t]. apply Z.leb_le. rewrite Forall_forall in Hf.
    specialize (Hf m' (or_introl eq_refl)). unfold msg_lt in Hf. lia.
  - apply (IH (b + (mend m + 1 - mbeg m)) Hs).
Qed.

(* lines of a layout: offsets of a line and its length *)
Lemma spans_len bs layout : lens_pos layout -> forall off key l d, In (l, d) (spans bs off key layout) ->
  exists len, In (len, d) layout /\ lend l + 1 = lbeg l + len.
Proof.
  induction layout as [|[len0 d0] r IH]; intros Hp off key l d Hin; [destruct Hin|].
  apply Forall_cons_iff in Hp as [Hp0 Hp]. cbn [fst] in Hp0.
  rewrite spans_head in Hin. destruct Hin as [E|Hin].
  - injection E as <- <-. exists len0. split; [left; reflexivity|]. cbn [lend lbeg]. lia.
  - destruct (IH Hp _ _ _ _ Hin) as (len & A & B). exists len. split; [right; exact A|exact B].
Qed.

Lemma group_firsts (l : list (lspan * bool)) : forall f b, In (f, b) (snd (group l)) -> In (f, true) l.
Proof.
  induction l as [|x r IH]; intros f b Hin; [destruct Hin|].
  change (group (x :: r)) with (group_step x (group r)) in Hin. unfold group_step in Hin.
  destruct (snd x) eqn:Ex; cbn [snd] in Hin.
  - destruct Hin as [E|Hin]; [|right; eapply IH; eauto].
    injection E as <- _. left. destruct x as [a d]. cbn in *. subst d. reflexivity.
  - right. eapply IH; eauto.
Qed.

(* a dated line of one byte can only be "\n": no timestamp fits, so dated lines have >= 2 bytes *)
Definition dated_long (layout : list (N * bool)) : Prop :=
  Forall (fun x => snd x = true -> 2 <= fst x) layout.

Lemma layout_msg_bytes bs layout m : layout_ok bs layout -> dated_long layout ->
  In m (layout_msgs bs layout) -> 2 <= mend m + 1 - mbeg m.
Proof.
  intros (Hbs & Hl & Hd) Hlong Hm. unfold layout_msgs in Hm.
  set (g := snd (group (spans bs 0 0 layout))) in *.
  assert (Hflat : gflat g = map fst (spans bs 0 0 layout)).
  { pose proof (layout_file_lines bs layout Hd) as E. unfold layout_msgs in E. rewrite link_lines in E. exact E. }
  assert (Hs : StronglySorted before (gflat g)).
  { rewrite Hflat. apply (lines_sorted bs); [apply spans_line_ok|apply spans_chain]; auto. }
  apply link_in in Hm as [_ Hg].
  pose proof (gflat_segment g _ _ Hg Hs) as Hseg.
  pose proof (group_firsts _ _ _ Hg) as Hf.
  destruct (spans_len _ _ Hl _ _ _ _ Hf) as (len & Hin & Hlen).
  unfold dated_long in Hlong. rewrite Forall_forall in Hlong. specialize (Hlong _ Hin eq_refl). cbn [fst] in Hlong.
  unfold mend, mbeg, mlast.
  destruct (last_or_before _ _ Hseg (mfirst m) (or_introl eq_refl)) as [E|Hb].
  - rewrite <- E. lia.
  - unfold before in Hb. lia.
Qed.

(* the search always completes: never out of fuel, no panic, no error path *)
Theorem w_search_completes bs layout t : layout_ok bs layout -> dated_long layout ->
  let r := snd (w_search bs (layout_msgs bs layout) t) in
  r <> SOutOfFuel /\ (forall c, r <> SPanic c /\ r <> SDoneErr c) /\
  r = spec_res (first_at_or_after s_t s_next (Some t) 0 (wgs (layout_msgs bs layout))).
Proof.
  intros Hok Hlong. cbv zeta. rewrite w_search_is_bsearch.
  pose proof (layout_msgs_wf bs layout Hok) as Hwf. cbv zeta in Hwf.
  set (ms := layout_msgs bs layout) in *.
  assert (Hs : nondecreasing s_t (groups 0 (slayout ms)) = true).
  { unfold groups. apply place_sorted. destruct Hwf as (_ & _ & _ & _ & Hs & _). exact Hs. }
  assert (Hl : Forall (fun g => 2 <= fst g) (slayout ms)).
  { unfold slayout. apply Forall_forall. intros g Hg. apply in_map_iff in Hg as (m & <- & Hm). cbn [fst].
    eapply layout_msg_bytes; eauto. }
  assert (Hfo : 0 <= fsize 0 (slayout ms)) by lia.
  splits.
  - apply (bsearch_no_panic 0 (slayout ms) (Some t) 0 Hs Hl Hfo 0).
  - intros c. pose proof (bsearch_no_panic 0 (slayout ms) (Some t) 0 Hs Hl Hfo c). tauto.
  - apply bsearch_first_geq; auto.
Qed.

(* the logarithmic term, spelled out: 5 finds of the block-zero analysis + 2 per iteration of a
   search of at most 2 + bit length(file size) iterations *)
Lemma search_finds_explicit ms : search_finds ms = 9 + 2 * N.size (wfilesz ms).
Proof. unfold search_finds, bfuel. lia. Qed.

Lemma size_log2 n : N.size n <= N.log2 n + 1.
Proof. destruct n as [|p]; [cbn; lia|]. rewrite N.size_log2 by discriminate. lia. Qed.

(* ------------------------------------------------------------------ the windowed bound, all layouts *)
(* For EVERY layout (lines >= 1 byte, first line dated), block size > 0, plain file, window start t,
   H and EVERY stage-3 schedule respecting H: under the repaired policy the marks of a run that
   first searches the file exceed the bounds of the streaming run (C17_retry_bounded) by at most
   K messages, 2 ml K lines and 2 ml (span + 1) K + 1 blocks, K = 9 + 2 * bit length(file size)
   <= 11 + 2 log2(file size): logarithmic in the size, never linear. *)
Theorem retry_windowed_bounded_layout bs layout H c t evs :
  pol c = P_retry -> streamed c = false -> layout_ok bs layout ->
  let ms := layout_msgs bs layout in
  let span := max_span ms in let ml := max_lines ms in
  let K := 9 + 2 * N.size (wfilesz ms) in
  w_run_sched_ok H c bs ms t evs = true ->
  let T := w_run c bs ms t evs in
  hs (wb T) <= bound_syslines bs span + K /\
  hl (wb T) <= bound_lines bs span ml H + K * (2 * ml) /\
  hb (wb T) <= bound_blocks bs span H + (K * (2 * ml * (span + 1)) + 1) /\
  lenN (syslines (wb T)) <= hs (wb T) /\ lenN (lines (wb T)) <= hl (wb T) /\ lenN (blocks (wb T)) <= hb (wb T) /\
  K <= 11 + 2 * N.log2 (wfilesz ms).
Proof.
  intros Hp Hc Hok. cbv zeta. intros Hs.
  pose proof (layout_msgs_wf bs layout Hok) as Hwf. cbv zeta in Hwf.
  pose proof (windowed_bounded bs _ _ H _ c Hp Hc Hwf t evs Hs) as Hb. cbv zeta in Hb.
  rewrite search_finds_explicit in Hb.
  pose proof (size_log2 (wfilesz (layout_msgs bs layout))).
  destruct Hb as (A & B & C & D & E & F). splits; auto. lia.
Qed.

(* the hypotheses are satisfiable: the example layout of RetainProofs (163 messages, 13783 bytes,
   block size 64), window starting at message 80, the consumer 7 behind.  The search makes at most
   37 finds and leaves 20 blocks / 21 lines / 9 messages; the repaired policy never exceeds that
   in the stream phase, the current policy reaches 117 / 149 (finding F9a) *)
Lemma windowed_example :
  let ms := layout_msgs 64 ex_layout in
  let evs := w_sched_lag 7 80 82 in
  wfilesz ms = 13783 /\ search_finds ms = 37 /\
  snd (w_search 64 ms 80) = SFound 6815 (mkSl 6785 30 80%Z) /\
  w_run_sched_ok 7 retry_plain 64 ms 80 evs = true /\
  wmarks (fst (w_search 64 ms 80)) = (20, 21, 9) /\
  wmarks (w_run retry_plain 64 ms 80 evs) = (20, 21, 9) /\
  wmarks (w_run cur_plain 64 ms 80 evs) = (117, 149, 9) /\
  wmarks (w_run cur_plain 64 ms 80 (w_sched_lag 1 80 82)) = (20, 21, 9).
Proof. vm_compute. repeat split; reflexivity. Qed.

Lemma dated_long_example : dated_long ex_layout.
Proof.
  unfold dated_long. apply Forall_forall. intros x Hx.
  assert (forallb (fun x => negb (snd x) || (2 <=? fst x)) ex_layout = true) as Hf by (vm_compute; reflexivity).
  rewrite forallb_forall in Hf. specialize (Hf x Hx). intros Hd. rewrite Hd in Hf. cbn in Hf. apply N.leb_le. exact Hf.
Qed.

Lemma windowed_finds_explicit ms :
  search_finds ms = 9 + 2 * N.size (wfilesz ms) /\ N.size (wfilesz ms) <= N.log2 (wfilesz ms) + 1.
Proof. split; [apply search_finds_explicit|apply size_log2]. Qed.

Lemma windowed_example_domain :
  layout_ok 64 ex_layout /\ Forall (fun x => snd x = true -> 2 <= fst x) ex_layout.
Proof. split; [apply layout_ok_example|apply dated_long_example]. Qed.

(* ------------------------------------------------------------------ wfilesz is the size of the file *)
Definition lbytes (l : lspan) : N := lend l + 1 - lbeg l.
Definition adj (a b : lspan) : Prop := lbeg b = lend a + 1.
Definition sumN {A} (f : A -> N) (l : list A) : N := fold_right (fun x t => f x + t) 0 l.

Lemma sumN_app {A} (f : A -> N) a b : sumN f (a ++ b) = sumN f a + sumN f b.
Proof. unfold sumN. induction a as [|x a IH]; cbn [app fold_right]; [reflexivity|]. rewrite IH. lia. Qed.

Lemma seg_bytes t : forall x, Retain.chain adj (x :: t) -> Forall (fun l => lbeg l <= lend l) (x :: t) ->
  lend (last t x) + 1 - lbeg x = sumN lbytes (x :: t) /\ lbeg x <= lend (last t x).
Proof.
  induction t as [|y t IH]; intros x Hc Hp.
  - cbn [last sumN fold_right]. unfold lbytes. apply Forall_cons_iff in Hp as [Hx _]. lia.
  - apply chain_cons_inv in Hc as [Ha Hc]. apply Forall_cons_iff in Hp as [Hx Hp].
    destruct (IH y Hc Hp) as (E & Hle). rewrite last_cons.
    change (sumN lbytes (x :: y :: t)) with (lbytes x + sumN lbytes (y :: t)). rewrite <- E.
    unfold adj in Ha. unfold lbytes. lia.
Qed.

Lemma groups_total g : forall k, Retain.chain adj (gflat g) -> Forall (fun l => lbeg l <= lend l) (gflat g) ->
  total (slayout (link k g)) = sumN lbytes (gflat g).
Proof.
  induction g as [|[f b] r IH]; intros k Hc Hp; [reflexivity|].
  unfold gflat in *. cbn [flat_map fst snd] in *.
  change ((f :: b) ++ flat_map (fun fb => fst fb :: snd fb) r) with ((f :: b) ++ (flat_map (fun fb => fst fb :: snd fb) r)) in *.
  cbn [link]. unfold slayout. cbn [map total]. fold (slayout (link (k + 1) r)).
  rewrite sumN_app. rewrite (IH (k + 1)); [|eapply chain_app_r; eauto|apply Forall_app in Hp; tauto].
  unfold mend, mbeg, mlast. cbn [mfirst mbody].
  destruct (seg_bytes b f) as (E & _); [eapply chain_app_l; eauto|apply Forall_app in Hp; tauto|].
  rewrite E. reflexivity.
Qed.

Lemma spans_adj bs layout : lens_pos layout -> forall off key,
  Retain.chain adj (map fst (spans bs off key layout)) /\
  Forall (fun l => lbeg l <= lend l) (map fst (spans bs off key layout)) /\
  sumN lbytes (map fst (spans bs off key layout)) = sumN fst layout /\
  match spans bs off key layout with x :: _ => lbeg (fst x) = off | [] => True end.
Proof.
  induction layout as [|[len d] r IH]; intros Hp off key.
  - cbn. splits; auto.
  - apply Forall_cons_iff in Hp as [Hl Hp]. cbn [fst] in Hl.
    rewrite spans_head. cbn [map fst]. destruct (IH Hp (off + len) (key + 1)) as (A & B & C & D).
    splits.
    + cbn [Retain.chain]. split; [|exact A].
      destruct (spans bs (off + len) (key + 1) r) as [|y r']; [exact I|]. cbn [map]. unfold adj. cbn [lend]. rewrite D. lia.
    + constructor; [cbn [lbeg lend]; lia|exact B].
    + change (sumN lbytes (?x :: ?t)) with (lbytes x + sumN lbytes t). rewrite C.
      change (sumN fst ((len, d) :: r)) with (len + sumN fst r). unfold lbytes. cbn [lbeg lend]. lia.
    + reflexivity.
Qed.

(* the file size of the windowed model = the sum of the line lengths of the layout *)
Theorem wfilesz_layout bs layout : layout_ok bs layout ->
  wfilesz (layout_msgs bs layout) = sumN fst layout.
Proof.
  intros (Hbs & Hl & Hd). unfold wfilesz, fsize, layout_msgs. rewrite N.add_0_l.
  set (g := snd (group (spans bs 0 0 layout))).
  assert (Hflat : gflat g = map fst (spans bs 0 0 layout)).
  { pose proof (layout_file_lines bs layout Hd) as E. unfold layout_msgs in E. rewrite link_lines in E. exact E. }
  destruct (spans_adj bs layout Hl 0 0) as (A & B & C & _).
  rewrite groups_total; rewrite Hflat; auto.
Qed.
