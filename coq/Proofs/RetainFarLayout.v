(* Proofs/RetainFarLayout.v — property C17: the exactness of the recorded class of finding F9a for EVERY layout.
   For every layout of the domain (lines of one byte or more, first line dated), every block size, either
   policy, plain or streamed, and every lag >= 1: the run with the consumer lag messages behind has no failed
   release IF AND ONLY IF no issued drop reaches a message found fewer than lag messages earlier
   (reached_heldb = false). *)
From Coq Require Import List Arith NArith Bool Lia.
Import ListNotations.
From S4.Model Require Import Retain.
From S4.Proofs Require Import RetainProofs RetainLayout RetainLag RetainKeepsUp RetainNoErr RetainFar RetainFarConv RetainFarExact.
From S4.Proofs Require RetainCachesLayout.
Open Scope N_scope.

Theorem layout_no_err_iff bs layout c lag : layout_ok bs layout -> 1 <= lag ->
  (derr (run_layout c bs layout lag) = 0 <-> reached_heldb lag (layout_msgs bs layout) = false).
Proof.
  intros Hl Hlag. unfold run_layout.
  exact (no_err_iff_wf bs _ _ c lag (layout_msgs bs layout) (layout_msgs_wf bs layout Hl) Hlag
           (RetainCachesLayout.layout_keys bs layout)).
Qed.

(* with the sufficient geometric condition of RetainFar.v the bounds follow for every layout *)
Theorem layout_far_bounded bs layout c lag : pol c = P_cur -> layout_ok bs layout -> 1 <= lag ->
  farb lag (layout_msgs bs layout) = true ->
  let ms := layout_msgs bs layout in
  let s := run_layout c bs layout lag in
  derr s = 0 /\ hs s <= bound_syslines bs (max_span ms) /\ hl s <= bound_lines bs (max_span ms) (max_lines ms) lag.
Proof.
  intros Hc Hl Hlag Hf ms s.
  exact (cur_far_bounded bs (max_span ms) (max_lines ms) lag ms c Hc (layout_msgs_wf bs layout Hl) Hlag
           (RetainCachesLayout.layout_keys bs layout) (farb_sound lag ms Hf)).
Qed.
