(* Proofs/RetainFarLayout.v — property C17: the exactness of the recorded class of finding F9a for EVERY layout.
   For every layout of the domain (lines of one byte or more, first line dated), every block size, either
   policy, plain or streamed, and every lag >= 1: the run with the consumer lag messages behind has no failed
   release IF AND ONLY IF no issued drop reaches a message found fewer than lag messages earlier
   (reached_heldb = false). *)
From Coq Require Import List Arith NArith Bool Lia.
Import ListNotations.
From S4.Model Require Import Retain.
From S4.Proofs Require Import RetainProofs RetainLayout RetainLag RetainKeepsUp RetainNoErr RetainFar RetainFarFifo RetainFarConv RetainFarExact RetainNoEdge.
From S4.Proofs Require RetainCachesLayout.
Open Scope N_scope.

Theorem layout_no_err_iff bs layout c lag : layout_ok bs layout -> 1 <= lag ->
  (derr (run_layout c bs layout lag) = 0 <-> reached_heldb lag (layout_msgs bs layout) = false).
Proof.
  intros Hl Hlag. unfold run_layout.
  exact (no_err_iff_wf bs _ _ c lag (layout_msgs bs layout) (layout_msgs_wf bs layout Hl) Hlag
           (RetainCachesLayout.layout_keys bs layout)).
Qed.

(* with the sufficient geometric condition of RetainFar.v the bounds follow for every layout *)
Theorem layout_far_bounded bs layout c lag : pol c = P_cur -> layout_ok bs layout -> 1 <= lag ->
  farb lag (layout_msgs bs layout) = true ->
  let ms := layout_msgs bs layout in
  let s := run_layout c bs layout lag in
  derr s = 0 /\ hs s <= bound_syslines bs (max_span ms) /\ hl s <= bound_lines bs (max_span ms) (max_lines ms) lag.
Proof.
  intros Hc Hl Hlag Hf ms s.
  exact (cur_far_bounded bs (max_span ms) (max_lines ms) lag ms c Hc (layout_msgs_wf bs layout Hl) Hlag
           (RetainCachesLayout.layout_keys bs layout) (farb_sound lag ms Hf)).
Qed.

(* OUTSIDE THE RECORDED CLASSES THE PROPERTY HOLDS FOR THE CURRENT POLICY: a well-formed message sequence in
   which no drop reaches a message found fewer than lag messages earlier (not F9a) and no line ends on the
   last byte of a block (not F9b), under every first-in-first-out schedule of a consumer that never
   references more than lag messages: no release fails and ALL three marks obey the bounds of the
   repaired policy, which do not depend on the number of messages. *)
Theorem cur_outside_classes_bounded bs span ml lag ms c evs : pol c = P_cur -> wf bs span ml ms -> 1 <= lag ->
  map mkey ms = nseq 0 (length ms) -> far lag ms -> no_edge ms -> fifo evs ->
  sched_ok lag c (init ms) evs = true ->
  let s := run c (init ms) evs in
  derr s = 0 /\ hs s <= bound_syslines bs span /\ hl s <= bound_lines bs span ml lag /\
  hb s <= bound_blocks bs span lag.
Proof.
  intros Hc Hwf Hlag Hk Hfar Hne Hfifo Hs s.
  assert (Hd : derr s = 0) by exact (cur_far_no_err_fifo c lag ms evs Hlag Hk Hfar Hfifo Hs).
  split; [exact Hd|].
  exact (cur_no_err_no_edge_bounded bs span ml lag ms c evs Hc Hwf Hne Hs Hd).
Qed.

(* ... for every layout, with the decidable forms the check evaluates *)
Theorem layout_outside_classes_bounded bs layout c lag evs : pol c = P_cur -> layout_ok bs layout -> 1 <= lag ->
  let ms := layout_msgs bs layout in
  farb lag ms = true -> no_edgeb ms = true -> fifo evs -> sched_ok lag c (init ms) evs = true ->
  let s := run c (init ms) evs in
  derr s = 0 /\ hs s <= bound_syslines bs (max_span ms) /\ hl s <= bound_lines bs (max_span ms) (max_lines ms) lag /\
  hb s <= bound_blocks bs (max_span ms) lag.
Proof.
  intros Hc Hl Hlag ms Hf Hne Hfifo Hs.
  exact (cur_outside_classes_bounded bs (max_span ms) (max_lines ms) lag ms c evs Hc (layout_msgs_wf bs layout Hl) Hlag
           (RetainCachesLayout.layout_keys bs layout) (farb_sound lag ms Hf) (no_edgeb_sound ms Hne) Hfifo Hs).
Qed.
