(* Proofs/JournalRenderMono.v — the monotonic field of short-monotonic.
   next_short prints `format!("{:>12.6}", mu as f64 / 1000000.0)`: two binary64 roundings (the
   conversion and the division) and one decimal rounding (the formatting).  Model/JournalRender.v
   transcribes that arithmetic on integers ([mono_scaled]).  Here: for every monotonic time below
   2^52 microseconds (142 years of uptime) the three roundings cancel and the text is the exact
   decimal expansion  mu / 10^6 "." (mu mod 10^6, six digits);  above 2^53 they do not
   ([mono_inexact_refuted_l]). *)
From Coq Require Import String.
From S4.Base Require Import Bytes.
From S4.Model Require Import PrintCal Strftime Journal JournalRender.
From S4.Gen Require Import JournalTables.
Open Scope list_scope.
Open Scope Z_scope.

Lemma rne_div_near a b :
  0 <= a -> 0 < b -> - b <= 2 * (rne_div a b * b - a) <= b.
Proof.
  intros Ha Hb. unfold rne_div.
  pose proof (Z.div_mod a b ltac:(lia)) as E. pose proof (Z.mod_pos_bound a b Hb) as R.
  set (q := a / b) in *. set (r := a mod b) in *.
  destruct (2 * r <? b) eqn:C1; [apply Z.ltb_lt in C1; nia|apply Z.ltb_ge in C1].
  destruct (b <? 2 * r) eqn:C2; [apply Z.ltb_lt in C2; nia|apply Z.ltb_ge in C2].
  destruct (Z.even q); nia.
Qed.

(* the nearest integer is unique when the distance is below one half *)
Lemma rne_div_unique a b m :
  0 <= a -> 0 < b -> 2 * Z.abs (m * b - a) < b -> rne_div a b = m.
Proof.
  intros Ha Hb Hm. unfold rne_div.
  pose proof (Z.div_mod a b ltac:(lia)) as E. pose proof (Z.mod_pos_bound a b Hb) as R.
  set (q := a / b) in *. set (r := a mod b) in *.
  assert (Hd : m = q \/ m = q + 1).
  { assert (m - q = 0 \/ m - q = 1); [|lia].
    assert (H1 : - b < 2 * ((m - q) * b - r) < b) by (rewrite Z.mul_sub_distr_r; lia).
    assert (-1 < m - q) by nia. assert (m - q < 2) by nia. lia. }
  destruct Hd as [->| ->].
  - assert (C1 : 2 * r < b) by (replace (q * b - a) with (- r) in Hm by lia; lia).
    apply Z.ltb_lt in C1. rewrite C1. reflexivity.
  - assert (C2 : b < 2 * r) by (replace ((q + 1) * b - a) with (b - r) in Hm by lia; lia).
    assert (C1 : (2 * r <? b) = false) by (apply Z.ltb_ge; lia).
    apply Z.ltb_lt in C2. rewrite C1, C2. reflexivity.
Qed.

(* below 2^52 microseconds the printed number is the stored one *)
Theorem mono_scaled_exact_l mu : 0 <= mu < 2 ^ 52 -> mono_scaled 1000000 6 mu = mu.
Proof.
  intros [H0 H1]. unfold mono_scaled, f64_of_u64.
  assert (C : (mu <? 2 ^ 53) = true) by (apply Z.ltb_lt; change (2 ^ 53) with (2 * 2 ^ 52); lia).
  rewrite C. cbn [f64_q]. change (0 <=? 0) with true. cbv iota.
  rewrite Z.pow_0_r, Z.mul_1_r, Z.mul_1_l.
  destruct (Z.eq_dec mu 0) as [->|Hnz]; [vm_compute; reflexivity|].
  assert (Hpos : 0 < mu) by lia.
  unfold f64_round. rewrite (proj2 (Z.eqb_neq mu 0) Hnz).
  change (Z.log2 1000000) with 19.
  assert (Hl : Z.log2 mu < 52) by (apply Z.log2_lt_pow2; assumption).
  pose proof (Z.log2_nonneg mu) as Hl0.
  set (e0 := Z.log2 mu - 19 - 52).
  assert (He0 : e0 <= -20) by (unfold e0; lia).
  unfold f64_scale at 1. replace (0 <=? e0) with false by (symmetry; apply Z.leb_gt; lia).
  set (e := if mu * 2 ^ (- e0) <? 1000000 * 2 ^ 52 then e0 - 1 else e0).
  assert (He : e <= -20) by (unfold e; destruct (mu * 2 ^ (- e0) <? 1000000 * 2 ^ 52); lia).
  unfold f64_scale. replace (0 <=? e) with false by (symmetry; apply Z.leb_gt; lia).
  cbn [f64_q]. replace (0 <=? e) with false by (symmetry; apply Z.leb_gt; lia).
  set (P := 2 ^ (- e)).
  assert (HP : 1048576 <= P).
  { unfold P. change 1048576 with (2 ^ 20). apply Z.pow_le_mono_r; lia. }
  change (10 ^ Z.of_nat 6) with 1000000.
  pose proof (rne_div_near (mu * P) 1000000 ltac:(nia) ltac:(lia)) as Hn.
  set (m := rne_div (mu * P) 1000000) in *.
  apply rne_div_unique; [|lia|].
  - assert (0 <= m); [|nia]. nia.
  - replace (mu * P - m * 1000000) with (- (m * 1000000 - mu * P)) by lia. rewrite Z.abs_opp. lia.
Qed.

(* the text: right-aligned in the configured width, seconds "." six digits of microseconds *)
Theorem fmt_mono_exact_l (mu : N) :
  (mu < 4503599627370496)%N ->
  fmt_mono src_cfg mu
  = pad_left 12 (Strftime.dec (Z.of_N mu / 1000000) ++ 46%N :: digits_n 6 (Z.of_N mu mod 1000000)).
Proof.
  intro H. unfold fmt_mono.
  change (cfg_mono_width src_cfg) with 12%nat. change (cfg_mono_prec src_cfg) with 6%nat.
  change (cfg_mono_div src_cfg) with 1000000.
  rewrite mono_scaled_exact_l by (change (2 ^ 52) with 4503599627370496; lia).
  reflexivity.
Qed.

Example fmt_mono_examples :
  fmt_mono src_cfg 74212842 = s2b "   74.212842" /\
  fmt_mono src_cfg 13446824908 = s2b "13446.824908" /\
  fmt_mono src_cfg 0 = s2b "    0.000000" /\
  fmt_mono src_cfg 999999999999999 = s2b "999999999.999999".
Proof. vm_compute. repeat split; reflexivity. Qed.

(* above 2^53 microseconds the conversion to f64 already loses the last bits *)
Theorem mono_inexact_refuted_l :
  exists mu, 0 <= mu < 2 ^ 64 /\ mono_scaled 1000000 6 mu <> mu.
Proof. exists (2 ^ 53 + 1). split; [split; vm_compute; congruence|vm_compute; congruence]. Qed.
