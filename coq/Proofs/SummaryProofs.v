(* Proofs/SummaryProofs.v — the coordinator's accounting (C19) and run-level decoration (C13). *)
From S4.Base Require Import Bytes.
From S4.Model Require Import Strftime Print Summary.
From S4.Proofs Require Import PrintSem PrintVariants PrintStrip.
Open Scope nat_scope.

Section Run.
Variable c : cli.
Variable popt : nat -> popts.

Definition ev_prog (e : event) : prog := print_msg (popt (e_src e)) (e_msg e).

Lemma step_stdout st e :
  k_stdout (step c popt st e) = k_stdout st ++ sem_out (ev_prog e) (k_lasts st (e_src e)) ++ obs (trailer c e).
Proof.
  unfold step, ev_prog. cbn [k_stdout].
  destruct (exec_buf_sem BUFFER_CAP (print_msg (popt (e_src e)) (e_msg e)) (k_lasts st (e_src e))
              (print_msg_ends_flushed _ _)) as (Ho & _). rewrite Ho. reflexivity.
Qed.

Lemma step_lasts st e :
  k_lasts (step c popt st e) = fupd (k_lasts st) (e_src e) (sem_last (ev_prog e) (k_lasts st (e_src e))).
Proof.
  unfold step, ev_prog. cbn [k_lasts].
  destruct (exec_buf_sem BUFFER_CAP (print_msg (popt (e_src e)) (e_msg e)) (k_lasts st (e_src e))
              (print_msg_ends_flushed _ _)) as (_ & _ & Hl & _). rewrite Hl. reflexivity.
Qed.

Lemma step_total st e : c_summary c = true ->
  k_total (step c popt st e) =
  summ_update (summ_add_bytes (k_total st) (blen (trailer c e))) (e_msg e) (printed_of (ev_prog e)).
Proof.
  intro Hs. unfold step, ev_prog. cbn [k_total]. rewrite Hs.
  destruct (exec_buf_sem BUFFER_CAP (print_msg (popt (e_src e)) (e_msg e)) (k_lasts st (e_src e))
              (print_msg_ends_flushed _ _)) as (_ & Hp & _). rewrite Hp. reflexivity.
Qed.

Lemma step_files st e : c_summary c = true ->
  k_files (step c popt st e) =
  fupd (k_files st) (e_src e) (summ_update (k_files st (e_src e)) (e_msg e) (printed_of (ev_prog e))).
Proof.
  intro Hs. unfold step, ev_prog. cbn [k_files]. rewrite Hs.
  destruct (exec_buf_sem BUFFER_CAP (print_msg (popt (e_src e)) (e_msg e)) (k_lasts st (e_src e))
              (print_msg_ends_flushed _ _)) as (_ & Hp & _). rewrite Hp. reflexivity.
Qed.

Lemma run_from_cons st e evs : run_from c popt st (e :: evs) = run_from c popt (step c popt st e) evs.
Proof. reflexivity. Qed.

(* ---------------------------------------------------------------- total bytes = payload bytes of stdout *)
Lemma total_bytes_payload_from (Hs : c_summary c = true) evs : forall st,
  u_bytes (k_total st) = blen (payload (k_stdout st)) ->
  u_bytes (k_total (run_from c popt st evs)) = blen (payload (k_stdout (run_from c popt st evs))).
Proof.
  induction evs as [|e evs IH]; intros st H; [exact H|].
  rewrite run_from_cons. apply IH.
  rewrite step_total by exact Hs. rewrite step_stdout.
  rewrite !payload_app, payload_obs, payload_sem, !blen_app. cbn [summ_update summ_add_bytes u_bytes].
  rewrite H. unfold printed_of. lia.
Qed.

(* with colour off stdout consists of payload bytes only *)
Lemma print_msg_no_C o m : o_colour o = false -> no_C (print_msg o m) = true.
Proof.
  intro Hc. unfold print_msg, print_sysline, print_fixedstruct, print_evtx, print_journalentry. rewrite Hc.
  destruct (m_kind m), (o_file o), (o_date o);
    unfold print_sysline_, print_sysline_prependdate, print_sysline_prependfile,
      print_sysline_prependfile_prependdate, print_evtx_, print_evtx_prepend,
      print_journalentry_, print_journalentry_prepend;
    try reflexivity;
    rewrite no_C_app; apply andb_true_intro; (split; [|reflexivity]);
    apply no_C_flat_map; intro x; unfold p_line; simpl; rewrite ?no_C_mapW; reflexivity.
Qed.

Definition all_OB (os : list out) : Prop := os = obs (payload os).

Lemma all_OB_app a b : all_OB a -> all_OB b -> all_OB (a ++ b).
Proof. unfold all_OB. intros Ha Hb. rewrite payload_app, obs_app, <- Ha, <- Hb. reflexivity. Qed.

Lemma all_OB_obs s : all_OB (obs s).
Proof. unfold all_OB. rewrite payload_obs. reflexivity. Qed.

Lemma stdout_all_OB_from (Hc : forall i, o_colour (popt i) = false) evs : forall st,
  all_OB (k_stdout st) -> all_OB (k_stdout (run_from c popt st evs)).
Proof.
  induction evs as [|e evs IH]; intros st H; [exact H|].
  rewrite run_from_cons. apply IH. rewrite step_stdout.
  apply all_OB_app; [exact H|]. apply all_OB_app; [|apply all_OB_obs].
  unfold sem_out, ev_prog. rewrite (sem_no_C _ _ (print_msg_no_C _ _ (Hc _))). apply all_OB_obs.
Qed.

(* ---------------------------------------------------------------- per-file sums *)
Fixpoint sumf (n : nat) (f : nat -> N) : N :=
  match n with O => 0%N | S k => (sumf k f + f k)%N end.

Lemma sumf_ext n f g : (forall i, i < n -> f i = g i) -> sumf n f = sumf n g.
Proof. induction n; intro H; simpl; [reflexivity|]. rewrite IHn, H by (intros; try apply H; lia). reflexivity. Qed.

Lemma sumf_fupd n (f : nat -> summ) i v : i < n ->
  (sumf n (fun j => u_bytes (fupd f i v j)) + u_bytes (f i) = sumf n (fun j => u_bytes (f j)) + u_bytes v)%N.
Proof.
  induction n as [|n IH]; intro H; [lia|]. simpl.
  destruct (Nat.eq_dec i n) as [E|E].
  - subst i. unfold fupd at 2. rewrite Nat.eqb_refl.
    rewrite (sumf_ext n (fun j => u_bytes (fupd f n v j)) (fun j => u_bytes (f j))).
    + lia.
    + intros j Hj. unfold fupd. destruct (Nat.eqb_spec j n); [lia|reflexivity].
  - unfold fupd at 2. destruct (Nat.eqb_spec n i); [lia|].
    assert (Hi : i < n) by lia. specialize (IH Hi). lia.
Qed.

Definition extra (evs : list event) : N :=
  fold_right (fun e a => (blen (trailer c e) + a)%N) 0%N evs.

Lemma per_file_from (Hs : c_summary c = true) n evs : forall st,
  Forall (fun e => e_src e < n) evs ->
  (u_bytes (k_total (run_from c popt st evs)) + sumf n (fun j => u_bytes (k_files st j))
   = u_bytes (k_total st) + sumf n (fun j => u_bytes (k_files (run_from c popt st evs) j)) + extra evs)%N.
Proof.
  induction evs as [|e evs IH]; intros st H; [simpl; lia|].
  inversion H as [|? ? He Hr]; subst.
  rewrite run_from_cons. specialize (IH (step c popt st e) Hr).
  rewrite step_total in IH by exact Hs. rewrite step_files in IH by exact Hs.
  cbn [summ_update summ_add_bytes u_bytes] in IH.
  pose proof (sumf_fupd n (k_files st) (e_src e)
                (summ_update (k_files st (e_src e)) (e_msg e) (printed_of (ev_prog e))) He) as Hf.
  cbn [summ_update u_bytes] in Hf. simpl extra. lia.
Qed.

Lemma extra_count evs :
  extra evs = (N.of_nat (length evs) * blen (c_sep c)
               + N.of_nat (length (filter supplied_nl evs)))%N.
Proof.
  induction evs as [|e evs IH]; [reflexivity|].
  simpl extra. rewrite IH. unfold trailer. rewrite blen_app. cbn [length filter].
  destruct (supplied_nl e); cbn [length]; unfold blen; simpl length; lia.
Qed.

(* ---------------------------------------------------------------- counters *)
Definition is_kind (k : kind) (e : event) : bool :=
  match m_kind (e_msg e), k with
  | KSys, KSys | KFixed, KFixed | KEvtx, KEvtx | KJournal, KJournal => true
  | _, _ => false
  end.

Definition count_kind (k : kind) (evs : list event) : N := N.of_nat (length (filter (is_kind k) evs)).

Definition text_lines (evs : list event) : N :=
  fold_right (fun e a => (match m_kind (e_msg e) with KSys => N.of_nat (length (m_lines (e_msg e))) | _ => 0 end + a)%N)
             0%N evs.

Lemma counters_from (Hs : c_summary c = true) evs : forall st,
  let st' := run_from c popt st evs in
  u_sys (k_total st') = (u_sys (k_total st) + count_kind KSys evs)%N /\
  u_fixed (k_total st') = (u_fixed (k_total st) + count_kind KFixed evs)%N /\
  u_evtx (k_total st') = (u_evtx (k_total st) + count_kind KEvtx evs)%N /\
  u_journal (k_total st') = (u_journal (k_total st) + count_kind KJournal evs)%N /\
  u_lines (k_total st') = (u_lines (k_total st) + text_lines evs)%N.
Proof.
  induction evs as [|e evs IH]; intro st.
  - unfold count_kind. simpl. repeat split; lia.
  - cbn zeta. rewrite run_from_cons. specialize (IH (step c popt st e)). cbn zeta in IH.
    destruct IH as (H1 & H2 & H3 & H4 & H5). rewrite H1, H2, H3, H4, H5.
    rewrite step_total by exact Hs.
    cbn [summ_update summ_add_bytes u_sys u_fixed u_evtx u_journal u_lines].
    unfold count_kind. cbn [filter text_lines fold_right]. unfold is_kind, text_lines.
    destruct (m_kind (e_msg e)); cbn [length]; repeat split; lia.
Qed.

(* ---------------------------------------------------------------- first / last *)
Definition instants (evs : list event) : list Z := map (fun e => m_t (e_msg e)) evs.

Lemma first_last_from (Hs : c_summary c = true) evs : forall st,
  u_first (k_total (run_from c popt st evs)) = fold_left upd_first (instants evs) (u_first (k_total st)) /\
  u_last (k_total (run_from c popt st evs)) = fold_left upd_last (instants evs) (u_last (k_total st)).
Proof.
  induction evs as [|e evs IH]; intro st; [split; reflexivity|].
  rewrite run_from_cons. destruct (IH (step c popt st e)) as [H1 H2]. rewrite H1, H2.
  rewrite step_total by exact Hs. split; reflexivity.
Qed.

End Run.

Lemma fold_first_some ts : forall a t,
  fold_left upd_first ts (Some a) = Some t ->
  (t <= a)%Z /\ (forall x, In x ts -> (t <= x)%Z) /\ (t = a \/ In t ts).
Proof.
  induction ts as [|x ts IH]; intros a t H; simpl in H.
  - inversion H; subst. split; [lia|]. split; [intros ? []|left; reflexivity].
  - destruct (Z.ltb_spec x a) as [L|L].
    + destruct (IH _ _ H) as (H1 & H2 & H3). split; [lia|]. split.
      * intros y [E|Hy]; [subst; exact H1 | apply H2, Hy].
      * right. destruct H3 as [E|Hy]; [left; symmetry; exact E | right; exact Hy].
    + destruct (IH _ _ H) as (H1 & H2 & H3). split; [exact H1|]. split.
      * intros y [E|Hy]; [subst; lia | apply H2, Hy].
      * destruct H3 as [E|Hy]; [left; exact E | right; right; exact Hy].
Qed.

Lemma fold_last_some ts : forall a t,
  fold_left upd_last ts (Some a) = Some t ->
  (a <= t)%Z /\ (forall x, In x ts -> (x <= t)%Z) /\ (t = a \/ In t ts).
Proof.
  induction ts as [|x ts IH]; intros a t H; simpl in H.
  - inversion H; subst. split; [lia|]. split; [intros ? []|left; reflexivity].
  - destruct (Z.gtb_spec x a) as [L|L].
    + destruct (IH _ _ H) as (H1 & H2 & H3). split; [lia|]. split.
      * intros y [E|Hy]; [subst; exact H1 | apply H2, Hy].
      * right. destruct H3 as [E|Hy]; [left; symmetry; exact E | right; exact Hy].
    + destruct (IH _ _ H) as (H1 & H2 & H3). split; [exact H1|]. split.
      * intros y [E|Hy]; [subst; lia | apply H2, Hy].
      * destruct H3 as [E|Hy]; [left; exact E | right; right; exact Hy].
Qed.

(* min / max characterisation *)
Definition is_min (o : option Z) (ts : list Z) : Prop :=
  match ts with
  | [] => o = None
  | _ => exists t, o = Some t /\ In t ts /\ forall x, In x ts -> (t <= x)%Z
  end.
Definition is_max (o : option Z) (ts : list Z) : Prop :=
  match ts with
  | [] => o = None
  | _ => exists t, o = Some t /\ In t ts /\ forall x, In x ts -> (x <= t)%Z
  end.

Lemma fold_first_is_min ts : is_min (fold_left upd_first ts None) ts.
Proof.
  destruct ts as [|a ts]; [reflexivity|]. unfold is_min. simpl fold_left.
  destruct (fold_left upd_first ts (Some a)) as [t|] eqn:E.
  - destruct (fold_first_some ts a t E) as (H1 & H2 & H3). exists t. split; [reflexivity|]. split.
    + destruct H3; [left; symmetry; assumption | right; assumption].
    + intros x [Hx|Hx]; [subst; exact H1 | apply H2, Hx].
  - exfalso. clear -E. revert a E. induction ts as [|x ts IH]; intros a E; simpl in E; [discriminate|].
    destruct (x <? a)%Z; eapply IH; exact E.
Qed.

Lemma fold_last_is_max ts : is_max (fold_left upd_last ts None) ts.
Proof.
  destruct ts as [|a ts]; [reflexivity|]. unfold is_max. simpl fold_left.
  destruct (fold_left upd_last ts (Some a)) as [t|] eqn:E.
  - destruct (fold_last_some ts a t E) as (H1 & H2 & H3). exists t. split; [reflexivity|]. split.
    + destruct H3; [left; symmetry; assumption | right; assumption].
    + intros x [Hx|Hx]; [subst; exact H1 | apply H2, Hx].
  - exfalso. clear -E. revert a E. induction ts as [|x ts IH]; intros a E; simpl in E; [discriminate|].
    destruct (x >? a)%Z; eapply IH; exact E.
Qed.

(* ================================================================ C19 statements *)
Definition with_summary (b : bool) (c : cli) : cli :=
  {| c_colour := c_colour c; c_prepend_file := c_prepend_file c; c_align := c_align c; c_psep := c_psep c;
     c_fmt := c_fmt c; c_off := c_off c; c_sep := c_sep c; c_summary := b |}.

Theorem total_bytes_payload c srcs evs : c_summary c = true ->
  u_bytes (k_total (run c srcs evs)) = blen (payload (k_stdout (run c srcs evs))).
Proof. intro Hs. unfold run. apply total_bytes_payload_from; [exact Hs|reflexivity]. Qed.

Theorem total_bytes_stdout_nocolour c srcs evs g : c_summary c = true -> c_colour c = false ->
  u_bytes (k_total (run c srcs evs)) = blen (concr g (k_stdout (run c srcs evs))).
Proof.
  intros Hs Hc. rewrite total_bytes_payload by exact Hs.
  assert (H : all_OB (k_stdout (run c srcs evs))).
  { unfold run. apply stdout_all_OB_from; [|reflexivity]. intro i. unfold popt_of, printer_opts. exact Hc. }
  rewrite H at 2. rewrite concr_obs. reflexivity.
Qed.

Theorem total_bytes_strip_sgr c srcs evs g : c_summary c = true ->
  sgr_ok g -> no_esc (payload (k_stdout (run c srcs evs))) ->
  u_bytes (k_total (run c srcs evs)) = blen (strip_sgr (concr g (k_stdout (run c srcs evs)))).
Proof.
  intros Hs Hg Hn. rewrite strip_sgr_concr by assumption. apply total_bytes_payload, Hs.
Qed.

Theorem per_file_sum c srcs evs n : c_summary c = true -> Forall (fun e => e_src e < n) evs ->
  (sumf n (fun j => u_bytes (k_files (run c srcs evs) j))
   + N.of_nat (length evs) * blen (c_sep c) + N.of_nat (length (filter supplied_nl evs))
   = u_bytes (k_total (run c srcs evs)))%N.
Proof.
  intros Hs Hn. unfold run.
  pose proof (per_file_from c (popt_of c srcs evs) Hs n evs cstate0 Hn) as H.
  rewrite extra_count in H. cbn [cstate0 k_total k_files summ0 u_bytes] in H.
  assert (Hz : sumf n (fun _ : nat => 0%N) = 0%N) by (clear; induction n; simpl; lia).
  rewrite Hz in H. lia.
Qed.

Theorem message_counters c srcs evs : c_summary c = true ->
  let t := k_total (run c srcs evs) in
  u_sys t = count_kind KSys evs /\ u_fixed t = count_kind KFixed evs /\
  u_evtx t = count_kind KEvtx evs /\ u_journal t = count_kind KJournal evs /\
  u_lines t = text_lines evs.
Proof.
  intros Hs t. unfold t, run.
  destruct (counters_from c (popt_of c srcs evs) Hs evs cstate0) as (H1 & H2 & H3 & H4 & H5).
  rewrite H1, H2, H3, H4, H5. cbn. repeat split; lia.
Qed.

Theorem first_last_printed c srcs evs : c_summary c = true ->
  is_min (u_first (k_total (run c srcs evs))) (instants evs) /\
  is_max (u_last (k_total (run c srcs evs))) (instants evs).
Proof.
  intro Hs. unfold run.
  destruct (first_last_from c (popt_of c srcs evs) Hs evs cstate0) as [H1 H2].
  rewrite H1, H2. cbn [cstate0 k_total summ0 u_first u_last].
  split; [apply fold_first_is_min | apply fold_last_is_max].
Qed.

Lemma popt_of_summary b c srcs evs : popt_of (with_summary b c) srcs evs = popt_of c srcs evs.
Proof. reflexivity. Qed.

Lemma step_summary_indep b c popt evs : forall st st',
  k_stdout st = k_stdout st' -> k_lasts st = k_lasts st' ->
  k_stdout (run_from (with_summary b c) popt st evs) = k_stdout (run_from c popt st' evs).
Proof.
  induction evs as [|e evs IH]; intros st st' H1 H2; [exact H1|].
  rewrite !run_from_cons. apply IH.
  - rewrite !step_stdout. rewrite H1, H2. reflexivity.
  - rewrite !step_lasts. rewrite H2. reflexivity.
Qed.

Theorem summary_leaves_stdout c srcs evs b :
  k_stdout (run (with_summary b c) srcs evs) = k_stdout (run c srcs evs).
Proof. unfold run. rewrite popt_of_summary. apply step_summary_indep; reflexivity. Qed.

(* F8: with colour on, the reported total omits the SGR bytes *)
Definition f8_cli : cli :=
  {| c_colour := true; c_prepend_file := false; c_align := false; c_psep := [58%N]; c_fmt := None;
     c_off := 0%Z; c_sep := []; c_summary := true |}.
Definition f8_evs : list event :=
  [{| e_src := 0; e_is_last := true;
      e_msg := {| m_kind := KSys; m_t := 0%Z; m_lines := [[[50;48;50;52;32;120;10]%N]]; m_beg := 0; m_end := 4 |} |}].

Theorem total_bytes_colour_refuted :
  exists c srcs evs g, c_summary c = true /\ c_colour c = true /\ sgr_ok g /\
    u_bytes (k_total (run c srcs evs)) <> blen (concr g (k_stdout (run c srcs evs))).
Proof.
  exists f8_cli, [{| s_name := [97%N]; s_nchars := 1; s_width := 1 |}], f8_evs, (termcolor_sgr 102 230 102).
  split; [reflexivity|]. split; [reflexivity|]. split; [apply termcolor_sgr_ok|].
  vm_compute. discriminate.
Qed.

(* what `Printed lines` does not count: the lines of record / event / journal messages *)
Definition evx_evs : list event :=
  [{| e_src := 0; e_is_last := false;
      e_msg := {| m_kind := KEvtx; m_t := 0%Z; m_lines := [[[60;97;62;10]%N]; [[60;98;62;10]%N]; [[60;99;62;10]%N]];
                  m_beg := 0; m_end := 0 |} |}].

Lemma lines_exclude_records :
  exists c srcs evs, c_summary c = true /\
    u_lines (k_total (run c srcs evs)) = 0%N /\
    length (filter (fun b => (b =? 10)%N) (payload (k_stdout (run c srcs evs)))) = 3.
Proof.
  exists (with_summary true {| c_colour := false; c_prepend_file := false; c_align := false; c_psep := [];
            c_fmt := None; c_off := 0%Z; c_sep := []; c_summary := true |}),
         [{| s_name := [97%N]; s_nchars := 1; s_width := 1 |}], evx_evs.
  vm_compute. auto.
Qed.

(* ================================================================ C13 at run level *)
Definition ev_ok (e : event) : Prop :=
  wf_full (e_msg e) /\ m_beg (e_msg e) <= m_end (e_msg e).

Lemma payload_run_from c popt evs : forall st, Forall ev_ok evs ->
  payload (k_stdout (run_from c popt st evs)) =
  payload (k_stdout st) ++
  flat_map (fun e => dec_bytes (popt (e_src e)) (e_msg e) ++ c_sep c ++ (if supplied_nl e then [10%N] else [])) evs.
Proof.
  induction evs as [|e evs IH]; intros st H; [simpl; rewrite app_nil_r; reflexivity|].
  inversion H as [|? ? He Hr]; subst. destruct He as (Hwf & Hbe).
  rewrite run_from_cons, IH by exact Hr. rewrite step_stdout, !payload_app, payload_obs.
  destruct (print_msg_payload (popt (e_src e)) (e_msg e) (k_lasts st (e_src e)) Hwf Hbe) as [Hp _].
  unfold ev_prog. rewrite Hp. unfold trailer. simpl flat_map. rewrite <- !app_assoc. reflexivity.
Qed.

Lemma strip_msgs_run c popt evs :
  strip_msgs (shape_of c popt evs)
    (flat_map (fun e => dec_bytes (popt (e_src e)) (e_msg e) ++ c_sep c ++ (if supplied_nl e then [10%N] else [])) evs)
  = Some (plain_run evs).
Proof.
  induction evs as [|e evs IH]; [reflexivity|].
  simpl flat_map. simpl shape_of. unfold shape_of_msg, dec_bytes at 1.
  rewrite <- !app_assoc.
  rewrite (strip_msgs_cons _ _ _ _ _ _ _ IH). unfold plain_run at 2. simpl flat_map.
  unfold plain, m_data. rewrite <- app_assoc. reflexivity.
Qed.

(* deleting file field, date field (in that order, at every line start) and the separator after each
   message from the decorated run leaves exactly the undecorated run *)
Theorem strip_run c srcs evs : Forall ev_ok evs ->
  strip_msgs (shape_of c (popt_of c srcs evs) evs) (payload (k_stdout (run c srcs evs))) = Some (plain_run evs).
Proof.
  intro H. unfold run. rewrite payload_run_from by exact H. simpl. apply strip_msgs_run.
Qed.

(* ---------------------------------------------------------------- alignment *)
Lemma prepend_width_ge c srcs printed i : c_align c = true -> In i printed ->
  s_width (src_at srcs i) <= prepend_width c srcs printed.
Proof.
  intros Ha Hi. unfold prepend_width. rewrite Ha. induction printed as [|j r IH]; [destruct Hi|].
  simpl. destruct Hi as [E|Hi]; [subst; lia | specialize (IH Hi); lia].
Qed.

Lemma prepend_width_attained c srcs printed : c_align c = true -> printed <> [] ->
  exists i, In i printed /\ prepend_width c srcs printed = s_width (src_at srcs i).
Proof.
  intros Ha Hne. unfold prepend_width. rewrite Ha. induction printed as [|j r IH]; [congruence|].
  destruct r as [|k r].
  - exists j. simpl. split; [left; reflexivity | lia].
  - destruct IH as [i [Hi Hw]]; [discriminate|].
    simpl fold_right in *. destruct (Nat.max_spec (s_width (src_at srcs j)) (Nat.max (s_width (src_at srcs k)) (fold_right (fun i0 w => Nat.max (s_width (src_at srcs i0)) w) 0 r))) as [[_ E]|[_ E]].
    + exists i. split; [right; exact Hi | rewrite E; exact Hw].
    + exists j. split; [left; reflexivity | exact E].
Qed.

(* names whose char count equals their display width (ASCII): every printed file field has the
   same length: the maximal width over the printed sources plus the separator *)
Theorem pad_width c srcs evs e : c_align c = true -> In e evs ->
  s_nchars (src_at srcs (e_src e)) = s_width (src_at srcs (e_src e)) ->
  length (s_name (src_at srcs (e_src e))) = s_nchars (src_at srcs (e_src e)) ->
  length (o_ff (popt_of c srcs evs (e_src e))) = prepend_width c srcs (map e_src evs) + length (c_psep c)
  /\ (exists e', In e' evs /\ prepend_width c srcs (map e_src evs) = s_width (src_at srcs (e_src e'))).
Proof.
  intros Ha He Hw Hl. split.
  - unfold popt_of, printer_opts, file_field. cbn [o_ff]. rewrite !app_length, repeat_length, Hl, Hw.
    pose proof (prepend_width_ge c srcs (map e_src evs) (e_src e) Ha (in_map e_src evs e He)). lia.
  - destruct (prepend_width_attained c srcs (map e_src evs) Ha) as [i [Hi E]].
    + destruct evs; [destruct He | discriminate].
    + apply in_map_iff in Hi as [e' [E' He']]. exists e'. subst i. auto.
Qed.

(* ---------------------------------------------------------------- separator escapes *)
Lemma unescape_table :
  map (fun ch => unescape [92%N; ch]) [48; 97; 98; 101; 102; 110; 114; 92; 116; 118]%N
  = map (fun v => Some [v]) [0; 7; 8; 27; 12; 10; 13; 92; 9; 11]%N
  /\ unescape [92%N] = None /\ unescape [92%N; 120%N] = None.
Proof. vm_compute. auto. Qed.

Lemma unescape_plain l : ~ In 92%N l -> unescape l = Some l.
Proof.
  induction l as [|b l IH]; intro H; [reflexivity|]. simpl.
  destruct (N.eqb_spec b 92) as [E|E]; [exfalso; apply H; left; exact E|].
  rewrite IH; [reflexivity|]. intro Hin. apply H. right. exact Hin.
Qed.
