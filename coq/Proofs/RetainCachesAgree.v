(* Proofs/RetainCachesAgree.v — property C17: the two models of what the readers keep AGREE.
   Model/Caches.v (WP-A): the cache state of LineReader / SyslineReader / BlockReader as a state
   machine over the bytes of the file, every summary() counter.  Model/Retain.v: the stores as sets of
   keys with their high-water marks, over the layout of the file.  For a plain file, the stage
   driver's call pattern (c_stream with the drop plan that SyslogProcessor::drop_data_try produces)
   and a consumer that keeps up, the stores of the cache machine after every iteration have the
   sizes of the stores of `run cur_plain (init ms) (sched_lag 1 ..)` and its counters
   blocks_highest / lines_stored_highest / syslines_stored_highest / drop_sysline Ok, Err equal the
   marks hb / hl / hs / dok / derr: a simulation relation between the two machines (Rel), kept by
   every find (find_step) and every drop (drop_step). *)
From Coq Require Import List NArith ZArith Bool Sorted Lia.
Import ListNotations.
From S4.Base Require Import Bytes Chunk.
From S4.Spec Require Import LinesSpec.
From S4.Model Require Import Lines Syslines Caches.
From S4.Proofs Require Import LinesProofs CachesProofs CachesRunProofs RetainCachesEffects.
From S4.Model Require Retain.
From S4.Model Require Import RetainCaches.
From S4.Proofs Require RetainProofs RetainLayout RetainLag.
Open Scope N_scope.

Module R := S4.Model.Retain.
Module RP := S4.Proofs.RetainProofs.
Module RL := S4.Proofs.RetainLag.
Module RY := S4.Proofs.RetainLayout.

(* the schedule of a consumer that keeps up, from iteration k on *)
Definition evs_from (k : N) (cnt : nat) : list R.event :=
  flat_map (fun j => (if 1 <=? j then [R.ER (j - 1)] else []) ++ [R.EW]) (nseq k cnt).

Lemma sched_lag_1 n : R.sched_lag 1 n = evs_from 0 n.
Proof. reflexivity. Qed.

(* ------------------------------------------------------------------ Retain: reading a plain file, exactly *)
Lemma read_blocks_exact c cnt : forall b s, R.streamed c = false -> R.nread s = b -> R.lenN (R.blocks s) <= R.hb s ->
  let s' := R.read_blocks c cnt b s in
  R.blocks s' = R.blocks s ++ nseq b cnt /\ R.nread s' = b + N.of_nat cnt /\
  R.hb s' = N.max (R.hb s) (R.lenN (R.blocks s')) /\ RP.same_but_blocks s s'.
Proof.
  induction cnt as [|cnt IH]; intros b s Hc Hn Hh; cbv zeta; cbn [R.read_blocks].
  - cbn [R.nseq]. rewrite app_nil_r. splits; auto; [lia|lia|apply RP.same_but_blocks_refl].
  - assert (E1 : R.blocks (R.read_block c s b) = R.blocks s ++ [b]).
    { unfold R.read_block, R.set_blocks. cbn. rewrite Hc. reflexivity. }
    assert (E2 : R.hb (R.read_block c s b) = N.max (R.hb s) (R.lenN (R.blocks s ++ [b]))) by reflexivity.
    assert (E3 : R.nread (R.read_block c s b) = b + 1) by reflexivity.
    destruct (RP.read_block_spec c s b) as (SB & _). cbv zeta in SB.
    destruct (IH (b + 1) (R.read_block c s b) Hc E3) as (I1 & I2 & I3 & I4).
    { rewrite E1, E2. lia. }
    cbv zeta in *. splits.
    + rewrite I1, E1, <- app_assoc. reflexivity.
    + rewrite I2. lia.
    + rewrite I3, E2, I1, E1. rewrite !RP.lenN_app. lia.
    + exact (RP.same_but_blocks_trans _ _ _ SB I4).
Qed.

Definition nread_after (ls : list R.lspan) (n : N) : N := fold_left (fun n l => N.max n (R.llb l + 1)) ls n.

Lemma nread_after_ge ls : forall n, n <= nread_after ls n.
Proof. induction ls as [|l ls IH]; intros n; cbn; [lia|]. etransitivity; [|apply IH]. lia. Qed.

Lemma read_lines_exact c ls : forall s, R.streamed c = false -> R.lenN (R.blocks s) <= R.hb s -> R.lenN (R.lines s) <= R.hl s ->
  let s' := fold_left (R.read_line c) ls s in
  let n' := nread_after ls (R.nread s) in
  R.blocks s' = R.blocks s ++ nseq (R.nread s) (N.to_nat (n' - R.nread s)) /\ R.nread s' = n' /\
  R.lines s' = R.lines s ++ ls /\
  R.hb s' = N.max (R.hb s) (R.lenN (R.blocks s')) /\ R.hl s' = N.max (R.hl s) (R.lenN (R.lines s')) /\
  RP.same_index s s' /\ R.front s' = last (map Some ls) (R.front s).
Proof.
  induction ls as [|l ls IH]; intros s Hc Hb Hl; cbv zeta; cbn [fold_left].
  - change (nread_after [] (R.nread s)) with (R.nread s). replace (R.nread s - R.nread s) with 0 by lia. cbn [N.to_nat R.nseq]. rewrite !app_nil_r.
    splits; auto; [lia|lia|apply RP.same_index_refl].
  - change (nread_after (l :: ls) (R.nread s)) with (nread_after ls (N.max (R.nread s) (R.llb l + 1))).
    set (cnt := N.to_nat (R.llb l + 1 - R.nread s)).
    destruct (read_blocks_exact c cnt (R.nread s) s Hc eq_refl Hb) as (B1 & B2 & B3 & B4). cbv zeta in *.
    destruct B4 as (Fl & F1 & F2 & F3 & F4 & F5 & F6 & F7 & F8 & F9 & F10 & F11).
    set (s0 := R.read_blocks c cnt (R.nread s) s) in *.
    assert (E : R.read_line c s l = R.add_line s0 l) by reflexivity.
    assert (A1 : R.blocks (R.read_line c s l) = R.blocks s0) by reflexivity.
    assert (A2 : R.nread (R.read_line c s l) = N.max (R.nread s) (R.llb l + 1)) by (rewrite E; cbn; rewrite B2; unfold cnt; lia).
    assert (A3 : R.lines (R.read_line c s l) = R.lines s ++ [l]) by (rewrite E; cbn; rewrite Fl; reflexivity).
    assert (A4 : R.hb (R.read_line c s l) = R.hb s0) by reflexivity.
    assert (A5 : R.hl (R.read_line c s l) = N.max (R.hl s) (R.lenN (R.lines s ++ [l]))) by (rewrite E; cbn; rewrite Fl, F4; reflexivity).
    assert (A6 : R.front (R.read_line c s l) = Some l) by reflexivity.
    destruct (IH (R.read_line c s l) Hc) as (I1 & I2 & I3 & I4 & I5 & I6 & I7).
    { rewrite A1, A4, B3. lia. }
    { rewrite A3, A5. lia. }
    cbv zeta in *. rewrite A2 in *.
    pose proof (nread_after_ge ls (N.max (R.nread s) (R.llb l + 1))) as Hge.
    splits.
    + rewrite I1, A1, B1, <- app_assoc. f_equal.
      replace (N.to_nat (nread_after ls (N.max (R.nread s) (R.llb l + 1)) - R.nread s))
        with (cnt + N.to_nat (nread_after ls (N.max (R.nread s) (R.llb l + 1)) - N.max (R.nread s) (R.llb l + 1)))%nat by (unfold cnt; lia).
      rewrite nseq_app. f_equal. f_equal. unfold cnt. lia.
    + exact I2.
    + rewrite I3, A3, <- app_assoc. reflexivity.
    + rewrite I4, A4, B3.
      assert (R.lenN (R.blocks s0) <= R.lenN (R.blocks (fold_left (R.read_line c) ls (R.read_line c s l)))) by (rewrite I1, A1, RP.lenN_app; lia).
      lia.
    + rewrite I5, A5.
      assert (R.lenN (R.lines s ++ [l]) <= R.lenN (R.lines (fold_left (R.read_line c) ls (R.read_line c s l)))) by (rewrite I3, A3, !RP.lenN_app; lia).
      lia.
    + eapply RP.same_index_trans; [|exact I6]. rewrite E. unfold RP.same_index. cbn. splits; auto.
    + rewrite I7, A6. cbn [map]. rewrite RP.last_cons. reflexivity.
Qed.

(* ------------------------------------------------------------------ list facts *)
Lemma in_keys_alookup {V} k (m : list (N * V)) : In k (map fst m) -> exists v, alookup k m = Some v.
Proof.
  intros H. destruct (alookup k m) as [v|] eqn:E; [eauto|]. apply alookup_None_keys in E. contradiction.
Qed.

Lemma ainsert_append {V} k (v : V) m : (forall k', In k' (map fst m) -> k' < k) -> ainsert k v m = m ++ [(k, v)].
Proof.
  induction m as [|[k' v'] m IH]; intros H; [reflexivity|]. cbn [ainsert].
  pose proof (H k' (or_introl eq_refl)) as Hk.
  destruct (N.ltb_spec k k'); [lia|]. destruct (N.eqb_spec k k'); [lia|].
  cbn [app]. rewrite IH; [reflexivity|]. intros x Hx. apply H. right. exact Hx.
Qed.

Lemma filter_map_comm {A B} (g : A -> B) (p : B -> bool) l : filter p (map g l) = map g (filter (fun x => p (g x)) l).
Proof. induction l as [|x l IH]; [reflexivity|]. cbn [map filter]. destruct (p (g x)); cbn [map]; rewrite IH; reflexivity. Qed.

Lemma NoDup_map_inj_in {A B} (g : A -> B) l : NoDup l -> (forall x y, In x l -> In y l -> g x = g y -> x = y) -> NoDup (map g l).
Proof.
  induction 1 as [|x l Hx Hn IH]; intros Hinj; [constructor|]. cbn [map]. constructor.
  - intro X. apply in_map_iff in X as (y & E & Iy). apply Hx. rewrite (Hinj x y (or_introl eq_refl) (or_intror Iy) (eq_sym E)). exact Iy.
  - apply IH. intros a b Ia Ib. apply Hinj; right; assumption.
Qed.

Lemma NoDup_equiv_len {A} (a b : list A) : NoDup a -> NoDup b -> (forall x, In x a <-> In x b) -> length a = length b.
Proof.
  intros Ha Hb H. apply Nat.le_antisymm; apply NoDup_incl_length; auto; intros x X; apply H; exact X.
Qed.

Lemma nseq_NoDup n : forall start, NoDup (nseq start n).
Proof.
  induction n as [|n IH]; intros start; cbn [R.nseq]; constructor; [|apply IH].
  intro X. apply in_nseq in X. lia.
Qed.

Lemma NoDup_app_intro {A} (a b : list A) : NoDup a -> NoDup b -> (forall x, In x a -> In x b -> False) -> NoDup (a ++ b).
Proof.
  induction 1 as [|x a Hx Ha IH]; intros Hb Hd; [exact Hb|]. cbn [app]. constructor.
  - intro X. apply in_app_or in X as [X|X]; [auto|]. apply (Hd x); [left; reflexivity|exact X].
  - apply IH; auto. intros y Ya Yb. apply (Hd y); [right; exact Ya|exact Yb].
Qed.

Lemma last_map_opt {A} (g : option A -> N) (ls : list A) d : g (last (map Some ls) d) = last (map (fun l => g (Some l)) ls) (g d).
Proof. revert d. induction ls as [|l r IH]; intros d; [reflexivity|]. cbn [map]. rewrite !RP.last_cons. apply IH. Qed.

Lemma last_some_cases {A} (ls : list A) d fl : last (map Some ls) d = Some fl -> (ls = [] /\ d = Some fl) \/ In fl ls.
Proof.
  destruct ls as [|l0 r]; [left; auto|right]. cbn [map] in H. rewrite RP.last_cons in H. rewrite (RP.last_map Some) in H.
  injection H as <-. apply RY.last_in.
Qed.

(* ------------------------------------------------------------------ the two machines side by side *)
Section Agree.
Variable bs : N.
Variable f : file.
Hypothesis Hbs : 0 < bs.
Hypothesis Hf : 0 < lenN f.
Variable dated : list N -> option Z.

(* a line of the layout model is a line of the file *)
Definition sp (l : R.lspan) : N * N := (R.lbeg l, R.lend l).
Definition lreal (l : R.lspan) : Prop :=
  span f (R.lbeg l) (R.lend l) /\ R.lfb l = R.lbeg l / bs /\ R.llb l = R.lend l / bs.
Definition adj (a b : R.lspan) : Prop := R.lbeg b = R.lend a + 1.
Definition is_dated (l : R.lspan) : Prop := exists z, dated (slice f (R.lbeg l) (R.lend l + 1)) = Some z.
Definition is_undated (l : R.lspan) : Prop := dated (slice f (R.lbeg l) (R.lend l + 1)) = None.
Definition mbeg (m : R.msg) : N := R.lbeg (R.mfirst m).

(* the message sequence ms describes the file f: its lines are the lines of f from offset 0 to the
   end, a message begins with a line the parser dates and goes on with lines it does not *)
Record realizes (ms : list R.msg) : Prop := {
  rz_lines : Forall lreal (R.file_lines ms);
  rz_adj : R.chain adj (R.file_lines ms);
  rz_first : match ms with m :: _ => mbeg m = 0 | [] => True end;
  rz_last : match ms with m :: r => R.mend (last r m) + 1 = lenN f | [] => True end;
  rz_dated : Forall (fun m => is_dated (R.mfirst m) /\ Forall is_undated (R.mbody m)) ms
}.

Variables (spn ml : N) (ms : list R.msg).
Hypothesis Hwf : R.wf bs spn ml ms.
Hypothesis Hkeys : map R.mkey ms = nseq 0 (length ms).
Hypothesis Hreal : realizes ms.

Notation FL := (R.file_lines ms).

(* ---- order of the lines *)
Definition spl (a b : R.lspan) : Prop := R.lend a < R.lbeg b /\ R.lbeg a <= R.lend a /\ R.lbeg b <= R.lend b.

Lemma fl_real l : In l FL -> lreal l.
Proof. pose proof (rz_lines _ Hreal) as H. rewrite Forall_forall in H. apply H. Qed.

Lemma fl_sorted_before : StronglySorted RY.before FL.
Proof. destruct Hwf as (_ & H1 & H2 & _). eapply RY.lines_sorted; eauto. Qed.

Lemma fl_sorted_spl : StronglySorted spl FL.
Proof.
  apply RP.chain_SS; [unfold spl; intros; lia|].
  pose proof (rz_adj _ Hreal) as Hc. pose proof (rz_lines _ Hreal) as Hl.
  induction FL as [|x l IH]; [exact I|]. apply Forall_cons_iff in Hl as [Hx Hl]. cbn [R.chain] in *. destruct Hc as [H1 H2].
  split; [|auto]. destruct l as [|y l]; [exact I|]. apply Forall_cons_iff in Hl as [Hy _].
  destruct Hx as ((X & _) & _), Hy as ((Y & _) & _). unfold adj in H1. unfold spl. lia.
Qed.

Lemma lbeg_inj l l' : In l FL -> In l' FL -> R.lbeg l = R.lbeg l' -> l = l'.
Proof.
  intros H1 H2 E. destruct (RP.SS_tricho _ _ _ _ fl_sorted_spl H1 H2) as [X|[X|X]]; auto; unfold spl in X; lia.
Qed.

Lemma fl_key_inj l l' : In l FL -> In l' FL -> R.lkey l = R.lkey l' -> l = l'.
Proof. apply (RP.wf_key_inj bs spn ml ms Hwf). Qed.

Lemma msg_lines_file m l : In m ms -> In l (R.mlines m) -> In l FL.
Proof. apply RP.wf_mlines_file. Qed.

(* lines of earlier messages are before the lines of later ones *)
Lemma done_before dn q rest m l l' : ms = dn ++ q :: rest -> In m dn -> In l (R.mlines m) -> In l' (R.mlines q) ->
  spl l l' /\ RY.before l l'.
Proof.
  intros E Hm Hl Hl'.
  assert (E2 : FL = R.file_lines dn ++ R.mlines q ++ R.file_lines rest).
  { rewrite E, RP.file_lines_app. f_equal. }
  assert (I1 : In l (R.file_lines dn)) by (unfold R.file_lines; apply in_flat_map; eauto).
  assert (I2 : In l' (R.mlines q ++ R.file_lines rest)) by (apply in_or_app; left; exact Hl').
  pose proof fl_sorted_spl as S1. pose proof fl_sorted_before as S2. rewrite E2 in S1, S2.
  apply RP.SS_app_iff in S1 as (_ & _ & S1). apply RP.SS_app_iff in S2 as (_ & _ & S2). split; auto.
Qed.

Lemma mkey_inj m m' : In m ms -> In m' ms -> R.mkey m = R.mkey m' -> m = m'.
Proof.
  intros H1 H2 E.
  assert (Hn : NoDup (map R.mkey ms)).
  { rewrite Hkeys. apply nseq_NoDup. }
  clear - Hn H1 H2 E. induction ms as [|y l IH]; [destruct H1|]. cbn [map] in Hn. inversion Hn as [|? ? Hy Hn']; subst.
  destruct H1 as [<-|H1], H2 as [<-|H2]; auto.
  - exfalso. apply Hy. rewrite E. apply in_map. exact H2.
  - exfalso. apply Hy. rewrite <- E. apply in_map. exact H1.
Qed.

(* ---- the lines one find reads *)
Lemma read_chain {Rr : R.lspan -> R.lspan -> Prop} dn q rest : R.chain Rr FL -> ms = dn ++ q :: rest ->
  R.chain Rr (R.mfirst q :: R.mbody q ++ R.opt_list (R.mnext q)).
Proof.
  intros Hc E. rewrite (RP.wf_next bs spn ml ms Hwf _ _ _ E).
  rewrite E, RP.file_lines_app in Hc. apply RP.chain_app_r in Hc.
  change (q :: rest) with ([q] ++ rest) in Hc. rewrite RP.file_lines_app in Hc.
  unfold R.file_lines at 1 in Hc. cbn [flat_map] in Hc. rewrite app_nil_r in Hc.
  destruct rest as [|q' r].
  - cbn [R.file_lines flat_map] in Hc. rewrite app_nil_r in Hc. cbn [R.opt_list]. rewrite app_nil_r. exact Hc.
  - unfold R.file_lines in Hc. cbn [flat_map] in Hc. unfold R.mlines at 1 2 in Hc. cbn [R.opt_list].
    cbn [app] in Hc.
    replace (R.mfirst q :: R.mbody q ++ R.mfirst q' :: R.mbody q' ++ flat_map R.mlines r)
      with ((R.mfirst q :: R.mbody q ++ [R.mfirst q']) ++ R.mbody q' ++ flat_map R.mlines r) in Hc
      by (cbn [app]; rewrite <- app_assoc; reflexivity).
    apply RP.chain_app_l in Hc. exact Hc.
Qed.

Lemma read_lines_file dn q rest l : ms = dn ++ q :: rest -> In l (R.mfirst q :: R.mbody q ++ R.opt_list (R.mnext q)) -> In l FL.
Proof.
  intros E Hl. rewrite (RP.wf_next bs spn ml ms Hwf _ _ _ E) in Hl.
  change (R.mfirst q :: R.mbody q ++ ?x) with (R.mlines q ++ x) in Hl.
  apply in_app_or in Hl as [Hl|Hl].
  - apply (msg_lines_file q); [rewrite E; apply in_or_app; right; left; reflexivity|exact Hl].
  - destruct rest as [|q' r]; [destruct Hl|]. destruct Hl as [<-|[]].
    apply (msg_lines_file q'); [rewrite E; apply in_or_app; right; right; left; reflexivity|left; reflexivity].
Qed.

Lemma consec_of_chain x B : R.chain adj (x :: B) -> Forall lreal B ->
  consec f (R.lend x + 1) (map sp B) (R.lend (last B x) + 1).
Proof.
  revert x. induction B as [|y B IH]; intros x Hc Hl; [reflexivity|].
  apply RP.chain_cons_inv in Hc as [H1 Hc]. apply Forall_cons_iff in Hl as [Hy Hl].
  cbn [map consec sp fst snd]. rewrite RP.last_cons. unfold adj in H1.
  split; [exact H1|]. split; [apply Hy|]. apply IH; auto.
Qed.

Lemma sorted_count L : StronglySorted spl L -> forall A B, (forall l, In l L -> A <= R.lbeg l /\ R.lbeg l <= R.lend l /\ R.lend l < B) ->
  L = [] \/ A + R.lenN L <= B.
Proof.
  induction 1 as [|x L Hs IH Hx]; intros A B H; [left; reflexivity|]. right.
  destruct (H x (or_introl eq_refl)) as (H1 & H2 & H3). rewrite Forall_forall in Hx.
  destruct (IH (A + 1) B) as [->|Hle].
  - intros l Hl. destruct (H l (or_intror Hl)) as (_ & H4 & H5). split; [|split; assumption].
    pose proof (Hx l Hl) as (X1 & X2 & X3). lia.
  - unfold R.lenN. cbn. lia.
  - rewrite RP.lenN_cons. lia.
Qed.

Lemma split_in dn q rest : ms = dn ++ q :: rest -> In q ms.
Proof. intros ->. apply in_or_app. right. left. reflexivity. Qed.

Lemma mlines_sorted q : In q ms -> StronglySorted spl (R.mlines q).
Proof.
  intros Hq. apply in_split in Hq as (dn & rest & E).
  pose proof fl_sorted_spl as S. rewrite E, RP.file_lines_app in S. apply RP.SS_app_iff in S as (_ & S & _).
  change (q :: rest) with ([q] ++ rest) in S. rewrite RP.file_lines_app in S. apply RP.SS_app_iff in S as (S & _ & _).
  unfold R.file_lines in S. cbn [flat_map] in S. rewrite app_nil_r in S. exact S.
Qed.

Lemma mlast_last q : R.mlast q = last (R.mbody q) (R.mfirst q).
Proof. reflexivity. Qed.

(* what find_sysline_effect needs to know about the message at the head of the queue *)
Lemma msg_shape dn q rest : ms = dn ++ q :: rest ->
  let e0 := R.lend (R.mfirst q) in let hi := R.mend q + 1 in
  span f (mbeg q) e0 /\ (exists z, dated (slice f (mbeg q) (e0 + 1)) = Some z) /\
  consec f (e0 + 1) (map sp (R.mbody q)) hi /\ undated_sp f dated (map sp (R.mbody q)) /\
  term_sp f dated hi (map sp (R.opt_list (R.mnext q)))
          (match R.mnext q with Some l => R.lend l + 1 | None => lenN f end) /\
  (length (R.mbody q) < length f)%nat /\
  match rest with
  | [] => R.mnext q = None /\ hi = lenN f
  | q' :: _ => R.mnext q = Some (R.mfirst q') /\ mbeg q' = hi /\ hi < lenN f
  end.
Proof.
  intros E. cbv zeta. pose proof (split_in _ _ _ E) as Hq.
  assert (Hfl : forall l, In l (R.mfirst q :: R.mbody q ++ R.opt_list (R.mnext q)) -> lreal l).
  { intros l Hl. apply fl_real. eapply read_lines_file; eauto. }
  pose proof (read_chain dn q rest (rz_adj _ Hreal) E) as Hc.
  pose proof (rz_dated _ Hreal) as Hd. rewrite Forall_forall in Hd. destruct (Hd q Hq) as (Dq & Uq).
  assert (Hbody : Forall lreal (R.mbody q)).
  { apply Forall_forall. intros l Hl. apply Hfl. right. apply in_or_app. left. exact Hl. }
  split; [apply (Hfl (R.mfirst q)); left; reflexivity|]. split; [exact Dq|].
  assert (Hcb : R.chain adj (R.mfirst q :: R.mbody q)).
  { change (R.mfirst q :: R.mbody q ++ ?x) with ((R.mfirst q :: R.mbody q) ++ x) in Hc. eapply RP.chain_app_l; eauto. }
  split; [apply consec_of_chain; auto|].
  split.
  { unfold undated_sp. rewrite Forall_map. eapply Forall_impl; [|exact Uq]. intros l X. exact X. }
  assert (Hlen : (length (R.mbody q) < length f)%nat).
  { destruct (sorted_count (R.mlines q) (mlines_sorted q Hq) 0 (lenN f)) as [X|X].
    - intros l Hl. destruct (Hfl l) as ((X1 & X2 & _) & _); [unfold R.mlines in Hl; destruct Hl as [<-|Hl]; [left; reflexivity|right; apply in_or_app; left; exact Hl]|].
      lia.
    - discriminate.
    - unfold R.lenN, R.mlines, lenN in X. cbn [length] in X. lia. }
  pose proof (RP.wf_next bs spn ml ms Hwf _ _ _ E) as Hn.
  destruct rest as [|q' r].
  - assert (Hhi : R.mend q + 1 = lenN f).
    { pose proof (rz_last _ Hreal) as L. destruct ms as [|m0 r0] eqn:Em; [destruct dn; discriminate|].
      rewrite <- (RP.last_cons m0 r0 q) in L. rewrite E in L. rewrite last_last in L. exact L. }
    rewrite Hn. cbn [R.opt_list map]. split; [left; auto|]. split; [exact Hlen|]. split; [reflexivity|exact Hhi].
  - rewrite Hn in *. cbn [R.opt_list map] in *.
    assert (Hq' : In q' ms) by (rewrite E; apply in_or_app; right; right; left; reflexivity).
    destruct (Hd q' Hq') as ((z' & Dq') & _).
    assert (Hadj : R.lbeg (R.mfirst q') = R.mend q + 1).
    { replace (R.mfirst q :: R.mbody q ++ [R.mfirst q']) with (R.mfirst q :: R.mbody q ++ R.mfirst q' :: []) in Hc by reflexivity.
      apply RP.chain_last in Hc. exact Hc. }
    destruct (Hfl (R.mfirst q')) as (SP' & _); [right; apply in_or_app; right; left; reflexivity|].
    split.
    { right. exists (R.lend (R.mfirst q')), z'. unfold sp. rewrite Hadj in *. splits; auto. }
    split; [exact Hlen|]. split; [reflexivity|]. split; [exact Hadj|].
    destruct SP' as (X1 & X2 & _). unfold mbeg in *. lia.
Qed.

(* ---- the blocks a chain of lines touches: no gap after the block the reader stands in *)
Fixpoint gapless (n : N) (ls : list R.lspan) : Prop :=
  match ls with
  | [] => True
  | l :: r => R.lfb l <= n /\ n <= R.lfb l + 1 /\ R.lfb l <= R.llb l /\ gapless (R.llb l + 1) r
  end.

Lemma cover ls : forall n, gapless n ls ->
  (forall x, (exists l, In l ls /\ R.lfb l <= x /\ x <= R.llb l) -> x + 1 = n \/ (n <= x /\ x < nread_after ls n)) /\
  (forall x, n <= x -> x < nread_after ls n -> exists l, In l ls /\ R.lfb l <= x /\ x <= R.llb l).
Proof.
  induction ls as [|l r IH]; intros n G.
  - split; [intros x (l & [] & _)|]. intros x H1 H2. cbn in H2. lia.
  - cbn [gapless] in G. destruct G as (G1 & G2 & G3 & G4).
    change (nread_after (l :: r) n) with (nread_after r (N.max n (R.llb l + 1))).
    replace (N.max n (R.llb l + 1)) with (R.llb l + 1) by lia.
    destruct (IH _ G4) as (I1 & I2). pose proof (nread_after_ge r (R.llb l + 1)) as Hge.
    split.
    + intros x (l' & [<-|Hl'] & X1 & X2).
      * destruct (N.eq_dec (x + 1) n); [left; assumption|right; lia].
      * destruct (I1 x (ex_intro _ l' (conj Hl' (conj X1 X2)))) as [X|X]; [|right; lia].
        destruct (N.eq_dec (x + 1) n); [left; assumption|right; lia].
    + intros x H1 H2. destruct (N.lt_ge_cases x (R.llb l + 1)).
      * exists l. split; [left; reflexivity|lia].
      * destruct (I2 x H H2) as (l' & Hl' & X). exists l'. split; [right; exact Hl'|exact X].
Qed.

Lemma nread_after_last ls : forall n, gapless n ls -> nread_after ls n = last (map (fun l => R.llb l + 1) ls) n.
Proof.
  induction ls as [|l r IH]; intros n G; [reflexivity|]. cbn [gapless] in G. destruct G as (G1 & G2 & G3 & G4).
  change (nread_after (l :: r) n) with (nread_after r (N.max n (R.llb l + 1))).
  replace (N.max n (R.llb l + 1)) with (R.llb l + 1) by lia. cbn [map]. rewrite RP.last_cons. apply IH. exact G4.
Qed.

Lemma gapless_chain ls : forall fr, R.chain R.succ_ok (fr :: ls) -> Forall (R.line_ok bs) ls -> gapless (R.llb fr + 1) ls.
Proof.
  induction ls as [|l r IH]; intros fr Hc Hl; [exact I|].
  apply RP.chain_cons_inv in Hc as [(_ & _ & H1) Hc]. apply Forall_cons_iff in Hl as [(L1 & _) Hl].
  cbn [gapless]. destruct (R.ledge fr); splits; try lia; apply IH; auto.
Qed.

(* ---- the simulation relation.  F = the reader's frontier (the byte after the last line read),
   MF = the offset of the next message, dn = the messages found so far *)
Definition mcat (m : R.msg) : N * list (N * N) := (mbeg m, map sp (R.mlines m)).
Definition frontier (s : R.st) : N := match R.front s with Some l => R.lend l + 1 | None => 0 end.

Record Rel (F MF : N) (dn : list R.msg) (C : sr_state) (s : R.st) : Prop := {
  r_good : sgood bs f dated F MF C;
  r_own : sown bs f C (map mcat (R.syslines s));
  r_lines : forall x, In x (map fst (l_lines (s_lr C))) <-> In x (map R.lbeg (R.lines s));
  r_lines_nd : NoDup (map R.lbeg (R.lines s));
  r_lines_file : forall l, In l (R.lines s) -> In l FL;
  r_blocks : forall x, In x (b_blocks (l_blk (s_lr C))) <-> In x (R.blocks s);
  r_blocks_nd : NoDup (R.blocks s);
  r_blocks_lt : forall x, In x (R.blocks s) -> x < R.nread s;
  r_hb : bc_highest (b_cnt (l_blk (s_lr C))) = R.hb s;
  r_hl : lc_highest (l_cnt (s_lr C)) = R.hl s;
  r_hs : sc_highest (s_cnt C) = R.hs s;
  r_dok : sc_drop_ok (s_cnt C) = R.dok s;
  r_derr : sc_drop_err (s_cnt C) = R.derr s;
  r_derr0 : R.derr s = 0;
  r_stored : forall m, In m (R.syslines s) -> In m dn;
  r_pending : R.pending s = [];
  r_F : F = frontier s;
  r_nread : R.nread s = match R.front s with Some l => R.llb l + 1 | None => 0 end;
  r_stand : match R.front s with Some l => In (R.llb l) (R.blocks s) /\ In l FL /\ In l (R.lines s) | None => True end
}.

(* the figures the two machines report *)
Definition agree (C : sr_state) (s : R.st) : Prop :=
  bc_highest (b_cnt (l_blk (s_lr C))) = R.hb s /\ lc_highest (l_cnt (s_lr C)) = R.hl s /\
  sc_highest (s_cnt C) = R.hs s /\ sc_drop_ok (s_cnt C) = R.dok s /\ sc_drop_err (s_cnt C) = R.derr s /\
  lenN (b_blocks (l_blk (s_lr C))) = R.lenN (R.blocks s) /\ lenN (l_lines (s_lr C)) = R.lenN (R.lines s) /\
  lenN (s_syslines C) = R.lenN (R.syslines s).

Lemma Rel_agree F MF dn C s : Rel F MF dn C s -> agree C s.
Proof.
  intros [G SO L1 L2 L3 B1 B2 B3 H1 H2 H3 H4 H5 H50 ST P EF NR SD]. unfold agree. splits; auto.
  - unfold lenN, R.lenN. f_equal. apply NoDup_equiv_len; auto. apply (bg_nodup _ (lg_blk _ _ _ _ (sg_l _ _ _ _ _ _ G))).
  - unfold lenN, R.lenN. f_equal. rewrite <- (map_length fst), <- (map_length R.lbeg (R.lines s)).
    apply NoDup_equiv_len; auto. apply (lg_keys _ _ _ _ (sg_l _ _ _ _ _ _ G)).
  - unfold lenN, R.lenN. f_equal. rewrite <- (map_length mcat (R.syslines s)). eapply Forall2_len. apply (so_cat _ _ _ _ SO).
Qed.

Notation cp := RP.cur_plain.

Lemma mread_sp (first : bool) q : map sp (R.mread first q) =
  (if first then [(mbeg q, R.lend (R.mfirst q))] else []) ++ map sp (R.mbody q) ++ map sp (R.opt_list (R.mnext q)).
Proof. unfold R.mread. rewrite !map_app. destruct first; reflexivity. Qed.

Lemma owns_mono L L' objs lsp : (forall k o, alookup k (l_lines L) = Some o -> alookup k (l_lines L') = Some o) ->
  owns bs f L objs lsp -> owns bs f L' objs lsp.
Proof. intros H Ho. unfold owns in *. eapply Forall2_imp; [|exact Ho]. intros o be (A & O). split; auto. Qed.

(* ---- one find *)
Lemma find_step dn q rest C s : ms = dn ++ q :: rest -> Rel (frontier s) (mbeg q) dn C s ->
  R.stage2 s = match dn with [] => true | _ => false end ->
  match dn with [] => R.front s = None | _ => R.front s = Some (R.mfirst q) end ->
  let hi := R.mend q + 1 in
  let F' := match R.mnext q with Some l => R.lend l + 1 | None => lenN f end in
  let s1 := R.do_find cp s (R.stage2 s) q in
  exists C1 ssl, c_find_sysline dated bs f C (mbeg q) = (C1, Found (hi, ssl), QSearch) /\
    ss_bo_first ssl = Some (R.mfb q) /\ ss_end bs ssl = Some (hi - 1) /\ mbeg q < hi /\
    R.front s1 = Some (match R.mnext q with Some l' => l' | None => R.mlast q end) /\
    R.held s1 = R.held s ++ [R.mkey q] /\ R.todo s1 = R.todo s /\ R.wprev s1 = R.wprev s /\
    Rel F' hi (dn ++ [q]) C1 s1.
Proof.
  intros E RL Hst Hfr. cbv zeta.
  pose proof RL as [G SO L1 L2 L3 B1 B2 B3 H1 H2 H3 H4 H5 H50 ST P EF NR SD].
  pose proof (msg_shape dn q rest E) as Sh. cbv zeta in Sh. destruct Sh as (SP0 & (z & D0) & Hc & Hu & Ht & Hlen & Hrest).
  pose proof (split_in _ _ _ E) as Hq.
  set (e0 := R.lend (R.mfirst q)) in *. set (hi := R.mend q + 1) in *.
  set (F' := match R.mnext q with Some l => R.lend l + 1 | None => lenN f end) in *.
  set (first := R.stage2 s) in *.
  (* which case of the head line *)
  assert (Hfirst : (frontier s = mbeg q /\ prev_ok f C (frontier s)) \/
                   (frontier s = e0 + 1 /\ exists o0, alookup (mbeg q) (l_lines (s_lr C)) = Some o0)).
  { destruct dn as [|d0 dn'].
    - left. unfold frontier. rewrite Hfr. pose proof (rz_first _ Hreal) as X. rewrite E in X. cbn [app] in X.
      split; [symmetry; exact X|left; reflexivity].
    - right. unfold frontier in *. rewrite Hfr in *. split; [reflexivity|].
      destruct SD as (_ & _ & SD). apply in_keys_alookup. apply L1. apply (in_map R.lbeg) in SD. exact SD. }
  assert (Hcase : (first = true /\ dn = [] /\ frontier s = mbeg q) \/ (first = false /\ dn <> [] /\ frontier s = e0 + 1 /\ R.front s = Some (R.mfirst q))).
  { rewrite Hst. destruct dn as [|d0 dn'].
    - left. destruct Hfirst as [(X & _)|(X & _)]; [auto|]. unfold frontier in X. rewrite Hfr in X. lia.
    - right. splits; auto; [discriminate|]. unfold frontier. rewrite Hfr. reflexivity. }
  destruct (find_sysline_effect bs f Hbs Hf dated (frontier s) (mbeg q) C e0 z (map sp (R.mbody q)) hi
              (map sp (R.opt_list (R.mnext q))) F' G SP0 D0 Hfirst Hc Hu Ht ltac:(rewrite map_length; exact Hlen))
    as (C' & o0 & objs & tobj & z' & fsp & fobj & Efind & E1 & E2 & E3 & E4 & E5 & GW & Hfs & A0 & O0 & Hlo & Hbeg & Hend & Hlt & G').
  exists C', (s_nid C, z', o0 :: objs). split; [exact Efind|].
  split.
  { unfold ss_bo_first. cbn [ss_lines snd]. destruct (lobj_bo bs f Hbs Hf _ _ _ O0) as (X & _). rewrite X.
    destruct (fl_real (R.mfirst q)) as (_ & Y & _); [apply (msg_lines_file q _ Hq); left; reflexivity|].
    unfold R.mfb. rewrite Y. reflexivity. }
  split; [exact Hend|]. split; [exact Hlt|].
  (* the lines read *)
  set (ls := R.mread first q).
  assert (Hsp2 : map sp ls = fsp ++ map sp (R.mbody q) ++ map sp (R.opt_list (R.mnext q))).
  { unfold ls. rewrite mread_sp. destruct Hcase as [(X1 & X2 & X3)|(X1 & X2 & X3 & _)]; rewrite X1.
    - destruct Hfs as [(_ & -> & _)|(Y & _)]; [reflexivity|]. assert (mbeg q <= e0) by (destruct SP0; lia). lia.
    - destruct Hfs as [(Y & _)|(_ & -> & _)]; [|reflexivity]. assert (mbeg q <= e0) by (destruct SP0; lia). lia. }
  assert (Hsp : map R.lbeg ls = map fst (fsp ++ map sp (R.mbody q) ++ map sp (R.opt_list (R.mnext q)))).
  { rewrite <- Hsp2, map_map. reflexivity. }
  assert (Hlsfile : forall l, In l ls -> In l FL).
  { intros l Hl. apply (read_lines_file dn q rest l E). unfold ls, R.mread in Hl. destruct first; [exact Hl|right; exact Hl]. }
  assert (Hgap : gapless (R.nread s) ls).
  { destruct Hcase as [(X1 & X2 & X3)|(X1 & X2 & X3 & X4)].
    - subst dn. rewrite Hfr in NR. rewrite NR. unfold ls. rewrite X1. unfold R.mread. cbn [app gapless].
      pose proof (RP.wf_first bs spn ml ms Hwf q rest E) as W0.
      pose proof (RP.wf_read_lines_ok bs spn ml ms Hwf [] q rest E) as Wok. apply Forall_cons_iff in Wok as [(W1 & _) Wok].
      rewrite W0 in *. splits; try lia. apply gapless_chain; [apply (RP.wf_read_chain bs spn ml ms Hwf [] q rest E)|exact Wok].
    - rewrite X4 in NR. rewrite NR. unfold ls. rewrite X1. unfold R.mread. cbn [app].
      pose proof (RP.wf_read_lines_ok bs spn ml ms Hwf dn q rest E) as Wok. apply Forall_cons_iff in Wok as [_ Wok].
      apply gapless_chain; [apply (RP.wf_read_chain bs spn ml ms Hwf dn q rest E)|exact Wok]. }
  pose proof (Rel_agree _ _ _ _ _ RL) as (_ & _ & _ & _ & _ & Ab & Al & As).
  pose proof (sg_l _ _ _ _ _ _ G) as GL. pose proof (sg_l _ _ _ _ _ _ G') as GL'.
  destruct (read_lines_exact cp ls s eq_refl) as (X1 & X2 & X3 & X4 & X5 & X6 & X7).
  { rewrite <- Ab, <- H1. apply (bg_high _ (lg_blk _ _ _ _ GL)). }
  { rewrite <- Al, <- H2. apply (lg_high _ _ _ _ GL). }
  cbv zeta in *. set (s0 := fold_left (R.read_line cp) ls s) in *. set (n' := nread_after ls (R.nread s)) in *.
  destruct X6 as (I1 & I2 & I3 & I4 & I5 & I6 & I7 & I8 & I9).
  assert (Es1 : R.do_find cp s first q = R.store_msg s0 q) by reflexivity.
  rewrite Es1.
  assert (Hlenl : length (l_lines (s_lr C')) = length (R.lines s0)).
  { rewrite (gw_len _ _ _ _ _ _ GW), X3, (app_length (R.lines s) ls). rewrite <- (map_length R.lbeg ls), Hsp, map_length.
    f_equal. unfold lenN, R.lenN in Al. lia. }
  assert (Hkeys' : forall x, In x (map fst (l_lines (s_lr C'))) <-> In x (map R.lbeg (R.lines s0))).
  { intros x. rewrite (gw_keys _ _ _ _ _ _ GW). rewrite X3, (map_app R.lbeg (R.lines s) ls), Hsp.
    rewrite (in_app_iff (map R.lbeg (R.lines s))), L1. tauto. }
  assert (Hblocks' : forall x, In x (b_blocks (l_blk (s_lr C'))) <-> In x (R.blocks s0)).
  { intros x. rewrite (gw_blocks _ _ _ _ _ _ GW), X1, in_app_iff, B1, in_nseq.
    destruct (cover ls (R.nread s) Hgap) as (Cv1 & Cv2). fold n' in Cv1, Cv2.
    pose proof (nread_after_ge ls (R.nread s)) as Hge. fold n' in Hge.
    assert (Hbe : (exists be, In be (fsp ++ map sp (R.mbody q) ++ map sp (R.opt_list (R.mnext q))) /\ fst be / bs <= x /\ x <= snd be / bs) <->
                  (exists l, In l ls /\ R.lfb l <= x /\ x <= R.llb l)).
    { rewrite <- Hsp2. split.
      - intros (be & Ib & X). apply in_map_iff in Ib as (l & <- & Il). exists l. split; [exact Il|].
        destruct (fl_real l (Hlsfile l Il)) as (_ & Y1 & Y2). cbn [sp fst snd] in X. rewrite Y1, Y2. exact X.
      - intros (l & Il & X). exists (sp l). split; [apply in_map; exact Il|].
        destruct (fl_real l (Hlsfile l Il)) as (_ & Y1 & Y2). cbn [sp fst snd]. rewrite <- Y1, <- Y2. exact X. }
    rewrite Hbe. split.
    - intros [X|X]; [left; exact X|]. destruct (Cv1 x X) as [Y|Y]; [left|right; lia].
      destruct (R.front s) as [fr|]; [|lia]. destruct SD as (SD & _). replace x with (R.llb fr) by lia. exact SD.
    - intros [X|X]; [left; exact X|right]. apply Cv2; lia. }
  assert (GB' : bgood (l_blk (s_lr C'))) by apply (lg_blk _ _ _ _ GL').
  assert (Hlenb : lenN (b_blocks (l_blk (s_lr C'))) = R.lenN (R.blocks s0)).
  { unfold lenN, R.lenN. f_equal. apply NoDup_equiv_len; auto; [apply (bg_nodup _ GB')|].
    rewrite X1. apply NoDup_app_intro; [exact B2|apply nseq_NoDup|]. intros y Y1 Y2. apply B3 in Y1. apply in_nseq in Y2. lia. }
  assert (Hfront : R.front s0 = Some (match R.mnext q with Some l' => l' | None => R.mlast q end)).
  { rewrite X7. unfold ls, R.mread.
    assert (Hx : last (map Some ((if first then [R.mfirst q] else []) ++ R.mbody q ++ R.opt_list (R.mnext q))) (R.front s) =
                 Some (last (R.mbody q ++ R.opt_list (R.mnext q)) (R.mfirst q))).
    { destruct Hcase as [(Y1 & Y2 & Y3)|(Y1 & Y2 & Y3 & Y4)]; rewrite Y1.
      - cbn [app map]. rewrite RP.last_cons. apply (RP.last_map Some).
      - cbn [app]. rewrite Y4. apply (RP.last_map Some). }
    rewrite Hx. f_equal. destruct (R.mnext q) as [l'|]; cbn [R.opt_list]; [apply last_last|rewrite app_nil_r; reflexivity]. }
  assert (Hnread : R.nread s0 = match R.front s0 with Some l => R.llb l + 1 | None => 0 end).
  { rewrite X2. unfold n'. rewrite (nread_after_last ls _ Hgap), X7.
    rewrite (last_map_opt (fun o => match o with Some l => R.llb l + 1 | None => 0 end) ls (R.front s)). rewrite NR. reflexivity. }
  split; [cbn [R.store_msg R.front]; exact Hfront|].
  split; [cbn [R.store_msg R.held]; rewrite I3; reflexivity|].
  split; [cbn [R.store_msg R.todo]; exact I5|].
  split; [cbn [R.store_msg R.wprev]; exact I7|].
  constructor; cbn [R.store_msg R.blocks R.lines R.syslines R.pending R.hb R.hl R.hs R.nread R.front R.dok R.derr].
  - exact G'.
  - (* sown *)
    assert (Eins : s_syslines C' = s_syslines C ++ [(mbeg q, (s_nid C, z', o0 :: objs))]).
    { rewrite E1. apply ainsert_append. intros k' Hk'. apply in_keys_alookup in Hk' as (v & Av).
      destruct (sg_obj _ _ _ _ _ _ G _ _ Av) as (_ & Y & _). exact Y. }
    rewrite I1, map_app. cbn [map]. constructor.
    + rewrite Eins. apply Forall2_app.
      * eapply Forall2_imp; [|apply (so_cat _ _ _ _ SO)]. intros e c (Y1 & Y2). split; [exact Y1|].
        eapply owns_mono; [|exact Y2]. apply (gw_old _ _ _ _ _ _ GW).
      * constructor; [|constructor]. cbn [fst snd mcat ss_lines]. split; [reflexivity|].
        unfold owns, R.mlines. cbn [map]. change (sp (R.mfirst q)) with (mbeg q, e0).
        eapply (found_objs bs f); eauto.
        destruct Hfs as [(_ & -> & ->)|(_ & -> & ->)]; reflexivity.
    + rewrite flat_map_app. cbn [flat_map]. rewrite app_nil_r. apply NoDup_app_intro.
      * apply (so_nd _ _ _ _ SO).
      * unfold ckeys, mcat. cbn [snd]. rewrite map_map. change (fun x => fst (sp x)) with R.lbeg.
        apply NoDup_map_inj_in.
        -- apply (RP.SS_NoDup spl); [intros x (Y & Y' & _); lia|apply mlines_sorted; exact Hq].
        -- intros a b Ia Ib. apply lbeg_inj; apply (msg_lines_file q); auto.
      * intros x Y1 Y2. apply in_flat_map in Y1 as (c & Ic & Y1). apply in_map_iff in Ic as (m & <- & Im).
        unfold ckeys, mcat in Y1, Y2. cbn [snd] in Y1, Y2. rewrite map_map in Y1, Y2.
        apply in_map_iff in Y1 as (l & <- & Il). apply in_map_iff in Y2 as (l' & Y2 & Il').
        destruct (done_before dn q rest m l l' E (ST m Im) Il Il') as ((Z1 & Z2 & Z3) & _). cbn [sp fst] in Y2. lia.
  - exact Hkeys'.
  - apply (NoDup_incl_NoDup (lg_keys _ _ _ _ GL')); [rewrite !map_length; lia|]. intros x X. apply Hkeys'. exact X.
  - intros l Hl. rewrite X3 in Hl. apply in_app_or in Hl as [Hl|Hl]; [apply L3; exact Hl|apply Hlsfile; exact Hl].
  - exact Hblocks'.
  - rewrite X1. apply NoDup_app_intro; [exact B2|apply nseq_NoDup|]. intros y Y1 Y2. apply B3 in Y1. apply in_nseq in Y2. lia.
  - intros x Hx. rewrite X1 in Hx. rewrite X2. pose proof (nread_after_ge ls (R.nread s)) as Hge. fold n' in Hge.
    apply in_app_or in Hx as [Hx|Hx]; [apply B3 in Hx; lia|apply in_nseq in Hx; lia].
  - rewrite (gw_hb _ _ _ _ _ _ GW), X4, H1, Hlenb. reflexivity.
  - rewrite (gw_hl _ _ _ _ _ _ GW), X5, H2. unfold lenN, R.lenN. rewrite Hlenl. reflexivity.
  - rewrite E3, I4, H3, I1, E1. f_equal. unfold lenN, R.lenN. f_equal.
    assert (Hnk : ~ In (mbeg q) (map fst (s_syslines C))).
    { intro Y. apply in_keys_alookup in Y as (v & Av). destruct (sg_obj _ _ _ _ _ _ G _ _ Av) as (_ & Y & _). lia. }
    destruct (ainsert_keys_new (mbeg q) (s_nid C, z', o0 :: objs) (s_syslines C) Hnk) as (_ & Y & _). etransitivity; [exact Y|]. rewrite app_length. cbn [length].
    rewrite Nat.add_1_r. f_equal. apply Nnat.Nat2N.inj. exact As.
  - rewrite E4, I8. exact H4.
  - rewrite E5, I9. exact H5.
  - rewrite I9. exact H50.
  - intros m Hm. rewrite I1 in Hm. apply in_app_or in Hm as [Hm|[<-|[]]]; apply in_or_app; [left; apply ST; exact Hm|right; left; reflexivity].
  - rewrite I2. exact P.
  - unfold frontier. cbn [R.store_msg R.front]. rewrite Hfront. unfold F'.
    destruct (R.mnext q) as [l'|] eqn:En; [reflexivity|].
    destruct rest as [|q' r]; [|destruct Hrest as (Y & _); discriminate]. destruct Hrest as (_ & Y). exact (eq_sym Y).
  - exact Hnread.
  - destruct (R.front s0) as [fl|] eqn:Efl; [|exact I].
    assert (Hls : (ls = [] /\ R.front s = Some fl) \/ In fl ls).
    { apply last_some_cases. symmetry. exact X7. }
    destruct Hls as [(Els & Ef)|Il].
    + rewrite Ef in SD. destruct SD as (S1 & S2 & S3). rewrite X1, X3, Els. splits; auto; apply in_or_app; left; assumption.
    + splits.
      * apply Hblocks'. apply (gw_blocks _ _ _ _ _ _ GW). right. exists (sp fl). rewrite <- Hsp2. split; [apply in_map; exact Il|].
        destruct (fl_real fl (Hlsfile fl Il)) as ((Y0 & _) & Y1 & Y2). cbn [sp fst snd]. rewrite Y2. split; [|lia].
        apply N.div_le_mono; lia.
      * apply Hlsfile. exact Il.
      * rewrite X3. apply in_or_app. right. exact Il.
Qed.

(* ---- one drop_data *)
Lemma release_nodup rel : forall s, NoDup (map R.lbeg (R.lines s)) -> NoDup (R.blocks s) ->
  NoDup (map R.lbeg (R.lines (fold_left (R.release_msg R.P_cur) rel s))) /\
  NoDup (R.blocks (fold_left (R.release_msg R.P_cur) rel s)).
Proof.
  induction rel as [|m rel IH]; intros s H1 H2; cbn [fold_left]; [auto|]. apply IH.
  - cbn [R.release_msg R.lines]. apply NoDup_map_filter. exact H1.
  - cbn [R.release_msg R.blocks]. clear - H2. revert H2. generalize (R.blocks s). induction (R.mlines m) as [|l ls IHl]; intros bl H; cbn [fold_left]; [exact H|].
    apply IHl. unfold R.release_line. apply NoDup_filter. exact H.
Qed.

Lemma filter_all {A} (p : A -> bool) l : (forall x, In x l -> p x = true) -> filter p l = l.
Proof.
  induction l as [|x l IH]; intros H; [reflexivity|]. cbn [filter]. rewrite (H x (or_introl eq_refl)).
  rewrite IH; [reflexivity|]. intros y Hy. apply H. right. exact Hy.
Qed.

Lemma clast_mcat m : In m ms -> clast bs (mcat m) = R.mlb m.
Proof.
  intros Hm. unfold clast, mcat, R.mlines. cbn [snd map]. rewrite RP.last_cons. rewrite (RP.last_map sp). cbn [sp snd].
  destruct (fl_real (R.mlast m)) as (_ & _ & Y); [apply (msg_lines_file m _ Hm); apply RP.mlast_in|].
  unfold R.mlb. rewrite Y. reflexivity.
Qed.

Lemma drop_step F MF dn C s p : Rel F MF dn C s -> 3 <= R.mfb p ->
  (forall m, In m (R.syslines s) -> R.mlb m <= R.mfb p - 2 -> R.is_held s m = false) ->
  (forall m, In m dn -> In m ms) ->
  match R.front s with Some fl => R.mfb p <= R.llb fl | None => False end ->
  Rel F MF dn (c_drop_data bs C (R.mfb p - 2)) (R.do_try_drop cp s p).
Proof.
  intros RL H3 Hheld Hdn Hst.
  pose proof RL as [G SO L1 L2 L3 B1 B2 B3 H1 H2 H3' H4 H5 H50 ST P EF NR SD].
  set (bo := R.mfb p - 2) in *.
  assert (Hsys : forall m, In m (R.syslines s) -> In m ms) by (intros m Hm; apply Hdn, ST, Hm).
  (* Retain *)
  unfold R.do_try_drop. replace (R.mfb p <? 3) with false by (symmetry; apply N.ltb_ge; exact H3).
  fold bo. rewrite P. cbn [filter app]. change (R.pol cp) with R.P_cur. cbv iota.
  set (cand := filter (fun m => R.mlb m <=? bo) (R.syslines s)).
  set (keep := filter (fun m => negb (R.mlb m <=? bo)) (R.syslines s)).
  assert (Hok : filter (fun m => negb (R.is_held s m)) cand = cand).
  { apply filter_all. intros m Hm. apply filter_In in Hm as [Hm Hb]. apply N.leb_le in Hb. rewrite (Hheld m Hm Hb). reflexivity. }
  assert (Hfail : filter (R.is_held s) cand = []).
  { apply RL.filter_none'. intros m Hm. apply filter_In in Hm as [Hm Hb]. apply N.leb_le in Hb. apply (Hheld m Hm Hb). }
  rewrite Hok, Hfail.
  pose proof (RP.release_msgs_spec R.P_cur cand s) as RS. cbv zeta in RS.
  destruct (release_nodup cand s L2 B2) as (ND1 & ND2).
  set (s1 := fold_left (R.release_msg R.P_cur) cand s) in *.
  destruct RS as (RB & RLn & _ & _ & _ & _ & SD').
  destruct SD' as (D1 & D2 & D3 & D4 & D5 & D6 & D7 & D8 & D9 & D10 & D11 & D12 & D13).
  (* Caches *)
  assert (Hne : Forall (fun c : N * list (N * N) => snd c <> []) (map mcat (R.syslines s))).
  { apply Forall_forall. intros c Hc. apply in_map_iff in Hc as (m & <- & _). discriminate. }
  pose proof (drop_data_effect bs f Hbs Hf dated F MF C _ bo G SO Hne) as DE. cbv zeta in DE.
  destruct DE as (E1 & E2 & E3 & E4 & E5 & E6 & E7 & E8 & E9 & E10 & E11).
  set (C' := c_drop_data bs C bo) in *.
  assert (Hgone : forall m, In m (R.syslines s) -> (clast bs (mcat m) <=? bo) = (R.mlb m <=? bo)).
  { intros m Hm. rewrite (clast_mcat m (Hsys m Hm)). reflexivity. }
  assert (Hcand : forall m, In m cand <-> In m (R.syslines s) /\ (clast bs (mcat m) <=? bo) = true).
  { intros m. unfold cand. rewrite filter_In. split; intros (X1 & X2); (split; [exact X1|]); [rewrite Hgone|rewrite <- Hgone]; auto. }
  assert (Hmlb : forall m l, In m (R.syslines s) -> In l (R.mlines m) -> R.llb l <= R.mlb m).
  { intros m l Hm Hl. destruct (RP.wf_msg_ok bs spn ml ms Hwf m (Hsys m Hm)) as (_ & _ & X). rewrite Forall_forall in X. apply (X l Hl). }
  constructor; cbn [R.set_index R.blocks R.lines R.syslines R.pending R.hb R.hl R.hs R.nread R.front R.dok R.derr].
  - exact E10.
  - rewrite filter_map_comm in E11. erewrite filter_ext' in E11; [exact E11|].
    intros m Hm. cbv beta. rewrite (Hgone m Hm). reflexivity.
  - intros x. rewrite E5. split.
    + intros (X1 & X2). apply L1 in X1. apply in_map_iff in X1 as (l & <- & Il). apply in_map. apply RLn. split; [exact Il|].
      intros m Hm. apply not_true_is_false. intro Hlo. apply RP.line_of_true in Hlo as (y & Iy & Ey).
      apply Hcand in Hm as (Hm & Hg).
      assert (y = l) by (apply fl_key_inj; auto; apply (msg_lines_file m _ (Hsys m Hm) Iy)). subst y.
      apply (X2 (mcat m)); [apply in_map; exact Hm|exact Hg|]. unfold ckeys, mcat. cbn [snd]. rewrite map_map. apply (in_map (fun x => fst (sp x)) _ _ Iy).
    + intros X. apply in_map_iff in X as (l & <- & Il). apply RLn in Il as (Il & Hno). split; [apply L1; apply in_map; exact Il|].
      intros c Hc Hg Hx. apply in_map_iff in Hc as (m & <- & Hm). unfold ckeys, mcat in Hx. cbn [snd] in Hx. rewrite map_map in Hx.
      apply in_map_iff in Hx as (y & Ey & Iy). cbn [sp fst] in Ey.
      assert (y = l) by (apply lbeg_inj; auto; apply (msg_lines_file m _ (Hsys m Hm) Iy)). subst y.
      pose proof (Hno m ltac:(apply Hcand; split; assumption)) as Z. pose proof (RP.line_of_self m l Iy). congruence.
  - exact ND1.
  - intros l Hl. apply RLn in Hl as (Hl & _). apply L3. exact Hl.
  - intros x. rewrite E8, RB, B1. split; intros (X1 & X2); (split; [exact X1|]).
    + intros m Hm l Hl. apply Hcand in Hm as (Hm & Hg). apply not_true_is_false. intro Hx. unfold R.exitsb in Hx.
      apply andb_true_iff in Hx as (Y1 & Y2). apply N.leb_le in Y1. apply N.ltb_lt in Y2.
      destruct (fl_real l (msg_lines_file m l (Hsys m Hm) Hl)) as (_ & Z1 & Z2).
      apply (X2 (mcat m) (sp l)); [apply in_map; exact Hm|exact Hg|unfold mcat; cbn [snd]; apply in_map; exact Hl|].
      cbn [sp fst snd]. rewrite <- Z1, <- Z2. split; assumption.
    + intros c be Hc Hg Hbe (Y1 & Y2). apply in_map_iff in Hc as (m & <- & Hm). unfold mcat in Hbe. cbn [snd] in Hbe.
      apply in_map_iff in Hbe as (l & <- & Hl). cbn [sp fst snd] in Y1, Y2.
      destruct (fl_real l (msg_lines_file m l (Hsys m Hm) Hl)) as (_ & Z1 & Z2).
      assert (Hx : R.exitsb R.P_cur l x = false) by (apply (X2 m); [apply Hcand; split; assumption|exact Hl]).
      unfold R.exitsb in Hx. rewrite Z1, Z2 in Hx. apply andb_false_iff in Hx as [Hx|Hx]; [apply N.leb_gt in Hx|apply N.ltb_ge in Hx]; lia.
  - exact ND2.
  - intros x Hx. apply RB in Hx as (Hx & _). rewrite D7. apply B3. exact Hx.
  - rewrite E9, D4. exact H1.
  - rewrite E7, D5. exact H2.
  - rewrite E2, D6. exact H3'.
  - rewrite E3, H4. replace (R.dok s + R.lenN [] + R.lenN cand) with (R.dok s + R.lenN cand) by (unfold R.lenN; cbn [length]; lia).
    f_equal. rewrite filter_map_comm. unfold lenN, R.lenN. rewrite map_length.
    f_equal. f_equal. apply filter_ext'. intros m Hm. apply Hgone. exact Hm.
  - rewrite E4, H5. unfold R.lenN. cbn. lia.
  - rewrite H50. unfold R.lenN. cbn. lia.
  - intros m Hm. apply filter_In in Hm as (Hm & _). apply ST. exact Hm.
  - reflexivity.
  - unfold frontier. cbn [R.set_index R.front]. rewrite D8. exact EF.
  - rewrite D7, D8. exact NR.
  - rewrite D8. destruct (R.front s) as [fl|]; [|exact I]. destruct SD as (S1 & S2 & S3).
    assert (Hnot : forall m, In m cand -> forall l, In l (R.mlines m) -> R.llb l < R.llb fl).
    { intros m Hm l Hl. apply filter_In in Hm as (Hm & Hb). apply N.leb_le in Hb. pose proof (Hmlb m l Hm Hl). unfold bo in Hb. lia. }
    splits.
    + apply RB. split; [exact S1|]. intros m Hm l Hl. pose proof (Hnot m Hm l Hl). unfold R.exitsb.
      apply andb_false_iff. right. apply N.ltb_ge. lia.
    + exact S2.
    + apply RLn. split; [exact S3|]. intros m Hm. apply not_true_is_false. intro Hlo. apply RP.line_of_true in Hlo as (y & Iy & Ey).
      assert (Hm' : In m (R.syslines s)) by (apply filter_In in Hm as (Hm & _); exact Hm).
      assert (y = fl) by (apply fl_key_inj; auto; apply (msg_lines_file m _ (Hsys m Hm') Iy)). subst y.
      pose proof (Hnot m Hm fl Iy). lia.
Qed.

(* ---- Rel does not look at the consumer side nor at the worker's queue *)
Lemma Rel_release F MF dn C s j : Rel F MF dn C s -> Rel F MF dn C (R.release s j).
Proof. intros [G SO L1 L2 L3 B1 B2 B3 H1 H2 H3 H4 H5 H50 ST P EF NR SD]. constructor; auto. Qed.

Lemma Rel_set_worker F MF dn C s td st2 wp : Rel F MF dn C s -> Rel F MF dn C (R.set_worker s td st2 wp).
Proof. intros [G SO L1 L2 L3 B1 B2 B3 H1 H2 H3 H4 H5 H50 ST P EF NR SD]. constructor; auto. Qed.

Lemma agree_set_worker C s td st2 wp : agree C s -> agree C (R.set_worker s td st2 wp).
Proof. intros H. exact H. Qed.

(* ... and the current policy never failed a release (drop_sysline Err = 0 on both sides) *)
Definition agree0 (C : sr_state) (s : R.st) : Prop := agree C s /\ R.derr s = 0.

Lemma Rel_agree0 F MF dn C s : Rel F MF dn C s -> agree0 C s.
Proof. intros RL. split; [eapply Rel_agree; eauto|apply (r_derr0 _ _ _ _ _ RL)]. Qed.

Lemma agree0_set_worker C s td st2 wp : agree0 C s -> agree0 C (R.set_worker s td st2 wp).
Proof. intros H. exact H. Qed.

Lemma key_of_split dn q rest : ms = dn ++ q :: rest -> R.mkey q = N.of_nat (length dn).
Proof. intros E. apply (RL.key_of_split 3 ms ltac:(lia) Hkeys dn q rest E). Qed.

Lemma plan_at_drop d0 dn1 p q q' r : ms = (d0 :: dn1 ++ [p]) ++ q :: q' :: r ->
  plan_at (drop_plan ms) (length dn1) = (3 <=? R.mfb p).
Proof.
  intros E. unfold drop_plan. rewrite E. cbn [app tl]. rewrite <- app_assoc. cbn [app].
  unfold plan_at. rewrite map_app. cbn [map].
  destruct (map (fun m => 3 <=? R.mfb m) dn1 ++ (3 <=? R.mfb p) :: (3 <=? R.mfb q) :: (3 <=? R.mfb q') :: map (fun m => 3 <=? R.mfb m) r) as [|x l] eqn:El.
  { destruct (map (fun m => 3 <=? R.mfb m) dn1); discriminate. }
  rewrite <- El. rewrite Nat.mod_small by (rewrite app_length, map_length; cbn [length]; lia).
  rewrite app_nth2 by (rewrite map_length; lia). rewrite map_length, Nat.sub_diag. reflexivity.
Qed.

Lemma is_last_iff ssl hi : ss_end bs ssl = Some (hi - 1) -> 0 < hi -> hi <= lenN f ->
  is_sysline_last bs f (ss_sysline ssl) = (hi =? lenN f).
Proof.
  intros He Hp Hle. unfold is_sysline_last. unfold ss_end in He. rewrite He. unfold fileoffset_last.
  destruct (N.eqb_spec (lenN f) 0); [lia|]. destruct (N.eqb_spec hi (lenN f)); [apply N.eqb_eq; lia|apply N.eqb_neq; lia].
Qed.

Lemma run_cons c s e evs : R.run c s (e :: evs) = R.run c (R.step c s e) evs.
Proof. reflexivity. Qed.

Lemma evs_from_S k cnt : 1 <= k -> evs_from k (S cnt) = R.ER (k - 1) :: R.EW :: evs_from (k + 1) cnt.
Proof.
  intros Hk. unfold evs_from. cbn [R.nseq flat_map]. replace (1 <=? k) with true by (symmetry; apply N.leb_le; exact Hk). reflexivity.
Qed.

(* p, a message found before q, lies before q: its first block is not after the last block of the first line of q *)
Lemma before_first dn q rest p : ms = dn ++ q :: rest -> In p dn -> R.mfb p <= R.lfb (R.mfirst q) /\ R.lfb (R.mfirst q) <= R.mlb q.
Proof.
  intros E Hp.
  destruct (done_before dn q rest p (R.mfirst p) (R.mfirst q) E Hp (or_introl eq_refl) (or_introl eq_refl)) as (_ & (_ & _ & X1 & X2 & X3)).
  destruct (RP.wf_msg_ok bs spn ml ms Hwf q (split_in _ _ _ E)) as (_ & _ & X). rewrite Forall_forall in X.
  destruct (X (R.mfirst q) (or_introl eq_refl)) as (_ & Y). unfold R.mfb. lia.
Qed.

Lemma wstep_shape c s q rest : R.todo s = q :: rest -> R.stage2 s = false ->
  R.wstep c s =
  let s1 := R.do_find c s false q in
  match rest with
  | [] => R.set_worker s1 [] false (R.wprev s)
  | _ => R.set_worker (match R.wprev s with Some p => R.do_try_drop c s1 p | None => s1 end) rest false (Some q)
  end.
Proof. intros Ht Hs. unfold R.wstep. rewrite Ht, Hs. destruct rest; reflexivity. Qed.

Lemma last_snoc_split (dn : list R.msg) d : dn <> [] -> exists dn0 p, dn = dn0 ++ [p] /\ last dn d = p.
Proof. intros H. destruct (exists_last H) as (dn0 & p & ->). exists dn0, p. split; [reflexivity|apply last_last]. Qed.

Lemma last_key dn q rest dn0 p : ms = dn ++ q :: rest -> dn = dn0 ++ [p] -> R.mkey p = N.of_nat (length dn) - 1.
Proof.
  intros E Edn. rewrite (key_of_split dn0 p (q :: rest)); [rewrite Edn, app_length; cbn [length]; lia|].
  rewrite E, Edn, <- app_assoc. reflexivity.
Qed.

Lemma try_drop_frame c s p : R.held (R.do_try_drop c s p) = R.held s /\ R.front (R.do_try_drop c s p) = R.front s.
Proof.
  unfold R.do_try_drop. destruct (R.mfb p <? 3); [split; reflexivity|]. cbn [R.set_index R.held R.front].
  match goal with |- R.held (fold_left (R.release_msg ?pp) ?rel s) = _ /\ _ =>
    pose proof (RP.release_msgs_spec pp rel s) as X end. cbv zeta in X.
  destruct X as (_ & _ & _ & _ & _ & _ & (_ & _ & X1 & _ & _ & _ & _ & X2 & _)). split; assumption.
Qed.

(* ---- the stage-3 loop of the driver against the schedule of a consumer that keeps up *)
Lemma loop_agree : forall rest q dn C s fuel i prev acc,
  ms = dn ++ q :: rest -> dn <> [] -> R.todo s = q :: rest ->
  Rel (frontier s) (mbeg q) dn C s ->
  R.stage2 s = false -> R.front s = Some (R.mfirst q) ->
  R.held s = [R.mkey (last dn q)] ->
  match prev with
  | None => length dn = 1%nat /\ R.wprev s = None
  | Some ps => (2 <= length dn)%nat /\ R.wprev s = Some (last dn q) /\ ss_bo_first ps = Some (R.mfb (last dn q))
  end ->
  i = (length dn - 2)%nat ->
  exists C' r, c_stream_loop dated fuel bs f (drop_plan ms) i C (mbeg q) prev acc = (C', r) /\
               agree0 C' (R.run cp s (evs_from (N.of_nat (length dn)) (Nat.min fuel (S (length rest))))).
Proof.
  induction rest as [|q' r IH]; intros q dn C s fuel i prev acc E Hdn Htodo RL Hst2 Hfront Hheld Hprev Hi.
  all: pose proof (msg_shape dn q _ E) as Sh; cbv zeta in Sh; destruct Sh as (SP0 & _ & _ & _ & _ & _ & Hrest).
  all: assert (Hmq : mbeg q < lenN f) by (destruct SP0 as (X1 & X2 & _); unfold mbeg in *; lia).
  all: destruct fuel as [|k]; [eexists _, _; split; [reflexivity|]; cbn [Nat.min evs_from R.nseq flat_map R.run fold_left]; eapply Rel_agree0; eauto|].
  all: cbn [Nat.min].
  all: destruct (last_snoc_split dn q Hdn) as (dn0 & p & Edn & Elast).
  all: pose proof (last_key dn q _ dn0 p E Edn) as Hkp.
  all: rewrite evs_from_S by (destruct dn; [congruence|cbn [length]; lia]).
  all: rewrite run_cons; cbn [R.step]; rewrite run_cons; cbn [R.step].
  all: rewrite <- Hkp; set (sa := R.release s (R.mkey p)).
  all: assert (Hheld_a : R.held sa = []) by (unfold sa; cbn [R.release R.held]; rewrite Hheld, Elast; cbn [filter]; rewrite N.eqb_refl; reflexivity).
  all: assert (RLa : Rel (frontier sa) (mbeg q) dn C sa) by (apply Rel_release; exact RL).
  all: assert (Hst_a : R.stage2 sa = match dn with [] => true | _ :: _ => false end) by (destruct dn; [congruence|exact Hst2]).
  all: assert (Hfr_a : match dn with [] => R.front sa = None | _ :: _ => R.front sa = Some (R.mfirst q) end) by (destruct dn; [congruence|exact Hfront]).
  all: destruct (find_step dn q _ C sa E RLa Hst_a Hfr_a) as (C1 & ssl & Efind & Hbo & Hend & Hlt & Hfr1 & Hheld1 & Htodo1 & Hwp1 & RL1); cbv zeta in *.
  all: change (R.stage2 sa) with (R.stage2 s) in *; rewrite Hst2 in *.
  all: rewrite (wstep_shape cp sa q _ Htodo Hst2); cbv zeta.
  all: set (s1 := R.do_find cp sa false q) in *.
  all: cbn [c_stream_loop]; rewrite Efind.
  - (* the last message *)
    destruct Hrest as (_ & Hhi). rewrite (is_last_iff ssl _ Hend ltac:(lia) ltac:(lia)), Hhi, N.eqb_refl.
    eexists _, _. split; [reflexivity|]. rewrite Nat.min_0_r. cbn [evs_from R.nseq flat_map R.run fold_left].
    apply agree0_set_worker. eapply Rel_agree0; eauto.
  - destruct Hrest as (Hn & Hmq' & Hhi).
    rewrite (is_last_iff ssl _ Hend ltac:(lia) ltac:(lia)). replace (R.mend q + 1 =? lenN f) with false by (symmetry; apply N.eqb_neq; lia).
    rewrite Hn in *.
    assert (E' : ms = (dn ++ [q]) ++ q' :: r) by (rewrite <- app_assoc; exact E).
    assert (Hh1 : R.held s1 = [R.mkey q]) by (rewrite Hheld1, Hheld_a; reflexivity).
    change (R.wprev sa) with (R.wprev s) in *.
    assert (Htail : forall C2 s2 i2, Rel (R.lend (R.mfirst q') + 1) (R.mend q + 1) (dn ++ [q]) C2 s2 ->
              R.front s2 = Some (R.mfirst q') -> R.held s2 = [R.mkey q] -> i2 = (length (dn ++ [q]) - 2)%nat ->
              exists C' r0, c_stream_loop dated k bs f (drop_plan ms) i2 C2 (R.mend q + 1) (Some ssl) (acc ++ [ssl]) = (C', r0) /\
                agree0 C' (R.run cp (R.set_worker s2 (q' :: r) false (Some q)) (evs_from (N.of_nat (length dn) + 1) (Nat.min k (length (q' :: r)))))).
    { intros C2 s2 i2 RL2 Hf2 Hh2 Hi2. rewrite <- Hmq'.
      replace (N.of_nat (length dn) + 1) with (N.of_nat (length (dn ++ [q]))) by (rewrite app_length; cbn [length]; lia).
      apply (IH q' (dn ++ [q]) C2 (R.set_worker s2 (q' :: r) false (Some q)) k i2 (Some ssl) (acc ++ [ssl]) E').
      - destruct dn; discriminate.
      - reflexivity.
      - apply Rel_set_worker. unfold frontier. cbn [R.set_worker R.front]. rewrite Hf2, Hmq'. exact RL2.
      - reflexivity.
      - exact Hf2.
      - cbn [R.set_worker R.held]. rewrite Hh2, last_last. reflexivity.
      - rewrite last_last. split; [rewrite app_length; cbn [length]; destruct dn; [congruence|cbn [length]; lia]|]. split; [reflexivity|exact Hbo].
      - exact Hi2. }
    destruct prev as [ps|].
    + destruct Hprev as (Hl2 & Hwp & Hbop). rewrite Elast in Hwp, Hbop. rewrite Hwp.
      assert (Hp_dn : In p dn) by (rewrite Edn; apply in_or_app; right; left; reflexivity).
      assert (Hplan : plan_at (drop_plan ms) i = (3 <=? R.mfb p)).
      { destruct dn0 as [|d0 dn1]; [rewrite Edn in Hl2; cbn in Hl2; lia|].
        replace i with (length dn1) by (rewrite Hi, Edn; cbn [length app]; rewrite app_length; cbn [length]; lia).
        apply (plan_at_drop d0 dn1 p q q' r). rewrite E, Edn. reflexivity. }
      rewrite Hplan.
      assert (Hi2 : S i = (length (dn ++ [q]) - 2)%nat) by (rewrite app_length; cbn [length]; lia).
      destruct (N.leb_spec 3 (R.mfb p)) as [H3|H3].
      * (* the drop runs *)
        assert (Etry : c_drop_data_try bs C1 ps = c_drop_data bs C1 (R.mfb p - 2)).
        { unfold c_drop_data_try. rewrite Hbop. replace (1 <? R.mfb p) with true by (symmetry; apply N.ltb_lt; lia). reflexivity. }
        rewrite Etry.
        destruct (try_drop_frame cp s1 p) as (Fh & Ff).
        apply Htail; [|rewrite Ff; exact Hfr1|rewrite Fh; exact Hh1|exact Hi2].
        apply drop_step; [exact RL1|exact H3| | |].
        -- intros m Hm Hb. unfold R.is_held. rewrite Hh1. cbn [R.memN existsb]. rewrite orb_false_r. apply N.eqb_neq. intro Ek.
           assert (Hmms : In m ms).
           { apply (r_stored _ _ _ _ _ RL1) in Hm. rewrite E. apply in_app_or in Hm as [Hm|[<-|[]]]; apply in_or_app; [left; exact Hm|right; left; reflexivity]. }
           assert (m = q) by (apply mkey_inj; [exact Hmms|apply (split_in _ _ _ E)|exact Ek]). subst m.
           destruct (before_first dn q _ p E Hp_dn) as (X1 & X2). lia.
        -- intros m Hm. rewrite E. apply in_app_or in Hm as [Hm|[<-|[]]]; apply in_or_app; [left; exact Hm|right; left; reflexivity].
        -- rewrite Hfr1. destruct (before_first (dn ++ [q]) q' r p E' ltac:(apply in_or_app; left; exact Hp_dn)) as (X1 & _).
           destruct (RP.wf_line_ok bs spn ml ms Hwf (R.mfirst q')) as (Y & _); [apply (msg_lines_file q'); [apply (split_in _ _ _ E')|left; reflexivity]|]. lia.
      * (* drop_data skips it *)
        assert (Etry : R.do_try_drop cp s1 p = s1).
        { unfold R.do_try_drop. replace (R.mfb p <? 3) with true by (symmetry; apply N.ltb_lt; exact H3). reflexivity. }
        rewrite Etry. apply Htail; auto.
    + destruct Hprev as (Hl1 & Hwp). rewrite Hwp. apply Htail; auto.
      rewrite Hi, app_length, Hl1. reflexivity.
Qed.

(* ---- the start *)
Lemma Rel_init : Rel 0 0 [] sr_init (R.init ms).
Proof.
  constructor; cbn; auto; try (intros; contradiction); try constructor; try tauto.
  all: try (intros; discriminate).
  all: try (intros; contradiction).
  all: try lia.
  all: try constructor; cbn; auto; try (intros; discriminate); try (intros; contradiction); try lia.
  all: try apply lr_inv0_init. all: try apply bgood_init.
Qed.

(* ---- the run, after every iteration *)
Theorem stream_agree_upto j : ms <> [] ->
  agree0 (fst (c_stream_upto j dated bs f (drop_plan ms) sr_init))
        (R.run cp (R.init ms) (R.sched_lag 1 (Nat.min (S j) (length ms)))).
Proof.
  intros Hne. destruct ms as [|q0 rest] eqn:Ems; [congruence|]. rewrite <- Ems in *.
  assert (E : ms = [] ++ q0 :: rest) by exact Ems.
  assert (H0 : mbeg q0 = 0) by (pose proof (rz_first _ Hreal) as X; rewrite Ems in X; exact X).
  assert (RL0 : Rel (frontier (R.init ms)) (mbeg q0) [] sr_init (R.init ms)) by (rewrite H0; apply Rel_init).
  destruct (find_step [] q0 rest sr_init (R.init ms) E RL0 eq_refl eq_refl)
    as (C1 & ssl & Efind & Hbo & Hend & Hlt & Hfr1 & Hheld1 & Htodo1 & Hwp1 & RL1). cbv zeta in *.
  change (R.stage2 (R.init ms)) with true in *.
  set (s1 := R.do_find cp (R.init ms) true q0) in *.
  pose proof (msg_shape [] q0 rest E) as Sh. cbv zeta in Sh. destruct Sh as (SP0 & _ & _ & _ & _ & _ & Hrest).
  rewrite sched_lag_1. rewrite Ems at 3. cbn [length Nat.min]. unfold evs_from. cbn [R.nseq flat_map]. cbn [N.leb N.compare app].
  fold (evs_from (0 + 1) (Nat.min j (length rest))). rewrite run_cons. cbn [R.step].
  assert (Ew : R.wstep cp (R.init ms) = R.set_worker s1 rest false None).
  { unfold s1. remember (R.init ms) as si eqn:Esi.
    assert (T1 : R.todo si = q0 :: rest) by (subst si; exact Ems). assert (T2 : R.stage2 si = true) by (subst si; reflexivity).
    unfold R.wstep. rewrite T1, T2. reflexivity. }
  rewrite Ew. unfold c_stream_upto. rewrite H0 in Efind. rewrite Efind.
  assert (Hhi_le : R.mend q0 + 1 <= lenN f) by (destruct rest; [destruct Hrest as (_ & ->); lia|destruct Hrest as (_ & _ & X); lia]).
  rewrite (is_last_iff ssl _ Hend ltac:(lia) Hhi_le).
  destruct rest as [|q1 r].
  - destruct Hrest as (_ & Hhi). rewrite Hhi, N.eqb_refl. cbn [length]. rewrite Nat.min_0_r. cbn [fst evs_from R.nseq flat_map R.run fold_left].
    apply agree0_set_worker. eapply Rel_agree0; eauto.
  - destruct Hrest as (Hn & Hmq & Hhi). replace (R.mend q0 + 1 =? lenN f) with false by (symmetry; apply N.eqb_neq; lia).
    rewrite Hn in *.
    destruct (loop_agree r q1 [q0] C1 (R.set_worker s1 (q1 :: r) false None) j 0%nat None [ssl]) as (C' & r0 & EL & AG).
    + exact E.
    + discriminate.
    + reflexivity.
    + apply Rel_set_worker. unfold frontier. cbn [R.set_worker R.front]. rewrite Hfr1, Hmq. exact RL1.
    + reflexivity.
    + exact Hfr1.
    + cbn [R.set_worker R.held last]. rewrite Hheld1. reflexivity.
    + split; reflexivity.
    + reflexivity.
    + rewrite Hmq in EL. rewrite EL. cbn [fst]. exact AG.
Qed.

(* there are no more messages than bytes *)
Lemma msgs_le_file : (length ms <= length f)%nat.
Proof.
  assert (H1 : (length ms <= length FL)%nat).
  { unfold R.file_lines. clear. induction ms as [|m l IH]; [cbn; lia|]. cbn [flat_map length]. rewrite app_length. unfold R.mlines at 1. cbn [length]. lia. }
  destruct (sorted_count FL fl_sorted_spl 0 (lenN f)) as [X|X].
  - intros l Hl. destruct (fl_real l Hl) as ((X1 & X2 & _) & _). lia.
  - rewrite X in H1. cbn in H1. lia.
  - unfold R.lenN, lenN in X. lia.
Qed.

(* ---- the whole run *)
Theorem stream_agree : ms <> [] ->
  agree0 (fst (c_stream dated bs f (drop_plan ms) sr_init)) (R.run cp (R.init ms) (R.sched_lag 1 (length ms))).
Proof.
  intros Hne. pose proof (stream_agree_upto (S (length f)) Hne) as H. pose proof msgs_le_file as L.
  replace (Nat.min (S (S (length f))) (length ms)) with (length ms) in H by lia. exact H.
Qed.

End Agree.
