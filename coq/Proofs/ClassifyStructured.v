(* Proofs/ClassifyStructured.v — Part 3 of the C16 proofs: on a structured name
     pre ++ c0 ++ .c1 ++ ... ++ .ck ++ post
   the model [classify] computes the spec [spec_scan], for every container and
   every sufficient fuel; the property's clauses (case, rotation, compression,
   default text, junk) are corollaries of that one theorem. *)
From S4.Base Require Import Bytes.
From S4.Model Require Import Classify.
From S4.Spec Require Import ClassifySpec.
From S4.Proofs Require Import ClassifyProofs.
From Coq Require Import Lia.
Open Scope N_scope.

(* c0.c1. ... .ck *)
Definition body (c0 : bytes) (comps : list bytes) : bytes :=
  c0 ++ concat (map (fun c => dot :: c) comps).

Lemma render_body pre c0 comps post : render pre c0 comps post = pre ++ body c0 comps ++ post.
Proof. unfold render, body. rewrite <- app_assoc. reflexivity. Qed.

Lemma body_nil c0 : body c0 [] = c0.
Proof. unfold body. cbn [map concat]. apply app_nil_r. Qed.

Lemma body_snoc c0 comps c : body c0 (comps ++ [c]) = body c0 comps ++ dot :: c.
Proof.
  unfold body. rewrite map_app, concat_app. cbn [map concat]. rewrite app_nil_r, app_assoc. reflexivity.
Qed.

Lemma length_body_ge c0 comps : (length comps <= length (body c0 comps))%nat.
Proof.
  unfold body. rewrite app_length.
  induction comps as [|c comps IH]; cbn [map concat length]; [lia|].
  cbn [app length]. rewrite app_length. lia.
Qed.

Lemma length_render_gt pre c0 comps post : (length comps < S (length (render pre c0 comps post)))%nat.
Proof.
  rewrite render_body, !app_length. pose proof (length_body_ge c0 comps). lia.
Qed.

Lemma has_nondot_nonempty b : has_nondot b = true -> b <> [].
Proof. destruct b; [discriminate|congruence]. Qed.

Lemma lower_bytes_nonempty c : c <> [] -> is_empty (lower_bytes c) = false.
Proof. destruct c; [congruence|reflexivity]. Qed.

Lemma beqb_length_false a b : length a <> length b -> beqb a b = false.
Proof.
  intro H. destruct (beqb a b) eqn:E; [|reflexivity]. apply beqb_eq in E. subst. congruence.
Qed.

Section Structured.
  Variable sfx_table : list (bytes * sfx_action).
  Variable name_table : list (bytes * name_action).
  Variable junk junk_lead : list N.
  Hypothesis Hwf : tables_wf sfx_table junk junk_lead = true.

  Local Notation clean := (clean junk junk_lead).
  Local Notation classify := (classify sfx_table name_table junk junk_lead).
  Local Notation classify_top := (classify_top sfx_table name_table junk junk_lead).
  Local Notation spec_scan := (spec_scan sfx_table name_table).
  Local Notation spec_classify := (spec_classify sfx_table name_table).
  Local Notation ccomp := (clean_comp_u junk junk_lead).

  Let Hdotjunk : memb dot junk = false.
  Proof. exact (proj1 (tables_wf_inv _ _ _ Hwf)). Qed.
  Let Hsub : forall b, In b junk -> In b junk_lead.
  Proof. exact (proj1 (proj2 (tables_wf_inv _ _ _ Hwf))). Qed.
  Let Hjascii : forall b, In b junk -> b <? 128 = true.
  Proof. exact (proj1 (proj2 (proj2 (tables_wf_inv _ _ _ Hwf)))). Qed.
  Let Hlascii : forall b, In b junk_lead -> b <? 128 = true.
  Proof. exact (proj1 (proj2 (proj2 (proj2 (tables_wf_inv _ _ _ Hwf))))). Qed.
  Let Hnil : assoc [] sfx_table = None.
  Proof. exact (proj2 (proj2 (proj2 (proj2 (tables_wf_inv _ _ _ Hwf))))). Qed.

  (* what the proof needs of c0.c1...ck *)
  Record good (b : bytes) : Prop := {
    good_valid : utf8_valid b = true;
    good_start : starts_with_any junk_lead b = false;
    good_end : ends_with_any junk b = false;
    good_nondot : has_nondot b = true }.

  Lemma ccomp_props c : ccomp c = true -> c <> [] /\ memb dot c = false /\ good c.
  Proof.
    unfold clean_comp_u. rewrite !andb_true_iff. intros [[[[H1 H2] H3] H4] H5].
    apply negb_true_iff in H1, H3.
    assert (Hne : c <> []) by (intro E; subst; discriminate H1).
    split; [exact Hne|]. split; [exact H3|]. constructor.
    - exact H2.
    - destruct c; [discriminate|]. apply negb_true_iff in H4. exact H4.
    - unfold last_byte in H5. unfold ends_with_any, starts_with_any.
      destruct (rev c); [discriminate|]. apply negb_true_iff in H5. exact H5.
    - apply nodot_has_nondot; assumption.
  Qed.

  Lemma good_snoc b c : good b -> ccomp c = true -> good (b ++ dot :: c).
  Proof.
    intros [G1 G2 G3 G4] Hc. destruct (ccomp_props c Hc) as [Hne [Hd [C1 C2 C3 C4]]].
    pose proof (has_nondot_nonempty _ G4) as Hb.
    constructor.
    - rewrite utf8_valid_app by exact G1. rewrite utf8_valid_dot. exact C1.
    - rewrite starts_with_any_app by exact Hb. exact G2.
    - change (dot :: c) with ([dot] ++ c). rewrite app_assoc.
      rewrite ends_with_any_app by exact Hne. exact C3.
    - rewrite has_nondot_app, G4. reflexivity.
  Qed.

  Lemma good_body c0 comps :
    ccomp c0 = true -> forallb ccomp comps = true -> good (body c0 comps).
  Proof.
    intro H0. induction comps as [|c comps IH] using rev_ind; intro Hall.
    - rewrite body_nil. apply ccomp_props. exact H0.
    - rewrite forallb_app in Hall. apply andb_true_iff in Hall as [Ha Hc].
      cbn [forallb] in Hc. rewrite andb_true_r in Hc.
      rewrite body_snoc. apply good_snoc; auto.
  Qed.

  Lemma all_in_valid j l : (forall b, In b j -> b <? 128 = true) -> all_in j l = true -> utf8_valid l = true.
  Proof.
    intros Hj Hl. apply ascii_utf8_valid. unfold ascii. apply forallb_forall.
    intros b Hb. apply Hj. rewrite all_in_forall in Hl. auto.
  Qed.

  Lemma step1_structured pre b post :
    all_in junk_lead pre = true -> all_in junk post = true -> good b ->
    step1 junk (pre ++ b ++ post) = Some (pre ++ b, pre ++ b).
  Proof.
    intros Hpre Hpost [G1 G2 G3 G4].
    pose proof (has_nondot_nonempty _ G4) as Hb.
    pose proof (all_in_valid _ _ Hlascii Hpre) as Vpre.
    pose proof (all_in_valid _ _ Hjascii Hpost) as Vpost.
    assert (Hnd : has_nondot (pre ++ b) = true) by (rewrite has_nondot_app, G4; apply orb_true_r).
    assert (Hv : utf8_valid (pre ++ b) = true) by (rewrite utf8_valid_app; assumption).
    assert (Hend : ends_with_any junk (pre ++ b) = false) by (rewrite ends_with_any_app; assumption).
    assert (Hfn : file_name (pre ++ b) = Some (pre ++ b)) by (apply has_nondot_file_name; exact Hnd).
    unfold step1. rewrite app_assoc.
    assert (Hn : has_nondot ((pre ++ b) ++ post) = true) by (rewrite has_nondot_app, Hnd; reflexivity).
    rewrite (has_nondot_file_name _ Hn). cbn [unwrap_name].
    rewrite to_str_valid by (rewrite utf8_valid_app; assumption).
    destruct post as [|x post'].
    - rewrite app_nil_r, Hend. reflexivity.
    - rewrite ends_with_any_all by (try exact Hpost; discriminate).
      rewrite trim_end_all by assumption.
      rewrite is_empty_false by (intro E; rewrite E in Hnd; discriminate).
      rewrite Hfn. reflexivity.
  Qed.

  (* [clean] strips exactly pre and post — unless the "fname2 != extension" exception fires *)
  Lemma clean_structured pre b post :
    all_in junk_lead pre = true -> all_in junk post = true -> good b ->
    beqb b (unwrap_name (extension (pre ++ b))) = false ->
    clean (pre ++ b ++ post) = Some (b, b).
  Proof.
    intros Hpre Hpost G Hex. pose proof (step1_structured pre b post Hpre Hpost G) as S1.
    destruct G as [G1 G2 G3 G4].
    pose proof (has_nondot_nonempty _ G4) as Hb.
    pose proof (all_in_valid _ _ Hlascii Hpre) as Vpre.
    assert (Hnd : has_nondot (pre ++ b) = true) by (rewrite has_nondot_app, G4; apply orb_true_r).
    assert (Hv : utf8_valid (pre ++ b) = true) by (rewrite utf8_valid_app; assumption).
    assert (Hfb : file_name b = Some b) by (apply has_nondot_file_name; exact G4).
    assert (S3 : step3 junk_lead (pre ++ b) (pre ++ b) = Some (b, b)).
    { unfold step3. rewrite to_str_valid by exact Hv.
      destruct pre as [|x pre'].
      - cbn [app]. rewrite G2. reflexivity.
      - rewrite starts_with_any_all by (try exact Hpre; discriminate).
        rewrite trim_start_all by assumption.
        rewrite is_empty_false by exact Hb. rewrite Hex. cbn [negb]. rewrite Hfb. reflexivity. }
    rewrite clean_unfold, S1. rewrite to_str_valid by exact Hv.
    rewrite (has_nondot_all_dots _ Hnd), andb_false_r. rewrite S3.
    rewrite is_empty_false by exact Hb. reflexivity.
  Qed.

  (* ... when it fires, the leading junk stays *)
  Lemma clean_structured_exc pre b post :
    all_in junk_lead pre = true -> all_in junk post = true -> good b -> pre <> [] ->
    beqb b (unwrap_name (extension (pre ++ b))) = true ->
    clean (pre ++ b ++ post) = Some (pre ++ b, pre ++ b).
  Proof.
    intros Hpre Hpost G Hne Hex. pose proof (step1_structured pre b post Hpre Hpost G) as S1.
    destruct G as [G1 G2 G3 G4].
    pose proof (has_nondot_nonempty _ G4) as Hb.
    pose proof (all_in_valid _ _ Hlascii Hpre) as Vpre.
    assert (Hnd : has_nondot (pre ++ b) = true) by (rewrite has_nondot_app, G4; apply orb_true_r).
    assert (Hv : utf8_valid (pre ++ b) = true) by (rewrite utf8_valid_app; assumption).
    assert (S3 : step3 junk_lead (pre ++ b) (pre ++ b) = Some (pre ++ b, pre ++ b)).
    { unfold step3. rewrite to_str_valid by exact Hv.
      rewrite starts_with_any_all by assumption.
      rewrite trim_start_all by assumption.
      rewrite is_empty_false by exact Hb. rewrite Hex. reflexivity. }
    rewrite clean_unfold, S1. rewrite to_str_valid by exact Hv.
    rewrite (has_nondot_all_dots _ Hnd), andb_false_r. rewrite S3.
    rewrite is_empty_false by (intro E; rewrite E in Hnd; discriminate). reflexivity.
  Qed.

  (* a name of leading-junk characters only is never cleaned to anything *)
  Lemma trim_start_all_in j l : all_in j l = true -> trim_start j l = [].
  Proof. intro H. rewrite <- (app_nil_r l). apply trim_start_all; [exact H|reflexivity]. Qed.

  Lemma clean_all_junk l : all_in junk_lead l = true -> clean l = None.
  Proof.
    intro Hl. rewrite clean_unfold.
    destruct (step1 junk l) as [[c1 f1]|] eqn:S1; [|reflexivity].
    destruct (step1_inv _ _ _ _ S1) as [Hf1 [t Ht]].
    assert (Hc1 : all_in junk_lead c1 = true).
    { rewrite Ht, all_in_app in Hl. apply andb_true_iff in Hl as [Hl _]. exact Hl. }
    destruct (negb (is_empty (to_str_or_empty f1)) && all_dots (to_str_or_empty f1)); [reflexivity|].
    assert (S3 : step3 junk_lead c1 f1 = None \/ exists c3, step3 junk_lead c1 f1 = Some (c3, [])).
    { unfold step3. destruct (file_name c1) as [n|] eqn:E; cbn [unwrap_name] in Hf1; subst f1.
      - apply file_name_some in E. subst n.
        rewrite to_str_valid by (apply (all_in_valid _ _ Hlascii Hc1)).
        destruct c1 as [|x r].
        + right. exists []. reflexivity.
        + left. assert (Hx : starts_with_any junk_lead (x :: r) = true).
          { unfold all_in in Hc1. cbn [forallb] in Hc1. apply andb_true_iff in Hc1 as [Hx _]. exact Hx. }
          rewrite Hx, trim_start_all_in by exact Hc1. reflexivity.
      - right. exists c1. reflexivity. }
    destruct S3 as [S3|[c3 S3]]; rewrite S3; reflexivity.
  Qed.

  Lemma f6_pre_snoc_dot y pb : f6_pre ((y :: pb) ++ [dot]) = true.
  Proof.
    unfold f6_pre. rewrite rev_app_distr. cbn [rev app].
    destruct (rev pb); cbn [app]; apply N.eqb_refl.
  Qed.

  Lemma f6_pre_inv pre : f6_pre pre = true -> exists y pb, pre = (y :: pb) ++ [dot].
  Proof.
    unfold f6_pre. destruct (rev pre) as [|b [|b' r]] eqn:E; try discriminate.
    intro H. apply N.eqb_eq in H. subst b.
    assert (Hp : pre = (rev r ++ [b']) ++ [dot]).
    { rewrite <- (rev_involutive pre), E. reflexivity. }
    destruct (rev r ++ [b']) as [|y pb] eqn:E2.
    - apply app_eq_nil in E2 as [_ E2]. discriminate.
    - exists y, pb. exact Hp.
  Qed.

  (* with a further component behind c0... the exception never fires *)
  Lemma no_exception_snoc pre c0 comps c :
    ccomp c0 = true -> forallb ccomp comps = true -> ccomp c = true ->
    beqb (body c0 comps ++ dot :: c) (unwrap_name (extension (pre ++ body c0 comps ++ dot :: c))) = false.
  Proof.
    intros H0 Ha Hc.
    destruct (ccomp_props c Hc) as [Hne [Hd _]].
    pose proof (good_body c0 comps H0 Ha) as [G1 G2 G3 G4].
    rewrite app_assoc. rewrite extension_last.
    - cbn [unwrap_name]. apply beqb_length_false. rewrite app_length. cbn [length]. lia.
    - rewrite !has_nondot_app, G4. rewrite orb_true_r. reflexivity.
    - intro E. apply app_eq_nil in E as [_ E]. rewrite E in G4. discriminate.
    - exact Hd.
  Qed.

  (* ... and on pre ++ c0 it fires exactly in the F6 class *)
  Lemma exception_nil_iff pre c0 :
    ccomp c0 = true -> beqb c0 (unwrap_name (extension (pre ++ c0))) = f6_pre pre.
  Proof.
    intros H0. destruct (ccomp_props c0 H0) as [Hne [Hd [C1 C2 C3 C4]]].
    assert (Hn : has_nondot (pre ++ c0) = true) by (rewrite has_nondot_app, C4; apply orb_true_r).
    destruct (f6_pre pre) eqn:Hf6.
    - destruct (f6_pre_inv _ Hf6) as [y [pb Hp]]. subst pre. rewrite <- app_assoc. cbn [app].
      rewrite <- app_assoc in Hn. cbn [app] in Hn.
      change (y :: pb ++ dot :: c0) with ((y :: pb) ++ dot :: c0) in *.
      rewrite extension_last; [apply beqb_refl|exact Hn|discriminate|exact Hd].
    - unfold extension. rewrite (has_nondot_file_name _ Hn). unfold ext_of_name.
      rewrite rsplit_dot_app, (rsplit_dot_nodot c0 Hd).
      assert (Hc0 : beqb c0 [] = false) by (apply beqb_length_false; destruct c0; [congruence|discriminate]).
      destruct (rsplit_dot pre) as [[[|y pb] pa]|] eqn:R; cbn [unwrap_name]; try exact Hc0.
      destruct (beqb c0 (pa ++ c0)) eqn:E; [|reflexivity]. exfalso.
      apply beqb_eq in E. assert (Hl : length c0 = length (pa ++ c0)) by congruence.
      rewrite app_length in Hl. destruct pa; [|cbn [length] in Hl; lia].
      apply rsplit_dot_spec in R. rewrite R, f6_pre_snoc_dot in Hf6. discriminate.
  Qed.

  Lemma scan_gen_ext base base' uat : (forall a, base a = base' a) ->
    forall cr a, scan_gen sfx_table base uat a cr = scan_gen sfx_table base' uat a cr.
  Proof.
    intro H. induction cr as [|c cr IH]; intro a; cbn [scan_gen]; [apply H|].
    destruct (parse_i32_ok (lower_bytes c)); [apply IH|].
    destruct (assoc (lower_bytes c) sfx_table) as [[a'| | | | |t|]|]; try reflexivity; apply IH.
  Qed.

  Lemma scan_gen_app base uat cr1 : forall a cr2,
    scan_gen sfx_table base uat a (cr1 ++ cr2)
    = scan_gen sfx_table (fun a' => scan_gen sfx_table base uat a' cr2) uat a cr1.
  Proof.
    induction cr1 as [|c cr1 IH]; intros a cr2; cbn [app scan_gen]; [reflexivity|].
    destruct (parse_i32_ok (lower_bytes c)); [apply IH|].
    destruct (assoc (lower_bytes c) sfx_table) as [[a'| | | | |t|]|]; try reflexivity; apply IH.
  Qed.

  Lemma spec_scan_gen uat c0 : forall cr a,
    spec_scan uat a c0 cr = scan_gen sfx_table (fun a' => spec_name name_table a' c0) uat a cr.
  Proof.
    induction cr as [|c cr IH]; intro a; cbn [ClassifySpec.spec_scan scan_gen]; [reflexivity|].
    destruct (parse_i32_ok (lower_bytes c)); [apply IH|].
    destruct (assoc (lower_bytes c) sfx_table) as [[a'| | | | |t|]|]; try reflexivity; apply IH.
  Qed.

  Section FixedName.
    Variable uat : bool.
    Variables pre c0 : bytes.
    Hypothesis Hpre : all_in junk_lead pre = true.
    Hypothesis H0 : ccomp c0 = true.

    (* the components behind c0 are scanned from the right, whatever happens at c0:
       [base]/[n0] describe what the code does on pre ++ c0 ++ post *)
    Section Scan.
      Variable base : fta -> result.
      Variable n0 : nat.
      Hypothesis Hbase : forall fuel a post, all_in junk post = true -> (n0 < fuel)%nat ->
        classify fuel uat a (pre ++ c0 ++ post) = base a.

      Lemma classify_body_gen : forall comps,
        forallb ccomp comps = true ->
        forall fuel a post, all_in junk post = true -> (length comps + n0 < fuel)%nat ->
        classify fuel uat a (pre ++ body c0 comps ++ post) = scan_gen sfx_table base uat a (rev comps).
      Proof.
        induction comps as [|c comps IH] using rev_ind; intros Hall fuel a post Hpost Hlen.
        - rewrite body_nil. cbn [rev scan_gen]. apply Hbase; [exact Hpost|exact Hlen].
        - rewrite forallb_app in Hall. apply andb_true_iff in Hall as [Ha Hc].
          cbn [forallb] in Hc. rewrite andb_true_r in Hc.
          rewrite app_length in Hlen. cbn [length] in Hlen.
          destruct fuel as [|fuel]; [lia|]. cbn [Classify.classify].
          rewrite body_snoc.
          rewrite clean_structured; auto using good_body, good_snoc, no_exception_snoc.
          destruct (ccomp_props c Hc) as [Hne [Hd [C1 C2 C3 C4]]].
          pose proof (good_body c0 comps H0 Ha) as [G1 G2 G3 G4].
          pose proof (has_nondot_nonempty _ G4) as Hb.
          assert (Hs : suffix_of (body c0 comps ++ dot :: c) = lower_bytes c).
          { unfold suffix_of. rewrite extension_last; auto.
            - cbn [unwrap_name]. rewrite (to_str_valid c C1). reflexivity.
            - rewrite has_nondot_app, G4. reflexivity. }
          assert (Hw : with_extension_empty (pre ++ (body c0 comps ++ dot :: c) ++ post)
                       = pre ++ body c0 comps ++ []).
          { rewrite app_nil_r.
            replace (pre ++ (body c0 comps ++ dot :: c) ++ post)
              with ((pre ++ body c0 comps) ++ dot :: (c ++ post))
              by (rewrite <- !app_assoc; reflexivity).
            apply with_extension_empty_last.
            - rewrite !has_nondot_app, G4. rewrite orb_true_r. reflexivity.
            - intro E. apply app_eq_nil in E as [_ E]. congruence.
            - rewrite memb_app, Hd. apply (all_in_nomem junk); assumption. }
          rewrite Hs, Hw. rewrite rev_app_distr. cbn [rev app scan_gen].
          assert (Hrec : forall a', classify fuel uat a' (pre ++ body c0 comps ++ [])
                                   = scan_gen sfx_table base uat a' (rev comps)).
          { intro a'. apply IH; [exact Ha|reflexivity|lia]. }
          destruct (parse_i32_ok (lower_bytes c)); [apply Hrec|].
          destruct (assoc (lower_bytes c) sfx_table) as [[a'| | | | |t|]|]; try reflexivity.
          + apply Hrec.
          + rewrite (lower_bytes_nonempty c Hne). cbn [negb]. apply Hrec.
      Qed.
    End Scan.

    (* outside the F6 class: pre ++ c0 ++ post is decided by the whole-name table *)
    Lemma classify_base_normal : f6_pre pre = false ->
      forall fuel a post, all_in junk post = true -> (0 < fuel)%nat ->
      classify fuel uat a (pre ++ c0 ++ post) = spec_name name_table a c0.
    Proof.
      intros Hf6 fuel a post Hpost Hlen. destruct fuel as [|fuel]; [lia|]. cbn [Classify.classify].
      destruct (ccomp_props c0 H0) as [Hne [Hd G]].
      rewrite clean_structured; auto.
      2:{ rewrite exception_nil_iff by exact H0. exact Hf6. }
      destruct G as [C1 C2 C3 C4].
      assert (Hs : suffix_of c0 = []).
      { unfold suffix_of. rewrite (extension_nodot c0 Hd). reflexivity. }
      rewrite Hs. cbn [parse_i32_ok]. rewrite Hnil. cbn [is_empty negb].
      unfold name_result, spec_name. rewrite (to_str_valid c0 C1).
      rewrite (lower_bytes_nonempty c0 Hne). reflexivity.
    Qed.

    (* inside the F6 class: c0 is read as a suffix, what is left is all junk *)
    Lemma classify_base_f6 : f6_pre pre = true ->
      forall fuel a post, all_in junk post = true -> (1 < fuel)%nat ->
      classify fuel uat a (pre ++ c0 ++ post) = scan_gen sfx_table (fallback_spec uat) uat a [c0].
    Proof.
      intros Hf6 fuel a post Hpost Hlen. destruct fuel as [|[|fuel]]; [lia|lia|].
      cbn [Classify.classify].
      destruct (ccomp_props c0 H0) as [Hne [Hd G]].
      destruct (f6_pre_inv _ Hf6) as [y [pb Hp]].
      rewrite clean_structured_exc; auto.
      2:{ subst pre. discriminate. }
      2:{ rewrite exception_nil_iff by exact H0. exact Hf6. }
      destruct G as [C1 C2 C3 C4].
      assert (Hpb : all_in junk_lead (y :: pb) = true).
      { rewrite Hp, all_in_app in Hpre. apply andb_true_iff in Hpre as [Hx _]. exact Hx. }
      assert (Hs : suffix_of (pre ++ c0) = lower_bytes c0).
      { unfold suffix_of. rewrite Hp, <- app_assoc. cbn [app].
        change (y :: pb ++ dot :: c0) with ((y :: pb) ++ dot :: c0).
        rewrite extension_last; [|rewrite has_nondot_app; cbn [has_nondot existsb];
                                   fold (has_nondot c0); rewrite C4, !orb_true_r; reflexivity
                                 |discriminate|exact Hd].
        cbn [unwrap_name]. rewrite (to_str_valid c0 C1). reflexivity. }
      assert (Hw : with_extension_empty (pre ++ c0 ++ post) = y :: pb).
      { rewrite Hp, <- app_assoc. cbn [app].
        change (y :: pb ++ dot :: c0 ++ post) with ((y :: pb) ++ dot :: (c0 ++ post)).
        apply with_extension_empty_last.
        - rewrite has_nondot_app. cbn [has_nondot existsb]. fold (has_nondot (c0 ++ post)).
          rewrite has_nondot_app, C4. cbn [orb]. rewrite !orb_true_r. reflexivity.
        - discriminate.
        - rewrite memb_app, Hd. apply (all_in_nomem junk); assumption. }
      rewrite Hs, Hw.
      assert (Hrec : forall a', classify (S fuel) uat a' (y :: pb) = fallback_spec uat a').
      { intro a'. cbn [Classify.classify]. rewrite (clean_all_junk _ Hpb). reflexivity. }
      cbn [scan_gen].
      destruct (parse_i32_ok (lower_bytes c0)); [apply Hrec|].
      destruct (assoc (lower_bytes c0) sfx_table) as [[a'| | | | |t|]|]; try reflexivity.
      + apply Hrec.
      + rewrite (lower_bytes_nonempty c0 Hne). cbn [negb]. apply Hrec.
    Qed.

    Lemma classify_body : f6_pre pre = false -> forall comps,
      forallb ccomp comps = true ->
      forall fuel a post, all_in junk post = true -> (length comps < fuel)%nat ->
      classify fuel uat a (pre ++ body c0 comps ++ post) = spec_scan uat a c0 (rev comps).
    Proof.
      intros Hf6 comps Hall fuel a post Hpost Hlen. rewrite spec_scan_gen.
      apply (classify_body_gen _ 0%nat (classify_base_normal Hf6)); auto. lia.
    Qed.

    Lemma classify_body_f6 : f6_pre pre = true -> forall comps,
      forallb ccomp comps = true ->
      forall fuel a post, all_in junk post = true -> (length comps + 1 < fuel)%nat ->
      classify fuel uat a (pre ++ body c0 comps ++ post)
      = scan_gen sfx_table (fallback_spec uat) uat a (rev (c0 :: comps)).
    Proof.
      intros Hf6 comps Hall fuel a post Hpost Hlen. cbn [rev]. rewrite scan_gen_app.
      apply (classify_body_gen _ 1%nat (classify_base_f6 Hf6)); auto.
    Qed.
  End FixedName.

  Lemma wf_sname_u_inv pre c0 comps post :
    wf_sname_u junk junk_lead pre c0 comps post = true ->
    all_in junk_lead pre = true /\ all_in junk post = true /\ ccomp c0 = true /\ forallb ccomp comps = true.
  Proof. unfold wf_sname_u. rewrite !andb_true_iff. tauto. Qed.

  (* ---- the structured-name theorem, widest domain ----------------------- *)

  (* every container, every sufficient fuel *)
  Theorem classify_structured_from uat a fuel pre c0 comps post :
    wf_sname_u junk junk_lead pre c0 comps post = true -> f6_pre pre = false ->
    (length comps < fuel)%nat ->
    classify fuel uat a (render pre c0 comps post) = spec_scan uat a c0 (rev comps).
  Proof.
    intros W Hf6 Hlen. destruct (wf_sname_u_inv _ _ _ _ W) as [Hpre [Hpost [H0 Hall]]].
    rewrite render_body. apply classify_body; assumption.
  Qed.

  Theorem classify_structured_u uat pre c0 comps post :
    wf_sname_u junk junk_lead pre c0 comps post = true -> f6_pre pre = false ->
    classify_top uat (render pre c0 comps post) = spec_classify uat c0 comps.
  Proof.
    intros W Hf6. unfold Classify.classify_top, ClassifySpec.spec_classify.
    apply classify_structured_from; [exact W|exact Hf6|apply length_render_gt].
  Qed.

  (* ---- the ASCII domains of Spec/ClassifySpec.v -------------------------- *)

  Lemma clean_comp_u_of_ascii c : clean_comp junk junk_lead c = true -> ccomp c = true.
  Proof.
    unfold clean_comp, clean_comp_u. rewrite !andb_true_iff. intros [[[[H1 H2] H3] H4] H5].
    repeat split; auto. apply ascii_utf8_valid. exact H2.
  Qed.

  Lemma wf_wide_u pre c0 comps post :
    wf_sname_wide junk junk_lead pre c0 comps post = true -> wf_sname_u junk junk_lead pre c0 comps post = true.
  Proof.
    unfold wf_sname_wide, wf_sname_gen, wf_sname_u. rewrite !andb_true_iff. intros [[[H1 H2] H3] H4].
    repeat split; auto using clean_comp_u_of_ascii.
    rewrite forallb_forall in *. auto using clean_comp_u_of_ascii.
  Qed.

  Lemma wf_narrow_wide pre c0 comps post :
    wf_sname junk junk_lead pre c0 comps post = true ->
    wf_sname_wide junk junk_lead pre c0 comps post = true /\ f6_pre pre = false.
  Proof.
    unfold wf_sname, wf_sname_wide, wf_sname_gen. rewrite !andb_true_iff. intros [[[H1 H2] H3] H4].
    rewrite all_in_forall in H1. split.
    - repeat split; auto. apply all_in_forall. auto.
    - unfold f6_pre. destruct (rev pre) as [|b [|b' r]] eqn:E; try reflexivity.
      destruct (b =? dot) eqn:Eb; [|reflexivity]. apply N.eqb_eq in Eb. subst b.
      assert (Hin : In dot pre) by (apply in_rev; rewrite E; left; reflexivity).
      apply H1, memb_In in Hin. congruence.
  Qed.

  Theorem classify_structured_wide uat pre c0 comps post :
    wf_sname_wide junk junk_lead pre c0 comps post = true -> f6_pre pre = false ->
    classify_top uat (render pre c0 comps post) = spec_classify uat c0 comps.
  Proof. intros W F. apply classify_structured_u; [apply wf_wide_u; exact W|exact F]. Qed.

  Theorem classify_structured uat pre c0 comps post :
    wf_sname junk junk_lead pre c0 comps post = true ->
    classify_top uat (render pre c0 comps post) = spec_classify uat c0 comps.
  Proof.
    intro W. destruct (wf_narrow_wide _ _ _ _ W) as [W' F]. apply classify_structured_wide; assumption.
  Qed.

  (* ---- corollaries in the property's own terms --------------------------- *)

  Lemma spec_scan_lower uat c0 c0' : lower_bytes c0 = lower_bytes c0' ->
    forall cr cr' a, map lower_bytes cr = map lower_bytes cr' ->
    spec_scan uat a c0 cr = spec_scan uat a c0' cr'.
  Proof.
    intro H0. induction cr as [|c cr IH]; intros [|c' cr'] a H; cbn [map] in H; try discriminate.
    - cbn [ClassifySpec.spec_scan]. unfold spec_name. rewrite H0. reflexivity.
    - inversion H as [[Hc Hr]]. cbn [ClassifySpec.spec_scan]. rewrite Hc.
      destruct (parse_i32_ok (lower_bytes c')); [apply IH; exact Hr|].
      destruct (assoc (lower_bytes c') sfx_table) as [[a'| | | | |t|]|]; try reflexivity; apply IH; exact Hr.
  Qed.

  (* (a) upper/lower case of any component is irrelevant *)
  Corollary classify_case uat pre c0 comps post pre' c0' comps' post' :
    wf_sname_u junk junk_lead pre c0 comps post = true -> f6_pre pre = false ->
    wf_sname_u junk junk_lead pre' c0' comps' post' = true -> f6_pre pre' = false ->
    lower_bytes c0 = lower_bytes c0' -> map lower_bytes comps = map lower_bytes comps' ->
    classify_top uat (render pre c0 comps post) = classify_top uat (render pre' c0' comps' post').
  Proof.
    intros W F W' F' E0 Ec. rewrite !classify_structured_u by assumption.
    unfold ClassifySpec.spec_classify. apply spec_scan_lower; [exact E0|].
    rewrite !map_rev, Ec. reflexivity.
  Qed.

  Lemma wf_u_app_l pre c0 comps extra post :
    wf_sname_u junk junk_lead pre c0 (comps ++ extra) post = true ->
    wf_sname_u junk junk_lead pre c0 comps post = true.
  Proof.
    unfold wf_sname_u. rewrite forallb_app, !andb_true_iff. tauto.
  Qed.

  Lemma spec_scan_rot uat c0 extra : forallb (rot_comp sfx_table) extra = true ->
    forall a cr, spec_scan uat a c0 (rev extra ++ cr) = spec_scan uat a c0 cr.
  Proof.
    induction extra as [|c extra IH] using rev_ind; intros Hall a cr; [reflexivity|].
    rewrite forallb_app in Hall. apply andb_true_iff in Hall as [Ha Hc].
    cbn [forallb] in Hc. rewrite andb_true_r in Hc.
    rewrite rev_app_distr. cbn [rev app ClassifySpec.spec_scan].
    unfold rot_comp in Hc. destruct (parse_i32_ok (lower_bytes c)); [apply IH; exact Ha|].
    cbn [orb] in Hc. destruct (assoc (lower_bytes c) sfx_table); [discriminate|]. apply IH; exact Ha.
  Qed.

  (* (b) any number of trailing numeric or unrecognised components changes nothing,
         whatever the container *)
  Corollary classify_rotation uat pre c0 comps extra post :
    wf_sname_u junk junk_lead pre c0 (comps ++ extra) post = true -> f6_pre pre = false ->
    forallb (rot_comp sfx_table) extra = true ->
    classify_top uat (render pre c0 (comps ++ extra) post) = classify_top uat (render pre c0 comps post).
  Proof.
    intros W F R. rewrite (classify_structured_u _ _ _ _ _ W F).
    rewrite (classify_structured_u _ _ _ _ _ (wf_u_app_l _ _ _ _ _ W) F).
    unfold ClassifySpec.spec_classify. rewrite rev_app_distr. apply spec_scan_rot. exact R.
  Qed.

  (* (c) a trailing compression word sets the container and is otherwise transparent:
         the name classifies as the name without it does when started in container a' *)
  Corollary classify_compress uat pre c0 comps c post a' :
    wf_sname_u junk junk_lead pre c0 (comps ++ [c]) post = true -> f6_pre pre = false ->
    parse_i32_ok (lower_bytes c) = false ->
    assoc (lower_bytes c) sfx_table = Some (SCompress a') ->
    classify_top uat (render pre c0 (comps ++ [c]) post) = spec_scan uat a' c0 (rev comps)
    /\ classify_top uat (render pre c0 (comps ++ [c]) post)
       = classify (S (length (render pre c0 comps post))) uat a' (render pre c0 comps post).
  Proof.
    intros W F Hn Ha.
    assert (E : classify_top uat (render pre c0 (comps ++ [c]) post) = spec_scan uat a' c0 (rev comps)).
    { rewrite (classify_structured_u _ _ _ _ _ W F). unfold ClassifySpec.spec_classify.
      rewrite rev_app_distr. cbn [rev app ClassifySpec.spec_scan]. rewrite Hn, Ha. reflexivity. }
    split; [exact E|]. rewrite E. symmetry.
    apply classify_structured_from; [exact (wf_u_app_l _ _ _ _ _ W)|exact F|apply length_render_gt].
  Qed.

  Lemma spec_scan_default uat c0 : assoc (lower_bytes c0) name_table = None ->
    forall cr a, (forall c, In c cr -> assoc (lower_bytes c) sfx_table = None) ->
    spec_scan uat a c0 cr = RFile (Text a).
  Proof.
    intros H0. induction cr as [|c cr IH]; intros a H; cbn [ClassifySpec.spec_scan].
    - unfold spec_name. rewrite H0. reflexivity.
    - rewrite (H c (or_introl eq_refl)).
      destruct (parse_i32_ok (lower_bytes c)); apply IH; intros; apply H; right; assumption.
  Qed.

  (* (d) a name without any recognised word is a plain text log *)
  Corollary classify_default_text uat pre c0 comps post :
    wf_sname_u junk junk_lead pre c0 comps post = true -> f6_pre pre = false ->
    (forall c, In c comps -> assoc (lower_bytes c) sfx_table = None) ->
    assoc (lower_bytes c0) name_table = None ->
    classify_top uat (render pre c0 comps post) = RFile (Text Normal).
  Proof.
    intros W F Hc H0. rewrite (classify_structured_u _ _ _ _ _ W F).
    unfold ClassifySpec.spec_classify. apply spec_scan_default; [exact H0|].
    intros c Hin. apply Hc. apply in_rev. exact Hin.
  Qed.

  (* (e) leading and trailing junk is ignored *)
  Corollary classify_junk uat pre c0 comps post :
    wf_sname_u junk junk_lead pre c0 comps post = true -> f6_pre pre = false ->
    classify_top uat (render pre c0 comps post) = classify_top uat (render [] c0 comps []).
  Proof.
    intros W F. rewrite (classify_structured_u _ _ _ _ _ W F). symmetry.
    apply classify_structured_u; [|reflexivity].
    unfold wf_sname_u in *. rewrite !andb_true_iff in *. cbn [all_in forallb]. tauto.
  Qed.

  (* ---- inside the class of known finding F6 -------------------------------- *)

  (* what the code does there, for every name of the class: the first component is read
     as one more suffix and the junk in front of it as an all-junk name *)
  Theorem classify_structured_f6 uat pre c0 comps post :
    wf_sname_u junk junk_lead pre c0 comps post = true -> f6_pre pre = true ->
    classify_top uat (render pre c0 comps post) = f6_classify sfx_table uat c0 comps.
  Proof.
    intros W Hf6. destruct (wf_sname_u_inv _ _ _ _ W) as [Hpre [Hpost [H0 Hall]]].
    unfold Classify.classify_top, f6_classify. rewrite render_body.
    apply classify_body_f6; try assumption.
    destruct (f6_pre_inv _ Hf6) as [y [pb Hp]]. subst pre.
    rewrite !app_length. cbn [length]. pose proof (length_body_ge c0 comps). lia.
  Qed.

  Lemma scan_gen_transparent uat base cr :
    forallb (transparent_comp sfx_table) cr = true ->
    forall a, exists a', scan_gen sfx_table base uat a cr = base a'.
  Proof.
    induction cr as [|c cr IH]; intros Hall a; cbn [scan_gen]; [eauto|].
    cbn [forallb] in Hall. apply andb_true_iff in Hall as [Hc Hr].
    unfold transparent_comp, rot_comp in Hc.
    destruct (parse_i32_ok (lower_bytes c)); [apply IH; exact Hr|]. cbn [orb] in Hc.
    destruct (assoc (lower_bytes c) sfx_table) as [[a'| | | | |t|]|]; try discriminate Hc; apply IH; exact Hr.
  Qed.

  Lemma spec_name_not_unparsable a c0 : spec_name name_table a c0 <> RFile Unparsable.
  Proof. unfold spec_name. destruct (assoc _ name_table) as [[| |t]|]; discriminate. Qed.

  (* the whole subclass "no component decides the type" deviates in a walked directory:
     the code skips the file (Unparsable), the property's reading never does *)
  Theorem classify_f6_walked_unparsable pre c0 comps post :
    wf_sname_u junk junk_lead pre c0 comps post = true -> f6_pre pre = true ->
    forallb (transparent_comp sfx_table) (c0 :: comps) = true ->
    classify_top false (render pre c0 comps post) = RFile Unparsable
    /\ spec_classify false c0 comps <> RFile Unparsable.
  Proof.
    intros W Hf6 Ht. split.
    - rewrite (classify_structured_f6 _ _ _ _ _ W Hf6). unfold f6_classify.
      destruct (scan_gen_transparent false (fallback_spec false) (rev (c0 :: comps))) with (a := Normal) as [a' E].
      + apply forallb_forall. intros c Hc. apply in_rev in Hc.
        rewrite forallb_forall in Ht. apply Ht. exact Hc.
      + rewrite E. reflexivity.
    - unfold ClassifySpec.spec_classify. rewrite spec_scan_gen.
      destruct (scan_gen_transparent false (fun a' => spec_name name_table a' c0) (rev comps)) with (a := Normal) as [a' E].
      + apply forallb_forall. intros c Hc. apply in_rev in Hc.
        rewrite forallb_forall in Ht. apply Ht. right. exact Hc.
      + rewrite E. apply spec_name_not_unparsable.
  Qed.

End Structured.
