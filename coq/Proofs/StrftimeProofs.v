(* Proofs/StrftimeProofs.v — the prepend separator inside the date format. *)
From S4.Base Require Import Bytes.
From S4.Model Require Import PrintCal Strftime Print Summary.
Open Scope nat_scope.

Lemma parse_lit s : ~ In 37%N s -> parse_fmt s = Some (map FLit s).
Proof.
  induction s as [|b s IH]; intro H; [reflexivity|]. simpl.
  destruct (N.eqb_spec b 37) as [E|E]; [exfalso; apply H; left; exact E|].
  simpl. rewrite IH; [reflexivity|]. intro Hin. apply H. right. exact Hin.
Qed.

Lemma fmt_items_lit t off s : fmt_items t off (map FLit s) = s.
Proof. unfold fmt_items. induction s as [|b s IH]; simpl; [reflexivity|]. f_equal. exact IH. Qed.

Lemma fmt_items_app t off a b : fmt_items t off (a ++ b) = fmt_items t off a ++ fmt_items t off b.
Proof. unfold fmt_items. apply flat_map_app. Qed.

(* default format: the date field is the formatted instant followed by the separator,
   for every separator without '%' *)
Lemma date_field_default sep t off : ~ In 37%N sep ->
  strftime (default_fmt ++ sep) t off =
  match strftime default_fmt t off with Some s => Some (s ++ sep) | None => None end.
Proof.
  intro H. unfold strftime, default_fmt. cbn [app parse_fmt N.eqb Pos.eqb negb simple_spec dotf nf ocons].
  rewrite (parse_lit sep H). cbn [ocons].
  change [FY; Fm; Fd; FLit 84%N; FH; FM; FS; FDot3; Fz] with ([FY; Fm; Fd; FLit 84%N; FH; FM; FS; FDot3; Fz] ++ []).
  change (FY :: Fm :: Fd :: FLit 84%N :: FH :: FM :: FS :: FDot3 :: Fz :: map FLit sep)
    with ([FY; Fm; Fd; FLit 84%N; FH; FM; FS; FDot3; Fz] ++ map FLit sep).
  rewrite !fmt_items_app, fmt_items_lit. unfold fmt_items at 3. simpl flat_map. rewrite app_nil_r. reflexivity.
Qed.

Example default_fmt_example :
  strftime default_fmt 1704164645123456789%Z (-12600)%Z
  = Some [50;48;50;52;48;49;48;49;84;50;51;51;52;48;53;46;49;50;51;45;48;51;51;48]%N.
Proof. vm_compute. reflexivity. Qed.

(* finding F12: a '%' in --prepend-separator is interpreted by strftime in the date field,
   but copied verbatim into the file field: "%%" prints as "%%" after the name and "%" after the date *)
Definition f12_cli : cli :=
  {| c_colour := false; c_prepend_file := true; c_align := false; c_psep := [37;37]%N;
     c_fmt := Some [37;89]%N; c_off := 0%Z; c_sep := []; c_summary := false |}.

Lemma prepend_separator_percent_refuted :
  let o := printer_opts f12_cli 0 {| s_name := [97%N]; s_nchars := 1; s_width := 1 |} in
  o_ff o = [97;37;37]%N /\ date_field o 0%Z = [49;57;55;48;37]%N.
Proof. vm_compute. auto. Qed.
