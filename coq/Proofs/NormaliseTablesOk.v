(* Proofs/NormaliseTablesOk.v — C04: finite obligations on the REGENERATED tables
   (Gen/DatetimeTables.v), each a boolean check closed by vm_compute and lifted with forallb_forall. *)
From Coq Require Import String.
From S4.Base Require Import Bytes.
From S4.Model Require Import Calendar Normalise.
From S4.Gen Require Import DatetimeTables.
From S4.Spec Require Import CalendarSpec TzRef NormaliseSpec.
Close Scope string_scope.
Open Scope list_scope.
Open Scope N_scope.

(* ---------------------------------------------------------------- zone table *)
(* a value is "" (ambiguous) or  sign H H : M M  with HH <= 14 and MM in {00,15,30,45} *)
Definition tz_value_wf (v : bytes) : bool :=
  match v with
  | [] => true
  | [sg; h1; h2; c; m1; m2] =>
      ((sg =? 43) || (sg =? 45)) && is_digit h1 && is_digit h2 && (c =? 58) && is_digit m1 && is_digit m2
      && ((h1 - 48) * 10 + (h2 - 48) <=? 14)
      && (let mm := (m1 - 48) * 10 + (m2 - 48) in (mm =? 0) || (mm =? 15) || (mm =? 30) || (mm =? 45))
  | _ => false
  end.
Definition tz_table_wf_b : bool := forallb (fun kv => tz_value_wf (snd kv)) tz_table.

(* what a table value denotes: None = ambiguous *)
Definition tz_value_off (v : bytes) : option (option Z) :=
  match v with
  | [] => Some None
  | _ => match scan_offset false v with Some (o, []) => Some (Some o) | _ => None end
  end.
Definition ooZ_eqb (a b : option (option Z)) : bool :=
  match a, b with
  | Some (Some x), Some (Some y) => (x =? y)%Z
  | Some None, Some None => true
  | None, None => true
  | _, _ => false
  end.
(* upper- and lower-case spelling of every key are both present and denote the same offset *)
Definition tz_case_agree_b : bool :=
  forallb (fun kv =>
    match assoc (lower_bytes (fst kv)) tz_table, assoc (upper_bytes (fst kv)) tz_table with
    | Some a, Some b => ooZ_eqb (tz_value_off a) (tz_value_off b) && ooZ_eqb (tz_value_off a) (tz_value_off (snd kv))
    | _, _ => false
    end) tz_table.
(* every name of the frozen reference (both spellings) is in the table with the reference offset *)
Definition tz_matches_ref_b : bool :=
  forallb (fun nv =>
    match assoc (fst nv) tz_table with
    | Some v => ooZ_eqb (tz_value_off v) (Some (snd nv))
    | None => false
    end) tz_ref_expanded.
(* and the table has no name the reference does not know *)
Definition tz_no_extra_b : bool :=
  forallb (fun kv => match zone_of_name (fst kv) with Some _ => true | None => false end) tz_table.

Lemma tz_table_wf_ok : tz_table_wf_b = true. Proof. vm_compute. reflexivity. Qed.
Lemma tz_case_agree_ok : tz_case_agree_b = true. Proof. vm_compute. reflexivity. Qed.
Lemma tz_matches_ref_ok : tz_matches_ref_b = true. Proof. vm_compute. reflexivity. Qed.
Lemma tz_no_extra_ok : tz_no_extra_b = true. Proof. vm_compute. reflexivity. Qed.

Lemma tz_table_wf_all : forall k v, In (k, v) tz_table -> tz_value_wf v = true.
Proof.
  intros k v H. pose proof tz_table_wf_ok as T. unfold tz_table_wf_b in T.
  rewrite forallb_forall in T. exact (T (k, v) H).
Qed.

Lemma tz_matches_ref_all : forall name v, In (name, v) tz_ref_expanded ->
  exists s, assoc name tz_table = Some s /\ tz_value_off s = Some v.
Proof.
  intros name v H. pose proof tz_matches_ref_ok as T. unfold tz_matches_ref_b in T.
  rewrite forallb_forall in T. specialize (T (name, v) H). cbn [fst snd] in T.
  destruct (assoc name tz_table) as [s|]; [|discriminate]. exists s. split; [reflexivity|].
  destruct (tz_value_off s) as [[x|]|], v as [y|]; cbn in T; try discriminate; try reflexivity.
  apply Z.eqb_eq in T. subst. reflexivity.
Qed.

(* ---------------------------------------------------------------- month table *)
Definition two_digit_val (v : bytes) : option Z :=
  match v with [a; b] => if is_digit a && is_digit b then Some (Z.of_N ((a - 48) * 10 + (b - 48))) else None | _ => None end.
Definition oZ_eqb (a b : option Z) : bool :=
  match a, b with Some x, Some y => (x =? y)%Z | None, None => true | _, _ => false end.
(* every arm of month_bB_to_month_m_bytes maps an accepted English spelling to its month number *)
Definition month_table_sound_b : bool :=
  forallb (fun kv => match two_digit_val (snd kv) with
                     | Some n => oZ_eqb (month_of_name (fst kv)) (Some n)
                     | None => false end) month_table.
(* every reference spelling (lower/Title/UPPER x abbr / abbr. / full) has an arm — all of them, "may."
   included since the fix of F12 (commit 653ab12e) *)
Definition month_table_complete_b : bool :=
  forallb (fun sv => match assoc (fst sv) month_table with
                     | Some v => oZ_eqb (two_digit_val v) (Some (snd sv))
                     | None => false end) ref_month_spellings.
Lemma month_table_sound_ok : month_table_sound_b = true. Proof. vm_compute. reflexivity. Qed.
Lemma month_table_complete_ok : month_table_complete_b = true. Proof. vm_compute. reflexivity. Qed.

Lemma month_table_complete_all : forall sp n, In (sp, n) ref_month_spellings ->
  exists v, assoc sp month_table = Some v /\ two_digit_val v = Some n.
Proof.
  intros sp n H. pose proof month_table_complete_ok as T. unfold month_table_complete_b in T.
  rewrite forallb_forall in T. specialize (T (sp, n) H). cbn [fst snd] in T.
  destruct (assoc sp month_table) as [v|]; [|discriminate]. exists v. split; [reflexivity|].
  destruct (two_digit_val v); cbn in T; [|discriminate]. apply Z.eqb_eq in T. subst. reflexivity.
Qed.

(* regression lemma for F12 (fixed): the table WITHOUT the three "may." arms (= the table before the fix)
   makes captures_to_buffer_bytes panic on "May.", the current table maps it to "05" *)
Definition may_dot (sp : bytes) : bool := beqb (lower_bytes sp) [109; 97; 121; 46].
Definition month_table_before_fix : list (bytes * bytes) := filter (fun kv => negb (may_dot (fst kv))) month_table.
Lemma may_dot_regression_lemma :
  let sp := [77; 97; 121; 46] in
  In (sp, 5%Z) ref_month_spellings /\
  assoc sp month_table_before_fix = None /\
  (forall d c, f_month d = Mo_b -> c_month c = Some sp -> seg_month month_table_before_fix d c = None) /\
  (forall d c, f_month d = Mo_b -> c_month c = Some sp -> seg_month month_table d c = Some [48; 53]).
Proof.
  cbv zeta. split; [vm_compute; tauto|]. split; [vm_compute; reflexivity|]. split.
  - intros d c Hm Hc. unfold seg_month. rewrite Hm, Hc. vm_compute. reflexivity.
  - intros d c Hm Hc. unfold seg_month. rewrite Hm, Hc. vm_compute. reflexivity.
Qed.

(* ---------------------------------------------------------------- pattern table *)
(* the strftime items the generic theorem expects for a DTFSSet: the order of the normalised buffer *)
Definition is_y2 (d : dtfs) : bool := match f_year d with Y_y => true | _ => false end.
Definition sec_present (d : dtfs) : bool := match f_second d with S_none => false | _ => true end.
Definition frac_present (d : dtfs) : bool := match f_frac d with F_f => true | F_none => false end.
Definition tz_perm (d : dtfs) : bool := match f_tz d with Tz_zp => true | _ => false end.

Definition canon_items (y2 hs hf perm : bool) : list item :=
  [if y2 then IYear2 else IYear; IMonth; IDay; ILit 84; IHour; IMinute]
  ++ (if hs then [ISecond] else []) ++ (if hf then [ILit 46; INano] else []) ++ [IOffset perm].
Definition epoch_items (hf : bool) : list item :=
  [ITimestamp; ILit 84] ++ (if hf then [ILit 46; INano] else []).

Definition civil_supported (d : dtfs) : bool :=
  (match f_year d with Y_none => false | _ => true end)
  && (match f_month d with Mo_none => false | _ => true end)
  && (match f_day d with D_ed => true | D_none => false end)
  && (match f_hour d with H_H | H_k => true | _ => false end)
  && (match f_minute d with Mi_M => true | Mi_none => false end)
  && (match f_tz d with Tz_none => false | _ => true end)
  && (match f_epoch d with E_none => true | E_s => false end)
  && (sec_present d || negb (frac_present d)).
Definition epoch_supported (d : dtfs) : bool :=
  match f_epoch d, f_year d, f_month d, f_day d, f_hour d, f_minute d, f_second d, f_tz d with
  | E_s, Y_none, Mo_none, D_none, H_none, Mi_none, S_none, Tz_none => true
  | _, _, _, _, _, _, _, _ => false
  end.

Fixpoint item_eqb (a b : item) : bool :=
  match a, b with
  | IYear, IYear | IYear2, IYear2 | IMonth, IMonth | IDay, IDay | IHour, IHour | IMinute, IMinute
  | ISecond, ISecond | INano, INano | ITimestamp, ITimestamp => true
  | ILit x, ILit y => x =? y
  | IOffset p, IOffset q => Bool.eqb p q
  | _, _ => false
  end.
Fixpoint items_eqb (a b : list item) : bool :=
  match a, b with
  | [], [] => true
  | x :: a', y :: b' => item_eqb x y && items_eqb a' b'
  | _, _ => false
  end.
Lemma item_eqb_eq a b : item_eqb a b = true -> a = b.
Proof.
  destruct a, b; cbn; intros H; try discriminate; try reflexivity.
  - apply N.eqb_eq in H. congruence.
  - apply Bool.eqb_prop in H. congruence.
Qed.
Lemma items_eqb_eq a b : items_eqb a b = true -> a = b.
Proof.
  revert b. induction a as [|x a IH]; intros [|y b] H; cbn in H; try discriminate; try reflexivity.
  apply andb_true_iff in H as [H1 H2]. apply item_eqb_eq in H1. apply IH in H2. congruence.
Qed.

Definition pattern_is (d : dtfs) (its : list item) : bool :=
  match items_of_pattern (f_pattern d) with Some p => items_eqb p its | None => false end.

(* "pattern is interdependent with the other members": the row's strftime pattern is exactly the one
   the DTFS fields require, and the field combination is one the generic theorem covers *)
Definition dtfs_ok (d : dtfs) : bool :=
  (civil_supported d && pattern_is d (canon_items (is_y2 d) (sec_present d) (frac_present d) (tz_perm d)))
  || (epoch_supported d && pattern_is d (epoch_items (frac_present d))).

Definition rows_ok_b : bool := forallb (fun r => dtfs_ok (r_dtfs r)) dt_table.
Lemma rows_ok_ok : rows_ok_b = true. Proof. vm_compute. reflexivity. Qed.
Lemma rows_ok_all : forall r, In r dt_table -> dtfs_ok (r_dtfs r) = true.
Proof. pose proof rows_ok_ok as T. unfold rows_ok_b in T. rewrite forallb_forall in T. exact T. Qed.

(* side conditions the EZCHECK argument and the text-pipeline domain (DESIGN 5) rely on *)
Definition ranges_start_zero_b : bool := forallb (fun r => r_start r =? 0) dt_table.
Definition all_patterns_need_d2_b : bool := forallb (fun r => has_d2 (r_dtfs r)) dt_table.
Definition ranges_wide_enough_b : bool := forallb (fun r => r_start r <? r_end r) dt_table.
Definition row_indexes_b : bool :=
  (fix go (i : N) (l : list dt_row) : bool :=
     match l with [] => true | r :: t => (r_index r =? i) && go (i + 1) t end) 0 dt_table.
Lemma ranges_start_zero_ok : ranges_start_zero_b = true. Proof. vm_compute. reflexivity. Qed.
Lemma all_patterns_need_d2_ok : all_patterns_need_d2_b = true. Proof. vm_compute. reflexivity. Qed.
Lemma ranges_wide_enough_ok : ranges_wide_enough_b = true. Proof. vm_compute. reflexivity. Qed.
Lemma row_indexes_ok : row_indexes_b = true. Proof. vm_compute. reflexivity. Qed.
