(* Proofs/KeyedMap.v — facts about the key-sorted association list of Model/Records.v
   (the model of BTreeMap) that C08 and C10 share. *)
From Coq Require Import List NArith ZArith Bool Lia Sorted Permutation.
Import ListNotations.
From S4.Spec Require Import RecordsSpec.
From S4.Model Require Import Records.
Open Scope N_scope.

Section KeyMapFacts.
  Variable K V : Type.
  Variable kcmp : K -> K -> comparison.
  Hypothesis kcmp_gt_lt : forall a b, kcmp a b = Gt -> kcmp b a = Lt.
  Hypothesis kcmp_lt_trans : forall a b c, kcmp a b = Lt -> kcmp b c = Lt -> kcmp a c = Lt.

  Definition klt (a b : K * V) : Prop := kcmp (fst a) (fst b) = Lt.
  Definition ksorted (m : kmap K V) : Prop := StronglySorted klt m.

  Lemma minsert_key_in (k : K) (v : V) (m : kmap K V) (e : K * V) :
    In e (minsert kcmp k v m) -> fst e = k \/ In (fst e) (map fst m).
  Proof.
    induction m as [|[k' v'] r IH]; simpl.
    - intros [<-|[]]. left; reflexivity.
    - destruct (kcmp k k'); simpl.
      + intros [<-|H]; [right; left; reflexivity|]. right; right. apply in_map. exact H.
      + intros [<-|[<-|H]]; [left; reflexivity|right; left; reflexivity|].
        right; right. apply in_map; exact H.
      + intros [<-|H]; [right; left; reflexivity|].
        destruct (IH H) as [E|E]; [left; exact E|right; right; exact E].
  Qed.

  Lemma minsert_ksorted (k : K) (v : V) (m : kmap K V) : ksorted m -> ksorted (minsert kcmp k v m).
  Proof.
    unfold ksorted. induction m as [|[k' v'] r IH]; simpl; intro H.
    - constructor; constructor.
    - inversion H as [|? ? Hr Hk]; subst.
      destruct (kcmp k k') eqn:E.
      + (* equal key: same keys as before *)
        constructor; [exact Hr|]. exact Hk.
      + constructor; [exact H|].
        constructor; [exact E|].
        rewrite Forall_forall in Hk. apply Forall_forall. intros e He.
        unfold klt in *. simpl in *. apply (kcmp_lt_trans k k' (fst e)); [exact E|apply Hk; exact He].
      + constructor; [apply IH; exact Hr|].
        apply Forall_forall. intros e He. unfold klt; simpl.
        destruct (minsert_key_in _ _ _ _ He) as [->|Hin].
        * apply kcmp_gt_lt; exact E.
        * apply in_map_iff in Hin as [e' [Ee' He']]. rewrite <- Ee'.
          rewrite Forall_forall in Hk. apply (Hk e' He').
  Qed.
End KeyMapFacts.
Arguments klt {K V} kcmp a b.
Arguments ksorted {K V} kcmp m.

(* ------------------------------------------------------------------ minsert = insert_after *)
(* When the new element compares Gt against exactly the stored elements it must follow and
   Lt against the others, inserting its key is the stable insertion of the element. *)
Section InsertAgree.
  Variable E K V : Type.
  Variable kcmp : K -> K -> comparison.
  Variable key : E -> K.
  Variable val : E -> V.
  Variable tle : E -> E -> bool.
  Definition deco (e : E) : K * V := (key e, val e).

  Lemma minsert_insert_after x l :
    (forall y, In y l -> kcmp (key x) (key y) = if tle y x then Gt else Lt) ->
    minsert kcmp (key x) (val x) (map deco l) = map deco (insert_after tle x l).
  Proof.
    induction l as [|y r IH]; intro H; simpl.
    - reflexivity.
    - rewrite (H y (or_introl eq_refl)).
      destruct (tle y x); simpl.
      + rewrite IH; [reflexivity|]. intros z Hz. apply H. right; exact Hz.
      + reflexivity.
  Qed.
End InsertAgree.
Arguments deco {E K V} key val e.

(* ------------------------------------------------------------------ the walk *)
Section WalkFacts.
  Variable K : Type.
  Variable kcmp : K -> K -> comparison.
  Hypothesis kcmp_refl : forall a, kcmp a a = Eq.

  Definition next_fo (filesz : N) (r : kmap K N) : N :=
    match r with [] => filesz | (_, v') :: _ => v' end.

  Lemma walk_S f filesz fo (m : kmap K N) acc :
    walk kcmp (S f) filesz fo m acc =
    if filesz <=? fo then WDone (rev acc)
    else let '(nxt, m') := process_entry_at kcmp filesz fo m in walk kcmp f filesz nxt m' (fo :: acc).
  Proof. reflexivity. Qed.

  Lemma process_entry_at_head filesz k v (r : kmap K N) :
    process_entry_at kcmp filesz v ((k, v) :: r) = (next_fo filesz r, r).
  Proof.
    unfold process_entry_at. cbn [find_next]. rewrite N.eqb_refl.
    cbn [mremove]. rewrite kcmp_refl. destruct r as [|[k2 v2] r]; reflexivity.
  Qed.

  Lemma walk_all filesz k v r acc :
    Forall (fun e => snd e < filesz) ((k, v) :: r) ->
    walk kcmp (length ((k, v) :: r)) filesz v ((k, v) :: r) acc
    = WDone (rev acc ++ map snd ((k, v) :: r)).
  Proof.
    revert k v acc. induction r as [|[k2 v2] r IH]; intros k v acc H.
    - inversion H as [|? ? Hv _]; subst. simpl in Hv.
      change (length [(k, v)]) with 1%nat. rewrite walk_S.
      assert (E1 : (filesz <=? v) = false) by (apply N.leb_gt; exact Hv).
      rewrite E1, process_entry_at_head. cbn. rewrite N.leb_refl. reflexivity.
    - inversion H as [|? ? Hv Hr]; subst. simpl in Hv.
      change (length ((k, v) :: (k2, v2) :: r)) with (S (length ((k2, v2) :: r))).
      rewrite walk_S.
      assert (E1 : (filesz <=? v) = false) by (apply N.leb_gt; exact Hv).
      rewrite E1, process_entry_at_head. cbn [next_fo].
      rewrite (IH k2 v2 (v :: acc) Hr). cbn [rev map snd]. rewrite <- app_assoc. reflexivity.
  Qed.

  Lemma min_from_head e r :
    Forall (fun e' => kcmp (fst e) (fst e') = Lt) r -> min_from kcmp e r = e.
  Proof.
    induction r as [|e' r IH]; intro H; simpl; [reflexivity|].
    inversion H as [|? ? He Hr]; subst.
    unfold entry_cmp. rewrite He. apply IH; exact Hr.
  Qed.

  Lemma fileoffset_first_head e r :
    ksorted kcmp (e :: r) -> fileoffset_first kcmp (e :: r) = Some (snd e).
  Proof.
    intro H. inversion H as [|? ? _ He]; subst. simpl.
    rewrite min_from_head; [reflexivity|exact He].
  Qed.

  (* the driver: a non-empty key-sorted map whose values are all inside the file is walked
     completely, in key order, with fuel = number of entries *)
  Lemma walk_sorted_map filesz (m : kmap K N) :
    ksorted kcmp m -> Forall (fun e => snd e < filesz) m ->
    match fileoffset_first kcmp m with
    | None => WDone []
    | Some fo => walk kcmp (length m) filesz fo m []
    end = WDone (map snd m).
  Proof.
    intros Hs Hv. destruct m as [|[k v] r]; [reflexivity|].
    rewrite fileoffset_first_head by exact Hs. simpl snd.
    rewrite walk_all by exact Hv. reflexivity.
  Qed.
End WalkFacts.

(* ------------------------------------------------------------------ comparisons *)
Lemma tv_cmp_lt a b :
  tv_cmp a b = Lt <-> (fst a < fst b \/ (fst a = fst b /\ snd a < snd b))%Z.
Proof.
  unfold tv_cmp. destruct (Z.compare_spec (fst a) (fst b)); [|intuition (try lia; try discriminate)..].
  rewrite Z.compare_lt_iff. intuition lia.
Qed.
Lemma tv_cmp_gt a b :
  tv_cmp a b = Gt <-> (fst b < fst a \/ (fst a = fst b /\ snd b < snd a))%Z.
Proof.
  unfold tv_cmp. destruct (Z.compare_spec (fst a) (fst b)); [|intuition (try lia; try discriminate)..].
  rewrite Z.compare_gt_iff. intuition lia.
Qed.
Lemma tv_cmp_eq a b : tv_cmp a b = Eq <-> a = b.
Proof.
  unfold tv_cmp. destruct a as [a1 a2], b as [b1 b2]; simpl.
  destruct (Z.compare_spec a1 b1) as [E|E|E].
  - rewrite Z.compare_eq_iff. split; [intros ->; subst; reflexivity|intro G; inversion G; reflexivity].
  - split; [discriminate|intro G; inversion G; lia].
  - split; [discriminate|intro G; inversion G; lia].
Qed.
Lemma tv_cmp_antisym a b : tv_cmp b a = CompOpp (tv_cmp a b).
Proof.
  destruct (tv_cmp a b) eqn:E; simpl.
  - apply tv_cmp_eq in E. subst. apply tv_cmp_eq. reflexivity.
  - apply tv_cmp_lt in E. apply tv_cmp_gt. intuition lia.
  - apply tv_cmp_gt in E. apply tv_cmp_lt. intuition lia.
Qed.
Lemma tv_cmp_refl a : tv_cmp a a = Eq.
Proof. apply tv_cmp_eq. reflexivity. Qed.

Lemma tv_leb_total a b : tv_leb a b = true \/ tv_leb b a = true.
Proof.
  unfold tv_leb. rewrite (tv_cmp_antisym a b). destruct (tv_cmp a b); simpl; auto.
Qed.
Lemma tv_leb_iff a b : tv_leb a b = true <-> tv_cmp a b <> Gt.
Proof. unfold tv_leb, cmp_leb. destruct (tv_cmp a b); split; congruence. Qed.
Lemma tv_leb_trans a b c : tv_leb a b = true -> tv_leb b c = true -> tv_leb a c = true.
Proof.
  rewrite !tv_leb_iff. intros H1 H2 H3. apply tv_cmp_gt in H3.
  assert (G1 : ~ (fst b < fst a \/ fst a = fst b /\ snd b < snd a)%Z) by (intro G; apply H1; apply tv_cmp_gt; exact G).
  assert (G2 : ~ (fst c < fst b \/ fst b = fst c /\ snd c < snd b)%Z) by (intro G; apply H2; apply tv_cmp_gt; exact G).
  lia.
Qed.

(* pair keys (time, position) *)
Section PairCmp.
  Variable T : Type.
  Variable tcmp : T -> T -> comparison.
  Hypothesis tcmp_antisym : forall a b, tcmp b a = CompOpp (tcmp a b).
  Hypothesis tcmp_lt_trans : forall a b c, tcmp a b = Lt -> tcmp b c = Lt -> tcmp a c = Lt.
  Hypothesis tcmp_eq_lt : forall a b c, tcmp a b = Eq -> tcmp b c = Lt -> tcmp a c = Lt.
  Hypothesis tcmp_lt_eq : forall a b c, tcmp a b = Lt -> tcmp b c = Eq -> tcmp a c = Lt.
  Hypothesis tcmp_eq_trans : forall a b c, tcmp a b = Eq -> tcmp b c = Eq -> tcmp a c = Eq.

  Lemma tcmp_refl' a : tcmp a a = Eq.
  Proof. pose proof (tcmp_antisym a a) as H. destruct (tcmp a a); simpl in H; congruence. Qed.

  Lemma pair_cmp_refl a : pair_cmp tcmp a a = Eq.
  Proof. unfold pair_cmp. rewrite tcmp_refl'. apply N.compare_refl. Qed.

  Lemma pair_cmp_gt_lt a b : pair_cmp tcmp a b = Gt -> pair_cmp tcmp b a = Lt.
  Proof.
    unfold pair_cmp. rewrite (tcmp_antisym (fst a) (fst b)).
    destruct (tcmp (fst a) (fst b)) eqn:E; simpl.
    - rewrite N.compare_gt_iff, N.compare_lt_iff. auto.
    - discriminate.
    - reflexivity.
  Qed.

  Lemma pair_cmp_lt_trans a b c :
    pair_cmp tcmp a b = Lt -> pair_cmp tcmp b c = Lt -> pair_cmp tcmp a c = Lt.
  Proof.
    unfold pair_cmp.
    destruct (tcmp (fst a) (fst b)) eqn:E1; destruct (tcmp (fst b) (fst c)) eqn:E2;
      try discriminate; intros H1 H2.
    - rewrite (tcmp_eq_trans _ _ _ E1 E2). rewrite N.compare_lt_iff in *. lia.
    - rewrite (tcmp_eq_lt _ _ _ E1 E2). reflexivity.
    - rewrite (tcmp_lt_eq _ _ _ E1 E2). reflexivity.
    - rewrite (tcmp_lt_trans _ _ _ E1 E2). reflexivity.
  Qed.
End PairCmp.

(* instances *)
Lemma tv_cmp_lt_trans a b c : tv_cmp a b = Lt -> tv_cmp b c = Lt -> tv_cmp a c = Lt.
Proof. rewrite !tv_cmp_lt. lia. Qed.
Lemma tv_cmp_eq_lt a b c : tv_cmp a b = Eq -> tv_cmp b c = Lt -> tv_cmp a c = Lt.
Proof. intros H; apply tv_cmp_eq in H; subst; auto. Qed.
Lemma tv_cmp_lt_eq a b c : tv_cmp a b = Lt -> tv_cmp b c = Eq -> tv_cmp a c = Lt.
Proof. intros H1 H; apply tv_cmp_eq in H; subst; auto. Qed.
Lemma tv_cmp_eq_trans a b c : tv_cmp a b = Eq -> tv_cmp b c = Eq -> tv_cmp a c = Eq.
Proof. intros H; apply tv_cmp_eq in H; subst; auto. Qed.

Lemma Zcmp_antisym (a b : Z) : Z.compare b a = CompOpp (Z.compare a b).
Proof. apply Z.compare_antisym. Qed.
Lemma Zcmp_lt_trans (a b c : Z) : Z.compare a b = Lt -> Z.compare b c = Lt -> Z.compare a c = Lt.
Proof. rewrite !Z.compare_lt_iff. lia. Qed.
Lemma Zcmp_eq_lt (a b c : Z) : Z.compare a b = Eq -> Z.compare b c = Lt -> Z.compare a c = Lt.
Proof. rewrite Z.compare_eq_iff. intros ->; auto. Qed.
Lemma Zcmp_lt_eq (a b c : Z) : Z.compare a b = Lt -> Z.compare b c = Eq -> Z.compare a c = Lt.
Proof. rewrite (Z.compare_eq_iff b c). intros H ->; auto. Qed.
Lemma Zcmp_eq_trans (a b c : Z) : Z.compare a b = Eq -> Z.compare b c = Eq -> Z.compare a c = Eq.
Proof. rewrite !Z.compare_eq_iff. congruence. Qed.

Definition k2_refl := pair_cmp_refl tv tv_cmp tv_cmp_antisym.
Definition k2_gt_lt := pair_cmp_gt_lt tv tv_cmp tv_cmp_antisym.
Definition k2_lt_trans :=
  pair_cmp_lt_trans tv tv_cmp tv_cmp_lt_trans tv_cmp_eq_lt tv_cmp_lt_eq tv_cmp_eq_trans.
Definition ek_refl := pair_cmp_refl Z Z.compare Zcmp_antisym.
Definition ek_gt_lt := pair_cmp_gt_lt Z Z.compare Zcmp_antisym.
Definition ek_lt_trans :=
  pair_cmp_lt_trans Z Z.compare Zcmp_lt_trans Zcmp_eq_lt Zcmp_lt_eq Zcmp_eq_trans.
