(* Proofs/TempFilesProofs.v — proofs about Model/TempFiles.v (property C18). *)
From Coq Require Import List Bool Arith Lia.
Import ListNotations.
From S4.Model Require Import TempFiles.

Lemma Forall_upd {A} (P : A -> Prop) (f : A -> A) i l :
  Forall P l -> (forall x, P x -> P (f x)) -> Forall P (upd i f l).
Proof.
  intros H Hf. revert i. induction H as [|x l Hx Hl IH]; intros [|i]; simpl; auto.
Qed.

Lemma Forall_map_same {A} (P Q : A -> Prop) (f : A -> A) l :
  Forall P l -> (forall x, P x -> Q (f x)) -> Forall Q (map f l).
Proof. intros H Hf. induction H; simpl; auto. Qed.

Lemma files_zero s : Forall (fun w => has_file w = false) (ws s) -> files s = 0.
Proof.
  unfold files. intro H. induction H as [|w l Hw Hl IH]; simpl; auto.
  rewrite Hw. exact IH.
Qed.

Lemma run_app p s a b : run p s (a ++ b) = run p (run p s a) b.
Proof. unfold run. apply fold_left_app. Qed.

Lemma run_exited p s evs : mp s = MExited -> run p s evs = s.
Proof.
  revert s. induction evs as [|e evs IH]; intros s H; simpl; auto.
  assert (step p s e = s) as ->. { unfold step. rewrite H. reflexivity. }
  apply IH, H.
Qed.

(* ------------------------------------------------------------------ current protocol, no signal *)
Definition okw (w : worker) : Prop :=
  match pc w with
  | WInit => has_file w = false /\ registered w = false
  | WCreated => registered w = false
  | WRegistered | WDone => registered w = true
  | WDropped | WRefused => has_file w = false
  end.

Definition quiet (w : worker) : Prop := finished w = true /\ has_file w = false.

Definition inv_cur (s : state) : Prop :=
  Forall okw (ws s) /\ hpc s = 0 /\ (mp s <> MRun -> Forall quiet (ws s)).

Lemma okw_wstep p c w : p <> Pfixed -> okw w -> okw (wstep p c w).
Proof.
  intros Hp. unfold okw, wstep. destruct w as [pcw hf rg]; simpl.
  destruct pcw; simpl; intros H; try tauto; destruct p; simpl; try tauto; auto.
Qed.

Lemma quiet_wstep p c w : quiet w -> quiet (wstep p c w).
Proof.
  unfold quiet, finished, wstep. destruct w as [pcw hf rg]; simpl.
  destruct pcw; simpl; intros [H1 H2]; try discriminate; auto.
Qed.

Lemma okw_sweep w : okw w -> okw (sweep w).
Proof.
  unfold okw, sweep. destruct w as [pcw hf rg]; simpl.
  destruct rg; simpl; auto. destruct pcw; simpl; intros H; try tauto; try discriminate.
Qed.

Lemma quiet_sweep_finished w : okw w -> finished w = true -> quiet (sweep w).
Proof.
  unfold okw, quiet, finished, sweep. destruct w as [pcw hf rg]; simpl.
  destruct pcw; simpl; intros H F; try discriminate; subst; simpl; auto.
  destruct rg; simpl; auto. destruct rg; simpl; auto.
Qed.

Lemma inv_cur_step s e :
  inv_cur s -> (match e with EH => False | _ => True end) -> inv_cur (step Pcur s e).
Proof.
  intros (Hok & Hh & Hq) He. unfold step.
  destruct (mp s) eqn:Hmp.
  - (* MRun *)
    destruct e as [i| |]; [| contradiction |].
    + repeat split; simpl; auto.
      * apply Forall_upd; auto. intros x Hx. apply okw_wstep; auto. discriminate.
      * intros H; congruence.
    + destruct (main_may_leave s) eqn:Hl.
      * repeat split; simpl; auto.
        -- eapply Forall_map_same; eauto. intros x Hx. apply okw_sweep; auto.
        -- intros _. unfold main_may_leave in Hl. rewrite Hh in Hl. simpl in Hl.
           rewrite orb_false_r in Hl. rewrite forallb_forall in Hl.
           rewrite Forall_forall in Hok. apply Forall_forall. intros y Hy.
           apply in_map_iff in Hy as (x & <- & Hx). apply quiet_sweep_finished; auto.
      * repeat split; auto.
  - (* MSwept *)
    assert (Forall quiet (ws s)) as Q by (apply Hq; congruence).
    destruct e as [i| |]; [| contradiction |].
    + repeat split; simpl; auto.
      * apply Forall_upd; auto. intros x Hx. apply okw_wstep; auto. discriminate.
      * intros _. apply Forall_upd; auto. intros x Hx. apply quiet_wstep; auto.
    + repeat split; simpl; auto.
  - repeat split; auto. intros _. apply Hq. congruence.
Qed.

Lemma inv_cur_run evs : forall s,
  inv_cur s -> no_signal evs = true -> inv_cur (run Pcur s evs).
Proof.
  induction evs as [|e evs IH]; intros s H Hn; simpl; auto.
  simpl in Hn. apply andb_true_iff in Hn as [He Hn].
  apply IH; auto. apply inv_cur_step; auto. destruct e; auto; discriminate.
Qed.

Lemma inv_cur_init n : inv_cur (init n).
Proof.
  repeat split; simpl; auto.
  - apply Forall_forall. intros w Hw. apply repeat_spec in Hw. subst. unfold okw; simpl; auto.
  - intros H; congruence.
Qed.

(* After a normal run (no SIGINT) of the current protocol no temporary file exists when the
   process ends — for every number of sources and every interleaving. *)
Lemma normal_exit_clean_cur n evs :
  no_signal evs = true ->
  exited (run Pcur (init n) evs) = true ->
  files (run Pcur (init n) evs) = 0.
Proof.
  intros Hn He.
  destruct (inv_cur_run evs (init n) (inv_cur_init n) Hn) as (_ & _ & Hq).
  apply files_zero. unfold exited in He.
  destruct (mp (run Pcur (init n) evs)) eqn:Hm; try discriminate.
  assert (Forall quiet (ws (run Pcur (init n) evs))) as Q by (apply Hq; congruence).
  eapply Forall_impl; [|exact Q]. intros w [_ H]; exact H.
Qed.

(* ------------------------------------------------------------------ repaired protocol, any signal *)
Definition nofile (w : worker) : Prop := has_file w = false.
Definition inv_fix (s : state) : Prop :=
  Forall (fun w => has_file w = true -> registered w = true) (ws s)
  /\ (closed s = true -> Forall nofile (ws s))
  /\ (mp s <> MRun -> closed s = true).

Lemma sweep_nofile w : (has_file w = true -> registered w = true) -> nofile (sweep w).
Proof.
  unfold nofile, sweep. destruct w as [pcw hf rg]; simpl. destruct rg; simpl; auto.
  destruct hf; auto. intros H. specialize (H eq_refl). discriminate.
Qed.

Lemma sweep_reg w : (has_file w = true -> registered w = true) ->
  (has_file (sweep w) = true -> registered (sweep w) = true).
Proof. unfold sweep. destruct w as [pcw hf rg]; simpl. destruct rg; simpl; auto. Qed.

Lemma inv_fix_step s e : inv_fix s -> inv_fix (step Pfixed s e).
Proof.
  intros (Hr & Hc & Hm). unfold step.
  destruct (mp s) eqn:Hmp.
  - destruct e as [i| |].
    + repeat split; simpl.
      * apply Forall_upd; auto. intros [pcw hf rg]; unfold wstep; simpl.
        destruct pcw; simpl; auto; destruct (closed s); simpl; auto; discriminate.
      * intros C. specialize (Hc C). apply Forall_upd; auto.
        intros [pcw hf rg]; unfold wstep, nofile; simpl. rewrite C.
        destruct pcw; simpl; auto.
      * congruence.
    + destruct (hpc s) as [|[|[|k]]]; repeat split; simpl; auto; try congruence.
      * eapply Forall_map_same; eauto. intros x Hx. apply sweep_reg; auto.
      * intros _. eapply Forall_map_same; eauto. intros x Hx. apply sweep_nofile; auto.
    + destruct (main_may_leave s); repeat split; simpl; auto; try congruence.
      * eapply Forall_map_same; eauto. intros x Hx. apply sweep_reg; auto.
      * intros _. eapply Forall_map_same; eauto. intros x Hx. apply sweep_nofile; auto.
  - assert (closed s = true) as C by (apply Hm; congruence).
    destruct e as [i| |].
    + repeat split; simpl; auto.
      * apply Forall_upd; auto. intros [pcw hf rg]; unfold wstep; simpl.
        destruct pcw; simpl; auto; destruct (closed s); simpl; auto; discriminate.
      * intros _. specialize (Hc C). apply Forall_upd; auto.
        intros [pcw hf rg]; unfold wstep, nofile; simpl. rewrite C.
        destruct pcw; simpl; auto.
    + destruct (hpc s) as [|[|[|k]]]; repeat split; simpl; auto.
      * eapply Forall_map_same; eauto. intros x Hx. apply sweep_reg; auto.
      * intros _. eapply Forall_map_same; eauto. intros x Hx. apply sweep_nofile; auto.
    + repeat split; simpl; auto.
  - repeat split; auto. intros _. apply Hm. congruence.
Qed.

Lemma inv_fix_run evs : forall s, inv_fix s -> inv_fix (run Pfixed s evs).
Proof.
  induction evs as [|e evs IH]; intros s H; simpl; auto. apply IH, inv_fix_step, H.
Qed.

Lemma inv_fix_init n : inv_fix (init n).
Proof.
  repeat split; simpl.
  - apply Forall_forall. intros w Hw. apply repeat_spec in Hw. subst. simpl. discriminate.
  - discriminate.
  - congruence.
Qed.

(* With creation+registration atomic and refused after the registry is closed, no file exists
   at process end for every number of sources, every interleaving and every signal moment. *)
Lemma exit_clean_fixed n evs :
  exited (run Pfixed (init n) evs) = true -> files (run Pfixed (init n) evs) = 0.
Proof.
  intros He. destruct (inv_fix_run evs (init n) (inv_fix_init n)) as (_ & Hc & Hm).
  apply files_zero. unfold exited in He.
  destruct (mp (run Pfixed (init n) evs)) eqn:E; try discriminate.
  apply Hc, Hm. congruence.
Qed.

(* ------------------------------------------------------------------ witnesses (refuted) *)
(* F11 (repaired): before the fix commit a NORMAL run could end with the file still there:
   the worker has sent its summary but has not dropped its reader when main exits. *)
Lemma normal_exit_leak_old_refuted :
  exists evs, no_signal evs = true /\ exited (run Pold (init 1) evs) = true
              /\ files (run Pold (init 1) evs) = 1.
Proof. exists [EW 0; EW 0; EW 0; EM]. vm_compute. auto. Qed.

(* F5: the current protocol leaks when SIGINT is handled between creation and registration ... *)
Lemma sigint_leak_cur_refuted_create_register :
  exists evs, exited (run Pcur (init 1) evs) = true /\ files (run Pcur (init 1) evs) = 1.
Proof. exists [EW 0; EH; EH; EH; EM; EM]. vm_compute. auto. Qed.

(* ... and when a worker creates its file after the handler (and main's final sweep) ran. *)
Lemma sigint_leak_cur_refuted_create_after_handler :
  exists evs, exited (run Pcur (init 2) evs) = true /\ files (run Pcur (init 2) evs) = 1.
Proof. exists [EH; EH; EH; EM; EW 1; EW 1; EM]. vm_compute. auto. Qed.

(* non-vacuity: normal runs that exit exist, with several workers and late drops *)
Example normal_run_exists :
  let evs := [EW 0; EW 1; EW 0; EW 1; EW 0; EW 1; EM; EW 0; EM] in
  no_signal evs = true /\ exited (run Pcur (init 2) evs) = true /\ files (run Pcur (init 2) evs) = 0.
Proof. vm_compute. auto. Qed.

(* ------------------------------------------------------------------ promptness *)
(* F5b: while the coordinator is blocked in select and no worker sends, neither the handler
   nor main can make progress: the process cannot exit, however many steps they attempt. *)
Lemma prompt_blocked_stays evs : forall s,
  blocked s = true -> pexit s = false -> no_send evs = true ->
  prun false s evs = s.
Proof.
  induction evs as [|e evs IH]; intros s Hb Hx Hn; simpl; auto.
  simpl in Hn. apply andb_true_iff in Hn as [He Hn].
  assert (pstep false s e = s) as ->.
  { unfold pstep. rewrite Hx. destruct e; try rewrite Hb; auto. discriminate. }
  apply IH; auto.
Qed.

Lemma prompt_refuted evs : no_send evs = true -> pexit (prun false pblocked0 evs) = false.
Proof. intros H. rewrite prompt_blocked_stays; auto. Qed.

(* ... and even while workers keep sending, the schedule in which main re-enters select before the
   handler is scheduled (the handler must win the lock in the short gap between two selects) starves
   the handler for any number of rounds: no bound on the steps to exit. *)
Lemma prompt_starvation_refuted k :
  pexit (prun false pblocked0 (concat (repeat [PWorkerSend; PMain; PHandler] k))) = false.
Proof.
  assert (forall k, prun false pblocked0 (concat (repeat [PWorkerSend; PMain; PHandler] k)) = pblocked0) as H.
  { intro n. induction n as [|n IH]; [reflexivity|].
    cbn [repeat concat]. unfold prun in *. rewrite fold_left_app. cbn [fold_left app].
    replace (pstep false (pstep false (pstep false pblocked0 PWorkerSend) PMain) PHandler) with pblocked0
      by (vm_compute; reflexivity).
    exact IH. }
  rewrite H. reflexivity.
Qed.

(* with a select that times out, main + handler + main reach the exit from every state *)
Lemma prompt_with_timeout s : pexit (prun true s [PMain; PHandler; PMain; PHandler; PMain]) = true.
Proof. destruct s as [[|] [|] [|]]; vm_compute; reflexivity. Qed.

(* ------------------------------------------------------------------ promptness, general form *)
Lemma pstep_gen_false_is_pstep t s e : pstep_gen t false s e = pstep t s e.
Proof. unfold pstep_gen, pstep. destruct (pexit s); [reflexivity|]. destruct e; reflexivity. Qed.

(* with the timeout alone: main leaves its wait and re-enters it (two main steps) before the
   handler is scheduled — for ever *)
Lemma prompt_timeout_alone_starves k :
  pexit (prun_gen true false pblocked0 (concat (repeat [PMain; PMain; PHandler] k))) = false
  /\ hdone (prun_gen true false pblocked0 (concat (repeat [PMain; PMain; PHandler] k))) = false.
Proof.
  assert (H : forall k, prun_gen true false pblocked0 (concat (repeat [PMain; PMain; PHandler] k)) = pblocked0).
  { clear k. induction k as [|k IH]; [reflexivity|].
    replace (S k) with (k + 1) by (rewrite Nat.add_comm; reflexivity).
    rewrite repeat_app, concat_app. unfold prun_gen in *. rewrite fold_left_app, IH. reflexivity. }
  rewrite H. split; reflexivity.
Qed.

(* with both features: once the handler has taken its first step, [hdone] stays set ... *)
Lemma pgen_hdone_stays evs : forall s, hdone s = true -> pexit s = false ->
  let s' := prun_gen true true s evs in pexit s' = true \/ hdone s' = true.
Proof.
  induction evs as [|e evs IH]; intros s Hd Hx; cbn [prun_gen fold_left]; [right; exact Hd|].
  fold (prun_gen true true (pstep_gen true true s e) evs).
  destruct (pexit (pstep_gen true true s e)) eqn:Ex.
  - left. clear IH. revert Ex. generalize (pstep_gen true true s e). intros s1 E1.
    induction evs as [|e' evs IH']; [exact E1|]. cbn [prun_gen fold_left].
    assert (pstep_gen true true s1 e' = s1) as -> by (unfold pstep_gen; rewrite E1; reflexivity).
    exact IH'.
  - apply IH; [|exact Ex].
    unfold pstep_gen in *. rewrite Hx in *. destruct e; cbn in *; try exact Hd; try reflexivity.
    destruct (blocked s); cbn in *; [exact Hd|]. rewrite Hd in *. cbn in Ex. discriminate.
Qed.

(* ... and two steps of main, wherever they fall among any other events, reach the exit *)
Lemma prompt_both_after_handler evs : forall s, hdone s = true ->
  2 <= count_main evs -> pexit (prun_gen true true s evs) = true.
Proof.
  assert (Hstay : forall evs s, pexit s = true -> pexit (prun_gen true true s evs) = true).
  { induction evs0 as [|e' evs0 IH']; intros s1 E1; [exact E1|]. cbn [prun_gen fold_left].
    fold (prun_gen true true (pstep_gen true true s1 e') evs0).
    assert (pstep_gen true true s1 e' = s1) as -> by (unfold pstep_gen; rewrite E1; reflexivity).
    apply IH'; exact E1. }
  (* generalise over the number of main steps still needed: 2 if blocked, 1 if not *)
  assert (G : forall evs s, hdone s = true ->
              (if blocked s then 2 else 1) <= count_main evs -> pexit (prun_gen true true s evs) = true).
  { induction evs0 as [|e evs0 IH]; intros s Hd Hc.
    - cbn in Hc. destruct (blocked s); inversion Hc.
    - cbn [prun_gen fold_left]. fold (prun_gen true true (pstep_gen true true s e) evs0).
      destruct (pexit s) eqn:Hx.
      { apply Hstay. unfold pstep_gen. rewrite Hx. exact Hx. }
      unfold count_main in Hc. cbn [filter] in Hc.
      destruct e; cbn [length] in Hc; fold (count_main evs0) in Hc.
      + (* PHandler *) apply IH.
        * unfold pstep_gen. rewrite Hx. reflexivity.
        * unfold pstep_gen. rewrite Hx. cbn. exact Hc.
      + (* PMain *) unfold pstep_gen. rewrite Hx. destruct (blocked s) eqn:Hb.
        * apply IH; cbn; [exact Hd|]. apply le_S_n. exact Hc.
        * rewrite Hd. apply Hstay. reflexivity.
      + (* silent *) apply IH.
        * unfold pstep_gen. rewrite Hx. exact Hd.
        * unfold pstep_gen. rewrite Hx. exact Hc.
      + (* send *) apply IH.
        * unfold pstep_gen. rewrite Hx. exact Hd.
        * unfold pstep_gen. rewrite Hx. cbn. destruct (blocked s); [|exact Hc].
          apply le_S_n. apply le_S. exact Hc. }
  intros s Hd Hc. apply G; [exact Hd|]. destruct (blocked s); [exact Hc|].
  apply le_S_n. apply le_S. exact Hc.
Qed.

Theorem prompt_both_all_schedules s evs1 evs2 :
  2 <= count_main evs2 ->
  pexit (prun_gen true true s (evs1 ++ PHandler :: evs2)) = true.
Proof.
  intros Hc. unfold prun_gen. rewrite fold_left_app. cbn [fold_left].
  fold (prun_gen true true s evs1). set (s1 := prun_gen true true s evs1).
  fold (prun_gen true true (pstep_gen true true s1 PHandler) evs2).
  destruct (pexit s1) eqn:Hx.
  - assert (pstep_gen true true s1 PHandler = s1) as -> by (unfold pstep_gen; rewrite Hx; reflexivity).
    clear - Hx. revert s1 Hx. induction evs2 as [|e evs IH]; intros s1 Hx; [exact Hx|].
    cbn [prun_gen fold_left]. fold (prun_gen true true (pstep_gen true true s1 e) evs).
    assert (pstep_gen true true s1 e = s1) as -> by (unfold pstep_gen; rewrite Hx; reflexivity).
    apply IH; exact Hx.
  - apply prompt_both_after_handler; [|exact Hc]. unfold pstep_gen. rewrite Hx. reflexivity.
Qed.

Example prompt_both_example :
  pexit (prun_gen true true pblocked0 [PWorkerSilent; PHandler; PWorkerSilent; PMain; PWorkerSilent; PMain]) = true
  /\ count_main [PWorkerSilent; PMain; PWorkerSilent; PMain] = 2.
Proof. vm_compute. split; reflexivity. Qed.
